/-
C17 — extension: global laws of the dispatch decision lists of `Model/Meta.lean`
(bounds on the number of callees per operation, independence of irrelevant state such as the `@base`
chain, absence of right-operand dispatch for comparisons, derived comparisons as exact negations,
Bool-ness of derived / host comparison results).
-/
import KotoVerif.Model.Meta
import KotoVerif.Lemmas.C17

namespace KotoVerif.C17Ext
open KotoVerif.Meta KotoVerif.Gen KotoVerif.C17L

/-! ## helpers -/

/-- a host method call records at most one callee -/
theorem hostcall_trace_le_one (h : HostD) (m : HM) (args : List AV) :
    (h.call m args).1.length ≤ 1 := by
  unfold HostD.call
  cases h.impl.lookup m <;> simp

/-- `cmpCall` records exactly what `invoke` records -/
theorem cmpCall_trace (tag : Name) (key : MKey) (mv : MV) (lhs rhs : Opd) :
    (cmpCall tag key mv lhs rhs).1 = (invoke tag key mv lhs.av [rhs.av]).1 := by
  unfold cmpCall
  split <;> simp_all

theorem cmpCall_trace_le_one (tag : Name) (key : MKey) (mv : MV) (lhs rhs : Opd) :
    (cmpCall tag key mv lhs rhs).1.length ≤ 1 := by
  rw [cmpCall_trace]; exact invoke_trace_le_one ..

/-- a (possibly derived) host comparison records at most two callees -/
theorem hostcmp_trace_le_two (h : HostD) (m : HM) (a : AV) : (h.cmp m a).1.length ≤ 2 := by
  have h1 := hostcall_trace_le_one h .less [a]
  have h2 := hostcall_trace_le_one h .equal [a]
  unfold HostD.cmp
  cases h.impl.lookup m with
  | some b => simp
  | none =>
    cases m <;> simp only [HostD.lessOrEqualDefault, HostD.greaterDefault,
      HostD.greaterOrEqualDefault, HostD.notEqualDefault] <;>
    (try simp) <;>
    (repeat' split) <;> simp_all <;> omega

/-! ## how many callees an operation can run -/

theorem rhsAfterUnimpl_trace_le (op : ArithOp) (lhs rhs : Opd) (pre : List Ev) :
    (rhsAfterUnimpl op lhs rhs pre).trace.length ≤ pre.length + 1 := by
  unfold rhsAfterUnimpl
  cases rhs with
  | prim k => simp
  | host h =>
    have := hostcall_trace_le_one h op.rhm [lhs.av]
    simp only [hostRhs]
    split <;> simp_all <;> omega
  | map m2 =>
    simp only
    cases hk : m2.metaGet op.rkey with
    | none => simp
    | some p =>
      obtain ⟨tag, mv⟩ := p
      have := invoke_trace_le_one tag op.rkey mv (Opd.map m2).av [lhs.av]
      simp [mapRhs]; omega

theorem rhsDirect_trace_le (op : ArithOp) (lhs rhs : Opd) :
    (rhsDirect op lhs rhs).trace.length ≤ 1 := by
  unfold rhsDirect
  cases rhs with
  | prim k => simp
  | host h =>
    have := hostcall_trace_le_one h op.rhm [lhs.av]
    simp only [hostRhs]
    split <;> simp_all
  | map m2 =>
    simp only
    cases hk : m2.metaGet op.rkey with
    | none => cases lhs <;> simp <;> split <;> simp
    | some p =>
      obtain ⟨tag, mv⟩ := p
      have := invoke_trace_le_one tag op.rkey mv (Opd.map m2).av [lhs.av]
      simp [mapRhs]; omega

/-- every binary arithmetic operation, on any pair of operands, runs at most two callees
(the left operand's entry and, after `unimplemented`, the right operand's) -/
theorem arith_calls_at_most_two (op : ArithOp) (lhs rhs : Opd) :
    (arith op lhs rhs).trace.length ≤ 2 := by
  cases lhs with
  | prim a =>
    cases rhs with
    | prim b => simp [arith]; split <;> simp
    | map m2 => have := rhsDirect_trace_le op (.prim a) (.map m2); simp [arith]; omega
    | host h2 => have := rhsDirect_trace_le op (.prim a) (.host h2); simp [arith]; omega
  | map m =>
    simp only [arith]
    cases hk : m.metaGet op.key with
    | none => have := rhsDirect_trace_le op (.map m) rhs; simp; omega
    | some p =>
      obtain ⟨tag, mv⟩ := p
      have h1 := invoke_trace_le_one tag op.key mv (Opd.map m).av [rhs.av]
      simp only
      split
      · rename_i t heq
        have := rhsAfterUnimpl_trace_le op (.map m) rhs t
        rw [heq] at h1; simp at h1; omega
      · rename_i t r _ heq
        rw [heq] at h1; simp at h1; simp; omega
  | host h =>
    have h1 := hostcall_trace_le_one h op.hm [rhs.av]
    simp only [arith]
    split
    · rename_i t v heq; rw [heq] at h1; simp at h1; simp; omega
    · rename_i t heq
      have := rhsAfterUnimpl_trace_le op (.host h) rhs t
      rw [heq] at h1; simp at h1; omega
    · rename_i t heq; rw [heq] at h1; simp at h1; simp; omega

/-! ## comparisons never dispatch to the right operand -/

/-- a comparison whose left operand is a built-in value runs no callee at all, whatever the right
operand defines: unlike arithmetic (`@r+` …) there is no right-operand fallback for `<`…`!=` -/
theorem cmp_prim_lhs_no_dispatch (op : CmpOp) (a : PrimK) (rhs : Opd) :
    (compareOp op (.prim a) rhs).trace = [] := by
  cases op <;> cases rhs <;> simp [compareOp, order, equality] <;>
    (repeat' split) <;> simp_all

theorem lessThenEqual_trace_le_two (m : MapD) (lt eq : Name × MV) (lhs rhs : Opd) (neg : Bool) :
    (lessThenEqual m lt eq lhs rhs neg).trace.length ≤ 2 := by
  have h1 := cmpCall_trace_le_one lt.1 .Less lt.2 lhs rhs
  have h2 := cmpCall_trace_le_one eq.1 .Equal eq.2 lhs rhs
  unfold lessThenEqual
  (repeat' split) <;> simp_all <;> omega

/-- every comparison, on any pair of operands, runs at most two callees (`@<` then `@==`) -/
theorem compare_calls_at_most_two (op : CmpOp) (lhs rhs : Opd) :
    (compareOp op lhs rhs).trace.length ≤ 2 := by
  cases lhs with
  | prim a => rw [cmp_prim_lhs_no_dispatch]; simp
  | host h =>
    have := fun m => hostcmp_trace_le_two h m rhs.av
    cases op <;> simp only [compareOp, order, equality] <;> (repeat' split) <;> simp_all
  | map m =>
    have hi := fun tag key mv => invoke_trace_le_one tag key mv (Opd.map m).av [rhs.av]
    have hc := fun tag key mv => cmpCall_trace_le_one tag key mv (Opd.map m) rhs
    have hl := fun lt eq neg => lessThenEqual_trace_le_two m lt eq (Opd.map m) rhs neg
    cases op <;> simp only [compareOp, order, equality] <;> (repeat' split) <;> simp_all <;>
      (first
        | exact Nat.le_trans (hi _ _ _) (by decide)
        | grind)


/-! ## independence of irrelevant state -/

/-- arithmetic on a map left operand depends on that map only through its identity and its own
entry for the operator: data entries, every other metakey, `@meta` names, `@type` and the whole
`@base` chain are irrelevant (operators are never inherited through `@base`) -/
theorem arith_lhs_depends_only_on_own_entry (op : ArithOp) (m m' : MapD) (rhs : Opd)
    (hn : m.top.name = m'.top.name) (hk : m.metaGet op.key = m'.metaGet op.key) :
    arith op (.map m) rhs = arith op (.map m') rhs := by
  have hav : (Opd.map m).av = (Opd.map m').av := by simp [Opd.av, MapD.av, hn]
  have hR : ∀ pre, rhsAfterUnimpl op (.map m) rhs pre = rhsAfterUnimpl op (.map m') rhs pre := by
    intro pre
    cases rhs <;> simp only [rhsAfterUnimpl, hostRhs, mapRhs, hav]
  have hD : rhsDirect op (.map m) rhs = rhsDirect op (.map m') rhs := by
    cases rhs <;> simp only [rhsDirect, hostRhs, mapRhs, hav]
  simp only [arith, hk, hav, hR, hD]

/-- … in particular the `@base` chain of the left operand is never consulted -/
theorem arith_ignores_base_chain (op : ArithOp) (m : MapD) (bs : List Layer) (rhs : Opd) :
    arith op (.map { m with bases := bs }) rhs = arith op (.map m) rhs :=
  arith_lhs_depends_only_on_own_entry op _ _ rhs rfl rfl

/-- the same for the right operand: only its identity and its own `@r…` entry matter -/
theorem arith_rhs_depends_only_on_own_entry (op : ArithOp) (lhs : Opd) (m m' : MapD)
    (hn : m.top.name = m'.top.name) (hk : m.metaGet op.rkey = m'.metaGet op.rkey) :
    arith op lhs (.map m) = arith op lhs (.map m') := by
  have hav : (Opd.map m).av = (Opd.map m').av := by simp [Opd.av, MapD.av, hn]
  have hR : ∀ pre, rhsAfterUnimpl op lhs (.map m) pre = rhsAfterUnimpl op lhs (.map m') pre := by
    intro pre
    simp only [rhsAfterUnimpl, mapRhs, hav, hk]
  have hD : rhsDirect op lhs (.map m) = rhsDirect op lhs (.map m') := by
    simp only [rhsDirect, mapRhs, hav, hk]
  cases lhs <;> simp only [arith, hav, hR, hD]

example : ∃ m m' : MapD, m ≠ m' ∧ m.top.name = m'.top.name ∧
    m.metaGet ArithOp.add.key = m'.metaGet ArithOp.add.key ∧ (m.metaGet ArithOp.add.key).isSome :=
  ⟨{ top := { name := 1, src := .own { tag := 3, ops := [(.Add, .fn .unimpl)] } } },
   { top := { name := 1, data := [4], src := .own { tag := 3, ops := [(.Add, .fn .unimpl), (.Size, .nonCallable)] } },
     bases := [{ name := 2 }] }, by decide, by decide, by decide, by decide⟩


/-! ## derived comparisons are exact negations -/

/-- logical negation of a Bool result; everything else (errors, non-Bool values) is left alone -/
def negRes : Res → Res
  | .ok (.bool b) => .ok (.bool (!b))
  | r => r

/-- for a map that defines `@<` and `@==` but neither `@>` nor `@<=`, `a > b` runs exactly the callees
of `a <= b` (same functions, same operands, same order, `@==` skipped in the same cases) and yields
the negated Bool or the very same error — for every behaviour of the two entries -/
theorem derived_gt_is_not_le (m : MapD) (rhs : Opd) (lt eq : Name × MV)
    (hlt : m.metaGet .Less = some lt) (heq : m.metaGet .Equal = some eq)
    (hle : m.metaGet .LessOrEqual = none) (hgt : m.metaGet .Greater = none) :
    order .gt (.map m) rhs
      = ⟨(order .le (.map m) rhs).trace, negRes (order .le (.map m) rhs).res⟩ := by
  simp only [order, CmpOp.key, hlt, heq, hle, hgt, lessThenEqual]
  (repeat' split) <;> simp_all [negRes]

example : ∃ m : MapD, m.metaGet .Less = some (3, .fn (.ret (.bool false))) ∧
    m.metaGet .Equal = some (3, .fn (.ret (.bool true))) ∧
    m.metaGet .LessOrEqual = none ∧ m.metaGet .Greater = none :=
  ⟨{ top := { name := 1, src := .own { tag := 3, ops := [(.Less, .fn (.ret (.bool false))), (.Equal, .fn (.ret (.bool true)))] } } },
   by decide, by decide, by decide, by decide⟩

/-- for a map that defines `@==` but not `@!=`, `a != b` runs exactly the callees of `a == b`, and
whenever `a == b` is a Bool, `a != b` is its negation (any right operand, `null` included) -/
theorem derived_ne_is_not_eq (m : MapD) (rhs : Opd) (e : Name × MV)
    (heq : m.metaGet .Equal = some e) (hne : m.metaGet .NotEqual = none) :
    (equality true (.map m) rhs).trace = (equality false (.map m) rhs).trace ∧
    ∀ b, (equality false (.map m) rhs).res = .ok (.bool b) →
      (equality true (.map m) rhs).res = .ok (.bool (!b)) := by
  obtain ⟨tag, mv⟩ := e
  by_cases hr : rhs = .prim .null
  · subst hr; simp [equality]
  · have hE : ∀ ne, equality ne (.map m) rhs =
        (if ne then
          (match cmpCall tag .Equal mv (.map m) rhs with
            | (t, .error e) => (⟨t, .err e⟩ : Out)
            | (t, .ok b) => ⟨t, .ok (.bool (!b))⟩)
        else
          ⟨(invoke tag .Equal mv (Opd.map m).av [rhs.av]).1,
            (invoke tag .Equal mv (Opd.map m).av [rhs.av]).2.pass⟩) := by
      intro ne
      cases rhs with
      | prim k => cases k <;> cases ne <;> simp_all [equality] <;> rfl
      | map m2 => cases ne <;> simp [equality, heq, hne] <;> rfl
      | host h2 => cases ne <;> simp [equality, heq, hne] <;> rfl
    rw [hE true, hE false]
    simp only [cmpCall]
    generalize invoke tag .Equal mv (Opd.map m).av [rhs.av] = p
    obtain ⟨t, r⟩ := p
    cases r with
    | ret v => cases v <;> simp [CallRes.pass]
    | _ => simp [CallRes.pass]


example : ∃ m : MapD, m.metaGet .Equal = some (3, .fn (.ret (.bool true))) ∧ m.metaGet .NotEqual = none ∧
    (equality false (.map m) (.prim .num)).res = .ok (.bool true) :=
  ⟨{ top := { name := 1, src := .own { tag := 3, ops := [(.Equal, .fn (.ret (.bool true)))] } } },
   by decide, by decide, by decide⟩

/-! ## results of host and derived comparisons are Bools -/

/-- whatever a host object's comparison methods return and whichever of them are overridden, a
successful host comparison (overridden or trait default) hands the script a Bool -/
theorem host_cmp_result_is_bool (h : HostD) (m : HM) (a v : AV)
    (hv : (h.cmp m a).2 = .ok v) : ∃ b, v = .bool b := by
  unfold HostD.cmp at hv
  cases hl : h.impl.lookup m with
  | some b =>
    simp only [hl] at hv
    split at hv <;>
      first | (simp at hv; done) | (simp at hv; exact ⟨_, hv.symm⟩) | simp_all
  | none =>
    simp only [hl] at hv
    cases m <;> simp only [HostD.lessOrEqualDefault, HostD.greaterDefault,
      HostD.greaterOrEqualDefault, HostD.notEqualDefault] at hv <;>
    (try simp at hv) <;>
    (repeat' split at hv) <;>
      first | (simp at hv; done) | (simp at hv; exact ⟨_, hv.symm⟩) | simp_all

/-- hence every comparison operator with a host object on the left yields a Bool or an error -/
theorem host_compare_is_bool (op : CmpOp) (h : HostD) (rhs : Opd) (v : AV)
    (hv : (compareOp op (.host h) rhs).res = .ok v) : ∃ b, v = .bool b := by
  have key : ∀ m, ((h.cmp m rhs.av).2.pass = .ok v) → ∃ b, v = .bool b := by
    intro m hm
    cases hc : (h.cmp m rhs.av).2 with
    | ok w =>
      rw [hc] at hm; simp [HostRes.pass] at hm; subst hm
      exact host_cmp_result_is_bool h m rhs.av w hc
    | unimpl => rw [hc] at hm; simp [HostRes.pass] at hm
    | err => rw [hc] at hm; simp [HostRes.pass] at hm
  cases op <;> cases rhs <;> simp only [compareOp, order, equality] at hv <;>
    (repeat' split at hv) <;> simp_all <;> exact key _ hv

example : (compareOp .gt (.host { name := 1, impl := [(.less, .ret (.bool false)), (.equal, .ret (.int 3))] })
    (.prim .num)).res = .ok (.bool true) := by decide


/-! ## compound assignment: the variable keeps the left operand; callee count -/

/-- whatever the operands define and whatever the callee returns, a successful compound assignment
leaves the left operand itself in the variable (or is the built-in Number arm): the callee's value
is never used -/
theorem compound_value_is_lhs (op : ArithOp) (lhs rhs : Opd) (same : Bool) (v : AV)
    (hv : (compound op lhs rhs same).res = .ok v) : v = lhs.av ∨ v = .builtin := by
  unfold compound at hv
  (repeat' split at hv) <;> simp_all [CallRes.pass, HostRes.pass] <;>
    (repeat' split at hv) <;> simp_all

/-- a compound assignment runs at most one callee besides the `copy` of an aliased host operand, and
never falls back to the right operand's entries -/
theorem compound_calls_bounded (op : ArithOp) (lhs rhs : Opd) (same : Bool) :
    (compound op lhs rhs same).trace.length ≤ (if same then 2 else 1) ∧
    ((compound op lhs rhs same).trace.filter (fun e => e.key != .copy)).length ≤ 1 := by
  have hi := fun tag mv => invoke_trace_le_one tag op.akey mv lhs.av [rhs.av]
  have hh := fun (h : HostD) a => hostcall_trace_le_one h op.ahm a
  have hf : ∀ t : List Ev, t.length ≤ 1 → (t.filter (fun e => e.key != .copy)).length ≤ 1 :=
    fun t ht => Nat.le_trans (List.length_filter_le _ _) ht
  unfold compound
  (repeat' split) <;> simp_all <;> grind

/-! ## unary and protocol operations run at most one callee -/

/-- negation, `size`, indexing, index assignment and calling run at most one callee each -/
theorem protocol_calls_at_most_one (o : Opd) (i : IdxK) :
    (negate o).trace.length ≤ 1 ∧ (size o).trace.length ≤ 1 ∧ (index o i).trace.length ≤ 1 ∧
    (indexAssign o i).trace.length ≤ 1 ∧ (callOp o).trace.length ≤ 1 := by
  cases o with
  | prim k => cases k <;> cases i <;> simp [negate, size, index, indexAssign, callOp]
  | map m =>
    have hi := fun tag key mv args => invoke_trace_le_one tag key mv m.av args
    simp only [negate, size, index, indexAssign, callOp]
    refine ⟨?_, ?_, ?_, ?_, ?_⟩ <;> (repeat' split) <;> simp_all <;> grind
  | host h =>
    have hh := fun m a => hostcall_trace_le_one h m a
    simp only [negate, size, index, indexAssign, callOp]
    refine ⟨?_, ?_, ?_, ?_, ?_⟩ <;> (repeat' split) <;> simp_all <;> grind


example : (compound .add (.map { top := { name := 1, src := .own { tag := 3, ops := [(.AddAssign, .fn (.ret (.int 9)))] } } })
    (.prim .num) false).res = .ok (.obj 1) := by decide

/-! ## derived map comparisons yield Bools -/

/-- when a map lacks the operator's own key, a successful `<=`, `>`, `>=` (derived from `@<`/`@==`)
is a Bool — whereas an own entry's value is passed through unchanged (`cmp_own_key`) -/
theorem derived_order_is_bool (op : CmpOp) (m : MapD) (rhs : Opd) (v : AV)
    (hk : m.metaGet op.key = none) (hv : (order op (.map m) rhs).res = .ok v) : ∃ b, v = .bool b := by
  simp only [order, hk, lessThenEqual] at hv
  (repeat' split at hv) <;>
    first | (simp at hv; done) | (simp at hv; exact ⟨_, hv.symm⟩) | simp_all

example : ∃ m : MapD, m.metaGet CmpOp.ge.key = none ∧
    (order .ge (.map m) (.prim .num)).res = .ok (.bool true) :=
  ⟨{ top := { name := 1, src := .own { tag := 3, ops := [(.Less, .fn (.ret (.bool false)))] } } },
   by decide, by decide⟩


/-! ## host objects: trait-default comparisons are exact negations -/

def negHost : HostRes → HostRes
  | .ok (.bool b) => .ok (.bool (!b))
  | r => r

/-- a host object that does not override `greater_or_equal` / `not_equal`: `a >= b` (`a != b`) runs
exactly the callees of `a < b` (`a == b`) and yields the negated Bool or the same error — whether or
not `less` / `equal` themselves are implemented, and whatever they return -/
theorem host_default_ge_ne_negate (h : HostD) (a : AV) :
    (h.impl.lookup .greaterOrEqual = none →
      h.cmp .greaterOrEqual a = ((h.cmp .less a).1, negHost (h.cmp .less a).2)) ∧
    (h.impl.lookup .notEqual = none →
      h.cmp .notEqual a = ((h.cmp .equal a).1, negHost (h.cmp .equal a).2)) := by
  constructor <;> intro hn <;>
    simp only [HostD.cmp, hn, HostD.greaterOrEqualDefault, HostD.notEqualDefault, HostD.call]
  · cases hl : h.impl.lookup .less with
    | none => simp [negHost]
    | some b => cases hb : b.hostRes h.av <;> simp [negHost, hb]
  · cases hl : h.impl.lookup .equal with
    | none => simp [negHost]
    | some b => cases hb : b.hostRes h.av <;> simp [negHost, hb]

/-- a host object that overrides neither `greater` nor `less_or_equal`: `a > b` runs exactly the
callees of `a <= b` and yields the negated Bool or the same error -/
theorem host_default_gt_is_not_le (h : HostD) (a : AV)
    (hg : h.impl.lookup .greater = none) (hle : h.impl.lookup .lessOrEqual = none) :
    h.cmp .greater a = ((h.cmp .lessOrEqual a).1, negHost (h.cmp .lessOrEqual a).2) := by
  simp only [HostD.cmp, hg, hle, HostD.greaterDefault, HostD.lessOrEqualDefault, HostD.call]
  cases hl : h.impl.lookup .less with
  | none => simp [negHost]
  | some b =>
    cases hb : b.hostRes h.av with
    | ok v =>
      cases htv : truthy v with
      | true => simp [negHost, htv, hb]
      | false =>
        cases he : h.impl.lookup .equal with
        | none => simp [negHost, htv, hb]
        | some b2 => cases hb2 : b2.hostRes h.av <;> simp [negHost, htv, hb, hb2]
    | unimpl => simp [negHost, hb]
    | err => simp [negHost, hb]

example : ∃ h : HostD, h.impl.lookup .greater = none ∧ h.impl.lookup .lessOrEqual = none ∧
    h.impl.lookup .greaterOrEqual = none ∧ h.impl.lookup .notEqual = none ∧
    (h.cmp .lessOrEqual (.int 1)).2 = .ok (.bool true) :=
  ⟨{ name := 1, impl := [(.less, .ret (.bool false)), (.equal, .ret (.bool true))] },
   by decide, by decide, by decide, by decide, by decide⟩

/-! ## which errors arithmetic can report -/

/-- an `InvalidBinaryOp` error of `a op b` names the operator itself or — only when the right operand
is a host object — its `r`-form; never a compound-assignment key or another operator -/
theorem arith_error_key (op : ArithOp) (lhs rhs : Opd) (k : MKey)
    (he : (arith op lhs rhs).res = .err (.binop k)) :
    k = op.key ∨ (k = op.rkey ∧ ∃ h2, rhs = .host h2) := by
  have hR : ∀ pre, (rhsAfterUnimpl op lhs rhs pre).res = .err (.binop k) →
      k = op.key ∨ (k = op.rkey ∧ ∃ h2, rhs = .host h2) := by
    intro pre hp
    unfold rhsAfterUnimpl hostRhs mapRhs at hp
    (repeat' split at hp) <;> simp_all [CallRes.pass] <;>
      (repeat' split at hp) <;> simp_all
  have hD : (rhsDirect op lhs rhs).res = .err (.binop k) →
      k = op.key ∨ (k = op.rkey ∧ ∃ h2, rhs = .host h2) := by
    intro hp
    unfold rhsDirect hostRhs mapRhs at hp
    (repeat' split at hp) <;> simp_all [CallRes.pass] <;>
      (repeat' split at hp) <;> simp_all
  unfold arith at he
  (repeat' split at he) <;>
    first
    | exact hR _ he
    | exact hD he
    | (rename_i r _ _; cases r <;> simp_all [CallRes.pass])
    | simp_all [CallRes.pass]

example : (arith .sub (.prim .num) (.host { name := 1 })).res = .err (.binop ArithOp.sub.rkey) := by decide


end KotoVerif.C17Ext
