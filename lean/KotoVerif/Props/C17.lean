/-
C17 — objects: operators and protocols dispatch to metamap entries as documented.

Property theorems about the decision lists of `Model/Meta.lean` (which mirror vm.rs, see there).
All statements are for arbitrary operand descriptions: any set of metakeys in any insertion order,
any `@base` chain depth, own or shared metamaps, any callee behaviour.
-/
import KotoVerif.Model.Meta
import KotoVerif.Lemmas.C17

namespace KotoVerif.C17
open KotoVerif.Meta KotoVerif.Gen KotoVerif.C17L

/-! ## the metakey table (generated from `parse_meta_key`) -/

/-- `@r+ … @r^` are spelled `r` + the operator, `@+= … @^=` the operator + `=` -/
theorem metakey_spelling (op : ArithOp) :
    (spelling op.key).isSome ∧ spelling op.rkey = (spelling op.key).map (114 :: ·)
      ∧ spelling op.akey = (spelling op.key).map (· ++ [61]) := by
  cases op <;> decide

/-- every metakey has exactly one spelling -/
theorem metakey_table_bijective :
    (metaKeyTable.map (·.1)).Nodup ∧ (metaKeyTable.map (·.2)).Nodup ∧ ∀ k : MKey, k ∈ metaKeyTable.map (·.2) := by
  refine ⟨by decide, by decide, ?_⟩
  intro k
  cases k <;> decide

/-- the 24 binary operator keys are `BinaryOp`s at run time (`meta_id_to_key`), the protocol keys are not -/
theorem metakey_categories (op : ArithOp) (c : CmpOp) :
    op.key.cat = .binaryOp ∧ op.rkey.cat = .binaryOp ∧ op.akey.cat = .binaryOp ∧ c.key.cat = .binaryOp
    ∧ MetaKeyId.Negate.cat = .unaryOp ∧ MetaKeyId.Index.cat = .readOp ∧ MetaKeyId.AccessAssign.cat = .writeOp := by
  cases op <;> cases c <;> decide

/-! ## arithmetic -/

/-- the left operand's own entry is called first, with (self := lhs, arg := rhs) -/
theorem own_key_first (op : ArithOp) (m : MapD) (rhs : Opd) (tag : Name) (b : Beh)
    (h : m.metaGet op.key = some (tag, .fn b)) :
    (arith op (.map m) rhs).trace.head? = some ⟨tag, .mk op.key, m.av, [rhs.av]⟩ := by
  unfold arith
  simp only [h, invoke_fn, Opd.av]
  cases hb : b.run m.av with
  | unimpl =>
    obtain ⟨t, ht⟩ := rhsAfterUnimpl_prefix op (.map m) rhs [⟨tag, .mk op.key, m.av, [rhs.av]⟩]
    simp only [Opd.av] at ht
    simp [ht]
  | ret v => simp
  | throw => simp
  | notCallable => simp

example : (arith .mul (.map { top := { name := 0, src := .own { tag := 0, ops := [(.Multiply, .fn (.ret (.int 5)))] } } })
    (.prim .num)) = ⟨[⟨0, .mk .Multiply, .obj 0, [.prim .num]⟩], .ok (.int 5)⟩ := by decide

/-- … and when it returns a value, that value is the result and nothing else is called -/
theorem own_key_result (op : ArithOp) (m : MapD) (rhs : Opd) (tag : Name) (v : RV)
    (h : m.metaGet op.key = some (tag, .fn (.ret v))) :
    arith op (.map m) rhs = ⟨[⟨tag, .mk op.key, m.av, [rhs.av]⟩], .ok (v.toAV m.av)⟩ := by
  unfold arith
  simp [h, invoke_fn, Opd.av, Beh.run, Beh.runAt, CallRes.pass]

/-- … and another error than `koto.unimplemented` propagates without consulting the right operand -/
theorem own_key_throw (op : ArithOp) (m : MapD) (rhs : Opd) (tag : Name)
    (h : m.metaGet op.key = some (tag, .fn .throw)) :
    arith op (.map m) rhs = ⟨[⟨tag, .mk op.key, m.av, [rhs.av]⟩], .err .thrown⟩ := by
  unfold arith
  simp [h, invoke_fn, Opd.av, Beh.run, Beh.runAt, CallRes.pass]

/-- left operand lacks the operator, right operand has `@r…`: it is called with
(self := rhs, arg := lhs) and its outcome is the outcome of the operation -/
theorem rhs_fallback (op : ArithOp) (lhs : Opd) (m2 : MapD) (tag : Name) (b : Beh)
    (hl : match lhs with
      | .map m => m.metaGet op.key = none
      | .prim _ => True
      | .host h => h.impl.lookup op.hm = none)
    (hr : m2.metaGet op.rkey = some (tag, .fn b)) :
    arith op lhs (.map m2) = ⟨[⟨tag, .mk op.rkey, m2.av, [lhs.av]⟩], (b.run m2.av).pass⟩ := by
  cases lhs with
  | prim k => simp [arith, rhsDirect, hr, mapRhs, invoke_fn, Opd.av]
  | map m =>
    simp only at hl
    simp [arith, hl, rhsDirect, hr, mapRhs, invoke_fn, Opd.av]
  | host h =>
    simp only at hl
    simp [arith, HostD.call, hl, rhsAfterUnimpl, hr, mapRhs, invoke_fn, Opd.av]

example : (arith .sub (.prim .num) (.map { top := { name := 1, src := .own { tag := 1, ops := [(.SubtractRhs, .fn (.ret .self))] } } }))
    = ⟨[⟨1, .mk .SubtractRhs, .obj 1, [.prim .num]⟩], .ok (.obj 1)⟩ := by decide

/-- left operand throws `koto.unimplemented`: the right operand's `@r…` entry is tried next, swapped -/
theorem unimplemented_fallback (op : ArithOp) (m m2 : MapD) (t1 t2 : Name) (b : Beh)
    (hl : m.metaGet op.key = some (t1, .fn .unimpl))
    (hr : m2.metaGet op.rkey = some (t2, .fn b)) :
    arith op (.map m) (.map m2) =
      ⟨[⟨t1, .mk op.key, m.av, [m2.av]⟩, ⟨t2, .mk op.rkey, m2.av, [m.av]⟩], (b.run m2.av).pass⟩ := by
  unfold arith
  simp [hl, invoke_fn, Opd.av, Beh.run, Beh.runAt, rhsAfterUnimpl, hr, mapRhs]

/-- the same with a host object on the right: its `…_rhs` method receives the left operand -/
theorem unimplemented_fallback_host (op : ArithOp) (m : MapD) (h2 : HostD) (t1 : Name) (v : RV)
    (hl : m.metaGet op.key = some (t1, .fn .unimpl))
    (hr : h2.impl.lookup op.rhm = some (.ret v)) :
    arith op (.map m) (.host h2) =
      ⟨[⟨t1, .mk op.key, m.av, [h2.av]⟩, ⟨h2.name, .host op.rhm, h2.av, [m.av]⟩], .ok (v.toAV h2.av)⟩ := by
  unfold arith
  simp [hl, invoke_fn, Opd.av, Beh.run, Beh.runAt, rhsAfterUnimpl, hostRhs, HostD.call, hr, Beh.hostRes]

example : (arith .add
    (.map { top := { name := 0, src := .own { tag := 0, ops := [(.Add, .fn .unimpl)] } } })
    (.map { top := { name := 1, src := .own { tag := 1, ops := [(.AddRhs, .fn (.ret (.int 9)))] } } })).res = .ok (.int 9) := by
  decide

/-- nobody implements the operator: an `InvalidBinaryOp` error, no call -/
theorem no_impl_error (op : ArithOp) (lhs rhs : Opd)
    (hl : match lhs with
      | .map m => m.metaGet op.key = none
      | .prim _ => True
      | .host h => h.impl.lookup op.hm = none)
    (hr : match rhs with
      | .map m2 => m2.metaGet op.rkey = none
      | .prim _ => True
      | .host h2 => h2.impl.lookup op.rhm = none)
    (hb : match lhs, rhs with
      | .prim a, .prim b => builtinArith op a b = false
      | .map _, .map _ => op ≠ .add        -- `+` merges two maps
      | _, _ => True) :
    (arith op lhs rhs).trace = [] ∧ ∃ k, (arith op lhs rhs).res = .err (.binop k) := by
  cases lhs with
  | prim a =>
    cases rhs with
    | prim b => simp only at hb; simp [arith, hb]
    | map m2 => simp only at hr; simp [arith, rhsDirect, hr]
    | host h2 => simp only at hr; simp [arith, rhsDirect, hostRhs, HostD.call, hr]
  | map m =>
    simp only at hl
    cases rhs with
    | prim b => simp [arith, hl, rhsDirect]
    | map m2 =>
      simp only at hr hb
      simp [arith, hl, rhsDirect, hr, hb]
    | host h2 => simp only at hr; simp [arith, hl, rhsDirect, hostRhs, HostD.call, hr]
  | host h =>
    simp only at hl
    cases rhs with
    | prim b => simp [arith, HostD.call, hl, rhsAfterUnimpl]
    | map m2 => simp only at hr; simp [arith, HostD.call, hl, rhsAfterUnimpl, hr]
    | host h2 => simp only at hr; simp [arith, HostD.call, hl, rhsAfterUnimpl, hostRhs, hr]

example : (arith .pow (.map { top := { name := 0 } }) (.prim .str)).res = .err (.binop .Power) := by decide

/-- … also when the left operand said "unimplemented" and the right operand has nothing -/
theorem unimplemented_no_rhs_error (op : ArithOp) (m : MapD) (rhs : Opd) (t1 : Name)
    (hl : m.metaGet op.key = some (t1, .fn .unimpl))
    (hr : match rhs with
      | .map m2 => m2.metaGet op.rkey = none
      | .prim _ => True
      | .host h2 => h2.impl.lookup op.rhm = none) :
    (arith op (.map m) rhs).trace = [⟨t1, .mk op.key, m.av, [rhs.av]⟩] ∧
      ∃ k, (arith op (.map m) rhs).res = .err (.binop k) := by
  unfold arith
  cases rhs with
  | prim b => simp [hl, invoke_fn, Opd.av, Beh.run, Beh.runAt, rhsAfterUnimpl]
  | map m2 => simp only at hr; simp [hl, invoke_fn, Opd.av, Beh.run, Beh.runAt, rhsAfterUnimpl, hr]
  | host h2 =>
    simp only at hr
    simp [hl, invoke_fn, Opd.av, Beh.run, Beh.runAt, rhsAfterUnimpl, hostRhs, HostD.call, hr]

/-! ## compound assignment -/

/-- `x op= y` on a map with the `@op=` entry: called with (self := x, arg := y); the variable keeps
the left operand (the callee's value is discarded); errors propagate; no fallback to `@op` -/
theorem compound_own_key (op : ArithOp) (m : MapD) (rhs : Opd) (same : Bool) (tag : Name) (b : Beh)
    (h : m.metaGet op.akey = some (tag, .fn b)) :
    compound op (.map m) rhs same = ⟨[⟨tag, .mk op.akey, m.av, [rhs.av]⟩],
      match b.run m.av with
      | .ret _ => .ok m.av
      | r => r.pass⟩ := by
  unfold compound
  simp only [h, invoke_fn, Opd.av]
  cases hb : b.run m.av <;> simp

/-- as implemented there is *no* fallback from `@op=` to `@op` followed by assignment -/
theorem compound_no_fallback (op : ArithOp) (m : MapD) (rhs : Opd) (same : Bool)
    (h : m.metaGet op.akey = none) :
    compound op (.map m) rhs same = ⟨[], .err (.binop op.akey)⟩ := by
  unfold compound
  simp [h]

example : compound .add (.map { top := { name := 0, src := .own { tag := 0, ops := [(.Add, .fn (.ret (.int 1)))] } } })
    (.prim .num) false = ⟨[], .err (.binop .AddAssign)⟩ := by decide

/-- host object on the left, anything but a host object on the right: the method receives the operand -/
theorem compound_host (op : ArithOp) (h : HostD) (rhs : Opd) (same : Bool) (b : Beh)
    (hr : ∀ h2, rhs ≠ .host h2) (hi : h.impl.lookup op.ahm = some b) :
    (compound op (.host h) rhs same).trace = [⟨h.name, .host op.ahm, h.av, [rhs.av]⟩] := by
  cases rhs with
  | host h2 => exact absurd rfl (hr h2)
  | prim k =>
    unfold compound
    simp only [HostD.call, hi]
    cases b.hostRes h.av <;> simp [Opd.av]
  | map m =>
    unfold compound
    simp only [HostD.call, hi]
    cases b.hostRes h.av <;> simp [Opd.av]

/-- Compound assignment between two host objects (guard `o.is_same_instance(o2)`, fix 6cd88dc):
two *different* objects — the method receives the right operand itself, nothing is copied;
the *same* instance (`x op= x`) — the operand is copied first and the method receives the copy. -/
theorem compound_assign_object_operand (op : ArithOp) (h h2 : HostD) (b : Beh)
    (hi : h.impl.lookup op.ahm = some b) :
    (compound op (.host h) (.host h2) false).trace = [⟨h.name, .host op.ahm, h.av, [h2.av]⟩] ∧
    (compound op (.host h) (.host h2) true).trace =
      [⟨h2.name, .copy, h2.av, []⟩, ⟨h.name, .host op.ahm, h.av, [.host h2.name (h2.gen + 1)]⟩] := by
  unfold compound
  simp only [HostD.call, hi, HostD.av, Opd.av]
  cases b.hostRes (.host h.name h.gen) <;> simp

/-- a copy is made exactly when both operands are the same instance — for every host×host pair,
whatever the left object implements -/
theorem compound_copy_iff_same (op : ArithOp) (h h2 : HostD) (same : Bool) :
    (∃ e ∈ (compound op (.host h) (.host h2) same).trace, e.key = .copy) ↔ same = true := by
  unfold compound
  cases same
  · simp only [HostD.call]
    cases hl : h.impl.lookup op.ahm with
    | none => simp
    | some b => cases hb : b.hostRes h.av <;> simp [hb]
  · simp only [HostD.call]
    cases hl : h.impl.lookup op.ahm with
    | none => simp
    | some b => cases hb : b.hostRes h.av <;> simp [hb]

/-- Compound assignment hands every callee — metamap entry or host method, any operand kinds — the
right operand itself as argument, unless both operands are the same host instance. (The full
positive statement; before fix 6cd88dc it failed for distinct host×host pairs, see
`compound_before_fix_differs`.) -/
theorem compound_operand_is_rhs (op : ArithOp) (lhs rhs : Opd) (same : Bool)
    (hx : same = false ∨ (∀ h, lhs ≠ .host h) ∨ (∀ h2, rhs ≠ .host h2)) :
    ∀ e ∈ (compound op lhs rhs same).trace,
      e.key ≠ .copy ∧ (e.key = .mk op.akey ∨ e.key = .host op.ahm → e.self = lhs.av ∧ e.args = [rhs.av]) := by
  have hk : op.akey ≠ .Call := by cases op <;> decide
  have hostcase : ∀ (h : HostD), ∀ e ∈ (match h.call op.ahm [rhs.av] with
        | (t, .ok _) => (⟨t, .ok (Opd.host h).av⟩ : Out)
        | (t, r) => ⟨t, r.pass⟩).trace,
      e.key ≠ .copy ∧ (e.key = .mk op.akey ∨ e.key = .host op.ahm →
        e.self = (Opd.host h).av ∧ e.args = [rhs.av]) := by
    intro h e he
    rcases hc : h.call op.ahm [rhs.av] with ⟨t, r⟩
    have ht := hostcall_events h op.ahm [rhs.av]
    rw [hc] at ht he
    have he' : e ∈ t := by cases r <;> simpa using he
    have := ht e he'
    subst this
    simp [Opd.av]
  intro e he
  cases lhs with
  | prim k =>
    unfold compound at he
    cases k <;> cases rhs <;> (try rename_i k2; cases k2) <;> simp at he
  | map m =>
    unfold compound at he
    simp only at he
    cases hm : m.metaGet op.akey with
    | none => simp [hm] at he
    | some p =>
      obtain ⟨tag, mv⟩ := p
      simp only [hm] at he
      rcases hi : invoke tag op.akey mv (Opd.map m).av [rhs.av] with ⟨t, r⟩
      have hev := invoke_events tag op.akey mv (Opd.map m).av [rhs.av]
      rw [hi] at hev he
      have he' : e ∈ t := by cases r <;> simpa using he
      rcases hev e he' with h1 | ⟨c, h1⟩
      · subst h1; simp
      · subst h1
        refine ⟨by simp, ?_⟩
        intro hkey
        rcases hkey with hkey | hkey
        · simp at hkey; exact absurd hkey.symm hk
        · simp at hkey
  | host h =>
    cases rhs with
    | prim k => unfold compound at he; exact hostcase h e he
    | map m2 => unfold compound at he; exact hostcase h e he
    | host h2 =>
      rcases hx with hx | hx | hx
      · subst hx
        unfold compound at he
        simp only [Bool.false_eq_true, if_false] at he
        exact hostcase h e he
      · exact absurd rfl (hx h)
      · exact absurd rfl (hx h2)

/-- what fix 6cd88dc changed (finding F-C17-1): the old guard copied the right operand of *every*
host×host pair, so for two different objects the callee saw a copy -/
theorem compound_before_fix_differs :
    ∃ (op : ArithOp) (h h2 : HostD), h.name ≠ h2.name ∧
      compoundBeforeFix op (.host h) (.host h2) ≠ compound op (.host h) (.host h2) false :=
  ⟨.add, { name := 0, impl := [(.addAssign, .ret .null)] }, { name := 1 }, by decide, by decide⟩

example : (compound .add (.host { name := 0, impl := [(.addAssign, .ret .null)] }) (.host { name := 1 }) false).trace
    = [⟨0, .host .addAssign, .host 0 0, [.host 1 0]⟩] := by decide

/-! ## comparisons -/

/-- the operator's own entry: called with (self := lhs, arg := rhs), its value is the result
(whatever its type) — for every right operand except `null` under `==` / `!=`
(see `cmp_null_no_dispatch`): the `_partial` statement of "own key first" for comparisons -/
theorem cmp_own_key (op : CmpOp) (m : MapD) (rhs : Opd) (tag : Name) (b : Beh)
    (h : m.metaGet op.key = some (tag, .fn b))
    (hn : rhs ≠ .prim .null) :
    compareOp op (.map m) rhs = ⟨[⟨tag, .mk op.key, m.av, [rhs.av]⟩], (b.run m.av).pass⟩ := by
  cases op
  case eq =>
    simp only [CmpOp.key] at h
    unfold compareOp equality
    cases rhs with
    | prim k => cases k <;> simp_all [invoke_fn, Opd.av, CmpOp.key]
    | map m2 => simp [h, invoke_fn, Opd.av, CmpOp.key]
    | host h2 => simp [h, invoke_fn, Opd.av, CmpOp.key]
  case ne =>
    simp only [CmpOp.key] at h
    unfold compareOp equality
    cases rhs with
    | prim k => cases k <;> simp_all [invoke_fn, Opd.av, CmpOp.key]
    | map m2 => simp [h, invoke_fn, Opd.av, CmpOp.key]
    | host h2 => simp [h, invoke_fn, Opd.av, CmpOp.key]
  all_goals
    unfold compareOp order
    simp [h, invoke_fn, Opd.av]

/-- `obj == null` is `false`, `obj != null` is `true`, without calling `@==` / `@!=` / `equal` —
as implemented (the `(_, Null)` arm precedes the overloads; upstream pins this for host objects in
object_tests.rs `equal_null_lhs` / `not_equal_null_lhs`) -/
theorem cmp_null_no_dispatch (lhs : Opd) (hl : lhs ≠ .prim .null) :
    compareOp .eq lhs (.prim .null) = ⟨[], .ok (.bool false)⟩ ∧
    compareOp .ne lhs (.prim .null) = ⟨[], .ok (.bool true)⟩ := by
  cases lhs with
  | prim k => cases k <;> simp_all [compareOp, equality]
  | map m => simp [compareOp, equality]
  | host h => simp [compareOp, equality]

/-- … which is against the letter of the property ("every comparison invokes the metakey function",
for all operand kinds): negation witness for `null` — an object whose `@==` always answers `true` is
nevertheless unequal to `null`, and `@==` is not called (finding F-C17-9) -/
theorem cmp_null_skips_overload_witness :
    ∃ (m : MapD) (tag : Name), m.metaGet .Equal = some (tag, .fn (.ret (.bool true))) ∧
      compareOp .eq (.map m) (.prim .null) = ⟨[], .ok (.bool false)⟩ ∧
      compareOp .eq (.map m) (.prim .num) = ⟨[⟨tag, .mk .Equal, m.av, [.prim .num]⟩], .ok (.bool true)⟩ :=
  ⟨{ top := { name := 0, src := .own { tag := 0, ops := [(.Equal, .fn (.ret (.bool true)))] } } }, 0,
    by decide, by decide, by decide⟩

/-- Derivation of the missing comparisons, exactly as dispatched: with `@<` returning `lt` and `@==`
returning `eq` (and no own entry for the operator):
`<=` is `lt ∨ eq`, `>` is `¬(lt ∨ eq)`, `>=` is `¬lt` (from `@<` alone), `!=` is `¬eq`;
`@==` is consulted only when `@<` said `false`. -/
theorem derived_cmp (m : MapD) (rhs : Opd) (tl te : Name) (lt eq : Bool)
    (hl : m.metaGet .Less = some (tl, .fn (.ret (.bool lt))))
    (he : m.metaGet .Equal = some (te, .fn (.ret (.bool eq))))
    (hn : rhs ≠ .prim .null) :
    let evL : Ev := ⟨tl, .mk .Less, m.av, [rhs.av]⟩
    let evE : Ev := ⟨te, .mk .Equal, m.av, [rhs.av]⟩
    (m.metaGet .LessOrEqual = none →
      compareOp .le (.map m) rhs = ⟨if lt then [evL] else [evL, evE], .ok (.bool (lt || eq))⟩) ∧
    (m.metaGet .Greater = none →
      compareOp .gt (.map m) rhs = ⟨if lt then [evL] else [evL, evE], .ok (.bool (!(lt || eq)))⟩) ∧
    (m.metaGet .GreaterOrEqual = none →
      compareOp .ge (.map m) rhs = ⟨[evL], .ok (.bool (!lt))⟩) ∧
    (m.metaGet .NotEqual = none →
      compareOp .ne (.map m) rhs = ⟨[evE], .ok (.bool (!eq))⟩) := by
  intro evL evE
  refine ⟨?_, ?_, ?_, ?_⟩
  · intro h
    cases lt <;> cases eq <;>
      simp [compareOp, order, CmpOp.key, h, hl, he, lessThenEqual, cmpCall, invoke_fn, Beh.run, Beh.runAt,
        RV.toAV, Opd.av, evL, evE]
  · intro h
    cases lt <;> cases eq <;>
      simp [compareOp, order, CmpOp.key, h, hl, he, lessThenEqual, cmpCall, invoke_fn, Beh.run, Beh.runAt,
        RV.toAV, Opd.av, evL, evE]
  · intro h
    cases lt <;>
      simp [compareOp, order, CmpOp.key, h, hl, cmpCall, invoke_fn, Beh.run, Beh.runAt, RV.toAV, Opd.av, evL]
  · intro h
    unfold compareOp equality
    cases rhs with
    | prim k =>
      cases k <;> cases eq <;>
        simp_all [cmpCall, invoke_fn, Beh.run, Beh.runAt, RV.toAV, Opd.av, evE]
    | map m2 => cases eq <;> simp [h, he, cmpCall, invoke_fn, Beh.run, Beh.runAt, RV.toAV, Opd.av, evE]
    | host h2 => cases eq <;> simp [h, he, cmpCall, invoke_fn, Beh.run, Beh.runAt, RV.toAV, Opd.av, evE]

example : compareOp .ge (.map { top := { name := 0, src := .own { tag := 0, ops := [(.Equal, .fn (.ret (.bool true))), (.Less, .fn (.ret (.bool false)))] } } }) (.prim .num)
    = ⟨[⟨0, .mk .Less, .obj 0, [.prim .num]⟩], .ok (.bool true)⟩ := by decide

/-- `>=` needs only `@<`; `<=` and `>` need both `@<` and `@==`, otherwise the operation is an error -/
theorem derived_cmp_requirements (m : MapD) (rhs : Opd)
    (hle : m.metaGet .LessOrEqual = none) (hgt : m.metaGet .Greater = none)
    (h : m.metaGet .Less = none ∨ m.metaGet .Equal = none) :
    compareOp .le (.map m) rhs = ⟨[], .err (.binop .LessOrEqual)⟩ ∧
    compareOp .gt (.map m) rhs = ⟨[], .err (.binop .Greater)⟩ := by
  rcases h with h | h
  · constructor <;> simp [compareOp, order, CmpOp.key, hle, hgt, h]
  · constructor
    · simp only [compareOp, order, CmpOp.key, hle, h]
      cases m.metaGet .Less <;> simp
    · simp only [compareOp, order, CmpOp.key, hgt, h]
      cases m.metaGet .Less <;> simp

/-- a derived comparison insists on a Bool from `@<` / `@==` (the direct entry does not) -/
theorem derived_cmp_needs_bool (m : MapD) (rhs : Opd) (tl : Name) (n : Int)
    (hl : m.metaGet .Less = some (tl, .fn (.ret (.int n))))
    (hge : m.metaGet .GreaterOrEqual = none) :
    (compareOp .ge (.map m) rhs).res = .err .type ∧ (compareOp .lt (.map m) rhs).res = .ok (.int n) := by
  simp [compareOp, order, CmpOp.key, hge, hl, cmpCall, invoke_fn, Beh.run, Beh.runAt, RV.toAV, CallRes.pass]

/-! ## unary operators and protocols -/

/-- `-x`, `size x`, `x[i]`, `x(7)`: the entry is called with `self := x` (and the index / argument) and
its value is the result -/
theorem unary_own_key (m : MapD) (tag : Name) (b : Beh) :
    (m.metaGet .Negate = some (tag, .fn b) →
      negate (.map m) = ⟨[⟨tag, .mk .Negate, m.av, []⟩], (b.run m.av).pass⟩) ∧
    (m.metaGet .Size = some (tag, .fn b) →
      size (.map m) = ⟨[⟨tag, .mk .Size, m.av, []⟩], (b.run m.av).pass⟩) ∧
    (∀ i, m.metaGet .Index = some (tag, .fn b) →
      index (.map m) i = ⟨[⟨tag, .mk .Index, m.av, [i.av]⟩], (b.run m.av).pass⟩) ∧
    (m.metaGet .Call = some (tag, .fn b) →
      callOp (.map m) = ⟨[⟨tag, .mk .Call, m.av, [.int 7]⟩], (b.run m.av).pass⟩) := by
  refine ⟨?_, ?_, ?_, ?_⟩
  · intro h; simp [negate, h, invoke_fn]
  · intro h; simp [size, h, invoke_fn]
  · intro i h; simp [index, h, invoke_fn]
  · intro h; simp [callOp, h, invoke_fn]

/-- there is no `@not`: `not x` never dispatches; every map (and host object) is truthy -/
theorem not_never_dispatches (o : Opd) : (notOp o).trace = [] ∧
    ((notOp o).res = .ok (.bool true) ↔ o = .prim .null) := by
  cases o with
  | prim k => cases k <;> simp [notOp]
  | map m => simp [notOp]
  | host h => simp [notOp]

/-- `@call` through callable maps: the function finally called sees the *last* callable map as
`self`, not the object the call started from -/
theorem call_chain_instance (m : MapD) (tag c : Name) (mids : List Name) (b : Beh)
    (h : m.metaGet .Call = some (tag, .chain (mids ++ [c]) (some b))) :
    callOp (.map m) = ⟨[⟨c, .mk .Call, .obj c, [.int 7]⟩], (b.run (.obj c)).pass⟩ := by
  simp [callOp, h, invoke, invokeAt, Beh.run]

/-- iteration: `@next` is looked at before `@iterator`; the object is then its own iterator -/
theorem next_before_iterator (m : MapD) (tn ti : Name) (n : Nat) (mvI : MV)
    (hn : m.metaGet .Next = some (tn, .fn (.count n)))
    (_hi : m.metaGet .Iterator = some (ti, mvI))
    (hb : m.metaGet .NextBack = none) :
    forLoop (.map m) = ⟨(List.range (n + 1)).map (fun _ => ⟨tn, .mk .Next, m.av, []⟩),
      .ok (.lst ((List.range n).map (fun i => 10 + Int.ofNat i)))⟩ ∧
    toList (.map m) = forLoop (.map m) := by
  simp [forLoop, toList, hn, hb, nextLoop]


/-! ## access -/

/-- the lookup loop of `run_access_inner` finds the first hit along
data, `@meta`, base¹ data, base¹ `@meta`, base², … — for a chain of any depth -/
theorem access_chain_spec (k : Key) (ls : List Layer) : lookupLayers k ls = lookupSpec k ls :=
  lookupLayers_eq_spec k ls

/-- layers that neither have the key nor end the chain are skipped, however many there are -/
theorem access_chain_skip (k : Key) (pre rest : List Layer)
    (h : ∀ l ∈ pre, layerHit k l = none ∧ continues l = true) :
    lookupLayers k (pre ++ rest) = lookupLayers k rest := by
  induction pre with
  | nil => rfl
  | cons l pre ih =>
    have hl := h l (by simp)
    rw [List.cons_append, lookup_skip_one k l _ hl.1 hl.2]
    exact ih (fun l' hl' => h l' (by simp [hl']))

/-- a data entry wins over an `@meta` entry of the same name, which wins over everything in `@base` -/
theorem access_data_then_meta_then_base (k : Key) (l : Layer) (rest : List Layer) :
    (k ∈ l.data → lookupLayers k (l :: rest) = .hit (.found l.name .data k)) ∧
    (∀ mt, k ∉ l.data → l.metaOf = some mt → k ∈ mt.named →
      lookupLayers k (l :: rest) = .hit (.found mt.tag .named k)) ∧
    (∀ mt, k ∉ l.data → l.metaOf = some mt → k ∉ mt.named → mt.baseBad = false →
      lookupLayers k (l :: rest) = lookupLayers k rest) := by
  refine ⟨?_, ?_, ?_⟩
  · intro h; simp [lookupLayers, h]
  · intro mt h1 h2 h3; simp [lookupLayers, h1, h2, h3]
  · intro mt h1 h2 h3 h4; simp [lookupLayers, h1, h2, h3, h4]

example : lookupLayers 0 [{ name := 0, data := [0], src := .own { tag := 0, ops := [], named := [0] } }]
    = .hit (.found 0 .data 0) := by decide
example : lookupLayers 0 [{ name := 0, src := .own { tag := 0, ops := [], named := [1] } },
    { name := 1, src := .own { tag := 1, ops := [], named := [0] } }, { name := 2, data := [0] }]
    = .hit (.found 1 .named 0) := by decide

/-- `.` on a map without `@access`: the chain result, then (only when the chain is exhausted) the
iterator module if the object itself has `@iterator`/`@next`; the `map` module only when the chain
reaches a map without metamap -/
theorem access_spec (M : Mods) (m : MapD) (k : Key) (h : m.metaGet .Access = none) :
    access M (.map m) k =
      match lookupSpec k m.layers with
      | .hit v => ⟨[], .ok v⟩
      | .coreMap => (match coreMapOp M k with | some v => ⟨[], .ok v⟩ | none => ⟨[], .err .notFound⟩)
      | .badBase => ⟨[], .err .type⟩
      | .miss =>
        if (m.hasKey .Iterator || m.hasKey .Next) && M.inIter k then ⟨[], .ok (.core .iterator k)⟩
        else ⟨[], .err .notFound⟩ := by
  rw [← access_chain_spec]
  simp only [access, h]
  cases lookupLayers k m.layers <;> rfl

/-- `@access` intercepts every `.` (data is not consulted first) -/
theorem access_override (M : Mods) (m : MapD) (k : Key) (tag : Name) (b : Beh)
    (h : m.metaGet .Access = some (tag, .fn b)) :
    access M (.map m) k = ⟨[⟨tag, .mk .Access, m.av, [.key k]⟩], (b.run m.av).pass⟩ := by
  simp [access, h, invoke_fn]

/-- a function found along the chain is called with the *accessed* object as `self` -/
theorem method_call_instance (M : Mods) (m : MapD) (k : Key) (layer : Name) (s : Slot)
    (h : m.metaGet .Access = none) (hf : lookupLayers k m.layers = .hit (.found layer s k))
    (hfn : M.isFn k = true) :
    methodCall M (.map m) k = ⟨[⟨layer, .entry s k, m.av, [.int 7]⟩], .ok (.int 77)⟩ := by
  simp [methodCall, access, h, hf, hfn, Opd.av]

/-- assignment through `.` writes the object's own data (never a base), unless `@access_assign`
intercepts it -/
theorem access_assign_spec (m : MapD) (k : Key) :
    (m.metaGet .AccessAssign = none → accessAssign (.map m) k = ⟨[], .ok (.int 5)⟩) ∧
    (∀ tag b, m.metaGet .AccessAssign = some (tag, .fn b) →
      (accessAssign (.map m) k).trace = [⟨tag, .mk .AccessAssign, m.av, [.key k, .int 5]⟩]) := by
  refine ⟨?_, ?_⟩
  · intro h; simp [accessAssign, h]
  · intro tag b h
    simp only [accessAssign, h, invoke_fn]
    cases b.run m.av <;> simp

/-- `@type` is looked up along `@base` (first layer that has one), like `koto.type` reports it -/
theorem type_chain_skip (pre rest : List Layer)
    (h : ∀ l ∈ pre, ∃ mt, l.metaOf = some mt ∧ mt.type = .none ∧ mt.baseBad = false) :
    metaType (pre ++ rest) = metaType rest := by
  induction pre with
  | nil => rfl
  | cons l pre ih =>
    obtain ⟨mt, h1, h2, h3⟩ := h l (by simp)
    simp [metaType, h1, h2, h3, ih (fun l' hl' => h l' (by simp [hl']))]

/-! ## `with_meta` -/

/-- a metamap attached with `with_meta` behaves like an own metamap with the same content,
for every operation of the model -/
theorem shared_meta_same (a b : Opd) :
    (∀ op, arith op a.unshare b.unshare = arith op a b) ∧
    (∀ op same, compound op a.unshare b.unshare same = compound op a b same) ∧
    (∀ op, compareOp op a.unshare b.unshare = compareOp op a b) ∧
    negate a.unshare = negate a ∧ notOp a.unshare = notOp a ∧ size a.unshare = size a ∧
    callOp a.unshare = callOp a ∧ forLoop a.unshare = forLoop a ∧ toList a.unshare = toList a ∧
    typeOf a.unshare = typeOf a ∧ display a.unshare = display a ∧
    displayNested a.unshare = displayNested a ∧ debug a.unshare = debug a ∧
    (∀ i, index a.unshare i = index a i) ∧ (∀ i, indexAssign a.unshare i = indexAssign a i) ∧
    (∀ M k, access M a.unshare k = access M a k) ∧
    (∀ k, accessAssign a.unshare k = accessAssign a k) := by
  have hav : ∀ o : Opd, o.unshare.av = o.av := by
    intro o; cases o <;> simp [Opd.unshare, Opd.av, unshare_av]
  have htop_data : ∀ m : MapD, m.unshare.top.data = m.top.data := by
    intro m; simp [MapD.unshare, unshare_data]
  have htop_name : ∀ m : MapD, m.unshare.top.name = m.top.name := by
    intro m; simp [MapD.unshare, unshare_name]
  have htop_meta : ∀ m : MapD, m.unshare.top.metaOf = m.top.metaOf := by
    intro m; simp [MapD.unshare, unshare_metaOf]
  refine ⟨?_, ?_, ?_, ?_, ?_, ?_, ?_, ?_, ?_, ?_, ?_, ?_, ?_, ?_, ?_, ?_, ?_⟩
  · intro op
    cases a <;> cases b <;>
      simp [Opd.unshare, arith, rhsDirect, rhsAfterUnimpl, mapRhs, hostRhs, unshare_metaGet, unshare_av, Opd.av]
  · intro op same
    cases a <;> cases b <;> simp [Opd.unshare, compound, unshare_metaGet, unshare_av, Opd.av]
  · intro op
    have heq : ∀ ne, equality ne a.unshare b.unshare = equality ne a b := by
      intro ne
      cases a with
      | prim ka =>
        cases b with
        | prim kb => rfl
        | map m2 => cases ka <;> simp [Opd.unshare, equality]
        | host h2 => rfl
      | map m =>
        cases b with
        | prim kb =>
          cases kb <;> simp [Opd.unshare, equality, unshare_metaGet, unshare_av, cmpCall, Opd.av]
        | map m2 => simp [Opd.unshare, equality, unshare_metaGet, unshare_av, cmpCall, Opd.av]
        | host h2 => simp [Opd.unshare, equality, unshare_metaGet, unshare_av, cmpCall, Opd.av]
      | host h =>
        cases b with
        | prim kb => rfl
        | map m2 => simp [Opd.unshare, equality, unshare_av, Opd.av]
        | host h2 => rfl
    have hord : ∀ op, order op a.unshare b.unshare = order op a b := by
      intro op
      cases a <;> cases b <;>
        simp [Opd.unshare, order, lessThenEqual, cmpCall, unshare_metaGet, unshare_av, Opd.av]
    cases op <;> simp [compareOp, heq, hord]
  · cases a <;> simp [Opd.unshare, negate, unshare_metaGet, unshare_av]
  · cases a <;> simp [Opd.unshare, notOp]
  · cases a <;> simp [Opd.unshare, size, unshare_metaGet, unshare_av, htop_data]
  · cases a <;> simp [Opd.unshare, callOp, unshare_metaGet, unshare_av]
  · cases a <;> simp [Opd.unshare, forLoop, unshare_metaGet, unshare_av]
  · cases a <;> simp [Opd.unshare, toList, unshare_metaGet, unshare_av, htop_meta]
  · cases a <;> simp [Opd.unshare, typeOf, htop_meta, unshare_layers, unshare_metaType]
  · cases a <;> simp [Opd.unshare, display, unshare_metaGet, unshare_av, unshare_layers, unshare_metaType]
  · cases a <;>
      simp [Opd.unshare, displayNested, display, unshare_metaGet, unshare_av, unshare_layers, unshare_metaType]
  · cases a <;>
      simp [Opd.unshare, debug, displayNested, display, unshare_metaGet, unshare_av, unshare_layers,
        unshare_metaType]
  · intro i
    cases a <;> simp [Opd.unshare, index, unshare_metaGet, unshare_av, htop_data]
  · intro i
    cases a <;> simp [Opd.unshare, indexAssign, unshare_metaGet, unshare_av, htop_data]
  · intro M k
    cases a <;>
      simp [Opd.unshare, access, unshare_metaGet, unshare_av, unshare_layers, unshare_lookupLayers, unshare_hasKey]
  · intro k
    cases a <;> simp [Opd.unshare, accessAssign, unshare_metaGet, unshare_av, htop_data, htop_name]

example : (Opd.map { top := { name := 0, src := .shared 9 (some { tag := 9, ops := [(.Add, .fn (.ret .self))] }) } }).unshare
    = .map { top := { name := 0, src := .own { tag := 9, ops := [(.Add, .fn (.ret .self))] } } } := by decide


/-- an object with `@next` behaves the same in a `for` loop and through the public iterator path —
same calls, same values, and the *same error*: what `@next` throws reaches the script unchanged in
both (thrown value / kind preserved; /repo 08c98b7) -/
theorem for_next_same_as_to_list (m : MapD) (tn : Name) (mv : MV)
    (hn : m.metaGet .Next = some (tn, mv)) :
    forLoop (.map m) = toList (.map m) := by
  simp [forLoop, toList, hn]

/-- in particular a value thrown in `@next` is the error of the `for` loop -/
theorem for_next_error_unchanged (m : MapD) (tn : Name)
    (hn : m.metaGet .Next = some (tn, .fn .throw)) (hb : m.metaGet .NextBack = none) :
    forLoop (.map m) = ⟨[⟨tn, .mk .Next, m.av, []⟩], .err .thrown⟩ := by
  simp [forLoop, hn, hb, nextLoop, invoke_fn, Beh.run, Beh.runAt, CallRes.pass]


/-- Bytecode-level iteration (`for`, unpacking: `MakeIterator` + `IterNext`) over an object with
`@next` or `@iterator` is the public `make_iterator` iteration — same calls, same values, same
errors — whatever `@iterator` returns (/repo bf483d2; before it, a list or map result failed in
`for` only: finding F-C17-2). The one exception is the nesting limit (47b1155): `for` evaluates the
operand's own `@iterator` outside the limit, so exactly at the limit the public path reports
"too many nested @iterator calls" where `for` still succeeds. -/
theorem for_equals_public_iteration (m : MapD)
    (h : (m.metaGet .Next).isSome ∨ (m.metaGet .Iterator).isSome)
    (hl : (toList (.map m)).res ≠ .err .tooNested) :
    forLoop (.map m) = toList (.map m) := by
  cases hn : m.metaGet .Next with
  | some p => simp [forLoop, toList, hn]
  | none =>
    cases hi : m.metaGet .Iterator with
    | none => simp [hn, hi] at h
    | some p =>
      obtain ⟨tag, mv⟩ := p
      simp only [forLoop, toList, hn, hi] at hl ⊢
      by_cases hc : mv = .nonCallable
      · simp [hc]
      · simp only [beq_iff_eq, hc, if_false] at hl ⊢
        rcases hinv : invoke tag .Iterator mv m.av [] with ⟨t, r⟩
        rw [hinv] at hl
        cases r with
        | ret v0 =>
          simp only at hl ⊢
          exact iterWalk_succ_of_ok _ _ 15 v0 t hl
        | unimpl => rfl
        | throw => rfl
        | notCallable => rfl

/-- Termination, for every object graph: a nesting walk with `l` levels evaluates `@iterator` at most
`l` times and then either reports "too many nested @iterator calls" or iterates a leaf value -/
theorem iteration_terminates (nx : IterStep) (leaf : List Ev → CallRes → Out) (l : Nat) (v : AV) (t : List Ev) :
    ∃ t', t'.length ≤ l ∧
      (iterWalk nx leaf l v t = ⟨t ++ t', .err .tooNested⟩ ∨
       ∃ w, iterWalk nx leaf l v t = leaf (t ++ t') (.ret w)) :=
  iterWalk_shape nx leaf l v t

/-- … hence iterating an object with `@iterator` makes at most 16 `@iterator` calls through the public
API (`iterator.*`, argument unpacking) and at most 17 in a `for` loop, whatever the calls return —
including an object that returns itself and any longer cycle -/
theorem iterator_calls_bounded (m : MapD) (tag : Name) (mv : MV)
    (hn : m.metaGet .Next = none) (hi : m.metaGet .Iterator = some (tag, mv)) :
    (∃ calls, calls.length ≤ 16 ∧
      (toList (.map m) = ⟨calls, .err .tooNested⟩ ∨ ∃ r, toList (.map m) = iterateResult calls r ∨
        toList (.map m) = ⟨calls, .err .type⟩)) ∧
    (∃ calls, calls.length ≤ 17 ∧
      (forLoop (.map m) = ⟨calls, .err .tooNested⟩ ∨ ∃ r, forLoop (.map m) = iterateResult calls r ∨
        forLoop (.map m) = ⟨calls, .err .type⟩)) := by
  have h1 := invoke_trace_le_one tag .Iterator mv m.av []
  by_cases hc : mv = .nonCallable
  · constructor
    · exact ⟨[], by simp, Or.inr ⟨.unimpl, Or.inr (by simp [toList, hn, hi, hc])⟩⟩
    · exact ⟨[], by simp, Or.inr ⟨.unimpl, Or.inr (by simp [forLoop, hn, hi, hc])⟩⟩
  · rcases hinv : invoke tag .Iterator mv m.av [] with ⟨t, r⟩
    rw [hinv] at h1
    simp only at h1
    constructor
    · simp only [toList, hn, hi, beq_iff_eq, hc, if_false, hinv]
      cases r with
      | ret v0 =>
        obtain ⟨t', hl, hs⟩ := iterWalk_shape (nestStep m.av (t.headD default) v0) iterateResult 15 v0 t
        refine ⟨t ++ t', by simp [nestingLimit] at *; omega, ?_⟩
        rcases hs with hs | ⟨w, hs⟩
        · exact Or.inl (by simpa [nestingLimit] using hs)
        · exact Or.inr ⟨.ret w, Or.inl (by simpa [nestingLimit] using hs)⟩
      | unimpl => exact ⟨t, by omega, Or.inr ⟨.unimpl, Or.inl (by simp [iterateResult])⟩⟩
      | throw => exact ⟨t, by omega, Or.inr ⟨.throw, Or.inl (by simp [iterateResult])⟩⟩
      | notCallable => exact ⟨t, by omega, Or.inr ⟨.notCallable, Or.inl (by simp [iterateResult])⟩⟩
    · simp only [forLoop, hn, hi, beq_iff_eq, hc, if_false, hinv]
      cases r with
      | ret v0 =>
        obtain ⟨t', hl, hs⟩ := iterWalk_shape (nestStep m.av (t.headD default) v0) iterateResult 16 v0 t
        refine ⟨t ++ t', by simp at *; omega, ?_⟩
        rcases hs with hs | ⟨w, hs⟩
        · exact Or.inl (by simpa [nestingLimit] using hs)
        · exact Or.inr ⟨.ret w, Or.inl (by simpa [nestingLimit] using hs)⟩
      | unimpl => exact ⟨t, by omega, Or.inr ⟨.unimpl, Or.inl (by simp [iterateResult])⟩⟩
      | throw => exact ⟨t, by omega, Or.inr ⟨.throw, Or.inl (by simp [iterateResult])⟩⟩
      | notCallable => exact ⟨t, by omega, Or.inr ⟨.notCallable, Or.inl (by simp [iterateResult])⟩⟩

/-- an object whose `@iterator` returns the object itself: exactly 16 calls through the public API,
17 in a `for` loop, then the nesting error (no unbounded recursion) -/
theorem self_returning_iterator (m : MapD) (ti : Name)
    (hn : m.metaGet .Next = none) (hi : m.metaGet .Iterator = some (ti, .fn (.ret .self))) :
    let ev : Ev := ⟨ti, .mk .Iterator, m.av, []⟩
    toList (.map m) = ⟨List.replicate 16 ev, .err .tooNested⟩ ∧
    forLoop (.map m) = ⟨List.replicate 17 ev, .err .tooNested⟩ := by
  intro ev
  have hstep : nestStep m.av ev m.av m.av = some (ev, m.av) := by simp [nestStep, MapD.av]
  constructor
  · simp only [toList, hn, hi, invoke_fn, Beh.run, Beh.runAt, RV.toAV, nestingLimit]
    simp only [show (MV.fn (Beh.ret RV.self) == MV.nonCallable) = false from rfl, Bool.false_eq_true, if_false,
      List.headD_cons]
    rw [iterWalk_cycle _ _ m.av ev hstep]
    simp [List.replicate_succ, ev]
  · simp only [forLoop, hn, hi, invoke_fn, Beh.run, Beh.runAt, RV.toAV, nestingLimit]
    simp only [show (MV.fn (Beh.ret RV.self) == MV.nonCallable) = false from rfl, Bool.false_eq_true, if_false,
      List.headD_cons]
    rw [iterWalk_cycle _ _ m.av ev hstep]
    simp [List.replicate_succ, ev]

/-- a finite nest of `d` further objects around a list, within the limit: every `@iterator` of the
nest is evaluated once, outermost first, and the iteration is the iteration of the innermost list —
for the public API when the total depth `d + 1 ≤ 16`, in a `for` loop when `d + 1 ≤ 17` -/
theorem nest_within_limit (m : MapD) (ti : Name) (d : Nat) (hd : 1 ≤ d)
    (hn : m.metaGet .Next = none) (hi : m.metaGet .Iterator = some (ti, .fn (.ret (.nest d .lst)))) :
    let ev : Ev := ⟨ti, .mk .Iterator, m.av, []⟩
    (d + 1 ≤ 16 → toList (.map m) = ⟨ev :: nestEvents 1 d d .lst, .ok (.lst [20, 21])⟩) ∧
    (d + 1 ≤ 17 → forLoop (.map m) = ⟨ev :: nestEvents 1 d d .lst, .ok (.lst [20, 21])⟩) := by
  intro ev
  have hd0 : ¬ d = 0 := by omega
  have hroot : ∀ xs, m.av ≠ .lst xs := by intro xs; simp [MapD.av]
  obtain ⟨k, rfl⟩ : ∃ k, d = k + 1 := ⟨d - 1, by omega⟩
  constructor
  · intro hle
    simp only [toList, hn, hi, invoke_fn, Beh.run, Beh.runAt, RV.toAV, nestingLimit, hd0, if_false]
    simp only [show (MV.fn (Beh.ret (RV.nest (k + 1) NestFin.lst)) == MV.nonCallable) = false from rfl,
      Bool.false_eq_true, if_false, List.headD_cons]
    rw [iterWalk_nest m.av ev _ iterateResult (k + 1) hroot k 1 15 [ev] (by omega) (by omega)]
    simp [iterateResult, ev]
  · intro hle
    simp only [forLoop, hn, hi, invoke_fn, Beh.run, Beh.runAt, RV.toAV, nestingLimit, hd0, if_false]
    simp only [show (MV.fn (Beh.ret (RV.nest (k + 1) NestFin.lst)) == MV.nonCallable) = false from rfl,
      Bool.false_eq_true, if_false, List.headD_cons]
    rw [iterWalk_nest m.av ev _ iterateResult (k + 1) hroot k 1 16 [ev] (by omega) (by omega)]
    simp [iterateResult, ev]

/-- the boundary: total depth 17 (`d = 16`) is too deep for the public API but still fine in `for`;
depth 18 is too deep for both; a 2-cycle ends in the nesting error like a self-cycle -/
theorem nest_at_limit :
    let m (d : Nat) (fin : NestFin) : MapD :=
      { top := { name := 0, src := .own { tag := 0, ops := [(.Iterator, .fn (.ret (.nest d fin)))] } } }
    (toList (.map (m 15 .lst))).res = .ok (.lst [20, 21]) ∧
    (toList (.map (m 16 .lst))).res = .err .tooNested ∧ (toList (.map (m 16 .lst))).trace.length = 16 ∧
    (forLoop (.map (m 16 .lst))).res = .ok (.lst [20, 21]) ∧
    (forLoop (.map (m 17 .lst))).res = .err .tooNested ∧ (forLoop (.map (m 17 .lst))).trace.length = 17 ∧
    (toList (.map (m 1 .back))).res = .err .tooNested ∧ (toList (.map (m 1 .back))).trace.length = 16 ∧
    (forLoop (.map (m 1 .back))).trace.length = 17 ∧
    (toList (.map (m 2 .int))).res = .err .type := by
  decide

/-- the result of `@iterator` is used as an *iterable*: every iterable kind yields its elements
(after exactly one `@iterator` call), a non-iterable result is a type error — in `for` as in the
public path -/
theorem iterator_result_spec (m : MapD) (ti : Name) (v : RV)
    (hn : m.metaGet .Next = none) (hi : m.metaGet .Iterator = some (ti, .fn (.ret v))) :
    let ev : Ev := ⟨ti, .mk .Iterator, m.av, []⟩
    (v = .lst ∨ v = .tup ∨ v = .iter ∨ v = .gen → forLoop (.map m) = ⟨[ev], .ok (.lst [20, 21])⟩) ∧
    (v = .rng → forLoop (.map m) = ⟨[ev], .ok (.lst [0, 1])⟩) ∧
    (v = .innerIter →
      forLoop (.map m) = ⟨[ev, ⟨901, .mk .Iterator, .inner false, []⟩], .ok (.lst [20, 21])⟩) ∧
    (v = .innerNext → (forLoop (.map m)).res = .ok (.lst [10, 11])) ∧
    ((∃ n, v = .int n) ∨ v = .null ∨ (∃ b, v = .bool b) → forLoop (.map m) = ⟨[ev], .err .type⟩) := by
  intro ev
  have h0 : forLoop (.map m) =
      iterWalk (nestStep m.av ev (v.toAV m.av)) iterateResult 16 (v.toAV m.av) [ev] := by
    simp only [forLoop, hn, hi, invoke_fn, Beh.run, Beh.runAt, nestingLimit]
    cases v <;> simp [ev]
  refine ⟨?_, ?_, ?_, ?_, ?_⟩
  · rintro (h | h | h | h) <;> subst h <;>
      simp [h0, RV.toAV, iterWalk, nestStep, iterateResult, MapD.av]
  · intro h; subst h; simp [h0, RV.toAV, iterWalk, nestStep, iterateResult, MapD.av]
  · intro h; subst h; simp [h0, RV.toAV, iterWalk, nestStep, iterateResult, MapD.av]
  · intro h; subst h; simp [h0, RV.toAV, iterWalk, nestStep, iterateResult, MapD.av]
  · rintro (⟨n, h⟩ | h | ⟨b, h⟩) <;> subst h <;>
      simp [h0, RV.toAV, iterWalk, nestStep, iterateResult, MapD.av]

example : forLoop (.map { top := { name := 0, src := .own { tag := 0, ops := [(.Iterator, .fn (.ret .lst))] } } })
    = ⟨[⟨0, .mk .Iterator, .obj 0, []⟩], .ok (.lst [20, 21])⟩ := by decide


/-- `@next_back` (used by `iterator.reversed`) is looked at only when `@next` is implemented; the
reversed iteration then calls `@next_back` alone until it returns `null` — on a copy of the object
(own data, shared metamap: the reversed iterator advances independently, /repo 5ed8254); without
`@next_back` an object with `@next` is not reversible -/
theorem next_back_spec (m : MapD) (tn : Name) (bn : Beh) (hn : m.metaGet .Next = some (tn, .fn bn)) :
    (∀ tb n, m.metaGet .NextBack = some (tb, .fn (.count n)) →
      reversed (.map m) = ⟨(List.range (n + 1)).map (fun _ => ⟨tb, .mk .NextBack, .objCopy m.top.name, []⟩),
        .ok (.lst ((List.range n).map (fun i => 10 + Int.ofNat i)))⟩) ∧
    (m.metaGet .NextBack = none → reversed (.map m) = ⟨[], .err .notReversible⟩) := by
  refine ⟨?_, ?_⟩
  · intro tb n hb; simp [reversed, hn, hb, nextLoop]
  · intro hb; simp [reversed, hn, hb]

/-- `with_meta` ≈ own metamap, also for reversed iteration -/
theorem shared_meta_same_reversed (a : Opd) : reversed a.unshare = reversed a := by
  cases a with
  | prim k => rfl
  | host h => rfl
  | map m =>
    have htop : m.unshare.top.metaOf = m.top.metaOf := by simp [MapD.unshare, unshare_metaOf]
    have hname : m.unshare.top.name = m.top.name := by simp [MapD.unshare, unshare_name]
    simp [Opd.unshare, reversed, unshare_metaGet, unshare_av, htop, hname]


/-! ## host objects (trait `KotoObject`) -/

/-- host objects follow the same arithmetic rules: own method first with (self, other := rhs);
its value is the result -/
theorem host_own_method_first (op : ArithOp) (h : HostD) (rhs : Opd) (v : RV)
    (hi : h.impl.lookup op.hm = some (.ret v)) :
    arith op (.host h) rhs = ⟨[⟨h.name, .host op.hm, h.av, [rhs.av]⟩], .ok (v.toAV h.av)⟩ := by
  simp [arith, HostD.call, hi, Beh.hostRes, Beh.run, Beh.runAt, Opd.av]

/-- an "unimplemented" answer of the left host object falls back to the right operand's `@r…` entry
or `…_rhs` method, with the operands swapped -/
theorem host_unimplemented_fallback (op : ArithOp) (h : HostD) (hi : h.impl.lookup op.hm = none) :
    (∀ (m2 : MapD) tag b, m2.metaGet op.rkey = some (tag, .fn b) →
      arith op (.host h) (.map m2) = ⟨[⟨tag, .mk op.rkey, m2.av, [h.av]⟩], (b.run m2.av).pass⟩) ∧
    (∀ (h2 : HostD) v, h2.impl.lookup op.rhm = some (.ret v) →
      arith op (.host h) (.host h2) = ⟨[⟨h2.name, .host op.rhm, h2.av, [h.av]⟩], .ok (v.toAV h2.av)⟩) := by
  refine ⟨?_, ?_⟩
  · intro m2 tag b hr
    simp [arith, HostD.call, hi, rhsAfterUnimpl, hr, mapRhs, invoke_fn, Opd.av]
  · intro h2 v hr
    simp [arith, HostD.call, hi, rhsAfterUnimpl, hostRhs, hr, Beh.hostRes, Beh.run, Beh.runAt, Opd.av]

/-- left operand a map without the operator, right operand a host object: its `…_rhs` method gets
the left operand -/
theorem host_rhs_fallback (op : ArithOp) (lhs : Opd) (h2 : HostD) (v : RV)
    (hl : match lhs with
      | .map m => m.metaGet op.key = none
      | .prim _ => True
      | .host h => h.impl.lookup op.hm = none)
    (hr : h2.impl.lookup op.rhm = some (.ret v)) :
    arith op lhs (.host h2) = ⟨[⟨h2.name, .host op.rhm, h2.av, [lhs.av]⟩], .ok (v.toAV h2.av)⟩ := by
  cases lhs with
  | prim k => simp [arith, rhsDirect, hostRhs, HostD.call, hr, Beh.hostRes, Beh.run, Beh.runAt, Opd.av]
  | map m =>
    simp only at hl
    simp [arith, hl, rhsDirect, hostRhs, HostD.call, hr, Beh.hostRes, Beh.run, Beh.runAt, Opd.av]
  | host h =>
    simp only at hl
    simp [arith, HostD.call, hl, rhsAfterUnimpl, hostRhs, hr, Beh.hostRes, Beh.run, Beh.runAt, Opd.av]

/-- The trait defaults: `less_or_equal`, `greater`, `greater_or_equal`, `not_equal` are derived from
`less` / `equal` exactly like the metamap derivation; `equal` is consulted only when `less` is false. -/
theorem object_defaults_spec (h : HostD) (a : AV) (lt eq : Bool)
    (hl : h.impl.lookup .less = some (.ret (.bool lt)))
    (he : h.impl.lookup .equal = some (.ret (.bool eq))) :
    let evL : Ev := ⟨h.name, .host .less, h.av, [a]⟩
    let evE : Ev := ⟨h.name, .host .equal, h.av, [a]⟩
    (h.impl.lookup .lessOrEqual = none →
      h.cmp .lessOrEqual a = (if lt then [evL] else [evL, evE], .ok (.bool (lt || eq)))) ∧
    (h.impl.lookup .greater = none →
      h.cmp .greater a = (if lt then [evL] else [evL, evE], .ok (.bool (!(lt || eq))))) ∧
    (h.impl.lookup .greaterOrEqual = none →
      h.cmp .greaterOrEqual a = ([evL], .ok (.bool (!lt)))) ∧
    (h.impl.lookup .notEqual = none →
      h.cmp .notEqual a = ([evE], .ok (.bool (!eq)))) := by
  intro evL evE
  refine ⟨?_, ?_, ?_, ?_⟩
  · intro hn
    cases lt <;> cases eq <;>
      simp [HostD.cmp, hn, HostD.lessOrEqualDefault, HostD.call, hl, he, Beh.hostRes, Beh.run, Beh.runAt,
        RV.toAV, truthy, evL, evE]
  · intro hn
    cases lt <;> cases eq <;>
      simp [HostD.cmp, hn, HostD.greaterDefault, HostD.call, hl, he, Beh.hostRes, Beh.run, Beh.runAt,
        RV.toAV, truthy, evL, evE]
  · intro hn
    cases lt <;>
      simp [HostD.cmp, hn, HostD.greaterOrEqualDefault, HostD.call, hl, Beh.hostRes, Beh.run, Beh.runAt,
        RV.toAV, truthy, evL]
  · intro hn
    cases eq <;>
      simp [HostD.cmp, hn, HostD.notEqualDefault, HostD.call, he, Beh.hostRes, Beh.run, Beh.runAt,
        RV.toAV, truthy, evE]

example : (HostD.cmp { name := 0, impl := [(.less, .ret (.bool false)), (.equal, .ret (.bool true))] }
    .greaterOrEqual .null).2 = .ok (.bool true) := by decide

/-- … and every operation a host object does not implement is reported as an error
(nothing is silently defaulted), whatever the other operand is, unless the other operand implements
the right-hand side of an arithmetic operator -/
theorem object_unimplemented_is_error (h : HostD) (hn : h.impl = []) :
    (∀ op (k : PrimK), ∃ e, arith op (.host h) (.prim k) = ⟨[], .err e⟩) ∧
    (∀ op (rhs : Opd) same, (∀ h2, rhs ≠ .host h2) → compound op (.host h) rhs same = ⟨[], .err .hostUnimpl⟩) ∧
    (∀ op (rhs : Opd), rhs ≠ .prim .null → compareOp op (.host h) rhs = ⟨[], .err .hostUnimpl⟩) ∧
    negate (.host h) = ⟨[], .err .hostUnimpl⟩ ∧
    (∀ i, index (.host h) i = ⟨[], .err .hostUnimpl⟩) ∧
    (∀ i, indexAssign (.host h) i = ⟨[], .err .hostUnimpl⟩) ∧
    callOp (.host h) = ⟨[], .err .hostUnimpl⟩ ∧
    size (.host h) = ⟨[], .err .type⟩ ∧
    (∀ k, accessAssign (.host h) k = ⟨[], .err .hostUnimpl⟩) ∧
    (∀ M k, h.iter = .notIterable → access M (.host h) k = ⟨[], .err .notFound⟩) ∧
    (h.iter = .notIterable → toList (.host h) = ⟨[], .err .type⟩ ∧ reversed (.host h) = ⟨[], .err .type⟩) := by
  refine ⟨?_, ?_, ?_, ?_, ?_, ?_, ?_, ?_, ?_, ?_, ?_⟩
  · intro op k
    exact ⟨.binop op.key, by simp [arith, HostD.call, hn, rhsAfterUnimpl]⟩
  · intro op rhs same hr
    cases rhs with
    | host h2 => exact absurd rfl (hr h2)
    | prim k => simp [compound, HostD.call, hn, HostRes.pass]
    | map m => simp [compound, HostD.call, hn, HostRes.pass]
  · intro op rhs hr
    cases op <;> cases rhs with
    | prim k =>
      cases k <;>
        simp_all [compareOp, order, equality, HostD.cmp, HostD.call, CmpOp.hm, HostD.lessOrEqualDefault,
          HostD.greaterDefault, HostD.greaterOrEqualDefault, HostD.notEqualDefault, HostRes.pass]
    | map m =>
      simp [compareOp, order, equality, HostD.cmp, HostD.call, hn, CmpOp.hm, HostD.lessOrEqualDefault,
        HostD.greaterDefault, HostD.greaterOrEqualDefault, HostD.notEqualDefault, HostRes.pass]
    | host h2 =>
      simp [compareOp, order, equality, HostD.cmp, HostD.call, hn, CmpOp.hm, HostD.lessOrEqualDefault,
        HostD.greaterDefault, HostD.greaterOrEqualDefault, HostD.notEqualDefault, HostRes.pass]
  · simp [negate, HostD.call, hn, HostRes.pass]
  · intro i; simp [index, HostD.call, hn, HostRes.pass]
  · intro i; simp [indexAssign, HostD.call, hn, HostRes.pass]
  · simp [callOp, HostD.call, hn, HostRes.pass]
  · simp [size, hn]
  · intro k; simp [accessAssign, HostD.call, hn, HostRes.pass]
  · intro M k hi; simp [access, hn, hi]
  · intro hi; simp [toList, reversed, hostIterate, hi]

/-- host objects in iterable contexts: an iterator object (`ForwardIterator` / `BidirectionalIterator`)
is driven through `iterator_next` until it ends; `iterator.reversed` needs `BidirectionalIterator`,
works on a *copy* of the object and calls `iterator_next_back` only; an object that is not iterable is
an error for `iterator.*` but is iterated once — yielding itself — by `for` (as any single value) -/
theorem host_iteration_spec (h : HostD) :
    (∀ n, h.iter = .forward n →
      forLoop (.host h) = hostDrive h .iteratorNext n ∧ toList (.host h) = hostDrive h .iteratorNext n ∧
      reversed (.host h) = ⟨[], .err .notReversible⟩) ∧
    (∀ n, h.iter = .bidirectional n →
      (reversed (.host h)).trace =
        ⟨h.name, .copy, h.av, []⟩ ::
          (List.range (n + 1)).map (fun _ => ⟨h.name, .host .iteratorNextBack, .host h.name (h.gen + 1), []⟩)) ∧
    (h.iter = .notIterable → forLoop (.host h) = ⟨[], .ok (.one h.av)⟩) := by
  refine ⟨?_, ?_, ?_⟩
  · intro n hi; simp [forLoop, toList, reversed, hostIterate, hi]
  · intro n hi; simp [reversed, hi, hostDrive, HostD.av]
  · intro hi; simp [forLoop, hostIterate, hi]


/-! ## host objects defined with `#[koto_impl]` (crates/derive access tables) -/

/-- `.` on a derived object follows the documented order: `#[koto_get_override]` when it answers,
then the table of `#[koto_method]`s and `#[koto_get]`s (under every name and alias), then
`#[koto_get_fallback]`; a key nobody answers is a "not found" error (never a silent `null`) -/
theorem derived_access_order (d : DerivedD) (k : Key) :
    (k ∈ d.getOverride.getD [] → (derivedAccess d k).res = .ok (.int 55)) ∧
    (k ∉ d.getOverride.getD [] → (∃ f, d.methods.lookup k = some f) →
      (derivedAccess d k).res = .ok .native) ∧
    (∀ f, k ∉ d.getOverride.getD [] → d.methods.lookup k = none → d.getters.lookup k = some f →
      (derivedAccess d k).res = .ok (.int 88) ∧ d.ev (.getter f) [] ∈ (derivedAccess d k).trace) ∧
    (k ∉ d.getOverride.getD [] → d.methods.lookup k = none → d.getters.lookup k = none →
      (derivedAccess d k).res =
        if k ∈ d.getFallback.getD [] then .ok (.int 66) else .err .notFound) := by
  refine ⟨?_, ?_, ?_, ?_⟩
  · intro h; simp [derivedAccess, h]
  · intro h ⟨f, hf⟩; simp [derivedAccess, h, hf]
  · intro f h hm hg; simp [derivedAccess, h, hm, hg]
  · intro h hm hg
    simp only [derivedAccess]
    cases hfb : d.getFallback with
    | none => simp [h, hm, hg]
    | some ks =>
      by_cases hk : k ∈ ks
      · simp [h, hm, hg, hk]
      · simp [h, hm, hg, hk]

/-- a `#[koto_method]` reached through `.` is called with the accessed object as instance and the
call's arguments — under its name and under every alias -/
theorem derived_method_instance (d : DerivedD) (k : Key) (f : Nat)
    (h : k ∉ d.getOverride.getD []) (hm : d.methods.lookup k = some f) :
    (derivedMethod d k).res = .ok (.int 77) ∧
    (derivedMethod d k).trace.getLast? = some ⟨d.name, .dv (.method f), d.av, [.int 7]⟩ := by
  simp [derivedMethod, derivedAccess, h, hm, DerivedD.ev]

/-- assignment through `.`: `#[koto_set_override]`, then the `#[koto_set]` table, then
`#[koto_set_fallback]`; a key nobody takes is an error -/
theorem derived_assign_spec (d : DerivedD) (k : Key)
    (h : k ∉ d.setOverride.getD []) (hs : d.setters.lookup k = none) :
    (d.setFallback = none → (derivedAccessAssign d k).res = .err .unexpectedKey) ∧
    (∀ ks, d.setFallback = some ks →
      (derivedAccessAssign d k).res = if k ∈ ks then .ok .builtin else .err .hostErr) := by
  refine ⟨?_, ?_⟩
  · intro hf; simp [derivedAccessAssign, h, hs, hf]
  · intro ks hf
    by_cases hk : k ∈ ks <;> simp [derivedAccessAssign, h, hs, hf, hk]

/-- … and a `#[koto_set]` entry (under its name or an alias) receives the value -/
theorem derived_setter_called (d : DerivedD) (k : Key) (f : Nat)
    (h : k ∉ d.setOverride.getD []) (hs : d.setters.lookup k = some f) :
    (derivedAccessAssign d k).res = .ok .builtin ∧
    (derivedAccessAssign d k).trace.getLast? = some (d.ev (.setter f) [.int 5]) := by
  simp [derivedAccessAssign, h, hs]

example : derivedMethod { name := 0, methods := [(5, 1), (6, 1)], getOverride := some [7] } 6
    = ⟨[⟨0, .dv .getOverride, .host 0 0, [.key 6]⟩, ⟨0, .dv (.method 1), .host 0 0, [.int 7]⟩], .ok (.int 77)⟩ := by
  decide
example : (derivedAccess { name := 0, getters := [(7, 1)] } 10).res = .err .notFound := by decide


/-! ## further entry points (documented behaviour; see findings F-C17-3 … F-C17-7 for where the
implementation deviated when these were added) -/

/-- a native (Rust) function stored under a metakey is dispatched to exactly like a Koto function:
same `self`, same arguments, its value is the result — under every metakey and every operation,
since all operations go through `invoke` -/
theorem native_entry_same_as_function (tag : Name) (key : MKey) (v : RV) (self : AV) (args : List AV) :
    invoke tag key (.native v) self args = invoke tag key (.fn (.ret v)) self args := by
  simp [invoke, invokeAt, Beh.runAt]

/-- packed call arguments (`x(args...)`) and the host API `run_write_op` reach the same dispatch as
the plain call / the index assignment -/
theorem entry_points_same (o : Opd) (i : IdxK) :
    callPacked o = callOp o ∧ apiIndexAssign o i = indexAssign o i := ⟨rfl, rfl⟩

/-- a trailing position in unpacking / `match (others..., last)` on a map object asks `@index` for
`size - 1` (counted from the end given by `@size`), never for a negative index -/
theorem match_last_index (m : MapD) (ts ti : Name) (n : Int) (v : RV)
    (hs : m.metaGet .Size = some (ts, .fn (.ret (.int n))))
    (hi : m.metaGet .Index = some (ti, .fn (.ret v))) :
    (matchLast (.map m)).trace.getLast? = some ⟨ti, .mk .Index, m.av, [.int (n - 1)]⟩ ∧
    (matchLast (.map m)).res = .ok (v.toAV m.av) := by
  simp [matchLast, hs, hi, invoke_fn, invokeAt, Beh.run, Beh.runAt, CallRes.pass]

/-- the entries of a map literal are data entries: building the literal calls nothing (in
particular not an `@access_assign` defined earlier in the same literal) and every key is in the data -/
theorem literal_entries_are_data (l : Layer) :
    (literalKeys l).trace = [] ∧ (literalKeys l).res = .ok (.keys l.data) := ⟨rfl, rfl⟩


/-! ## display and type -/

/-- `@display` is used for rendering and must return a String; without it the rendering is the
`@type` (found along `@base`) followed by the data -/
theorem display_spec (m : MapD) :
    (∀ tag, m.metaGet .Display = some (tag, .fn (.ret .str)) →
      display (.map m) = ⟨[⟨tag, .mk .Display, m.av, []⟩], .ok .str⟩) ∧
    (∀ tag n, m.metaGet .Display = some (tag, .fn (.ret (.int n))) →
      (display (.map m)).res = .err .type) ∧
    (m.metaGet .Display = none → display (.map m) = ⟨[], .ok (.shown (metaType m.layers))⟩) ∧
    (∀ tag, m.metaGet .Debug = none → m.metaGet .Display = some (tag, .fn (.ret .str)) →
      debug (.map m) = ⟨[⟨tag, .mk .Display, m.av, []⟩], .ok .str⟩) := by
  refine ⟨?_, ?_, ?_, ?_⟩
  · intro tag h; simp [display, h, invoke_fn, Beh.run, Beh.runAt, RV.toAV, needStr]
  · intro tag n h; simp [display, h, invoke_fn, Beh.run, Beh.runAt, RV.toAV, needStr]
  · intro h; simp [display, h]
  · intro tag hd h
    simp [debug, hd, displayNested, display, h, invoke_fn, Beh.run, Beh.runAt, RV.toAV, needStr]


/-! ## operand order, in general -/

/-- Every callee invoked by a binary arithmetic operation — whatever the operands, key sets, callee
behaviours, callable-map chains — is called in one of the documented forms: the left operand's
entry / method with (self := lhs, arg := rhs), or the right operand's `@r…` entry / `…_rhs` method
with (self := rhs, arg := lhs) (or, for an entry that is a callable map, that map's `@call` with
the same argument). In particular the right-hand forms never receive (lhs, rhs) unswapped. -/
theorem operand_order (op : ArithOp) (lhs rhs : Opd) :
    ∀ e ∈ (arith op lhs rhs).trace, Ordered op lhs rhs e :=
  arith_ordered op lhs rhs

/-- the left and right keys of an operator are different metakeys, and neither is `@call` -/
theorem operand_keys_distinct (op : ArithOp) :
    op.key ≠ op.rkey ∧ op.key ≠ op.akey ∧ op.rkey ≠ op.akey ∧ op.key ≠ .Call ∧ op.rkey ≠ .Call := by
  cases op <;> decide

/-- operand order for the remaining operators (6 compound assignments, 6 comparisons, negation):
whenever the operator's entry is a function it is called exactly once with (self := lhs, arg := rhs)
— collected from `compound_own_key`, `cmp_own_key`, `unary_own_key` -/
theorem operand_order_other (m : MapD) (rhs : Opd) (tag : Name) (b : Beh) :
    (∀ op same, m.metaGet op.akey = some (tag, .fn b) →
      (compound op (.map m) rhs same).trace = [⟨tag, .mk op.akey, m.av, [rhs.av]⟩]) ∧
    (∀ op, rhs ≠ .prim .null → m.metaGet (CmpOp.key op) = some (tag, .fn b) →
      (compareOp op (.map m) rhs).trace = [⟨tag, .mk op.key, m.av, [rhs.av]⟩]) ∧
    (m.metaGet .Negate = some (tag, .fn b) → (negate (.map m)).trace = [⟨tag, .mk .Negate, m.av, []⟩]) := by
  refine ⟨?_, ?_, ?_⟩
  · intro op same h; rw [compound_own_key op m rhs same tag b h]
  · intro op hn h; rw [cmp_own_key op m rhs tag b h hn]
  · intro h; rw [(unary_own_key m tag b).1 h]

example : Ordered .sub (.prim .num) (.map { top := { name := 1 } }) ⟨1, .mk .SubtractRhs, .obj 1, [.prim .num]⟩ :=
  Or.inr (Or.inl ⟨1, rfl⟩)


/-- displaying a container renders each element exactly as displaying the element directly, and an
error raised while rendering an element — a value thrown by its `@display`, a non-String result, a
host method's error — reaches the script unchanged: same trace, same class, same value
(/repo 9cbdb4e; F-C04-12). The `@debug` fallback goes the same way. -/
theorem display_nested_same (o : Opd) :
    displayNested o = display o ∧
    (∀ m, o = .map m → m.metaGet .Debug = none → debug o = display o) := by
  refine ⟨rfl, ?_⟩
  intro m ho hd
  subst ho
  simp [debug, hd, displayNested]

/-- in particular a `@display` that throws, or returns a non-String, gives the original error inside
a container too -/
theorem display_nested_error_unchanged (m : MapD) (tag : Name) :
    (m.metaGet .Display = some (tag, .fn .throw) → (displayNested (.map m)).res = .err .thrown) ∧
    (∀ n, m.metaGet .Display = some (tag, .fn (.ret (.int n))) → (displayNested (.map m)).res = .err .type) := by
  refine ⟨?_, ?_⟩
  · intro h; simp [displayNested, display, h, invoke_fn, Beh.run, Beh.runAt, needStr, CallRes.pass]
  · intro n h; simp [displayNested, display, h, invoke_fn, Beh.run, Beh.runAt, RV.toAV, needStr]


/-- the host API `run_binary_op(…Assign, x, y)` is the compound assignment on two distinct values: the
`@op=` entry is called with (self := x, arg := y) and the result is `x` (the callee's value is
discarded) -/
theorem api_compound_spec (op : ArithOp) (m : MapD) (rhs : Opd) (tag : Name) (v : RV)
    (h : m.metaGet op.akey = some (tag, .fn (.ret v))) :
    apiCompound op (.map m) rhs = ⟨[⟨tag, .mk op.akey, m.av, [rhs.av]⟩], .ok m.av⟩ := by
  unfold apiCompound
  rw [compound_own_key op m rhs false tag (.ret v) h]
  simp [Beh.run, Beh.runAt]

/-- inside a container rendered in a debug context an element's `@debug` is used, exactly as when the
element is rendered with `:?` directly (`@display` only as the fallback) -/
theorem debug_nested_same (o : Opd) : debugNested o = debug o := rfl

theorem debug_nested_uses_debug (m : MapD) (tag : Name)
    (h : m.metaGet .Debug = some (tag, .fn (.ret .str))) :
    debugNested (.map m) = ⟨[⟨tag, .mk .Debug, m.av, []⟩], .ok .str⟩ := by
  simp [debugNested, debug, h, invoke_fn, Beh.run, Beh.runAt, RV.toAV, needStr]


end KotoVerif.C17
