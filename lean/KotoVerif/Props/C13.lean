/-
C13 — Iterator pipelines are lazy, ordered and faithful to sequence semantics.

Property theorems about the model `Model/Iter.lean` (state machines mirroring
`core_lib/iterator/adaptors.rs`, `types/iterator.rs`, `types/range.rs`, `core_lib/iterator.rs`).
All statements quantify over every pipeline / source / parameter / number of calls — no bound.
`fuel` is the loop bound of `Keep`/`Flatten` and of the consumer loop; statements hold for every
fuel that exceeds the length of the sequences involved. Helper lemmas: `Lemmas/C13*.lean`.

Vocabulary: `outs c n s` = outputs of `n` consecutive `next` calls from state `s`; `ideal n xs` = what
an ideal sequence `xs` answers (`some x₀, …, none, none, …`); `outsD` / `idealD` = the same for
arbitrary sequences of `next` (`true`) and `next_back` (`false`) calls; `pullN c m s` = final state
and all events of `m` consecutive `next` calls.
-/
import KotoVerif.Lemmas.C13Trace

namespace KotoVerif.C13
open KotoVerif KotoVerif.Iter

/-! ## faithful: every pipeline yields the mathematical definition of its operations -/

/-- **iter_refines.** For every well-formed pipeline `p` without endless parts — any composition of
`each, keep, take, take_while, skip, step, chain, zip, enumerate, chunks, windows, flatten,
intersperse(_with), reversed, peekable, keys/values` over list/tuple/map/range/string/bytes/host
bytes/generator/`@next` object/`repeat n` sources — the iterator built by the state machines yields exactly `den p`
(`take = List.take`, `skip = drop`, `chain = ++`, `keep = filter`, `each = map`,
`reversed = reverse`, …) and then `None` forever, for any number of `next` calls. -/
theorem iter_refines (fuel : Nat) (p : Pipe) (xs : List Val)
    (hreg : p.regular = true) (herr : p.err = none) (hden : den p = some xs) (hfit : p.fits fuel) :
    ∀ n, outs (build fuel p).c n (build fuel p).s = ideal n xs :=
  (pipe_sem fuel p xs hreg herr hden hfit).1

/-- the hypotheses of `iter_refines` are satisfiable by a non-trivial pipeline (depth 4, two sources) -/
example : ∃ (p : Pipe) (xs : List Val), p.regular = true ∧ p.err = none ∧ den p = some xs ∧ p.fits 8 ∧
    xs.length = 3 :=
  ⟨.take 3 (.chain (.windows 2 (.each .wrap (.src (.gen 0 [Val.int 10, Val.int 11, Val.int 12]))))
      (.skip 1 (.src (.seq [Val.int 1, Val.int 2])))), _, rfl, rfl, rfl,
    by simp [Pipe.fits], rfl⟩

/-- **iter_refines for `to_list`.** Collecting the built iterator returns `den p` as a list. -/
theorem to_list_refines (fuel : Nat) (p : Pipe) (xs : List Val)
    (hreg : p.regular = true) (herr : p.err = none) (hden : den p = some xs) (hfit : p.fits fuel)
    (hlen : xs.length < fuel) : (runCase fuel p .toList).1 = .ok (.list xs) := by
  have h := (pipe_sem fuel p xs hreg herr hden hfit).1
  simp only [runCase, herr, runCons, runLoop, drain]
  show (foldIt _ _ fuel (build fuel p) []).1 = _
  rw [foldIt_spec _ _ xs fuel (build fuel p) [] h hlen, drain_list]
  simp

example : (runCase 8 (.take 2 (.each .ident (.src (.gen 0 [Val.int 10, Val.int 11, Val.int 12])))) .toList).1
    = .ok (.list [Val.int 10, Val.int 11]) :=
  to_list_refines 8 (.take 2 (.each .ident (.src (.gen 0 [Val.int 10, Val.int 11, Val.int 12]))))
    [Val.int 10, Val.int 11] rfl rfl rfl trivial (by simp)

/-- **consumer_refines.** Every single-loop consumer (`to_list, to_tuple, to_map, to_string, count,
sum, product, min, max, min_max` (also by key), `find, position, any, all, last, fold, consume`,
`for`) applied to the built iterator returns what the same consumer returns on the plain list
`den p` — the property's answer `specCase`. -/
theorem consumer_refines (fuel : Nat) (p : Pipe) (c : Cons) (xs : List Val)
    (hreg : p.regular = true) (herr : p.err = none) (hden : den p = some xs) (hfit : p.fits fuel)
    (hlen : xs.length < fuel) :
    (runLoop fuel (build fuel p) c).1 = (runLoop (xs.length + 1) (listIt xs) c).1 :=
  runLoop_spec c fuel (build fuel p) xs (pipe_sem fuel p xs hreg herr hden hfit).1 hlen

example : (runLoop 8 (build 8 (.skip 1 (.src (.seq [Val.int 0, Val.int 1, Val.int 2])))) .count).1
    = (runLoop 3 (listIt [Val.int 1, Val.int 2]) .count).1 :=
  consumer_refines 8 (.skip 1 (.src (.seq [Val.int 0, Val.int 1, Val.int 2]))) .count
    [Val.int 1, Val.int 2] rfl rfl rfl trivial (by simp)

/-! ## reversing and double-ended use -/

/-- **double_ended_spec.** A bidirectional pipeline (list/tuple/map/range/string/`@next_back` object
under `each`, `skip`, `reversed`, `peekable`) answers *every* interleaving of `next` and `next_back`
calls like the ideal double-ended sequence `den p`: front calls take the head, back calls the last
element, nothing is yielded twice, an exhausted iterator stays exhausted. -/
theorem double_ended_spec (fuel : Nat) (p : Pipe) (xs : List Val)
    (hreg : p.regular = true) (herr : p.err = none) (hden : den p = some xs) (hfit : p.fits fuel)
    (hbi : p.bidir = true) :
    ∀ ds, outsD (build fuel p).c ds (build fuel p).s = idealD ds xs :=
  (pipe_sem fuel p xs hreg herr hden hfit).2 hbi

example : outsD (build 8 (.skip 1 (.src (.seq [Val.int 1, Val.int 2, Val.int 3])))).c [false, true, true]
      (build 8 (.skip 1 (.src (.seq [Val.int 1, Val.int 2, Val.int 3])))).s
    = [some (Val.int 3), some (Val.int 2), none] :=
  double_ended_spec 8 (.skip 1 (.src (.seq [Val.int 1, Val.int 2, Val.int 3]))) [Val.int 2, Val.int 3]
    rfl rfl rfl trivial rfl [false, true, true]

/-- **reversed_spec.** Reversing a bidirectional pipeline yields exactly its forward sequence
backwards (and `reversed` is itself double-ended, so it composes). This includes
`Skip::next_back`, which first performs the pending forward skip. -/
theorem reversed_spec (fuel : Nat) (p : Pipe) (xs : List Val)
    (hreg : p.regular = true) (herr : p.err = none) (hden : den p = some xs) (hfit : p.fits fuel)
    (hbi : p.bidir = true) :
    (∀ n, outs (build fuel (.reversed p)).c n (build fuel (.reversed p)).s = ideal n xs.reverse) ∧
    (∀ ds, outsD (build fuel (.reversed p)).c ds (build fuel (.reversed p)).s = idealD ds xs.reverse) := by
  have herr' : (Pipe.reversed p).err = none := by simp [Pipe.err, herr, hbi]
  have hden' : den (.reversed p) = some xs.reverse := by simp [den, hden]
  have h := pipe_sem fuel (.reversed p) xs.reverse hreg herr' hden' hfit
  exact ⟨h.1, h.2 rfl⟩

example : (runCase 8 (.reversed (.skip 1 (.src (.seq [Val.int 0, Val.int 1, Val.int 2, Val.int 3])))) .toList).1
    = .ok (.list [Val.int 3, Val.int 2, Val.int 1]) :=
  to_list_refines 8 (.reversed (.skip 1 (.src (.seq [Val.int 0, Val.int 1, Val.int 2, Val.int 3]))))
    [Val.int 3, Val.int 2, Val.int 1] rfl rfl rfl trivial (by simp)

/-- **calls_refines.** What a script observes from any sequence of `iterator.next` /
`iterator.next_back` calls on a bidirectional pipeline (outputs, `END` for null) is what the ideal
double-ended sequence answers — exhausted-iterator reuse included. -/
theorem calls_refines (fuel : Nat) (p : Pipe) (xs : List Val)
    (hreg : p.regular = true) (herr : p.err = none) (hden : den p = some xs) (hfit : p.fits fuel)
    (hbi : p.bidir = true) (ds : List Bool) :
    (runCalls ds (build fuel p)).1 = (idealD ds xs).map (fun o => o.getD endMarker) := by
  rw [runCalls_outs, double_ended_spec fuel p xs hreg herr hden hfit hbi ds]

example : (runCalls [true, false, false, true] (build 8 (.each .ident (.src (.seq [Val.int 1, Val.int 2]))))).1
    = [Val.int 1, Val.int 2, endMarker, endMarker] :=
  calls_refines 8 (.each .ident (.src (.seq [Val.int 1, Val.int 2]))) [Val.int 1, Val.int 2]
    rfl rfl rfl trivial rfl _

/-- **peek_ops_refine.** Any sequence of `next`, `next_back`, `peek`, `peek_back` on
`p.peekable()` over a bidirectional pipeline answers like the ideal double-ended sequence `den p`,
where `peek` / `peek_back` look at the two ends without removing anything (the cached element stays
part of the sequence, also when it is the only one left and is reached from the other end). For
forward-only pipelines see `peek_ops_forward_only`. -/
theorem peek_ops_refine (fuel : Nat) (p : Pipe) (xs : List Val)
    (hreg : p.regular = true) (herr : p.err = none) (hden : den p = some xs) (hfit : p.fits fuel)
    (hbi : p.bidir = true) (ops : List PeekOp) :
    (runCase fuel p (.peekOps ops)).1 = .ok (.list (specPeekOps ops xs)) := by
  have hd := (pipe_sem fuel p xs hreg herr hden hfit).2 hbi
  have hb : (build fuel p).c.bidir = true := by rw [build_bidir]; exact hbi
  have h := runPeekOps_spec (build fuel p).c endMarker hb ops ⟨(build fuel p).s, none, none⟩ xs hd
  simp only [peekDen, Option.toList, List.nil_append, List.append_nil] at h
  simp only [runCase, herr]
  show Except.ok (Val.list (runPeekOps (build fuel p).c endMarker ops ⟨(build fuel p).s, none, none⟩).1) = _
  rw [h, specPeekOps_eq]

example : (runCase 8 (.src (.seq [Val.int 1, Val.int 2])) (.peekOps [.peek, .peekBack, .next, .peek, .back, .next])).1
    = .ok (.list [Val.int 1, Val.int 2, Val.int 1, Val.int 2, Val.int 2, endMarker]) :=
  peek_ops_refine 8 (.src (.seq [Val.int 1, Val.int 2])) [Val.int 1, Val.int 2] rfl rfl rfl trivial rfl _

/-- **peek_ops_forward_only.** Over a forward-only pipeline (generator, `keep`, `take`, `zip`, …) any
sequence of `next`, `next_back`, `peek`, `peek_back` on `p.peekable()` answers like the ideal
forward-only sequence `den p`: `next` takes the head, `peek` looks at it, and `next_back` /
`peek_back` answer null and change nothing — in particular a peeked element is never handed out from
the back. (Code as of /repo commit 582d021; before it the peeked element migrated to the back cache
and was yielded last — finding F-C13-4, fixed.) -/
theorem peek_ops_forward_only (fuel : Nat) (p : Pipe) (xs : List Val)
    (hreg : p.regular = true) (herr : p.err = none) (hden : den p = some xs) (hfit : p.fits fuel)
    (hbi : p.bidir = false) (ops : List PeekOp) :
    (runCase fuel p (.peekOps ops)).1 = .ok (.list (specPeekOpsF ops xs)) := by
  have hf := (pipe_sem fuel p xs hreg herr hden hfit).1
  have hb : (build fuel p).c.bidir = false := by rw [build_bidir]; exact hbi
  have h := runPeekOps_fwd_only (build fuel p).c endMarker hb ops ⟨(build fuel p).s, none, none⟩ xs rfl hf
  simp only [Option.toList, List.nil_append] at h
  simp only [runCase, herr]
  show Except.ok (Val.list (runPeekOps (build fuel p).c endMarker ops ⟨(build fuel p).s, none, none⟩).1) = _
  rw [h, specPeekOpsF_eq]

example : (runCase 8 (.src (.gen 0 [Val.int 1, Val.int 2, Val.int 3]))
      (.peekOps [.peek, .peekBack, .next, .back, .next, .next, .next])).1
    = .ok (.list [Val.int 1, endMarker, Val.int 1, endMarker, Val.int 2, Val.int 3, endMarker]) :=
  peek_ops_forward_only 8 (.src (.gen 0 [Val.int 1, Val.int 2, Val.int 3]))
    [Val.int 1, Val.int 2, Val.int 3] rfl rfl rfl trivial rfl _

/-- **peek_back_forward_only_harmless.** Over a forward-only pipeline, after *any* interleaving of
`peek`, `peek_back` and `next_back`, every later sequence of operations — in particular a forward
drain by `n` `next` calls — answers exactly as on the untouched sequence `den p`: no element is lost,
duplicated or moved. -/
theorem peek_back_forward_only_harmless (fuel : Nat) (p : Pipe) (xs : List Val)
    (hreg : p.regular = true) (herr : p.err = none) (hden : den p = some xs) (hfit : p.fits fuel)
    (hbi : p.bidir = false) (ops rest : List PeekOp) (hn : ∀ o ∈ ops, o ≠ PeekOp.next) :
    (runCase fuel p (.peekOps (ops ++ rest))).1 =
      .ok (.list (specPeekOpsF ops xs ++ specPeekOpsF rest xs)) := by
  rw [peek_ops_forward_only fuel p xs hreg herr hden hfit hbi, specPeekOpsF_append ops rest xs hn]

/-- the former witness of F-C13-4: generator `a, b, c`; `peek, peek_back`, then drain -/
example (a b c : Val) :
    (runPeekOps (genCo 0 [a, b, c]) endMarker [.peek, .peekBack, .next, .next, .next, .next]
      ⟨(0, false), none, none⟩).1 = [a, endMarker, a, b, c, endMarker] := rfl

/-- **cycle_take.** Over a pipeline that yields the non-empty `ys`, `cycle` yields
`ys[0], …, ys[len-1], ys[0], …` endlessly: its first `n` outputs are `ys[t % len]` for `t < n`
(so `take n` of it is the `n`-element prefix of the endless repetition). -/
theorem cycle_take (fuel : Nat) (p : Pipe) (ys : List Val)
    (hreg : p.regular = true) (herr : p.err = none) (hden : den p = some ys) (hfit : p.fits fuel)
    (hne : ys ≠ []) (n : Nat) :
    outs (build fuel (.cycle p)).c n (build fuel (.cycle p)).s =
      (List.range n).map (fun t => ys[t % ys.length]?) :=
  cycle_outs _ _ ys (pipe_sem fuel p ys hreg herr hden hfit).1 hne n

example : outs (build 8 (.cycle (.src (.gen 0 [Val.int 1, Val.int 2])))).c 5
      (build 8 (.cycle (.src (.gen 0 [Val.int 1, Val.int 2])))).s
    = [some (Val.int 1), some (Val.int 2), some (Val.int 1), some (Val.int 2), some (Val.int 1)] :=
  cycle_take 8 (.src (.gen 0 [Val.int 1, Val.int 2])) [Val.int 1, Val.int 2] rfl rfl rfl trivial (by simp) 5

/-- `cycle` of an empty sequence is empty -/
theorem cycle_of_empty (fuel : Nat) (p : Pipe)
    (hreg : p.regular = true) (herr : p.err = none) (hden : den p = some []) (hfit : p.fits fuel) :
    ∀ n, outs (build fuel (.cycle p)).c n (build fuel (.cycle p)).s = ideal n [] :=
  cycle_empty _ _ (pipe_sem fuel p [] hreg herr hden hfit).1

example : outs (build 8 (.cycle (.src (.seq [])))).c 2 (build 8 (.cycle (.src (.seq [])))).s = [none, none] :=
  cycle_of_empty 8 (.src (.seq [])) rfl rfl rfl trivial 2

/-- **byteiter_double_ended.** The host byte iterator (`KIterator::with_bytes`) answers every
interleaving of `next` / `next_back` like the ideal double-ended byte sequence. (Before /repo commit
0c6b903 `ByteIterator::next_back` read `bytes[self.index]` and this statement was false — finding
F-C13-1, now fixed; the source is covered by `iter_refines` / `reversed_spec` like any other.) -/
theorem byteiter_double_ended (xs : List Val) :
    ∀ ds, outsD (hostBytesCo xs) ds ⟨0, xs.length⟩ = idealD ds xs := hostBytes_deq xs

example : outsD (hostBytesCo [Val.int 97, Val.int 98, Val.int 99]) [false, false, true, true] ⟨0, 3⟩
    = [some (Val.int 99), some (Val.int 98), some (Val.int 97), none] :=
  byteiter_double_ended [Val.int 97, Val.int 98, Val.int 99] _

/-- reversed host bytes, through the pipeline theorem -/
example : (runCase 8 (.reversed (.src (.hostBytes [Val.int 97, Val.int 98, Val.int 99]))) .toList).1
    = .ok (.list [Val.int 99, Val.int 98, Val.int 97]) :=
  to_list_refines 8 (.reversed (.src (.hostBytes [Val.int 97, Val.int 98, Val.int 99])))
    [Val.int 99, Val.int 98, Val.int 97] rfl rfl rfl trivial (by simp)

/-! ## lazy: adaptors pull only when consumed, one at a time, in order -/

/-- **no_pull_at_build / consumed-only.** Building a pipeline causes no event at all (construction
is a pure function of the pipeline: `build` returns only a state), and a consumer that makes no call
causes none either. -/
theorem no_pull_unless_consumed (fuel : Nat) (p : Pipe) :
    (runCons fuel (build fuel p) (.calls [])).2 = [] := rfl

/-- **lazy_bound (take).** `m` calls on `take k` make exactly `min m k` calls on its input and cause
exactly their events: `take` never pulls more than `k` elements, and never pulls ahead. -/
theorem lazy_bound_take (c : Co) (m k : Nat) (s : c.σ) :
    pullN (takeCo c) m (s, k) = (((pullN c (min m k) s).1, k - min m k), (pullN c (min m k) s).2) :=
  take_calls c m s k

example : (pullN (takeCo (genCo 0 [Val.int 1, Val.int 2, Val.int 3])) 5 ((0, false), 2)).2
    = [Ev.pull 0 0, Ev.pull 0 1] := rfl

/-- **lazy_bound (each, enumerate).** One call on the input per call. -/
theorem lazy_bound_each (f : Fn) (c : Co) (m : Nat) (s : c.σ) :
    (pullN (eachCo f c) m s).1 = (pullN c m s).1 := each_calls f c m s

theorem lazy_bound_enumerate (c : Co) (m : Nat) (s : c.σ) (i : Nat) :
    (pullN (enumerateCo c) m (s, i)).1 = ((pullN c m s).1, i + m) := enumerate_calls c m s i

example : (pullN (eachCo .wrap (metaCo 0 [Val.int 1, Val.int 2, Val.int 3])) 2 (0 : Nat)).1 = (2 : Nat) :=
  lazy_bound_each .wrap (metaCo 0 [Val.int 1, Val.int 2, Val.int 3]) 2 (0 : Nat)

example : (pullN (enumerateCo (metaCo 0 [Val.int 1, Val.int 2, Val.int 3])) 2 ((0 : Nat), 0)).1 = ((2 : Nat), 2) :=
  lazy_bound_enumerate (metaCo 0 [Val.int 1, Val.int 2, Val.int 3]) 2 (0 : Nat) 0

/-- **lazy_bound (step).** One call on `step n` with `k` stepped-over elements pending performs
exactly `Iterator::nth(k)` on its input: the `k` pending skips (stopping at the first `None`) and then
the pull of the value it yields — with exactly those events, and *nothing after the yielded value*:
no element is pulled on behalf of an output nobody has asked for. After a value `n - 1` skips are
pending, after exhaustion none. (Code as of /repo commit 517b000; before, the `n - 1` skips were
performed right after yielding — finding F-C13-5, fixed.) -/
theorem lazy_bound_step (n : Nat) (c : Co) (s : c.σ) (k : Nat) :
    ((stepCo n c).next (s, k)).out = (nth c k s).out ∧
    ((stepCo n c).next (s, k)).st.1 = (nth c k s).st ∧
    ((stepCo n c).next (s, k)).ev = (nth c k s).ev ∧
    ((stepCo n c).next (s, k)).st.2 = (if (nth c k s).out.isSome then n - 1 else 0) :=
  step_next_eq n c (s, k)

/-- when the pending skips all succeed these are exactly `k + 1` consecutive calls on the input -/
theorem lazy_bound_step_count (n : Nat) (c : Co) (s : c.σ) (k : Nat) (h : (advance c k s).1 = true) :
    ((stepCo n c).next (s, k)).st.1 = (pullN c (k + 1) s).1 ∧
    ((stepCo n c).next (s, k)).ev = (pullN c (k + 1) s).2 := by
  have ⟨_, e2, e3, _⟩ := step_next_eq n c (s, k)
  have ⟨p1, p2⟩ := nth_eq_pullN c k s h
  exact ⟨by rw [e2, p1], by rw [e3, p2]⟩

/-- **step_first_call_pulls_one.** The first call on `step n` makes exactly one call on its input,
whatever `n` is: the elements to be stepped over are not touched until the next value is asked for. -/
theorem step_first_call_pulls_one (n : Nat) (c : Co) (s : c.σ) :
    (stepCo n c).next (s, 0) =
      ⟨(c.next s).out, ((c.next s).st, if (c.next s).out.isSome then n - 1 else 0), (c.next s).ev⟩ :=
  step_first_call n c s

/-- `step 3` over a generator: the first call asks for element 0 only, the second call for 1, 2, 3 -/
example (a b c d e : Val) :
    ((stepCo 3 (genCo 0 [a, b, c, d, e])).next ((0, false), 0)).ev = [Ev.pull 0 0] ∧
    ((stepCo 3 (genCo 0 [a, b, c, d, e])).next ((1, false), 2)).ev = [Ev.pull 0 1, Ev.pull 0 2, Ev.pull 0 3] ∧
    ((stepCo 3 (genCo 0 [a, b, c, d, e])).next ((1, false), 2)).out = some d :=
  ⟨rfl, rfl, rfl⟩

/-- laziness composes: `m` calls on `take k (each f c)` leave `c` where `min m k` calls leave it -/
theorem lazy_bound_take_each (f : Fn) (c : Co) (m k : Nat) (s : c.σ) :
    (pullN (takeCo (eachCo f c)) m (s, k)).1.1 = (pullN c (min m k) s).1 := by
  have h1 := take_calls (eachCo f c) m s k
  rw [h1]
  exact each_calls f c (min m k) s

example : (pullN (takeCo (eachCo .num (metaCo 0 [Val.int 1, Val.int 2, Val.int 3]))) 3 ((0 : Nat), 1)).1.1
    = (1 : Nat) :=
  lazy_bound_take_each .num (metaCo 0 [Val.int 1, Val.int 2, Val.int 3]) 3 1 (0 : Nat)

/-- **order between two inputs (zip).** `zip` asks `a` first and asks `b` only when `a` produced a
value; when `a` is exhausted `b` is left untouched. -/
theorem zip_pulls_a_first (a b : Co) (sa : a.σ) (sb : b.σ) :
    ((a.next sa).out = none →
      ((zipCo a b).next (sa, sb)).ev = (a.next sa).ev ∧ ((zipCo a b).next (sa, sb)).st.2 = sb) ∧
    ((a.next sa).out ≠ none →
      ((zipCo a b).next (sa, sb)).ev = (a.next sa).ev ++ (b.next sb).ev) := zip_order a b sa sb

example : ((zipCo (genCo 0 [Val.int 1]) (genCo 1 [Val.int 2])).next ((0, false), (0, false))).ev
    = [Ev.pull 0 0, Ev.pull 1 0] := rfl

/-- **order between two inputs (chain).** `chain` does not touch `b` while `a` still yields. -/
theorem chain_pulls_b_late (a b : Co) (sa : a.σ) (sb : b.σ) (h : (a.next sa).out ≠ none) :
    ((chainCo a b).next (some sa, sb)).ev = (a.next sa).ev ∧
    ((chainCo a b).next (some sa, sb)).st.2 = sb := chain_order a b sa sb h

example : ((chainCo (genCo 0 [Val.int 1]) (genCo 1 [Val.int 2])).next (some (0, false), (0, false))).ev
    = [Ev.pull 0 0] := rfl

/-- **exact pull sequence of the logging sources.** `m` consecutive calls on a generator / an `@next` object that still
has `m` elements log exactly `pull i, pull (i+1), …, pull (i+m-1)`: one element at a time, in order. -/
theorem source_pulls_gen (k : Nat) (xs : List Val) (m i : Nat) (h : i + m ≤ xs.length) :
    (pullN (genCo k xs) m (i, false)).2 = (List.range m).map (fun j => Ev.pull k (i + j)) :=
  (gen_pulls k xs m i h).1

theorem source_pulls_obj (k : Nat) (xs : List Val) (m i : Nat) (h : i + m ≤ xs.length) :
    (pullN (metaCo k xs) m i).2 = (List.range m).map (fun j => Ev.pull k (i + j)) :=
  (obj_pulls k xs m i h).1

example : (pullN (genCo 7 [Val.int 1, Val.int 2, Val.int 3]) 2 (1, false)).2 = [Ev.pull 7 1, Ev.pull 7 2] :=
  source_pulls_gen 7 _ 2 1 (by simp)

example : (pullN (metaCo 7 [Val.int 1, Val.int 2, Val.int 3]) 3 (0 : Nat)).2
    = [Ev.pull 7 0, Ev.pull 7 1, Ev.pull 7 2] :=
  source_pulls_obj 7 _ 3 0 (by simp)

/-- **exact pull sequence through `take`.** However often `take k` over a generator is called, the
generator is asked for `0, 1, …, min m k - 1`, in this order and nothing else (`k ≤` number of
elements). -/
theorem pulls_exact_through_take (k : Nat) (xs : List Val) (m n : Nat) (h : n ≤ xs.length) :
    (pullN (takeCo (genCo k xs)) m ((0, false), n)).2 =
      (List.range (min m n)).map (fun j => Ev.pull k j) := by
  have h1 := take_calls (genCo k xs) m (0, false) n
  rw [h1]
  have := (gen_pulls k xs (min m n) 0 (by omega)).1
  simpa using this

example : (pullN (takeCo (genCo 0 [Val.int 1, Val.int 2, Val.int 3])) 9 ((0, false), 2)).2
    = [Ev.pull 0 0, Ev.pull 0 1] := rfl

/-- **pulls_in_order.** For *every* pipeline (any adaptors, `chain`/`zip` included, any parameters) and
*every* sequence of `next` / `next_back` calls on it, the source events of the trace (pulls, `done`;
callback events removed) are a run of the pipeline's source — for `chain` / `zip` an interleaving of
runs of the two sides' sources (`SrcTr`). Adaptors never touch a source except through its own
`next` / `next_back`, one call at a time: each adaptor call is a sequence of calls on its input
(simulation lemmas `each_sim … peekable_sim`, `chain_sim2`, `zip_sim2`). -/
theorem pulls_in_order (fuel : Nat) (p : Pipe) (ds : List Bool) :
    SrcTr p (strip (runD (build fuel p).c ds (build fuel p).s).2) := pipe_trace fuel p ds

example : SrcTr (.zip (.take 1 (.src (.gen 0 [Val.int 1, Val.int 2]))) (.windows 2 (.src (.obj 1 [Val.int 3]))))
    (strip (runD (build 8 (.zip (.take 1 (.src (.gen 0 [Val.int 1, Val.int 2])))
      (.windows 2 (.src (.obj 1 [Val.int 3]))))).c [true, true, false]
      (build 8 (.zip (.take 1 (.src (.gen 0 [Val.int 1, Val.int 2]))) (.windows 2 (.src (.obj 1 [Val.int 3]))))).s).2) :=
  pulls_in_order 8 _ _

/-- **pulls_in_order (generator).** For every pipeline without `chain`/`zip` over a generator and every
call sequence, the generator's events are `pull 0, pull 1, pull 2, …` — one element at a time, in
order, nothing skipped or repeated —, optionally ended by `done` (`GenOrd`). -/
theorem pulls_in_order_generator (fuel : Nat) (p : Pipe) (k : Nat) (xs : List Val)
    (h : p.root = some (.gen k xs)) (ds : List Bool) :
    GenOrd k xs.length 0 (strip (runD (build fuel p).c ds (build fuel p).s).2) := by
  obtain ⟨ds', he⟩ := srcTr_root p _ _ h (pipe_trace fuel p ds)
  rw [he]
  have h1 : GenOrd k xs.length 0 (runD (genCo k xs) ds' ((0 : Nat), false)).2 :=
    gen_ordered k xs ds' (0, false)
  show GenOrd k xs.length 0 (strip (runD (genCo k xs) ds' ((0 : Nat), false)).2)
  rw [genOrd_strip h1]
  exact h1

example : GenOrd 0 3 0 (strip (runD (build 8 (.windows 2 (.keep .even (.step 2 (.src (.gen 0 [Val.int 1, Val.int 2, Val.int 3])))))).c
      [true, true] (build 8 (.windows 2 (.keep .even (.step 2 (.src (.gen 0 [Val.int 1, Val.int 2, Val.int 3])))))).s).2) :=
  pulls_in_order_generator 8 _ 0 [Val.int 1, Val.int 2, Val.int 3] rfl _

/-- **pulls_in_order (`@next` object).** The same for an object with `@next` (which logs every call):
the index it is asked for advances by exactly one per call while there are elements and stays at the
length afterwards (`ObjOrd`). -/
theorem pulls_in_order_object (fuel : Nat) (p : Pipe) (k : Nat) (xs : List Val)
    (h : p.root = some (.obj k xs)) (ds : List Bool) :
    ObjOrd k xs.length 0 (strip (runD (build fuel p).c ds (build fuel p).s).2) := by
  obtain ⟨ds', he⟩ := srcTr_root p _ _ h (pipe_trace fuel p ds)
  rw [he]
  have h1 : ObjOrd k xs.length 0 (runD (metaCo k xs) ds' (0 : Nat)).2 := obj_ordered k xs ds' 0
  show ObjOrd k xs.length 0 (strip (runD (metaCo k xs) ds' (0 : Nat)).2)
  rw [objOrd_strip h1]
  exact h1

example : ObjOrd 1 2 0 (strip (runD (build 8 (.cycle (.src (.obj 1 [Val.int 1, Val.int 2])))).c
      [true, true, true, true] (build 8 (.cycle (.src (.obj 1 [Val.int 1, Val.int 2])))).s).2) :=
  pulls_in_order_object 8 _ 1 [Val.int 1, Val.int 2] rfl _

/-! ## consumers -/

/-- `count = length` -/
theorem count_spec (xs : List Val) :
    (runLoop (xs.length + 1) (listIt xs) .count).1 = .ok (Val.int xs.length) := by
  simp only [runLoop]
  rw [foldIt_spec _ _ xs (xs.length + 1) (listIt xs) 0 (listIt_fwd xs) (Nat.lt_succ_self _), count_list]
  simp

/-- `to_list` returns the sequence -/
theorem to_list_spec (xs : List Val) :
    (runLoop (xs.length + 1) (listIt xs) .toList).1 = .ok (.list xs) := by
  simp only [runLoop, drain]
  rw [foldIt_spec _ _ xs (xs.length + 1) (listIt xs) [] (listIt_fwd xs) (Nat.lt_succ_self _), drain_list]
  simp

example : (runLoop 3 (listIt [Val.int 5, Val.int 6]) .count).1 = .ok (Val.int (2 : Nat)) :=
  count_spec [Val.int 5, Val.int 6]

/-- `min` keeps the later of two values that are not `<`-ordered (ties go to the last element),
`max` keeps the earlier one (ties go to the first) — `compare_values` as implemented; the comparison
is always `accumulated < new element`, in this operand order -/
theorem min_max_tie_break (a b : Val) (h : (ltOp a b).2 = .ok false) :
    (pickMin a b).2 = .ok b ∧ (pickMax a b).2 = .ok a := by
  cases hl : ltOp a b with
  | mk e r =>
    rw [hl] at h
    simp only at h
    subst h
    simp [pickMin, pickMax, hl]

example : (pickMin (Val.str [97]) (Val.str [97])).2 = .ok (Val.str [97]) :=
  (min_max_tie_break _ _ (by simp [ltOp, ltVal, bytesLt])).1

/-- `min` / `max` select by `<`: the strictly smaller value wins for `min`, the other for `max` -/
theorem min_max_select (a b : Val) (h : (ltOp a b).2 = .ok true) :
    (pickMin a b).2 = .ok a ∧ (pickMax a b).2 = .ok b := by
  cases hl : ltOp a b with
  | mk e r =>
    rw [hl] at h
    simp only at h
    subst h
    simp [pickMin, pickMax, hl]

example : (pickMin (Val.str [97]) (Val.str [98])).2 = .ok (Val.str [97]) :=
  (min_max_select _ _ (by simp [ltOp, ltVal, bytesLt])).1

/-- **sum_is_left_fold.** `sum` with any initial value is the left fold
`((init + x₀) + x₁) + …` — the accumulator is always the *left* operand, which is what makes the
result of non-commutative `+` (string / list / tuple concatenation, objects with `@+`) well defined;
the fold stops at the first operand pair `+` is not defined for. `product` is the same with `*`. -/
theorem sum_is_left_fold (init : Val) (xs : List Val) :
    (runLoop (xs.length + 1) (listIt xs) (.sumInit init)).1 = sumFrom init xs := by
  simp only [runLoop]
  rw [foldIt_spec _ _ xs (xs.length + 1) (listIt xs) init (listIt_fwd xs) (Nat.lt_succ_self _)]
  induction xs generalizing init with
  | nil => rfl
  | cons x xs ih =>
    simp only [foldSpec, sumFrom]
    cases h : addOp init x with
    | mk e r =>
      cases r with
      | ok a => simp only; exact ih a
      | error err => rfl

/-- strings are concatenated in source order, after the initial value -/
example : (runLoop 4 (listIt [Val.str [97], Val.str [98], Val.str [99]]) (.sumInit (Val.str [62]))).1
    = .ok (Val.str [62, 97, 98, 99]) :=
  sum_is_left_fold (Val.str [62]) [Val.str [97], Val.str [98], Val.str [99]]

/-- an order-logging accumulator object sees `(acc, x)`, never `(x, acc)` -/
example : (runLoop 3 (listIt [Val.int 1, Val.int 2]) (.sumInit (boxOf (Val.int 0)))).2.2
    = [Ev.call tagAdd [Val.int 0, Val.int 1], Ev.call tagAdd [.tuple [Val.int 0, Val.int 1], Val.int 2]] := rfl

/-- with the default initial value `sum` is the same fold from `0` -/
theorem sum_default (xs : List Val) :
    (runLoop (xs.length + 1) (listIt xs) .sum).1 = sumFrom (Val.int 0) xs := by
  have := sum_is_left_fold (Val.int 0) xs
  simpa [runLoop] using this

example : (runLoop 3 (listIt [Val.int 5, Val.int 6]) .toList).1 = .ok (.list [Val.int 5, Val.int 6]) :=
  to_list_spec [Val.int 5, Val.int 6]

/-! ## copies -/

/-- **copy_independent.** States are values, so a copy made after `k` steps and the original are the
same state run twice: whichever is drained first, both yield exactly the remaining sequence
`xs.drop k` — draining one does not advance the other. This holds for every iterator state,
pipelines containing `peekable` included (`Peekable::copy` copies the wrapped iterator since /repo
commit 7e68542, finding F-C13-2 fixed). The tie of `make_copy` to this value semantics is the
correspondence check; aliasing through a shared `KIterator` handle and the position an `@next` object
keeps in its own map (finding F-C13-3) are outside this statement. -/
theorem copy_independent (fuel : Nat) (it : It) (xs : List Val) (k : Nat) (first : Bool)
    (h : Fwd it.c it.s xs) (hlen : xs.length < fuel) :
    (runCons fuel it (.copyAt k first)).1 = .ok (.tuple [.list (xs.drop k), .list (xs.drop k)]) := by
  have adv : ∀ (k : Nat) (it : It) (xs : List Val), Fwd it.c it.s xs →
      Fwd (runCalls (List.replicate k true) it).2.1.c (runCalls (List.replicate k true) it).2.1.s (xs.drop k) := by
    intro k
    induction k with
    | zero => intro it xs h; simpa [runCalls] using h
    | succ k ih =>
      intro it xs h
      have := ih ⟨it.c, (it.c.next it.s).st⟩ xs.tail (fwd_tail h)
      rw [drop_tail_eq] at this
      simpa [runCalls, List.replicate_succ, It.next] using this
  have hk := adv k it xs h
  have hd : (drain fuel (runCalls (List.replicate k true) it).2.1).1 = .ok (.list (xs.drop k)) := by
    simp only [drain]
    rw [foldIt_spec _ _ (xs.drop k) fuel _ [] hk (by simp; omega), drain_list]
    simp
  simp only [runCons]
  generalize hr : runCalls (List.replicate k true) it = r at hd
  obtain ⟨vs, it', e⟩ := r
  simp only at hd
  generalize hdr : drain fuel it' = d at hd
  obtain ⟨a, it'', e'⟩ := d
  simp only at hd
  subst hd
  cases first <;> simp

/-- a copied peekable pipeline -/
example : (runCons 8 (build 8 (.peekable (.src (.seq [Val.int 1, Val.int 2, Val.int 3])))) (.copyAt 1 false)).1
    = .ok (.tuple [.list [Val.int 2, Val.int 3], .list [Val.int 2, Val.int 3]]) :=
  copy_independent 8 _ [Val.int 1, Val.int 2, Val.int 3] 1 false
    ((pipe_sem 8 (.peekable (.src (.seq [Val.int 1, Val.int 2, Val.int 3])))
      [Val.int 1, Val.int 2, Val.int 3] rfl rfl rfl trivial).1) (by simp)

example : (runCons 8 (build 8 (.each .ident (.src (.gen 0 [Val.int 1, Val.int 2, Val.int 3])))) (.copyAt 1 true)).1
    = .ok (.tuple [.list [Val.int 2, Val.int 3], .list [Val.int 2, Val.int 3]]) :=
  copy_independent 8 _ [Val.int 1, Val.int 2, Val.int 3] 1 true
    ((pipe_sem 8 (.each .ident (.src (.gen 0 [Val.int 1, Val.int 2, Val.int 3])))
      [Val.int 1, Val.int 2, Val.int 3] rfl rfl rfl trivial).1) (by simp)

/-- **copy_interleaving_independent.** After `c = koto.copy it`, however the calls on the copy and on
the original are interleaved (from either end), each of the two answers exactly as if it were called
alone: the copy's outputs are those of its own call sequence on the copied state, the original's
those of its own — no call on one is visible to the other. (Value semantics of the model; the
correspondence harness checks `make_copy` of every adaptor against it with copies taken at every
position up to past the end of the source.) -/
theorem copy_interleaving_independent (post : List (Bool × Bool)) :
    ∀ (a b : It),
    (runCopyOps post a b).1 = (runCalls ((post.filter (·.1)).map (·.2)) a).1 ∧
    (runCopyOps post a b).2.1 = (runCalls ((post.filter (fun p => !p.1)).map (·.2)) b).1 := by
  induction post with
  | nil => intro a b; exact ⟨rfl, rfl⟩
  | cons x post ih =>
    intro a b
    obtain ⟨w, d⟩ := x
    cases w with
    | true =>
      cases d with
      | true =>
        have ⟨i1, i2⟩ := ih ⟨a.c, (a.c.next a.s).st⟩ b
        simp only [runCopyOps, runCalls, It.next, List.filter_cons, List.map_cons, if_true] at i1 i2 ⊢
        simp only [Bool.not_true, Bool.false_eq_true, if_false]
        exact ⟨by rw [i1], i2⟩
      | false =>
        have ⟨i1, i2⟩ := ih ⟨a.c, (a.c.back a.s).st⟩ b
        simp only [runCopyOps, runCalls, It.back, List.filter_cons, List.map_cons, if_true] at i1 i2 ⊢
        simp only [Bool.not_true, Bool.false_eq_true, if_false]
        exact ⟨by rw [i1], i2⟩
    | false =>
      cases d with
      | true =>
        have ⟨i1, i2⟩ := ih a ⟨b.c, (b.c.next b.s).st⟩
        simp only [runCopyOps, runCalls, It.next, List.filter_cons, List.map_cons, Bool.false_eq_true,
          if_false, Bool.not_false, if_true] at i1 i2 ⊢
        exact ⟨i1, by rw [i2]⟩
      | false =>
        have ⟨i1, i2⟩ := ih a ⟨b.c, (b.c.back b.s).st⟩
        simp only [runCopyOps, runCalls, It.back, List.filter_cons, List.map_cons, Bool.false_eq_true,
          if_false, Bool.not_false, if_true] at i1 i2 ⊢
        exact ⟨i1, by rw [i2]⟩

example : (runCopyOps [(true, true), (false, true), (true, true)]
      (build 8 (.cycle (.src (.seq [Val.int 1, Val.int 2]))))
      (build 8 (.cycle (.src (.seq [Val.int 1, Val.int 2]))))).1 = [Val.int 1, Val.int 2] := rfl

end KotoVerif.C13
