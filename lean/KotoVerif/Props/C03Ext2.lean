/-
C03 second extension — clauses of the property text about unpacking that were not yet stated:
"ignoring `_` targets" (a target list of only `_` changes no register at all, for multi-assignment
and for `for`), "bind element-wise from the iterable" as a no-invented-values statement (every
named target ends up holding an element of the iterable or Null), independence of the bound value
from the previous register contents, and the all-right-hand-sides-first semantics of
`a, b = b, a` (`Unpack.multiAssignTemp`).
-/
import KotoVerif.Model.Match
import KotoVerif.Model.Unpack
import KotoVerif.Props.C03
import KotoVerif.Props.C03Ext

namespace KotoVerif.C03Ext2
open KotoVerif KotoVerif.Match KotoVerif.Unpack

/-- a target list without a named target (`_, _, _ = xs`) leaves the whole register file as it was,
whatever the iterable yields -/
theorem assign_only_wild (ts : List Tgt) (vs : List Val) (ρ : Env) (h : tgtNames ts = []) :
    assign ts vs ρ = ρ := by
  funext y
  exact C03Ext.assign_frame ts vs ρ y (by simp [h])

example : tgtNames [Tgt.wild, Tgt.wild] = [] := by decide

/-- the same for the whole statement `_, _ = rhs`: it succeeds iff `rhs` is iterable, keeps every
register and yields `rhs` -/
theorem multiAssign_only_wild (ts : List Tgt) (rhs : Val) (ρ : Env) (xs : List Val)
    (h : tgtNames ts = []) (he : elems rhs = some xs) :
    multiAssign ts rhs ρ = some (ρ, rhs) := by
  simp [multiAssign, he, assign_only_wild ts xs ρ h]

example : elems (.tuple [.null, .null]) = some [.null, .null] := by rfl

/-- `for _, _ in it`: every body entry and the state after the loop have the registers of before -/
theorem forUnpack_only_wild (ts : List Tgt) (h : tgtNames ts = []) (it : Val) (ρ ρ' : Env)
    (steps : List Env) (hf : forUnpack ts it ρ = some (steps, ρ')) :
    ρ' = ρ ∧ ∀ σ ∈ steps, σ = ρ := by
  refine ⟨?_, ?_⟩
  · funext y
    exact (C03Ext.forUnpack_frame ts y (by simp [h]) it ρ ρ' steps hf).1
  · intro σ hσ
    funext y
    exact (C03Ext.forUnpack_frame ts y (by simp [h]) it ρ ρ' steps hf).2 σ hσ

/-- no invented values: after unpacking, a named target holds an element of the iterable or Null -/
theorem assign_value_from_source : ∀ (ts : List Tgt) (vs : List Val) (ρ : Env) (y : Name),
    y ∈ tgtNames ts → assign ts vs ρ y ∈ vs ∨ assign ts vs ρ y = .null
  | [], _, _, _, h => by simp [tgtNames] at h
  | .id x :: ts, [], ρ, y, h => by
    by_cases hy : y ∈ tgtNames ts
    · rw [assign]; exact assign_value_from_source ts [] _ y hy
    · have hx : y = x := by simpa [tgtNames, hy] using h
      rw [assign, C03Ext.assign_frame ts [] _ y hy]; simp [Env.set, hx]
  | .id x :: ts, v :: vs, ρ, y, h => by
    by_cases hy : y ∈ tgtNames ts
    · rw [assign]
      rcases assign_value_from_source ts vs (ρ.set x v) y hy with h1 | h1
      · exact Or.inl (List.mem_cons_of_mem _ h1)
      · exact Or.inr h1
    · have hx : y = x := by simpa [tgtNames, hy] using h
      rw [assign, C03Ext.assign_frame ts vs _ y hy]; simp [Env.set, hx]
  | .wild :: ts, [], ρ, y, h => by
    rw [assign]; exact assign_value_from_source ts [] ρ y (by simpa [tgtNames] using h)
  | .wild :: ts, v :: vs, ρ, y, h => by
    rw [assign]
    rcases assign_value_from_source ts vs ρ y (by simpa [tgtNames] using h) with h1 | h1
    · exact Or.inl (List.mem_cons_of_mem _ h1)
    · exact Or.inr h1

example : (3 : Name) ∈ tgtNames [Tgt.wild, Tgt.id 3] := by decide

/-- what a named target receives does not depend on the registers before the assignment -/
theorem assign_target_indep (ts : List Tgt) (vs : List Val) (ρ₁ ρ₂ : Env) (y : Name)
    (h : y ∈ tgtNames ts) : assign ts vs ρ₁ y = assign ts vs ρ₂ y := by
  induction ts generalizing vs ρ₁ ρ₂ with
  | nil => simp [tgtNames] at h
  | cons t ts ih =>
    cases t with
    | wild =>
      have h' : y ∈ tgtNames ts := by simpa [tgtNames] using h
      cases vs with
      | nil => rw [assign, assign]; exact ih [] ρ₁ ρ₂ h'
      | cons v vs => rw [assign, assign]; exact ih vs ρ₁ ρ₂ h'
    | id x =>
      by_cases hy : y ∈ tgtNames ts
      · cases vs with
        | nil => rw [assign, assign]; exact ih [] _ _ hy
        | cons v vs => rw [assign, assign]; exact ih vs _ _ hy
      · have hx : y = x := by simpa [tgtNames, hy] using h
        cases vs with
        | nil =>
          rw [assign, assign, C03Ext.assign_frame ts [] _ y hy, C03Ext.assign_frame ts [] _ y hy]
          simp [Env.set, hx]
        | cons v vs =>
          rw [assign, assign, C03Ext.assign_frame ts vs _ y hy, C03Ext.assign_frame ts vs _ y hy]
          simp [Env.set, hx]

/-- registers in, registers out: two register files that agree on `y` still agree on `y` after the
same unpacking (with `assign_target_indep`: the result at `y` depends on `ρ y` at most) -/
theorem assign_pointwise (ts : List Tgt) (vs : List Val) (ρ₁ ρ₂ : Env) (y : Name)
    (h : ρ₁ y = ρ₂ y) : assign ts vs ρ₁ y = assign ts vs ρ₂ y := by
  by_cases hy : y ∈ tgtNames ts
  · exact assign_target_indep ts vs ρ₁ ρ₂ y hy
  · rw [C03Ext.assign_frame ts vs ρ₁ y hy, C03Ext.assign_frame ts vs ρ₂ y hy, h]

/-- `a, b = b, a` swaps: all right-hand sides are evaluated before the first target is written,
every other register is kept and the value of the statement is the tuple -/
theorem swap_via_temp_tuple (a b : Name) (hab : a ≠ b) (ρ : Env) :
    let r := multiAssignTemp [.id a, .id b] [ρ b, ρ a] ρ
    r.1 a = ρ b ∧ r.1 b = ρ a ∧ (∀ y, y ≠ a → y ≠ b → r.1 y = ρ y) ∧ r.2 = .tuple [ρ b, ρ a] := by
  have hba : b ≠ a := fun h => hab h.symm
  refine ⟨?_, ?_, ?_, rfl⟩
  · simp [multiAssignTemp, assignIdx, Env.set, hab]
  · simp [multiAssignTemp, assignIdx, Env.set]
  · intro y h1 h2
    simp [multiAssignTemp, assignIdx, Env.set, h1, h2]

example : (0 : Name) ≠ 1 := by decide

end KotoVerif.C03Ext2
