/-
C01 — the two C01 layers connected: the compiler model's reference evaluator `Compile.eval`,
instantiated with the guide's value operations (`coreSem F`), *is* the reference semantics
`Core.eval` on the compiler model's fragment (`toCore`), and therefore compiled code computes what
the formalised language guide prescribes (`compile_correct_guide`).

Definitions and the lockstep induction are in `Lemmas/C01Bridge.lean`:

* `coreSem F : Compile.Sem`     — `V := Val`, literals / `truthy` / `negV` / `not` / `arithV` / `cmpV`
                                  / `opAssignV` exactly as `Core.eval` applies them (`none` = `Res.err _`);
* `toCore : Compile.Expr → Core.Expr`, `wfE` (arithmetic operators in `bin`/`compound`, comparison
  operators in `cmp`/`chain3`), `EnvRel ρ env := ∀ x, ρ x = Core.lookup x env`;

`Sem.compoundop` (separate from `Sem.binop` since the repair of the compiler model) is instantiated
with `opAssignV`, so `x op= e` on a string fails in both evaluators (`example` below;
`compound_regression_witness` records what happened when `binop` was used for both).
-/
import KotoVerif.Lemmas.C01Bridge
import KotoVerif.Props.C01Compile

namespace KotoVerif.C01
open KotoVerif KotoVerif.Compile

/-- **bridge, compiler model ⇒ guide** (`bridge_ok`): a
successful run of `Compile.eval (coreSem F)` is a successful run of the reference semantics on the
embedded expression — same value, related final environments, nothing printed. -/
theorem bridge_ok (F : FloatOps) (e : Expr) (ρ ρ' : Env (coreSem F)) (st : Core.St) (v : Val)
    (hw : wfE e = true) (hr : EnvRel ρ st.env)
    (hev : eval (coreSem F) e ρ = some (v, ρ')) :
    ∃ fuel st', Core.eval F fuel (toCore e) st = (.ok v, st') ∧ EnvRel ρ' st'.env ∧ st'.out = st.out := by
  obtain ⟨st', h1, h2, h3⟩ := bridge_fwd F e ρ ρ' st v hw hr hev
  exact ⟨need e, st', h1 _ (Nat.le_refl _), h2, h3⟩

/-- the same with the fuel made explicit: every fuel `≥ need e` works, and gives the same state -/
theorem bridge_ok_fuel (F : FloatOps) (e : Expr) (ρ ρ' : Env (coreSem F)) (st : Core.St) (v : Val)
    (hw : wfE e = true) (hr : EnvRel ρ st.env)
    (hev : eval (coreSem F) e ρ = some (v, ρ')) :
    ∃ st', (∀ fuel, need e ≤ fuel → Core.eval F fuel (toCore e) st = (.ok v, st'))
      ∧ EnvRel ρ' st'.env ∧ st'.out = st.out :=
  bridge_fwd F e ρ ρ' st v hw hr hev

/-- **bridge, guide ⇒ compiler model** (`bridge_ok_conv`): a successful guide
run, with whatever fuel, is a successful run of `Compile.eval (coreSem F)` with the same value and a
related final environment. -/
theorem bridge_ok_conv (F : FloatOps) (e : Expr) (ρ : Env (coreSem F)) (st st' : Core.St) (v : Val)
    (fuel : Nat) (hw : wfE e = true) (hr : EnvRel ρ st.env)
    (hev : Core.eval F fuel (toCore e) st = (.ok v, st')) :
    ∃ ρ', eval (coreSem F) e ρ = some (v, ρ') ∧ EnvRel ρ' st'.env := by
  obtain ⟨ρ', h1, h2, _⟩ := bridge_conv F e ρ st st' v fuel hw hr hev
  exact ⟨ρ', h1, h2⟩

/-- errors correspond as well: with enough fuel the guide run ends in an error exactly when
`Compile.eval (coreSem F)` yields `none` -/
theorem bridge_err (F : FloatOps) (e : Expr) (ρ : Env (coreSem F)) (st : Core.St) (fuel : Nat)
    (hw : wfE e = true) (hr : EnvRel ρ st.env) (hn : need e ≤ fuel) :
    eval (coreSem F) e ρ = none ↔ ∃ er st', Core.eval F fuel (toCore e) st = (.err er, st') :=
  bridge_err_iff F e ρ st fuel hw hr hn

/-- whole programs (empty environment), both directions in one statement -/
theorem bridge_ok_closed (F : FloatOps) (e : Expr) (hw : wfE e = true) (v : Val) :
    (∀ ρ', eval (coreSem F) e (fun _ => none) = some (v, ρ') →
        ∃ fuel st', Core.eval F fuel (toCore e) {} = (.ok v, st') ∧ EnvRel ρ' st'.env ∧ st'.out = [])
    ∧ (∀ fuel st', Core.eval F fuel (toCore e) {} = (.ok v, st') →
        ∃ ρ', eval (coreSem F) e (fun _ => none) = some (v, ρ') ∧ EnvRel ρ' st'.env) :=
  ⟨fun ρ' h => bridge_ok F e _ ρ' {} v hw EnvRel.empty h,
   fun fuel st' h => bridge_ok_conv F e _ {} st' v fuel hw EnvRel.empty h⟩

/-- **compile_correct against the language guide.** Let `e` be a well-formed, `safe` main-block
expression whose evaluation by the reference semantics of the guide succeeds with value `v` and
final state `st'`. If the compiler model compiles it (`Any` result, a main frame with `lc` locals),
then running the emitted *flat instruction stream* — under the guide's value operations — from
any register file terminates without fault, the returned register holds `v`, and every variable
bound in `st'.env` sits in its committed register with its final value. -/
theorem compile_correct_guide (F : FloatOps) (e : Expr) (lc : Nat) (code : Code) (out : Out) (Fr' : Frame)
    (hw : wfE e = true) (hs : safe [] none e = true)
    (hc : compile e .any (mainFrame lc) = some (code, out, Fr'))
    (fuel : Nat) (v : Val) (st' : Core.St)
    (hev : Core.eval F fuel (toCore e) {} = (.ok v, st'))
    (σ : Regs (coreSem F)) :
    ∃ σ' r, execFlat (coreSem F) (flatten code) σ = some σ' ∧ out.reg = some r ∧ σ' r = v ∧
      (∀ x w, Core.lookup x st'.env = some w → ∃ q, Has Fr' q x ∧ σ' q = w) := by
  obtain ⟨ρ', h1, h2⟩ :=
    bridge_ok_conv F e (fun _ => none) {} st' v fuel hw EnvRel.empty hev
  obtain ⟨σ', r, h3, h4, h5, h6⟩ := compile_correct_main (S := coreSem F) e lc code out Fr' hc hs σ ρ' v h1
  refine ⟨σ', r, h3, h4, h5, ?_⟩
  intro x w hx
  exact h6 x w (by rw [h2 x]; exact hx)

/-- the same, read from the compiler model's side: whenever `Compile.eval (coreSem F)` gives `v`,
the guide gives `v` too and the compiled code returns it -/
theorem compile_correct_guide_fwd (F : FloatOps) (e : Expr) (lc : Nat) (code : Code) (out : Out) (Fr' : Frame)
    (hw : wfE e = true) (hs : safe [] none e = true)
    (hc : compile e .any (mainFrame lc) = some (code, out, Fr'))
    (v : Val) (ρ' : Env (coreSem F)) (hev : eval (coreSem F) e (fun _ => none) = some (v, ρ'))
    (σ : Regs (coreSem F)) :
    ∃ fuel st' σ' r, Core.eval F fuel (toCore e) {} = (.ok v, st') ∧
      execFlat (coreSem F) (flatten code) σ = some σ' ∧ out.reg = some r ∧ σ' r = v := by
  obtain ⟨fuel, st', h1, _, _⟩ :=
    bridge_ok F e (fun _ => none) ρ' {} v hw EnvRel.empty hev
  obtain ⟨σ', r, h3, h4, h5, _⟩ := compile_correct_main (S := coreSem F) e lc code out Fr' hc hs σ ρ' v hev
  exact ⟨fuel, st', σ', r, h1, h3, h4, h5⟩

/-! ## non-vacuity -/

/-- compile, run the structured code from an all-`null` register file, and evaluate with the guide:
`(value in the returned register, value of the guide)` -/
def runBoth (e : Expr) (lc fuel : Nat) : Option (Val × Val) :=
  match compile e .any (mainFrame lc), Core.eval stubFloatOps fuel (toCore e) {} with
  | some (code, out, _), (.ok v, _) =>
    match exec (coreSem stubFloatOps) code (fun _ => Val.null), out.reg with
    | some σ', some r => some (σ' r, v)
    | _, _ => none
  | _, _ => none

/-- `progOk` = `x = 3; y = if x < 4 then x + 1 else 0; x = x + y; y and (x = x * 2)`: well-formed,
safe, compiles; compiled code and guide both give 14 -/
example : wfE progOk = true ∧ safe [] none progOk = true ∧
    runBoth progOk 2 40 matches some (.num (.i 14), .num (.i 14)) := by
  decide

/-- `x = 7; x %= 4; x <= 3 < 5` (compound assignment and a comparison chain): both give `true` -/
def progChain : Expr :=
  .seq (.assign 0 (.int 7)) (.seq (.compound .rem 0 (.int 4)) (.chain3 .le .lt (.var 0) (.int 3) (.int 5)))

example : wfE progChain = true ∧ safe [] none progChain = true ∧
    runBoth progChain 1 40 matches some (.bool true, .bool true) := by
  decide

/-- the formerly disagreeing point now agrees: `x += x` with `x = 'a'` fails in *both* evaluators,
for every `F` (`Compile.eval (coreSem F)` yields `none`, the guide a type error) -/
example (F : FloatOps) :
    eval (coreSem F) progCompound (fun x => if x = 0 then some (Val.str [97]) else none) = none
    ∧ Core.eval F 5 (toCore progCompound) { env := [(0, Val.str [97])] }
        = (.err .type, { env := [(0, Val.str [97])] }) :=
  ⟨rfl, rfl⟩

/-- … as `bridge_err` predicts (its hypotheses are satisfiable on that point) -/
example (F : FloatOps) : ∃ er st', Core.eval F 5 (toCore progCompound) { env := [(0, Val.str [97])] } = (.err er, st') :=
  (bridge_err F progCompound (fun x => if x = 0 then some (Val.str [97]) else none)
    { env := [(0, Val.str [97])] } 5 (by decide) (by intro x; simp only [Core.lookup]) (by decide)).1 rfl

/-- the hypotheses of `compile_correct_guide` are jointly satisfiable (instantiated on `progOk`) -/
example (σ : Regs (coreSem stubFloatOps)) :
    ∃ code out σ' r, (compile progOk .any (mainFrame 2)).map (fun p => (p.1, p.2.1)) = some (code, out) ∧
      execFlat (coreSem stubFloatOps) (flatten code) σ = some σ' ∧ out.reg = some r ∧
      σ' r = Val.int 14 := by
  cases hc : compile progOk .any (mainFrame 2) with
  | none => exact absurd hc (by decide)
  | some p =>
    obtain ⟨code, out, Fr'⟩ := p
    cases hg : Core.eval stubFloatOps 40 (toCore progOk) {} with
    | mk res st' =>
      have hres : res = .ok (Val.int 14) := by
        have : (Core.eval stubFloatOps 40 (toCore progOk) {}).1 = .ok (Val.int 14) := by rfl
        rw [hg] at this; exact this
      subst hres
      obtain ⟨σ', r, h1, h2, h3, _⟩ :=
        compile_correct_guide stubFloatOps progOk 2 code out Fr' (by decide) (by decide) hc 40 _ st' hg σ
      exact ⟨code, out, σ', r, rfl, h1, h2, h3⟩

end KotoVerif.C01
