/-
C06 — Host safety: property theorems about the panic kernels of `Model/Guards.lean`.

For every kernel `k`:
* `k_total` — for ALL inputs in the machine ranges that satisfy the caller's guard, `k … ≠ .panic`
  (the guard really protects the primitive), and where useful the result stays in bounds;
* where that is false for the code as it is, `k_panic_witness` — a concrete input with
  `k … = .panic` (by `decide`), replayed on the implementation by `harness/src/bin/c06.rs` — and a
  `k_partial` theorem stating exactly which inputs are excluded.

The kernels are tied to /repo by the correspondence run (outcome class and value on a boundary pool).
Everything outside the kernels is exploration, not proof (see props/C06.json).
-/
import KotoVerif.Model.Guards

namespace KotoVerif.C06
open KotoVerif.Guards

macro "arith" : tactic =>
  `(tactic| ((try simp only [inI64, inI32, inUsize, inU32, inU8, inI8, inLen, I64_MIN, I64_MAX, I32_MIN, I32_MAX,
      USIZE_MAX, U32_MAX, U8_MAX, I8_MIN, I8_MAX] at *) <;> omega))

theorem ckI64_ok {x : Int} (h : inI64 x) : ckI64 x = .ok x := by
  unfold ckI64; unfold inI64 at h; simp [h.1, h.2]
theorem ckI32_ok {x : Int} (h : inI32 x) : ckI32 x = .ok x := by
  unfold ckI32; unfold inI32 at h; simp [h.1, h.2]
theorem ckUsize_ok {x : Int} (h : inUsize x) : ckUsize x = .ok x := by
  unfold ckUsize; unfold inUsize at h; simp [h.1, h.2]
theorem ckU32_ok {x : Int} (h : inU32 x) : ckU32 x = .ok x := by
  unfold ckU32; unfold inU32 at h; simp [h.1, h.2]
theorem ckU8_ok {x : Int} (h : inU8 x) : ckU8 x = .ok x := by
  unfold ckU8; unfold inU8 at h; simp [h.1, h.2]

@[simp] theorem bind_ok {α β : Type} (a : α) (f : α → Res β) : (Res.ok a).bind f = f a := rfl
@[simp] theorem bind_panic {α β : Type} (f : α → Res β) : (Res.panic : Res α).bind f = .panic := rfl
@[simp] theorem bind_err {α β : Type} (f : α → Res β) : (Res.err : Res α).bind f = .err := rfl

/-! ## KRange::as_bounded_range -/

/-- the triple of a well-formed range consists of `i64` values -/
theorem triple_wf (r : KRange) (h : KRange.wf r) : inI64 r.triple.1 ∧ inI64 r.triple.2.1 := by
  obtain ⟨st, sp⟩ := r
  have hs := h.1
  have he := h.2
  unfold KRange.triple
  match st, sp with
  | none, none => simp; constructor <;> arith
  | some s, none => simp; exact ⟨hs s rfl, by arith⟩
  | none, some (e, i) => simp; exact ⟨by arith, he e i rfl⟩
  | some s, some (e, i) => simp; exact ⟨hs s rfl, he e i rfl⟩

/-- **exact characterisation**: `as_bounded_range` panics iff the range is inclusive and ends at
`i64::MAX` (finding F-C06-5: there is no guard in the code) -/
theorem asBoundedRange_panic_iff (r : KRange) (h : KRange.wf r) :
    asBoundedRange r = .panic ↔ r.endsAtMax := by
  obtain ⟨st, sp⟩ := r
  have he := h.2
  unfold KRange.endsAtMax asBoundedRange KRange.triple
  match st, sp with
  | none, none => simp
  | some s, none => simp
  | none, some (e, false) => simp
  | some s, some (e, false) => simp
  | none, some (e, true) =>
    have hb := he e true rfl
    simp only [ite_true]
    unfold ckI64
    split
    · simp; intro h; arith
    · simp; arith
  | some s, some (e, true) =>
    have hb := he e true rfl
    simp only [ite_true]
    unfold ckI64
    split
    · simp; intro h; arith
    · simp; arith

theorem asBoundedRange_total (r : KRange) (h : KRange.wf r) (hg : ¬ r.endsAtMax) :
    asBoundedRange r ≠ .panic := fun hp => hg ((asBoundedRange_panic_iff r h).1 hp)

/-- `size (0..=9223372036854775807)` -/
theorem asBoundedRange_panic_witness :
    asBoundedRange ⟨some 0, some (9223372036854775807, true)⟩ = .panic := by decide

example : KRange.wf ⟨some 0, some (10, true)⟩ ∧ ¬ KRange.endsAtMax ⟨some 0, some (10, true)⟩ := by
  refine ⟨⟨?_, ?_⟩, by decide⟩
  · intro s hs; cases hs; arith
  · intro e i he; cases he; arith
