/-
C06 — Host safety: property theorems about the panic kernels of `Model/Guards.lean`.

For every kernel `k`:
* `k_total` — for ALL inputs in the machine ranges that satisfy the caller's guard, `k … ≠ .panic`
  (the guard really protects the primitive), and where useful the result stays in bounds;
* where that is false for the code as it is, `k_panic_witness` — a concrete input with
  `k … = .panic` (by `decide`), replayed on the implementation by `harness/src/bin/c06.rs` — and a
  `k_partial` theorem stating exactly which inputs are excluded.

The kernels are tied to /repo by the correspondence run (outcome class and value on a boundary pool).
Everything outside the kernels is exploration, not proof (see props/C06.json).
-/
import KotoVerif.Lemmas.C06

namespace KotoVerif.C06
open KotoVerif.Guards

/-! ## KRange::as_bounded_range -/

/-- **exact characterisation**: `as_bounded_range` panics iff the range is inclusive and ends at
`i64::MAX` (finding F-C06-5: there is no guard in the code) -/
theorem asBoundedRange_panic_iff (r : KRange) (h : KRange.wf r) :
    asBoundedRange r = .panic ↔ r.endsAtMax := by
  obtain ⟨st, sp⟩ := r
  have he := h.2
  unfold KRange.endsAtMax asBoundedRange KRange.triple
  match st, sp with
  | none, none => simp
  | some s, none => simp
  | none, some (e, false) => simp
  | some s, some (e, false) => simp
  | none, some (e, true) =>
    have hb := he e true rfl
    simp only [ite_true]
    unfold ckI64
    split
    · simp; intro h; arith
    · simp; arith
  | some s, some (e, true) =>
    have hb := he e true rfl
    simp only [ite_true]
    unfold ckI64
    split
    · simp; intro h; arith
    · simp; arith

theorem asBoundedRange_total (r : KRange) (h : KRange.wf r) (hg : ¬ r.endsAtMax) :
    asBoundedRange r ≠ .panic := fun hp => hg ((asBoundedRange_panic_iff r h).1 hp)

/-- `size (0..=9223372036854775807)` -/
theorem asBoundedRange_panic_witness :
    asBoundedRange ⟨some 0, some (9223372036854775807, true)⟩ = .panic := by decide

example : KRange.wf ⟨some 0, some (10, true)⟩ ∧ ¬ KRange.endsAtMax ⟨some 0, some (10, true)⟩ := by
  refine ⟨⟨?_, ?_⟩, by decide⟩
  · intro s hs; cases hs; arith
  · intro e i he; cases he; arith

/-- result of `as_bounded_range` when it does not panic: bounds are `i64` values, ordered -/
theorem asBoundedRange_ok (r : KRange) (h : KRange.wf r) (hg : ¬ r.endsAtMax) :
    ∃ s e, asBoundedRange r = .ok (s, e) ∧ inI64 s ∧ inI64 e ∧ s ≤ e := by
  obtain ⟨st, sp⟩ := r
  have hs := h.1
  have he := h.2
  unfold KRange.endsAtMax at hg
  unfold asBoundedRange KRange.triple
  match st, sp with
  | none, none => exact ⟨I64_MIN, I64_MAX, by simp; arith, by arith, by arith, by arith⟩
  | some s, none =>
    have := hs s rfl
    exact ⟨s, max I64_MAX s, by simp, this, by arith, by arith⟩
  | none, some (e, false) =>
    have := he e false rfl
    exact ⟨I64_MIN, max e I64_MIN, by simp, by arith, by arith, by arith⟩
  | some s, some (e, false) =>
    have := he e false rfl
    have := hs s rfl
    exact ⟨s, max e s, by simp, this, by arith, by arith⟩
  | none, some (e, true) =>
    have hb := he e true rfl
    have hne : e ≠ I64_MAX := fun h => hg (by simp [h])
    refine ⟨I64_MIN, max (e + 1) I64_MIN, ?_, by arith, by arith, by arith⟩
    simp only [ite_true]
    rw [ckI64_ok (by arith)]; rfl
  | some s, some (e, true) =>
    have hb := he e true rfl
    have := hs s rfl
    have hne : e ≠ I64_MAX := fun h => hg (by simp [h])
    refine ⟨s, max (e + 1) s, ?_, this, by arith, by arith⟩
    simp only [ite_true]
    rw [ckI64_ok (by arith)]; rfl

/-! ## KRange::size -/

/-- `size (i64::MIN..i64::MAX)` (finding F-C06-7) -/
theorem rangeSize_panic_witness :
    rangeSize ⟨some (-9223372036854775808), some (9223372036854775807, false)⟩ = .panic := by decide

/-- `size` is safe when `as_bounded_range` is and the distance fits an `i64` -/
theorem rangeSize_partial (r : KRange) (h : KRange.wf r) (hg : ¬ r.endsAtMax)
    (hd : ∀ s e, asBoundedRange r = .ok (s, e) → e - s ≤ I64_MAX) : rangeSize r ≠ .panic := by
  obtain ⟨s, e, hok, hs, he, hle⟩ := asBoundedRange_ok r h hg
  unfold rangeSize
  split
  · rw [hok]; simp only [bind_ok]
    have := hd s e hok
    rw [ckI64_ok (by arith)]; simp
  · simp

example : rangeSize ⟨some 2, some (5, true)⟩ = .ok (some 4) := by decide

/-! ## KRange::contains, indices, intersection -/

theorem rangeContains_total (r : KRange) (h : KRange.wf r) (hg : ¬ r.endsAtMax) (n : Int) :
    rangeContains r n ≠ .panic := by
  obtain ⟨s, e, hok, _⟩ := asBoundedRange_ok r h hg
  unfold rangeContains; rw [hok]; simp

/-- `indices(max_index)` never panics (the two `clamp` calls have `min <= max`) and yields a valid
slice range `a ≤ b ≤ max_index`, for every container length -/
theorem rangeIndices_total (r : KRange) (h : KRange.wf r) (hg : ¬ r.endsAtMax) (m : Int) (hm : inLen m) :
    ∃ a b, rangeIndices r m = .ok (a, b) ∧ 0 ≤ a ∧ a ≤ b ∧ b ≤ m := by
  obtain ⟨s, e, hok, hs, he, hle⟩ := asBoundedRange_ok r h hg
  unfold rangeIndices; rw [hok]; simp only [bind_ok]
  have hc : castI64 m = m := by unfold castI64; split <;> arith
  rw [hc]
  unfold clamp
  have h0 : (0 : Int) ≤ m := by arith
  simp only [h0, ite_true, bind_ok]
  have h1 : max 0 (min s m) ≤ m := by omega
  simp only [h1, ite_true, bind_ok]
  exact ⟨_, _, rfl, by omega, by omega, by omega⟩

theorem rangeIntersection_total (a b : KRange) (ha : KRange.wf a) (hb : KRange.wf b)
    (hga : ¬ a.endsAtMax) (hgb : ¬ b.endsAtMax) : rangeIntersection a b ≠ .panic := by
  obtain ⟨s1, e1, hok1, _⟩ := asBoundedRange_ok a ha hga
  obtain ⟨s2, e2, hok2, _⟩ := asBoundedRange_ok b hb hgb
  unfold rangeIntersection; rw [hok1, hok2]; simp only [bind_ok]
  split <;> simp

example : rangeIndices ⟨some (-3), none⟩ 4 = .ok (0, 4) := by decide
example : rangeIntersection ⟨some 10, some (20, false)⟩ ⟨some 15, some (25, false)⟩ = .ok (some (15, 20)) := by decide

/-! ## KRange::pop_front / pop_back -/

/-- `*start += 1` is guarded by `start < end`: no overflow in either representation -/
theorem popFront_total (large : Bool) (s e : Int) (incl : Bool)
    (hs : if large then inI64 s else inI32 s) (he : if large then inI64 e else inI32 e) :
    popFront large s e incl ≠ .panic := by
  unfold popFront
  cases large <;> simp only [Bool.false_eq_true, ite_false, ite_true] at hs he ⊢
  · split
    · rw [ckI32_ok (by arith)]; simp
    · split <;> (try split) <;> simp
  · split
    · rw [ckI64_ok (by arith)]; simp
    · split <;> (try split) <;> simp

/-- `*end - 1` / `*end -= 1` are guarded by `start < end` -/
theorem popBack_total (large : Bool) (s e : Int) (incl : Bool)
    (hs : if large then inI64 s else inI32 s) (he : if large then inI64 e else inI32 e) :
    popBack large s e incl ≠ .panic := by
  unfold popBack
  cases large <;> simp only [Bool.false_eq_true, ite_false, ite_true] at hs he ⊢
  · split
    · have h1 : ckI32 (e - 1) = .ok (e - 1) := ckI32_ok (by arith)
      cases incl <;> simp [h1]
    · split <;> (try split) <;> simp
  · split
    · have h1 : ckI64 (e - 1) = .ok (e - 1) := ckI64_ok (by arith)
      cases incl <;> simp [h1]
    · split <;> (try split) <;> simp

example : popFront false 2147483646 2147483647 true = .ok (some 2147483646, 2147483647, 2147483647, true) := by decide
example : popBack true (-9223372036854775808) (-9223372036854775807) false
    = .ok (some (-9223372036854775808), -9223372036854775808, -9223372036854775808, false) := by decide

/-! ## signed_index_to_unsigned, validate_index, run_index, run_slice, run_temp_index -/

/-- total for every `i8` index and every size; a negative index lands inside `0..=size` -/
theorem signedIndexToUnsigned_total (index size : Int) (hi : inI8 index) (hs : inUsize size) :
    ∃ i, signedIndexToUnsigned index size = .ok i ∧ 0 ≤ i ∧ (index < 0 → i ≤ size) := by
  unfold signedIndexToUnsigned
  split
  · exact ⟨size - min (-index) size, ckUsize_ok (by arith), by arith, fun _ => by arith⟩
  · exact ⟨index, rfl, by arith, fun h => by arith⟩

/-- `validate_index` only lets indices below the size through -/
theorem validateIndex_in_bounds (n : NumView) (hn : n.wf) (len i : Int)
    (h : validateIndex n (some len) = .ok i) : 0 ≤ i ∧ i < len := by
  unfold validateIndex at h
  split at h
  · cases h
  · simp only at h
    split at h
    · cases h
    · cases h; exact ⟨hn.1, by omega⟩

theorem validateIndex_total (n : NumView) (size : Option Int) : validateIndex n size ≠ .panic := by
  unfold validateIndex
  split
  · simp
  · split
    · split <;> simp
    · simp

/-- `l[n]`, `t[n]`, `m[n]`: the guard protects `data[index]` for every number -/
theorem runIndexSeqNum_total (len : Int) (n : NumView) (hn : n.wf) : runIndexSeqNum len n ≠ .panic := by
  unfold runIndexSeqNum
  cases hv : validateIndex n (some len) with
  | panic => exact absurd hv (validateIndex_total n _)
  | err => simp
  | ok i =>
    have := validateIndex_in_bounds n hn len i hv
    simp [sliceIndex, this.1, this.2]

/-- `l[range]`, `t[range]`: `indices` yields a valid slice range, `data[indices]` cannot panic -/
theorem runIndexSeqRange_total (len : Int) (hl : inLen len) (r : KRange) (h : KRange.wf r) (hg : ¬ r.endsAtMax) :
    runIndexSeqRange len r ≠ .panic := by
  obtain ⟨a, b, hok, h0, hab, hb⟩ := rangeIndices_total r h hg len hl
  unfold runIndexSeqRange; rw [hok]; simp [sliceRange, h0, hab, hb]

/-- `s[n]`: `index + 1` cannot overflow behind the guard -/
theorem runIndexStrNum_total (len : Int) (hl : inLen len) (n : NumView) (hn : n.wf) :
    runIndexStrNum len n ≠ .panic := by
  unfold runIndexStrNum
  cases hv : validateIndex n (some len) with
  | panic => exact absurd hv (validateIndex_total n _)
  | err => simp
  | ok i =>
    have := validateIndex_in_bounds n hn len i hv
    simp only [bind_ok]
    rw [ckUsize_ok (by arith)]; simp

/-- `(9223372036854775807..)[1]` (finding F-C06-11): with no end there is no size, hence no bounds
check, and `start + index` overflows -/
theorem runIndexRangeNum_panic_witness :
    runIndexRangeNum ⟨some 9223372036854775807, none⟩ ⟨false, true, true, 1, 1⟩ = .panic := by decide

/-- for a bounded range whose size can be computed the index arithmetic is safe -/
theorem runIndexRangeNum_partial (r : KRange) (h : KRange.wf r) (hg : ¬ r.endsAtMax) (hb : r.isBounded = true)
    (n : NumView) (hn : n.wf) (hsz : rangeSize r ≠ .panic) : runIndexRangeNum r n ≠ .panic := by
  obtain ⟨s, e, hok, hs, he, hle⟩ := asBoundedRange_ok r h hg
  unfold runIndexRangeNum
  cases hst : r.start with
  | none => simp
  | some s0 =>
    simp only
    have hs0 : s0 = s := by
      obtain ⟨st, sp⟩ := r
      unfold asBoundedRange KRange.triple at hok
      simp only at hst; subst hst
      match sp with
      | none => simp at hok; exact hok.1
      | some (e0, false) => simp at hok; exact hok.1
      | some (e0, true) =>
        simp only [ite_true] at hok
        cases hc : ckI64 (e0 + 1) with
        | panic => rw [hc] at hok; cases hok
        | err => rw [hc] at hok; cases hok
        | ok v => rw [hc] at hok; simp at hok; exact hok.1
    subst hs0
    unfold rangeSize at hsz ⊢
    rw [hb] at hsz ⊢
    simp only [ite_true] at hsz ⊢
    rw [hok] at hsz ⊢
    simp only [bind_ok] at hsz ⊢
    have hm : max e s0 = e := by omega
    rw [hm] at hsz ⊢
    unfold ckI64 at hsz ⊢
    split at hsz
    · rename_i hd
      simp only [hd, and_self, ite_true, bind_ok]
      unfold validateIndex
      split
      · simp
      · simp only
        split
        · simp
        · rename_i hlt
          simp only [bind_ok]
          have hu := hn.1
          have hc : castI64 n.usize = n.usize := by unfold castI64; split <;> arith
          rw [hc]
          split
          · simp
          · rename_i hbad; exfalso; apply hbad; arith
    · simp at hsz

example : runIndexRangeNum ⟨some 10, some (14, false)⟩ ⟨false, true, true, 3, 3⟩ = .ok 13 := by decide

theorem runSliceSeq_total (len index : Int) (hi : inI8 index) (hl : inUsize len) (sliceTo : Bool) :
    runSliceSeq len index sliceTo ≠ .panic := by
  obtain ⟨i, hok, _⟩ := signedIndexToUnsigned_total index len hi hl
  unfold runSliceSeq; rw [hok]; simp only [bind_ok]; split <;> simp

theorem runTempIndexSeq_total (len index : Int) (hi : inI8 index) (hl : inUsize len) :
    runTempIndexSeq len index ≠ .panic := by
  obtain ⟨i, hok, _⟩ := signedIndexToUnsigned_total index len hi hl
  unfold runTempIndexSeq; rw [hok]; simp

theorem runTempIndexStr_total (len index : Int) (hi : inI8 index) (hl : inLen len) :
    runTempIndexStr len index ≠ .panic := by
  obtain ⟨i, hok, h0, hneg⟩ := signedIndexToUnsigned_total index len hi (by arith)
  unfold runTempIndexStr; rw [hok]; simp only [bind_ok]
  have : i ≤ I64_MAX := by
    by_cases hlt : index < 0
    · have := hneg hlt; arith
    · unfold signedIndexToUnsigned at hok; simp [hlt] at hok; subst hok; arith
  rw [ckUsize_ok (by arith)]; simp

/-- the `|index| < count` guard protects `registers[start + index]` whenever the temporary tuple's
registers exist (`start + count ≤ registers.len()`) -/
theorem runTempIndexTemp_total (regsLen start count index : Int) (hi : inI8 index)
    (hs : 0 ≤ start) (hc : 0 ≤ count) (hfit : start + count ≤ regsLen) (hr : regsLen ≤ I64_MAX) :
    runTempIndexTemp regsLen start count index ≠ .panic := by
  unfold runTempIndexTemp signedIndexToUnsigned
  by_cases hlt : index < 0
  · simp only [hlt, ite_true]
    by_cases hg : -index < count
    · simp only [hg, ite_true]
      rw [ckUsize_ok (by arith)]; simp only [bind_ok]
      rw [ckUsize_ok (by arith)]; simp only [bind_ok]
      unfold sliceIndex
      have : 0 ≤ start + (count - min (-index) count) ∧ start + (count - min (-index) count) < regsLen := by omega
      simp [this]
    · simp [hg]
  · simp only [hlt, ite_false]
    by_cases hg : index < count
    · simp only [hg, ite_true, bind_ok]
      rw [ckUsize_ok (by arith)]; simp only [bind_ok]
      unfold sliceIndex
      have : 0 ≤ start + index ∧ start + index < regsLen := by omega
      simp [this]
    · simp [hg]

/-- nested pattern on `..=i64::MAX` / on a range starting at `i64::MAX` / ending at `i64::MIN` -/
theorem runTempIndexRange_panic_witness :
    runTempIndexRange ⟨some 0, some (9223372036854775807, true)⟩ (-1) = .panic ∧
    runTempIndexRange ⟨some 9223372036854775807, some (9223372036854775807, false)⟩ 1 = .panic ∧
    runTempIndexRange ⟨some 0, some (-9223372036854775808, false)⟩ (-1) = .panic := by decide

/-- the arithmetic is safe when the bounds keep 128 away from the `i64` limits -/
theorem runTempIndexRange_partial (r : KRange) (h : KRange.wf r) (hg : ¬ r.endsAtMax) (index : Int) (hi : inI8 index)
    (hs : ∀ s, r.start = some s → s ≤ I64_MAX - 128)
    (he : ∀ e i, r.stop = some (e, i) → I64_MIN + 128 ≤ e ∧ e ≤ I64_MAX - 1) :
    runTempIndexRange r index ≠ .panic := by
  unfold runTempIndexRange
  split
  · cases hsp : r.stop with
    | none => simp
    | some p =>
      obtain ⟨e, incl⟩ := p
      have hb := he e incl hsp
      have hw := h.2 e incl hsp
      simp only
      cases incl
      · simp only [Bool.false_eq_true, ite_false, bind_ok]
        rw [ckI64_ok (by arith)]; simp only [bind_ok]
        cases hc : rangeContains r (e + index) with
        | panic => exact absurd hc (rangeContains_total r h hg _)
        | err => simp
        | ok c => simp
      · simp only [ite_true]
        rw [ckI64_ok (by arith)]; simp only [bind_ok]
        rw [ckI64_ok (by arith)]; simp only [bind_ok]
        cases hc : rangeContains r (e + 1 + index) with
        | panic => exact absurd hc (rangeContains_total r h hg _)
        | err => simp
        | ok c => simp
  · cases hst : r.start with
    | none => simp
    | some s =>
      have hb := hs s hst
      have hw := h.1 s hst
      simp only
      rw [ckI64_ok (by arith)]; simp only [bind_ok]
      cases hc : rangeContains r (s + index) with
      | panic => exact absurd hc (rangeContains_total r h hg _)
      | err => simp
      | ok c => simp

/-! ## run_index_assign -/

theorem indexAssignListNum_total (len : Int) (n : NumView) (hn : n.wf) : indexAssignListNum len n ≠ .panic := by
  unfold indexAssignListNum sliceIndex
  split
  · rename_i hg; have := hn.1; simp [this, hg.2]
  · simp

theorem indexAssignListRange_total (len : Int) (hl : inLen len) (r : KRange) (h : KRange.wf r) (hg : ¬ r.endsAtMax) :
    indexAssignListRange len r ≠ .panic := by
  obtain ⟨a, b, hok, h0, hab, hb⟩ := rangeIndices_total r h hg len hl
  unfold indexAssignListRange; rw [hok]; simp only [bind_ok]
  split
  · unfold sliceIndex
    have : 0 ≤ b - 1 ∧ b - 1 < len := by omega
    rw [if_pos this]; simp
  · simp

/-- a NaN or negative index never reaches the indexing (runtime error) -/
theorem indexAssignListNum_guard (len : Int) (n : NumView) (h : n.geZeroF = false) :
    indexAssignListNum len n = .err := by
  unfold indexAssignListNum; simp [h]

/-! ### map arm -/

/-- **before commit 6a9dccd** (finding F-C06-4): `m = {a: 1, b: 2, c: 3}; m[0] = ('c', 9)` -/
theorem indexAssignMapUnguarded_panic_witness :
    indexAssignMapUnguarded [0, 1, 2] true 0 true 2 = .panic := by decide

/-- the unguarded swap dance is safe exactly when the key is new after the removal -/
theorem indexAssignMapUnguarded_partial (ks : List Nat) (ge : Bool) (u : Nat) (isPair : Bool) (key : Nat)
    (hnew : key ∉ swapRemoveIndex ks u) : indexAssignMapUnguarded ks ge u isPair key ≠ .panic := by
  unfold indexAssignMapUnguarded
  split
  · rename_i hg
    split
    · apply swapIndices_total
      · rw [length_insertKey, length_swapRemoveIndex ks u hg.2]; simp only [hnew, ite_false]; omega
      · rw [length_insertKey, length_swapRemoveIndex ks u hg.2]; simp only [hnew, ite_false]; omega
    · simp
  · simp

/-- **current code**: with the key-collision guard the map arm never panics — for every map, index,
value shape and key. The remaining case `key` already at position `u` is safe because positions are
distinct (`Nodup`): removing entry `u` removes the only occurrence. -/
theorem indexAssignMap_total (ks : List Nat) (hnd : ks.Nodup) (ge : Bool) (u : Nat) (isPair : Bool) (key : Nat) :
    indexAssignMap ks ge u isPair key ≠ .panic := by
  unfold indexAssignMap
  split
  · rename_i hg
    split
    · have hlen := length_swapRemoveIndex ks u hg.2
      cases hk : indexOfKey ks key with
      | none =>
        simp only
        have hnot : key ∉ swapRemoveIndex ks u := fun hm => indexOfKey_none ks key hk (mem_swapRemoveIndex ks u key hm)
        apply swapIndices_total
        · rw [length_insertKey, hlen]; simp only [hnot, ite_false]; omega
        · rw [length_insertKey, hlen]; simp only [hnot, ite_false]; omega
      | some j =>
        simp only
        split
        · simp
        · rename_i hju
          have hju : j = u := by omega
          subst hju
          -- whether or not the key survives the removal, both indices stay in range only if the
          -- key is re-appended; Nodup makes it disappear with entry `j`
          have hnot : key ∉ swapRemoveIndex ks j := by
            intro hm
            unfold swapRemoveIndex at hm
            simp only [hg.2, ite_true] at hm
            cases hl : ks.getLast? with
            | none => rw [hl] at hm; have : ks = [] := List.getLast?_eq_none_iff.mp hl; subst this; simp at hg
            | some last =>
              rw [hl] at hm; simp only at hm
              have hkj := indexOfKey_some ks key j hk
              -- positions of `key` in `(ks.set j last).dropLast`
              obtain ⟨i, hi, hget⟩ := List.getElem_of_mem hm
              rw [List.length_dropLast, List.length_set] at hi
              rw [List.getElem_dropLast, List.getElem_set] at hget
              have hlast : ks[ks.length - 1]? = some last := by
                rw [List.getLast?_eq_getElem?] at hl; exact hl
              split at hget
              · -- i = j: the moved last element equals key; then key sits at j and at length-1
                rename_i hij
                subst hget
                have h1 : ks[j]? = ks[ks.length - 1]? := by rw [hkj, hlast]
                have := (List.getElem?_inj (by omega) hnd).mp h1
                omega
              · rename_i hij
                have h1 : ks[i]? = ks[j]? := by
                  rw [hkj, List.getElem?_eq_getElem (by omega)]; simp [hget]
                have := (List.getElem?_inj (by omega) hnd).mp h1
                omega
          apply swapIndices_total
          · rw [length_insertKey, hlen]; simp only [hnot, ite_false]; omega
          · rw [length_insertKey, hlen]; simp only [hnot, ite_false]; omega
    · simp
  · simp

example : indexAssignMap [0, 1, 2] true 0 true 7 = .ok [7, 1, 2] := by decide
example : indexAssignMap [0, 1, 2] true 0 true 2 = .err := by decide
example : indexAssignMap [0, 1, 2] true 1 true 1 = .ok [0, 1, 2] := by decide

/-! ## remainder, power, shifts, abs, step_to, range.expanded -/

/-- `run_remainder` special-cases a zero integer divisor: total for all integers -/
theorem runRemainder_total (a b : Int) : runRemainder a b ≠ .panic := by
  unfold runRemainder
  by_cases hb : b = 0
  · simp [hb]
  · simp only [hb, ite_false]
    unfold wrappingRem
    simp only [hb, ite_false]
    by_cases h1 : b = -1 <;> simp [h1, Res.map']

/-- `z = 10; z %= 0` (finding F-C06-1): `run_remainder_assign` lacks that special case -/
theorem runRemainderAssign_panic_witness : runRemainderAssign 10 0 = .panic := by decide

theorem runRemainderAssign_partial (a b : Int) (hb : b ≠ 0) : runRemainderAssign a b ≠ .panic := by
  unfold runRemainderAssign wrappingRem
  simp only [hb, ite_false]; split <;> simp

/-- exactly the zero divisor panics -/
theorem runRemainderAssign_panic_iff (a b : Int) : runRemainderAssign a b = .panic ↔ b = 0 := by
  constructor
  · intro h; apply Classical.byContradiction; intro hb; exact runRemainderAssign_partial a b hb h
  · intro h; subst h; unfold runRemainderAssign wrappingRem; simp

/-- `wrapping_pow` cannot panic -/
theorem powInt_total (a b : Int) : powInt a b ≠ .panic := by unfold powInt; simp

/-- `1.shift_left 64` (finding F-C06-6): the guard is only `b >= 0` -/
theorem shiftLeft_panic_witness : shiftLeft 1 ⟨false, true, true, 64, 64⟩ = .panic := by decide
theorem shiftRight_panic_witness : shiftRight 1 ⟨false, true, true, 64, 64⟩ = .panic := by decide

theorem shiftLeft_partial (a : Int) (b : NumView) (hb : b.i64 < 64) : shiftLeft a b ≠ .panic := by
  unfold shiftLeft; split <;> simp_all
theorem shiftRight_partial (a : Int) (b : NumView) (hb : b.i64 < 64) : shiftRight a b ≠ .panic := by
  unfold shiftRight; split <;> simp_all

/-- exactly the amounts `>= 64` that pass the `b >= 0` guard panic -/
theorem shiftLeft_panic_iff (a : Int) (b : NumView) :
    shiftLeft a b = .panic ↔ (b.geZeroI = true ∧ 64 ≤ b.i64) := by
  unfold shiftLeft
  constructor
  · intro h
    split at h
    · rename_i hg; split at h
      · cases h
      · exact ⟨hg, by omega⟩
    · cases h
  · intro ⟨hg, h64⟩
    have : ¬ b.i64 < 64 := by omega
    simp [hg, this]

/-- `(-9223372036854775807 - 1).abs()` (finding F-C06-9) -/
theorem absInt_panic_witness : absInt (-9223372036854775808) = .panic := by decide
theorem absInt_partial (a : Int) (h : inI64 a) (hmin : a ≠ I64_MIN) : absInt a ≠ .panic := by
  unfold absInt; rw [ckI64_ok (by split <;> arith)]; simp

/-! ### StepToI64Iterator (number.step_to on integers; finding F-C06-8, fixed by d8d5b00) -/

/-- before d8d5b00: `1.step_to 5, 0`; `0.step_to i64::MIN`; `i64::MIN.step_to 1` -/
theorem stepToNewUnchecked_panic_witness :
    stepToNewUnchecked 1 5 0 = .panic ∧ stepToNewUnchecked 0 (-9223372036854775808) 1 = .panic ∧
    stepToNewUnchecked (-9223372036854775808) 1 1 = .panic := by decide

/-- **`new` never panics**, for every `i64` start, target and step (zero, negative, `i64::MIN` …),
and establishes the invariant with all `count + 1` values remaining -/
theorem stepToNew_total (start target step : Int) (hs : inI64 start) (ht : inI64 target) (hst : inI64 step) :
    ∃ s, stepToNew start target step = .ok s ∧ StepInv start target step s ∧
      s.steps = stepCount start target step := by
  obtain ⟨ha0, ha1, _, _⟩ := iabs_facts start target hs ht
  unfold stepToNew
  by_cases hp : 0 < step
  · obtain ⟨hceq, hc⟩ := stepCount_facts start target step hp
    obtain ⟨hn0, hnle, _⟩ := hc ha0
    have hv := step_value start target step (stepCount start target step) hs ht hst hp hn0 (Int.le_refl _)
    simp only [gt_iff_lt, hp, ite_true]
    rw [ckI128_ok (by arith)]; simp only [bind_ok]
    rw [ckI128_ok (by omega)]; simp only [bind_ok]
    rw [← hceq]
    rw [ckI128_ok (by omega)]; simp only [bind_ok]
    have hmax : max (stepCount start target step) 0 = stepCount start target step := by omega
    rw [hmax]
    have hsg : (if target < start then wrap64 (-step) else step) = stepSigned start target step := rfl
    rw [hsg]
    obtain ⟨hbt, hlo, hhi⟩ := hv
    rw [ckI128_ok (by omega)]; simp only [bind_ok]
    rw [ckI128_ok (by arith)]; simp only [bind_ok]
    have hin : inI64 (start + stepSigned start target step * stepCount start target step) := by
      unfold between at hbt; arith
    refine ⟨_, rfl, ⟨rfl, by simp only; omega, by simp only; omega, ?_⟩, rfl⟩
    intro _
    exact ⟨0, by omega, by simp only; omega, by simp only [wrap64_id hin]; congr 2; omega⟩
  · have hc := stepCount_nonpos start target step hp
    simp only [gt_iff_lt, hp, ite_false, bind_ok]
    have hmax : max (-1 : Int) 0 = 0 := by omega
    rw [hmax, Int.mul_zero]
    rw [ckI128_ok (by omega)]; simp only [bind_ok]
    rw [ckI128_ok (by arith)]; simp only [bind_ok]
    refine ⟨_, rfl, ⟨rfl, by simp only; omega, by simp only; omega, ?_⟩, by simp only; omega⟩
    intro h; simp only at h; omega

/-- **`next` never panics**, keeps the invariant, yields a value between `start` and `target`
exactly while `steps ≥ 0`, and consumes one step -/
theorem stepToNext_spec (start target step : Int) (hs : inI64 start) (ht : inI64 target) (hst : inI64 step)
    (s : StepTo) (h : StepInv start target step s) :
    ∃ v s', stepToNext s = .ok (v, s') ∧ StepInv start target step s' ∧
      (0 ≤ s.steps → (∃ x, v = some x ∧ between start target x) ∧ s'.steps = s.steps - 1) ∧
      (s.steps < 0 → v = none ∧ s' = s) := by
  obtain ⟨hstep, hm1, hle, hex⟩ := h
  unfold stepToNext
  by_cases h0 : 0 ≤ s.steps
  · have hp : 0 < step := by
      apply Classical.byContradiction; intro hp
      have := stepCount_nonpos start target step hp; omega
    obtain ⟨lo, hlo0, hlole, htgt⟩ := hex h0
    obtain ⟨ha0, ha1, _, _⟩ := iabs_facts start target hs ht
    obtain ⟨_, hc⟩ := stepCount_facts start target step hp
    obtain ⟨hn0, hnle, _⟩ := hc ha0
    have hv1 := step_value start target step s.steps hs ht hst hp h0 hle
    have hv2 := step_value start target step lo hs ht hst hp hlo0 (by omega)
    have hv3 := step_value start target step (lo + s.steps) hs ht hst hp (by omega) hlole
    have hsplit : stepSigned start target step * (lo + s.steps)
        = stepSigned start target step * lo + stepSigned start target step * s.steps := Int.mul_add _ _ _
    simp only [ge_iff_le, h0, ite_true]
    rw [hstep]
    rw [ckI128_ok (by omega)]; simp only [bind_ok]
    have hval : s.target - stepSigned start target step * s.steps = start + stepSigned start target step * lo := by
      rw [htgt, hsplit]; omega
    rw [hval]
    obtain ⟨hb2, _, _⟩ := hv2
    have hin : inI64 (start + stepSigned start target step * lo) := by unfold between at hb2; arith
    rw [ckI128_ok (by arith)]; simp only [bind_ok]
    rw [ckI128_ok (by omega)]; simp only [bind_ok]
    refine ⟨_, _, rfl, ⟨rfl, by simp only; omega, by simp only; omega, ?_⟩, ?_, ?_⟩
    · intro h1
      simp only at h1
      exact ⟨lo + 1, by omega, by simp only; omega, by simp only; rw [htgt]; congr 2; omega⟩
    · intro _
      exact ⟨⟨_, rfl, by rw [wrap64_id hin]; exact hb2⟩, rfl⟩
    · intro hneg; omega
  · simp only [ge_iff_le, h0, ite_false]
    refine ⟨none, s, rfl, ⟨hstep, hm1, hle, hex⟩, ?_, ?_⟩
    · intro h1; first | exact False.elim h1 | exact absurd h1 h0
    · intro _; exact ⟨rfl, rfl⟩

/-- **`next_back` never panics** (the `wrapping_sub` past the first value happens only when nothing
remains), keeps the invariant, yields a value between `start` and `target`, consumes one step -/
theorem stepToNextBack_spec (start target step : Int) (hs : inI64 start) (ht : inI64 target) (hst : inI64 step)
    (s : StepTo) (h : StepInv start target step s) :
    ∃ v s', stepToNextBack s = .ok (v, s') ∧ StepInv start target step s' ∧
      (0 ≤ s.steps → (∃ x, v = some x ∧ between start target x) ∧ s'.steps = s.steps - 1) ∧
      (s.steps < 0 → v = none ∧ s' = s) := by
  obtain ⟨hstep, hm1, hle, hex⟩ := h
  unfold stepToNextBack
  by_cases h0 : 0 ≤ s.steps
  · have hp : 0 < step := by
      apply Classical.byContradiction; intro hp
      have := stepCount_nonpos start target step hp; omega
    obtain ⟨lo, hlo0, hlole, htgt⟩ := hex h0
    obtain ⟨ha0, ha1, _, _⟩ := iabs_facts start target hs ht
    obtain ⟨_, hc⟩ := stepCount_facts start target step hp
    obtain ⟨hn0, hnle, _⟩ := hc ha0
    have hv3 := step_value start target step (lo + s.steps) hs ht hst hp (by omega) hlole
    simp only [ge_iff_le, h0, ite_true]
    rw [ckI128_ok (by omega)]; simp only [bind_ok]
    refine ⟨_, _, rfl, ⟨hstep, by simp only; omega, by simp only; omega, ?_⟩, ?_, ?_⟩
    · intro h1
      simp only at h1
      have hv4 := step_value start target step (lo + (s.steps - 1)) hs ht hst hp (by omega) (by omega)
      obtain ⟨hb4, _, _⟩ := hv4
      have hin : inI64 (start + stepSigned start target step * (lo + (s.steps - 1))) := by
        unfold between at hb4; arith
      refine ⟨lo, hlo0, by simp only; omega, ?_⟩
      simp only
      have hsub : s.target - s.step = start + stepSigned start target step * (lo + (s.steps - 1)) := by
        rw [htgt, hstep]
        have : stepSigned start target step * (lo + s.steps)
            = stepSigned start target step * (lo + (s.steps - 1)) + stepSigned start target step := by
          have h1 : lo + s.steps = (lo + (s.steps - 1)) + 1 := by omega
          rw [h1, Int.mul_add, Int.mul_one]
        omega
      rw [hsub, wrap64_id hin]
    · intro _
      obtain ⟨hb3, _, _⟩ := hv3
      exact ⟨⟨_, rfl, by rw [htgt]; exact hb3⟩, rfl⟩
    · intro hneg; omega
  · simp only [ge_iff_le, h0, ite_false]
    refine ⟨none, s, rfl, ⟨hstep, hm1, hle, hex⟩, ?_, ?_⟩
    · intro h1; first | exact False.elim h1 | exact absurd h1 h0
    · intro _; exact ⟨rfl, rfl⟩

/-- **`size_hint` never panics** and is `steps + 1` saturated at `usize::MAX` -/
theorem stepToSizeHint_total (start target step : Int) (hs : inI64 start) (ht : inI64 target)
    (s : StepTo) (h : StepInv start target step s) :
    stepToSizeHint s = .ok (min (s.steps + 1) USIZE_MAX) := by
  obtain ⟨_, hm1, hle, _⟩ := h
  obtain ⟨ha0, ha1, _, _⟩ := iabs_facts start target hs ht
  have hn : stepCount start target step ≤ 18446744073709551615 := by
    by_cases hp : 0 < step
    · obtain ⟨_, hc⟩ := stepCount_facts start target step hp
      have := (hc ha0).2.1; omega
    · rw [stepCount_nonpos start target step hp]; omega
  unfold stepToSizeHint
  rw [ckI128_ok (by omega)]; simp only [bind_ok]
  congr 1
  split <;> arith

/-- **any sequence of pulls** from either end: no panic, exactly `min (#pulls) (steps + 1)` values
come out (so a fresh iterator yields `count + 1` values in total), all between `start` and `target` -/
theorem stepToRun_spec (start target step : Int) (hs : inI64 start) (ht : inI64 target) (hst : inI64 step)
    (ops : List Bool) (s : StepTo) (h : StepInv start target step s) :
    ∃ vs, stepToRun s ops = .ok vs ∧ (vs.length : Int) = min (ops.length : Int) (s.steps + 1) ∧
      ∀ x ∈ vs, between start target x := by
  induction ops generalizing s with
  | nil => exact ⟨[], rfl, by have := h.2.1; simp; omega, by simp⟩
  | cons b ops ih =>
    have hm1 := h.2.1
    obtain ⟨v, s', hok, hinv', hyield, hnone⟩ :
        ∃ v s', (if b then stepToNextBack s else stepToNext s) = .ok (v, s') ∧ StepInv start target step s' ∧
          (0 ≤ s.steps → (∃ x, v = some x ∧ between start target x) ∧ s'.steps = s.steps - 1) ∧
          (s.steps < 0 → v = none ∧ s' = s) := by
      cases b
      · simpa using stepToNext_spec start target step hs ht hst s h
      · simpa using stepToNextBack_spec start target step hs ht hst s h
    obtain ⟨vs, hvs, hlen, hall⟩ := ih s' hinv'
    unfold stepToRun
    rw [hok]; simp only [bind_ok]
    rw [hvs]; simp only [bind_ok]
    by_cases h0 : 0 ≤ s.steps
    · obtain ⟨⟨x, hx, hbx⟩, hst'⟩ := hyield h0
      subst hx
      refine ⟨x :: vs, rfl, ?_, ?_⟩
      · simp only [List.length_cons]; push_cast; omega
      · intro y hy; rcases List.mem_cons.mp hy with hy | hy
        · subst hy; exact hbx
        · exact hall y hy
    · obtain ⟨hv, hs'⟩ := hnone (by omega)
      subst hv; subst hs'
      refine ⟨vs, rfl, ?_, hall⟩
      simp only [List.length_cons]; push_cast; omega

/-- corollary: a fresh iterator pulled at least `count + 1` times yields exactly `count + 1` values -/
theorem stepTo_count (start target step : Int) (hs : inI64 start) (ht : inI64 target) (hst : inI64 step)
    (ops : List Bool) (hlen : stepCount start target step + 1 ≤ ops.length) :
    ∃ s vs, stepToNew start target step = .ok s ∧ stepToRun s ops = .ok vs ∧
      (vs.length : Int) = stepCount start target step + 1 ∧ ∀ x ∈ vs, between start target x := by
  obtain ⟨s, hnew, hinv, hsteps⟩ := stepToNew_total start target step hs ht hst
  obtain ⟨vs, hrun, hl, hall⟩ := stepToRun_spec start target step hs ht hst ops s hinv
  exact ⟨s, vs, hnew, hrun, by rw [hl, hsteps]; omega, hall⟩

example : (stepToNew 1 9 2).bind (fun s => stepToRun s [false, true, false, false, false, false]) = .ok [1, 9, 3, 5, 7] := by
  decide
example : (stepToNew (-9223372036854775808) 9223372036854775807 1).bind stepToSizeHint = .ok 18446744073709551615 := by
  decide
example : (stepToNew 1 5 0).bind (fun s => stepToRun s [false, true]) = .ok [] := by decide

/-! ### list.retain with a predicate (finding F-C06-18, fixed by cf950fc) -/

/-- before cf950fc: `l = [1, 2, 3, 4]; l.retain |x| (l.pop(); true)` reads past the new end -/
theorem listRetain_unchecked_panic_witness : listRetain false 4 [(true, 3), (true, 2), (true, 1)] = .panic := by
  decide

/-- **current code**: whatever the predicate answers and however it resizes the list between calls,
the loop and the final `truncate` cannot panic, and the result is never longer than the list -/
theorem listRetain_total (len0 : Int) (ms : List RetainMove) : listRetain true len0 ms ≠ .panic := by
  unfold listRetain
  cases h : retainLoop true len0 0 0 len0 ms with
  | panic => exact absurd h (retainLoop_checked_total len0 ms 0 0 len0)
  | err => simp
  | ok p => simp

example : listRetain true 4 [(true, 3), (true, 2), (true, 1)] = .ok 2 := by decide

/-- `(0..10).expanded 9223372036854775807` (finding F-C06-10) -/
theorem rangeExpanded_panic_witness : rangeExpanded 0 10 9223372036854775807 = .panic := by decide
theorem rangeExpanded_partial (s e n : Int) (h1 : inI64 (s - n)) (h2 : inI64 (e + n)) :
    rangeExpanded s e n ≠ .panic := by
  unfold rangeExpanded; rw [ckI64_ok h1, ckI64_ok h2]; simp

/-! ## list.insert / remove / get / resize -/

/-- the guard `n < 0.0 || index > len` protects `Vec::insert` for every number -/
theorem listInsert_total (len : Int) (n : NumView) : listInsert len n ≠ .panic := by
  unfold listInsert
  split
  · simp
  · rename_i h; have : n.usize ≤ len := by omega
    simp [this]

/-- a negative number is rejected (DESIGN §11: removing this guard turns `l.insert -1, x` from an
error into an insertion at 0 — visible to the correspondence as `err` vs `ok`) -/
theorem listInsert_negative_is_error (len : Int) (n : NumView) (h : n.ltZeroF = true) :
    listInsert len n = .err := by unfold listInsert; simp [h]

theorem listRemove_total (len : Int) (n : NumView) : listRemove len n ≠ .panic := by
  unfold listRemove
  split
  · simp
  · rename_i h; have : n.usize < len := by omega
    simp [this]

theorem listGet_total (len : Int) (n : NumView) : listGet len n ≠ .panic := by
  unfold listGet; split <;> simp

theorem listResize_total (n : NumView) : listResize n ≠ .panic := by
  unfold listResize; split <;> simp

example : listInsert 4 ⟨false, true, true, 4, 4⟩ = .ok 4 := by decide
example : listRemove 4 ⟨false, true, true, 4, 4⟩ = .err := by decide

/-! ## string iterators: `size_hint` after any number of `next` calls -/

/-- `size_hint` is safe exactly while the cursor has not passed the end -/
theorem sizeHint_panic_iff (c : Cursor) (hl : inLen c.len) (hp : 0 ≤ c.pos ∧ c.pos ≤ I64_MAX + 4) :
    sizeHint c = .panic ↔ c.len < c.pos := by
  unfold sizeHint ckUsize
  constructor
  · intro h; split at h
    · cases h
    · arith
  · intro h
    have : ¬ (0 ≤ c.len - c.pos ∧ c.len - c.pos ≤ USIZE_MAX) := by arith
    rw [if_neg this]

/-- `Bytes`: `index ≤ len` is an invariant of `next`, for every state reachable from `new` -/
theorem bytesNext_inv (c c' : Cursor) (h : c.pos ≤ c.len) (hn : bytesNext c = some c') :
    c'.pos ≤ c'.len ∧ c'.len = c.len := by
  unfold bytesNext at hn
  split at hn
  · cases hn; simp; omega
  · cases hn

/-- … hence `Bytes::size_hint` never underflows, after any number of `next` calls -/
theorem bytes_sizeHint_total (len : Int) (hl : inLen len) (n k : Nat) :
    (bytesRun n ⟨len, 0⟩ k).2 ≠ .panic := by
  suffices ∀ n (c : Cursor) k, c.len = len → 0 ≤ c.pos → c.pos ≤ c.len → (bytesRun n c k).2 ≠ .panic from
    this n ⟨len, 0⟩ k rfl (by simp) (by simp; arith)
  intro n
  induction n with
  | zero =>
    intro c k hlen h0 hle
    unfold bytesRun
    intro hp
    have := (sizeHint_panic_iff c (by rw [hlen]; exact hl) ⟨h0, by arith⟩).mp hp
    omega
  | succ n ih =>
    intro c k hlen h0 hle
    unfold bytesRun
    cases hn : bytesNext c with
    | none =>
      simp only
      intro hp
      have := (sizeHint_panic_iff c (by rw [hlen]; exact hl) ⟨h0, by arith⟩).mp hp
      omega
    | some c' =>
      simp only
      have hinv := bytesNext_inv c c' hle hn
      have hpos : 0 ≤ c'.pos := by
        unfold bytesNext at hn; split at hn
        · cases hn; simp; omega
        · cases hn
      exact ih c' (k + 1) (by rw [hinv.2, hlen]) hpos hinv.1

/-- `CharIndices`: a grapheme never extends past the end, so `index ≤ len` is preserved -/
theorem charIndicesNext_inv (c c' : Cursor) (g : Int) (hg : 1 ≤ g ∧ g ≤ c.len - c.pos)
    (hn : charIndicesNext c g = some c') : c'.pos ≤ c'.len ∧ c'.len = c.len := by
  unfold charIndicesNext at hn
  split at hn
  · cases hn; simp; omega
  · cases hn

/-- `i = 'a,b'.split(','); i.next(); i.next(); i.to_list()` (finding F-C06-2): after the last piece
`start = len + pattern_len` -/
theorem split_sizeHint_panic_witness : (splitRun [97, 44, 98] [44] 2 ⟨3, 0⟩ []).2 = .panic := by decide

/-- `Split::next` moves the cursor past the end as soon as the pattern is not found any more -/
theorem splitNext_exhausts (c c' : Cursor) (patLen : Int)
    (hn : splitNext c patLen none = some c') : c'.len < c'.pos := by
  unfold splitNext at hn
  split at hn
  · cases hn; simp; omega
  · cases hn

/-- **an empty pattern terminates** (e1818ae): after the first part every `next` either advances the
cursor by at least one byte or exhausts the iterator -/
theorem splitNext_empty_progress (c c' : Cursor) (rest : List Nat)
    (hn : splitNext c 0 ((splitFind [] rest true).map Int.ofNat) = some c') :
    c.pos < c'.pos := by
  unfold splitNext at hn
  split at hn
  · unfold splitFind at hn
    simp only [List.isEmpty_nil, ite_true] at hn
    cases hr : rest.head? with
    | none => rw [hr] at hn; simp at hn; cases hn; simp; omega
    | some b =>
      rw [hr] at hn; simp at hn; cases hn; simp
      unfold utf8Len; split <;> (try split) <;> (try split) <;> omega
  · cases hn

example : (splitRunH sizeHint [97, 195, 169] [] false 6 ⟨3, 0⟩ []).1 = [(0, 0), (0, 1), (1, 3), (3, 3)] := by decide

/-- `size_hint` of `Split` is safe as long as the last piece has not been yielded -/
theorem split_sizeHint_partial (c : Cursor) (hl : inLen c.len) (h0 : 0 ≤ c.pos) (hle : c.pos ≤ c.len) :
    sizeHint c ≠ .panic := by
  intro hp
  have := (sizeHint_panic_iff c hl ⟨h0, by arith⟩).mp hp
  omega

/-- `i = 'abc'.lines(); i.next(); i.to_list()`: `Lines` sets `start = len + 1` after a last line
without line break -/
theorem lines_sizeHint_panic_witness : (linesRun [97, 98, 99] 1 ⟨3, 0⟩ []).2 = .panic := by decide

theorem linesNext_exhausts (c c' : Cursor) (hn : linesNext c none = some c') : c'.len < c'.pos := by
  unfold linesNext at hn
  split at hn
  · cases hn; simp; omega
  · cases hn

example : (splitRun [97, 44, 98] [44] 1 ⟨3, 0⟩ []).2 = .ok 1 := by decide
example : (bytesRun 5 ⟨3, 0⟩ 0) = (3, .ok 0) := by decide

/-! ## TupleSlice::with_bounds, StringSlice::{with_bounds, split}, KotoLexer::peek -/

/-- offsets of real containers cannot overflow `usize` when added -/
theorem withBounds_total (dataLen selfStart bStart bEnd : Int) (ok : Bool)
    (hs : inLen selfStart) (ha : inLen bStart) (hb : inLen bEnd) :
    withBounds dataLen selfStart bStart bEnd ok ≠ .panic := by
  unfold withBounds
  rw [ckUsize_ok (by arith), ckUsize_ok (by arith)]; simp

/-- outside that guard the addition overflows (`usize::MAX`); both callers now test the request
against the slice's own length first (`stringWithBounds`, `tupleWithBounds`) -/
theorem withBounds_panic_witness : withBounds 6 1 0 18446744073709551615 true = .panic := by decide

/-- a successful `with_bounds` stays inside the data -/
theorem withBounds_in_data (dataLen selfStart bStart bEnd : Int) (ok : Bool) (a b : Int)
    (h : withBounds dataLen selfStart bStart bEnd ok = .ok (some (a, b))) : a ≤ b ∧ b ≤ dataLen := by
  unfold withBounds at h
  cases h1 : ckUsize (bStart + selfStart) with
  | panic => rw [h1] at h; cases h
  | err => rw [h1] at h; cases h
  | ok x =>
    rw [h1] at h; simp only [bind_ok] at h
    cases h2 : ckUsize (bEnd + selfStart) with
    | panic => rw [h2] at h; cases h
    | err => rw [h2] at h; cases h
    | ok y =>
      rw [h2] at h; simp only [bind_ok] at h
      split at h
      · rename_i hc; cases h; exact ⟨hc.1, hc.2.1⟩
      · cases h

/-- **current code** (a83c277): `TupleSlice::with_bounds` never panics, for ANY usize bounds of the slice
and of the request (no assumption that they are real lengths): the guard bounds the sums by the
slice's own end -/
theorem tupleWithBounds_total (dataLen selfStart selfEnd bStart bEnd : Int)
    (hs : inUsize selfStart) (he : inUsize selfEnd) (ha : inUsize bStart) (hb : inUsize bEnd) :
    tupleWithBounds dataLen selfStart selfEnd bStart bEnd ≠ .panic := by
  unfold tupleWithBounds
  split
  · simp
  · rename_i hg
    unfold withBounds
    unfold inUsize at *
    rw [ckUsize_ok (by unfold inUsize; omega), ckUsize_ok (by unfold inUsize; omega)]; simp

/-- … and a successful result lies inside the slice it was taken from and inside the data -/
theorem tupleWithBounds_in_slice (dataLen selfStart selfEnd bStart bEnd : Int) (a b : Int)
    (hs : inUsize selfStart) (he : inUsize selfEnd) (hse : selfStart ≤ selfEnd) (ha : inUsize bStart) (hb : inUsize bEnd)
    (h : tupleWithBounds dataLen selfStart selfEnd bStart bEnd = .ok (some (a, b))) :
    selfStart ≤ a ∧ a ≤ b ∧ b ≤ selfEnd ∧ b ≤ dataLen := by
  unfold tupleWithBounds at h
  split at h
  · cases h
  · rename_i hg
    have hin := withBounds_in_data dataLen selfStart bStart bEnd true a b h
    unfold withBounds at h
    unfold inUsize at *
    rw [ckUsize_ok (by unfold inUsize; omega), ckUsize_ok (by unfold inUsize; omega)] at h
    simp only [bind_ok] at h
    split at h
    · cases h; exact ⟨by omega, hin.1, by omega, hin.2⟩
    · cases h

example : tupleWithBounds 6 1 5 0 18446744073709551615 = .ok none := by decide
example : tupleWithBounds 6 1 5 0 5 = .ok none := by decide
example : tupleWithBounds 6 1 5 1 4 = .ok (some (2, 5)) := by decide

/-- `StringSlice::with_bounds` (42b084b): total for real lengths, and a successful result stays
inside the slice it was taken from (not merely inside the shared data) -/
theorem stringWithBounds_total (dataLen selfStart selfEnd bStart bEnd : Int) (ok : Bool)
    (hs : inLen selfStart) (he : inLen selfEnd) (hse : selfStart ≤ selfEnd) (ha : inLen bStart) (hb : inLen bEnd) :
    stringWithBounds dataLen selfStart selfEnd bStart bEnd ok ≠ .panic := by
  unfold stringWithBounds
  rw [ckUsize_ok (by arith)]; simp only [bind_ok]
  split
  · simp
  · exact withBounds_total dataLen selfStart bStart bEnd ok hs ha hb

theorem stringWithBounds_in_slice (dataLen selfStart selfEnd bStart bEnd : Int) (ok : Bool) (a b : Int)
    (hs : inLen selfStart) (hse : selfStart ≤ selfEnd) (he : inLen selfEnd) (hb0 : 0 ≤ bEnd)
    (h : stringWithBounds dataLen selfStart selfEnd bStart bEnd ok = .ok (some (a, b))) :
    a ≤ b ∧ b ≤ selfEnd := by
  unfold stringWithBounds at h
  rw [ckUsize_ok (by arith)] at h; simp only [bind_ok] at h
  split at h
  · cases h
  · rename_i hle
    have hin := withBounds_in_data dataLen selfStart bStart bEnd ok a b h
    unfold withBounds at h
    cases h1 : ckUsize (bStart + selfStart) with
    | panic => rw [h1] at h; cases h
    | err => rw [h1] at h; cases h
    | ok x =>
      rw [h1] at h; simp only [bind_ok] at h
      cases h2 : ckUsize (bEnd + selfStart) with
      | panic => rw [h2] at h; cases h
      | err => rw [h2] at h; cases h
      | ok y =>
        rw [h2] at h; simp only [bind_ok] at h
        unfold ckUsize at h2; split at h2
        · cases h2
          split at h
          · cases h; exact ⟨hin.1, by omega⟩
          · cases h
        · cases h2

/-- a reversed range with a huge start still overflows the addition (direct host call) -/
theorem stringWithBounds_panic_witness : stringWithBounds 12 1 12 18446744073709551615 0 true = .panic := by decide

theorem stringSliceSplit_total (dataLen selfStart offset : Int) (ok : Bool)
    (hs : inLen selfStart) (ho : inLen offset) : stringSliceSplit dataLen selfStart offset ok ≠ .panic := by
  unfold stringSliceSplit; rw [ckUsize_ok (by arith)]; simp

/-- before b5b4493 `KotoLexer::peek(n)` with `n ≥ queue_len + 2` underflowed -/
theorem lexerPeekOld_panic_witness : lexerPeekOld 0 2 = .panic := by decide

/-- current code: total for every `n` below `usize::MAX`, and afterwards the queue holds the
`n + 1` tokens that `token_queue.get(n)` needs -/
theorem lexerPeek_total (q n : Int) (hq : inLen q) (hn : 0 ≤ n ∧ n < USIZE_MAX) :
    ∃ add, lexerPeek q n = .ok add ∧ 0 ≤ add ∧ n + 1 ≤ q + add := by
  unfold lexerPeek
  rw [ckUsize_ok (by arith)]; simp only [bind_ok]
  exact ⟨_, rfl, by omega, by omega⟩

theorem lexerPeek_panic_iff (q n : Int) (hn : inUsize n) : lexerPeek q n = .panic ↔ n = USIZE_MAX := by
  unfold lexerPeek ckUsize
  constructor
  · intro h; split at h
    · simp at h
    · arith
  · intro h
    have : ¬ (0 ≤ n + 1 ∧ n + 1 ≤ USIZE_MAX) := by arith
    rw [if_neg this]; rfl

/-! ## format_source_excerpt -/

/-- safe for every span the parser and compiler produce: ordered positions, the start line exists
in the source when the span is on one line, nothing at the `u32` limit -/
theorem sourceExcerpt_total (nLines sl sc el ec : Int)
    (h1 : 0 ≤ sl ∧ sl ≤ el ∧ el < U32_MAX) (h2 : 0 ≤ sc ∧ sc < U32_MAX) (h3 : 0 ≤ ec ∧ ec ≤ U32_MAX)
    (h4 : sl = el → sl < nLines ∧ sc ≤ ec) : sourceExcerpt nLines sl sc el ec ≠ .panic := by
  unfold sourceExcerpt
  rw [ckU32_ok (by arith)]; simp only [bind_ok]
  rw [ckU32_ok (by arith)]; simp only [bind_ok]
  rw [ckU32_ok (by arith)]; simp only [bind_ok]
  by_cases he : sl = el
  · have := h4 he
    simp only [he, ite_true]
    have hl : el < nLines := by omega
    simp only [hl, ite_true, bind_ok]
    rw [ckUsize_ok (by arith)]; simp only [bind_ok]
    rw [ckU32_ok (by arith)]; simp only [bind_ok]
    rw [ckU32_ok (by arith)]; simp only [bind_ok]
    rw [ckU32_ok (by arith)]; simp
  · simp only [he, ite_false, bind_ok]
    rw [ckU32_ok (by arith)]; simp only [bind_ok]
    rw [ckU32_ok (by arith)]; simp

/-- what the guard excludes: a one-line span on a line that `lines()` does not have (e.g. the line
after a trailing line break), reversed lines, reversed columns on one line -/
theorem sourceExcerpt_panic_witness :
    sourceExcerpt 1 1 0 1 0 = .panic ∧ sourceExcerpt 3 2 0 1 0 = .panic ∧ sourceExcerpt 3 1 5 1 2 = .panic := by decide

example : sourceExcerpt 3 1 2 1 5 = .ok () := by decide

/-! ## ExecutionTimeout -/

theorem timeoutDeadline_total (now limit : Int) (hn : 0 ≤ now ∧ now ≤ 4611686018427387903) (hl : 0 ≤ limit) :
    timeoutDeadline now limit ≠ .panic := by
  unfold timeoutDeadline
  split
  · simp
  · rw [ckI64_ok (by arith)]; simp

/-- before commit 2bba370 a host setting of `Duration::MAX` (not a script input) overflowed -/
theorem timeoutDeadlineUnchecked_panic_witness :
    timeoutDeadlineUnchecked 100000 18446744073709551615 = .panic := by decide

example : timeoutDeadline 100000 18446744073709551615 = .ok 4295067295 := by decide

/-- the instruction counter is only incremented below the interval -/
theorem timeoutTick_total (since interval : Int) (hs : 0 ≤ since) (hi : inUsize interval) :
    timeoutTick since interval ≠ .panic := by
  unfold timeoutTick
  split
  · rw [ckUsize_ok (by arith)]; simp [Res.map']
  · simp

/-! ## next_register and host-started operations (findings F-C06-20 / F-C06-21, fixed by b752efa) -/

/-- before b752efa: a unary operation started with 255 registers in use, a binary one with 254 -/
theorem hostOp_unguarded_panic_witness : hostOp false 255 1 = .panic ∧ hostOp false 254 2 = .panic := by decide

/-- **current code**: with the headroom guard no host-started operation that needs up to 7 operand
registers can overflow the `u8` id, whatever the frame's fill level … -/
theorem hostOp_total (next extra : Int) (hn : 0 ≤ next) (he : 0 ≤ extra ∧ extra ≤ 7) :
    hostOp true next extra ≠ .panic := by
  unfold hostOp nextRegister
  simp only [ite_true]
  split
  · simp
  · simp only [bind_ok]; rw [ckU8_ok (by arith)]; simp

/-- … and it is refused (a runtime error) exactly when fewer than 8 ids are left -/
theorem hostOp_err_iff (next extra : Int) (hn : 0 ≤ next) (he : 0 ≤ extra ∧ extra ≤ 7) :
    hostOp true next extra = .err ↔ next + 8 > 255 := by
  unfold hostOp nextRegister
  simp only [ite_true]
  constructor
  · intro h
    split at h
    · assumption
    · simp only [bind_ok] at h; rw [ckU8_ok (by arith)] at h; simp at h
  · intro h; simp [h]

example : hostOp true 247 2 = .ok 247 := by decide
example : hostOp true 248 1 = .err := by decide

/-! ## padding to a minimum width (run_string_push) -/

/-- **current code**: the guard and the subtraction use the same (grapheme) length, so the fill count
cannot underflow — for every rendered value, width and alignment; the two sides add up to the fill -/
theorem padFill_total (graphemes bytes minWidth : Int) (a : Align)
    (hg : 0 ≤ graphemes) (hw : 0 ≤ minWidth ∧ minWidth ≤ U32_MAX) :
    ∃ l r, padFill false graphemes bytes minWidth a = .ok (l, r) ∧ 0 ≤ l ∧ 0 ≤ r ∧
      graphemes + l + r = max graphemes minWidth := by
  unfold padFill
  by_cases h : graphemes < minWidth
  · simp only [h, ite_true, Bool.false_eq_true, ite_false]
    rw [ckUsize_ok (by arith)]; simp only [bind_ok]
    cases a with
    | default n => cases n <;> exact ⟨_, _, rfl, by omega, by omega, by omega⟩
    | left => exact ⟨_, _, rfl, by omega, by omega, by omega⟩
    | right => exact ⟨_, _, rfl, by omega, by omega, by omega⟩
    | center =>
      simp only
      rw [ckUsize_ok (by arith)]; simp only [bind_ok]
      exact ⟨_, _, rfl, by omega, by omega, by omega⟩
  · simp only [h, ite_false]
    exact ⟨0, 0, rfl, by omega, by omega, by omega⟩

/-- the seeded variant (fill count from the byte length) underflows exactly in the window
`graphemes < width < bytes`: `'{"ééé":4}'` -/
theorem padFill_byteLen_panic_witness : padFill true 3 6 4 .left = .panic := by decide

theorem padFill_byteLen_panic_iff (graphemes bytes minWidth : Int) (a : Align)
    (hb : graphemes ≤ bytes) (hw : minWidth ≤ U32_MAX) (hg : 0 ≤ graphemes) :
    padFill true graphemes bytes minWidth a = .panic ↔ (graphemes < minWidth ∧ minWidth < bytes) := by
  unfold padFill
  by_cases h : graphemes < minWidth
  · simp only [h, ite_true, true_and]
    by_cases h2 : minWidth < bytes
    · have : ckUsize (minWidth - bytes) = .panic := by unfold ckUsize; rw [if_neg (by arith)]
      simp [this, h2]
    · rw [ckUsize_ok (by arith)]; simp only [bind_ok, h2, iff_false]
      cases a with
      | default n => cases n <;> simp
      | left => simp
      | right => simp
      | center => simp only; rw [ckUsize_ok (by arith)]; simp
  · simp [h]

example : padFill false 3 6 7 .center = .ok (2, 2) := by decide

/-! ## unpack_packed_arguments -/

/-- one packed argument never overflows the u8 count when the limit is taken from the current
count, and the count stays `≤ 253` -/
theorem unpackOne_total (argCount len : Int) (hc : 1 ≤ argCount ∧ argCount ≤ 254) (hl : 0 ≤ len) :
    unpackOne none argCount len ≠ .panic ∧
      ∀ c, unpackOne none argCount len = .ok c → 0 ≤ c ∧ c ≤ 253 ∧ c = argCount - 1 + len := by
  unfold unpackOne
  simp only
  rw [ckU8_ok (by arith)]; simp only [bind_ok]
  rw [ckU8_ok (by arith)]; simp only [bind_ok]
  by_cases h : len > 255 - argCount - 1
  · simp [h]
  · simp only [h, ite_false]
    rw [ckU8_ok (by arith)]; simp only [bind_ok]
    have hcast : castU8 len = len := by unfold castU8; omega
    rw [hcast, ckU8_ok (by arith)]
    exact ⟨by simp, fun c hc' => by cases hc'; omega⟩

/-- **current code**: any number of packed arguments of any lengths (empty ones included) — no
panic. The count starts `≤ 254` (the packed-argument index registers follow the arguments) and
counts every packed argument itself, so it is at least the number of arguments still to unpack. -/
theorem unpackArgsFrom_total (lens : List Int) (hl : ∀ l ∈ lens, 0 ≤ l) (argCount : Int)
    (hc : lens.length ≤ argCount ∧ argCount ≤ 254) : unpackArgsFrom none argCount lens ≠ .panic := by
  induction lens generalizing argCount with
  | nil => simp [unpackArgsFrom]
  | cons len rest ih =>
    unfold unpackArgsFrom
    have hlen := hl len (by simp)
    have hcl : ((len :: rest).length : Int) = rest.length + 1 := by simp
    have h1 := unpackOne_total argCount len ⟨by omega, hc.2⟩ hlen
    cases hu : unpackOne none argCount len with
    | panic => exact absurd hu h1.1
    | err => simp
    | ok c =>
      simp only [bind_ok]
      have hb := h1.2 c hu
      exact ih (fun l hl' => hl l (by simp [hl'])) c ⟨by omega, by omega⟩

theorem unpackArgs_total (lens : List Int) (hl : ∀ l ∈ lens, 0 ≤ l) (argCount : Int)
    (hc : lens.length ≤ argCount ∧ argCount ≤ 254) : unpackArgs false argCount lens ≠ .panic := by
  unfold unpackArgs
  simpa using unpackArgsFrom_total lens hl argCount hc

example : unpackArgs false 2 [0, 0] = .ok 0 := by decide

/-- the seeded variant (limit computed once): two arguments that fit one by one overflow together —
`f (0..200)..., (0..200)...` -/
theorem unpackArgs_stale_panic_witness : unpackArgs true 2 [200, 200] = .panic := by decide
example : unpackArgs false 2 [200, 200] = .err := by decide
example : unpackArgs false 2 [100, 100] = .ok 200 := by decide

/-! ## compiler Frame -/

/-- 248 locals + 12 captures (finding F-C05-3 / F-C06-15) -/
theorem frameNew_panic_witness : frameNew 248 12 0 = .panic := by decide

theorem frameNew_total (l c p : Int) (hl : 0 ≤ l) (hc : 0 ≤ c) (hp : 0 ≤ p) (hsum : 1 + l + c + p ≤ 255) :
    frameNew l c p = .ok (1 + l + c + p) := by
  unfold frameNew
  have h1 : castU8 c = c := by unfold castU8; omega
  have h2 : castU8 p = p := by unfold castU8; omega
  rw [h1, h2]
  rw [ckU8_ok (by arith)]; simp only [bind_ok]
  rw [ckU8_ok (by arith)]; simp only [bind_ok]
  rw [ckU8_ok (by arith)]

/-- the allocator's invariant -/
def FrameInv (f : Frame) : Prop :=
  0 ≤ f.base ∧ 0 ≤ f.count ∧ f.count ≤ f.used ∧ f.base + f.used ≤ 255

theorem pushRegister_inv (f : Frame) (h : FrameInv f) :
    ∃ r f', pushRegister f = .ok (r, f') ∧ FrameInv f' := by
  obtain ⟨h0, h1, h2, h3⟩ := h
  unfold pushRegister
  rw [ckU8_ok (by arith)]; simp only [bind_ok]
  split
  · exact ⟨none, f, rfl, ⟨h0, h1, h2, h3⟩⟩
  · rw [ckU8_ok (by arith)]; simp only [bind_ok]
    refine ⟨_, _, rfl, ?_⟩
    unfold FrameInv; simp only
    omega

theorem popRegister_inv (f : Frame) (h : FrameInv f) :
    ∃ r f', popRegister f = .ok (r, f') ∧ FrameInv f' := by
  obtain ⟨h0, h1, h2, h3⟩ := h
  unfold popRegister
  split
  · exact ⟨none, f, rfl, ⟨h0, h1, h2, h3⟩⟩
  · split
    · split
      · exact ⟨_, _, rfl, ⟨h0, h1, h2, h3⟩⟩
      · rw [ckU8_ok (by arith)]; simp only [bind_ok]
        refine ⟨_, _, rfl, ?_⟩
        unfold FrameInv; simp only; omega
    · exact ⟨_, _, rfl, ⟨h0, h1, h2, h3⟩⟩

/-- **no `u8` overflow in the register allocator**: from any frame satisfying the invariant (in
particular a fresh one with `base ≤ 255`), no sequence of `push_register` / `pop_register` panics,
and `next_temporary_register`, `available_registers_count`, `registers_used` stay computable -/
theorem frameRun_total (ops : List FrameOp) (f : Frame) (h : FrameInv f) :
    ∃ f', frameRun f ops = .ok f' ∧ FrameInv f' := by
  induction ops generalizing f with
  | nil => exact ⟨f, rfl, h⟩
  | cons op ops ih =>
    unfold frameRun frameStep
    cases op with
    | push =>
      obtain ⟨r, f', hok, hinv⟩ := pushRegister_inv f h
      simp only [hok, Res.map', bind_ok]
      exact ih f' hinv
    | pop =>
      obtain ⟨r, f', hok, hinv⟩ := popRegister_inv f h
      simp only [hok, Res.map', bind_ok]
      exact ih f' hinv

theorem frame_queries_total (f : Frame) (h : FrameInv f) :
    frameNextTemp f ≠ .panic ∧ frameAvailable f ≠ .panic ∧ frameRegistersUsed f ≠ .panic := by
  obtain ⟨h0, h1, h2, h3⟩ := h
  unfold frameAvailable frameNextTemp frameRegistersUsed
  rw [ckU8_ok (by arith)]; simp only [bind_ok]
  rw [ckU8_ok (by arith), ckU8_ok (by arith)]; simp

example : FrameInv ⟨250, 0, 0, []⟩ := by unfold FrameInv; simp

/-- `peek_register(n)` with `n ≥ len` underflows (`len - n - 1`) … -/
theorem peekRegister_panic_witness : peekRegister 0 0 = .panic ∧ peekRegister 2 5 = .panic := by decide

/-- … and is safe for the compiler's only caller (`peek_register(elements.len() - 1)` directly after
pushing `elements.len() ≥ 1` registers): `n < len` -/
theorem peekRegister_total (len n : Int) (hl : inLen len) (hn : 0 ≤ n) (hg : n < len) :
    peekRegister len n = .ok (some (len - n - 1)) := by
  unfold peekRegister
  rw [ckUsize_ok (by arith)]; simp only [bind_ok]
  rw [ckUsize_ok (by arith)]; simp only [bind_ok]
  have : len - n - 1 < len := by omega
  simp [this]

/-! ## the kernels after the proposed repairs (`Fx`, requests/C06-fix-*.diff)

With no repair the generalised kernels are the kernels above (so every theorem above speaks about
what the driver runs); with the repair they are total. -/

theorem asBoundedRangeG_none (r : KRange) : asBoundedRangeG Fx.none r = asBoundedRange r := rfl
theorem rangeSizeG_none (r : KRange) : rangeSizeG Fx.none r = rangeSize r := rfl
theorem rangeContainsG_none (r : KRange) (n : Int) : rangeContainsG Fx.none r n = rangeContains r n := rfl
theorem rangeIndicesG_none (r : KRange) (m : Int) : rangeIndicesG Fx.none r m = rangeIndices r m := rfl
theorem rangeIntersectionG_none (a b : KRange) : rangeIntersectionG Fx.none a b = rangeIntersection a b := rfl
theorem runIndexSeqRangeG_none (len : Int) (r : KRange) : runIndexSeqRangeG Fx.none len r = runIndexSeqRange len r := rfl
theorem runIndexRangeNumG_none (r : KRange) (n : NumView) : runIndexRangeNumG Fx.none r n = runIndexRangeNum r n := rfl
theorem indexAssignListRangeG_none (len : Int) (r : KRange) :
    indexAssignListRangeG Fx.none len r = indexAssignListRange len r := rfl
theorem runTempIndexRangeG_none (r : KRange) (i : Int) : runTempIndexRangeG Fx.none r i = runTempIndexRange r i := by
  unfold runTempIndexRangeG runTempIndexRange
  simp only [Fx.none, Bool.false_eq_true, ite_false]
  rfl

theorem sizeHintG_none (c : Cursor) : sizeHintG Fx.none c = sizeHint c := rfl
theorem absIntG_none (a : Int) : absIntG Fx.none a = absInt a := rfl
theorem rangeExpandedG_none (s e n : Int) : rangeExpandedG Fx.none s e n = rangeExpanded s e n := rfl
theorem runRemainderAssignG_none (a b : Int) :
    runRemainderAssignG Fx.none a b = (runRemainderAssign a b).map' some := by
  unfold runRemainderAssignG runRemainderAssign; simp [Fx.none]
theorem shiftLeftG_none (a : Int) (b : NumView) : shiftLeftG Fx.none a b = shiftLeft a b := by
  unfold shiftLeftG shiftLeft; simp [Fx.none]
theorem shiftRightG_none (a : Int) (b : NumView) : shiftRightG Fx.none a b = shiftRight a b := by
  unfold shiftRightG shiftRight; simp [Fx.none]

/-- fix-5: with the saturating `+ 1`, `as_bounded_range` is total for every range -/
theorem asBoundedRange_fixed_total (fx : Fx) (hf : fx.range = true) (r : KRange) :
    ∃ s e, asBoundedRangeG fx r = .ok (s, e) ∧ s ≤ e := by
  unfold asBoundedRangeG
  obtain ⟨s, e, incl⟩ := r.triple
  simp only [hf, ite_true]
  cases incl
  · exact ⟨s, max e s, by simp, by omega⟩
  · exact ⟨s, max (min (e + 1) I64_MAX) s, by simp, by omega⟩

/-- fix-5: … and so are `size` (with the wrapping subtraction), `contains`, `intersection` -/
theorem rangeSize_fixed_total (fx : Fx) (hf : fx.range = true) (hs : fx.size = true) (r : KRange) :
    rangeSizeG fx r ≠ .panic := by
  obtain ⟨s, e, hok, _⟩ := asBoundedRange_fixed_total fx hf r
  unfold rangeSizeG; split
  · rw [hok]; simp [hs]
  · simp

theorem rangeContains_fixed_total (fx : Fx) (hf : fx.range = true) (r : KRange) (n : Int) :
    rangeContainsG fx r n ≠ .panic := by
  obtain ⟨s, e, hok, _⟩ := asBoundedRange_fixed_total fx hf r
  unfold rangeContainsG; rw [hok]; simp

/-- fix-5: the range arm of `run_temp_index` is total as well -/
theorem runTempIndexRange_fixed_total (fx : Fx) (hf : fx.range = true) (r : KRange) (index : Int) :
    runTempIndexRangeG fx r index ≠ .panic := by
  unfold runTempIndexRangeG
  simp only [hf, ite_true]
  split
  · cases r.stop with
    | none => simp
    | some p =>
      obtain ⟨e, incl⟩ := p
      simp only
      cases incl <;> simp only [Bool.false_eq_true, ite_false, ite_true, bind_ok]
      · cases hc : rangeContainsG fx r (wrap64 (e + index)) with
        | panic => exact absurd hc (rangeContains_fixed_total fx hf r _)
        | err => simp
        | ok c => simp
      · cases hc : rangeContainsG fx r (wrap64 (min (e + 1) I64_MAX + index)) with
        | panic => exact absurd hc (rangeContains_fixed_total fx hf r _)
        | err => simp
        | ok c => simp
  · cases r.start with
    | none => simp
    | some s =>
      simp only [bind_ok]
      cases hc : rangeContainsG fx r (wrap64 (s + index)) with
      | panic => exact absurd hc (rangeContains_fixed_total fx hf r _)
      | err => simp
      | ok c => simp
theorem rangeIntersection_fixed_total (fx : Fx) (hf : fx.range = true) (a b : KRange) :
    rangeIntersectionG fx a b ≠ .panic := by
  obtain ⟨s1, e1, hok1, _⟩ := asBoundedRange_fixed_total fx hf a
  obtain ⟨s2, e2, hok2, _⟩ := asBoundedRange_fixed_total fx hf b
  unfold rangeIntersectionG; rw [hok1, hok2]; simp only [bind_ok]
  split <;> simp

/-- fix-5: `indices` yields a valid slice range for every range and length, hence indexing and
index-assigning a list / tuple / string with any range cannot panic -/
theorem rangeIndices_fixed_total (fx : Fx) (hf : fx.range = true) (r : KRange) (m : Int) (hm : inLen m) :
    ∃ a b, rangeIndicesG fx r m = .ok (a, b) ∧ 0 ≤ a ∧ a ≤ b ∧ b ≤ m := by
  obtain ⟨s, e, hok, hle⟩ := asBoundedRange_fixed_total fx hf r
  unfold rangeIndicesG; rw [hok]; simp only [bind_ok]
  have hc : castI64 m = m := by unfold castI64; split <;> arith
  rw [hc]
  unfold clamp
  have h0 : (0 : Int) ≤ m := by arith
  simp only [h0, ite_true, bind_ok]
  have h1 : max 0 (min s m) ≤ m := by omega
  simp only [h1, ite_true, bind_ok]
  exact ⟨_, _, rfl, by omega, by omega, by omega⟩

theorem runIndexSeqRange_fixed_total (fx : Fx) (hf : fx.range = true) (len : Int) (hl : inLen len) (r : KRange) :
    runIndexSeqRangeG fx len r ≠ .panic := by
  obtain ⟨a, b, hok, h0, hab, hb⟩ := rangeIndices_fixed_total fx hf r len hl
  unfold runIndexSeqRangeG; rw [hok]; simp [sliceRange, h0, hab, hb]

theorem indexAssignListRange_fixed_total (fx : Fx) (hf : fx.range = true) (len : Int) (hl : inLen len) (r : KRange) :
    indexAssignListRangeG fx len r ≠ .panic := by
  obtain ⟨a, b, hok, h0, hab, hb⟩ := rangeIndices_fixed_total fx hf r len hl
  unfold indexAssignListRangeG; rw [hok]; simp only [bind_ok]
  split
  · unfold sliceIndex
    have : 0 ≤ b - 1 ∧ b - 1 < len := by omega
    rw [if_pos this]; simp
  · simp

/-- fix-5 + fix-11: indexing any range with any number -/
theorem runIndexRangeNum_fixed_total (fx : Fx) (hf : fx.range = true) (hs : fx.size = true) (ho : fx.openIndex = true)
    (r : KRange) (n : NumView) : runIndexRangeNumG fx r n ≠ .panic := by
  unfold runIndexRangeNumG
  cases r.start with
  | none => simp
  | some s =>
    simp only
    cases hsz : rangeSizeG fx r with
    | panic => exact absurd hsz (rangeSize_fixed_total fx hf hs r)
    | err => simp
    | ok sz =>
      simp only [bind_ok]
      cases hv : validateIndex n sz with
      | panic => exact absurd hv (validateIndex_total n sz)
      | err => simp
      | ok i => simp [ho]

/-- the range arm of `run_slice` (commit 0ead920) subtracts and adds unchecked; today the pattern's
size test panics first (F-C06-7), after fix-5 this arithmetic must wrap as well -/
theorem runSliceRange_panic_witness :
    runSliceRangeG Fx.none ⟨some (-9223372036854775808), some (9223372036854775807, false)⟩ 1 false = .panic := by
  decide

theorem runSliceRange_fixed_total (fx : Fx) (hf : fx.range = true) (r : KRange) (h : KRange.wf r)
    (index : Int) (hi : inI8 index) (sliceTo : Bool) : runSliceRangeG fx r index sliceTo ≠ .panic := by
  obtain ⟨s, e, hok, hle⟩ := asBoundedRange_fixed_total fx hf r
  unfold runSliceRangeG; rw [hok]; simp only [hf, ite_true, bind_ok]
  -- the bounds of a well-formed range are i64 values, so the size fits a usize
  have hb : inI64 s ∧ e ≤ I64_MAX := by
    have ht := triple_wf r h
    unfold asBoundedRangeG at hok
    generalize r.triple = t at ht hok
    obtain ⟨s0, e0, incl⟩ := t
    simp only [hf, ite_true] at hok ht
    cases incl
    · simp at hok; obtain ⟨h1, h2⟩ := hok; subst h1; subst h2; exact ⟨ht.1, by arith⟩
    · simp at hok; obtain ⟨h1, h2⟩ := hok; subst h1; subst h2; exact ⟨ht.1, by arith⟩
  obtain ⟨i0, hi0, _⟩ := signedIndexToUnsigned_total index (e - s) hi (by arith)
  rw [hi0]; simp

example : runSliceRangeG Fx.none ⟨some 1, some (5, false)⟩ 1 false = .ok (2, 5) := by decide

/-- fix-1: `%=` never panics -/
theorem runRemainderAssign_fixed_total (fx : Fx) (hf : fx.rem = true) (a b : Int) :
    runRemainderAssignG fx a b ≠ .panic := by
  unfold runRemainderAssignG
  by_cases hb : b = 0
  · simp [hf, hb]
  · simp only [hb, and_false, ite_false]
    unfold wrappingRem
    simp only [hb, ite_false]
    by_cases h1 : b = -1 <;> simp [h1, Res.map']

/-- fix-2: the saturating size hint never panics, in any state -/
theorem sizeHint_fixed_total (fx : Fx) (hf : fx.hint = true) (c : Cursor) : sizeHintG fx c ≠ .panic := by
  unfold sizeHintG; simp [hf]

/-- fix-6: shifts never panic (amounts `>= 64` are errors) -/
theorem shiftLeft_fixed_total (fx : Fx) (hf : fx.shift = true) (a : Int) (b : NumView) :
    shiftLeftG fx a b ≠ .panic := by
  unfold shiftLeftG
  split
  · rename_i h; have := h.2 hf; simp [this]
  · simp
theorem shiftRight_fixed_total (fx : Fx) (hf : fx.shift = true) (a : Int) (b : NumView) :
    shiftRightG fx a b ≠ .panic := by
  unfold shiftRightG
  split
  · rename_i h; have := h.2 hf; simp [this]
  · simp

/-- fix-9, fix-10 -/
theorem absInt_fixed_total (fx : Fx) (hf : fx.abs = true) (a : Int) : absIntG fx a ≠ .panic := by
  unfold absIntG; simp [hf]
theorem rangeExpanded_fixed_total (fx : Fx) (hf : fx.expanded = true) (s e n : Int) :
    rangeExpandedG fx s e n ≠ .panic := by
  unfold rangeExpandedG; simp [hf]

example : asBoundedRangeG Fx.all ⟨some 0, some (9223372036854775807, true)⟩ = .ok (0, 9223372036854775807) := by decide
example : runRemainderAssignG Fx.all 10 0 = .ok none := by decide

end KotoVerif.C06
