/-
C09 — columns and indent: property theorems about `Model/Lexer.lean` that complete
`Props/C09.lean` ("columns restart at zero after each line break, and the indentation reported for a
token is the leading whitespace of its line").

Vocabulary (defined in `Lemmas/C09ColsBasic.lean`, `C09ColsStep.lean`, `C09ColsInv.lean`,
`C09ColsIndent.lean`, all specification-level):
* `lastLine pre` — the characters after the last line feed of `pre`; `colAt pre` — their summed
  display width; `lineStartByte pre` — the byte offset at which that last line starts;
* `WidthOk src` — table assumption: every printable ASCII character (0x20..0x7E) has display width 1
  (true of `unicode_width`; nothing is assumed about tab, CR, LF or non-ASCII widths);
* `tokClean tok text` / `lexedClean src l` — the token-local exclusion: an `Id` token whose FIRST
  character has width ≠ 1, or a `Whitespace` token containing a character of width ≠ 1 (a tab), is
  not clean.  These are the two scanners that do not count display widths
  (`consume_id_or_keyword`: `char_count = 1 + …`; `consume_whitespace`: `consume_and_count`);
* `lineIndent src ls` — number of leading spaces/tabs of the line starting at byte `ls`.
-/
import KotoVerif.Props.C09
import KotoVerif.Lemmas.C09ColsIndent

namespace KotoVerif.C09
open KotoVerif.Lexer

/-! ## specification vocabulary -/

/-- `col` is the display column of byte offset `n` of `src` — unless a token that is not clean lies
between the start of `n`'s line and `n` (the explicit, line-local exclusion) -/
def ColExactUnlessSkewed (src : List Ch) (n col : Nat) : Prop :=
  ∀ pre, prefixAt n src = some pre →
    (∀ l' ∈ lexAll src, l'.endByte ≤ n → lineStartByte pre ≤ l'.startByte → lexedClean src l' = true) →
    col = colAt pre

/-- the full statement of exact columns for one source: every non-error token's start and end
column is the display width of the text since the last line feed -/
def ColsExact (src : List Ch) : Prop :=
  ∀ l ∈ lexAll src, l.tok ≠ .error →
    (∀ pre, prefixAt l.startByte src = some pre → l.span.start.col = colAt pre) ∧
    (∀ pre, prefixAt l.endByte src = some pre → l.span.stop.col = colAt pre)

/-- coarse source-level exclusion: every character that can start an identifier, and every tab, has
display width 1 -/
def NarrowOk (src : List Ch) : Prop :=
  ∀ c ∈ src, (c.idStart = true ∨ c.cp = cpTab) → c.width = 1

/-- executable form of "column `col` is exact at byte offset `n`" (for the evaluated examples) -/
def colExactAt (src : List Ch) (n col : Nat) : Bool :=
  match prefixAt n src with
  | some pre => col == colAt pre
  | none => false

/-- the line of the point after `pre` was begun by the start of input or by a `NewLine` token (and
not by a line break inside a multi-line string / comment / format-options token) -/
def LineBegunByNewLineToken (src pre : List Ch) : Prop :=
  lineStartByte pre = 0 ∨ ∃ l' ∈ lexAll src, l'.tok = .newLine ∧ l'.endByte = lineStartByte pre

/-! ## columns -/

/-- **Exact columns (partial, line-local exclusion).** For every non-error token, the reported start
and end columns equal the display width of the text between the last line break and that point,
provided no unclean token (`Id` starting with a character of width ≠ 1, `Whitespace` containing a
character of width ≠ 1) lies earlier on the same line.  Line breaks inside strings, comments and
format options are all accounted for. -/
theorem cols_exact_partial (src : List Ch) (ht : TableOk src) (hw : WidthOk src) :
    ∀ l ∈ lexAll src, l.tok ≠ .error →
      ColExactUnlessSkewed src l.startByte l.span.start.col ∧
      ColExactUnlessSkewed src l.endByte l.span.stop.col := by
  intro l hl hne
  obtain ⟨_, _, h3, h4⟩ := run_cols src ht hw _ _ 0 (invP_init src) l hl hne
  exact ⟨fun pre hp hall => h3 pre hp (Nat.zero_le _) hall,
         fun pre hp hall => h4 pre hp (Nat.zero_le _) hall⟩

/-- **Exact columns when no token is excluded.** If every token of the source is clean, all columns
are exact. -/
theorem cols_exact_of_clean (src : List Ch) (ht : TableOk src) (hw : WidthOk src)
    (hclean : ∀ l' ∈ lexAll src, lexedClean src l' = true) : ColsExact src := by
  intro l hl hne
  obtain ⟨h1, h2⟩ := cols_exact_partial src ht hw l hl hne
  exact ⟨fun pre hp => h1 pre hp (fun l' hl' _ _ => hclean l' hl'),
         fun pre hp => h2 pre hp (fun l' hl' _ _ => hclean l' hl')⟩

/-- **Exact columns under the source-level exclusion.** If every identifier-start character and
every tab of the source has width 1, all columns are exact. -/
theorem cols_exact_of_narrow (src : List Ch) (ht : TableOk src) (hw : WidthOk src) (hn : NarrowOk src) :
    ColsExact src := by
  exact cols_exact_of_clean src ht hw
    (run_clean src ht hw hn (3 * byteLen src + 3) {} 0 (invP_init src))

/-- **Columns restart at zero after each line break** — every line break, also those inside
strings, comments and format options; no exclusion.  A token that starts (ends) immediately after
a line feed character starts (ends) at column 0. -/
theorem column_zero_after_line_break (src : List Ch) (ht : TableOk src) (hw : WidthOk src) :
    ∀ l ∈ lexAll src, l.tok ≠ .error →
      (∀ pre c, prefixAt l.startByte src = some (pre ++ [c]) → c.cp = cpNL → l.span.start.col = 0) ∧
      (∀ pre c, prefixAt l.endByte src = some (pre ++ [c]) → c.cp = cpNL → l.span.stop.col = 0) := by
  intro l hl hne
  obtain ⟨h1, h2⟩ := cols_exact_partial src ht hw l hl hne
  -- a token lying entirely at the byte offset of the line start is empty (or the error token)
  have key : ∀ n pre c, prefixAt n src = some (pre ++ [c]) → c.cp = cpNL →
      ∀ l' ∈ lexAll src, l'.endByte ≤ n → lineStartByte (pre ++ [c]) ≤ l'.startByte →
        lexedClean src l' = true := by
    intro n pre c hp hc l' hl' hle hge
    by_cases he : l'.tok = .error
    · exact lexedClean_error src l' he
    · obtain ⟨_, a2, _, _⟩ := run_cols src ht hw _ _ 0 (invP_init src) l' hl' he
      rw [lineStart_ends_nl pre c hc, (prefixAt_spec _ _ _ hp).2.1] at hge
      exact lexedClean_empty src l' (by omega)
  have hz : ∀ pre c, c.cp = cpNL → colAt (pre ++ [c]) = 0 := by
    intro pre c hc
    rw [colAt, lastLine_of_ends_nl pre c hc]; rfl
  refine ⟨fun pre c hp hc => ?_, fun pre c hp hc => ?_⟩
  · rw [h1 _ hp (key _ pre c hp hc), hz pre c hc]
  · rw [h2 _ hp (key _ pre c hp hc), hz pre c hc]

/-! ### the full statement is false: two scanners do not count display widths -/

/-- U+65E5 `日`: display width 2, XID_Start, 3 bytes -/
def wideCh : Ch := { cp := 0x65E5, width := 2, idStart := true, idCont := true, g1 := 3, g2 := 1 }
/-- tab: a control character, `UnicodeWidthChar::width` is `None`, so width 0 -/
def tabCh : Ch := { cp := 9, width := 0, idStart := false, idCont := false, g1 := 1, g2 := 1 }
def nlCh : Ch := { cp := 10, width := 0, idStart := false, idCont := false, g1 := 1, g2 := 1 }

/-- `日 x` -/
def witnessWideId : List Ch := [wideCh, ascii 32 false false, ascii 120 true true]
/-- `x日 x` — the same wide character, not in first position -/
def witnessWideId2 : List Ch := [ascii 120 true true, wideCh, ascii 32 false false, ascii 120 true true]
/-- `⇥x` -/
def witnessTab : List Ch := [tabCh, ascii 120 true true]
/-- `#-⇥-#x` -/
def witnessTabComment : List Ch :=
  [ascii 35 false false, ascii 45 false false, tabCh, ascii 45 false false, ascii 35 false false,
   ascii 120 true true]

/-- **Exact columns fail (witnesses).**
(A) `consume_id_or_keyword` counts the first identifier character as ONE column whatever its width:
on `日 x` the identifier ends at column 1 (display width 2) and `x` starts at column 2 (display 3);
on `x日 x` the same character, not first, is counted with its width 2 (identifier ends at column 3).
(B) `consume_whitespace` counts a tab as one column whereas comments and strings count it with its
display width 0: on `⇥x` the `x` starts at column 1 (display 0), while on `#-⇥-#x` the comment
ends at column 4 — so no choice of tab width makes both exact. -/
theorem cols_not_exact_witness :
    (TableOk witnessWideId ∧ WidthOk witnessWideId ∧ ¬ ColsExact witnessWideId ∧
      (⟨.id, 0, 3, ⟨⟨0, 0⟩, ⟨0, 1⟩⟩, 0, false⟩ : Lexed) ∈ lexAll witnessWideId ∧
      (⟨.id, 4, 5, ⟨⟨0, 2⟩, ⟨0, 3⟩⟩, 0, false⟩ : Lexed) ∈ lexAll witnessWideId ∧
      (prefixAt 4 witnessWideId).map colAt = some 3 ∧
      (⟨.id, 0, 4, ⟨⟨0, 0⟩, ⟨0, 3⟩⟩, 0, false⟩ : Lexed) ∈ lexAll witnessWideId2) ∧
    (TableOk witnessTab ∧ WidthOk witnessTab ∧ ¬ ColsExact witnessTab ∧
      (⟨.id, 1, 2, ⟨⟨0, 1⟩, ⟨0, 2⟩⟩, 1, false⟩ : Lexed) ∈ lexAll witnessTab ∧
      (prefixAt 1 witnessTab).map colAt = some 0 ∧
      (⟨.commentMulti, 0, 5, ⟨⟨0, 0⟩, ⟨0, 4⟩⟩, 0, false⟩ : Lexed) ∈ lexAll witnessTabComment) := by
  refine ⟨⟨by unfold TableOk; decide, by unfold WidthOk; decide, ?_, by decide, by decide, by decide, by decide⟩,
          ⟨by unfold TableOk; decide, by unfold WidthOk; decide, ?_, by decide, by decide, by decide⟩⟩
  · intro h
    have := (h ⟨.id, 4, 5, ⟨⟨0, 2⟩, ⟨0, 3⟩⟩, 0, false⟩ (by decide) (by decide)).1
      [wideCh, ascii 32 false false] (by decide)
    revert this; decide
  · intro h
    have := (h ⟨.id, 1, 2, ⟨⟨0, 1⟩, ⟨0, 2⟩⟩, 1, false⟩ (by decide) (by decide)).1
      [tabCh] (by decide)
    revert this; decide

/-! ## indent -/

/-- **Indent (partial).** The indent reported with a non-error token equals the number of leading
spaces/tabs of the line on which the token starts, provided that line was begun by the start of the
input or by a `NewLine` token.  Excluded (F-C09-2): lines begun by a line break inside a multi-line
token — the indent is only recomputed after a `NewLine` token. -/
theorem indent_exact_partial (src : List Ch) (ht : TableOk src) :
    ∀ l ∈ lexAll src, l.tok ≠ .error → ∀ pre, prefixAt l.startByte src = some pre →
      LineBegunByNewLineToken src pre →
      l.indent = lineIndent src (lineStartByte pre) := by
  intro l hl hne pre hp hbeg
  have h0 : prefixAt ({} : St).cur src = some [] := prefixAt_zero src
  obtain ⟨_, _, _, h4⟩ := run_indent src ht _ _ (inv_init false src) [] h0 l hl hne
  apply h4 pre hp
  rcases hbeg with hz | hex
  · left
    refine ⟨Or.inl ⟨fresh_init, rfl⟩, ?_⟩
    rw [hz]; rfl
  · right; exact hex

/-- `'⏎ '`: a string literal spanning two lines; the second line is ` '` -/
def witnessIndent : List Ch := [ascii 39 false false, nlCh, ascii 32 false false, ascii 39 false false]

/-- **Indent fails on a line begun inside a multi-line token (witness, F-C09-2).** On `'⏎ '` the
closing quote (bytes 3..4) starts on the line that begins at byte 2, whose leading whitespace is 1,
but reports indent 0; that line was not begun by a `NewLine` token. -/
theorem indent_not_exact_witness :
    TableOk witnessIndent ∧
    (⟨.stringEnd, 3, 4, ⟨⟨1, 1⟩, ⟨1, 2⟩⟩, 0, false⟩ : Lexed) ∈ lexAll witnessIndent ∧
    (∃ l ∈ lexAll witnessIndent, l.tok ≠ .error ∧ ∃ pre, prefixAt l.startByte witnessIndent = some pre ∧
      l.indent ≠ lineIndent witnessIndent (lineStartByte pre) ∧
      ¬ LineBegunByNewLineToken witnessIndent pre) := by
  refine ⟨by unfold TableOk; decide, by decide, ⟨.stringEnd, 3, 4, ⟨⟨1, 1⟩, ⟨1, 2⟩⟩, 0, false⟩, by decide,
    by decide, [ascii 39 false false, nlCh, ascii 32 false false], by decide, by decide, ?_⟩
  unfold LineBegunByNewLineToken
  decide

/-! ## non-vacuity -/

/-- U+3001 `、`: display width 2, not an identifier character -/
def wideComma : Ch := { cp := 0x3001, width := 2, idStart := false, idCont := false, g1 := 3, g2 := 1 }

/-- ```
x日 = 'a⏎
⇥b' #、c⏎
  y
```
a wide character inside an identifier (not first) and inside a comment, a tab (width 0) inside a
two-line string, a comment, and an indented last line -/
def sampleCols : List Ch :=
  [ascii 120 true true, wideCh, ascii 32 false false, ascii 61 false false, ascii 32 false false,
   ascii 39 false false, ascii 97 true true, nlCh,
   tabCh, ascii 98 true true, ascii 39 false false, ascii 32 false false,
   ascii 35 false false, wideComma, ascii 99 true true, nlCh,
   ascii 32 false false, ascii 32 false false, ascii 121 true true]

/-- executable form of `LineBegunByNewLineToken` -/
def lineBegunB (src pre : List Ch) : Bool :=
  lineStartByte pre == 0 ||
    (lexAll src).any (fun l' => l'.tok == .newLine && l'.endByte == lineStartByte pre)

/-- all hypotheses of `cols_exact_partial` hold on `sampleCols`, no token is excluded (every token
is clean), there are 12 tokens, and the conclusion — evaluated — holds for each of them -/
example : TableOk sampleCols ∧ WidthOk sampleCols ∧
    (lexAll sampleCols).length = 12 ∧
    (lexAll sampleCols).all (fun l => l.tok != .error && lexedClean sampleCols l) = true ∧
    (lexAll sampleCols).all (fun l =>
      colExactAt sampleCols l.startByte l.span.start.col &&
      colExactAt sampleCols l.endByte l.span.stop.col) = true := by
  refine ⟨by unfold TableOk; decide, by unfold WidthOk; decide, by decide, by decide, by decide⟩

/-- the token after the line break inside the string starts at column 0; the closing quote is at
display column 1 (tab 0 + `b` 1); the comment `#、c` spans columns 3..7 -/
example :
    (⟨.stringLiteral, 8, 12, ⟨⟨0, 7⟩, ⟨1, 1⟩⟩, 0, false⟩ : Lexed) ∈ lexAll sampleCols ∧
    (⟨.commentSingle, 14, 19, ⟨⟨1, 3⟩, ⟨1, 7⟩⟩, 0, false⟩ : Lexed) ∈ lexAll sampleCols := by
  constructor <;> decide

/-- `indent_exact_partial` on `sampleCols`: the hypothesis holds for the tokens of lines 0 and 2 (8
of the 12 tokens) and fails for those of line 1 (begun inside the string); where it holds the
reported indent is the line's leading whitespace — `y` reports 2 — and on line 1 (leading
whitespace 1, the tab) the tokens report 0 -/
example :
    ((lexAll sampleCols).filter (fun l =>
      match prefixAt l.startByte sampleCols with
      | some pre => lineBegunB sampleCols pre
      | none => false)).length = 8 ∧
    (lexAll sampleCols).all (fun l =>
      match prefixAt l.startByte sampleCols with
      | some pre => !lineBegunB sampleCols pre ||
          l.indent == lineIndent sampleCols (lineStartByte pre)
      | none => false) = true ∧
    (⟨.id, 22, 23, ⟨⟨2, 2⟩, ⟨2, 3⟩⟩, 2, false⟩ : Lexed) ∈ lexAll sampleCols ∧
    (⟨.stringEnd, 12, 13, ⟨⟨1, 1⟩, ⟨1, 2⟩⟩, 0, false⟩ : Lexed) ∈ lexAll sampleCols := by
  refine ⟨by decide, by decide, by decide, by decide⟩

/-- `NarrowOk` is satisfiable by a source with line breaks inside a string and a comment -/
example : TableOk sampleOk ∧ WidthOk sampleOk ∧ NarrowOk sampleOk := by
  refine ⟨by unfold TableOk; decide, by unfold WidthOk; decide, by unfold NarrowOk; decide⟩

end KotoVerif.C09
