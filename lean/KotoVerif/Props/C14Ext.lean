/-
C14 — extension: further laws of the executable model the driver runs (`pair`, `sortvals`,
`sortpairs`, `mapsort`, and the `OMap` operations behind every history step).

* the four ordering operators and `compare_values` are coherent with each other and with the
  key order of `map.sort()` (`vlt vgt vle vge compareValues numCmp bytesCmp keyCmp`);
* only hashable values can be equal as keys (`keyEq`, `hashable`);
* `insert_full` / `shift_remove` return exactly what a lookup finds, change the length by the
  expected amount, and a lookup after an insert finds the inserted value (`OMap.insert/remove/findIdx`);
* sorting: an ordered input is left alone, sorting is idempotent, `sort_by_key` orders the key column
  exactly as `sort` orders the keys, every sort result is a permutation (`sortBy sortVals sortPairs sortEntries`).
-/
import KotoVerif.Model.Equal
import KotoVerif.Model.Sort
import KotoVerif.Model.Heap
import KotoVerif.Lemmas.C14Heap
import KotoVerif.Lemmas.C14KeyPER
import KotoVerif.Lemmas.C14Map
import KotoVerif.Lemmas.C14Sort
import KotoVerif.Lemmas.C14NumOrder
import KotoVerif.Lemmas.C14KeyOrder

namespace KotoVerif
namespace C14Ext
open Equal Sorting OMap

/-! ### ordering operators -/

/-- `a <= b` is defined exactly when `a > b` is, and is its negation (all values, NaN included) -/
theorem le_is_not_gt (F : FloatOps) (a b : Val) : vle F a b = (vgt F a b).map (!·) := by
  cases a <;> cases b <;> simp [vle, vgt, numLe, numGt, bne]

/-- `a >= b` is defined exactly when `a < b` is, and is its negation -/
theorem ge_is_not_lt (F : FloatOps) (a b : Val) : vge F a b = (vlt F a b).map (!·) := by
  cases a <;> cases b <;> simp [vge, vlt, numGe, numLt, bne]

/-- `compare_values` on two numbers is `KNumber::cmp` -/
theorem compareValues_num (F : FloatOps) (a b : Num) :
    compareValues F (.num a) (.num b) = some (numCmp F a b) := by
  simp only [compareValues, vlt, vgt, numLt, numGt]
  generalize numCmp F a b = o
  cases o <;> rfl

/-- `compare_values` on two strings is the bytewise three-way comparison -/
theorem compareValues_str (F : FloatOps) (a b : List Nat) :
    compareValues F (.str a) (.str b) = some (bytesCmp a b) := by
  simp only [compareValues, vlt, vgt, bytesCmp]
  cases bytesLt a b <;> cases bytesLt b a <;> rfl

/-- wherever the sort comparator of `list.sort` is defined it agrees with the key order of `map.sort()` -/
theorem compareValues_eq_keyCmp (F : FloatOps) (a b : Val) (o : Ordering)
    (h : compareValues F a b = some o) : keyCmp F a b = o := by
  cases a <;> cases b <;> simp [compareValues, vlt] at h
  · rename_i x y
    have := compareValues_num F x y
    simp only [compareValues, vlt] at this
    rw [this] at h
    simp only [keyCmp]
    exact Option.some.inj h
  · rename_i x y
    have := compareValues_str F x y
    simp only [compareValues, vlt] at this
    rw [this] at h
    simp only [keyCmp]
    exact Option.some.inj h

example : compareValues F0 (.str [1]) (.str [2]) = some .lt := by decide

/-- the five ordering observations of a `pair` request are defined together -/
theorem ordering_defined_together (F : FloatOps) (a b : Val) :
    (vgt F a b).isSome = (vlt F a b).isSome ∧ (vle F a b).isSome = (vlt F a b).isSome ∧
    (vge F a b).isSome = (vlt F a b).isSome ∧ (compareValues F a b).isSome = (vlt F a b).isSome := by
  cases a <;> cases b <;>
    first
    | (simp [vlt, vgt, vle, vge, compareValues_num, compareValues_str]; done)
    | simp [vlt, vgt, vle, vge, compareValues]

/-- `a < b` and `a > b` never both hold -/
theorem lt_gt_exclusive (F : FloatOps) (a b : Val) (h : vlt F a b = some true) :
    vgt F a b = some false ∧ compareValues F a b = some .lt := by
  cases a <;> cases b <;> simp [vlt] at h
  · rename_i x y
    simp only [numLt] at h
    have h' : numCmp F x y = .lt := by simpa using h
    simp [vgt, numGt, compareValues, vlt, numLt, h']
  · rename_i x y
    have h2 := bytesLt_asymm x y h
    simp [vgt, compareValues, vlt, h, h2]

example : vlt F0 (.str [1]) (.str [2]) = some true := by decide

/-! ### keys -/

mutual
/-- only hashable values are ever equal as keys -/
theorem keyEq_hashable (F : FloatOps) : ∀ (a b : Val), keyEq F a b = true → hashable a = true ∧ hashable b = true
  | .null, b, h => by cases b <;> simp_all [keyEq, hashable]
  | .bool _, b, h => by cases b <;> simp_all [keyEq, hashable]
  | .num _, b, h => by cases b <;> simp_all [keyEq, hashable]
  | .str _, b, h => by cases b <;> simp_all [keyEq, hashable]
  | .range _ _, b, h => by cases b <;> simp_all [keyEq, hashable]
  | .tuple xs, b, h => by
    cases b <;> simp [keyEq] at h
    rename_i ys
    simpa [hashable] using keyEqList_hashable F xs ys h
  | .list _, b, h => by cases b <;> simp [keyEq] at h
  | .map _, b, h => by cases b <;> simp [keyEq] at h
theorem keyEqList_hashable (F : FloatOps) : ∀ (xs ys : List Val), keyEqList F xs ys = true →
    hashableList xs = true ∧ hashableList ys = true
  | [], ys, h => by cases ys <;> simp_all [keyEqList, hashableList]
  | x :: xs, ys, h => by
    cases ys with
    | nil => simp [keyEqList] at h
    | cons y ys =>
      simp only [keyEqList, Bool.and_eq_true] at h
      have h1 := keyEq_hashable F x y h.1
      have h2 := keyEqList_hashable F xs ys h.2
      simp [hashableList, h1, h2]
end

example : keyEq F0 (.tuple [.null, .str [1]]) (.tuple [.null, .str [1]]) = true := by decide

/-- an unhashable value addresses no entry of any map -/
theorem unhashable_finds_nothing {β : Type} (F : FloatOps) (k : Val) (hk : hashable k = false)
    (es : List (Val × β)) : lookupBy (keyEq F) k es = none ∧ findIdx (keyEq F) k es = none := by
  have hno : ∀ k', keyEq F k k' = false := by
    intro k'
    cases hh : keyEq F k k' with
    | false => rfl
    | true => have := (keyEq_hashable F k k' hh).1; simp [hk] at this
  induction es with
  | nil => simp [lookupBy, findIdx]
  | cons e es ih => obtain ⟨k', v⟩ := e; simp [lookupBy, findIdx, hno, ih]

example : hashable (.list [.null]) = false := by decide

/-! ### the order-preserving map -/

/-- `insert_full` returns the value a lookup would have found -/
theorem insert_returns_lookup {β : Type} (m : Val → Val → Bool) (k : Val) (v : β) (es : List (Val × β)) :
    (OMap.insert m k v es).2 = lookupBy m k es := by
  induction es with
  | nil => simp [OMap.insert, lookupBy]
  | cons e es ih => obtain ⟨k', v'⟩ := e; simp only [OMap.insert, lookupBy]; split <;> simp [ih]

/-- `shift_remove` returns the value a lookup would have found -/
theorem remove_returns_lookup {β : Type} (m : Val → Val → Bool) (k : Val) (es : List (Val × β)) :
    (OMap.remove m k es).2 = lookupBy m k es := by
  induction es with
  | nil => simp [OMap.remove, lookupBy]
  | cons e es ih => obtain ⟨k', v'⟩ := e; simp only [OMap.remove, lookupBy]; split <;> simp [ih]

/-- `get_index_of` finds an index exactly when a lookup finds a value -/
theorem findIdx_isSome_iff_lookup {β : Type} (m : Val → Val → Bool) (k : Val) (es : List (Val × β)) :
    (findIdx m k es).isSome = (lookupBy m k es).isSome := by
  induction es with
  | nil => simp [findIdx, lookupBy]
  | cons e es ih => obtain ⟨k', v'⟩ := e; simp only [findIdx, lookupBy]; split <;> simp [ih]

/-- an insert grows the map by one entry exactly when the key was absent -/
theorem insert_length {β : Type} (m : Val → Val → Bool) (k : Val) (v : β) (es : List (Val × β)) :
    (OMap.insert m k v es).1.length = es.length + (if (lookupBy m k es).isSome then 0 else 1) := by
  induction es with
  | nil => simp [OMap.insert, lookupBy]
  | cons e es ih =>
    obtain ⟨k', v'⟩ := e
    simp only [OMap.insert, lookupBy]
    split
    · simp
    · simp only [List.length_cons, ih]; omega

/-- a remove shrinks the map by one entry exactly when the key was present -/
theorem remove_length {β : Type} (m : Val → Val → Bool) (k : Val) (es : List (Val × β)) :
    (OMap.remove m k es).1.length + (if (lookupBy m k es).isSome then 1 else 0) = es.length := by
  induction es with
  | nil => simp [OMap.remove, lookupBy]
  | cons e es ih =>
    obtain ⟨k', v'⟩ := e
    simp only [OMap.remove, lookupBy]
    split
    · simp
    · simp only [List.length_cons]; omega

/-- read-your-write: after `insert k v` a lookup of `k` finds `v` (any matcher reflexive at `k`) -/
theorem lookup_after_insert {β : Type} (m : Val → Val → Bool) (k : Val) (v : β) (es : List (Val × β))
    (hk : m k k = true) : lookupBy m k (OMap.insert m k v es).1 = some v := by
  induction es with
  | nil => simp [OMap.insert, lookupBy, hk]
  | cons e es ih =>
    obtain ⟨k', v'⟩ := e
    simp only [OMap.insert]
    split
    · rename_i h; simp [lookupBy, h]
    · rename_i h; simp [lookupBy, h, ih]

example : keyEq F0 (.str [1]) (.str [1]) = true := by decide

/-- inserting the same binding twice is the same as inserting it once -/
theorem insert_idempotent {β : Type} (m : Val → Val → Bool) (k : Val) (v : β) (es : List (Val × β))
    (hk : m k k = true) : (OMap.insert m k v (OMap.insert m k v es).1).1 = (OMap.insert m k v es).1 := by
  induction es with
  | nil => simp [OMap.insert, hk]
  | cons e es ih =>
    obtain ⟨k', v'⟩ := e
    simp only [OMap.insert]
    split
    · rename_i h; simp [OMap.insert, h]
    · rename_i h; simp [OMap.insert, h, ih]

/-! ### sorting -/

/-- an ordered input is returned unchanged (no law of the comparator needed) -/
theorem sortBy_of_sorted {α : Type} (lt : α → α → Bool) (xs : List α) (hs : Sorted lt xs) :
    sortBy lt xs = xs := by
  induction xs with
  | nil => rfl
  | cons x xs ih =>
    have hs' := List.pairwise_cons.mp hs
    simp only [sortBy, ih hs'.2]
    cases xs with
    | nil => rfl
    | cons y ys => simp [insertBy, hs'.1 y (by simp)]

/-- sorting twice is sorting once -/
theorem sortBy_idempotent {α : Type} {lt : α → α → Bool} (h : TotalPreorder lt) (xs : List α) :
    sortBy lt (sortBy lt xs) = sortBy lt xs :=
  sortBy_of_sorted lt _ (sortBy_sorted h xs)

example : TotalPreorder bytesLt := ⟨bytesLt_asymm, bytesLe_trans⟩

/-- `sort_by_key` orders the key column exactly as `sort` orders the keys alone, and fails exactly when it does -/
theorem sortPairs_keys {β : Type} (F : FloatOps) (kvs : List (Val × β)) :
    (sortPairs F kvs).map (·.map Prod.fst) = sortVals F (kvs.map Prod.fst) := by
  simp only [sortPairs, sortVals]
  split
  · simp only [Option.map_some]
    rw [map_sortBy (α := Val × β) Prod.fst (valLt F) kvs]
  · rfl

/-- a successful `sort` returns a permutation of its input, of the same length -/
theorem sortVals_perm (F : FloatOps) (xs ys : List Val) (h : sortVals F xs = some ys) :
    ys.Perm xs ∧ ys.length = xs.length := by
  simp only [sortVals] at h
  split at h
  · have := Option.some.inj h
    subst this
    exact ⟨sortBy_perm _ xs, (sortBy_perm _ xs).length_eq⟩
  · cases h

example : (sortVals F0 [.str [2], .str [1]]).isSome = true := by decide

/-- a successful `sort_by_key` returns a permutation of the (key, value) pairs -/
theorem sortPairs_perm {β : Type} (F : FloatOps) (kvs out : List (Val × β)) (h : sortPairs F kvs = some out) :
    out.Perm kvs := by
  simp only [sortPairs] at h
  split at h
  · have := Option.some.inj h
    subst this
    exact sortBy_perm _ kvs
  · cases h

/-- `map.sort()` never loses, duplicates or rebinds an entry, and its key column is the sorted key column -/
theorem sortEntries_perm_keys {β : Type} (F : FloatOps) (es : List (Val × β)) :
    (sortEntries F es).Perm es ∧
    keys (sortEntries F es) = sortBy (fun a b => keyCmp F a b == .lt) (keys es) := by
  refine ⟨sortBy_perm _ es, ?_⟩
  simp only [sortEntries, keys]
  exact map_sortBy (α := Val × β) Prod.fst (fun a b => keyCmp F a b == .lt) es


/-- whether `sort` succeeds does not depend on the order of the input -/
theorem sortable_perm (xs ys : List Val) (hp : xs.Perm ys) : sortable xs = sortable ys := by
  have hl := hp.length_eq
  match xs, ys, hp, hl with
  | [], [], _, _ => rfl
  | [a], [b], hp, _ => rfl
  | a :: b :: t, c :: d :: u, hp, _ =>
    simp only [sortable]
    rw [Bool.eq_iff_iff]
    simp only [Bool.or_eq_true, List.all_eq_true]
    constructor
    · rintro (h | h)
      · exact Or.inl (fun x hx => h x (hp.mem_iff.mpr hx))
      · exact Or.inr (fun x hx => h x (hp.mem_iff.mpr hx))
    · rintro (h | h)
      · exact Or.inl (fun x hx => h x (hp.mem_iff.mp hx))
      · exact Or.inr (fun x hx => h x (hp.mem_iff.mp hx))
  | [], _ :: _, _, hl => simp at hl
  | _ :: _, [], _, hl => simp at hl
  | [_], _ :: _ :: _, _, hl => simp at hl
  | _ :: _ :: _, [_], _, hl => simp at hl

/-- a successfully sorted list can always be sorted again (the comparisons that succeeded still succeed) -/
theorem sortVals_again (F : FloatOps) (xs ys : List Val) (h : sortVals F xs = some ys) :
    (sortVals F ys).isSome = true := by
  have hp := (sortVals_perm F xs ys h).1
  have hs : sortable xs = true := by
    simp only [sortVals] at h
    split at h
    · assumption
    · cases h
  simp [sortVals, sortable_perm ys xs hp, hs]

/-! ### keys ⇄ heap values (`ValueKey::try_from` / `KValue::from(key)`) -/

open Heap in
mutual
/-- a key put into the heap as a value and read back as a key is the same key -/
theorem toVal_ofVal : ∀ (v : Val), hashable v = true → Heap.toVal? (Heap.ofVal v) = some v
  | .null, _ => rfl
  | .bool _, _ => rfl
  | .num _, _ => rfl
  | .str _, _ => rfl
  | .range _ _, _ => rfl
  | .tuple xs, h => by
    simp only [hashable] at h
    simp [Heap.ofVal, Heap.toVal?, toValList_ofValList xs h]
  | .list _, h => by simp [hashable] at h
  | .map _, h => by simp [hashable] at h
theorem toValList_ofValList : ∀ (xs : List Val), hashableList xs = true →
    Heap.toValList? (Heap.ofValList xs) = some xs
  | [], _ => rfl
  | x :: xs, h => by
    simp only [hashableList, Bool.and_eq_true] at h
    simp [Heap.ofValList, Heap.toValList?, toVal_ofVal x h.1, toValList_ofValList xs h.2]
end

example : hashable (.tuple [.str [1], .null]) = true := by decide

mutual
/-- every key extracted from a heap value is hashable, and converts back to exactly that value -/
theorem ofVal_toVal : ∀ (h : Heap.HVal) (v : Val), Heap.toVal? h = some v →
    hashable v = true ∧ Heap.ofVal v = h
  | .null, v, e => by simp [Heap.toVal?] at e; subst e; simp [hashable, Heap.ofVal]
  | .bool _, v, e => by simp [Heap.toVal?] at e; subst e; simp [hashable, Heap.ofVal]
  | .num _, v, e => by simp [Heap.toVal?] at e; subst e; simp [hashable, Heap.ofVal]
  | .str _, v, e => by simp [Heap.toVal?] at e; subst e; simp [hashable, Heap.ofVal]
  | .range _ _, v, e => by simp [Heap.toVal?] at e; subst e; simp [hashable, Heap.ofVal]
  | .tuple xs, v, e => by
    simp only [Heap.toVal?, Option.map_eq_some_iff] at e
    obtain ⟨ys, hy, rfl⟩ := e
    have := ofValList_toValList xs ys hy
    simp [hashable, Heap.ofVal, this]
  | .lref _, v, e => by simp [Heap.toVal?] at e
  | .mref _, v, e => by simp [Heap.toVal?] at e
theorem ofValList_toValList : ∀ (hs : List Heap.HVal) (vs : List Val), Heap.toValList? hs = some vs →
    hashableList vs = true ∧ Heap.ofValList vs = hs
  | [], vs, e => by simp [Heap.toValList?] at e; subst e; simp [hashableList, Heap.ofValList]
  | x :: xs, vs, e => by
    simp only [Heap.toValList?] at e
    split at e
    · cases e
    · rename_i y hy
      split at e
      · cases e
      · rename_i ys hys
        have e' := Option.some.inj e
        subst e'
        have h1 := ofVal_toVal x y hy
        have h2 := ofValList_toValList xs ys hys
        simp [hashableList, Heap.ofValList, h1, h2]
end

example : (Heap.toVal? (.tuple [.str [1], .null])).isSome = true := by decide

/-- a value that contains a list or a map handle is not a key, and a key never yields one -/
theorem handles_are_not_keys (h : Nat) :
    Heap.toKey? (.lref h) = none ∧ Heap.toKey? (.mref h) = none ∧
    ∀ v : Val, Heap.ofVal v ≠ .lref h ∧ Heap.ofVal v ≠ .mref h := by
  refine ⟨rfl, rfl, fun v => ?_⟩
  cases v <;> simp [Heap.ofVal]


/-- frame law of the map: an insert under key `k` does not change what any non-equal key finds -/
theorem lookup_insert_other {β : Type} {m : Val → Val → Bool} (hm : KeyPER m) (k k2 : Val) (v : β)
    (es : List (Val × β)) (hne : m k2 k = false) :
    lookupBy m k2 (OMap.insert m k v es).1 = lookupBy m k2 es := by
  induction es with
  | nil => simp [OMap.insert, lookupBy, hne]
  | cons e es ih =>
    obtain ⟨k', v'⟩ := e
    simp only [OMap.insert]
    split
    · rename_i h
      have : m k2 k' = false := by
        cases h2 : m k2 k' with
        | false => rfl
        | true =>
          have := hm.trans k2 k' k h2 (by rw [hm.symm]; exact h)
          simp [hne] at this
      simp [lookupBy, this]
    · simp only [lookupBy, ih]

example : KeyPER (keyEq F0) := F0_keyPER

/-! ### heap: objects keep their kind -/

/-- a list stays a list under every list operation and every map operation on any handle
(so a handle held by an alias never changes kind behind its back) -/
theorem list_stays_list (F : FloatOps) (mech : Bool) (heap : Heap.Heap) (h h' : Nat)
    (lop : Heap.LOp) (mop : Heap.MOp) (hl : (Heap.getList heap h').isSome = true) :
    (Heap.getList (Heap.onList F heap h lop).1 h').isSome = true ∧
    (Heap.getList (Heap.onMap F mech heap h mop).1 h').isSome = true := by
  constructor
  · by_cases e : h' = h
    · subst e
      unfold Heap.onList
      cases hg : Heap.getList heap h' with
      | none => simp [hg] at hl
      | some xs =>
        have hlt := Heap.getList_lt heap h' xs hg
        simp [Heap.getList, Heap.setObj, hlt]
    · simp only [Heap.getList, Heap.onList_frame F heap h lop h' e]
      exact hl
  · by_cases e : h' = h
    · subst e
      unfold Heap.onMap
      have : Heap.getMap heap h' = none := by
        unfold Heap.getList at hl
        unfold Heap.getMap
        split at hl <;> simp_all
      simp [this, hl]
    · simp only [Heap.getList, Heap.onMap_frame F mech heap h mop h' e]
      exact hl

/-- a map stays a map under every list operation and every map operation on any handle -/
theorem map_stays_map (F : FloatOps) (mech : Bool) (heap : Heap.Heap) (h h' : Nat)
    (lop : Heap.LOp) (mop : Heap.MOp) (hl : (Heap.getMap heap h').isSome = true) :
    (Heap.getMap (Heap.onMap F mech heap h mop).1 h').isSome = true ∧
    (Heap.getMap (Heap.onList F heap h lop).1 h').isSome = true := by
  constructor
  · by_cases e : h' = h
    · subst e
      unfold Heap.onMap
      cases hg : Heap.getMap heap h' with
      | none => simp [hg] at hl
      | some xs =>
        have hlt := Heap.getMap_lt heap h' xs hg
        simp [Heap.getMap, Heap.setObj, hlt]
    · simp only [Heap.getMap, Heap.onMap_frame F mech heap h mop h' e]
      exact hl
  · by_cases e : h' = h
    · subst e
      unfold Heap.onList
      have : Heap.getList heap h' = none := by
        unfold Heap.getMap at hl
        unfold Heap.getList
        split at hl <;> simp_all
      simp [this, hl]
    · simp only [Heap.getMap, Heap.onList_frame F heap h lop h' e]
      exact hl

example : (Heap.getList [.list []] 0).isSome = true := by decide
example : (Heap.getMap [.map []] 0).isSome = true := by decide


/-- `list.swap` is an involution on the heap: swapping the same two lists twice restores every object -/
theorem swapLists_involutive (heap : Heap.Heap) (h h' : Nat) (xs ys : List Heap.HVal)
    (hx : Heap.getList heap h = some xs) (hy : Heap.getList heap h' = some ys) :
    (Heap.swapLists (Heap.swapLists heap h h').1 h h').1 = heap := by
  have hlt := Heap.getList_lt heap h xs hx
  have hlt' := Heap.getList_lt heap h' ys hy
  have ex : heap[h]? = some (.list xs) := by
    unfold Heap.getList at hx; split at hx <;> simp_all
  have ey : heap[h']? = some (.list ys) := by
    unfold Heap.getList at hy; split at hy <;> simp_all
  have ex' : heap[h]'hlt = .list xs := by
    rw [List.getElem?_eq_getElem hlt] at ex; exact Option.some.inj ex
  have ey' : heap[h']'hlt' = .list ys := by
    rw [List.getElem?_eq_getElem hlt'] at ey; exact Option.some.inj ey
  have g1 : Heap.getList ((heap.set h (.list ys)).set h' (.list xs)) h = some (if h = h' then xs else ys) := by
    simp only [Heap.getList, List.getElem?_set, List.length_set]
    by_cases e : h = h'
    · subst e; simp [hlt]
    · simp [e, Ne.symm e, hlt]
  have g2 : Heap.getList ((heap.set h (.list ys)).set h' (.list xs)) h' = some xs := by
    simp only [Heap.getList, List.getElem?_set, List.length_set]
    simp [hlt']
  simp only [Heap.swapLists, hx, hy, Heap.setObj, g1, g2]
  apply List.ext_getElem?
  intro i
  simp only [List.getElem?_set, List.length_set]
  by_cases e : h = h'
  · subst e
    have : xs = ys := by simp_all
    subst this
    by_cases ei : h = i
    · subst ei; simp [hlt, ex']
    · simp [ei]
  · by_cases ei' : h' = i
    · subst ei'; simp [hlt', ey', e]
    · by_cases ei : h = i
      · subst ei; simp [hlt, ex', ei']
      · simp [ei, ei']

example : Heap.getList [.list [.null], .list []] 0 = some [.null] := rfl


/-- `list.swap` on any two handles keeps the heap size and the kind of every object -/
theorem swapLists_keeps_kinds (heap : Heap.Heap) (h h2 : Nat) :
    (Heap.swapLists heap h h2).1.length = heap.length ∧
    (∀ h', (Heap.getList heap h').isSome = true → (Heap.getList (Heap.swapLists heap h h2).1 h').isSome = true) ∧
    (∀ h', (Heap.getMap heap h').isSome = true → (Heap.getMap (Heap.swapLists heap h h2).1 h').isSome = true) := by
  cases hx : Heap.getList heap h with
  | none => simp [Heap.swapLists, hx]
  | some xs =>
    cases hy : Heap.getList heap h2 with
    | none => simp [Heap.swapLists, hx, hy]
    | some ys =>
      have hlt := Heap.getList_lt heap h xs hx
      have hlt2 := Heap.getList_lt heap h2 ys hy
      have e1 : heap[h]? = some (.list xs) := by
        unfold Heap.getList at hx; split at hx <;> simp_all
      have e2 : heap[h2]? = some (.list ys) := by
        unfold Heap.getList at hy; split at hy <;> simp_all
      simp only [Heap.swapLists, hx, hy, Heap.setObj]
      refine ⟨by simp, fun h' hl => ?_, fun h' hl => ?_⟩
      · by_cases a : h2 = h'
        · subst a; simp [Heap.getList, hlt2]
        · by_cases b : h = h'
          · subst b; simp only [Heap.getList, List.getElem?_set_ne a]; simp [hlt]
          · simpa [Heap.getList, List.getElem?_set_ne a, List.getElem?_set_ne b] using hl
      · by_cases a : h2 = h'
        · subst a; simp [Heap.getMap, e2] at hl
        · by_cases b : h = h'
          · subst b; simp [Heap.getMap, e1] at hl
          · simpa [Heap.getMap, List.getElem?_set_ne a, List.getElem?_set_ne b] using hl

/-- invariant over every history of container commands (list ops, map ops, `list.swap`, on any
handles, valid or not): the heap keeps its size, every list handle still denotes a list and every
map handle still denotes a map — no alias ever dangles or changes kind -/
theorem history_keeps_kinds (F : FloatOps) (mech : Bool)
    (cmds : List (Nat × Nat × Option (Heap.LOp ⊕ Heap.MOp))) (heap : Heap.Heap) :
    let run := fun (hp : Heap.Heap) (c : Nat × Nat × Option (Heap.LOp ⊕ Heap.MOp)) =>
      match c.2.2 with
      | some (.inl l) => (Heap.onList F hp c.1 l).1
      | some (.inr m) => (Heap.onMap F mech hp c.1 m).1
      | none => (Heap.swapLists hp c.1 c.2.1).1
    (cmds.foldl run heap).length = heap.length ∧
    (∀ h', (Heap.getList heap h').isSome = true → (Heap.getList (cmds.foldl run heap) h').isSome = true) ∧
    (∀ h', (Heap.getMap heap h').isSome = true → (Heap.getMap (cmds.foldl run heap) h').isSome = true) := by
  intro run
  induction cmds generalizing heap with
  | nil => simp
  | cons c cs ih =>
    simp only [List.foldl_cons]
    obtain ⟨h, h2, o⟩ := c
    have step : (run heap (h, h2, o)).length = heap.length ∧
        (∀ h', (Heap.getList heap h').isSome = true → (Heap.getList (run heap (h, h2, o)) h').isSome = true) ∧
        (∀ h', (Heap.getMap heap h').isSome = true → (Heap.getMap (run heap (h, h2, o)) h').isSome = true) := by
      cases o with
      | some lm =>
        cases lm with
        | inl l =>
          exact ⟨Heap.onList_length F heap h l,
            fun h' hl => (list_stays_list F mech heap h h' l .sort hl).1,
            fun h' hl => (map_stays_map F mech heap h h' l .sort hl).2⟩
        | inr m =>
          exact ⟨Heap.onMap_length F mech heap h m,
            fun h' hl => (list_stays_list F mech heap h h' .clear m hl).2,
            fun h' hl => (map_stays_map F mech heap h h' .clear m hl).1⟩
      | none => exact swapLists_keeps_kinds heap h h2
    have := ih (run heap (h, h2, o))
    exact ⟨this.1.trans step.1, fun h' hl => this.2.1 h' (step.2.1 h' hl),
      fun h' hl => this.2.2 h' (step.2.2 h' hl)⟩

end C14Ext
end KotoVerif
