/-
C01 second extension: the container / environment helpers of `Model/CoreEval.lean` that the C01
driver runs through `Core.eval` (slicing: `rangeIndices`, `slice`; index assignment: `setAt`,
`fillRange`; maps: `lookupKey`, `insertKey`; locals: `lookup`, `update`), none of which had a
theorem so far.  They state the guide's clauses "a slice is clamped to the container", "index
assignment replaces exactly one element", "assignment to a local does not disturb other locals".
-/
import KotoVerif.Model.CoreEval

namespace KotoVerif.C01Ext2
open KotoVerif KotoVerif.Core

/-! ### slicing -/

/-- every range, whatever its bounds (negative, reversed, open, inclusive, beyond the end), is
clamped to `0 ≤ start ≤ end ≤ len` -/
theorem rangeIndices_bounds (start : Option Int64) (stop : Option (Int64 × Bool)) (len : Nat) :
    (rangeIndices start stop len).1 ≤ (rangeIndices start stop len).2 ∧
    (rangeIndices start stop len).2 ≤ len := by
  simp only [rangeIndices, clampInt]
  constructor <;> (repeat' split) <;> omega

/-- slicing by any range never fails and yields exactly `end - start` elements -/
theorem slice_rangeIndices_length {α : Type} (xs : List α) (start : Option Int64)
    (stop : Option (Int64 × Bool)) :
    (slice xs (rangeIndices start stop xs.length)).length =
      (rangeIndices start stop xs.length).2 - (rangeIndices start stop xs.length).1 := by
  have h := rangeIndices_bounds start stop xs.length
  simp only [slice, List.length_take, List.length_drop]
  omega

/-- element `i` of a slice is element `start + i` of the container -/
theorem slice_getElem? {α : Type} (xs : List α) (se : Nat × Nat) (i : Nat) (hi : i < se.2 - se.1) :
    (slice xs se)[i]? = xs[se.1 + i]? := by
  simp [slice, hi]

/-- the fully open range `..` is the identity slice -/
theorem slice_full {α : Type} (xs : List α) :
    slice xs (rangeIndices none none xs.length) = xs := by
  have h : ¬ ((xs.length : Int) < 0) := by omega
  simp [slice, rangeIndices, clampInt, h]

/-! ### index assignment on lists -/

theorem setAt_length (xs : List Val) (k : Nat) (v : Val) : (setAt xs k v).length = xs.length := by
  induction xs generalizing k with
  | nil => simp [setAt]
  | cons x xs ih => cases k <;> simp [setAt, ih]

/-- `xs[k] = v` replaces element `k` and no other -/
theorem setAt_getElem? (xs : List Val) (k j : Nat) (v : Val) :
    (setAt xs k v)[j]? = if j = k ∧ k < xs.length then some v else xs[j]? := by
  induction xs generalizing k j with
  | nil => simp [setAt]
  | cons x xs ih =>
    cases k with
    | zero => cases j <;> simp [setAt]
    | succ k => cases j <;> simp [setAt, ih]

theorem fillRange_length (xs : List Val) (pos s e : Nat) (v : Val) :
    (fillRange xs pos s e v).length = xs.length := by
  induction xs generalizing pos with
  | nil => simp [fillRange]
  | cons x xs ih => simp [fillRange, ih]

/-- `xs[s..e] = v` sets exactly the positions in `s..e` -/
theorem fillRange_getElem? (xs : List Val) (pos s e j : Nat) (v : Val) (hj : j < xs.length) :
    (fillRange xs pos s e v)[j]? =
      if s ≤ pos + j ∧ pos + j < e then some v else xs[j]? := by
  induction xs generalizing pos j with
  | nil => simp at hj
  | cons x xs ih =>
    cases j with
    | zero =>
      simp only [fillRange]
      by_cases hc : s ≤ pos ∧ pos < e
      · simp [hc]
      · simp [hc]
    | succ j =>
      simp only [fillRange, List.getElem?_cons_succ]
      rw [ih (pos + 1) j (by simpa using hj)]
      have : pos + 1 + j = pos + (j + 1) := by omega
      rw [this]

/-! ### locals: assignment is seen by the next read and by no other local -/

theorem lookup_update_same (x : Nat) (v : Val) (env : List (Nat × Val)) :
    lookup x (update x v env) = some v := by
  induction env with
  | nil => simp [update, lookup]
  | cons p rest ih =>
    obtain ⟨y, w⟩ := p
    simp only [update]; split <;> simp_all [lookup]

theorem lookup_update_other (x y : Nat) (v : Val) (env : List (Nat × Val)) (h : y ≠ x) :
    lookup y (update x v env) = lookup y env := by
  induction env with
  | nil => simp [update, lookup, h]
  | cons p rest ih =>
    obtain ⟨z, w⟩ := p
    simp only [update]; split
    · subst_vars; simp [lookup, h]
    · simp [lookup, ih]

example : (3 : Nat) ≠ 4 := by decide

/-- `St.set` does not touch the output trace -/
theorem set_out (s : St) (x : Nat) (v : Val) : (s.set x v).out = s.out := rfl

/-- end to end: after `x = e`, reading `x` yields the assigned value and reading any other local
`y` yields what it yielded before; neither read changes the state -/
theorem assign_then_read (F : FloatOps) (n m x y : Nat) (e : Expr) (s s₁ : St) (v : Val)
    (he : eval F n e s = (.ok v, s₁)) (hy : y ≠ x) :
    eval F (n + 1) (.assign x e) s = (.ok v, s₁.set x v) ∧
    eval F (m + 1) (.var x) (s₁.set x v) = (.ok v, s₁.set x v) ∧
    (eval F (m + 1) (.var y) (s₁.set x v)).1 = (eval F (m + 1) (.var y) s₁).1 ∧
    (eval F (m + 1) (.var y) (s₁.set x v)).2 = s₁.set x v := by
  refine ⟨?_, ?_, ?_, ?_⟩
  · simp [eval, he, seq]
  · simp [eval, St.set, lookup_update_same]
  · simp only [eval, St.set, lookup_update_other x y v s₁.env hy]
    cases lookup y s₁.env <;> rfl
  · simp only [eval]
    cases lookup y (s₁.set x v).env <;> rfl

example (F : FloatOps) : eval F 1 (.lit .null) {} = (.ok .null, {}) ∧ (1 : Nat) ≠ 0 := by
  constructor
  · rfl
  · decide

/-! ### maps -/

theorem lookupKey_insertKey_same (k : List Nat) (v : Val) (es : List (Val × Val)) :
    lookupKey k (insertKey k v es) = some v := by
  fun_induction insertKey k v es <;> simp_all [lookupKey]

theorem lookupKey_insertKey_other (k k' : List Nat) (v : Val) (es : List (Val × Val))
    (h : k' ≠ k) : lookupKey k' (insertKey k v es) = lookupKey k' es := by
  fun_induction insertKey k v es <;> simp_all [lookupKey]

example : ([1] : List Nat) ≠ [2] := by decide

end KotoVerif.C01Ext2
