/-
C11 extension: soundness (converse direction) of the `source_slice` model, for EVERY source, table
and span — the existing theorems (`srcslice_boundary`, `sliceText_mid`, …) say "a token-boundary span
yields the token"; these say "whatever `source_slice` returns without panicking is a contiguous piece
of the source of exactly the requested bytes", with no hypothesis on character widths or byte lengths.
-/
import KotoVerif.Model.SrcSlice
import KotoVerif.Model.Layout

namespace KotoVerif.C11Ext
open KotoVerif.SrcSlice

theorem byteLen_app (a b : List Ch) : byteLen (a ++ b) = byteLen a + byteLen b := by
  induction a with
  | nil => simp [byteLen]
  | cons c cs ih => simp [byteLen, ih]; omega

/-- `dropBytes` is sound: if it succeeds, what it dropped is a prefix of exactly `n` bytes. -/
theorem dropBytes_sound (cs : List Ch) : ∀ (n : Nat) (r : List Ch), dropBytes cs n = some r →
    ∃ pre, cs = pre ++ r ∧ byteLen pre = n := by
  induction cs with
  | nil =>
    intro n r h
    cases n with
    | zero => simp [dropBytes] at h; exact ⟨[], by simp [h], rfl⟩
    | succ n => simp [dropBytes] at h
  | cons c cs ih =>
    intro n r h
    cases n with
    | zero => simp [dropBytes] at h; exact ⟨[], by simp [h], rfl⟩
    | succ n =>
      simp only [dropBytes] at h
      split at h
      · obtain ⟨pre, hp, hb⟩ := ih _ _ h
        exact ⟨c :: pre, by simp [hp], by simp [byteLen, hb]; omega⟩
      · simp at h

/-- `takeBytes` is sound: if it succeeds, the result is a prefix of exactly `n` bytes. -/
theorem takeBytes_sound (cs : List Ch) : ∀ (n : Nat) (t : List Ch), takeBytes cs n = some t →
    ∃ post, cs = t ++ post ∧ byteLen t = n := by
  induction cs with
  | nil =>
    intro n t h
    cases n with
    | zero => simp [takeBytes] at h; subst h; exact ⟨[], rfl, rfl⟩
    | succ n => simp [takeBytes] at h
  | cons c cs ih =>
    intro n t h
    cases n with
    | zero => simp [takeBytes] at h; subst h; exact ⟨c :: cs, rfl, rfl⟩
    | succ n =>
      simp only [takeBytes] at h
      split at h
      · cases hr : takeBytes cs (n + 1 - c.bytes) with
        | none => simp [hr] at h
        | some r =>
          simp [hr] at h
          obtain ⟨post, hp, hb⟩ := ih _ _ hr
          exact ⟨post, by simp [← h, hp], by simp [← h, byteLen, hb]; omega⟩
      · simp at h

/-- `&source[s..e]` is sound for every source and every byte range: a non-panicking slice is a
contiguous piece of the source that starts at byte `s` and has exactly `e - s` bytes. -/
theorem sliceText_sound (src : List Ch) (s e : Nat) (t : List Ch) (h : sliceText src s e = some t) :
    s ≤ e ∧ ∃ pre post, src = pre ++ t ++ post ∧ byteLen pre = s ∧ byteLen t = e - s := by
  unfold sliceText at h
  split at h
  · rename_i hse
    refine ⟨hse, ?_⟩
    cases hd : dropBytes src s with
    | none => simp [hd] at h
    | some r =>
      simp [hd] at h
      obtain ⟨pre, hp, hb⟩ := dropBytes_sound _ _ _ hd
      obtain ⟨post, hq, hc⟩ := takeBytes_sound _ _ _ h
      exact ⟨pre, post, by simp [hp, hq], hb, hc⟩
  · simp at h

example : sliceText [⟨233, 2, 1⟩, ⟨57, 1, 1⟩, ⟨57, 1, 1⟩] 2 4 = some [⟨57, 1, 1⟩, ⟨57, 1, 1⟩] := by decide

/-- A slice never reaches beyond the end of the source: asking for bytes past the end panics. -/
theorem sliceText_beyond_end (src : List Ch) (s e : Nat) (h : byteLen src < e) :
    sliceText src s e = none := by
  cases hs : sliceText src s e with
  | none => rfl
  | some t =>
    obtain ⟨hse, pre, post, hp, hb, hc⟩ := sliceText_sound _ _ _ _ hs
    have := congrArg byteLen hp
    simp [byteLen_app] at this
    omega

example : byteLen [⟨233, 2, 1⟩, ⟨57, 1, 1⟩] < 4 := by decide

/-- The text of `source_slice(span)`, whenever it does not panic, is a contiguous piece of the source
that has exactly as many bytes as the computed byte range — for every source, every token table
(sorted or not) and every span (token boundary or not). -/
theorem sourceSliceText_sound (ls : List Line) (tbl : Table) (sp : Span) (t : List Ch)
    (h : sourceSliceText ls tbl sp = some t) :
    byteOf ls tbl sp.start ≤ byteOf ls tbl sp.stop ∧
    byteLen t = byteOf ls tbl sp.stop - byteOf ls tbl sp.start ∧
    ∃ pre post, ls.flatten = pre ++ t ++ post ∧ byteLen pre = byteOf ls tbl sp.start := by
  unfold sourceSliceText sourceSlice at h
  obtain ⟨hse, pre, post, hp, hb, hc⟩ := sliceText_sound _ _ _ _ h
  exact ⟨hse, hc, pre, post, hp, hb⟩

example : sourceSliceText [[⟨233, 2, 1⟩, ⟨32, 1, 1⟩, ⟨57, 1, 1⟩]] [(⟨0, 2⟩, 3), (⟨0, 3⟩, 4)]
    ⟨⟨0, 2⟩, ⟨0, 3⟩⟩ = some [⟨57, 1, 1⟩] := by decide

/-- `lookup` only returns offsets that are in the table. -/
theorem lookup_sound (tbl : Table) (p : Pos) (b : Nat) (h : lookup tbl p = some b) : (p, b) ∈ tbl := by
  induction tbl with
  | nil => simp [lookup] at h
  | cons e rest ih =>
    obtain ⟨q, c⟩ := e
    simp only [lookup] at h
    split at h
    · rename_i hq
      simp at h
      simp [hq, h]
    · exact List.mem_cons_of_mem _ (ih h)

example : lookup [(⟨0, 2⟩, 3), (⟨0, 3⟩, 4)] ⟨0, 3⟩ = some 4 := by decide

/-- `lookup` misses exactly the positions that are no key of the table. -/
theorem lookup_none_iff (tbl : Table) (p : Pos) : lookup tbl p = none ↔ ∀ b, (p, b) ∉ tbl := by
  induction tbl with
  | nil => simp [lookup]
  | cons e rest ih =>
    obtain ⟨q, c⟩ := e
    simp only [lookup]
    split
    · rename_i hq
      subst hq
      constructor
      · intro h; cases h
      · intro h; exact absurd (by simp) (h c)
    · rename_i hq
      rw [ih]
      constructor
      · intro h b hm
        rcases List.mem_cons.mp hm with h1 | h1
        · exact hq (by cases h1; rfl)
        · exact h b h1
      · intro h b hm
        exact h b (List.mem_cons_of_mem _ hm)

/-- At a token boundary the byte offset does not depend on the source text at all (no column
arithmetic is involved): the independence that makes the fix b1042e7 immune to character widths. -/
theorem byteOf_table_indep (ls ls' : List Line) (tbl : Table) (p : Pos) (b : Nat)
    (h : lookup tbl p = some b) : byteOf ls tbl p = b ∧ byteOf ls' tbl p = b := by
  simp [byteOf, h]

/-- `line_offsets[k]` refines to the simple spec "bytes of the first `k` lines". -/
theorem lineOffset_eq_take (ls : List Line) : ∀ k, lineOffset ls k = byteLen (ls.take k).flatten := by
  induction ls with
  | nil => intro k; cases k <;> simp [lineOffset, byteLen]
  | cons l ls ih =>
    intro k
    cases k with
    | zero => simp [lineOffset, byteLen]
    | succ k => simp [lineOffset, byteLen_app, ih]

/-- `line_offsets` is monotone in the line number. -/
theorem lineOffset_mono (ls : List Line) : ∀ k, lineOffset ls k ≤ lineOffset ls (k + 1) := by
  induction ls with
  | nil => intro k; cases k <;> simp [lineOffset]
  | cons l ls ih =>
    intro k
    cases k with
    | zero => simp [lineOffset]
    | succ k => simp only [lineOffset]; have := ih k; omega

/-- … and never exceeds the length of the source. -/
theorem lineOffset_le_total (ls : List Line) : ∀ k, lineOffset ls k ≤ byteLen ls.flatten := by
  induction ls with
  | nil => intro k; cases k <;> simp [lineOffset]
  | cons l ls ih =>
    intro k
    cases k with
    | zero => simp [lineOffset]
    | succ k => simp only [lineOffset, List.flatten_cons, byteLen_app]; have := ih k; omega

/-! ### Layout model (`render_group` decision, break table, output buffer) — facts for EVERY item tree -/
section Layout
open KotoVerif.Layout

/-- Only whether the group is too long depends on line length and column: with more room a group
that took the single-line branch still takes it — for every item tree (the existing
`layout_decision_monotone` needs `flatOneLineItems`). -/
theorem broken_monotone_all (lineLen lineLen' col col' : Nat) (is : Items)
    (hb : broken lineLen col is = false) (hl : lineLen ≤ lineLen') (hc : col' ≤ col) :
    broken lineLen' col' is = false := by
  simp [broken, tooLong] at hb ⊢
  obtain ⟨⟨h1, h2⟩, h3⟩ := hb
  exact ⟨⟨by omega, h2⟩, h3⟩

example : broken 20 4 (.cons (.str 4 []) (.cons (.brk .spaceOrIndent) (.cons (.str 4 []) .nil))) = false := by
  decide

/-- Conversely a group with a forcing item or a trailing indented block is broken at every width. -/
theorem broken_of_force (lineLen col : Nat) (is : Items)
    (h : anyItem forceBreak is = true ∨ lastIs isIndentedBlock is = true) : broken lineLen col is = true := by
  rcases h with h | h <;> simp [broken, h]

example : anyItem forceBreak (.cons (.str 4 []) (.cons .lineBreak .nil)) = true := by decide

mutual
/-- `line_length()` never measures more than the single-line width plus the optional characters —
for every tree (no `flatOneLine` hypothesis; `layout_measure_exact` is the equality on flat trees). -/
theorem measure_le_item : ∀ (i : Item), lineLength i ≤ flatWidth i + optWidth i
  | .char w => by simp [lineLength, flatWidth, optWidth]
  | .optChar w => by simp [lineLength, flatWidth, optWidth]
  | .str w l => by simp [lineLength, flatWidth, optWidth]
  | .lineBreak => by simp [lineLength, flatWidth, optWidth]
  | .error => by simp [lineLength, flatWidth, optWidth]
  | .brk b => by cases b <;> simp [lineLength, flatWidth, optWidth, Brk.len, Brk.flatWidth]
  | .group is => by
      have := measure_le_items is
      simpa [lineLength, flatWidth, optWidth] using this
theorem measure_le_items : ∀ (is : Items), lineLengthItems is ≤ flatWidthItems is + optWidthItems is
  | .nil => by simp [lineLengthItems, flatWidthItems, optWidthItems]
  | .cons i rest => by
      have hi := measure_le_item i
      have hr := measure_le_items rest
      cases i with
      | char w => simp [lineLengthItems, flatWidthItems, optWidthItems, lineLength, flatWidth, optWidth] at hi ⊢; omega
      | optChar w => simp [lineLengthItems, flatWidthItems, optWidthItems, lineLength, flatWidth, optWidth] at hi ⊢; omega
      | str w l => simp [lineLengthItems, flatWidthItems, optWidthItems, lineLength, flatWidth, optWidth] at hi ⊢; omega
      | lineBreak => simp [lineLengthItems, flatWidthItems, optWidthItems, lineLength, flatWidth, optWidth] at hi ⊢; omega
      | error => simp [lineLengthItems, flatWidthItems, optWidthItems, lineLength, flatWidth, optWidth] at hi ⊢; omega
      | brk b =>
        simp only [lineLengthItems, flatWidthItems, optWidthItems]
        simp only [lineLength] at hi
        split <;> omega
      | group js =>
        simp only [lineLengthItems, flatWidthItems, optWidthItems]
        simp only [lineLength] at hi
        omega
end

/-- Hence a group whose single-line text plus optional characters fits is never "too long". -/
theorem not_tooLong_of_flat_fits (lineLen col : Nat) (is : Items)
    (h : col + flatWidthItems is + optWidthItems is ≤ lineLen) : tooLong lineLen col is = false := by
  have := measure_le_items is
  simp [tooLong]
  omega

example : 0 + flatWidthItems (.cons (.char 1) (.cons (.optChar 1) .nil))
    + optWidthItems (.cons (.char 1) (.cons (.optChar 1) .nil)) ≤ 2 := by decide

/-- `needs_linebreak` when nothing presses (not too long, not forced) is exactly `forces`, whatever
`accept_optional_linebreak` is. -/
theorem needsLinebreak_relaxed (b : Brk) (acc : Bool) : b.needsLinebreak false false acc = b.forces := by
  cases b <;> cases acc <;> rfl

/-- `needs_linebreak` is monotone in all three flags: more pressure never removes a line break. -/
theorem needsLinebreak_mono (b : Brk) (tl f acc tl' f' acc' : Bool)
    (h1 : tl = true → tl' = true) (h2 : f = true → f' = true) (h3 : acc = true → acc' = true)
    (h : b.needsLinebreak tl f acc = true) : b.needsLinebreak tl' f' acc' = true := by
  cases b <;> cases tl <;> cases f <;> cases acc <;> cases tl' <;> cases f' <;> cases acc' <;>
    simp_all [Brk.needsLinebreak]

example : Brk.needsLinebreak .maybeReturn true false true = true := by decide

/-- In a group that fits and is not forced, a non-forcing break never starts a new line:
the action is a space or nothing (or the `LineStart` re-indent). -/
theorem action_relaxed (b : Brk) (ind acc : Bool) (h : b.forces = false) :
    b.action false false ind acc = .space ∨ b.action false false ind acc = .nothing
      ∨ (b = .lineStart ∧ b.action false false ind acc = .returnOnly) := by
  cases b <;> cases ind <;> cases acc <;> simp_all [Brk.forces, Brk.action, Brk.needsLinebreak,
    Brk.needsReturn, Brk.needsSpace]

example : Brk.forces .spaceOrReturn = false := by decide

/-- `emit` keeps the number of lines of a non-empty buffer. -/
theorem emit_length (w : Nat) (o : Out) (h : o ≠ []) : (o.emit w).length = o.length := by
  cases o with
  | nil => exact absurd rfl h
  | cons c r => simp [Out.emit]

/-- Appending a text to a non-empty buffer joins its first line to the buffer's last line: the
line count is the sum minus one (so the buffer never loses a line). -/
theorem append_length (o t : Out) (ho : o ≠ []) (ht : t ≠ []) :
    (o.append t).length + 1 = o.length + t.length := by
  unfold Out.append
  have hl : t.reverse.length = t.length := List.length_reverse
  cases hr : t.reverse with
  | nil => simp [hr] at hl; exact absurd (List.eq_nil_of_length_eq_zero hl.symm) ht
  | cons first more =>
    simp only [hr, List.length_cons] at hl
    simp [emit_length _ _ ho]
    omega

example : (Out.append [3, 1] [5, 2]).length + 1 = 2 + 2 := by decide

/-- Appending never empties the buffer. -/
theorem append_ne_nil (o t : Out) (ho : o ≠ []) : o.append t ≠ [] := by
  unfold Out.append
  cases hr : t.reverse with
  | nil => simpa using ho
  | cons first more =>
    cases o with
    | nil => exact absurd rfl ho
    | cons c r => simp [Out.emit]

theorem emit_ne_nil (w : Nat) (o : Out) : o.emit w ≠ [] := by
  cases o <;> simp [Out.emit]

theorem stepBrk_out_ne_nil (o : Opt) (ind : Bool) (b : Brk) (st : St) (h : st.out ≠ []) :
    (stepBrk o ind b st).out ≠ [] := by
  cases b <;> simp [stepBrk, Out.newline, h]

theorem stepItem_out_ne_nil (o : Opt) (tl f ind : Bool) (st : St) (gc : Nat) (ci : Bool) (t : Out)
    (h : st.out ≠ []) : (stepItem o tl f ind st gc ci t).out ≠ [] := by
  simp only [stepItem]
  apply append_ne_nil
  split <;> first | exact emit_ne_nil _ _ | (simp; done) | skip
  split
  · exact emit_ne_nil _ _
  · exact h

mutual
/-- Every text `FormatItem::render` produces has at least one line … -/
theorem renderItem_ne_nil (o : Opt) : ∀ (i : Item) (a r : Bool) (c : Nat) (t : Out),
    renderItem o i a r c = some t → t ≠ []
  | .char w, _, _, _, t, h => by simp [renderItem] at h; simp [← h]
  | .optChar w, _, _, _, t, h => by simp [renderItem] at h; simp [← h]
  | .str w more, _, _, _, t, h => by simp [renderItem] at h; simp [← h]
  | .lineBreak, _, _, _, t, h => by simp [renderItem] at h; simp [← h]
  | .brk b, _, _, _, t, h => by simp [renderItem] at h; simp [← h]
  | .error, _, _, _, t, h => by simp [renderItem] at h
  | .group is, a, r, c, t, h => by
      simp only [renderItem] at h
      split at h
      · simp only [Option.map_eq_some_iff] at h
        obtain ⟨st, hs, ht⟩ := h
        rw [← ht]
        exact loopItems_out_ne_nil o _ _ _ is _ st hs (by simp)
      · exact flatItems_ne_nil o is c _ t h (by simp)
/-- … the single-line branch never empties the buffer … -/
theorem flatItems_ne_nil (o : Opt) : ∀ (is : Items) (c : Nat) (out t : Out),
    flatItems o is c out = some t → out ≠ [] → t ≠ []
  | .nil, _, out, t, h, ho => by simp [flatItems] at h; simpa [← h] using ho
  | .cons i rest, c, out, t, h, ho => by
      simp only [flatItems] at h
      split at h
      · simp at h
      · exact flatItems_ne_nil o rest c _ t h (append_ne_nil _ _ ho)
/-- … and neither does the break loop, from any state. -/
theorem loopItems_out_ne_nil (o : Opt) (tl f ind : Bool) : ∀ (is : Items) (st st' : St),
    loopItems o tl f ind is st = some st' → st.out ≠ [] → st'.out ≠ []
  | .nil, st, st', h, ho => by simp [loopItems] at h; simpa [← h] using ho
  | .cons i rest, st, st', h, ho => by
      cases i with
      | brk b =>
        simp only [loopItems] at h
        exact loopItems_out_ne_nil o tl f ind rest _ st' h (stepBrk_out_ne_nil _ _ _ _ ho)
      | lineBreak =>
        simp only [loopItems] at h
        exact loopItems_out_ne_nil o tl f ind rest _ st' h (by simp [Out.newline])
      | char w | optChar w | str w l | error | group js =>
        simp only [loopItems] at h
        split at h
        · split at h
          · simp at h
          · exact loopItems_out_ne_nil o tl f ind rest _ st' h (append_ne_nil _ _ ho)
        · split at h
          · simp at h
          · exact loopItems_out_ne_nil o tl f ind rest _ st' h (stepItem_out_ne_nil _ _ _ _ _ _ _ _ ho)
end

/-- `render_group` never yields an empty text: every rendered group has at least one line. -/
theorem renderGroupLines_ne_nil (o : Opt) (is : Items) (ind : Bool) (col : Nat) (ws : List Nat)
    (h : renderGroupLines o is ind col = some ws) : ws ≠ [] := by
  simp only [renderGroupLines, Option.map_eq_some_iff] at h
  obtain ⟨t, ht, hw⟩ := h
  have := renderItem_ne_nil o _ _ _ _ t ht
  rw [← hw]
  simpa using this

example : renderGroupLines ⟨10, 2⟩ (.cons (.str 4 []) (.cons .lineBreak (.cons (.str 3 []) .nil))) false 0
    = some [4, 3] := by decide

end Layout

end KotoVerif.C11Ext
