/-
C14, second extension module: end-to-end order laws of the insertion-ordered map model
(`OMap.insert`, `OMap.remove`, `OMap.extend`, `OMap.swapIndices`, `OMap.swapRemoveIndex`), all of
which the driver runs against IndexMap on every check.
-/
import KotoVerif.Model.Equal
import KotoVerif.Lemmas.C14Map

namespace KotoVerif.C14Ext2
open KotoVerif KotoVerif.Equal KotoVerif.Equal.OMap

/-- insert keeps insertion order: the old key sequence is a prefix of the new one -/
theorem insert_keys_prefix {β : Type} (m : Val → Val → Bool) (k : Val) (v : β) (es : List (Val × β)) :
    keys es <+: keys (OMap.insert m k v es).1 := by
  rw [keys_insert]
  unfold specInsert
  split
  · exact List.prefix_refl _
  · exact List.prefix_append _ _

/-- extend keeps insertion order: every old key stays where it was, new keys only go behind -/
theorem extend_keys_prefix {β : Type} (m : Val → Val → Bool) (es other : List (Val × β)) :
    keys es <+: keys (OMap.extend m es other) := by
  induction other generalizing es with
  | nil => simp [OMap.extend]
  | cons e other ih =>
    obtain ⟨k, v⟩ := e
    simp only [OMap.extend]
    exact List.IsPrefix.trans (insert_keys_prefix m k v es) (ih _)

/-- remove keeps insertion order: the surviving keys are a sublist of the old keys -/
theorem remove_keys_sublist {β : Type} (m : Val → Val → Bool) (k : Val) (es : List (Val × β)) :
    (keys (OMap.remove m k es).1).Sublist (keys es) := by
  rw [keys_remove]
  exact List.eraseP_sublist

/-- extending in two steps is extending by the concatenation -/
theorem extend_append {β : Type} (m : Val → Val → Bool) (es o1 o2 : List (Val × β)) :
    OMap.extend m es (o1 ++ o2) = OMap.extend m (OMap.extend m es o1) o2 := by
  induction o1 generalizing es with
  | nil => simp [OMap.extend]
  | cons e o1 ih =>
    obtain ⟨k, v⟩ := e
    simp only [List.cons_append, OMap.extend]
    exact ih _

/-- round trip: inserting an absent (self-equal) key and removing it again restores the map exactly
and hands the inserted value back -/
theorem insert_remove_absent {β : Type} (m : Val → Val → Bool) (k : Val) (v : β) (es : List (Val × β))
    (hk : m k k = true) (habs : lookupBy m k es = none) :
    OMap.remove m k (OMap.insert m k v es).1 = (es, some v) := by
  induction es with
  | nil => simp [OMap.insert, OMap.remove, hk]
  | cons e es ih =>
    obtain ⟨k', v'⟩ := e
    simp only [lookupBy] at habs
    by_cases h : m k k' = true
    · simp [h] at habs
    · simp only [h, if_false, Bool.false_eq_true] at habs
      simp only [OMap.insert, h, if_false, Bool.false_eq_true, OMap.remove]
      rw [ih habs]

example : (fun a b => kindRank a == kindRank b) (Val.str [1]) (Val.str [1]) = true ∧
    lookupBy (fun a b => kindRank a == kindRank b) (Val.str [1]) [(Val.null, (3 : Nat))] = none := by
  decide

/-- `swap_indices` never changes the number of entries -/
theorem swapIndices_length {β : Type} (a b : Nat) (es es' : List (Val × β))
    (h : OMap.swapIndices a b es = some es') : es'.length = es.length := by
  unfold OMap.swapIndices at h
  split at h
  · cases h; simp
  · cases h

/-- `swap_indices` puts entry `a` at `b` and entry `b` at `a` -/
theorem swapIndices_get {β : Type} (a b : Nat) (es es' : List (Val × β))
    (h : OMap.swapIndices a b es = some es') : es'[b]? = es[a]? ∧ es'[a]? = es[b]? := by
  unfold OMap.swapIndices at h
  split at h
  · rename_i x y hx hy
    cases h
    have ha : a < es.length := by
      rcases Nat.lt_or_ge a es.length with h | h
      · exact h
      · simp [List.getElem?_eq_none h] at hx
    have hb : b < es.length := by
      rcases Nat.lt_or_ge b es.length with h | h
      · exact h
      · simp [List.getElem?_eq_none h] at hy
    constructor
    · simp [hb, hx]
    · by_cases hab : b = a
      · subst hab
        have hxy : x = y := by rw [hx] at hy; exact Option.some.inj hy
        subst hxy
        simp only [List.getElem?_set, hb, List.length_set, if_true, hy]
      · simp [hab, ha, hy]
  · cases h

example : (OMap.swapIndices 0 1 [((.str [1] : Val), (1 : Nat)), (.str [2], 2)]).isSome = true := by
  decide

/-- `swap_remove_index` of a valid index removes exactly one entry -/
theorem swapRemoveIndex_length {β : Type} (i : Nat) (es : List (Val × β)) (hi : i < es.length) :
    (OMap.swapRemoveIndex i es).length + 1 = es.length := by
  unfold OMap.swapRemoveIndex
  simp only [hi, if_true]
  cases hl : es.getLast? with
  | none => simp [List.getLast?_eq_none_iff] at hl; subst hl; simp at hi
  | some last =>
    simp only
    split <;> simp <;> omega

example : (1 : Nat) < [((.str [1] : Val), (1 : Nat)), (.str [2], 2)].length := by decide

end KotoVerif.C14Ext2
