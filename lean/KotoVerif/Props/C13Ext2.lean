/-
C13 (second extension) — end-to-end statements that connect the pipeline builder (`build`), the
state machines, the consumer loop (`runLoop`) and the denotation (`den`): consumers cannot tell apart
pipelines with the same denotation; `count` of any pipeline is the length of its denotation (so the
length-preserving adaptors do not change it); stacked `take`s and commuting `keep`s at machine level.
-/
import KotoVerif.Props.C13Ext

namespace KotoVerif.C13Ext2
open KotoVerif KotoVerif.Iter

/-- **consumers are functions of the denotation.** Two well-formed finite pipelines with the same
denotation give the same answer under every consumer run by the real loop on the built machines -/
theorem same_den_same_answer (fuel : Nat) (p q : Pipe) (c : Cons) (xs : List Val)
    (hp : p.regular = true) (hq : q.regular = true) (ep : p.err = none) (eq : q.err = none)
    (dp : den p = some xs) (dq : den q = some xs) (fp : p.fits fuel) (fq : q.fits fuel)
    (hl : xs.length < fuel) :
    (runLoop fuel (build fuel p) c).1 = (runLoop fuel (build fuel q) c).1 := by
  rw [C13.consumer_refines fuel p c xs hp ep dp fp hl, C13.consumer_refines fuel q c xs hq eq dq fq hl]

/-- **count of a pipeline.** `count` run on the built machine of any well-formed finite pipeline
answers the length of its denotation -/
theorem count_pipeline (fuel : Nat) (p : Pipe) (xs : List Val)
    (hp : p.regular = true) (ep : p.err = none) (dp : den p = some xs) (fp : p.fits fuel)
    (hl : xs.length < fuel) :
    (runLoop fuel (build fuel p) .count).1 = .ok (Val.int xs.length) := by
  rw [C13.consumer_refines fuel p .count xs hp ep dp fp hl, C13.count_spec]

example : (runLoop 8 (build 8 (.skip 1 (.src (.seq [Val.int 0, Val.int 1, Val.int 2])))) .count).1
    = .ok (Val.int 2) :=
  count_pipeline 8 (.skip 1 (.src (.seq [Val.int 0, Val.int 1, Val.int 2]))) [Val.int 1, Val.int 2]
    rfl rfl rfl trivial (by simp)

/-- **each does not change count.** Mapping any callback over a pipeline leaves `count` unchanged
(machine level, real consumer loop) -/
theorem each_count (fuel : Nat) (f : Fn) (p : Pipe) (xs : List Val)
    (hp : p.regular = true) (ep : p.err = none) (dp : den p = some xs) (fp : p.fits fuel)
    (hl : xs.length < fuel) :
    (runLoop fuel (build fuel (.each f p)) .count).1 = (runLoop fuel (build fuel p) .count).1 := by
  rw [count_pipeline fuel p xs hp ep dp fp hl,
    count_pipeline fuel (.each f p) (xs.map f.app) (by simpa [Pipe.regular] using hp)
      (by simpa [Pipe.err] using ep) (by simp [den, dp]) (by simpa [Pipe.fits] using fp)
      (by simpa using hl)]
  simp

/-- **reversed does not change count** (bidirectional input) -/
theorem reversed_count (fuel : Nat) (p : Pipe) (xs : List Val)
    (hp : p.regular = true) (ep : p.err = none) (dp : den p = some xs) (fp : p.fits fuel)
    (bp : p.bidir = true) (hl : xs.length < fuel) :
    (runLoop fuel (build fuel (.reversed p)) .count).1 = (runLoop fuel (build fuel p) .count).1 := by
  rw [count_pipeline fuel p xs hp ep dp fp hl,
    count_pipeline fuel (.reversed p) xs.reverse (by simpa [Pipe.regular] using hp)
      (by simp [Pipe.err, ep, bp]) (by simp [den, dp]) (by simpa [Pipe.fits] using fp)
      (by simpa using hl)]
  simp

/-- **Take ∘ Take.** Two stacked `Take` machines (two private counters) behave as one with the
smaller bound, for any number of `next` calls -/
theorem take_take_machine (fuel a b : Nat) (p : Pipe) (xs : List Val)
    (hp : p.regular = true) (ep : p.err = none) (dp : den p = some xs) (fp : p.fits fuel) (n : Nat) :
    outs (build fuel (.take a (.take b p))).c n (build fuel (.take a (.take b p))).s
      = outs (build fuel (.take (min a b) p)).c n (build fuel (.take (min a b) p)).s := by
  apply C13Ext.same_den_same_outs fuel _ _ (xs.take (min a b))
  · simpa [Pipe.regular] using hp
  · simpa [Pipe.regular] using hp
  · simpa [Pipe.err] using ep
  · simpa [Pipe.err] using ep
  · rw [den_take a (.take b p) (by simpa [Pipe.regular] using hp),
      den_take b p hp, dp]
    simp [List.take_take]
  · rw [den_take _ p hp, dp]; simp
  · simpa [Pipe.fits] using fp
  · simpa [Pipe.fits] using fp

/-- **Keep commutes with Keep.** Filtering by `q` after `r` is indistinguishable from filtering by
`r` after `q`, for any number of `next` calls on the built machines -/
theorem keep_keep_comm_machine (fuel : Nat) (q r : Pred) (p : Pipe) (xs : List Val)
    (hp : p.regular = true) (ep : p.err = none) (dp : den p = some xs) (fp : p.fits fuel)
    (hl : xs.length < fuel) (n : Nat) :
    outs (build fuel (.keep q (.keep r p))).c n (build fuel (.keep q (.keep r p))).s
      = outs (build fuel (.keep r (.keep q p))).c n (build fuel (.keep r (.keep q p))).s := by
  have h1 : ∀ (g : Val → Bool), (xs.filter g).length < fuel := fun g =>
    Nat.lt_of_le_of_lt (List.length_filter_le _ _) hl
  apply C13Ext.same_den_same_outs fuel _ _ ((xs.filter r.app).filter q.app)
  · simpa [Pipe.regular] using hp
  · simpa [Pipe.regular] using hp
  · simpa [Pipe.err] using ep
  · simpa [Pipe.err] using ep
  · simp [den, dp]
  · simp [den, dp, List.filter_filter, Bool.and_comm]
  · simp only [Pipe.fits, den, dp, Option.map_some, Option.getD_some]
    exact ⟨⟨fp, hl⟩, h1 _⟩
  · simp only [Pipe.fits, den, dp, Option.map_some, Option.getD_some]
    exact ⟨⟨fp, hl⟩, h1 _⟩

/-! ## non-vacuity witnesses: the hypotheses hold for concrete non-trivial pipelines -/

/-- `same_den_same_answer`: two different pipelines (skip 1 twice vs. skip 2) with one denotation -/
example : (runLoop 8 (build 8 (.skip 1 (.skip 1 (.src (.seq [Val.int 0, Val.int 1, Val.int 2]))))) .count).1
    = (runLoop 8 (build 8 (.skip 2 (.src (.seq [Val.int 0, Val.int 1, Val.int 2])))) .count).1 :=
  same_den_same_answer 8 _ _ .count [Val.int 2] rfl rfl rfl rfl rfl rfl
    (by simp [Pipe.fits]) (by simp [Pipe.fits]) (by simp)

/-- `each_count` on a three-element generator source -/
example : (runLoop 8 (build 8 (.each .wrap (.src (.gen 0 [Val.int 1, Val.int 2, Val.int 3])))) .count).1
    = (runLoop 8 (build 8 (.src (.gen 0 [Val.int 1, Val.int 2, Val.int 3]))) .count).1 :=
  each_count 8 .wrap _ [Val.int 1, Val.int 2, Val.int 3] rfl rfl rfl (by simp [Pipe.fits]) (by simp)

/-- `reversed_count` on a bidirectional list source -/
example : (runLoop 8 (build 8 (.reversed (.src (.seq [Val.int 1, Val.int 2])))) .count).1
    = (runLoop 8 (build 8 (.src (.seq [Val.int 1, Val.int 2]))) .count).1 :=
  reversed_count 8 _ [Val.int 1, Val.int 2] rfl rfl rfl (by simp [Pipe.fits]) rfl (by simp)

/-- `take_take_machine` / `keep_keep_comm_machine`: hypotheses satisfiable with a non-empty source -/
example : ∃ (p : Pipe) (xs : List Val), p.regular = true ∧ p.err = none ∧ den p = some xs ∧ p.fits 8 ∧
    xs.length = 3 ∧ xs.length < 8 :=
  ⟨.src (.seq [Val.int 1, Val.int 2, Val.int 3]), _, rfl, rfl, rfl, by simp [Pipe.fits], rfl, by simp⟩

end KotoVerif.C13Ext2

