import KotoVerif.Lemmas.C06
/-!
C06, second extension module: value-level facts about kernels of `Model/Guards.lean` for which the
existing modules only prove panic-freedom (`padFill`, `lexerPeek`, `popFront`, `findSub`,
`signedIndexToUnsigned`).
-/
namespace KotoVerif.C06Ext2
open KotoVerif.Guards

/-- `run_string_push`: whenever padding succeeds, the two fill counts are non-negative and add up to
exactly the missing width (grapheme based), for every alignment. -/
theorem padFill_sum (g b w : Int) (a : Align) (l r : Int)
    (h : padFill false g b w a = .ok (l, r)) :
    0 ≤ l ∧ 0 ≤ r ∧ l + r = max 0 (w - g) := by
  unfold padFill at h
  split at h
  · simp only [Bool.false_eq_true, if_false, ckUsize, USIZE_MAX] at h
    split at h
    · simp only [Res.bind] at h
      cases a with
      | default n =>
        cases n <;> simp at h <;> omega
      | left => simp at h; omega
      | right => simp at h; omega
      | center =>
        simp only [ckUsize, USIZE_MAX] at h
        split at h
        all_goals (try (simp at h; done))
        rename_i a heq
        have hc : 0 ≤ w - g - (w - g) / 2 ∧ w - g - (w - g) / 2 ≤ 18446744073709551615 := by omega
        simp only [hc, and_self, if_true] at heq
        simp at heq h
        omega
    · simp [Res.bind] at h
  · simp at h; omega

example : padFill false 2 2 7 .center = .ok (2, 3) := by decide

/-- `KotoLexer::peek(n)`: the number of tokens lexed is non-negative, and afterwards the queue holds
at least `n + 1` tokens; nothing is lexed when the queue is already long enough. -/
theorem lexerPeek_value (q n k : Int) (h : lexerPeek q n = .ok k) :
    0 ≤ k ∧ n + 1 ≤ q + k ∧ (n + 1 ≤ q → k = 0) := by
  unfold lexerPeek ckUsize at h
  split at h
  · simp [Res.bind] at h; omega
  · simp [Res.bind] at h

example : lexerPeek 2 5 = .ok 4 := by decide

/-- `KRange::pop_front`: a popped value is always the old start, the end never moves, and the new
start is the old one or its successor. -/
theorem popFront_value (large : Bool) (s e : Int) (incl : Bool) (v s' e' : Int) (incl' : Bool)
    (h : popFront large s e incl = .ok (some v, s', e', incl')) :
    v = s ∧ e' = e ∧ s ≤ e ∧ (s' = s ∨ s' = s + 1) := by
  unfold popFront at h
  split at h
  · cases large <;> simp only [ckI64, ckI32, if_true, Bool.false_eq_true, if_false] at h <;>
      (split at h <;> simp [Res.bind] at h <;> omega)
  · split at h
    · split at h <;> simp at h <;> omega
    · simp at h

example : popFront false 3 5 true = .ok (some 3, 4, 5, true) := by decide

/-- `KRange::pop_front` yields nothing exactly on an empty range and then leaves it unchanged. -/
theorem popFront_none_iff (large : Bool) (s e : Int) (incl : Bool) (hs : s + 1 ≤ I32_MAX) (hs' : I32_MIN ≤ s + 1) :
    (popFront large s e incl = .ok (none, s, e, incl)) ↔ (e < s ∨ (s = e ∧ incl = false)) := by
  unfold popFront
  have h64 : I64_MIN ≤ s + 1 ∧ s + 1 ≤ I64_MAX := by
    simp only [I32_MAX, I32_MIN, I64_MIN, I64_MAX] at *; omega
  constructor
  · intro h
    split at h
    · cases large <;> simp [ckI64, ckI32, h64, hs, hs', Res.bind] at h
    · split at h
      · cases incl <;> simp_all
      · omega
  · intro h
    rcases h with h | ⟨h1, h2⟩
    · have : ¬ s < e := by omega
      have : ¬ s = e := by omega
      simp [*]
    · subst h1; subst h2; simp

example : popFront false 4 4 false = .ok (none, 4, 4, false) := by decide

/-- `signed_index_to_unsigned` with a negative index counts from the back and saturates at 0. -/
theorem signedIndexToUnsigned_neg (index size i : Int) (hi : index < 0) (hs : 0 ≤ size)
    (h : signedIndexToUnsigned index size = .ok i) :
    i = max 0 (size + index) ∧ 0 ≤ i ∧ i ≤ size := by
  unfold signedIndexToUnsigned ckUsize at h
  simp only [hi, if_true] at h
  split at h
  · simp at h; omega
  · simp at h

example : signedIndexToUnsigned (-2) 5 = .ok 3 := by decide

/-- `str::find` model: a reported offset is inside the haystack and the pattern really occurs there. -/
theorem findSub_sound (pat : List Nat) (hay : List Nat) (k : Nat) (h : findSub pat hay = some k) :
    k ≤ hay.length ∧ isPrefix pat (hay.drop k) = true := by
  induction hay generalizing k with
  | nil =>
    unfold findSub at h
    cases pat <;> simp_all [isPrefix]
  | cons x xs ih =>
    unfold findSub at h
    split at h
    · simp at h; subst h; simp_all
    · cases hf : findSub pat xs with
      | none => simp [hf] at h
      | some j =>
        simp [hf] at h
        subst h
        have := ih j hf
        simp [this]

example : findSub [2, 3] [1, 2, 3] = some 1 := by decide

end KotoVerif.C06Ext2
