/-
C03 — pattern matching and unpacking select and bind exactly as documented.

Property theorems about `Model/Match.lean` (the algorithmic matcher that mirrors the compiled
code) against the declarative definition `Decl` / `DeclSeq` / `DeclEnts` (the language guide),
and about `Model/Unpack.lean`.  All statements are for every pattern, value, register file and
float implementation `F`; there is no size bound.

Where the code (hence the model) deviates from the guide, the deviation is proved as a
*negation witness* (`…_witness`, by `decide`) together with the universally quantified shape
(`…_raises`) and the positive theorem carries the excluding hypothesis and the suffix `_partial`:

* F-C03-1 `ellipsis_on_unsized_raises`, F-C03-4 `map_on_null_raises`,
  F-C03-5 `named_rest_on_range_raises`  — errors instead of "try the next arm"
  (`no_match_falls_through_partial` assumes the run raised no error);
* F-C03-2 is repaired (/repo 65de4a1): `match_local_is_match_value`, `match_local_same_id_spec`,
  `match_local_same_id_witness` — `match x` destructures a private copy, so the theorems about a
  subject held in a temporary (`Src.tmp`) cover it, patterns binding `x` included;
* F-C03-3 `nonlast_alt_early_exit_witness` — alternatives other than the last one, on the tree the
  finding was recorded on.  For the repaired code (`Cfg.nestedLast`, /repo 075f64d) the statement
  holds at full strength: `nonlast_alt_spec` (any well-formed pattern, any nesting, any position),
  `first_alt_wins` / `matched_is_first_alt` / `unmatched_iff_no_alt` (all alternatives of an arm,
  single- and multi-value), `selects_decl` / `skips_decl` / `arm_taken` (guards), and with
  `Safe` (7886e40, 1750a1b) `pattern_never_raises` / `no_match_falls_through` without side
  condition.  The `_partial` versions (`nonlast_alt_spec_partial`, `first_alt_wins_partial`,
  `no_match_falls_through_partial`) hold for *every* `Cfg`, i.e. also for the code before the
  repairs, under the hypothesis that excludes exactly the defect's shape.
Frame: `pattern_frame` / `failed_pattern_frame` / `arm_frame` — matching or failing, only the
pattern's own variables are ever written.
-/
import KotoVerif.Model.Match
import KotoVerif.Model.Unpack
import KotoVerif.Lemmas.C03
import KotoVerif.Lemmas.C03Alt

namespace KotoVerif.C03
open KotoVerif KotoVerif.Match KotoVerif.Unpack

/-! ## patterns: algorithmic ≡ declarative (last alternative, subject in a temporary) -/

/-- The matcher succeeds with registers `ρ'` exactly when the declarative definition yields
bindings `β` and `ρ'` is `ρ` with `β` written — for every well-formed pattern (any nesting) and
every range-free value. It never takes the `match_end` jump in a last alternative. -/
theorem pat_spec (F : FloatOps) (C : Cfg) (p : Pat) (v : Val) (ρ ρ' : Env) (il : Bool)
    (hw : wf p = true) (hv : plain v = true) :
    mPat F C true p il (.direct (.tmp v)) ρ = .ok ρ' ↔ ∃ β, Decl F p v β ∧ ρ' = ρ.apply β := by
  have sp := spec_pat (C := C) F p hw il (.direct (.tmp v)) ρ v (Or.inl rfl) hv
  constructor
  · exact sp.2.1 ρ'
  · rintro ⟨β, hd, rfl⟩; exact sp.1 β hd

/-- index arithmetic ≡ list splitting, for tuples: `(pre…, rest?, post…)` matches `xs` iff
`xs = a ++ mid ++ b` with the fixed parts matching element-wise (`|a| = |pre|`, `|b| = |post|`),
`mid = []` unless there is an ellipsis, and `rest` bound to the tuple of the middle. -/
theorem seq_pat_spec (F : FloatOps) (C : Cfg) (pre post : List Pat) (rest : Option (Option Name)) (xs : List Val)
    (ρ ρ' : Env) (hw : wf (.seq pre rest post) = true) (hv : plainL xs = true) :
    mPat F C true (.seq pre rest post) true (.direct (.tmp (.tuple xs))) ρ = .ok ρ' ↔
      ∃ β, DeclSeq F pre rest post xs (fun i j => .tuple ((xs.drop i).take (j - i))) β ∧ ρ' = ρ.apply β := by
  rw [pat_spec F C _ _ ρ ρ' true hw (by simpa [plain] using hv)]
  constructor
  · rintro ⟨β, hd, rfl⟩
    simp only [Decl, view, Option.some.injEq, Prod.mk.injEq] at hd
    obtain ⟨xs', sl, a, mid, b, β₁, β₂, ⟨rfl, rfl⟩, h⟩ := hd
    exact ⟨β, ⟨a, mid, b, β₁, β₂, h⟩, rfl⟩
  · rintro ⟨β, ⟨a, mid, b, β₁, β₂, h⟩, rfl⟩
    exact ⟨β, by simp only [Decl, view]; exact ⟨xs, _, a, mid, b, β₁, β₂, rfl, h⟩, rfl⟩

/-- the same for lists (`rest` is bound to a new list) -/
theorem seq_pat_spec_list (F : FloatOps) (C : Cfg) (pre post : List Pat) (rest : Option (Option Name)) (xs : List Val)
    (ρ ρ' : Env) (hw : wf (.seq pre rest post) = true) (hv : plainL xs = true) :
    mPat F C true (.seq pre rest post) true (.direct (.tmp (.list xs))) ρ = .ok ρ' ↔
      ∃ β, DeclSeq F pre rest post xs (fun i j => .list ((xs.drop i).take (j - i))) β ∧ ρ' = ρ.apply β := by
  rw [pat_spec F C _ _ ρ ρ' true hw (by simpa [plain] using hv)]
  constructor
  · rintro ⟨β, hd, rfl⟩
    simp only [Decl, view, Option.some.injEq, Prod.mk.injEq] at hd
    obtain ⟨xs', sl, a, mid, b, β₁, β₂, ⟨rfl, rfl⟩, h⟩ := hd
    exact ⟨β, ⟨a, mid, b, β₁, β₂, h⟩, rfl⟩
  · rintro ⟨β, ⟨a, mid, b, β₁, β₂, h⟩, rfl⟩
    exact ⟨β, by simp only [Decl, view]; exact ⟨xs, _, a, mid, b, β₁, β₂, rfl, h⟩, rfl⟩

/-- the split is determined by the patterns: the fixed parts have the patterns' lengths -/
theorem seq_split_lengths (F : FloatOps) (C : Cfg) (pre post : List Pat) (rest : Option (Option Name))
    (xs : List Val) (sl : Nat → Nat → Val) (β : Writes) (h : DeclSeq F pre rest post xs sl β) :
    pre.length + post.length ≤ xs.length ∧ (rest = none → xs.length = pre.length + post.length) := by
  obtain ⟨a, mid, b, β₁, β₂, rfl, hm, h1, h2, _⟩ := h
  have ha := DeclAll_length _ _ _ h1
  have hb := DeclAll_length _ _ _ h2
  constructor
  · simp; omega
  · intro hr; simp [hm hr]; omega

/-- map patterns: every listed key is present, the hints hold, named entries are bound -/
theorem map_pat_spec (F : FloatOps) (C : Cfg) (es : List Ent) (ty : Option Ty) (v : Val) (ρ ρ' : Env)
    (hv : plain v = true) :
    mPat F C true (.map es ty) true (.direct (.tmp v)) ρ = .ok ρ' ↔
      tyFail ty v = false ∧ ∃ β, DeclEnts es v β ∧ ρ' = ρ.apply β := by
  rw [pat_spec F C _ _ ρ ρ' true rfl hv]
  simp only [Decl]
  constructor
  · rintro ⟨β, ⟨h1, h2⟩, rfl⟩; exact ⟨h1, β, h2, rfl⟩
  · rintro ⟨h1, β, h2, rfl⟩; exact ⟨β, ⟨h1, h2⟩, rfl⟩

/-- `key as x` binds `x` (not `key`) to the value stored under `key` -/
theorem map_as_renames (k : List Nat) (x : Name) (m : List (Val × Val)) (β : Writes) :
    DeclEnts [⟨k, some x, none⟩] (.map m) β ↔ ∃ w, lookupKey k m = some w ∧ β = [(x, w)] := by
  simp only [DeclEnts]
  constructor
  · rintro ⟨m', w, β', hm, hl, _, rfl, rfl⟩
    cases hm; exact ⟨w, hl, by simp⟩
  · rintro ⟨w, hl, rfl⟩; exact ⟨m, w, [], rfl, hl, rfl, rfl, by simp⟩

/-- a map pattern only matches when every key is present -/
theorem map_keys_present : ∀ (es : List Ent) (m : List (Val × Val)) (β : Writes),
    DeclEnts es (.map m) β → ∀ e ∈ es, (lookupKey e.key m).isSome = true
  | [], _, _, _ => by simp
  | e :: es, m, β, h => by
    simp only [DeclEnts] at h
    obtain ⟨m', x, β', hm, hl, _, hd, _⟩ := h
    cases hm
    intro e' he'
    rcases List.mem_cons.mp he' with rfl | h'
    · simp [hl]
    · exact map_keys_present es m β' hd e' h'

/-- literal patterns select by equality and bind nothing -/
theorem lit_pat_spec (F : FloatOps) (C : Cfg) (l : Lit) (v : Val) (ρ : Env) (il : Bool) :
    mPat F C true (.lit l) il (.direct (.tmp v)) ρ = (if litEq F l v then .ok ρ else .fail ρ) := by
  simp [mPat, fetch, Src.rd]

theorem id_always (F : FloatOps) (C : Cfg) (x : Name) (v : Val) (ρ : Env) (il : Bool) :
    mPat F C true (.id x none) il (.direct (.tmp v)) ρ = .ok (ρ.set x v) := by
  simp [mPat, fetch, Src.rd, tyFail]

theorem wildcard_always (F : FloatOps) (C : Cfg) (a : Acc) (ρ : Env) (il : Bool) :
    mPat F C true (.wild none) il a ρ = .ok ρ := by
  simp [mPat]

/-- type-hinted patterns are checks that fall through (never an error).  On the tree the
findings were recorded on the variable is written *before* the check (F-C03-8: `x = 1; match 's'`
/ `x: Number then …` / `else x` yields `'s'`); with `requests/C03-fix-8.diff` (`typedFirst`) a
failed check leaves the registers untouched -/
theorem typed_id_checks (F : FloatOps) (C : Cfg) (x : Name) (t : Ty) (v : Val) (ρ : Env) (il : Bool) :
    mPat F C true (.id x (some t)) il (.direct (.tmp v)) ρ =
      (if tyOk t v then .ok (ρ.set x v) else .fail (if C.typedFirst then ρ else ρ.set x v)) := by
  simp only [mPat, fetch, Src.rd, tyFail, fin_true]
  cases tyOk t v <;> simp

theorem typed_fail_untouched_repaired (F : FloatOps) (C : Cfg) (la il : Bool) (x : Name) (t : Ty) (v : Val)
    (ρ : Env) (hC : C.typedFirst = true) (ht : tyOk t v = false) :
    mPat F C la (.id x (some t)) il (.direct (.tmp v)) ρ = .fail ρ := by
  simp [mPat, fetch, Src.rd, tyFail, ht, hC]

/-! ## binding exactly the named parts -/

/-- on success the registers are `ρ` with the pattern's variables written, in pattern order,
and nothing else -/
theorem binds_exactly (F : FloatOps) (C : Cfg) (p : Pat) (v : Val) (ρ ρ' : Env) (il : Bool)
    (hw : wf p = true) (hv : plain v = true)
    (h : mPat F C true p il (.direct (.tmp v)) ρ = .ok ρ') :
    (∃ β, ρ' = ρ.apply β ∧ β.map Prod.fst = patVars p) ∧ ∀ y, y ∉ patVars p → ρ' y = ρ y := by
  obtain ⟨β, hd, rfl⟩ := (pat_spec F C p v ρ ρ' il hw hv).1 h
  have hn := decl_names F p v β hd
  exact ⟨⟨β, rfl, hn⟩, fun y hy => apply_frame ρ β y (by rwa [hn])⟩

/-! ## arm selection -/

/-- arm is passed over: no alternative matches, or one does and the guard is false -/
def Skips (F : FloatOps) (C : Cfg) (arm : Arm) (s : Src) (ρ ρ' : Env) : Prop :=
  arm.alts ≠ [] ∧
    (mAlts F C arm.alts s ρ = .unmatched ρ' ∨
      (mAlts F C arm.alts s ρ = .matched ρ' ∧ ∃ g, arm.guard = some g ∧ g ρ' = false))

/-- arm is taken: `else`, or some alternative matches and the guard (if any) is true -/
def Selects (F : FloatOps) (C : Cfg) (arm : Arm) (s : Src) (ρ ρ' : Env) : Prop :=
  (arm.alts = [] ∧ ρ' = ρ) ∨
    (arm.alts ≠ [] ∧ mAlts F C arm.alts s ρ = .matched ρ' ∧ ∀ g, arm.guard = some g → g ρ' = true)

def SkipsAll (F : FloatOps) (C : Cfg) : List Arm → Src → Env → Env → Prop
  | [], _, ρ, ρ' => ρ' = ρ
  | a :: as, s, ρ, ρ' => ∃ ρ₁, Skips F C a s ρ ρ₁ ∧ SkipsAll F C as s ρ₁ ρ'

theorem evalArms_skip (F : FloatOps) (C : Cfg) (arm : Arm) (arms : List Arm) (i : Nat) (s : Src) (ρ ρ₁ : Env)
    (h : Skips F C arm s ρ ρ₁) :
    (evalArms F C (arm :: arms) i s ρ).out = (evalArms F C arms (i + 1) s ρ₁).out := by
  obtain ⟨hne, h | ⟨h, g, hg, hf⟩⟩ := h
  · have : arm.alts.isEmpty = false := by cases ha : arm.alts <;> simp_all
    simp [evalArms, this, h]
  · have : arm.alts.isEmpty = false := by cases ha : arm.alts <;> simp_all
    simp [evalArms, this, h, hg, hf]

theorem evalArms_select (F : FloatOps) (C : Cfg) (arm : Arm) (arms : List Arm) (i : Nat) (s : Src) (ρ ρ' : Env)
    (h : Selects F C arm s ρ ρ') : (evalArms F C (arm :: arms) i s ρ).out = .arm i ρ' := by
  rcases h with ⟨he, rfl⟩ | ⟨hne, h, hg⟩
  · simp [evalArms, he]
  · have : arm.alts.isEmpty = false := by cases ha : arm.alts <;> simp_all
    cases hgd : arm.guard with
    | none => simp [evalArms, this, h, hgd]
    | some g => simp [evalArms, this, h, hgd, hg g hgd]

/-- the arm that runs is the first one that has a matching alternative and a true guard:
if all arms before it are passed over and it is selected, it runs with the bindings of its
matching alternative -/
theorem first_match (F : FloatOps) (C : Cfg) (before : List Arm) (arm : Arm) (after : List Arm) (i : Nat)
    (s : Src) (ρ ρk ρ' : Env) (hs : SkipsAll F C before s ρ ρk) (hsel : Selects F C arm s ρk ρ') :
    (evalArms F C (before ++ arm :: after) i s ρ).out = .arm (i + before.length) ρ' := by
  induction before generalizing i ρ with
  | nil =>
    simp only [SkipsAll] at hs; subst hs
    simpa using evalArms_select F C arm after i s _ ρ' hsel
  | cons a as ih =>
    obtain ⟨ρ₁, h1, h2⟩ := hs
    rw [List.cons_append, evalArms_skip F C a _ i s ρ ρ₁ h1, ih (i + 1) ρ₁ h2]
    simp; omega

/-- conversely: whatever arm runs, every arm before it was passed over and it was selected —
so the index is the least one with (some alternative matches) ∧ (guard true) -/
theorem first_match_conv (F : FloatOps) (C : Cfg) : ∀ (arms : List Arm) (i j : Nat) (s : Src) (ρ ρ' : Env),
    (evalArms F C arms i s ρ).out = .arm j ρ' →
    ∃ before arm after ρk, arms = before ++ arm :: after ∧ j = i + before.length ∧
      SkipsAll F C before s ρ ρk ∧ Selects F C arm s ρk ρ'
  | [], i, j, s, ρ, ρ', h => by simp [evalArms] at h
  | arm :: arms, i, j, s, ρ, ρ', h => by
    by_cases he : arm.alts = []
    · simp [evalArms, he] at h
      obtain ⟨rfl, rfl⟩ := h
      exact ⟨[], arm, arms, ρ, rfl, rfl, rfl, Or.inl ⟨he, rfl⟩⟩
    · have hie : arm.alts.isEmpty = false := by cases ha : arm.alts <;> simp_all
      simp only [evalArms, hie] at h
      cases hm : mAlts F C arm.alts s ρ with
      | err e => simp [hm] at h
      | unmatched ρ₁ =>
        simp only [hm] at h
        obtain ⟨before, arm', after, ρk, rfl, rfl, hs, hsel⟩ := first_match_conv F C arms (i + 1) j s ρ₁ ρ' (by simpa using h)
        exact ⟨arm :: before, arm', after, ρk, rfl, by simp; omega, ⟨ρ₁, ⟨he, Or.inl hm⟩, hs⟩, hsel⟩
      | matched ρ₁ =>
        simp only [hm] at h
        cases hg : arm.guard with
        | none =>
          simp [hg] at h
          obtain ⟨rfl, rfl⟩ := h
          exact ⟨[], arm, arms, ρ, rfl, rfl, rfl, Or.inr ⟨he, hm, by simp [hg]⟩⟩
        | some g =>
          simp only [hg] at h
          by_cases hgt : g ρ₁ = true
          · simp [hgt] at h
            obtain ⟨rfl, rfl⟩ := h
            exact ⟨[], arm, arms, ρ, rfl, rfl, rfl, Or.inr ⟨he, hm, by intro g' hg'; rw [hg] at hg'; cases hg'; exact hgt⟩⟩
          · simp [hgt] at h
            obtain ⟨before, arm', after, ρk, rfl, rfl, hs, hsel⟩ := first_match_conv F C arms (i + 1) j s ρ₁ ρ' h
            exact ⟨arm :: before, arm', after, ρk, rfl, by simp; omega,
              ⟨ρ₁, ⟨he, Or.inr ⟨hm, g, hg, by simpa using hgt⟩⟩, hs⟩, hsel⟩

/-- no arm matches ⇒ the match yields Null (`Out.none`), and only then -/
theorem no_match_null (F : FloatOps) (C : Cfg) : ∀ (arms : List Arm) (i : Nat) (s : Src) (ρ ρ' : Env),
    (evalArms F C arms i s ρ).out = .none ρ' ↔ SkipsAll F C arms s ρ ρ'
  | [], i, s, ρ, ρ' => by simp [evalArms, SkipsAll, eq_comm]
  | arm :: arms, i, s, ρ, ρ' => by
    have ih := fun ρ₁ => no_match_null F C arms (i + 1) s ρ₁ ρ'
    by_cases he : arm.alts = []
    · simp [evalArms, he, SkipsAll, Skips]
    · have hie : arm.alts.isEmpty = false := by cases ha : arm.alts <;> simp_all
      simp only [evalArms, hie, SkipsAll, Skips]
      cases hm : mAlts F C arm.alts s ρ with
      | err e => simp
      | unmatched ρ₁ =>
        simp only [Bool.false_eq_true, if_false]
        rw [ih ρ₁]
        constructor
        · intro h; exact ⟨ρ₁, ⟨he, Or.inl rfl⟩, h⟩
        · rintro ⟨ρ₂, ⟨_, h | ⟨h, _⟩⟩, h2⟩
          · cases h; exact h2
          · cases h
      | matched ρ₁ =>
        simp only [Bool.false_eq_true, if_false]
        cases hg : arm.guard with
        | none => simp
        | some g =>
          by_cases hgt : g ρ₁ = true
          · simp only [hgt, if_true]
            constructor
            · intro h; cases h
            · rintro ⟨ρ₂, ⟨_, h | ⟨h, g', hg', hf⟩⟩, _⟩
              · cases h
              · cases h; cases hg'; rw [hgt] at hf; cases hf
          · simp only [hgt, Bool.false_eq_true, if_false]
            rw [ih ρ₁]
            constructor
            · intro h; exact ⟨ρ₁, ⟨he, Or.inr ⟨rfl, g, rfl, by simpa using hgt⟩⟩, h⟩
            · rintro ⟨ρ₂, ⟨_, h | ⟨h, _⟩⟩, h2⟩
              · cases h
              · cases h; exact h2

theorem skipsAll_append (F : FloatOps) (C : Cfg) : ∀ (as bs : List Arm) (s : Src) (ρ ρ₁ ρ₂ : Env),
    SkipsAll F C as s ρ ρ₁ → SkipsAll F C bs s ρ₁ ρ₂ → SkipsAll F C (as ++ bs) s ρ ρ₂
  | [], bs, s, ρ, ρ₁, ρ₂, h1, h2 => by simp only [SkipsAll] at h1; subst h1; simpa using h2
  | a :: as, bs, s, ρ, ρ₁, ρ₂, ⟨ρ', ha, has⟩, h2 =>
    ⟨ρ', ha, skipsAll_append F C as bs s ρ' ρ₁ ρ₂ has h2⟩

/-- a guarded wildcard is not an `else`: when every earlier arm is passed over and the last arm is
`_ if g` (or `x if g`, which binds first) with a false guard, *no* arm runs and the match yields
Null — whatever the result register held before (`x = 10; x = match x` / `1 then …` /
`_ if x > 100 then …` is null, not 10) -/
theorem guarded_wildcard_is_not_else (F : FloatOps) (C : Cfg) (before : List Arm) (g : Env → Bool) (i : Nat)
    (s : Src) (ρ ρk : Env) (hs : SkipsAll F C before s ρ ρk) (hg : g ρk = false) :
    (evalArms F C (before ++ [⟨[.one (.wild none)], some g⟩]) i s ρ).out = .none ρk := by
  rw [no_match_null]
  refine skipsAll_append F C before _ s ρ ρk ρk hs ⟨ρk, ⟨by simp, Or.inr ⟨?_, g, rfl, hg⟩⟩, rfl⟩
  simp [mAlts, mAlt, mPat]

theorem guarded_id_is_not_else (F : FloatOps) (C : Cfg) (before : List Arm) (x : Name) (g : Env → Bool) (i : Nat)
    (v : Val) (ρ ρk : Env) (hs : SkipsAll F C before (.tmp v) ρ ρk) (hg : g (ρk.set x v) = false) :
    (evalArms F C (before ++ [⟨[.one (.id x none)], some g⟩]) i (.tmp v) ρ).out = .none (ρk.set x v) := by
  rw [no_match_null]
  refine skipsAll_append F C before _ (.tmp v) ρ ρk _ hs ⟨ρk.set x v, ⟨by simp, Or.inr ⟨?_, g, rfl, hg⟩⟩, rfl⟩
  simp [mAlts, mAlt, mPat, fetch, Src.rd, tyFail]

theorem evalArms_no_subj (F : FloatOps) (C : Cfg) : ∀ (arms : List Arm) (i : Nat) (s : Src) (ρ : Env),
    Ev.subj ∉ (evalArms F C arms i s ρ).trace
  | [], _, _, _ => by simp [evalArms]
  | arm :: arms, i, s, ρ => by
    simp only [evalArms]
    split
    · simp
    · split
      · simp
      · exact evalArms_no_subj F C arms (i + 1) s _
      · split
        · simp
        · split
          · simp
          · simp only [List.mem_cons, reduceCtorEq, false_or]
            exact evalArms_no_subj F C arms (i + 1) s _

/-- the subject expression is evaluated exactly once, before any guard or body -/
theorem subject_once (F : FloatOps) (C : Cfg) (v : Val) (arms : List Arm) (ρ : Env) :
    (evalMatch F C (.expr v) arms ρ).trace.count .subj = 1 ∧
      (evalMatch F C (.expr v) arms ρ).trace.head? = some .subj := by
  have h := evalArms_no_subj F C arms 0 (.tmp v) ρ
  simp [evalMatch, List.count_eq_zero.mpr h]

/-! ## a bare local as subject (`match x`) -/

/-- `compile_match` matches a private copy of a local (`subjectCopied`, /repo 65de4a1): matching
the local `x` is matching its value held in a temporary, so every theorem of this file
(`pat_spec`, `nonlast_alt_spec_partial`, `first_match`, `binds_exactly`, …) applies to `match x`
verbatim — also when patterns bind `x` itself, at any position -/
theorem match_local_is_match_value (F : FloatOps) (C : Cfg) (x : Name) (arms : List Arm) (ρ : Env)
    (hC : C.subjectCopied = true) :
    evalMatch F C (.var x) arms ρ = evalArms F C arms 0 (.tmp (ρ x)) ρ := by
  simp [evalMatch, hC]

/-- in particular: an arm whose pattern may bind the subject's own name runs exactly when the
pattern matches the value the local held *before* the match, with exactly the declared bindings
(replaces the former negative result for F-C03-2) -/
theorem match_local_same_id_spec (F : FloatOps) (C : Cfg) (x : Name) (p : Pat) (ρ : Env) (β : Writes)
    (hC : C.subjectCopied = true) (hw : wf p = true) (hv : plain (ρ x) = true)
    (hd : Decl F p (ρ x) β) :
    (evalMatch F C (.var x) [⟨[.one p], none⟩] ρ).out = .arm 0 (ρ.apply β) := by
  rw [match_local_is_match_value F C x _ ρ hC]
  have := (pat_spec F C p (ρ x) ρ (ρ.apply β) true hw hv).2 ⟨β, hd, rfl⟩
  simp [evalArms, mAlts, mAlt, this]

/-! ## deviations from the guide: shapes (for all inputs) and witnesses -/

/-- F-C03-1 (the recorded tree, `sizeNullJumps = false`): *every* parenthesised pattern with an
ellipsis (any fixed parts, anonymous or named, last or non-last alternative) raises on *every*
value without a size -/
theorem ellipsis_on_unsized_raises (F : FloatOps) (C : Cfg) (la il : Bool) (pre post : List Pat) (r : Option Name)
    (v : Val) (ρ : Env) (hC : C.sizeNullJumps = false) (hshape : pre = [] ∨ post = []) (hv : vmSize v = none) :
    mPat F C la (.seq pre (some r) post) il (.direct (.tmp v)) ρ = .err .geNull := by
  rcases hshape with rfl | rfl <;> simp [mPat, container, Src.rd, sizeCheck, hv, restCount, hC]

/-- …and with the repair `requests/C03-fix-1.diff` (`sizeNullJumps = true`) the same patterns fall
through on the same values, writing nothing -/
theorem ellipsis_on_unsized_falls_through_repaired (F : FloatOps) (C : Cfg) (la il : Bool) (pre post : List Pat)
    (r : Option Name) (v : Val) (ρ : Env) (hC : C.sizeNullJumps = true) (hshape : pre = [] ∨ post = [])
    (hv : vmSize v = none) :
    mPat F C la (.seq pre (some r) post) il (.direct (.tmp v)) ρ = .fail ρ := by
  rcases hshape with rfl | rfl <;> simp [mPat, container, Src.rd, sizeCheck, hv, restCount, hC]

/-- …whereas without an ellipsis the same value falls through, as documented -/
theorem exact_on_unsized_falls_through (F : FloatOps) (C : Cfg) (la il : Bool) (pre : List Pat) (v : Val) (ρ : Env)
    (hpre : pre ≠ []) (hv : vmSize v = none) :
    mPat F C la (.seq pre none []) il (.direct (.tmp v)) ρ = .fail ρ := by
  rw [mPat_exact F la il pre _ ρ (.tmp v) hpre rfl]
  simp [Src.rd, sizeCheck, hv]

/-- F-C03-4 (recorded tree): a map pattern with at least one key raises on null and on booleans -/
theorem map_on_null_raises (F : FloatOps) (C : Cfg) (la il : Bool) (e : Ent) (es : List Ent) (ρ : Env)
    (hC : C.accessFalls = false) :
    mPat F C la (.map (e :: es) none) il (.direct (.tmp .null)) ρ = .err .access ∧
    ∀ b, mPat F C la (.map (e :: es) none) il (.direct (.tmp (.bool b))) ρ = .err .access := by
  cases hA : C.mapAtomic <;> simp [mPat, container, Src.rd, tyFail, mEnts, mEntsSeq, collectEnts, tryAccess, hC, hA]

/-- with `requests/C03-fix-4.diff` it falls through -/
theorem map_on_null_falls_through_repaired (F : FloatOps) (C : Cfg) (la il : Bool) (e : Ent) (es : List Ent)
    (ρ : Env) (hC : C.accessFalls = true) :
    mPat F C la (.map (e :: es) none) il (.direct (.tmp .null)) ρ = .fail ρ ∧
    ∀ b, mPat F C la (.map (e :: es) none) il (.direct (.tmp (.bool b))) ρ = .fail ρ := by
  cases hA : C.mapAtomic <;> simp [mPat, container, Src.rd, tyFail, mEnts, mEntsSeq, collectEnts, tryAccess, hC, hA]

/-- F-C03-5 (recorded tree): `(rest...)` on any bounded range raises (Size and TempIndex accept
ranges, SliceFrom does not) while `(...)` matches it -/
theorem named_rest_on_range_raises (F : FloatOps) (C : Cfg) (il : Bool) (a e : Int64) (incl : Bool) (x : Name)
    (ρ : Env) (hC : C.rangeSlices = false) :
    mPat F C true (.seq [] (some (some x)) []) il (.direct (.tmp (.range (some a) (some (e, incl))))) ρ = .err .slice ∧
    mPat F C true (.seq [] (some none) []) il (.direct (.tmp (.range (some a) (some (e, incl))))) ρ = .ok ρ := by
  constructor <;> simp [mPat, container, Src.rd, sizeCheck, vmSize, restCount, mPats, sliceFrom, hC]

/-- with `requests/C03-fix-5.diff` it never raises: `(rest...)` binds a range -/
theorem named_rest_on_range_binds_repaired (F : FloatOps) (C : Cfg) (il : Bool) (a e : Int64) (incl : Bool)
    (x : Name) (ρ : Env) (hC : C.rangeSlices = true) :
    mPat F C true (.seq [] (some (some x)) []) il (.direct (.tmp (.range (some a) (some (e, incl))))) ρ
      = .ok (ρ.set x (mkRange (rangeBounds a e incl).1 (rangeBounds a e incl).2)) := by
  simp [mPat, container, Src.rd, sizeCheck, vmSize, restCount, mPats, sliceFrom, hC, sidx]

/-- what "no arm matches ⇒ next arm" needs: if the run of a well-formed pattern on a range-free
value raised no error, then it fails exactly when the declarative definition has no match -/
theorem no_match_falls_through_partial (F : FloatOps) (C : Cfg) (p : Pat) (v : Val) (ρ : Env) (il : Bool)
    (hw : wf p = true) (hv : plain v = true)
    (hnoerr : ∀ e, mPat F C true p il (.direct (.tmp v)) ρ ≠ .err e) :
    (∃ ρ', mPat F C true p il (.direct (.tmp v)) ρ = .fail ρ') ↔ ¬ ∃ β, Decl F p v β := by
  have sp := spec_pat (C := C) F p hw il (.direct (.tmp v)) ρ v (Or.inl rfl) hv
  constructor
  · rintro ⟨ρ', h⟩ ⟨β, hd⟩
    rw [sp.1 β hd] at h; cases h
  · intro hno
    cases hr : mPat F C true p il (.direct (.tmp v)) ρ with
    | ok ρ1 => obtain ⟨β, hd, _⟩ := sp.2.1 ρ1 hr; exact absurd ⟨β, hd⟩ hno
    | done ρ1 => exact absurd hr (sp.2.2 _)
    | fail ρ1 => exact ⟨ρ1, rfl⟩
    | err e => exact absurd hr (hnoerr e)

/-- Alternatives other than the last one signal success by the jump to `match_end` (`R.done`).
On every well-formed pattern that is `earlyFree` — no non-empty parenthesised pattern stands in a
non-last position of another one — this is again exactly the declarative definition, for any
nesting.  The hypothesis excludes precisely the shape of F-C03-3 (witness below), hence `_partial`. -/
theorem nonlast_alt_spec_partial (F : FloatOps) (C : Cfg) (p : Pat) (v : Val) (ρ ρ' : Env)
    (hw : wf p = true) (he : earlyFree p = true) (hv : plain v = true) :
    mPat F C false p true (.direct (.tmp v)) ρ = .done ρ' ↔ ∃ β, Decl F p v β ∧ ρ' = ρ.apply β := by
  have sp := specN_pat (C := C) F p hw he (.direct (.tmp v)) ρ v (Or.inl rfl) hv
  constructor
  · exact sp.2 ρ'
  · rintro ⟨β, hd, rfl⟩; exact sp.1 β hd

/-- the same without any side condition for patterns that are not parenthesised -/
theorem nonlast_alt_flat_spec (F : FloatOps) (C : Cfg) (p : Pat) (v : Val) (ρ ρ' : Env)
    (hflat : notSeq p = true) (hv : plain v = true) :
    mPat F C false p true (.direct (.tmp v)) ρ = .done ρ' ↔ ∃ β, Decl F p v β ∧ ρ' = ρ.apply β := by
  cases p with
  | seq pre rest post => simp [notSeq] at hflat
  | _ => exact nonlast_alt_spec_partial F C _ v ρ ρ' rfl rfl hv

/-- an alternative that matches wins over the alternatives after it, with exactly its bindings -/
theorem first_alt_wins_partial (F : FloatOps) (C : Cfg) (p : Pat) (alts : List Alt) (v : Val) (ρ : Env) (β : Writes)
    (hw : wf p = true) (he : earlyFree p = true) (hv : plain v = true) (hd : Decl F p v β) :
    mAlts F C (.one p :: alts) (.tmp v) ρ = .matched (ρ.apply β) := by
  cases alts with
  | nil =>
    have := (pat_spec F C p v ρ (ρ.apply β) true hw hv).2 ⟨β, hd, rfl⟩
    simp [mAlts, mAlt, this]
  | cons b rest =>
    have := (nonlast_alt_spec_partial F C p v ρ (ρ.apply β) hw he hv).2 ⟨β, hd, rfl⟩
    simp [mAlts, mAlt, this]

/-! ## map patterns bind all-or-nothing (/repo 3d805f4) -/

/-- a map pattern that does not match — whatever the reason: the map's type hint, a missing key
(first, middle or last entry), an entry's failed type check — leaves *every* register untouched;
in any alternative, at any position, with the subject in a register or a temporary -/
theorem map_pattern_atomic (F : FloatOps) (C : Cfg) (la il : Bool) (es : List Ent) (ty : Option Ty) (a : Acc)
    (ρ ρ' : Env) (hC : C.mapAtomic = true) (h : mPat F C la (.map es ty) il a ρ = .fail ρ') : ρ' = ρ := by
  simp only [mPat] at h
  cases hc : container ρ a with
  | error e => rw [hc] at h; cases h
  | ok s =>
    rw [hc] at h
    simp only at h
    split at h
    · cases h; rfl
    · simp only [mEnts, hC, if_true] at h
      cases hcol : collectEnts C es (s.rd ρ) with
      | error er => rw [hcol] at h; cases h
      | ok o =>
        cases o with
        | none => rw [hcol] at h; cases h; rfl
        | some β => rw [hcol] at h; simp only at h; unfold fin at h; split at h <;> cases h

/-- … and one that matches writes exactly the named entries, in entry order, in one go -/
theorem map_pattern_commits (F : FloatOps) (C : Cfg) (es : List Ent) (v : Val) (ρ : Env) (β : Writes)
    (hd : DeclEnts es v β) : mEnts C es (.tmp v) ρ = .ok (ρ.apply β) :=
  (mEnts_spec (C := C) es v ρ).1 β hd

/-! ## frame: what a pattern — matching or failing — can write -/

/-- Whatever the outcome (match, jump to the guard, *failure*), in any alternative, at any access
path, with the subject in a register or a temporary: the registers afterwards differ from the
registers before only on the pattern's own variables.  (A failed alternative may leave *some* of
them written — `failed_alt_writes_witness` — but never anything else.) -/
theorem pattern_frame (F : FloatOps) (C : Cfg) (p : Pat) (la il : Bool) (a : Acc) (ρ ρ' : Env)
    (h : mPat F C la p il a ρ = .ok ρ' ∨ mPat F C la p il a ρ = .done ρ' ∨ mPat F C la p il a ρ = .fail ρ') :
    ∀ y, y ∉ patVars p → ρ' y = ρ y := by
  have hf := frame_pat (C := C) F p la il a ρ
  rcases h with h | h | h <;> (rw [h] at hf; exact hf)

theorem failed_pattern_frame (F : FloatOps) (C : Cfg) (p : Pat) (la il : Bool) (a : Acc) (ρ ρ' : Env)
    (h : mPat F C la p il a ρ = .fail ρ') : ∀ y, y ∉ patVars p → ρ' y = ρ y :=
  pattern_frame F C p la il a ρ ρ' (Or.inr (Or.inr h))

def altsVars : List Alt → List Name
  | [] => []
  | a :: as => altVars a ++ altsVars as

theorem alt_frame (F : FloatOps) (C : Cfg) (la : Bool) (a : Alt) (s : Src) (ρ : Env) :
    Within (altVars a) ρ (mAlt F C la a s ρ) := by
  cases a with
  | one p => exact frame_pat F p la true (.direct s) ρ
  | many ps => exact frame_pats F ps la s 0 true ρ

/-- the alternatives of an arm, matched or not, write only variables of that arm's patterns -/
theorem arm_frame (F : FloatOps) (C : Cfg) : ∀ (alts : List Alt) (s : Src) (ρ ρ' : Env),
    (mAlts F C alts s ρ = .matched ρ' ∨ mAlts F C alts s ρ = .unmatched ρ') →
    ∀ y, y ∉ altsVars alts → ρ' y = ρ y
  | [], s, ρ, ρ', h => by
    simp [mAlts] at h; subst h; intro _ _; rfl
  | [a], s, ρ, ρ', h => by
    have hf := (alt_frame F C true a s ρ).mono (ys := altsVars [a]) (by intro x hx; simp [altsVars, hx])
    simp only [mAlts] at h
    cases hr : mAlt F C true a s ρ with
    | ok ρ1 => rw [hr] at h hf; simp at h; subst h; exact hf
    | done ρ1 => rw [hr] at h hf; simp at h; subst h; exact hf
    | fail ρ1 => rw [hr] at h hf; simp at h; subst h; exact hf
    | err e => rw [hr] at h; simp at h
  | a :: b :: rest, s, ρ, ρ', h => by
    have hf := (alt_frame F C false a s ρ).mono (ys := altsVars (a :: b :: rest))
      (by intro x hx; simp [altsVars, hx])
    have hrest : ∀ ρ1, Agree (altsVars (a :: b :: rest)) ρ ρ1 →
        (mAlts F C (b :: rest) s ρ1 = .matched ρ' ∨ mAlts F C (b :: rest) s ρ1 = .unmatched ρ') →
        ∀ y, y ∉ altsVars (a :: b :: rest) → ρ' y = ρ y := by
      intro ρ1 h1 h2 y hy
      have := arm_frame F C (b :: rest) s ρ1 ρ' h2 y (by intro hx; exact hy (by simp [altsVars] at hx ⊢; right; exact hx))
      rw [this, h1 y hy]
    simp only [mAlts] at h
    cases hr : mAlt F C false a s ρ with
    | ok ρ1 => rw [hr] at h hf; exact hrest ρ1 hf h
    | done ρ1 => rw [hr] at h hf; simp at h; subst h; exact hf
    | fail ρ1 => rw [hr] at h hf; exact hrest ρ1 hf h
    | err e => rw [hr] at h; simp at h

/-! ## every alternative of an arm, at full strength (the repaired code)

`nestedLast` = /repo 075f64d (F-C03-3), `Safe` = `sizeNullJumps` (7886e40, F-C03-1) ∧ `accessFalls`
(1750a1b, F-C03-4).  The `_partial` statements above remain true for every `Cfg` (they are what
holds on the tree the findings were recorded on); for the current code the side conditions are
gone. -/

/-- **any** alternative other than the last one, **any** well-formed pattern (parenthesised
patterns at every position, any nesting): the jump to `match_end` is taken exactly when the
declarative definition matches, with exactly its bindings -/
theorem nonlast_alt_spec (F : FloatOps) (C : Cfg) (p : Pat) (v : Val) (ρ ρ' : Env)
    (hC : C.nestedLast = true) (hw : wf p = true) (hv : plain v = true) :
    mPat F C false p true (.direct (.tmp v)) ρ = .done ρ' ↔ ∃ β, Decl F p v β ∧ ρ' = ρ.apply β := by
  have sp := specN_pat_full (C := C) F hC p hw (.direct (.tmp v)) ρ v (Or.inl rfl) hv
  exact ⟨sp.2 ρ', fun ⟨β, hd, h⟩ => h ▸ sp.1 β hd⟩

/-- pattern code never raises on plain data: "no match" always means "try the next arm" -/
theorem pattern_never_raises (F : FloatOps) (C : Cfg) (p : Pat) (v : Val) (ρ : Env) (la il : Bool) (e : Err)
    (hS : Safe C) (hw : wf p = true) (hv : plain v = true) :
    mPat F C la p il (.direct (.tmp v)) ρ ≠ .err e :=
  noErr_pat F hS p hw la il (.direct (.tmp v)) ρ v e (Or.inl rfl) hv

/-- `no_match_falls_through_partial` without its hypothesis: the last alternative fails (jumps to
the end of the arm) exactly when the declarative definition has no match -/
theorem no_match_falls_through (F : FloatOps) (C : Cfg) (p : Pat) (v : Val) (ρ : Env) (il : Bool)
    (hS : Safe C) (hw : wf p = true) (hv : plain v = true) :
    (∃ ρ', mPat F C true p il (.direct (.tmp v)) ρ = .fail ρ') ↔ ¬ ∃ β, Decl F p v β :=
  no_match_falls_through_partial F C p v ρ il hw hv
    (fun e => pattern_never_raises F C p v ρ true il e hS hw hv)

/-- what one alternative does, in any position (`la` = it is the last one): either it matches
declaratively and signals success (`ok` when last, the `match_end` jump otherwise) with exactly its
bindings, or it does not match and control reaches the next alternative / the end of the arm, having
touched at most its own variables -/
theorem alt_outcome (F : FloatOps) (C : Cfg) (la : Bool) (a : Alt) (v : Val) (ρ : Env)
    (hC : C.nestedLast = true) (hS : Safe C) (hw : WfAlt a v) (hv : plain v = true) :
    (∃ β, DeclAlt F a v β ∧ mAlt F C la a (.tmp v) ρ = (if la then R.ok (ρ.apply β) else R.done (ρ.apply β))) ∨
    ((¬ ∃ β, DeclAlt F a v β) ∧ ∃ ρ₁, Agree (altVars a) ρ ρ₁ ∧
      (mAlt F C la a (.tmp v) ρ = .fail ρ₁ ∨ (la = false ∧ mAlt F C la a (.tmp v) ρ = .ok ρ₁))) := by
  by_cases hd : ∃ β, DeclAlt F a v β
  · left
    obtain ⟨β, hβ⟩ := hd
    refine ⟨β, hβ, ?_⟩
    cases la with
    | true => simpa using (alt_last_spec F a v ρ (ρ.apply β) hw hv).2 ⟨β, hβ, rfl⟩
    | false => simpa using (alt_nonlast_spec F hC a v ρ (ρ.apply β) hw hv).2 ⟨β, hβ, rfl⟩
  · right
    refine ⟨hd, ?_⟩
    have hf := alt_frame F C la a (.tmp v) ρ
    cases hr : mAlt F C la a (.tmp v) ρ with
    | ok ρ₁ =>
      rw [hr] at hf
      cases la with
      | true =>
        obtain ⟨β, hβ, _⟩ := (alt_last_spec F a v ρ ρ₁ hw hv).1 hr
        exact absurd ⟨β, hβ⟩ hd
      | false => exact ⟨ρ₁, hf, Or.inr ⟨rfl, rfl⟩⟩
    | done ρ₁ =>
      cases la with
      | true => exact absurd hr (alt_last_not_done F a v ρ ρ₁ hw hv)
      | false =>
        obtain ⟨β, hβ, _⟩ := (alt_nonlast_spec F hC a v ρ ρ₁ hw hv).1 hr
        exact absurd ⟨β, hβ⟩ hd
    | fail ρ₁ => rw [hr] at hf; exact ⟨ρ₁, hf, Or.inl rfl⟩
    | err e => exact absurd hr (alt_noerr F hS la a v ρ e hw hv)

theorem agree_step {b : Alt} {bs : List Alt} {ρ ρ₁ ρk : Env} (h1 : Agree (altVars b) ρ ρ₁)
    (h2 : Agree (altsVars bs) ρ₁ ρk) : Agree (altsVars (b :: bs)) ρ ρk :=
  Agree.trans (h1.mono (by intro x hx; simp [altsVars, hx])) (h2.mono (by intro x hx; simp [altsVars, hx]))

/-- **the first alternative that matches wins, wherever it stands**: if no alternative before `a`
matches and `a` matches with bindings `β`, the arm's patterns succeed with `β` written on top of
registers `ρk` that differ from the initial ones at most on variables of the earlier, failed
alternatives (F-C03-11) -/
theorem first_alt_wins (F : FloatOps) (C : Cfg) (hC : C.nestedLast = true) (hS : Safe C) :
    ∀ (before : List Alt) (a : Alt) (after : List Alt) (v : Val) (ρ : Env) (β : Writes),
    (∀ x, x ∈ before ++ a :: after → WfAlt x v) → plain v = true →
    (∀ b, b ∈ before → ¬ ∃ β, DeclAlt F b v β) → DeclAlt F a v β →
    ∃ ρk, Agree (altsVars before) ρ ρk ∧
      mAlts F C (before ++ a :: after) (.tmp v) ρ = .matched (ρk.apply β)
  | [], a, after, v, ρ, β, hw, hv, _, hd => by
    refine ⟨ρ, Agree.refl _ _, ?_⟩
    have hwa : WfAlt a v := hw a (by simp)
    cases after with
    | nil =>
      have := (alt_last_spec (C := C) F a v ρ (ρ.apply β) hwa hv).2 ⟨β, hd, rfl⟩
      simp [mAlts, this]
    | cons c cs =>
      have := (alt_nonlast_spec (C := C) F hC a v ρ (ρ.apply β) hwa hv).2 ⟨β, hd, rfl⟩
      simp [mAlts, this]
  | b :: bs, a, after, v, ρ, β, hw, hv, hno, hd => by
    have hwb : WfAlt b v := hw b (by simp)
    obtain ⟨c, cs, hc⟩ : ∃ c cs, bs ++ a :: after = c :: cs := by
      cases bs with
      | nil => exact ⟨a, after, rfl⟩
      | cons c cs => exact ⟨c, cs ++ a :: after, rfl⟩
    have ih := fun ρ₁ => first_alt_wins F C hC hS bs a after v ρ₁ β
      (fun x hx => hw x (by simp at hx ⊢; right; exact hx)) hv
      (fun x hx => hno x (by simp [hx])) hd
    rcases alt_outcome F C false b v ρ hC hS hwb hv with ⟨β', hβ', _⟩ | ⟨_, ρ₁, hag, hres⟩
    · exact absurd ⟨β', hβ'⟩ (hno b (by simp))
    · obtain ⟨ρk, hagk, hm⟩ := ih ρ₁
      refine ⟨ρk, agree_step hag hagk, ?_⟩
      rw [List.cons_append, hc] at *
      rcases hres with h | ⟨_, h⟩ <;> simp [mAlts, h, hm]

/-- conversely: when the arm's patterns succeed, the bindings are those of the **first**
alternative that matches declaratively -/
theorem matched_is_first_alt (F : FloatOps) (C : Cfg) (hC : C.nestedLast = true) (hS : Safe C) :
    ∀ (alts : List Alt) (v : Val) (ρ ρ' : Env), (∀ x, x ∈ alts → WfAlt x v) → plain v = true →
    mAlts F C alts (.tmp v) ρ = .matched ρ' →
    ∃ before a after β ρk, alts = before ++ a :: after ∧ (∀ b, b ∈ before → ¬ ∃ β, DeclAlt F b v β) ∧
      DeclAlt F a v β ∧ Agree (altsVars before) ρ ρk ∧ ρ' = ρk.apply β
  | [], v, ρ, ρ', _, _, h => by simp [mAlts] at h
  | [a], v, ρ, ρ', hw, hv, h => by
    have hwa : WfAlt a v := hw a (by simp)
    rcases alt_outcome F C true a v ρ hC hS hwa hv with ⟨β, hβ, hm⟩ | ⟨_, ρ₁, _, hres⟩
    · simp [mAlts, hm] at h
      exact ⟨[], a, [], β, ρ, rfl, by simp, hβ, Agree.refl _ _, h.symm⟩
    · rcases hres with hm | ⟨hf, _⟩
      · simp [mAlts, hm] at h
      · cases hf
  | a :: b :: rest, v, ρ, ρ', hw, hv, h => by
    have hwa : WfAlt a v := hw a (by simp)
    rcases alt_outcome F C false a v ρ hC hS hwa hv with ⟨β, hβ, hm⟩ | ⟨hno, ρ₁, hag, hres⟩
    · simp [mAlts, hm] at h
      exact ⟨[], a, b :: rest, β, ρ, rfl, by simp, hβ, Agree.refl _ _, h.symm⟩
    · have h' : mAlts F C (b :: rest) (.tmp v) ρ₁ = .matched ρ' := by
        rcases hres with hm | ⟨_, hm⟩ <;> simpa [mAlts, hm] using h
      obtain ⟨before, a', after, β, ρk, heq, hnb, hd, hagk, hρ⟩ :=
        matched_is_first_alt F C hC hS (b :: rest) v ρ₁ ρ' (fun x hx => hw x (by simp at hx ⊢; right; exact hx)) hv h'
      refine ⟨a :: before, a', after, β, ρk, by simp [heq], ?_, hd, agree_step hag hagk, hρ⟩
      intro x hx
      rcases List.mem_cons.mp hx with rfl | hx'
      · exact hno
      · exact hnb x hx'

/-- the arm's patterns fail as a whole exactly when no alternative matches -/
theorem unmatched_iff_no_alt (F : FloatOps) (C : Cfg) (hC : C.nestedLast = true) (hS : Safe C) :
    ∀ (alts : List Alt) (v : Val) (ρ : Env), (∀ x, x ∈ alts → WfAlt x v) → plain v = true →
    ((∃ ρ', mAlts F C alts (.tmp v) ρ = .unmatched ρ') ↔ ∀ a, a ∈ alts → ¬ ∃ β, DeclAlt F a v β)
  | [], v, ρ, _, _ => by simp [mAlts]
  | [a], v, ρ, hw, hv => by
    have hwa : WfAlt a v := hw a (by simp)
    rcases alt_outcome F C true a v ρ hC hS hwa hv with ⟨β, hβ, hm⟩ | ⟨hno, ρ₁, _, hres⟩
    · simp only [mAlts, hm, if_true]
      constructor
      · rintro ⟨ρ', h⟩; cases h
      · intro h; exact absurd ⟨β, hβ⟩ (h a (by simp))
    · rcases hres with hm | ⟨hf, _⟩
      · simp only [mAlts, hm]
        exact ⟨fun _ x hx => by simp at hx; subst hx; exact hno, fun _ => ⟨ρ₁, rfl⟩⟩
      · cases hf
  | a :: b :: rest, v, ρ, hw, hv => by
    have hwa : WfAlt a v := hw a (by simp)
    have ih := fun ρ₁ => unmatched_iff_no_alt F C hC hS (b :: rest) v ρ₁
      (fun x hx => hw x (by simp at hx ⊢; right; exact hx)) hv
    rcases alt_outcome F C false a v ρ hC hS hwa hv with ⟨β, hβ, hm⟩ | ⟨hno, ρ₁, _, hres⟩
    · simp only [mAlts, hm, Bool.false_eq_true, if_false]
      constructor
      · rintro ⟨ρ', h⟩; cases h
      · intro h; exact absurd ⟨β, hβ⟩ (h a (by simp))
    · have e : mAlts F C (a :: b :: rest) (.tmp v) ρ = mAlts F C (b :: rest) (.tmp v) ρ₁ := by
        rcases hres with hm | ⟨_, hm⟩ <;> simp [mAlts, hm]
      rw [e, ih ρ₁]
      constructor
      · intro h x hx
        rcases List.mem_cons.mp hx with rfl | hx'
        · exact hno
        · exact h x hx'
      · intro h x hx; exact h x (List.mem_cons_of_mem _ hx)

/-- guards: an arm (not `else`) is taken exactly on the first matching alternative's bindings
with a true guard … -/
theorem selects_decl (F : FloatOps) (C : Cfg) (hC : C.nestedLast = true) (hS : Safe C) (arm : Arm) (v : Val)
    (ρ ρ' : Env) (hne : arm.alts ≠ []) (hw : ∀ x, x ∈ arm.alts → WfAlt x v) (hv : plain v = true)
    (h : Selects F C arm (.tmp v) ρ ρ') :
    ∃ before a after β ρk, arm.alts = before ++ a :: after ∧ (∀ b, b ∈ before → ¬ ∃ β, DeclAlt F b v β) ∧
      DeclAlt F a v β ∧ Agree (altsVars before) ρ ρk ∧ ρ' = ρk.apply β ∧
      ∀ g, arm.guard = some g → g ρ' = true := by
  rcases h with ⟨he, _⟩ | ⟨_, hm, hg⟩
  · exact absurd he hne
  · obtain ⟨before, a, after, β, ρk, heq, hnb, hd, hag, hρ⟩ :=
      matched_is_first_alt F C hC hS arm.alts v ρ ρ' hw hv hm
    exact ⟨before, a, after, β, ρk, heq, hnb, hd, hag, hρ, hg⟩

/-- … and passed over exactly when no alternative matches, or the first matching alternative's
bindings make the guard false -/
theorem skips_decl (F : FloatOps) (C : Cfg) (hC : C.nestedLast = true) (hS : Safe C) (arm : Arm) (v : Val)
    (ρ ρ' : Env) (hw : ∀ x, x ∈ arm.alts → WfAlt x v) (hv : plain v = true)
    (h : Skips F C arm (.tmp v) ρ ρ') :
    (∀ a, a ∈ arm.alts → ¬ ∃ β, DeclAlt F a v β) ∨
    (∃ before a after β ρk g, arm.alts = before ++ a :: after ∧ (∀ b, b ∈ before → ¬ ∃ β, DeclAlt F b v β) ∧
      DeclAlt F a v β ∧ Agree (altsVars before) ρ ρk ∧ ρ' = ρk.apply β ∧ arm.guard = some g ∧ g ρ' = false) := by
  obtain ⟨_, hm | ⟨hm, g, hg, hf⟩⟩ := h
  · exact Or.inl ((unmatched_iff_no_alt F C hC hS arm.alts v ρ hw hv).1 ⟨ρ', hm⟩)
  · obtain ⟨before, a, after, β, ρk, heq, hnb, hd, hag, hρ⟩ :=
      matched_is_first_alt F C hC hS arm.alts v ρ ρ' hw hv hm
    exact Or.inr ⟨before, a, after, β, ρk, g, heq, hnb, hd, hag, hρ, hg, hf⟩

/-- an arm whose first matching alternative has a true guard (for the registers that alternative
produces) is taken -/
theorem arm_taken (F : FloatOps) (C : Cfg) (hC : C.nestedLast = true) (hS : Safe C) (arm : Arm)
    (before : List Alt) (a : Alt) (after : List Alt) (v : Val) (ρ : Env) (β : Writes)
    (heq : arm.alts = before ++ a :: after) (hw : ∀ x, x ∈ arm.alts → WfAlt x v) (hv : plain v = true)
    (hno : ∀ b, b ∈ before → ¬ ∃ β, DeclAlt F b v β) (hd : DeclAlt F a v β)
    (hg : ∀ ρk g, arm.guard = some g → Agree (altsVars before) ρ ρk → g (ρk.apply β) = true) :
    ∃ ρk, Agree (altsVars before) ρ ρk ∧ Selects F C arm (.tmp v) ρ (ρk.apply β) := by
  obtain ⟨ρk, hag, hm⟩ := first_alt_wins F C hC hS before a after v ρ β (by rw [← heq]; exact hw) hv hno hd
  refine ⟨ρk, hag, Or.inr ⟨by rw [heq]; simp, by rw [heq]; exact hm, fun g hgs => hg ρk g hgs hag⟩⟩

/-! non-vacuity of the full-strength statements: the repaired configuration satisfies the
hypotheses, and they cover the very pattern of F-C03-3 (which is not `earlyFree`) -/
example : Cfg.repaired.nestedLast = true ∧ Safe Cfg.repaired := ⟨rfl, rfl, rfl⟩
example : wf (.seq [.seq [.lit (.num (.i 1)), .lit (.num (.i 2))] none [], .lit (.num (.i 4))] none []) = true ∧
    earlyFree (.seq [.seq [.lit (.num (.i 1)), .lit (.num (.i 2))] none [], .lit (.num (.i 4))] none []) = false := by
  decide
example : WfAlt (.many [.id 0 none, .wild none]) (.tuple [.null, .null]) :=
  ⟨rfl, by simp, [.null, .null], rfl, rfl⟩
example : WfAlt (.one (.id 0 none)) .null := rfl

/-! ### concrete witnesses (replayed on the implementation by the harness) -/

/-- a float implementation for closed evaluation (never consulted by the witnesses below) -/
def F0 : FloatOps where
  add a _ := a
  sub a _ := a
  mul a _ := a
  div a _ := a
  rem a _ := a
  pow a _ := a
  neg a := a
  lt _ _ := false
  le _ _ := false
  eq a b := a == b
  ofInt n := n.toUInt64
  toInt b := b.toInt64
  isNaN _ := false

def U : Val := .str [85]
def ρ0 : Env := fun _ => U
def n (i : Int) : Val := Val.int i
def ln (i : Int) : Pat := .lit (.num (.i (Int64.ofInt i)))

def isErr (e : Err) : Out → Bool
  | .err e' => e == e'
  | _ => false
def isArm (i : Nat) : Out → Bool
  | .arm j _ => i == j
  | _ => false
def isNone : Out → Bool
  | .none _ => true
  | _ => false
def outEnv : Out → Env
  | .arm _ ρ => ρ
  | .none ρ => ρ
  | .err _ => ρ0
def isInt (i : Int) : Val → Bool
  | .num (.i k) => k == Int64.ofInt i
  | _ => false
def isStr (bs : List Nat) : Val → Bool
  | .str cs => cs == bs
  | _ => false
def isNullV : Val → Bool
  | .null => true
  | _ => false
def isU : Val → Bool
  | .str [85] => true
  | _ => false

/-- F-C03-1: `match 1` / `(a, rest...) then …` / `else …` raises; the guide's answer is the else arm -/
theorem ellipsis_on_number_witness :
    isErr .geNull (evalMatch F0 Cfg.recorded (.expr (n 1))
      [⟨[.one (.seq [.id 0 none] (some (some 1)) [])], none⟩, ⟨[], none⟩] ρ0).out = true ∧
    ¬ ∃ β, Decl F0 (.seq [.id 0 none] (some (some 1)) []) (n 1) β := by
  refine ⟨by decide, ?_⟩
  rintro ⟨β, h⟩
  simp [Decl, n, Val.int, view] at h

/-- F-C03-2, repaired in /repo 65de4a1 (`subjectCopied`): `x = (1, 2); match x` / `(x, y) then …`
runs the arm with `x = 1`, `y = 2` (before the repair the first write destroyed the subject and the
second element was read from the number 1) -/
theorem match_local_same_id_witness :
    let r := evalMatch F0 { Cfg.recorded with subjectCopied := true } (.var 9)
      [⟨[.one (.seq [.id 9 none, .id 1 none] none [])], none⟩] (ρ0.set 9 (.tuple [n 1, n 2]))
    isArm 0 r.out = true ∧ isInt 1 (outEnv r.out 9) = true ∧ isInt 2 (outEnv r.out 1) = true := by
  decide

/-- F-C03-3: `match ((1, 2), 3)` / `((1, 2), 4) or 5 then …` / `else …` takes arm 0 although 3 ≠ 4;
as the only (last) alternative the same pattern correctly falls to `else` -/
theorem nonlast_alt_early_exit_witness :
    isArm 0 (evalMatch F0 Cfg.recorded (.expr (.tuple [.tuple [n 1, n 2], n 3]))
      [⟨[.one (.seq [.seq [ln 1, ln 2] none [], ln 4] none []), .one (ln 5)], none⟩, ⟨[], none⟩] ρ0).out = true ∧
    isArm 1 (evalMatch F0 Cfg.recorded (.expr (.tuple [.tuple [n 1, n 2], n 3]))
      [⟨[.one (.seq [.seq [ln 1, ln 2] none [], ln 4] none [])], none⟩, ⟨[], none⟩] ρ0).out = true := by
  constructor <;> decide

/-- with `requests/C03-fix-3.diff` (`nestedLast`) the same match falls to `else`, and
`((1, 2), x) or 5` against `((1, 2), 7)` binds `x` -/
theorem nonlast_alt_repaired_witness :
    isArm 1 (evalMatch F0 Cfg.repaired (.expr (.tuple [.tuple [n 1, n 2], n 3]))
      [⟨[.one (.seq [.seq [ln 1, ln 2] none [], ln 4] none []), .one (ln 5)], none⟩, ⟨[], none⟩] ρ0).out = true ∧
    (let r := evalMatch F0 Cfg.repaired (.expr (.tuple [.tuple [n 1, n 2], n 7]))
      [⟨[.one (.seq [.seq [ln 1, ln 2] none [], .id 0 none] none []), .one (ln 5)], none⟩, ⟨[], none⟩] ρ0
     isArm 0 r.out = true ∧ isInt 7 (outEnv r.out 0) = true) := by
  constructor <;> decide

/-- the map-pattern variant of F-C03-11, repaired by 3d805f4: `x = 'orig'; match {x: 1}` /
`{x, y} then …` / `else x` — the else arm runs with `x` untouched (before: `x = 1`, first entry
written, second entry missing) -/
theorem map_pattern_atomic_witness :
    (let r := evalMatch F0 Cfg.repaired (.expr (.map [(.str [120], n 1)]))
        [⟨[.one (.map [⟨[120], some 0, none⟩, ⟨[121], some 1, none⟩] none)], none⟩, ⟨[], none⟩] (ρ0.set 0 (.str [111]))
     isArm 1 r.out = true ∧ isStr [111] (outEnv r.out 0) = true) ∧
    (let r := evalMatch F0 { Cfg.repaired with mapAtomic := false } (.expr (.map [(.str [120], n 1)]))
        [⟨[.one (.map [⟨[120], some 0, none⟩, ⟨[121], some 1, none⟩] none)], none⟩, ⟨[], none⟩] (ρ0.set 0 (.str [111]))
     isArm 1 r.out = true ∧ isInt 1 (outEnv r.out 0) = true) := by
  constructor <;> decide

/-- F-C03-11 (what remains after 3d805f4): parenthesised patterns write element by element, and
the bindings of an arm whose guard then fails stay written.
`(a, 1)` against `(5, 2)` fails after `a` has received 5; the registers keep it (observable after
the match when `a` is also a variable of the enclosing scope; the guide is silent). -/
theorem failed_alt_writes_witness :
    let r := evalMatch F0 Cfg.recorded (.expr (.tuple [n 5, n 2])) [⟨[.one (.seq [.id 0 none, ln 1] none [])], none⟩] ρ0
    isNone r.out = true ∧ isInt 5 (outEnv r.out 0) = true ∧ isU (outEnv r.out 1) = true := by
  decide

/-- F-C03-8 (recorded tree): `x = 1; match 's'` / `x: Number then …` / `else …`: the else arm runs
with `x = 's'`; with `typedFirst` it runs with `x` untouched -/
theorem typed_leak_witness :
    (let r := evalMatch F0 Cfg.recorded (.expr (.str [115]))
        [⟨[.one (.id 0 (some ⟨.number, false⟩))], none⟩, ⟨[], none⟩] (ρ0.set 0 (n 1))
     isArm 1 r.out = true ∧ isInt 1 (outEnv r.out 0) = false) ∧
    (let r := evalMatch F0 Cfg.repaired (.expr (.str [115]))
        [⟨[.one (.id 0 (some ⟨.number, false⟩))], none⟩, ⟨[], none⟩] (ρ0.set 0 (n 1))
     isArm 1 r.out = true ∧ isInt 1 (outEnv r.out 0) = true) := by
  constructor <;> decide


/-- F-C03-10: a parenthesised pattern indexes a string by *bytes* (`'hé'` has size 3) and — since
/repo 36e891c — raises when an element would cut a character (before: bound Null), whereas
unpacking the same string yields its characters: `match 'hé'` / `(a, b, rest...)` raises
"indexing with (1) would result in invalid UTF-8 data"; `a, b = 'hé'` gives `'h'`, `'é'`.
On strings without multi-byte characters (`noCont`, part of `plain`) the byte view *is* the
character view and `pat_spec` applies. -/
theorem multibyte_string_match_vs_unpack_witness :
    isErr .utf8 (evalMatch F0 Cfg.repaired (.expr (.str [104, 195, 169]))
        [⟨[.one (.seq [.id 0 none, .id 1 none] (some (some 2)) [])], none⟩, ⟨[], none⟩] ρ0).out = true ∧
    (match Unpack.elems (.str [104, 195, 169]) with
     | some [a, b] => isStr [104] a && isStr [195, 169] b
     | _ => false) = true := by
  constructor <;> decide

/-- on a string without multi-byte characters a pattern sees exactly the elements that unpacking
yields (the two notions of "element of a string" coincide) -/
theorem ascii_string_view_witness :
    (match view (.str [97, 98]), Unpack.elems (.str [97, 98]) with
     | some (xs, _), some ys => xs.length == ys.length && isStr [97] (xs.headD .null) && isStr [97] (ys.headD .null)
     | _, _ => false) = true := by
  decide

/-! ### non-vacuity -/

example : mPat F0 Cfg.recorded true (.seq [.id 0 none] (some (some 1)) []) true (.direct (.tmp (.tuple [n 1, n 2, n 3]))) ρ0
    = .ok ((ρ0.set 0 (n 1)).set 1 (.tuple [n 2, n 3])) := by
  simp [mPat, container, Src.rd, sizeCheck, vmSize, restCount, mPats, fetch, tempIndex, sidx, tyFail, sliceFrom, n]

example : wf (.seq [.id 0 none, .seq [] (some none) [ln 1]] none []) = true := by decide
example : plain (.tuple [n 1, .list [.str [97]], .map [(.str [97], .null)]]) = true := by decide
example : DeclSeq F0 [.id 0 none] (some (some 1)) [] [n 1, n 2] (fun i j => .tuple (([n 1, n 2].drop i).take (j - i)))
    [(0, n 1), (1, .tuple [n 2])] :=
  ⟨[n 1], [n 2], [], [(0, n 1)], [], rfl, by simp,
    ⟨n 1, [], [(0, n 1)], [], rfl, ⟨rfl, rfl⟩, ⟨rfl, rfl⟩, rfl⟩, ⟨rfl, rfl⟩, by simp [restWrites]⟩
example : Selects F0 Cfg.recorded ⟨[], none⟩ (.tmp .null) ρ0 ρ0 := Or.inl ⟨rfl, rfl⟩
example : Skips F0 Cfg.recorded ⟨[.one (ln 1)], none⟩ (.tmp (n 2)) ρ0 ρ0 :=
  ⟨by simp, Or.inl (by
    have : litEq F0 (.num (.i 1)) (n 2) = false := by decide
    simp [mAlts, mAlt, mPat, fetch, Src.rd, ln, this])⟩

/-! ## unpacking -/

/-- missing → null, extras ignored -/
theorem unpack_spec : ∀ (k : Nat) (xs : List Val),
    unpack k xs = xs.take k ++ List.replicate (k - xs.length) .null
  | 0, xs => by simp [unpack]
  | k + 1, [] => by simp [unpack, unpack_spec k [], List.replicate_succ]
  | k + 1, x :: xs => by simp [unpack, unpack_spec k xs]

theorem unpack_length (k : Nat) (xs : List Val) : (unpack k xs).length = k := by
  rw [unpack_spec]; simp; omega

/-- the value the `i`-th target position receives -/
theorem unpack_get (k : Nat) (xs : List Val) (i : Nat) (h : i < k) :
    (unpack k xs)[i]'(by rw [unpack_length]; exact h) = xs[i]?.getD .null := by
  induction k generalizing xs i with
  | zero => omega
  | succ k ih =>
    cases xs with
    | nil =>
      cases i with
      | zero => simp [unpack]
      | succ i => simp only [unpack, List.getElem_cons_succ]; rw [ih [] i (by omega)]; simp
    | cons x xs =>
      cases i with
      | zero => simp [unpack]
      | succ i => simp only [unpack, List.getElem_cons_succ]; rw [ih xs i (by omega)]; simp

/-- writes performed by a target list against an element stream: position `i` receives
element `i` (Null when missing), `_` consumes its element and writes nothing -/
def tgtWrites : List Tgt → List Val → Writes
  | [], _ => []
  | .id x :: ts, vs => (x, vs.head?.getD .null) :: tgtWrites ts vs.tail
  | .wild :: ts, vs => tgtWrites ts vs.tail

theorem assign_spec : ∀ (ts : List Tgt) (vs : List Val) (ρ : Env),
    assign ts vs ρ = ρ.apply (tgtWrites ts vs)
  | [], _, _ => rfl
  | .id x :: ts, [], ρ => by simp [assign, tgtWrites, Env.apply, assign_spec ts []]
  | .id x :: ts, v :: vs, ρ => by simp [assign, tgtWrites, Env.apply, assign_spec ts vs]
  | .wild :: ts, [], ρ => by simp [assign, tgtWrites, assign_spec ts []]
  | .wild :: ts, _ :: vs, ρ => by simp [assign, tgtWrites, assign_spec ts vs]

/-- the `i`-th target's value is the `i`-th unpacked element, whatever the other targets are -/
theorem tgtWrites_spec : ∀ (ts : List Tgt) (vs : List Val) (i : Nat) (x : Name),
    ts[i]? = some (.id x) → (x, vs[i]?.getD .null) ∈ tgtWrites ts vs
  | [], _, _, _, h => by simp at h
  | t :: ts, vs, 0, x, h => by
    simp at h; subst h
    cases vs <;> simp [tgtWrites]
  | t :: ts, vs, i + 1, x, h => by
    have h' : ts[i]? = some (.id x) := by simpa using h
    have := tgtWrites_spec ts vs.tail i x h'
    have e : vs.tail[i]? = vs[i + 1]? := by cases vs <;> simp
    rw [e] at this
    cases t <;> simp [tgtWrites, this]

/-- the index-based form used for a temporary tuple (`a, b = x, y`) writes the same registers as
the pull-based form -/
theorem assignIdx_spec : ∀ (ts : List Tgt) (vs : List Val) (i : Nat) (ρ : Env),
    assignIdx ts vs i ρ = assign ts (vs.drop i) ρ
  | [], _, _, _ => by simp [assignIdx, assign]
  | .id x :: ts, vs, i, ρ => by
    rw [assignIdx, assignIdx_spec ts vs (i + 1)]
    cases h : vs.drop i with
    | nil =>
      have : vs.length ≤ i := by simpa using h
      have h2 : vs.drop (i + 1) = [] := by simp; omega
      have h3 : vs[i]? = none := by simp; omega
      simp [assign, h2, h3]
    | cons y ys =>
      have hi : i < vs.length := by
        rcases Nat.lt_or_ge i vs.length with h' | h'
        · exact h'
        · have : vs.drop i = [] := by simp; omega
          rw [this] at h; cases h
      have h2 : vs.drop (i + 1) = ys := by
        have := List.drop_eq_getElem_cons hi
        rw [this] at h; cases h; rfl
      have h3 : vs[i]? = some y := by
        have := List.drop_eq_getElem_cons hi
        rw [this] at h; cases h; simp
      simp [assign, h2, h3]
  | .wild :: ts, vs, i, ρ => by
    rw [assignIdx, assignIdx_spec ts vs (i + 1)]
    cases h : vs.drop i with
    | nil =>
      have h2 : vs.drop (i + 1) = [] := by
        have : vs.length ≤ i := by simpa using h
        simp; omega
      simp [assign, h2]
    | cons y ys =>
      have hi : i < vs.length := by
        rcases Nat.lt_or_ge i vs.length with h' | h'
        · exact h'
        · have : vs.drop i = [] := by simp; omega
          rw [this] at h; cases h
      have h2 : vs.drop (i + 1) = ys := by
        have := List.drop_eq_getElem_cons hi
        rw [this] at h; cases h; rfl
      simp [assign, h2]

/-- unpacking from a stateful source: the registers are those of `assign`, and the source has
advanced by exactly one element per target — wildcards included, in first, middle or *last*
position (`a, _ = it` takes two elements, so the next `b, c = it` continues with the third) -/
theorem assignSt_spec : ∀ (ts : List Tgt) (vs : List Val) (ρ : Env),
    assignSt ts vs ρ = (assign ts vs ρ, vs.drop ts.length)
  | [], _, _ => by simp [assignSt, assign]
  | .id x :: ts, [], ρ => by simp [assignSt, assign, assignSt_spec ts []]
  | .id x :: ts, v :: vs, ρ => by simp [assignSt, assign, assignSt_spec ts vs]
  | .wild :: ts, [], ρ => by simp [assignSt, assign, assignSt_spec ts []]
  | .wild :: ts, _ :: vs, ρ => by simp [assignSt, assign, assignSt_spec ts vs]

/-- two unpackings in a row from the same source see consecutive, non-overlapping stretches -/
theorem assignSt_chain (ts₁ ts₂ : List Tgt) (vs : List Val) (ρ : Env) :
    (assignSt ts₂ (assignSt ts₁ vs ρ).2 (assignSt ts₁ vs ρ).1).2 = vs.drop (ts₁.length + ts₂.length) := by
  simp [assignSt_spec, List.drop_drop, Nat.add_comm]

example : (assignSt [.id 0, .wild] [n 1, n 2, n 3, n 4] ρ0).2 = [n 3, n 4] := by simp [assignSt]

example : assign [.id 0, .wild, .id 1] [n 10, n 11] ρ0 = (ρ0.set 0 (n 10)).set 1 .null := by
  simp [assign]
example : unpack 3 [n 1] = [n 1, .null, .null] := by simp [unpack]

end KotoVerif.C03
