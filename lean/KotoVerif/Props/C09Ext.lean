/-
C09 — extension theorems about `Model/Lexer.lean` (`lexFuel`, `lexAll`, `stepD`): structure of the
token list (an error token can only be last; fuel stability), ordering / containment of byte ranges
and line numbers, and the length-sum form of losslessness.
-/
import KotoVerif.Props.C09
import KotoVerif.Lemmas.C09ColsIndent

namespace KotoVerif.C09Ext
open KotoVerif.Lexer KotoVerif.C09

/-! ## structure of the token list -/

/-- the run never yields more tokens than its fuel -/
theorem lexFuel_length_le (src : List Ch) : ∀ fuel s, (lexFuel src fuel s).length ≤ fuel := by
  intro fuel
  induction fuel with
  | zero => intro s; simp [lexFuel]
  | succ fuel ih =>
    intro s
    simp only [lexFuel]
    cases hstep : stepD src s with
    | none => simp
    | some ds =>
      obtain ⟨d, s'⟩ := ds
      simp only
      split
      · simp
      · have := ih s'
        simp only [List.length_cons]; omega

/-- **An error token can only be the last token** (from any state, with any fuel). -/
theorem error_only_last_fuel (src : List Ch) : ∀ fuel s pre l post,
    lexFuel src fuel s = pre ++ l :: post → l.tok = .error → post = [] := by
  intro fuel
  induction fuel with
  | zero => intro s pre l post h; simp [lexFuel] at h
  | succ fuel ih =>
    intro s pre l post h he
    simp only [lexFuel] at h
    cases hstep : stepD src s with
    | none => simp [hstep] at h
    | some ds =>
      obtain ⟨d, s'⟩ := ds
      simp only [hstep] at h
      by_cases hd : d.tok = .error
      · simp only [hd, if_true] at h
        have hl := congrArg List.length h
        simp only [List.length_cons, List.length_nil, List.length_append] at hl
        cases post with
        | nil => rfl
        | cons p ps => simp only [List.length_cons] at hl; omega
      · simp only [hd, if_false] at h
        cases pre with
        | nil =>
          simp only [List.nil_append, List.cons.injEq] at h
          obtain ⟨h1, _⟩ := h
          rw [← h1] at he
          exact absurd he hd
        | cons p ps =>
          simp only [List.cons_append, List.cons.injEq] at h
          exact ih s' ps l post h.2 he

/-- **An error token can only be the last token of `lexAll`.** -/
theorem error_only_last (src : List Ch) (pre post : List Lexed) (l : Lexed)
    (h : lexAll src = pre ++ l :: post) (he : l.tok = .error) : post = [] :=
  error_only_last_fuel src _ _ pre l post h he

/-- **Fuel stability.** If a run did not use up its fuel, any larger fuel yields the same tokens. -/
theorem lexFuel_stable (src : List Ch) : ∀ fuel s k, (lexFuel src fuel s).length < fuel →
    lexFuel src (fuel + k) s = lexFuel src fuel s := by
  intro fuel
  induction fuel with
  | zero => intro s k h; simp at h
  | succ fuel ih =>
    intro s k h
    rw [Nat.add_right_comm]
    simp only [lexFuel] at h ⊢
    cases hstep : stepD src s with
    | none => rfl
    | some ds =>
      obtain ⟨d, s'⟩ := ds
      simp only [hstep] at h ⊢
      by_cases hd : d.tok = .error
      · simp [hd]
      · simp only [hd, if_false, List.length_cons] at h ⊢
        rw [ih s' k (by omega)]

/-- **`lexAll` is fuel-independent** whenever it did not exhaust its fuel (decidable per input). -/
theorem lexAll_stable (src : List Ch) (k : Nat) (h : (lexAll src).length < 3 * byteLen src + 3) :
    lexFuel src (3 * byteLen src + 3 + k) {} = lexAll src :=
  lexFuel_stable src _ _ k h

example : (lexAll sampleOk).length < 3 * byteLen sampleOk + 3 := by decide

/-! ## ordering and containment of byte ranges and lines -/

/-- from any reachable state: every later non-error token lies at or after the cursor, is
non-negative in length, ends inside the input, and its lines are at most the input's line breaks -/
theorem tokens_ordered_fuel (src : List Ch) (ht : TableOk src) : ∀ fuel s, Inv true src s →
    ∀ l ∈ lexFuel src fuel s, l.tok ≠ .error →
      s.cur ≤ l.startByte ∧ l.startByte ≤ l.endByte ∧ l.endByte ≤ byteLen src ∧
      l.span.start.line ≤ nlCount src ∧ l.span.stop.line ≤ nlCount src := by
  intro fuel
  induction fuel with
  | zero => intro s _ l hl; simp [lexFuel] at hl
  | succ fuel ih =>
    intro s hinv l hl hne
    simp only [lexFuel] at hl
    cases hstep : stepD src s with
    | none => simp [hstep] at hl
    | some ds =>
      obtain ⟨d, s'⟩ := ds
      simp only [hstep] at hl
      by_cases he : d.tok = .error
      · simp only [he, if_true, List.mem_singleton] at hl
        subst hl
        exact absurd he hne
      · simp only [he, if_false, List.mem_cons] at hl
        obtain ⟨hinv', h1, h2, h4⟩ := stepD_inv true src s s' d ht hinv hstep he
        rcases hl with hl | hl
        · subst hl
          obtain ⟨pre, post, e1, e2, e3, _⟩ := hinv
          obtain ⟨pre', post', e1', e2', e3', _⟩ := hinv'
          have b1 : byteLen src = byteLen pre' + byteLen post' := by rw [e1', byteLen_append]
          have n1 : nlCount src = nlCount pre' + nlCount post' := by rw [e1', nlCount_append]
          have n0 : nlCount src = nlCount pre + nlCount post := by rw [e1, nlCount_append]
          have l1 := e3 rfl
          have l2 := e3' rfl
          simp only [lexedOf, h1, h4]
          refine ⟨Nat.le_refl _, h2, by omega, by omega, by omega⟩
        · obtain ⟨a, b, c, d', e⟩ := ih s' hinv' l hl hne
          exact ⟨by omega, b, c, d', e⟩

/-- **Tokens lie inside the input.** Every non-error token has `start ≤ end ≤ |src|` (bytes) and
its start and stop lines do not exceed the number of line breaks of the input. -/
theorem tokens_within_input (src : List Ch) (ht : TableOk src) :
    ∀ l ∈ lexAll src, l.tok ≠ .error →
      l.startByte ≤ l.endByte ∧ l.endByte ≤ byteLen src ∧
      l.span.start.line ≤ nlCount src ∧ l.span.stop.line ≤ nlCount src := by
  intro l hl hne
  obtain ⟨_, b, c, d, e⟩ := tokens_ordered_fuel src ht _ _ (inv_init true src) l hl hne
  exact ⟨b, c, d, e⟩

/-- pairwise order of a run from a reachable state -/
theorem tokens_pairwise_fuel (src : List Ch) (ht : TableOk src) : ∀ fuel s, Inv true src s →
    List.Pairwise (fun a b : Lexed => a.tok ≠ .error → b.tok ≠ .error → a.endByte ≤ b.startByte)
      (lexFuel src fuel s) := by
  intro fuel
  induction fuel with
  | zero => intro s _; simp [lexFuel]
  | succ fuel ih =>
    intro s hinv
    simp only [lexFuel]
    cases hstep : stepD src s with
    | none => simp
    | some ds =>
      obtain ⟨d, s'⟩ := ds
      simp only
      by_cases he : d.tok = .error
      · simp [he]
      · simp only [he, if_false]
        obtain ⟨hinv', _, _, _⟩ := stepD_inv true src s s' d ht hinv hstep he
        refine List.Pairwise.cons ?_ (ih s' hinv')
        intro b hb _ hbne
        exact (tokens_ordered_fuel src ht fuel s' hinv' b hb hbne).1

/-- **Tokens never overlap and come in input order**: of any two tokens of `lexAll`, the earlier
one ends at or before the start of the later one. -/
theorem tokens_pairwise_ordered (src : List Ch) (ht : TableOk src) :
    List.Pairwise (fun a b : Lexed => a.tok ≠ .error → b.tok ≠ .error → a.endByte ≤ b.startByte)
      (lexAll src) :=
  tokens_pairwise_fuel src ht _ _ (inv_init true src)

example : TableOk sampleOk := by
  intro c hc h
  simp only [sampleOk, List.mem_cons, List.mem_nil_iff, or_false] at hc
  rcases hc with rfl | rfl | rfl | rfl | rfl | rfl | rfl | rfl | rfl | rfl <;> simp_all [ascii, cpNL]

/-! ## losslessness as a length sum -/

/-- in a chain of non-error tokens the token lengths add up to the distance to the last end -/
theorem chain_length_sum (ls : List Lexed) : ∀ a, Chain a ls → (∀ l ∈ ls, l.tok ≠ .error) →
    a + (ls.map (fun l => l.endByte - l.startByte)).sum = ls.foldl (fun _ l => l.endByte) a := by
  induction ls with
  | nil => intro a _ _; simp
  | cons l ls ih =>
    intro a hc hne
    obtain ⟨h1, h2⟩ := hc
    obtain ⟨e1, e2⟩ := h1 (hne l (by simp))
    have := ih l.endByte h2 (fun x hx => hne x (by simp [hx]))
    simp only [List.map_cons, List.sum_cons, List.foldl_cons]
    omega

/-- **Losslessness, length form.** When no error token is produced, the byte lengths of the tokens
add up exactly to the end offset of the last token (no gap, no overlap, nothing counted twice). -/
theorem token_lengths_sum (src : List Ch) (ht : TableOk src) (hne : ∀ l ∈ lexAll src, l.tok ≠ .error) :
    ((lexAll src).map (fun l => l.endByte - l.startByte)).sum =
      (lexAll src).foldl (fun _ l => l.endByte) 0 := by
  have := chain_length_sum (lexAll src) 0 (tokens_contiguous src ht) hne
  omega

example : ∀ l ∈ lexAll sampleOk, l.tok ≠ .error := by decide

/-- **Lines are monotone inside a token.** Every non-error token's reported start line is at most its
reported stop line (and the difference is the number of line breaks inside the token). -/
theorem token_lines_monotone (src : List Ch) (ht : TableOk src) :
    ∀ l ∈ lexAll src, l.tok ≠ .error →
      ∃ pre mid, prefixAt l.endByte src = some (pre ++ mid) ∧ byteLen pre = l.startByte ∧
        l.span.stop.line = l.span.start.line + nlCount mid := by
  intro l hl hne
  obtain ⟨h1, h2⟩ := lines_exact src ht l hl hne
  obtain ⟨hle, _⟩ := tokens_within_input src ht l hl hne
  unfold exactAt at h1 h2
  cases ha : prefixAt l.startByte src with
  | none => simp [ha] at h1
  | some a =>
    cases hb : prefixAt l.endByte src with
    | none => simp [hb] at h2
    | some b =>
      simp only [ha, beq_iff_eq] at h1
      simp only [hb, beq_iff_eq] at h2
      obtain ⟨t, rfl⟩ := prefixAt_extend ha hb hle
      obtain ⟨_, a2, _⟩ := prefixAt_spec _ _ _ ha
      refine ⟨a, t, rfl, ?_, ?_⟩
      · first | exact a2 | exact a2.symm | omega
      · rw [h1, h2, nlCount_append]

end KotoVerif.C09Ext
