/-
C18 — extension: further laws of the executable model `Model/Modules.lean` (all definitions below are
reached from the driver): i64 wrap-around of compound assignments, `IndexMap::insert` key order,
`export *` (exportAll) final values, nested from-paths, histories (`runOps` / `finalSt`), closures'
captures, `import` on a held value, and where a canonical path resolves its imports.
-/
import KotoVerif.Props.C18

namespace KotoVerif.C18Ext
open KotoVerif.Modules KotoVerif.C18L

/-! ## i64 arithmetic of compound assignments -/

/-- `wrap64` always lands in the i64 range -/
theorem wrap64_range (n : Int) :
    -9223372036854775808 ≤ wrap64 n ∧ wrap64 n < 9223372036854775808 := by
  unfold wrap64; omega

/-- `wrap64` is the identity on the i64 range -/
theorem wrap64_of_range (n : Int) (h1 : -9223372036854775808 ≤ n) (h2 : n < 9223372036854775808) :
    wrap64 n = n := by
  unfold wrap64; omega

example : (-9223372036854775808 : Int) ≤ 5 ∧ (5 : Int) < 9223372036854775808 := by decide

/-- `wrap64` is idempotent -/
theorem wrap64_idem (n : Int) : wrap64 (wrap64 n) = wrap64 n := by
  have h := wrap64_range n
  exact wrap64_of_range _ h.1 h.2

/-- wrapping is a congruence modulo 2^64 -/
theorem wrap64_congr (n : Int) : (wrap64 n - n) % 18446744073709551616 = 0 := by
  unfold wrap64; omega

/-- `powInt` stays in the i64 range -/
theorem powInt_range (a : Int) (n : Nat) :
    -9223372036854775808 ≤ powInt a n ∧ powInt a n < 9223372036854775808 := by
  cases n with
  | zero => simp [powInt]
  | succ m => simp only [powInt]; exact wrap64_range _

/-- truncated remainder never exceeds the dividend in magnitude -/
theorem tmod_natAbs_le (a b : Int) : (Int.tmod a b).natAbs ≤ a.natAbs := by
  cases a with
  | ofNat m =>
    cases b with
    | ofNat n => simp only [Int.tmod, Int.ofNat_eq_natCast, Int.natAbs_natCast]; exact Nat.mod_le _ _
    | negSucc n => simp only [Int.tmod, Int.ofNat_eq_natCast, Int.natAbs_natCast]; exact Nat.mod_le _ _
  | negSucc m =>
    cases b with
    | ofNat n => simp only [Int.tmod, Int.ofNat_eq_natCast, Int.natAbs_neg, Int.natAbs_natCast, Int.natAbs_negSucc]; exact Nat.mod_le _ _
    | negSucc n => simp only [Int.tmod, Int.ofNat_eq_natCast, Int.natAbs_neg, Int.natAbs_natCast, Int.natAbs_negSucc]; exact Nat.mod_le _ _

/-- a compound assignment `k op= b` on an i64 left operand yields an i64, for every operator and every
right operand: the model never leaves the value range of the implementation -/
theorem apply_range (op : COp) (a b : Int)
    (h1 : -9223372036854775808 ≤ a) (h2 : a < 9223372036854775808) :
    -9223372036854775808 ≤ op.apply a b ∧ op.apply a b < 9223372036854775808 := by
  cases op with
  | add => exact wrap64_range _
  | sub => exact wrap64_range _
  | mul => exact wrap64_range _
  | pow =>
    simp only [COp.apply]
    split
    · exact ⟨h1, h2⟩
    · exact powInt_range _ _
  | rem =>
    simp only [COp.apply]
    split
    · exact ⟨h1, h2⟩
    · have := tmod_natAbs_le a b
      by_cases ha : 0 ≤ a
      · have h3 : 0 ≤ Int.tmod a b := Int.tmod_nonneg b ha
        omega
      · have h3 : 0 ≤ Int.tmod (-a) b := Int.tmod_nonneg b (by omega)
        rw [Int.neg_tmod] at h3
        omega

example : (-9223372036854775808 : Int) ≤ 7 ∧ (7 : Int) < 9223372036854775808 := by decide

/-! ## `IndexMap::insert`: key order -/

/-- the keys of an association list -/
def keys {α : Type} (l : List (Name × α)) : List Name := l.map (·.1)

theorem lookup_isSome_iff {α : Type} (k : Name) (l : List (Name × α)) :
    (lookup k l).isSome ↔ k ∈ keys l := by
  induction l with
  | nil => simp [lookup, keys]
  | cons kv rest ih =>
    obtain ⟨k', v'⟩ := kv
    by_cases h : k' = k
    · simp [lookup, keys, h]
    · have h' : ¬ k = k' := fun hh => h hh.symm
      simp only [keys] at ih
      simp [lookup, keys, h, h', ih]

/-- re-inserting an existing key keeps every key at its position (the insertion order that
`Koto::exports()` shows is the order of FIRST export) -/
theorem insert_keys_mem {α : Type} (k : Name) (v : α) (l : List (Name × α)) (h : k ∈ keys l) :
    keys (Modules.insert k v l) = keys l := by
  induction l with
  | nil => simp [keys] at h
  | cons kv rest ih =>
    obtain ⟨k', v'⟩ := kv
    unfold Modules.insert
    by_cases hk : k' = k
    · simp [hk, keys]
    · have h' : k ∈ keys rest := by
        simp only [keys, List.map_cons, List.mem_cons] at h
        rcases h with h | h
        · exact absurd h.symm hk
        · exact h
      have := ih h'
      simp only [keys] at this
      simp [hk, keys, this]

example : (60 : Name) ∈ keys [((60 : Name), V.int 1), (61, V.int 2)] := by decide

/-- a new key goes to the end -/
theorem insert_keys_not_mem {α : Type} (k : Name) (v : α) (l : List (Name × α)) (h : k ∉ keys l) :
    keys (Modules.insert k v l) = keys l ++ [k] := by
  induction l with
  | nil => simp [keys, Modules.insert]
  | cons kv rest ih =>
    obtain ⟨k', v'⟩ := kv
    unfold Modules.insert
    simp only [keys, List.map_cons, List.mem_cons, not_or] at h
    have hk : ¬ k' = k := fun hh => h.1 hh.symm
    have := ih h.2
    simp only [keys] at this
    simp [hk, keys, this]

example : (62 : Name) ∉ keys [((60 : Name), V.int 1), (61, V.int 2)] := by decide

/-- keys stay duplicate-free under `insert` -/
theorem insert_keys_nodup {α : Type} (k : Name) (v : α) (l : List (Name × α)) (h : (keys l).Nodup) :
    (keys (Modules.insert k v l)).Nodup := by
  by_cases hk : k ∈ keys l
  · rw [insert_keys_mem k v l hk]; exact h
  · rw [insert_keys_not_mem k v l hk]
    exact List.nodup_append.mpr ⟨h, by simp, by
      intro a ha b hb
      simp at hb
      subst hb
      exact fun hab => hk (hab ▸ ha)⟩

example : (keys [((60 : Name), V.int 1), (61, V.int 2)]).Nodup := by decide

/-! ## `export *` under export_top_level_ids (`exportAll`) -/

/-- `exportAll` touches only the data entries of the exports map -/
theorem exportAll_frame (es : List (Name × V)) (st : St) :
    (exportAll es st).cache = st.cache ∧ (exportAll es st).loader = st.loader
      ∧ (exportAll es st).out = st.out ∧ (exportAll es st).exports.main = st.exports.main
      ∧ (exportAll es st).exports.tests = st.exports.tests
      ∧ (exportAll es st).exports.fns = st.exports.fns := by
  induction es generalizing st with
  | nil => simp [exportAll]
  | cons kv rest ih =>
    obtain ⟨k, v⟩ := kv
    simp only [exportAll]
    have := ih (setData k v st)
    simpa [setData] using this

/-- keys that the wildcard-imported map does not have keep their exports entry -/
theorem exportAll_lookup_other (es : List (Name × V)) (st : St) (k : Name) (h : k ∉ keys es) :
    lookup k (exportAll es st).exports.data = lookup k st.exports.data := by
  induction es generalizing st with
  | nil => simp [exportAll]
  | cons kv rest ih =>
    obtain ⟨k', v⟩ := kv
    simp only [keys, List.map_cons, List.mem_cons, not_or] at h
    simp only [exportAll]
    rw [ih (setData k' v st) (by simpa [keys] using h.2)]
    simp only [setData]
    exact lookup_insert_ne k' k v _ h.1

example : (62 : Name) ∉ keys [((60 : Name), V.int 1), (61, V.int 2)] := by decide

/-- every entry of a (duplicate-free) wildcard-imported map ends up in the exports map with the
imported value -/
theorem exportAll_lookup (es : List (Name × V)) (st : St) (k : Name) (v : V)
    (hnd : (keys es).Nodup) (h : (k, v) ∈ es) :
    lookup k (exportAll es st).exports.data = some v := by
  induction es generalizing st with
  | nil => simp at h
  | cons kv rest ih =>
    obtain ⟨k', v'⟩ := kv
    simp only [keys, List.map_cons, List.nodup_cons] at hnd
    simp only [exportAll]
    rcases List.mem_cons.mp h with h | h
    · cases h
      rw [exportAll_lookup_other rest _ k (by simpa [keys] using hnd.1)]
      simp only [setData]
      exact lookup_insert_self k v _
    · exact ih (setData k' v' st) hnd.2 h

example : (keys [((60 : Name), V.int 1), (61, V.int 2)]).Nodup
    ∧ ((61 : Name), V.int 2) ∈ [((60 : Name), V.int 1), (61, V.int 2)] := by decide

/-! ## nested from-paths -/

/-- accessing `a.b.c.d` = accessing `a.b` and then `c.d` on the result -/
theorem accessPath_append (cache : Path → Option Entry) (v : V) (ks ls : List Name) :
    accessPath cache v (ks ++ ls) =
      match accessPath cache v ks with
      | .error e => .error e
      | .ok x => accessPath cache x ls := by
  induction ks generalizing v with
  | nil => simp [accessPath]
  | cons k rest ih =>
    simp only [List.cons_append, accessPath]
    cases access cache v k with
    | error e => simp
    | ok x => simpa using ih x

/-- only completed modules can be accessed: a nested from-path of length ≥ 1 on a value that is not a
completed module's map is an access error -/
theorem accessPath_unresolved (cache : Path → Option Entry) (v : V) (k : Name) (ks : List Name)
    (h : resolve cache v = none) : accessPath cache v (k :: ks) = .error .access := by
  simp [accessPath, access, h]

example : resolve (fun _ => none) (V.int 3) = none := by decide

/-! ## `import` on a held value -/

/-- `ImportAll` on a held value succeeds exactly on non-scalars and returns the value itself -/
theorem importValue_ok_iff (v w : V) : importValue v = .ok w ↔ (w = v ∧ v.scalar = false) := by
  cases v <;> simp [importValue, V.scalar, eq_comm]

/-- otherwise it is a type error, never another error -/
theorem importValue_error (v : V) (e : Err) (h : importValue v = .error e) : e = .type ∧ v.scalar = true := by
  cases v <;> simp_all [importValue, V.scalar]

example : importValue (V.int 1) = .error .type := rfl

/-! ## histories -/

/-- a history returns one result per operation -/
theorem runOps_length (cfg : Cfg) (fs : FS) (fuel : Nat) (ops : List Op) (st : St)
    (rs : List (Option Err × St)) (h : runOps cfg fs fuel ops st = some rs) : rs.length = ops.length := by
  induction ops generalizing st rs with
  | nil => simp [runOps] at h; simp [h]
  | cons op rest ih =>
    simp only [runOps] at h
    split at h
    · simp at h
    · rename_i r st1 _
      split at h
      · simp at h
      · rename_i rs' hrs
        simp at h
        subst h
        simp [ih st1 rs' hrs]

/-- histories compose: running `a ++ b` = running `a`, then `b` from the state `a` ends in -/
theorem finalSt_append (cfg : Cfg) (fs : FS) (fuel : Nat) (a b : List Op) (st : St) :
    finalSt cfg fs fuel (a ++ b) st = (finalSt cfg fs fuel a st).bind (finalSt cfg fs fuel b) := by
  induction a generalizing st with
  | nil => simp [finalSt]
  | cons op rest ih =>
    simp only [List.cons_append, finalSt]
    cases hostRun cfg fs fuel op st with
    | none => simp
    | some x => simpa using ih x.2

/-- `finalSt` is the state of the last result of `runOps` (the initial state for the empty history) -/
theorem runOps_finalSt (cfg : Cfg) (fs : FS) (fuel : Nat) (ops : List Op) (st : St)
    (rs : List (Option Err × St)) (h : runOps cfg fs fuel ops st = some rs) :
    finalSt cfg fs fuel ops st = some ((rs.getLast?.map (·.2)).getD st) := by
  induction ops generalizing st rs with
  | nil => simp [runOps] at h; simp [finalSt, h]
  | cons op rest ih =>
    simp only [runOps] at h
    simp only [finalSt]
    split at h
    · simp at h
    · rename_i r st1 hr
      split at h
      · simp at h
      · rename_i rs' hrs
        simp at h
        subst h
        rw [ih st1 rs' hrs]
        cases rs' with
        | nil => simp
        | cons x xs =>
          cases hl : (x :: xs).getLast? with
          | none => simp at hl
          | some y => simp [hl]

/-- `runOps` returns exactly when `finalSt` does -/
theorem runOps_isSome_iff (cfg : Cfg) (fs : FS) (fuel : Nat) (ops : List Op) (st : St) :
    (runOps cfg fs fuel ops st).isSome = (finalSt cfg fs fuel ops st).isSome := by
  induction ops generalizing st with
  | nil => simp [runOps, finalSt]
  | cons op rest ih =>
    simp only [runOps, finalSt]
    cases hostRun cfg fs fuel op st with
    | none => simp
    | some x =>
      obtain ⟨r, st1⟩ := x
      simp only
      rw [← ih st1]
      cases runOps cfg fs fuel rest st1 <;> simp

/-! ## closures capture by value, and only what they read before binding -/

theorem lookup_filter {α : Type} (P : Name → Bool) (k : Name) (l : List (Name × α)) :
    lookup k (l.filter (fun kv => P kv.1)) = if P k then lookup k l else none := by
  induction l with
  | nil => simp [lookup]
  | cons kv rest ih =>
    obtain ⟨k', v'⟩ := kv
    by_cases hp : P k' = true
    · by_cases hk : k' = k
      · subst hk; simp [List.filter, hp, lookup]
      · simp only [List.filter, hp, lookup, hk, if_false, ih]
    · by_cases hk : k' = k
      · subst hk
        simp only [Bool.not_eq_true] at hp
        simp [List.filter, hp, ih]
      · simp only [Bool.not_eq_true] at hp
        simp only [List.filter, hp, lookup, hk, if_false, ih]

/-- a closure's captured locals: exactly the enclosing frame's value for captured ids, nothing else -/
theorem mkClosure_locals (ic : Bool) (fr : Frame) (mk : Nat) (body : List Act) (k : Name) :
    lookup k (mkClosure ic fr mk body).locals =
      if (captureSet ic body []).contains k then lookup k fr.locals else none := by
  simp only [mkClosure]
  exact lookup_filter (fun n => (captureSet ic body []).contains n) k fr.locals

/-- nothing that is already bound is captured -/
theorem captureSet_not_bound (ic : Bool) (body : List Act) (bound : List Name) (k : Name)
    (h : k ∈ captureSet ic body bound) : k ∉ bound := by
  induction body generalizing bound with
  | nil => simp [captureSet] at h
  | cons a rest ih =>
    simp only [captureSet, List.mem_append, List.mem_filter] at h
    rcases h with h | h
    · intro hb; simp [hb] at h
    · intro hb
      exact ih (a.binds ++ bound) h (List.mem_append_right _ hb)

example : (5 : Name) ∈ captureSet false [Act.show 1 5] [] := by decide

/-! ## wildcard imports: `add_wildcard_import` -/

/-- the wildcard list stays duplicate-free (each map instance at most once), with or without the
refresh repair -/
theorem addWild_nodup (r : Bool) (v : V) (fr : Frame) (h : fr.wild.Nodup) :
    (addWild r v fr).wild.Nodup := by
  unfold addWild
  split
  · split
    · simp only
      refine List.nodup_append.mpr ⟨h.erase v, by simp, ?_⟩
      intro a ha b hb
      simp at hb
      subst hb
      intro hab
      subst hab
      exact (List.Nodup.mem_erase_iff h).mp ha |>.1 rfl
    · exact h
  · rename_i hc
    simp only
    refine List.nodup_append.mpr ⟨h, by simp, ?_⟩
    intro a ha b hb
    simp at hb
    subst hb
    intro hab
    subst hab
    exact hc (by simpa using ha)

example : ([V.int 1, V.int 2] : List V).Nodup := by decide

/-- as it is (finding F-C18-10): repeating a wildcard import of a map that is already present changes
nothing, so `add_wildcard_import` is idempotent -/
theorem addWild_false_idem (v : V) (fr : Frame) :
    addWild false v (addWild false v fr) = addWild false v fr := by
  by_cases h : v ∈ fr.wild
  · have h1 : addWild false v fr = fr := by simp [addWild, h]
    rw [h1, h1]
  · have h1 : addWild false v fr = { fr with wild := fr.wild ++ [v] } := by simp [addWild, h]
    rw [h1]
    simp [addWild]

/-- with the refresh repair the imported map is always the most recent one … -/
theorem addWild_refresh_last (v : V) (fr : Frame) :
    ∃ w, (addWild true v fr).wild = w ++ [v] := by
  unfold addWild
  split
  · exact ⟨fr.wild.erase v, rfl⟩
  · exact ⟨fr.wild, rfl⟩

/-- … so every key of the freshly wildcard-imported module reads that module's value, whatever was
imported before (the precedence that the repair of F-C18-10 restores) -/
theorem wildRefresh_precedence (cache : Path → Option Entry) (k : Name) (mv : V) (fr : Frame)
    (es : List (Name × V)) (x : V) (hr : resolve cache mv = some es) (hk : lookup k es = some x) :
    wildGet cache k (addWild true mv fr).wild = some x := by
  obtain ⟨w, hw⟩ := addWild_refresh_last mv fr
  rw [hw]
  exact C18.wildcard_binds cache k w mv es x hr hk

example : resolve (fun _ => some (.done { data := [(60, V.int 5)] })) (V.mref C18.pA) = some [(60, V.int 5)]
    ∧ lookup 60 [((60 : Name), V.int 5)] = some (V.int 5) := ⟨rfl, rfl⟩

/-- the other direction of precedence, in both variants: a first-time wildcard import never changes what
keys that the new map lacks resolve to -/
theorem addWild_new_other (r : Bool) (cache : Path → Option Entry) (k : Name) (mv : V) (fr : Frame)
    (hnew : fr.wild.contains mv = false)
    (hk : (resolve cache mv).bind (lookup k) = none) :
    wildGet cache k (addWild r mv fr).wild = wildGet cache k fr.wild := by
  have hm : mv ∉ fr.wild := by simpa using hnew
  have h1 : (addWild r mv fr).wild = fr.wild ++ [mv] := by simp [addWild, hm]
  rw [h1]
  simp [wildGet, hk]

example : ([] : List V).contains (V.int 1) = false
    ∧ (resolve (fun _ => none) (V.int 1)).bind (lookup 3) = none := ⟨rfl, rfl⟩

/-! ## statement lists and loops compose -/

/-- a statement list `xs ++ ys` runs `xs` and then — unless `xs` failed or ran out of fuel — `ys` from
where `xs` stopped (both directions, every outcome) -/
theorem execActs_append (cfg : Cfg) (fs : FS) (rec : Runner) (xs ys : List Act) (fr : Frame) (s : St) :
    execActs cfg fs rec (xs ++ ys) fr s =
      match execActs cfg fs rec xs fr s with
      | none => none
      | some (some e, fr1, s1) => some (some e, fr1, s1)
      | some (none, fr1, s1) => execActs cfg fs rec ys fr1 s1 := by
  induction xs generalizing fr s with
  | nil => simp [execActs]
  | cons a rest ih =>
    simp only [List.cons_append, execActs]
    cases h : execAct cfg fs rec a fr s with
    | none => simp
    | some x =>
      obtain ⟨e, fr1, s1⟩ := x
      cases e with
      | some e => simp
      | none => simpa using ih fr1 s1

/-- `for i in 0..(m+n)` of a compound assignment = `m` iterations and then `n` more -/
theorem compoundLoop_add (cfg : Cfg) (k : Name) (op : COp) (r : Rhs) (m n : Nat) (fr : Frame) (st : St) :
    compoundLoop cfg k op r (m + n) fr st =
      match compoundLoop cfg k op r m fr st with
      | (some e, fr1, st1) => (some e, fr1, st1)
      | (none, fr1, st1) => compoundLoop cfg k op r n fr1 st1 := by
  induction m generalizing fr st with
  | zero => simp [compoundLoop]
  | succ m ih =>
    rw [Nat.succ_add]
    simp only [compoundLoop]
    cases h : compoundStep cfg k op r fr st with
    | mk e rest =>
      obtain ⟨fr1, st1⟩ := rest
      cases e with
      | some e => simp
      | none => simpa using ih fr1 st1

/-- a failing compound assignment changes neither the frame nor the runtime state -/
theorem compoundStep_error_unchanged (cfg : Cfg) (k : Name) (op : COp) (r : Rhs) (fr fr' : Frame)
    (st st' : St) (e : Err) (h : compoundStep cfg k op r fr st = (some e, fr', st')) :
    st' = st ∧ fr'.locals = fr.locals ∧ fr'.wild = fr.wild := by
  unfold compoundStep at h
  split at h
  · split at h <;> simp_all
  · split at h <;> simp_all
  · simp_all

example : (compoundStep { runImportTests := false, hostTests := false } 60 .add (.lit 1) { dir := [] } {}).1
    = some .idNotFound := rfl

/-! ## right-hand sides and plain multi-assignment -/

/-- one value per right-hand-side element -/
theorem evalRhs_length (cfg : Cfg) (fr : Frame) (st : St) (rhs : List Rhs) (vs : List V)
    (h : evalRhs cfg fr st rhs = some vs) : vs.length = rhs.length := by
  induction rhs generalizing vs with
  | nil => simp [evalRhs] at h; simp [h]
  | cons r rest ih =>
    cases r with
    | lit n =>
      simp only [evalRhs, Option.map_eq_some_iff] at h
      obtain ⟨ws, hws, rfl⟩ := h
      simp [ih ws hws]
    | ref k =>
      simp only [evalRhs] at h
      split at h
      · simp at h
      · simp only [Option.map_eq_some_iff] at h
        obtain ⟨ws, hws, rfl⟩ := h
        simp [ih ws hws]

example : evalRhs { runImportTests := false, hostTests := false } { dir := [] } {} [.lit 1, .lit 2]
    = some [V.int 1, V.int 2] := rfl

/-- printing does not change what any id reads (lookups ignore stdout) -/
theorem readId_emit (cfg : Cfg) (fr : Frame) (st : St) (ev : Event) (k : Name) :
    readId cfg fr (emit ev st) k = readId cfg fr st k := by
  simp [readId, nonLocal, modExports, emit]

/-- an assignment whose targets are ids and `_` only (no map patterns) never fails, whatever the
number of values on the right -/
theorem bindTargets_plain_ok (b : Bool) (ts : List Target) (vs : List V) (fr : Frame) (st : St)
    (hplain : ∀ t ∈ ts, ∀ es, t ≠ .mapPat es) : (bindTargets b ts vs fr st).1 = none := by
  induction ts generalizing vs fr st with
  | nil => simp [bindTargets]
  | cons t rest ih =>
    have hrest : ∀ t ∈ rest, ∀ es, t ≠ .mapPat es := fun t ht => hplain t (List.mem_cons_of_mem _ ht)
    cases t with
    | id k => simp only [bindTargets]; exact ih _ _ _ hrest
    | ignored => simp only [bindTargets]; exact ih _ _ _ hrest
    | mapPat es => exact absurd rfl (hplain _ List.mem_cons_self es)

example : ∀ t ∈ [Target.id 1, Target.ignored], ∀ es, t ≠ .mapPat es := by
  intro t ht es; simp at ht; rcases ht with h | h <;> simp [h]


/-! ## export_top_level_ids and import items -/

/-- with both repairs (F-C18-1, F-C18-5) the key that export_top_level_ids exports for an import item
is exactly the local the item binds — and nothing is exported for an item that binds nothing -/
theorem exportKey_repaired (it : Item) :
    it.exportKey? true true = if it.binds then some it.target else none := by
  unfold Item.exportKey? Item.binds Item.target
  cases hs : it.str <;> cases ha : it.as_ <;> simp

/-- as it is, the exported key differs from the bound local exactly for aliased id items and for
aliased string items (the two findings), and agrees everywhere else -/
theorem exportKey_asis_agrees_iff (it : Item) :
    it.exportKey? false false = (if it.binds then some it.target else none)
      ↔ (it.as_ = none ∨ (it.str = false ∧ it.as_ = some it.name)) := by
  unfold Item.exportKey? Item.binds Item.target
  cases hs : it.str <;> cases ha : it.as_ <;> simp [eq_comm]

/-! ## once a local, always a local (the compile-time local / non-local decision of `compile_load_id`
stays valid along a pattern assignment) -/

theorem insert_keys_mono {α : Type} (k n : Name) (v : α) (l : List (Name × α)) (h : n ∈ keys l) :
    n ∈ keys (Modules.insert k v l) := by
  by_cases hk : k ∈ keys l
  · rw [insert_keys_mem k v l hk]; exact h
  · rw [insert_keys_not_mem k v l hk]; exact List.mem_append_left _ h

example : (60 : Name) ∈ keys [((60 : Name), V.int 1)] := by decide

/-- a map pattern never unbinds a local, whether it succeeds or fails -/
theorem bindEntries_locals_mono (b : Bool) (mv : V) (es : List PEntry) (fr : Frame) (st : St) (n : Name)
    (h : n ∈ keys fr.locals) : n ∈ keys (bindEntries b mv es fr st).2.1.locals := by
  induction es generalizing fr st with
  | nil => simpa [bindEntries] using h
  | cons e rest ih =>
    simp only [bindEntries]
    split
    · exact h
    · split
      · exact ih _ _ (insert_keys_mono _ n _ fr.locals h)
      · exact ih _ _ h

/-- a (multi-)assignment with any target shapes never unbinds a local, whether it succeeds or fails -/
theorem bindTargets_locals_mono (b : Bool) (ts : List Target) (vs : List V) (fr : Frame) (st : St)
    (n : Name) (h : n ∈ keys fr.locals) : n ∈ keys (bindTargets b ts vs fr st).2.1.locals := by
  induction ts generalizing vs fr st with
  | nil => simpa [bindTargets] using h
  | cons t rest ih =>
    cases t with
    | id k =>
      simp only [bindTargets]
      exact ih _ _ _ (insert_keys_mono _ n _ fr.locals h)
    | ignored => simp only [bindTargets]; exact ih _ _ _ h
    | mapPat es =>
      simp only [bindTargets]
      have hm := bindEntries_locals_mono b (vs.headD .null) es fr st n h
      split
      · rename_i e fr1 st1 heq
        rw [heq] at hm; exact hm
      · rename_i fr1 st1 heq
        rw [heq] at hm; exact ih _ _ _ hm

/-- `from m import a, b as c` never unbinds a local, whether it succeeds or fails -/
theorem fromItems_locals_mono (al sa : Bool) (mv : V) (items : List Item) (fr : Frame) (st : St)
    (n : Name) (h : n ∈ keys fr.locals) : n ∈ keys (fromItems al sa mv items fr st).2.1.locals := by
  induction items generalizing fr st with
  | nil => simpa [fromItems] using h
  | cons it rest ih =>
    simp only [fromItems]
    split
    · exact h
    · refine ih _ _ ?_
      unfold bindItem
      split
      · exact insert_keys_mono _ n _ fr.locals h
      · exact h

example : (60 : Name) ∈ keys ({ dir := [], locals := [(60, V.int 1)] } : Frame).locals := by decide

/-! ## a file and its canonical spelling resolve imports in the same directory -/

theorem folder_norm (p : Path) : p.norm.folder = p.folder := by
  simp [Path.folder, Path.norm, C18.normSegs_map_some]

end KotoVerif.C18Ext
