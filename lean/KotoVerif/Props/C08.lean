/-
C08 — the execution limit stops runaway scripts: property theorems about `Model/Timeout.lean`.

What is proved here is the *logic* of the poller and of error delivery, for every float
implementation `F`, every limit, every clock sequence and every call stack. Wall-clock behaviour
(how long an instruction takes) enters only as explicit hypotheses (`Costs`, `UpdateSound`); it is
measured by the harness, not proved.
-/
import KotoVerif.Model.Timeout
import KotoVerif.Lemmas.C08

namespace KotoVerif.C08
open KotoVerif.Timeout KotoVerif.C08L

/-! ## 1. never early -/

/-- A poll reports a timeout only if the clock reading it took is at or past the deadline. -/
theorem never_early (F : TOps) (s : St) (now : Nat) (h : (check F s now).2 = .timeout) :
    s.deadline ≤ now := by
  rcases check_cases F s now with ⟨_, h2⟩ | ⟨_, hd, _⟩ | ⟨_, _, h2⟩
  · rw [h2] at h; cases h
  · exact hd
  · rw [h2] at h; cases h

/-- … for every float implementation, first-interval constant, limit, start time, clock sequence
and number of instructions executed before: the `n`-th check of an entry started at `t0` reports a
timeout only if the clock has advanced by at least `limit`. -/
theorem never_early_run (F : TOps) (rate cap : UInt64) (maxI : Nat) (limit t0 : Nat) (clk : Nat → Nat) (n : Nat)
    (h : pollAt F clk (new F rate cap maxI limit t0) n = .timeout) : t0 + limit ≤ clk n := by
  have := never_early F _ _ h
  rw [runN_deadline] at this
  exact this

example : ∃ s now, (check ⟨fun _ => 0, fun _ _ => 0, fun _ _ => 0, fun _ _ => 0, fun _ _ => false,
    fun _ => false, fun _ => 0⟩ s now).2 = .timeout :=
  ⟨{ lastCheck := 0, deadline := 5, intervalSeconds := 0, intervalInstr := 0, sinceLast := 0, limit := 5 }, 7,
    by decide⟩

/-! ## 2. the gap between clock reads -/

/-- While the counter is below the interval the clock is not consulted. -/
theorem skip_ignores_clock (F : TOps) (s : St) (a b : Nat) (h : s.sinceLast < s.intervalInstr) :
    check F s a = check F s b := by
  rw [check_skip F s a h, check_skip F s b h]

/-- From any state with `since ≤ interval`: the next `interval - since` checks do not read the
clock (they are `skip` for every clock), and the one after them does read it. In particular after
a clock read (`since = 0`) exactly `interval_instructions` checks — i.e. that many instructions —
run unobserved, and check number `interval_instructions + 1` reads the clock again. -/
theorem poll_gap (F : TOps) (clk : Nat → Nat) (s : St) (i : Nat) (h : s.sinceLast ≤ s.intervalInstr) :
    (∀ j, j < s.intervalInstr - s.sinceLast → (check F (runN F clk j s i) (clk (i + j))).2 = .skip) ∧
    (check F (runN F clk (s.intervalInstr - s.sinceLast) s i) (clk (i + (s.intervalInstr - s.sinceLast)))).2
      ≠ .skip := by
  constructor
  · intro j hj
    rw [runN_skips F clk j s i (by omega)]
    rw [check_skip _ _ _ (by simp [skipMany]; omega)]
  · rw [runN_skips F clk _ s i (by omega)]
    rcases check_cases F (skipMany s (s.intervalInstr - s.sinceLast))
        (clk (i + (s.intervalInstr - s.sinceLast))) with ⟨h1, _⟩ | ⟨_, _, h2⟩ | ⟨_, _, h2⟩
    · simp [skipMany] at h1; omega
    · rw [h2]; simp
    · rw [h2]; simp

/-- the state reached by a clock read that did not time out: the new interval is the code's float
formula capped at `MAX_INTERVAL_INSTRUCTIONS` -/
theorem interval_update (F : TOps) (s : St) (now : Nat) (h : (check F s now).2 = .ok) :
    (check F s now).1.intervalInstr =
        min (asUsize F (F.mul (F.ofNat s.intervalInstr)
          (F.div (fmin F s.intervalSeconds (secsF F (s.deadline - now))) (secsF F (now - s.lastCheck)))))
          s.maxInterval ∧
    (check F s now).1.intervalInstr ≤ s.maxInterval ∧
    (check F s now).1.maxInterval = s.maxInterval ∧
    (check F s now).1.sinceLast = 0 ∧
    (check F s now).1.lastCheck = now ∧
    (check F s now).1.deadline = s.deadline ∧
    (check F s now).1.intervalSeconds = s.intervalSeconds ∧
    now < s.deadline ∧ s.intervalInstr ≤ s.sinceLast := by
  rcases check_cases F s now with ⟨_, h2⟩ | ⟨_, _, h2⟩ | ⟨h1, hd, h2⟩
  · rw [h2] at h; cases h
  · rw [h2] at h; cases h
  · rw [h2]; simp [nextInterval]; omega

/-- every interval the poller ever uses fits a `usize` -/
theorem interval_le_usizeMax (F : TOps) (s : St) (now : Nat) (h : s.intervalInstr ≤ usizeMax) :
    (check F s now).1.intervalInstr ≤ usizeMax := by
  rcases check_cases F s now with ⟨_, h2⟩ | ⟨_, _, h2⟩ | ⟨_, _, h2⟩ <;> rw [h2] <;> simp [h]
  simp [nextInterval, asUsize]; omega

/-- "between two clock reads exactly `interval_instructions + 1` checks happen": after a read that
installed the interval `I`, the checks `i … i+I-1` skip and check `i+I` reads the clock. -/
theorem poll_gap_after_read (F : TOps) (clk : Nat → Nat) (s : St) (now i : Nat)
    (h : (check F s now).2 = .ok) :
    let s' := (check F s now).1
    (∀ j, j < s'.intervalInstr → (check F (runN F clk j s' i) (clk (i + j))).2 = .skip) ∧
    (check F (runN F clk s'.intervalInstr s' i) (clk (i + s'.intervalInstr))).2 ≠ .skip := by
  intro s'
  have h0 : s'.sinceLast = 0 := (interval_update F s now h).2.2.2.1
  have := poll_gap F clk s' i (by omega)
  simpa [h0] using this

/-- Justification of the driver's fast path (`replay` skips `interval - since` checks at once): the
check it then performs is exactly check number `i + (interval - since)` of the step-by-step run, for
every clock that shows `t` at that check — the clock values in between are irrelevant. -/
theorem replay_fast_path (F : TOps) (clk : Nat → Nat) (s : St) (i t : Nat)
    (h : s.sinceLast ≤ s.intervalInstr) (ht : clk (i + (s.intervalInstr - s.sinceLast)) = t) :
    check F (skipMany s (s.intervalInstr - s.sinceLast)) t =
      check F (runN F clk (s.intervalInstr - s.sinceLast) s i) (clk (i + (s.intervalInstr - s.sinceLast))) := by
  rw [runN_skips F clk _ s i (by omega), ht]

/-- A zero interval is absorbing under exact arithmetic only; in the model (as in the code) the
next interval is whatever the float formula gives. What always holds: with interval 0 every check
reads the clock. -/
theorem zero_interval_reads (F : TOps) (s : St) (now : Nat) (h : s.intervalInstr = 0) :
    (check F s now).2 ≠ .skip := by
  rcases check_cases F s now with ⟨h1, _⟩ | ⟨_, _, h2⟩ | ⟨_, _, h2⟩
  · omega
  · rw [h2]; simp
  · rw [h2]; simp

example : ∃ (s : St), s.sinceLast ≤ s.intervalInstr ∧ 0 < s.intervalInstr - s.sinceLast :=
  ⟨{ lastCheck := 0, deadline := 5, intervalSeconds := 0, intervalInstr := 3, sinceLast := 1, limit := 5 },
    by decide⟩

/-! ## 2b. every instruction is a polling point -/

/-- With the code's polling policy the entry loop performs exactly one check per instruction,
whatever the instructions are: the instruction stream only matters through its length. This is the
obligation the cost hypothesis of `bounded_slack` (`Costs`: time between consecutive CHECKS) rests
on — the time between two checks is the cost of ONE instruction. -/
theorem every_instruction_polls (F : TOps) (clk : Nat → Nat) (ks : List InstrKind) :
    ∀ (s : St) (i : Nat), runInstrs F pollsEvery clk ks s i = firstTimeout F clk ks.length s i := by
  induction ks with
  | nil => intro s i; rfl
  | cons k ks ih =>
    intro s i
    simp only [runInstrs, pollsEvery, firstTimeout, List.length_cons, if_true]
    split <;> simp_all

/-- The negation for a sparser policy (polling only before backwards jumps and call instructions,
"straight-line code always ends"): a stream of operator instructions whose overloads push frames —
self-recursion through `@negate`, `@<`, `@==`, `@index`, … — is never interrupted, whatever the
clock says. The harness runs exactly these streams (self-recursion spins, depth-capped). -/
theorem sparse_polling_never_detects (F : TOps) (clk : Nat → Nat) (n : Nat) :
    ∀ (s : St) (i : Nat),
      runInstrs F (fun k => k == .jumpBack || k == .call) clk (List.replicate n .opPush) s i = none := by
  induction n with
  | zero => intro s i; rfl
  | succ n ih => intro s i; simp [List.replicate_succ, runInstrs, ih]

/-- … while the code's policy reports the timeout on the same stream as soon as a check reads a
clock value at or past the deadline (here: at once, with interval 0) -/
example : runInstrs ⟨fun _ => 0, fun _ _ => 0, fun _ _ => 0, fun _ _ => 0, fun _ _ => false,
    fun _ => false, fun _ => 0⟩ pollsEvery (fun _ => 9) [.opPush, .opPush]
    { lastCheck := 0, deadline := 5, intervalSeconds := 0, intervalInstr := 0, sinceLast := 0, limit := 5 } 0
    = some 0 := by decide

/-! ## 3. polling never stops: a run whose clock passes the deadline reports the timeout -/

/-- For every float implementation (no assumption at all on the interval arithmetic): if from
check `n0` on the clock is at or past the deadline, some check reports the timeout, at most
`interval_instructions` checks later. (Liveness of the poller. It says nothing about *when* in
wall-clock terms — that is `bounded_slack`.) -/
theorem eventually_detected (F : TOps) (clk : Nat → Nat) (s : St) (n0 : Nat)
    (hle : s.sinceLast ≤ s.intervalInstr) (hclk : ∀ n, n0 ≤ n → s.deadline ≤ clk n) :
    ∃ n, n0 ≤ n ∧ n ≤ n0 + (runN F clk n0 s 0).intervalInstr ∧ pollAt F clk s n = .timeout := by
  let s1 := runN F clk n0 s 0
  have hle1 : s1.sinceLast ≤ s1.intervalInstr := runN_le F clk n0 s 0 hle
  let g := s1.intervalInstr - s1.sinceLast
  refine ⟨n0 + g, by omega, by show n0 + g ≤ n0 + s1.intervalInstr; omega, ?_⟩
  unfold pollAt
  rw [runN_add F clk n0 g s 0]
  have hs : runN F clk g s1 (0 + n0) = skipMany s1 g := runN_skips F clk g s1 _ (by omega)
  show (check F (runN F clk g s1 (0 + n0)) (clk (n0 + g))).2 = .timeout
  rw [hs]
  have hd : (skipMany s1 g).deadline ≤ clk (n0 + g) := by
    have : s1.deadline = s.deadline := runN_deadline F clk n0 s 0
    simp [skipMany, this]; exact hclk _ (by omega)
  rw [check_timeout F _ _ (by simp [skipMany]; omega) hd]

/-! ## 4. bounded slack (integer skeleton; float facts and instruction costs are hypotheses)

`clk j` is the time of check number `j` on an abstract monotone clock. Hypotheses:
* `Costs` (Model/Timeout.lean): consecutive checks are between `tmin` and `tmax` apart (cost of one
  instruction, including whatever native code or nested interpreter entry it runs, plus the check);
* `UpdateSound` at every clock read of the run: the float computation of the new interval returned at
  most the exact quotient `interval · min(target, remaining) / elapsed` plus one (evaluated by the
  harness on every observed read).
Conclusion: the timeout is reported (liveness), not before the deadline, and at the latest at
`max (t0 + (I0 + 1)·tmax, deadline + target·(tmax/tmin − 1) + 2·tmax)` where `I0` is the first
interval and `target = limit/10` — the second bound is stated multiplied by `tmin`.
The first-interval term is what makes the real slack unbounded in practice when single instructions
are expensive (F-C08-2): see `first_interval_unobserved`. Wall-clock behaviour itself (what `tmin`,
`tmax` are on a given machine) is measured by the harness, not proved. -/

/-- The first check that reports the timeout happens no later than
`max (t0 + (I0 + 1)·tmax, deadline + (limit/10)·(tmax/tmin − 1) + 2·tmax)`. -/
theorem bounded_slack (F : TOps) (rate cap : UInt64) (maxI : Nat) (limit t0 tmin tmax : Nat) (clk : Nat → Nat)
    (hc : Costs clk t0 tmin tmax)
    (hs : ∀ j, pollAt F clk (new F rate cap maxI limit t0) j = .ok →
      UpdateSound F (runN F clk j (new F rate cap maxI limit t0) 0) (clk j))
    (n : Nat)
    (hfirst : ∀ j, j < n → pollAt F clk (new F rate cap maxI limit t0) j ≠ .timeout)
    (hn : pollAt F clk (new F rate cap maxI limit t0) n = .timeout) :
    clk n ≤ t0 + ((new F rate cap maxI limit t0).intervalInstr + 1) * tmax ∨
    clk n * tmin ≤ (t0 + limit) * tmin + (limit / 10) * (tmax - tmin) + 2 * tmin * tmax := by
  have hinv := inv_run F rate cap maxI limit t0 tmin tmax clk hc hs n hfirst
  generalize hS : runN F clk n (new F rate cap maxI limit t0) 0 = s at hinv
  have hn' : (check F s (clk n)).2 = .timeout := by rw [← hS]; exact hn
  have heq : s.sinceLast = s.intervalInstr := by
    rcases check_cases F s (clk n) with ⟨_, h2⟩ | ⟨h1, _, _⟩ | ⟨_, _, h2⟩
    · rw [h2] at hn'; cases hn'
    · have := hinv.le; omega
    · rw [h2] at hn'; cases hn'
  have hhi := hinv.hi
  rw [heq] at hhi
  rcases hinv.shape with ⟨hT, hI⟩ | ⟨hI, hT⟩
  · left; rw [hT, hI] at hhi; exact hhi
  · right
    exact final_bound (clk n) s.lastCheck s.intervalInstr tmin tmax
      (min (limit / 10) (t0 + limit - s.lastCheck)) (limit / 10) (t0 + limit) hc.le hhi hI
      (Nat.min_le_left _ _) (by have := Nat.min_le_right (limit / 10) (t0 + limit - s.lastCheck); omega)

/-- Liveness + `never_early` + `bounded_slack` together: under the cost and rounding hypotheses some
check reports the timeout; the first one that does so reads a clock value at or past the deadline
and within the bound. -/
theorem detected_within_slack (F : TOps) (rate cap : UInt64) (maxI : Nat) (limit t0 tmin tmax : Nat) (clk : Nat → Nat)
    (hc : Costs clk t0 tmin tmax)
    (hs : ∀ j, pollAt F clk (new F rate cap maxI limit t0) j = .ok →
      UpdateSound F (runN F clk j (new F rate cap maxI limit t0) 0) (clk j)) :
    ∃ n, pollAt F clk (new F rate cap maxI limit t0) n = .timeout ∧
      (∀ j, j < n → pollAt F clk (new F rate cap maxI limit t0) j ≠ .timeout) ∧
      t0 + limit ≤ clk n ∧
      (clk n ≤ t0 + ((new F rate cap maxI limit t0).intervalInstr + 1) * tmax ∨
       clk n * tmin ≤ (t0 + limit) * tmin + (limit / 10) * (tmax - tmin) + 2 * tmin * tmax) := by
  have hlow := clk_lower clk t0 tmin tmax hc
  obtain ⟨n1, _, _, hn1⟩ := eventually_detected F clk (new F rate cap maxI limit t0) limit (by simp [new])
    (fun n hn => by have := hlow n; simp [new]; omega)
  obtain ⟨n, _, hn, hmin⟩ := least_of_exists (fun k => pollAt F clk (new F rate cap maxI limit t0) k = .timeout) n1 hn1
  exact ⟨n, hn, hmin, never_early_run F rate cap maxI limit t0 clk n hn,
    bounded_slack F rate cap maxI limit t0 tmin tmax clk hc hs n hmin hn⟩

/-- Slack with the interval cap (aa1a96f), independent of what ran before: if consecutive checks
are at most `tmax` apart (the cost of the most expensive instruction, clock read included) and the
first interval respects the cap (`hfirst`: a float fact about `min(baseline, 100.0) as usize`, which the
harness observes as 100 ≤ 1000), then the first check that reports the timeout does so no later than
`deadline + (maxInterval + 1) · tmax`. No lower bound on instruction cost and no hypothesis on the
rounding of the interval update are needed: the cheap/expensive ratio of earlier phases
(`bounded_slack`'s `tmax/tmin` term, F-C08-8) no longer enters. -/
theorem bounded_slack_capped (F : TOps) (rate cap : UInt64) (maxI : Nat) (limit t0 tmax : Nat) (clk : Nat → Nat)
    (hfirst : (new F rate cap maxI limit t0).intervalInstr ≤ maxI)
    (h0 : clk 0 ≤ t0 + tmax) (hstep : ∀ i, clk (i + 1) ≤ clk i + tmax)
    (n : Nat)
    (hbefore : ∀ j, j < n → pollAt F clk (new F rate cap maxI limit t0) j ≠ .timeout)
    (hn : pollAt F clk (new F rate cap maxI limit t0) n = .timeout) :
    clk n ≤ (t0 + limit) + (maxI + 1) * tmax := by
  have hinv : ∀ m, m ≤ n → InvC maxI (t0 + limit) tmax clk m (runN F clk m (new F rate cap maxI limit t0) 0) := by
    intro m
    induction m with
    | zero =>
      intro _
      show InvC maxI (t0 + limit) tmax clk 0 (new F rate cap maxI limit t0)
      refine ⟨rfl, rfl, by simp [new], hfirst, by simp [new], ?_⟩
      simp [new]; exact h0
    | succ m ih =>
      intro hm
      have ihm := ih (by omega)
      rw [runN_succ_last]
      simp only [Nat.zero_add]
      exact invC_step F maxI (t0 + limit) tmax clk hstep m _ ihm (hbefore m (by omega))
  have hI := hinv n (Nat.le_refl n)
  generalize hS : runN F clk n (new F rate cap maxI limit t0) 0 = s at hI
  have hn' : (check F s (clk n)).2 = .timeout := by rw [← hS]; exact hn
  have heq : s.sinceLast = s.intervalInstr := by
    rcases check_cases F s (clk n) with ⟨_, h2⟩ | ⟨h1, _, _⟩ | ⟨_, _, h2⟩
    · rw [h2] at hn'; cases hn'
    · have := hI.le; omega
    · rw [h2] at hn'; cases hn'
  have hhi := hI.hi
  rw [heq] at hhi
  have hmul : (s.intervalInstr + 1) * tmax ≤ (maxI + 1) * tmax :=
    Nat.mul_le_mul_right tmax (by have := hI.cap; omega)
  have := hI.last
  omega

/-- … and under the same hypotheses the timeout IS reported once the clock has passed the deadline
(liveness needs no hypothesis at all: `eventually_detected`), so together: a run whose clock passes
the deadline ends with a timeout reported within `(maxInterval + 1) · tmax` after it. -/
theorem detected_within_capped_slack (F : TOps) (rate cap : UInt64) (maxI : Nat) (limit t0 tmax : Nat)
    (clk : Nat → Nat)
    (hfirst : (new F rate cap maxI limit t0).intervalInstr ≤ maxI)
    (h0 : clk 0 ≤ t0 + tmax) (hstep : ∀ i, clk (i + 1) ≤ clk i + tmax)
    (n0 : Nat) (hpass : ∀ n, n0 ≤ n → t0 + limit ≤ clk n) :
    ∃ n, pollAt F clk (new F rate cap maxI limit t0) n = .timeout ∧
      t0 + limit ≤ clk n ∧ clk n ≤ (t0 + limit) + (maxI + 1) * tmax := by
  obtain ⟨n1, _, _, hn1⟩ := eventually_detected F clk (new F rate cap maxI limit t0) n0 (by simp [new])
    (fun n hn => by have := hpass n hn; simpa [new] using this)
  obtain ⟨n, _, hn, hmin⟩ :=
    least_of_exists (fun k => pollAt F clk (new F rate cap maxI limit t0) k = .timeout) n1 hn1
  exact ⟨n, hn, never_early_run F rate cap maxI limit t0 clk n hn,
    bounded_slack_capped F rate cap maxI limit t0 tmax clk hfirst h0 hstep n hmin hn⟩

example : ∃ n, pollAt ⟨fun _ => 0, fun _ _ => 0, fun _ _ => 0, fun _ _ => 0, fun _ _ => false,
      fun _ => false, fun _ => 0⟩ (fun j => 10 + 3 * (j + 1))
      (new ⟨fun _ => 0, fun _ _ => 0, fun _ _ => 0, fun _ _ => 0, fun _ _ => false,
      fun _ => false, fun _ => 0⟩ 0 0 1000 20 10) n = .timeout ∧
      (fun j => 10 + 3 * (j + 1)) n ≤ (10 + 20) + (1000 + 1) * 3 := by
  obtain ⟨n, h1, _, h3⟩ := detected_within_capped_slack ⟨fun _ => 0, fun _ _ => 0, fun _ _ => 0, fun _ _ => 0,
    fun _ _ => false, fun _ => false, fun _ => 0⟩ 0 0 1000 20 10 3 (fun j => 10 + 3 * (j + 1))
    (by simp [new, asUsize]) (by simp) (fun i => by omega) 20 (fun n hn => by simp; omega)
  exact ⟨n, h1, h3⟩

/-- The first `interval_instructions` checks of an entry never read the clock — whatever the clock
says, in particular however far past the deadline it is. Every `execute_instructions` invocation
starts with such a blind window of its own (`new` is called per entry, with deadline `now + limit`):
the model-level content of F-C08-2. -/
theorem first_interval_unobserved (F : TOps) (rate cap : UInt64) (maxI : Nat) (limit t0 : Nat) (clk : Nat → Nat) (n : Nat)
    (hn : n < (new F rate cap maxI limit t0).intervalInstr) :
    pollAt F clk (new F rate cap maxI limit t0) n = .skip := by
  have h := (poll_gap F clk (new F rate cap maxI limit t0) 0 (by simp [new])).1 n (by simpa [new] using hn)
  simpa [pollAt] using h

/-- the first interval is the capped baseline, exactly as `new` computes it: `min(rate · limit/10 s, cap)`
cast to `usize` (`cap = 100.0` since 0c1b674; before, the uncapped baseline made the first clock
read of a loop of expensive instructions arbitrarily late: F-C08-6) -/
theorem first_interval_formula (F : TOps) (rate cap : UInt64) (maxI : Nat) (limit t0 : Nat) :
    (new F rate cap maxI limit t0).intervalInstr =
      asUsize F (fmin F (F.mul rate (secsF F (limit / 10))) cap) ∧
    (new F rate cap maxI limit t0).intervalInstr ≤ usizeMax := by
  constructor
  · rfl
  · simp [new, asUsize]; omega

/-- a nested entry is armed from its own start time: its deadline ignores the enclosing entry's -/
theorem rearmed_per_entry (F : TOps) (rate cap : UInt64) (maxI : Nat) (limit tOuter tInner : Nat) :
    (new F rate cap maxI limit tInner).deadline = tInner + limit ∧
    (new F rate cap maxI limit tInner).deadline = (new F rate cap maxI limit tOuter).deadline + (tInner - tOuter) ∨
      tInner < tOuter := by
  by_cases h : tInner < tOuter
  · exact Or.inr h
  · left; simp [new]; omega

example : Costs (fun j => 10 + 3 * (j + 1)) 10 3 3 :=
  ⟨by decide, by decide, by simp, by simp, fun i => by omega, fun i => by omega⟩

/-- the hypotheses of `detected_within_slack` are satisfiable (degenerate float ops that always
produce interval 0, a clock ticking every 3 units): the conclusion is then a concrete detection. -/
example : ∃ n, pollAt ⟨fun _ => 0, fun _ _ => 0, fun _ _ => 0, fun _ _ => 0, fun _ _ => false,
      fun _ => false, fun _ => 0⟩ (fun j => 10 + 3 * (j + 1))
      (new ⟨fun _ => 0, fun _ _ => 0, fun _ _ => 0, fun _ _ => 0, fun _ _ => false,
      fun _ => false, fun _ => 0⟩ 0 0 1000 20 10) n = .timeout ∧ 10 + 20 ≤ (fun j => 10 + 3 * (j + 1)) n := by
  obtain ⟨n, h1, _, h3, _⟩ := detected_within_slack ⟨fun _ => 0, fun _ _ => 0, fun _ _ => 0, fun _ _ => 0,
    fun _ _ => false, fun _ => false, fun _ => 0⟩ 0 0 1000 20 10 3 3 (fun j => 10 + 3 * (j + 1))
    ⟨by decide, by decide, by simp, by simp, fun i => by omega, fun i => by omega⟩
    (fun j _ => by simp [UpdateSound, nextInterval, asUsize])
  exact ⟨n, h1, h3⟩

/-! ## 5. delivery: no handler can see a timeout

The model mirrors the code after the repair of F-C08-1 (commit 5a7e832): an error keeps its kind
when native code hands it from a nested interpreter entry to the enclosing one, and the enclosing
entry re-raises it with `allow_catch = kind.allowCatch` (`false` for a timeout). Before the repair
the re-raise used `allow_catch = true` for every kind and the model proved the negation
(`catchable_nested_witness`: `try (1, 2).each(|x| loop …).to_list() catch …` swallowed the timeout);
that witness now has to escape — see the `example`s below and the harness sweep. -/

/-- the executable path (`unwind` per entry + re-raise) equals the one-pass description -/
theorem deliver_flat (stack : List Frame) :
    deliverTimeout stack = deliverFlat .timeout false stack ∧
    deliverError stack = deliverFlat .other true stack :=
  ⟨deliverTimeout_flat stack, deliverError_flat stack⟩

/-- A timeout detected in entry `E` (the top entry of the stack) is not delivered to any catch of
`E`'s frames: the unwinding inside `E` never yields a handler. -/
theorem not_catchable_same_entry (stack : List Frame) : (unwind false stack).1 = none := by
  induction stack with
  | nil => simp [unwind]
  | cons f rest ih => cases hb : f.barrier <;> simp [unwind, hb, ih]

/-- … and it is not delivered to any catch of any enclosing entry either: for every call stack —
any number of nested entries, open handlers anywhere — a timeout reaches the host, and reaches it as
a timeout. A script cannot swallow it.
(History: before 5a7e832 the re-raise in the enclosing entry used `allow_catch = true`, F-C08-1;
before 5d8bf61 / 9cbdb4e `run_display` / `run_debug_op` replaced the error of a nested `@display` by
the string error "failed to get display value", F-C08-4: `m = {@display: || loop ()}`,
`try x = '{[m]}' catch e …` swallowed the timeout. Both negations were proved about the model of that
code and replayed; their witnesses are now ordinary cases of the sweep and must escape.) -/
theorem not_catchable_nested (stack : List Frame) : deliverTimeout stack = .escaped .timeout := by
  rw [deliverTimeout_flat]; exact flat_timeout_escaped stack

/-- handlers are irrelevant for a timeout: two stacks of any shape give the same delivery -/
theorem timeout_handlers_irrelevant (s1 s2 : List Frame) : deliverTimeout s1 = deliverTimeout s2 := by
  rw [not_catchable_nested, not_catchable_nested]

/-- the former witness of F-C08-1: callback frame = nested entry, handler 7 open in the main chunk -/
example : deliverTimeout [⟨[], true⟩, ⟨[7], true⟩] = .escaped .timeout := by decide

/-- handler in a middle entry, two nested entries above it -/
example : deliverTimeout [⟨[], true⟩, ⟨[], false⟩, ⟨[3], true⟩, ⟨[9], true⟩] = .escaped .timeout := by
  decide

/-- a plain call chain with handlers at every level of one entry -/
example : deliverTimeout [⟨[1], false⟩, ⟨[2, 3], false⟩, ⟨[4], true⟩] = .escaped .timeout := by decide

/-- ordinary errors on the same stacks are caught by the innermost handler (the statement about
timeouts is not vacuous: delivery does reach handlers — across entries — for other kinds) -/
example : deliverError [⟨[1], false⟩, ⟨[2, 3], false⟩, ⟨[4], true⟩] = .caught 1 3 := by decide
example : deliverError [⟨[], true⟩, ⟨[7], true⟩] = .caught 7 1 := by decide

/-- ordinary errors: delivered to the dynamically innermost open handler across entries; to the
host iff no handler is open -/
theorem error_caught_innermost (stack : List Frame) :
    (∀ h, firstHandler stack = some h → ∃ n, deliverError stack = .caught h n) ∧
    (firstHandler stack = none → deliverError stack = .escaped .other) := by
  rw [deliverError_flat]
  constructor
  · intro h hh
    obtain ⟨n, hn, _⟩ := (flat_true_handler stack).1 h hh
    exact ⟨n, hn⟩
  · exact (flat_true_handler stack).2


end KotoVerif.C08
