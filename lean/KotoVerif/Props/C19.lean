/-
C19 — rc and arc runtimes behave identically; shared containers are atomic under arc.

Property theorems about the cell protocol model `Model/Cell.lean`.  What they say about koto is
conditional on the model being the code: tied by the harness (`harness/src/bin/c19.rs`): the lock
protocol against the real `koto_memory::PtrMut` of both builds, sequential container semantics
against the real runtime, and whole programs rc-build vs arc-build.  Real thread interleavings are
only *sampled* by the stress runs; the theorems quantify over all schedules of the model.
-/
import KotoVerif.Model.Cell
import KotoVerif.Lemmas.C19
import KotoVerif.Lemmas.C19Deadlock

namespace KotoVerif.C19
open KotoVerif.Cell

variable {σ ρ : Type}

/-! ### 1. rc ≡ arc on single-threaded, non-re-entrant scripts -/

theorem lockStep_safe (s : LockSt) (r : Req)
    (h : (match r with
      | .borrow => canRead s
      | .borrowMut => canWrite s
      | _ => true) = true) :
    lockStep .rc s r = lockStep .arc s r ∧
      (lockStep .arc s r).1 ≠ .panic ∧ (lockStep .arc s r).1 ≠ .block := by
  cases r <;> simp only [lockStep] <;> simp at h <;> (try simp [h]) <;>
    (split <;> simp)

/-- The two builds differ *only* in what a conflicting blocking request does (panic vs block):
the lock state they reach is always the same. -/
theorem lockStep_state_mode_indep (s : LockSt) (r : Req) :
    (lockStep .rc s r).2 = (lockStep .arc s r).2 := by
  cases r <;> simp only [lockStep] <;> split <;> rfl

/-- For every single-threaded script that never issues a blocking borrow while a conflicting guard
is alive, the rc cell and the arc cell produce the same events (lock outcomes and values read or
returned), end in the same state, and never panic / block. Any cell state, any script length. -/
theorem rc_arc_equiv (c : CellSt σ) (script : List (Act σ ρ))
    (h : nonReentrant c.lock script = true) :
    run .rc c script = run .arc c script ∧
    ∀ e ∈ (run .rc c script).1, e ≠ .lock .panic ∧ e ≠ .lock .block := by
  induction script generalizing c with
  | nil => simp [run]
  | cons a rest ih =>
    have key : ∀ (_ : act (ρ := ρ) .rc c a = act .arc c a)
        (_ : (act (ρ := ρ) .arc c a).1 ≠ .lock .panic ∧ (act (ρ := ρ) .arc c a).1 ≠ .lock .block)
        (_ : nonReentrant (act (ρ := ρ) .arc c a).2.lock rest = true),
        run .rc c (a :: rest) = run .arc c (a :: rest) ∧
        ∀ e ∈ (run .rc c (a :: rest)).1, e ≠ .lock .panic ∧ e ≠ .lock .block := by
      intro hact hne hnr
      have hns : (act (ρ := ρ) .arc c a).1.stops = false := by
        generalize (act (ρ := ρ) .arc c a).1 = e at hne
        cases e with
        | lock o => cases o <;> simp_all [Ev.stops]
        | val r => rfl
        | fault => rfl
      have ih' := ih _ hnr
      simp only [run, hact, hns]
      refine ⟨by simp [ih'.1], ?_⟩
      intro e he
      simp at he
      rcases he with he | he
      · subst he; exact hne
      · exact ih'.2 e he
    cases a with
    | req r =>
      simp only [nonReentrant, Bool.and_eq_true] at h
      obtain ⟨h1, h2⟩ := h
      have hs := lockStep_safe c.lock r h1
      apply key
      · simp [act, hs.1]
      · simp [act, hs.2]
      · simpa [act] using h2
    | read f =>
      simp only [nonReentrant] at h
      apply key
      · simp [act]
      · simp only [act]; split <;> simp
      · simp only [act]; split <;> exact h
    | write f =>
      simp only [nonReentrant] at h
      apply key
      · simp [act]
      · simp only [act]; split <;> simp
      · simp only [act]; split <;> exact h

/-- values read / returned by a script -/
def vals : List (Ev ρ) → List ρ
  | [] => []
  | .val r :: es => r :: vals es
  | _ :: es => vals es

theorem run_bracket (m : Mode) (d : σ) (o : Op σ ρ) (rest : List (Act σ ρ)) :
    run m { data := d } (bracket o ++ rest) =
      (.lock .ok :: .val (o.f d).2 :: .lock .ok :: (run m { data := effD o d } rest).1,
       (run m { data := effD o d } rest).2) := by
  cases hw : o.write <;>
    simp [bracket, hw, run, act, lockStep, canRead, canWrite, Ev.stops, effD]

/-- A sequence of container operations, each one `acquire; access; release` (no nesting), is a
non-re-entrant script … -/
theorem brackets_nonReentrant (ops : List (Op σ ρ)) :
    nonReentrant {} (ops.flatMap bracket) = true := by
  induction ops with
  | nil => rfl
  | cons o rest ih =>
    cases hw : o.write <;>
      simpa [List.flatMap_cons, bracket, hw, nonReentrant, lockStep, canRead, canWrite] using ih

/-- … and in *both* builds it returns exactly the values of the sequential container semantics and
leaves the cell unlocked with the sequential final contents. -/
theorem rc_arc_equiv_brackets (m : Mode) (d : σ) (ops : List (Op σ ρ)) :
    vals (run m { data := d } (ops.flatMap bracket)).1 = (seqOps d ops).1 ∧
    (run m { data := d } (ops.flatMap bracket)).2 = { data := (seqOps d ops).2 } := by
  induction ops generalizing d with
  | nil => simp [run, vals, seqOps]
  | cons o rest ih =>
    simp only [List.flatMap_cons, run_bracket, vals, seqOps]
    have := ih (effD o d)
    simp only [effD] at this ⊢
    simp [this]

/-- the model of `l.extend l`: `l.data_mut()` is alive when `other.data()` is requested -/
def extendSelf : List (Act (List Nat) Unit) :=
  [.req .borrowMut, .req .borrow, .write (fun l => (l ++ l, ())), .req .dropRead, .req .dropWrite]

/-- Re-entrancy is where the builds differ: rc panics, arc blocks on itself (F-C19-1 / F-C06-3). -/
theorem reentrant_differs_witness :
    (run .rc { data := [1, 2] } extendSelf).1 = [.lock .ok, .lock .panic] ∧
    (run .arc { data := [1, 2] } extendSelf).1 = [.lock .ok, .lock .block] ∧
    nonReentrant {} extendSelf = false := by decide

/-- …but the non-blocking requests agree even then. -/
theorem try_requests_agree (s : LockSt) (r : Req) (h : r = .tryBorrow ∨ r = .tryBorrowMut) :
    lockStep .rc s r = lockStep .arc s r := by
  rcases h with h | h <;> subst h <;> rfl

-- non-vacuity: a script with nested shared guards, try-requests under conflict and accesses
example :
    let script : List (Act (List Nat) Nat) :=
      [.req .borrow, .req .borrow, .read List.length, .req .tryBorrowMut, .req .dropRead,
       .req .dropRead, .req .borrowMut, .write (fun l => (l ++ [7], l.length)), .req .tryBorrow,
       .req .dropWrite, .req .borrow, .read (fun l => l.getLastD 0), .req .dropRead]
    nonReentrant {} script = true ∧
    (run .rc { data := [1] } script).1 =
      [.lock .ok, .lock .ok, .val 1, .lock .none, .lock .ok, .lock .ok, .lock .ok, .val 1,
       .lock .none, .lock .ok, .lock .ok, .val 7, .lock .ok] := by decide

/-! ### 2. Atomicity: every interleaving of bracketed operations is linearizable -/

/-- **Linearizability.** For any initial data, any number of threads with any programs of
bracketed operations on one cell, and any schedule of micro-steps (acquire / first access /
second access / release; a blocked acquire stutters): the operations that have taken effect, in
the order `lin` of their effect steps, executed *one whole operation after the other*, give
exactly the shared data, exactly the results every thread has received, and `lin` restricted to a
thread is the prefix of its program that it has completed (program order). -/
theorem linearizable (d0 : σ) (progs : List (List (Op σ ρ))) (sched : List Nat) :
    let g := exec (init d0 progs) sched
    g.data = (seqAll d0 g.lin).1 ∧
    (∀ (t : Nat) (th : Thread σ ρ), g.threads[t]? = some th →
      th.results = resOf t (seqAll d0 g.lin).2 ∧
      progs[t]? = some (opsOf t g.lin ++ th.prog)) ∧
    (∀ e ∈ g.lin, ∃ p, progs[e.1]? = some p ∧ e.2 ∈ p) := by
  intro g
  have h := inv_reachable d0 progs sched
  exact ⟨h.data.data_eq, fun t th ht => ⟨h.data.results_eq t th ht, h.data.order t th ht⟩, h.mem⟩

theorem sum_map_zero {α : Type} (f : α → Nat) (l : List α) (h : ∀ a ∈ l, f a = 0) :
    (l.map f).sum = 0 := by
  induction l with
  | nil => rfl
  | cons x xs ih => simp [h x (by simp), ih (fun a ha => h a (by simp [ha]))]

/-- When every thread has finished, the linearization contains every thread's whole program, in
program order, and nothing else. -/
theorem linearizable_complete (d0 : σ) (progs : List (List (Op σ ρ))) (sched : List Nat)
    (hfin : ∀ th ∈ (exec (init d0 progs) sched).threads, th.prog = []) :
    let g := exec (init d0 progs) sched
    (∀ (t : Nat) (p : List (Op σ ρ)), progs[t]? = some p → opsOf t g.lin = p) ∧
    g.lin.length = (progs.map List.length).sum := by
  intro g
  have hg : g = exec (init d0 progs) sched := rfl
  clear_value g
  have h : Inv d0 progs g := hg ▸ inv_reachable d0 progs sched
  replace hfin : ∀ th ∈ g.threads, th.prog = [] := hg ▸ hfin
  have hlen : g.threads.length = progs.length := by rw [hg, threads_length_exec]; simp [init]
  constructor
  · intro t p hp
    have hlt : t < g.threads.length := by
      rw [hlen]; exact lt_of_getElem? hp
    have hth : g.threads[t]? = some g.threads[t] := List.getElem?_eq_getElem hlt
    have ho := h.data.order t _ hth
    have hnil := hfin _ (List.getElem_mem hlt)
    rw [hnil, List.append_nil, hp] at ho
    exact (Option.some.inj ho).symm
  · have hc := h.data.count
    have hz : (g.threads.map (fun th => th.prog.length)).sum = 0 :=
      sum_map_zero _ _ (fun th hth => by simp [hfin th hth])
    omega

/-- the counter increment as a bracketed operation: returns the old value -/
def incr : Op Nat Nat := { write := true, f := fun n => (n + 1, n) }

theorem seqAll_incr (lin : List (Nat × Op Nat Nat)) (acc : Nat × List (Nat × Nat))
    (h : ∀ e ∈ lin, e.2 = incr) : (lin.foldl seqStep acc).1 = acc.1 + lin.length := by
  induction lin generalizing acc with
  | nil => simp
  | cons e rest ih =>
    have he : e.2 = incr := h e (by simp)
    rw [List.foldl_cons, ih _ (fun e' he' => h e' (by simp [he']))]
    simp [seqStep, effD, he, incr]
    omega

/-- **No lost update.** Threads that only increment a shared counter (each increment one
bracket): at every moment the counter has gained exactly one per increment that has taken effect —
counter + increments still to do = initial + all increments. -/
theorem no_lost_update (d0 : Nat) (progs : List (List (Op Nat Nat)))
    (hinc : ∀ p ∈ progs, ∀ o ∈ p, o = incr) (sched : List Nat) :
    let g := exec (init d0 progs) sched
    g.data + (g.threads.map (fun th => th.prog.length)).sum = d0 + (progs.map List.length).sum := by
  intro g
  have hg : g = exec (init d0 progs) sched := rfl
  clear_value g
  have h : Inv d0 progs g := hg ▸ inv_reachable d0 progs sched
  have hall : ∀ e ∈ g.lin, e.2 = incr := by
    intro e he
    obtain ⟨p, hp, hm⟩ := h.mem e he
    exact hinc p (List.mem_of_getElem? hp) _ hm
  have hd : g.data = d0 + g.lin.length := by
    rw [h.data.data_eq]; exact seqAll_incr g.lin (d0, []) hall
  have hc := h.data.count
  omega

/-- k increments from any threads, all finished: the counter is at +k. -/
theorem no_lost_update_final (d0 : Nat) (progs : List (List (Op Nat Nat)))
    (hinc : ∀ p ∈ progs, ∀ o ∈ p, o = incr) (sched : List Nat)
    (hfin : ∀ th ∈ (exec (init d0 progs) sched).threads, th.prog = []) :
    (exec (init d0 progs) sched).data = d0 + (progs.map List.length).sum := by
  have h := no_lost_update d0 progs hinc sched
  have hz : ((exec (init d0 progs) sched).threads.map (fun th => th.prog.length)).sum = 0 :=
    sum_map_zero _ _ (fun th hth => by simp [hfin th hth])
  simp only at h
  omega

/-- **No torn read.** The two memory accesses of every completed read bracket saw the same data,
and that data is the result of a prefix of the linearization: a state between whole operations. -/
theorem no_torn_read (d0 : σ) (progs : List (List (Op σ ρ))) (sched : List Nat) :
    let g := exec (init d0 progs) sched
    ∀ (t : Nat) (th : Thread σ ρ) (a b : σ), g.threads[t]? = some th → (a, b) ∈ th.obs →
      a = b ∧ ∃ pre, pre <+: g.lin ∧ a = (seqAll d0 pre).1 := by
  intro g t th a b ht hab
  exact (inv_reachable d0 progs sched).data.obsOk t th a b ht hab

/-- The first access of every bracket, read or write, sees the current data: nobody else changes
it while the guard is held (this is what makes load-then-store an atomic update). -/
theorem guard_excludes_writers (d0 : σ) (progs : List (List (Op σ ρ))) (sched : List Nat) :
    let g := exec (init d0 progs) sched
    ∀ (t : Nat) (th : Thread σ ρ) (s : σ), g.threads[t]? = some th → th.phase = .loaded s →
      s = g.data := by
  intro g t th s ht hp
  exact (inv_reachable d0 progs sched).data.snap t th s ht hp

/-- Mutual exclusion, in lock terms: a thread inside a write bracket is the registered writer and
there are no readers; the annotated lock projects onto the `LockSt` of Part 1. -/
theorem mutual_exclusion (d0 : σ) (progs : List (List (Op σ ρ))) (sched : List Nat) :
    let g := exec (init d0 progs) sched
    ∀ (t : Nat) (th : Thread σ ρ), g.threads[t]? = some th → th.holdsW = true →
      g.lockSt = { readers := 0, writer := true } ∧
      ∀ (u : Nat) (thu : Thread σ ρ), g.threads[u]? = some thu → u ≠ t →
        thu.holdsW = false ∧ thu.holdsR = false := by
  intro g
  have hg : g = exec (init d0 progs) sched := rfl
  clear_value g
  intro t th ht hW
  have h : LockInv g := hg ▸ (inv_reachable d0 progs sched).lock
  have hw := h.wHeld t th ht hW
  have hr := h.excl t hw
  refine ⟨by simp [Conc.lockSt, hw, hr], ?_⟩
  intro u thu hu hne
  constructor
  · cases hW' : thu.holdsW with
    | false => rfl
    | true =>
      have := h.wHeld u thu hu hW'
      rw [hw] at this
      exact absurd (Option.some.inj this).symm hne
  · cases hR' : thu.holdsR with
    | false => rfl
    | true =>
      have := h.rHeld u thu hu hR'
      simp [hr] at this

/-- The thread model uses the lock exactly as Part 1 describes it (arc build): projected to
`(readers, writer)`, every micro-step either leaves the lock alone or is a *successful*
`borrow` / `borrow_mut` / guard drop of `lockStep .arc`; and a thread that is not enabled at an
acquire is precisely one whose blocking request answers `block`. -/
theorem lock_refines_protocol (d0 : σ) (progs : List (List (Op σ ρ))) (sched : List Nat) (t : Nat) :
    let g := exec (init d0 progs) sched
    ((step g t).lockSt = g.lockSt ∨ ∃ r, lockStep .arc g.lockSt r = (.ok, (step g t).lockSt)) ∧
    (∀ (th : Thread σ ρ) (o : Op σ ρ) (rest : List (Op σ ρ)), g.threads[t]? = some th →
      th.phase = .idle → th.prog = o :: rest → enabled g t = false →
      (lockStep .arc g.lockSt (if o.write then .borrowMut else .borrow)).1 = .block ∧ step g t = g) := by
  intro g
  exact ⟨conc_lock_refines g (inv_reachable d0 progs sched).lock t,
    fun th o rest ht hp hprog hne => blocked_is_block g t th o rest ht hp hprog hne⟩

/-- The lock is what makes it hold. Mutant "`borrow_mut` implemented with `read()`": two threads,
one increment each, interleaved load/load/store/store — one update is lost. -/
theorem lost_update_without_write_lock_witness :
    (execP .writeAsRead (init 0 [[incr], [incr]]) [0, 1, 0, 1, 0, 1, 0, 1]).data = 1 ∧
    (execP .proper (init 0 [[incr], [incr]]) [0, 1, 0, 1, 0, 1, 0, 1, 1, 1, 1, 1]).data = 2 := by
  decide

/-- a read bracket returning the data -/
def peek : Op Nat Nat := { write := false, f := fun n => (n, n) }

/-- Same mutant: a read bracket whose two accesses see different data (a torn read). -/
theorem torn_read_without_write_lock_witness :
    ((execP .writeAsRead (init 0 [[peek], [incr]]) [0, 0, 1, 1, 1, 0]).threads.map (·.obs))
      = [[(0, 1)], []] ∧
    ((execP .proper (init 0 [[peek], [incr]]) [0, 0, 1, 1, 1, 0, 0, 1, 1, 1, 1]).threads.map (·.obs))
      = [[(0, 0)], []] := by
  decide

-- non-vacuity: three threads on a shared list, a schedule that interleaves brackets and blocks
example :
    let progs : List (List (Op (List Int) Res)) :=
      [[(LOp.push 1).toOp, LOp.size.toOp], [(LOp.push 2).toOp, LOp.pop.toOp], [LOp.snapshot.toOp]]
    let g := exec (init [] progs)
      [0, 1, 2, 0, 0, 1, 2, 0, 1, 1, 1, 2, 2, 2, 0, 0, 1, 1, 1, 1, 0, 0, 0, 1, 2, 0, 2, 0, 2, 0, 2, 0]
    g.data = [1] ∧
    g.threads.map (·.results) = [[.unit, .int 1], [.unit, .int 2], [.ints [1]]] ∧
    g.lin.map (·.1) = [0, 1, 1, 2, 0] ∧
    g.threads.map (fun th => th.prog.length) = [0, 0, 0] := by decide

/-! ### 2b. The concrete container operations: permutation-only and read-only ones -/

theorem insertSorted_perm (x : Int) (l : List Int) : (insertSorted x l).Perm (x :: l) := by
  induction l with
  | nil => exact List.Perm.refl _
  | cons y ys ih =>
    simp only [insertSorted]
    split
    · exact List.Perm.refl _
    · exact (List.Perm.cons y ih).trans (List.Perm.swap x y ys)

theorem foldl_insertSorted_perm (l acc : List Int) :
    (l.foldl (fun acc x => insertSorted x acc) acc).Perm (l ++ acc) := by
  induction l generalizing acc with
  | nil => exact List.Perm.refl _
  | cons x xs ih =>
    simp only [List.foldl_cons, List.cons_append]
    refine (ih _).trans ?_
    exact (List.Perm.append_left xs (insertSorted_perm x acc)).trans List.perm_middle

/-- `l.sort()` only permutes: the multiset of elements is unchanged. -/
theorem sort_only_permutes (l : List Int) : (LOp.sort.sem l).1.Perm l := by
  simpa [LOp.sem, sortInts] using foldl_insertSorted_perm l []

/-- `l.reverse()` only permutes. -/
theorem reverse_only_permutes (l : List Int) : (LOp.reverse.sem l).1.Perm l := by
  simp [LOp.sem]

/-- Read operations (size, get, contains, snapshot = to_tuple / copy / display / `+`, ==, …) leave
the container as it is; by `no_torn_read` they observe exactly one state. -/
theorem list_read_keeps_data (o : LOp) (l : List Int) (h : o.isWrite = false) : (o.sem l).1 = l := by
  cases o <;> simp_all [LOp.isWrite, LOp.sem]

theorem map_read_keeps_data (o : MOp) (m : Assoc) (h : o.isWrite = false) : (o.sem m).1 = m := by
  cases o <;> simp_all [MOp.isWrite, MOp.sem]

/-! ### 3. No deadlock when an operation holds at most one lock at a time -/

/-- One cell (the model of Part 2): in every reachable state, if some thread has not finished then
some thread can take a step that is not a blocked acquire, and such a step strictly decreases the
remaining work — no deadlock and no livelock under any schedule that runs enabled threads. -/
theorem single_cell_progress (d0 : σ) (progs : List (List (Op σ ρ))) (sched : List Nat) :
    let g := exec (init d0 progs) sched
    (∀ (u : Nat) (th : Thread σ ρ), g.threads[u]? = some th → th.finished = false →
      ∃ t, enabled g t = true) ∧
    (∀ t, enabled g t = true → work (step g t) + 1 = work g) := by
  intro g
  have h := (inv_reachable d0 progs sched).lock
  exact ⟨fun u th hu hnf => progress_of_inv g h u th hu hnf, fun t he => enabled_step_work g h t he⟩

/-- **Deadlock freedom, any number of cells and threads.** If every thread's program holds at most
one lock at a time (`acq c w; rel c w` pairs, on any cells, shared or exclusive), then in every
reachable state a thread with work left implies some thread is enabled: there is no wait cycle,
because a thread that is waited for holds a lock, hence is not itself waiting. -/
theorem single_lock_no_deadlock (progs : Nat → List Instr) (hsl : ∀ t, singleLock (progs t) = true)
    (sched : List Nat) :
    let s := (Sys.init progs).exec sched
    ∀ u, (s.threads u).prog ≠ [] → ∃ t, s.enabled t = true := by
  intro s u hu
  exact sys_progress s (sysInv_exec _ sched (sysInv_init progs hsl)) u hu

/-- programs of `a.swap b` ∥ `b.swap a` (`list.swap` holds `a.data_mut()` and `b.data_mut()`
together), and of `l.extend l` on one thread -/
def swapProgs : Nat → List Instr
  | 0 => [.acq 0 true, .acq 1 true, .rel 1 true, .rel 0 true]
  | 1 => [.acq 1 true, .acq 0 true, .rel 0 true, .rel 1 true]
  | _ => []

def extendSelfProg : Nat → List Instr
  | 0 => [.acq 0 true, .acq 0 false, .rel 0 false, .rel 0 true]
  | _ => []

/-- The hypothesis is needed: with two locks held at once there is a wait cycle (both threads
unfinished, neither enabled) — outside the property's "operations on a single container". -/
theorem two_locks_deadlock_witness :
    let s := (Sys.init swapProgs).exec [0, 1]
    singleLock (swapProgs 0) = false ∧
    (s.threads 0).prog ≠ [] ∧ (s.threads 1).prog ≠ [] ∧
    s.enabled 0 = false ∧ s.enabled 1 = false := by decide

/-- …and a re-entrant acquisition on one cell blocks its own thread forever (arc side of
`reentrant_differs_witness`). -/
theorem reentrant_self_deadlock_witness :
    let s := (Sys.init extendSelfProg).exec [0]
    singleLock (extendSelfProg 0) = false ∧ (s.threads 0).prog ≠ [] ∧ s.enabled 0 = false ∧
    (s.exec [0, 0, 0]).enabled 0 = false := by decide

-- non-vacuity of `single_lock_no_deadlock`: three threads over two cells, mixed guards
example :
    let progs : Nat → List Instr := fun t =>
      match t with
      | 0 => [.acq 0 true, .rel 0 true, .acq 1 false, .rel 1 false]
      | 1 => [.acq 1 true, .rel 1 true, .acq 0 true, .rel 0 true]
      | 2 => [.acq 0 false, .rel 0 false]
      | _ => []
    (∀ t, singleLock (progs t) = true) ∧
    ((Sys.init progs).exec [0, 1, 2, 1, 0, 2]).enabled 2 = true := by
  refine ⟨?_, by decide⟩
  intro t
  match t with
  | 0 | 1 | 2 => decide
  | _ + 3 => rfl

end KotoVerif.C19
