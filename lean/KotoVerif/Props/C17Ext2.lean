/-
C17 — second extension: end-to-end statements connecting the arithmetic decision list's two ways
into the right operand ("the left operand lacks the operator" vs "it threw koto.unimplemented"),
for map objects and host objects alike; per-method "not implemented ⇒ error" for host objects;
no dispatch at all on primitive operands / on maps without comparison metakeys.
-/
import KotoVerif.Model.Meta
import KotoVerif.Lemmas.C17

namespace KotoVerif.C17Ext2
open KotoVerif.Meta KotoVerif.Gen KotoVerif.C17L

/-! ## the right-operand stage is independent of what was recorded before it -/

/-- `hostRhs` only appends to the trace recorded so far; its result does not depend on it -/
theorem hostRhs_pre (op : ArithOp) (h : HostD) (lhs : Opd) (pre : List Ev) :
    hostRhs op h lhs pre = ⟨pre ++ (hostRhs op h lhs []).trace, (hostRhs op h lhs []).res⟩ := by
  unfold hostRhs
  generalize h.call op.rhm [lhs.av] = c
  obtain ⟨t, r⟩ := c
  cases r <;> simp

theorem mapRhs_pre (op : ArithOp) (tag : Name) (mv : MV) (lhs rhs : Opd) (pre : List Ev) :
    mapRhs op tag mv lhs rhs pre
      = ⟨pre ++ (mapRhs op tag mv lhs rhs []).trace, (mapRhs op tag mv lhs rhs []).res⟩ := by
  simp [mapRhs]

/-- the stage after "unimplemented": the earlier trace is kept as a prefix and nothing else of it
matters -/
theorem rhsAfterUnimpl_pre (op : ArithOp) (lhs rhs : Opd) (pre : List Ev) :
    rhsAfterUnimpl op lhs rhs pre
      = ⟨pre ++ (rhsAfterUnimpl op lhs rhs []).trace, (rhsAfterUnimpl op lhs rhs []).res⟩ := by
  unfold rhsAfterUnimpl
  cases rhs with
  | prim k => simp
  | host h => simpa using hostRhs_pre op h lhs pre
  | map m2 =>
    cases hm : m2.metaGet op.rkey with
    | none => simp [hm]
    | some p => obtain ⟨tag, mv⟩ := p; simpa [hm] using mapRhs_pre op tag mv lhs (.map m2) pre

/-- the right-operand stage sees the left operand only through its identity (`av`) -/
theorem rhsAfterUnimpl_lhs_av (op : ArithOp) (lhs lhs' rhs : Opd) (pre : List Ev)
    (h : lhs.av = lhs'.av) :
    rhsAfterUnimpl op lhs rhs pre = rhsAfterUnimpl op lhs' rhs pre := by
  unfold rhsAfterUnimpl hostRhs mapRhs
  simp [h]

/-- "lacks the operator" and "threw koto.unimplemented" reach the same right-operand decisions,
except in one place: `map + map` with no `@r+` on the right merges only in the first case -/
theorem rhsAfterUnimpl_eq_rhsDirect (op : ArithOp) (m : MapD) (rhs : Opd)
    (hx : ∀ m2, rhs = .map m2 → m2.metaGet op.rkey = none → op ≠ .add) :
    rhsAfterUnimpl op (.map m) rhs [] = rhsDirect op (.map m) rhs := by
  unfold rhsAfterUnimpl rhsDirect
  cases rhs with
  | prim k => simp
  | host h => simp
  | map m2 =>
    cases hm : m2.metaGet op.rkey with
    | some p => simp [hm]
    | none =>
      have := hx m2 rfl hm
      simp [hm, this]

/-! ## throwing `koto.unimplemented` ≡ not having the operator (plus the recorded call) -/

/-- MAP OBJECTS. An `@op` entry that throws `koto.unimplemented` makes the whole operation behave
exactly as for the same map without that entry — same further callees with the same operands, same
result — preceded by the one recorded call of `@op` with `(self := lhs, arg := rhs)`. -/
theorem unimpl_same_as_missing (op : ArithOp) (m m0 : MapD) (rhs : Opd) (tag : Name)
    (hn : m.top.name = m0.top.name)
    (hk : m.metaGet op.key = some (tag, .fn .unimpl))
    (h0 : m0.metaGet op.key = none)
    (hx : ∀ m2, rhs = .map m2 → m2.metaGet op.rkey = none → op ≠ .add) :
    arith op (.map m) rhs =
      ⟨⟨tag, .mk op.key, m.av, [rhs.av]⟩ :: (arith op (.map m0) rhs).trace,
       (arith op (.map m0) rhs).res⟩ := by
  have hav : (Opd.map m).av = (Opd.map m0).av := by simp [Opd.av, MapD.av, hn]
  have e0 : arith op (.map m0) rhs = rhsAfterUnimpl op (.map m0) rhs [] := by
    rw [rhsAfterUnimpl_eq_rhsDirect op m0 rhs hx]; simp [arith, h0]
  have e1 : arith op (.map m) rhs
      = rhsAfterUnimpl op (.map m) rhs [⟨tag, .mk op.key, m.av, [rhs.av]⟩] := by
    simp [arith, hk, invoke_fn, Beh.run, Beh.runAt, Opd.av]
  rw [e1, e0, rhsAfterUnimpl_pre, rhsAfterUnimpl_lhs_av op (.map m) (.map m0) rhs [] hav]
  simp

example : (⟨⟨1, [], .own ⟨7, [(.Add, .fn .unimpl)], [], .none, false⟩⟩, []⟩ : MapD).metaGet
    ArithOp.add.key = some (7, .fn .unimpl) := by decide

/-- the excluded corner is a real difference of the decision list: with a plain map on the right,
`+` merges when `@+` is absent but is an error when `@+` threw `koto.unimplemented` -/
example :
    (arith .add (.map ⟨⟨1, [], .own ⟨7, [(.Add, .fn .unimpl)], [], .none, false⟩⟩, []⟩)
        (.map ⟨⟨2, [], .none⟩, []⟩)).res = .err (.binop .Add) ∧
    (arith .add (.map ⟨⟨1, [], .own ⟨7, [], [], .none, false⟩⟩, []⟩)
        (.map ⟨⟨2, [], .none⟩, []⟩)).res = .ok .builtin := by decide

/-- HOST OBJECTS obey the same rule, with no exception: a method returning
`ErrorKind::Unimplemented` ≡ the method not overridden, plus the one recorded call. -/
theorem host_unimpl_same_as_missing (op : ArithOp) (h h0 : HostD) (rhs : Opd)
    (hn : h.name = h0.name) (hg : h.gen = h0.gen)
    (hk : h.impl.lookup op.hm = some .unimpl)
    (h0k : h0.impl.lookup op.hm = none) :
    arith op (.host h) rhs =
      ⟨⟨h.name, .host op.hm, h.av, [rhs.av]⟩ :: (arith op (.host h0) rhs).trace,
       (arith op (.host h0) rhs).res⟩ := by
  have hav : (Opd.host h).av = (Opd.host h0).av := by simp [Opd.av, HostD.av, hn, hg]
  have e0 : arith op (.host h0) rhs = rhsAfterUnimpl op (.host h0) rhs [] := by
    simp [arith, HostD.call, h0k]
  have e1 : arith op (.host h) rhs
      = rhsAfterUnimpl op (.host h) rhs [⟨h.name, .host op.hm, h.av, [rhs.av]⟩] := by
    simp [arith, HostD.call, hk, Beh.hostRes, Beh.run, Beh.runAt]
  rw [e1, e0, rhsAfterUnimpl_pre, rhsAfterUnimpl_lhs_av op (.host h) (.host h0) rhs [] hav]
  simp

example : (⟨3, 0, [(.add, .unimpl)], .notIterable⟩ : HostD).impl.lookup ArithOp.add.hm
    = some .unimpl := by decide

/-- a left operand that lacks the operator behaves the same whether it is a map object or a host
object with the same identity-independent right operand: the right operand's decision is reached
with an empty trace in both cases (maps: apart from the `+` merge corner) -/
theorem missing_lhs_map_vs_host (op : ArithOp) (m : MapD) (h : HostD) (rhs : Opd)
    (hm : m.metaGet op.key = none) (hh : h.impl.lookup op.hm = none)
    (hx : ∀ m2, rhs = .map m2 → m2.metaGet op.rkey = none → op ≠ .add) :
    arith op (.map m) rhs = rhsAfterUnimpl op (.map m) rhs [] ∧
    arith op (.host h) rhs = rhsAfterUnimpl op (.host h) rhs [] := by
  refine ⟨?_, ?_⟩
  · rw [rhsAfterUnimpl_eq_rhsDirect op m rhs hx]; simp [arith, hm]
  · simp [arith, HostD.call, hh]

example : (⟨⟨1, [], .none⟩, []⟩ : MapD).metaGet ArithOp.sub.key = none := by decide

/-! ## host objects: each operation whose method is not implemented is an error -/

/-- strengthens `object_unimplemented_is_error` from "implements nothing" to "does not implement
that one method", whatever else the object implements -/
theorem host_missing_method_is_error (h : HostD) :
    (h.impl.lookup .negate = none → negate (.host h) = ⟨[], .err .hostUnimpl⟩) ∧
    (h.impl.lookup .index = none → ∀ i, index (.host h) i = ⟨[], .err .hostUnimpl⟩) ∧
    (h.impl.lookup .indexAssign = none → ∀ i, indexAssign (.host h) i = ⟨[], .err .hostUnimpl⟩) ∧
    (h.impl.lookup .call = none → callOp (.host h) = ⟨[], .err .hostUnimpl⟩) ∧
    (h.impl.lookup .size = none → size (.host h) = ⟨[], .err .type⟩) ∧
    (∀ op rhs same, h.impl.lookup op.ahm = none → (∀ h2, rhs ≠ .host h2) →
      compound op (.host h) rhs same = ⟨[], .err .hostUnimpl⟩) ∧
    (∀ op (k : PrimK), h.impl.lookup op.hm = none →
      arith op (.host h) (.prim k) = ⟨[], .err (.binop op.key)⟩) := by
  refine ⟨?_, ?_, ?_, ?_, ?_, ?_, ?_⟩
  · intro hn; simp [negate, HostD.call, hn, HostRes.pass]
  · intro hn i; simp [index, HostD.call, hn, HostRes.pass]
  · intro hn i; simp [indexAssign, HostD.call, hn, HostRes.pass]
  · intro hn; simp [callOp, HostD.call, hn, HostRes.pass]
  · intro hn; simp [size, hn]
  · intro op rhs same hn hr
    cases rhs with
    | host h2 => exact absurd rfl (hr h2)
    | prim k => simp [compound, HostD.call, hn, HostRes.pass]
    | map m => simp [compound, HostD.call, hn, HostRes.pass]
  · intro op k hn; simp [arith, HostD.call, hn, rhsAfterUnimpl]

example : (⟨3, 0, [(.add, .ret .null)], .notIterable⟩ : HostD).impl.lookup .negate = none := by
  decide

/-! ## no dispatch without an object -/

/-- unary and protocol operations on a primitive operand never invoke a callee -/
theorem prim_operand_never_dispatches (k : PrimK) (i : IdxK) :
    (negate (.prim k)).trace = [] ∧ (notOp (.prim k)).trace = [] ∧ (size (.prim k)).trace = [] ∧
    (index (.prim k) i).trace = [] ∧ (indexAssign (.prim k) i).trace = [] ∧
    (callOp (.prim k)).trace = [] := by
  cases k <;> cases i <;> simp [negate, notOp, size, index, indexAssign, callOp]

/-- a map object without any of the six comparison metakeys: ordering comparisons are errors,
(in)equality is the built-in one, and no callee runs — in particular nothing of the right operand
is consulted, whatever it is -/
theorem no_cmp_keys_no_dispatch (m : MapD) (rhs : Opd)
    (hk : ∀ op : CmpOp, m.metaGet op.key = none) :
    (∀ op : CmpOp, op ≠ .eq → op ≠ .ne →
      compareOp op (.map m) rhs = ⟨[], .err (.binop op.key)⟩) ∧
    (∀ ne, (equality ne (.map m) rhs).trace = [] ∧ ∃ v, (equality ne (.map m) rhs).res = .ok v) := by
  have hlt := hk .lt; have hle := hk .le; have hgt := hk .gt
  have hge := hk .ge; have heq := hk .eq; have hne := hk .ne
  simp only [CmpOp.key] at hlt hle hgt hge heq hne
  refine ⟨?_, ?_⟩
  · intro op h1 h2
    cases op <;> simp_all [compareOp, order, CmpOp.key]
  · intro ne
    cases rhs with
    | prim k => cases k <;> cases ne <;> simp [equality, heq, hne]
    | map m2 => cases ne <;> simp [equality, heq, hne]
    | host h2 => cases ne <;> simp [equality, heq, hne]

example : ∀ op : CmpOp, (⟨⟨1, [], .none⟩, []⟩ : MapD).metaGet op.key = none := by
  intro op; cases op <;> decide

end KotoVerif.C17Ext2
