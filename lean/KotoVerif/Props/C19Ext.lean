/-
C19 — extension theorems about the executable model `Model/Cell.lean` (all definitions below are
reached by the driver `Drivers/C19.lean`: `run`/`lockStep` by `lock`, `seqOps`/`bracket` by `seq`,
`seqAll`/`resOf` by `lin`, `LOp.sem`/`MOp.sem` and the `Assoc.*` helpers by both).
-/
import KotoVerif.Model.Cell
import KotoVerif.Props.C19

namespace KotoVerif.C19Ext
open KotoVerif.Cell

variable {σ ρ : Type}

/-! ### 1. the two sequential specifications used by the driver agree (`seqAll` refines `seqOps`) -/

theorem seqOps_length (d : σ) (ops : List (Op σ ρ)) : (seqOps d ops).1.length = ops.length := by
  induction ops generalizing d with
  | nil => simp [seqOps]
  | cons o rest ih => simp [seqOps, ih]

theorem seqAll_fold_eq_seqOps (lin : List (Nat × Op σ ρ)) (d : σ) (acc : List (Nat × ρ)) :
    lin.foldl seqStep (d, acc) =
      ((seqOps d (lin.map (·.2))).2, acc ++ (lin.map (·.1)).zip (seqOps d (lin.map (·.2))).1) := by
  induction lin generalizing d acc with
  | nil => simp [seqOps]
  | cons e rest ih =>
    simp only [List.foldl_cons, seqStep, List.map_cons]
    rw [ih]
    simp [seqOps, effD]

/-- the linearization checker `seqAll` (tagged, foldl) computes exactly what the untagged
sequential meaning `seqOps` computes: same final data, same results in the same order, and the
tags are the issuing threads in order -/
theorem seqAll_refines_seqOps (d : σ) (lin : List (Nat × Op σ ρ)) :
    (seqAll d lin).1 = (seqOps d (lin.map (·.2))).2 ∧
    (seqAll d lin).2.map (·.2) = (seqOps d (lin.map (·.2))).1 ∧
    (seqAll d lin).2.map (·.1) = lin.map (·.1) := by
  unfold seqAll
  rw [seqAll_fold_eq_seqOps]
  have hl := seqOps_length d (lin.map (·.2))
  refine ⟨rfl, ?_, ?_⟩
  · simp only [List.nil_append]
    apply List.map_snd_zip
    simp [hl]
  · simp only [List.nil_append]
    apply List.map_fst_zip
    simp [hl]

/-- `seqOps` is compositional: running `a ++ b` is running `a`, then `b` from the data `a` left -/
theorem seqOps_append (d : σ) (a b : List (Op σ ρ)) :
    seqOps d (a ++ b) =
      ((seqOps d a).1 ++ (seqOps (seqOps d a).2 b).1, (seqOps (seqOps d a).2 b).2) := by
  induction a generalizing d with
  | nil => simp [seqOps]
  | cons o rest ih => simp [seqOps, ih]

/-- a history of read operations only leaves the container as it was -/
theorem seqOps_reads_keep_data (d : σ) (ops : List (Op σ ρ)) (h : ∀ o ∈ ops, o.write = false) :
    (seqOps d ops).2 = d := by
  induction ops generalizing d with
  | nil => simp [seqOps]
  | cons o rest ih =>
    have ho : o.write = false := h o (by simp)
    simp only [seqOps, ho]
    exact ih d (fun o' ho' => h o' (by simp [ho']))

example : ∀ o ∈ [LOp.size.toOp, (LOp.get 0).toOp], o.write = false := by decide

/-- each thread's results in a linearization depend only on the tags: `resOf` of a thread that
issued nothing is empty -/
theorem resOf_absent (t : Nat) (d : σ) (lin : List (Nat × Op σ ρ)) (h : ∀ e ∈ lin, e.1 ≠ t) :
    resOf t (seqAll d lin).2 = [] := by
  have h3 := (seqAll_refines_seqOps d lin).2.2
  unfold resOf
  rw [List.map_eq_nil_iff, List.filter_eq_nil_iff]
  intro e he
  have : e.1 ∈ (seqAll d lin).2.map (·.1) := List.mem_map_of_mem he
  rw [h3] at this
  obtain ⟨e', he', heq⟩ := List.mem_map.mp this
  have := h e' he'
  simp
  omega

example : ∀ e ∈ [((0 : Nat), LOp.size.toOp)], e.1 ≠ 1 := by decide

/-! ### 2. the lock word: reader/writer exclusion in every reachable state, round trips -/

/-- the exclusive guard and shared guards are never alive together -/
def LockWF (s : LockSt) : Prop := s.writer = true → s.readers = 0

theorem lockStep_wf (m : Mode) (s : LockSt) (r : Req) (h : LockWF s) : LockWF (lockStep m s r).2 := by
  obtain ⟨rd, w⟩ := s
  cases r <;> cases w <;> simp [LockWF, lockStep, canRead, canWrite] at * <;>
    (try split) <;> simp_all

theorem act_wf (m : Mode) (c : CellSt σ) (a : Act σ ρ) (h : LockWF c.lock) :
    LockWF (act m c a).2.lock := by
  cases a with
  | req r => exact lockStep_wf m c.lock r h
  | read f => simp only [act]; split <;> exact h
  | write f => simp only [act]; split <;> exact h

/-- for every script (re-entrant or not, well-bracketed or not), in both builds, the cell never
reaches a state with the exclusive guard and a shared guard alive together -/
theorem run_wf (m : Mode) (c : CellSt σ) (script : List (Act σ ρ)) (h : LockWF c.lock) :
    LockWF (run m c script).2.lock := by
  induction script generalizing c with
  | nil => simpa [run] using h
  | cons a rest ih =>
    simp only [run]
    split
    · exact act_wf m c a h
    · exact ih _ (act_wf m c a h)

example : LockWF ({} : LockSt) := by simp [LockWF]

/-- a successful `borrow` followed by dropping the guard restores the lock word exactly -/
theorem borrow_drop_roundtrip (m : Mode) (s : LockSt) (h : (lockStep m s .borrow).1 = .ok) :
    lockStep m (lockStep m s .borrow).2 .dropRead = (.ok, s) := by
  obtain ⟨rd, w⟩ := s
  cases w <;> cases m <;> simp [lockStep, canRead, conflict] at *

/-- a successful `borrow_mut` followed by dropping the guard restores the lock word exactly -/
theorem borrowMut_drop_roundtrip (m : Mode) (s : LockSt) (h : (lockStep m s .borrowMut).1 = .ok) :
    lockStep m (lockStep m s .borrowMut).2 .dropWrite = (.ok, s) := by
  obtain ⟨rd, w⟩ := s
  cases w <;> cases m <;> simp [lockStep, canWrite, conflict] at * <;>
    (split at h <;> simp_all)

example : (lockStep .rc {} .borrow).1 = .ok := by decide
example : (lockStep .arc {} .borrowMut).1 = .ok := by decide

/-- the data of a cell is only ever changed through the exclusive guard: a script without
`write` accesses leaves the data unchanged in both builds, whatever it does with the lock -/
theorem run_no_write_keeps_data (m : Mode) (c : CellSt σ) (script : List (Act σ ρ))
    (h : ∀ a ∈ script, ∀ f, a ≠ .write f) : (run m c script).2.data = c.data := by
  induction script generalizing c with
  | nil => simp [run]
  | cons a rest ih =>
    have ha : (act m c a).2.data = c.data := by
      cases a with
      | req r => simp [act]
      | read f => simp only [act]; split <;> rfl
      | write f => exact absurd rfl (h _ (by simp) f)
    simp only [run]
    split
    · exact ha
    · rw [ih _ (fun a' ha' => h a' (by simp [ha'])), ha]

example : ∀ a ∈ ([.req .borrow, .read id, .req .dropRead] : List (Act Nat Nat)), ∀ f, a ≠ .write f := by
  intro a ha f; simp at ha; rcases ha with rfl | rfl | rfl <;> simp

/-! ### 3. map helpers (`IndexMap` as an association list): lookup laws -/

theorem find_put_same (k v : Int) (m : Assoc) : Assoc.find k (Assoc.put k v m) = some v := by
  induction m with
  | nil => simp [Assoc.put, Assoc.find]
  | cons e rest ih =>
    obtain ⟨k', v'⟩ := e
    by_cases hk : k' = k <;> simp [Assoc.put, Assoc.find, hk, ih]

theorem find_put_other (k k' v : Int) (m : Assoc) (h : k' ≠ k) :
    Assoc.find k' (Assoc.put k v m) = Assoc.find k' m := by
  induction m with
  | nil => simp [Assoc.put, Assoc.find, Ne.symm h]
  | cons e rest ih =>
    obtain ⟨k2, v2⟩ := e
    by_cases hk : k2 = k
    · subst hk; simp [Assoc.put, Assoc.find, Ne.symm h]
    · by_cases hk' : k2 = k'
      · subst hk'; simp [Assoc.put, Assoc.find, h]
      · simp [Assoc.put, Assoc.find, hk, hk', ih]

theorem find_del_other (k k' : Int) (m : Assoc) (h : k' ≠ k) :
    Assoc.find k' (Assoc.del k m) = Assoc.find k' m := by
  induction m with
  | nil => simp [Assoc.del, Assoc.find]
  | cons e rest ih =>
    obtain ⟨k2, v2⟩ := e
    by_cases hk : k2 = k
    · subst hk; simp [Assoc.del, Assoc.find, Ne.symm h]
    · by_cases hk' : k2 = k'
      · subst hk'; simp [Assoc.del, Assoc.find, h]
      · simp [Assoc.del, Assoc.find, hk, hk', ih]

example : (3 : Int) ≠ 4 := by decide

/-- inserting never changes the number of entries by more than the one new key -/
theorem put_length (k v : Int) (m : Assoc) :
    (Assoc.put k v m).length = if (Assoc.find k m).isSome then m.length else m.length + 1 := by
  induction m with
  | nil => simp [Assoc.put, Assoc.find]
  | cons e rest ih =>
    obtain ⟨k', v'⟩ := e
    by_cases hk : k' = k
    · simp [Assoc.put, Assoc.find, hk]
    · simp [Assoc.put, Assoc.find, hk, ih]; split <;> rfl

/-- `m.insert k, v` then `m.get k` reads `v` back (as `valRes`), whatever the map held -/
theorem map_insert_get (k v : Int) (m : Assoc) :
    ((MOp.get k).sem ((MOp.insert k v).sem m).1).2 = valRes (some v) := by
  simp [MOp.sem, find_put_same]

/-- `m.insert k, v` does not change what any other key reads -/
theorem map_insert_get_other (k k' v : Int) (m : Assoc) (h : k' ≠ k) :
    ((MOp.get k').sem ((MOp.insert k v).sem m).1).2 = ((MOp.get k').sem m).2 := by
  simp [MOp.sem, find_put_other k k' v m h]

/-! ### 4. list operations: `sort` sorts, push/pop round trip, sizes -/

theorem insertSorted_sorted (x : Int) (l : List Int) (h : l.Pairwise (· ≤ ·)) :
    (insertSorted x l).Pairwise (· ≤ ·) := by
  induction l with
  | nil => simp [insertSorted]
  | cons y ys ih =>
    simp only [insertSorted]
    split
    · rename_i hxy
      rw [List.pairwise_cons] at h ⊢
      refine ⟨?_, List.pairwise_cons.mpr h⟩
      intro a ha
      simp at ha
      rcases ha with rfl | ha
      · omega
      · have := h.1 a ha; omega
    · rename_i hxy
      rw [List.pairwise_cons] at h ⊢
      refine ⟨?_, ih h.2⟩
      intro a ha
      have hp : a ∈ x :: ys := by
        have : (insertSorted x ys).Perm (x :: ys) := by
          clear ih h ha hxy
          induction ys with
          | nil => simp [insertSorted]
          | cons z zs ih2 =>
            simp only [insertSorted]; split
            · exact List.Perm.refl _
            · exact (List.Perm.cons z ih2).trans (List.Perm.swap x z zs)
        exact this.mem_iff.mp ha
      simp at hp
      rcases hp with rfl | hp
      · omega
      · exact h.1 a hp

theorem foldl_insertSorted_sorted (l acc : List Int) (h : acc.Pairwise (· ≤ ·)) :
    (l.foldl (fun acc x => insertSorted x acc) acc).Pairwise (· ≤ ·) := by
  induction l generalizing acc with
  | nil => simpa using h
  | cons x xs ih => exact ih _ (insertSorted_sorted x acc h)

/-- `l.sort()` leaves the list in ascending order (with `sort_only_permutes`: it is *the* sorted
permutation) -/
theorem sort_sorts (l : List Int) : (LOp.sort.sem l).1.Pairwise (· ≤ ·) := by
  simp only [LOp.sem, sortInts]
  exact foldl_insertSorted_sorted l [] List.Pairwise.nil

/-- `l.push x` then `l.pop()` returns `x` and restores the list -/
theorem push_pop_roundtrip (x : Int) (l : List Int) :
    LOp.pop.sem ((LOp.push x).sem l).1 = (l, .int x) := by
  simp [LOp.sem, optRes]

/-- the length effect of every list operation that cannot fail is what the API promises -/
theorem list_length_effects (l : List Int) (x : Int) (n : Nat) (xs : List Int) :
    ((LOp.push x).sem l).1.length = l.length + 1 ∧
    (LOp.pop.sem l).1.length = l.length - 1 ∧
    ((LOp.fill x).sem l).1.length = l.length ∧
    (LOp.reverse.sem l).1.length = l.length ∧
    ((LOp.resize n x).sem l).1.length = n ∧
    ((LOp.extend xs).sem l).1.length = l.length + xs.length ∧
    ((LOp.addAll x).sem l).1.length = l.length := by
  simp [LOp.sem]
  omega

/-! ### 5. map invariant: keys stay distinct (IndexMap is a map) under every operation / history -/

def keys (m : Assoc) : List Int := m.map (·.1)

theorem keys_put (k v : Int) (m : Assoc) :
    keys (Assoc.put k v m) = if k ∈ keys m then keys m else keys m ++ [k] := by
  induction m with
  | nil => simp [Assoc.put, keys]
  | cons e rest ih =>
    obtain ⟨k', v'⟩ := e
    by_cases hk : k' = k
    · subst hk; simp [Assoc.put, keys]
    · have hk2 : ¬ k = k' := fun h => hk h.symm
      simp only [keys] at ih
      simp only [Assoc.put, keys, hk, if_false, List.map_cons, ih, List.mem_cons, hk2, false_or]
      split <;> simp_all

theorem put_keys_nodup (k v : Int) (m : Assoc) (h : (keys m).Nodup) : (keys (Assoc.put k v m)).Nodup := by
  rw [keys_put]
  split
  · exact h
  · rename_i hm
    rw [List.nodup_append]
    refine ⟨h, by simp, ?_⟩
    intro a ha b hb
    simp at hb
    subst hb
    intro hab
    exact hm (hab ▸ ha)

theorem del_sublist (k : Int) (m : Assoc) : (Assoc.del k m).Sublist m := by
  induction m with
  | nil => simp [Assoc.del]
  | cons e rest ih =>
    obtain ⟨k', v'⟩ := e
    simp only [Assoc.del]; split
    · exact List.sublist_cons_self _ _
    · exact ih.cons_cons _

theorem del_keys_nodup (k : Int) (m : Assoc) (h : (keys m).Nodup) : (keys (Assoc.del k m)).Nodup :=
  List.Nodup.sublist ((del_sublist k m).map _) h

theorem find_none_of_not_mem (k : Int) (m : Assoc) (h : k ∉ keys m) : Assoc.find k m = none := by
  induction m with
  | nil => simp [Assoc.find]
  | cons e rest ih =>
    obtain ⟨k', v'⟩ := e
    simp [keys] at h
    have hk : ¬ k' = k := fun h' => h.1 h'.symm
    simp only [Assoc.find, hk, if_false]
    exact ih (by simpa [keys] using h.2)

/-- on a map with distinct keys, `m.remove k` really removes `k`: a following `m.get k` is null
(on an association list with a duplicated key it would not; distinctness is the invariant below) -/
theorem find_del_same (k : Int) (m : Assoc) (h : (keys m).Nodup) : Assoc.find k (Assoc.del k m) = none := by
  induction m with
  | nil => simp [Assoc.del, Assoc.find]
  | cons e rest ih =>
    obtain ⟨k', v'⟩ := e
    simp only [keys, List.map_cons, List.nodup_cons] at h
    by_cases hk : k' = k
    · subst hk
      simp only [Assoc.del, if_true]
      exact find_none_of_not_mem _ _ h.1
    · simp only [Assoc.del, hk, if_false, Assoc.find]
      exact ih h.2

example : (keys [(1, 2), (3, 4)]).Nodup := by decide

theorem assoc_insertSorted_perm (e : Int × Int) (l : Assoc) : (Assoc.insertSorted e l).Perm (e :: l) := by
  induction l with
  | nil => simp [Assoc.insertSorted]
  | cons z zs ih =>
    simp only [Assoc.insertSorted]; split
    · exact List.Perm.refl _
    · exact (List.Perm.cons z ih).trans (List.Perm.swap e z zs)

theorem foldl_assoc_insertSorted_perm (l acc : Assoc) :
    (l.foldl (fun acc e => Assoc.insertSorted e acc) acc).Perm (l ++ acc) := by
  induction l generalizing acc with
  | nil => simp
  | cons x xs ih =>
    simp only [List.foldl_cons]
    refine (ih _).trans ?_
    exact ((assoc_insertSorted_perm x acc).append_left xs).trans List.perm_middle

/-- `m.sort()` only reorders the entries: none lost, none duplicated, none altered -/
theorem map_sort_only_permutes (m : Assoc) : (MOp.sort.sem m).1.Perm m := by
  simp only [MOp.sem, Assoc.sortKeys]
  simpa using foldl_assoc_insertSorted_perm m []

theorem indexOf_none (k : Int) (m : Assoc) (n : Nat) (h : Assoc.indexOf k m n = none) : k ∉ keys m := by
  induction m generalizing n with
  | nil => simp [keys]
  | cons e rest ih =>
    obtain ⟨k', v'⟩ := e
    simp only [Assoc.indexOf] at h
    split at h
    · simp at h
    · rename_i hk
      have := ih _ h
      simp [keys] at this ⊢
      exact ⟨fun h' => hk h'.symm, this⟩

theorem indexOf_some (k : Int) (m : Assoc) (n j : Nat) (h : Assoc.indexOf k m n = some j) :
    n ≤ j ∧ (keys m)[j - n]? = some k := by
  induction m generalizing n with
  | nil => simp [Assoc.indexOf] at h
  | cons e rest ih =>
    obtain ⟨k', v'⟩ := e
    simp only [Assoc.indexOf] at h
    split at h
    · rename_i hk
      simp at h
      subst h
      simp [keys, hk]
    · have := ih _ h
      have hj : j - n = (j - (n + 1)) + 1 := by omega
      refine ⟨by omega, ?_⟩
      rw [hj]
      simpa [keys] using this.2

theorem set_nodup {l : List Int} (h : l.Nodup) (k : Int) (hk : k ∉ l) (i : Nat) : (l.set i k).Nodup := by
  induction l generalizing i with
  | nil => simp
  | cons a as ih =>
    rw [List.nodup_cons] at h
    have hk2 : k ∉ as := fun hm => hk (by simp [hm])
    cases i with
    | zero => simp only [List.set_cons_zero, List.nodup_cons]; exact ⟨hk2, h.2⟩
    | succ i =>
      simp only [List.set_cons_succ, List.nodup_cons]
      refine ⟨?_, ih h.2 hk2 i⟩
      intro hm
      rcases List.mem_or_eq_of_mem_set hm with h1 | h1
      · exact h.1 h1
      · exact hk (by simp [h1])

theorem set_self_of_get (l : List Int) (i : Nat) (k : Int) (h : l[i]? = some k) : l.set i k = l := by
  apply List.ext_getElem?
  intro j
  rw [List.getElem?_set]
  split
  · rename_i hij; subst hij
    split <;> simp_all
  · rfl

/-- every single map operation of the model keeps the keys distinct -/
theorem mop_keeps_keys_nodup (o : MOp) (m : Assoc) (h : (keys m).Nodup) : (keys (o.sem m).1).Nodup := by
  cases o with
  | insert k v => exact put_keys_nodup k v m h
  | insert1 k => exact put_keys_nodup k _ m h
  | put k v => exact put_keys_nodup k v m h
  | remove k => exact del_keys_nodup k m h
  | get k => exact h
  | containsKey k => exact h
  | size => exact h
  | clear => simp [MOp.sem, keys]
  | getIndex i => exact h
  | sort => exact ((map_sort_only_permutes m).map _).nodup_iff.mpr h
  | extend es =>
    simp only [MOp.sem]
    induction es generalizing m with
    | nil => exact h
    | cons e rest ih => exact ih _ (put_keys_nodup e.1 e.2 m h)
  | isEmpty => exact h
  | snapshot => exact h
  | eqTo es => exact h
  | setAt i k v =>
    simp only [MOp.sem]
    have hset : keys (m.set i (k, v)) = (keys m).set i k := by simp [keys, List.map_set]
    split
    · split
      · rename_i j hj
        split
        · rename_i hji
          subst hji
          have := (indexOf_some k m 0 j hj).2
          rw [hset, set_self_of_get _ _ _ (by simpa using this)]
          exact h
        · exact h
      · rename_i hn
        rw [hset]
        exact set_nodup h k (indexOf_none k m 0 hn) i
    · exact h

/-- lifted to every sequential history of map operations (hence, by `linearizable`, to the final
contents of every concurrent run): starting from distinct keys, the keys are distinct at the end -/
theorem map_history_keeps_keys_nodup (ops : List MOp) (m : Assoc) (h : (keys m).Nodup) :
    (keys (seqOps m (ops.map MOp.toOp)).2).Nodup := by
  induction ops generalizing m with
  | nil => simpa [seqOps] using h
  | cons o rest ih =>
    simp only [List.map_cons, seqOps]
    apply ih
    split
    · exact mop_keeps_keys_nodup o m h
    · exact h

/-- `m.remove k` then `m.get k` reads null, in every state reachable from a proper map -/
theorem map_remove_get (k : Int) (m : Assoc) (h : (keys m).Nodup) :
    ((MOp.get k).sem ((MOp.remove k).sem m).1).2 = .null := by
  simp [MOp.sem, find_del_same k m h, valRes]

/-! ### 6. data invariants lift from whole operations to every moment of every interleaving -/

theorem seqAll_fold_invariant (P : σ → Prop) (lin : List (Nat × Op σ ρ))
    (hops : ∀ e ∈ lin, ∀ d, P d → P (e.2.f d).1) (acc : σ × List (Nat × ρ)) (h : P acc.1) :
    P (lin.foldl seqStep acc).1 := by
  induction lin generalizing acc with
  | nil => simpa using h
  | cons e rest ih =>
    rw [List.foldl_cons]
    apply ih (fun e' he' => hops e' (by simp [he']))
    simp only [seqStep, effD]
    split
    · exact hops e (by simp) _ h
    · exact h

/-- **Invariant lifting.** Any predicate on the container that holds initially and is preserved by
each *whole* operation of the programs holds of the shared data at every moment of every
interleaving of the micro-steps (acquire / load / store / release) of any number of threads -/
theorem concurrent_invariant (P : σ → Prop) (d0 : σ) (progs : List (List (Op σ ρ))) (h0 : P d0)
    (hops : ∀ p ∈ progs, ∀ o ∈ p, ∀ d, P d → P (o.f d).1) (sched : List Nat) :
    P (exec (init d0 progs) sched).data := by
  have hl := C19.linearizable d0 progs sched
  simp only at hl
  rw [hl.1]
  unfold seqAll
  apply seqAll_fold_invariant P _ _ (d0, []) h0
  intro e he d hd
  obtain ⟨p, hp, hm⟩ := hl.2.2 e he
  exact hops p (List.mem_of_getElem? hp) _ hm d hd

/-- the shared map has distinct keys at every moment of every concurrent run of map operations -/
theorem concurrent_map_keys_nodup (m0 : Assoc) (progs : List (List MOp)) (h0 : (keys m0).Nodup)
    (sched : List Nat) :
    (keys (exec (init m0 (progs.map (·.map MOp.toOp))) sched).data).Nodup := by
  apply concurrent_invariant (fun m => (keys m).Nodup) m0 _ h0
  intro p hp o ho d hd
  obtain ⟨p', _, rfl⟩ := List.mem_map.mp hp
  obtain ⟨o', _, rfl⟩ := List.mem_map.mp ho
  exact mop_keeps_keys_nodup o' d hd

theorem insertSorted_length (x : Int) (l : List Int) : (insertSorted x l).length = l.length + 1 := by
  induction l with
  | nil => simp [insertSorted]
  | cons y ys ih => simp only [insertSorted]; split <;> simp [ih]

theorem foldl_insertSorted_length (l acc : List Int) :
    (l.foldl (fun acc x => insertSorted x acc) acc).length = l.length + acc.length := by
  induction l generalizing acc with
  | nil => simp
  | cons x xs ih => simp only [List.foldl_cons, ih, insertSorted_length, List.length_cons]; omega

/-- in-place list operations (the ones the stress harness runs against indexing threads) -/
def inPlace : LOp → Bool
  | .set _ _ | .fill _ | .reverse | .sort | .addAll _ => true
  | o => !o.isWrite

theorem inPlace_keeps_length (o : LOp) (l : List Int) (h : inPlace o = true) :
    (o.sem l).1.length = l.length := by
  cases o <;> simp [inPlace, LOp.isWrite] at h <;> simp [LOp.sem]
  · split <;> simp
  · simp [sortInts, foldl_insertSorted_length]

/-- threads that only run in-place and read operations on a shared list never change its length,
at any moment of any interleaving (so an index valid at the start stays valid throughout) -/
theorem concurrent_inPlace_keeps_length (l0 : List Int) (progs : List (List LOp))
    (hip : ∀ p ∈ progs, ∀ o ∈ p, inPlace o = true) (sched : List Nat) :
    (exec (init l0 (progs.map (·.map LOp.toOp))) sched).data.length = l0.length := by
  apply concurrent_invariant (fun l => l.length = l0.length) l0 _ rfl
  intro p hp o ho d hd
  obtain ⟨p', hp', rfl⟩ := List.mem_map.mp hp
  obtain ⟨o', ho', rfl⟩ := List.mem_map.mp ho
  simp only [LOp.toOp]
  rw [inPlace_keeps_length o' d (hip p' hp' o' ho'), hd]

example : ∀ p ∈ [[LOp.sort, LOp.get 0], [LOp.reverse, LOp.set 1 5]], ∀ o ∈ p, inPlace o = true := by
  decide

/-! ### 7. unconditional rc/arc comparison: the builds differ *only* in panic vs block -/

/-- read an rc event with arc eyes: where `RefCell` panics, `RwLock` parks -/
def arcView : Ev ρ → Ev ρ
  | .lock .panic => .lock .block
  | e => e

theorem act_rc_arc (c : CellSt σ) (a : Act σ ρ) :
    (act .rc c a).2 = (act .arc c a).2 ∧ arcView (act .rc c a).1 = (act .arc c a).1 ∧
    (act .rc c a).1.stops = (act .arc c a).1.stops := by
  obtain ⟨d, rd, w⟩ := c
  cases a with
  | req r =>
    cases r <;> cases w <;> cases rd <;>
      simp [act, lockStep, canRead, canWrite, conflict, arcView, Ev.stops]
  | read f => simp only [act]; split <;> simp [arcView]
  | write f => simp only [act]; split <;> simp [arcView]

/-- for EVERY single-threaded script — re-entrant ones included, which `rc_arc_equiv` excludes —
the two builds leave the cell in the same state (data and lock word) and produce the same events
up to renaming the final `panic` to `block` -/
theorem run_rc_arc_unconditional (c : CellSt σ) (script : List (Act σ ρ)) :
    (run .rc c script).2 = (run .arc c script).2 ∧
    (run .rc c script).1.map arcView = (run .arc c script).1 := by
  induction script generalizing c with
  | nil => simp [run]
  | cons a rest ih =>
    obtain ⟨h1, h2, h3⟩ := act_rc_arc c a
    by_cases hs : (act .rc c a).1.stops = true
    · have hs' : (act .arc c a).1.stops = true := h3 ▸ hs
      simp only [run, hs, hs', if_true]
      simp [h1, h2]
    · have hs' : ¬ (act .arc c a).1.stops = true := h3 ▸ hs
      simp only [run, hs, hs']
      rw [← h1]
      simp [h2, ih]

/-- the arc build never panics and the rc build never blocks, on any script -/
theorem arc_never_panics (c : CellSt σ) (script : List (Act σ ρ)) :
    Ev.lock .panic ∉ (run .arc c script).1 := by
  rw [← (run_rc_arc_unconditional c script).2]
  intro h
  obtain ⟨e, _, he⟩ := List.mem_map.mp h
  unfold arcView at he
  split at he <;> simp_all

/-! ### 8. `m.sort()` orders the entries by key -/

theorem assoc_insertSorted_sorted (e : Int × Int) (l : Assoc) (h : l.Pairwise (fun a b => a.1 ≤ b.1)) :
    (Assoc.insertSorted e l).Pairwise (fun a b => a.1 ≤ b.1) := by
  induction l with
  | nil => simp [Assoc.insertSorted]
  | cons y ys ih =>
    simp only [Assoc.insertSorted]
    rw [List.pairwise_cons] at h
    split
    · rename_i hxy
      rw [List.pairwise_cons]
      refine ⟨?_, List.pairwise_cons.mpr h⟩
      intro a ha
      simp at ha
      rcases ha with rfl | ha
      · omega
      · have := h.1 a ha; omega
    · rename_i hxy
      rw [List.pairwise_cons]
      refine ⟨?_, ih h.2⟩
      intro a ha
      have hp : a ∈ e :: ys := (assoc_insertSorted_perm e ys).mem_iff.mp ha
      simp at hp
      rcases hp with rfl | hp
      · omega
      · exact h.1 a hp

theorem foldl_assoc_insertSorted_sorted (l acc : Assoc) (h : acc.Pairwise (fun a b => a.1 ≤ b.1)) :
    (l.foldl (fun acc e => Assoc.insertSorted e acc) acc).Pairwise (fun a b => a.1 ≤ b.1) := by
  induction l generalizing acc with
  | nil => simpa using h
  | cons x xs ih => exact ih _ (assoc_insertSorted_sorted x acc h)

/-- after `m.sort()` the entries are in ascending key order (and, by `map_sort_only_permutes`,
they are the same entries) -/
theorem map_sort_sorts (m : Assoc) : (MOp.sort.sem m).1.Pairwise (fun a b => a.1 ≤ b.1) := by
  simp only [MOp.sem, Assoc.sortKeys]
  exact foldl_assoc_insertSorted_sorted m [] List.Pairwise.nil

end KotoVerif.C19Ext
