/-
C08 — second extension: end-to-end statements connecting the instruction loop `runInstrs`, the
poller armed by `new`, the slack bound and error delivery (`Model/Timeout.lean`). Core Lean only.
-/
import KotoVerif.Model.Timeout
import KotoVerif.Lemmas.C08
import KotoVerif.Props.C08
import KotoVerif.Props.C08Ext

namespace KotoVerif.C08Ext2
open KotoVerif.Timeout KotoVerif.C08L KotoVerif.C08 KotoVerif.C08Ext

/-! ## 1. the shape of the script is irrelevant -/

/-- Property quantifier "all non-terminating program shapes": with the code's polling policy two
instruction streams of the same length — whatever their instruction kinds (backward jumps, calls,
frame-pushing operator overloads, anything else) — are interrupted at exactly the same point. -/
theorem shape_irrelevant (F : TOps) (clk : Nat → Nat) (ks ks' : List InstrKind) (s : St) (i : Nat)
    (hlen : ks.length = ks'.length) :
    runInstrs F pollsEvery clk ks s i = runInstrs F pollsEvery clk ks' s i := by
  rw [every_instruction_polls, every_instruction_polls, hlen]

example : runInstrs F0 pollsEvery (fun j => 10 + 3 * (j + 1)) (List.replicate 10 .jumpBack) (new F0 0 0 1000 20 10) 0
    = runInstrs F0 pollsEvery (fun j => 10 + 3 * (j + 1)) (List.replicate 10 .opPush) (new F0 0 0 1000 20 10) 0 :=
  shape_irrelevant _ _ _ _ _ _ (by simp)

/-! ## 2. the detection point does not depend on what the script would have done afterwards -/

/-- the loop over more checks reports the same index -/
theorem firstTimeout_mono (F : TOps) (clk : Nat → Nat) (n n' : Nat) (s : St) (m : Nat) (hn : n ≤ n')
    (h : firstTimeout F clk n s 0 = some m) : firstTimeout F clk n' s 0 = some m := by
  rw [firstTimeout_iff_least] at h ⊢
  exact ⟨by omega, h.2⟩

/-- a timeout reported in a stream is reported at the same instruction in every continuation of
that stream: what comes after the detection point is never executed and cannot influence it -/
theorem runInstrs_append (F : TOps) (clk : Nat → Nat) (ks ks' : List InstrKind) (s : St) (m : Nat)
    (h : runInstrs F pollsEvery clk ks s 0 = some m) :
    runInstrs F pollsEvery clk (ks ++ ks') s 0 = some m := by
  rw [every_instruction_polls] at h ⊢
  exact firstTimeout_mono F clk _ _ s m (by simp) h

example : runInstrs F0 pollsEvery (fun j => 10 + 3 * (j + 1))
    (List.replicate 10 .opPush ++ [.call, .jumpBack]) (new F0 0 0 1000 20 10) 0 = some 6 :=
  runInstrs_append _ _ _ _ _ _ (by decide)

/-- conversely a stream that ends without a timeout had none in any of its prefixes (a terminating
script is not interrupted half-way) -/
theorem runInstrs_prefix_none (F : TOps) (clk : Nat → Nat) (ks ks' : List InstrKind) (s : St)
    (h : runInstrs F pollsEvery clk (ks ++ ks') s 0 = none) :
    runInstrs F pollsEvery clk ks s 0 = none := by
  cases hk : runInstrs F pollsEvery clk ks s 0 with
  | none => rfl
  | some m => rw [runInstrs_append F clk ks ks' s m hk] at h; cases h

/-! ## 3. the detection depends on the clock only up to the detection point -/

theorem pollAt_clock_congr (F : TOps) (clk clk' : Nat → Nat) (s : St) (n : Nat)
    (h : ∀ j, j ≤ n → clk j = clk' j) : pollAt F clk s n = pollAt F clk' s n := by
  unfold pollAt
  rw [runN_clock_congr F clk clk' n s 0 (fun j hj => by simpa using h j (by omega)), h n (Nat.le_refl n)]

/-- two clocks that agree up to and including the reported instruction give the same report -/
theorem runInstrs_clock_local (F : TOps) (clk clk' : Nat → Nat) (ks : List InstrKind) (s : St) (m : Nat)
    (hagree : ∀ j, j ≤ m → clk j = clk' j)
    (h : runInstrs F pollsEvery clk ks s 0 = some m) :
    runInstrs F pollsEvery clk' ks s 0 = some m := by
  rw [every_instruction_polls, firstTimeout_iff_least] at h ⊢
  obtain ⟨h1, h2, h3⟩ := h
  refine ⟨h1, ?_, ?_⟩
  · rw [← pollAt_clock_congr F clk clk' s m hagree]; exact h2
  · intro j hj
    rw [← pollAt_clock_congr F clk clk' s j (fun k hk => hagree k (by omega))]
    exact h3 j hj

example : runInstrs F0 pollsEvery (fun j => if j ≤ 6 then 10 + 3 * (j + 1) else 0)
    (List.replicate 10 .opPush) (new F0 0 0 1000 20 10) 0 = some 6 :=
  runInstrs_clock_local F0 (fun j => 10 + 3 * (j + 1)) _ _ _ 6
    (fun j hj => by simp [hj]) (by decide)

/-! ## 4. end to end: a runaway stream is interrupted, within the slack, and the host gets a timeout -/

/-- The property's main clause on the model, for every script shape `ks` (any instruction kinds),
every call stack (any nesting of entries and try/catch handlers) and every float implementation:
if one instruction costs at most `tmax`, the clock is past the deadline from check `n0` on and the
stream is longer than `n0 + maxI` instructions (it "does not terminate" for long enough), then the
entry loop stops the stream at some instruction `m`, not before the deadline and at most
`(maxI + 1) · tmax` after it, and the error then delivered through the stack reaches the host as a
timeout, whatever handlers are open. -/
theorem runaway_interrupted (F : TOps) (rate cap : UInt64) (maxI limit t0 tmax : Nat)
    (clk : Nat → Nat) (ks : List InstrKind)
    (hfirst : (new F rate cap maxI limit t0).intervalInstr ≤ maxI)
    (h0 : clk 0 ≤ t0 + tmax) (hstep : ∀ i, clk (i + 1) ≤ clk i + tmax)
    (n0 : Nat) (hpass : ∀ n, n0 ≤ n → t0 + limit ≤ clk n)
    (hlen : n0 + maxI < ks.length) :
    ∃ m, runInstrs F pollsEvery clk ks (new F rate cap maxI limit t0) 0 = some m ∧
      t0 + limit ≤ clk m ∧ clk m ≤ (t0 + limit) + (maxI + 1) * tmax ∧
      ∀ stack : List Frame, deliverTimeout stack = .escaped .timeout := by
  obtain ⟨n1, _, hn1le, hn1⟩ := eventually_detected F clk (new F rate cap maxI limit t0) n0 (by simp [new])
    (fun n hn => by have := hpass n hn; simpa [new] using this)
  have hb := interval_bounded_from_new F rate cap maxI limit t0 clk n0
  have hb' : (runN F clk n0 (new F rate cap maxI limit t0) 0).intervalInstr ≤ maxI := by
    rw [Nat.max_eq_right hfirst] at hb; exact hb
  obtain ⟨n, hnle, hn, hmin⟩ :=
    least_of_exists (fun k => pollAt F clk (new F rate cap maxI limit t0) k = .timeout) n1 hn1
  refine ⟨n, ?_, never_early_run F rate cap maxI limit t0 clk n hn,
    bounded_slack_capped F rate cap maxI limit t0 tmax clk hfirst h0 hstep n hmin hn,
    not_catchable_nested⟩
  rw [every_instruction_polls, firstTimeout_iff_least]
  exact ⟨by omega, hn, hmin⟩

example : ∃ m, runInstrs F0 pollsEvery (fun j => 10 + 3 * (j + 1)) (List.replicate 1030 .jumpBack)
      (new F0 0 0 1000 20 10) 0 = some m ∧ 10 + 20 ≤ (fun j => 10 + 3 * (j + 1)) m := by
  obtain ⟨m, h1, h2, _⟩ := runaway_interrupted F0 0 0 1000 20 10 3 (fun j => 10 + 3 * (j + 1))
    (List.replicate 1030 .jumpBack) (by simp [new, asUsize, F0]) (by simp) (fun i => by omega) 20
    (fun n hn => by simp; omega) (by rw [List.length_replicate]; omega)
  exact ⟨m, h1, h2⟩

/-- … and the interruption point is the same for every script of that length and does not move
when the script is continued: `m` is a function of the poller and the clock alone. -/
theorem runaway_point_unique (F : TOps) (clk : Nat → Nat) (ks ks' : List InstrKind) (s : St) (m m' : Nat)
    (h : runInstrs F pollsEvery clk ks s 0 = some m)
    (h' : runInstrs F pollsEvery clk ks' s 0 = some m') : m = m' := by
  rw [every_instruction_polls, firstTimeout_iff_least] at h h'
  obtain ⟨_, h2, h3⟩ := h
  obtain ⟨_, h2', h3'⟩ := h'
  rcases Nat.lt_trichotomy m m' with hlt | heq | hgt
  · exact absurd h2 (h3' m hlt)
  · exact heq
  · exact absurd h2' (h3 m' hgt)

example : (6 : Nat) = 6 :=
  runaway_point_unique F0 (fun j => 10 + 3 * (j + 1)) (List.replicate 10 .opPush)
    (List.replicate 12 .call) (new F0 0 0 1000 20 10) 6 6 (by decide) (by decide)

/-! ## 5. delivery: where an ordinary error can land, in contrast to a timeout -/

theorem flat_caught_bound (stack : List Frame) :
    ∀ (ac : Bool) (h n : Nat), deliverFlat .other ac stack = .caught h n →
      0 < n ∧ n ≤ stack.length ∧ ∃ f ∈ stack, f.catches.head? = some h := by
  induction stack with
  | nil => intro ac h n hd; simp [deliverFlat] at hd
  | cons f rest ih =>
    intro ac h n hd
    rcases f with ⟨cs, b⟩
    cases ac <;> cases cs <;> cases b <;> simp only [deliverFlat, ErrKind.allowCatch] at hd
    all_goals first
      | (simp only [Delivery.caught.injEq, List.length_cons] at hd
         obtain ⟨rfl, rfl⟩ := hd
         exact ⟨by omega, by simp, _, List.mem_cons_self, by simp⟩)
      | (obtain ⟨hn, hl, g, hg, hh⟩ := ih _ h n hd
         exact ⟨hn, by simp; omega, g, by simp [hg], hh⟩)

/-- An ordinary error that is caught resumes at the innermost handler of some frame of the stack,
with at least that frame and at most the whole stack left — while on the very same stack a timeout
reaches the host (`catch` cannot swallow it). -/
theorem caught_inside_stack_timeout_not (stack : List Frame) (h n : Nat)
    (hd : deliverError stack = .caught h n) :
    (0 < n ∧ n ≤ stack.length ∧ ∃ f ∈ stack, f.catches.head? = some h) ∧
      deliverTimeout stack = .escaped .timeout := by
  rw [deliverError_flat] at hd
  exact ⟨flat_caught_bound stack true h n hd, not_catchable_nested stack⟩

example : deliverError [⟨[], true⟩, ⟨[7], true⟩] = .caught 7 1 := by decide

end KotoVerif.C08Ext2
