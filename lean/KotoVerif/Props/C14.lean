/-
C14 — Value model: sharing, copying, equality, ordering and map keys.
Property theorems only; every statement is for all heaps / values / operation sequences / inputs.
Float comparison enters through the hypotheses `FloatLaws F` (see Lemmas/C14Equal); the comparator of
a sort through `TotalPreorder lt`; the key matcher of a map through `KeyPER m`.
-/
import KotoVerif.Model.HeapEval
import KotoVerif.Lemmas.C14Sort
import KotoVerif.Lemmas.C14Equal
import KotoVerif.Lemmas.C14Map
import KotoVerif.Lemmas.C14Heap
import KotoVerif.Lemmas.C14EqMaps
import KotoVerif.Lemmas.C14MapIndex
import KotoVerif.Lemmas.C14EqSymm
import KotoVerif.Lemmas.C14KeyPER
import KotoVerif.Lemmas.C14Hash
import KotoVerif.Lemmas.C14NumOrder
import KotoVerif.Lemmas.C14TrySort
import KotoVerif.Lemmas.C14KeyOrder
import KotoVerif.Lemmas.C14KeyOrderNum
import KotoVerif.Lemmas.C14DeepCopy
import KotoVerif.Lemmas.C14DeepCopySnap

namespace KotoVerif.C14
open KotoVerif KotoVerif.Heap KotoVerif.Equal KotoVerif.Equal.OMap KotoVerif.Sorting

/-! ## sharing -/

/-- `y = x` copies the handle: afterwards both names hold the same value … -/
theorem alias_let (F : FloatOps) (mech : Bool) (st : St) (x y : Nat) (hx : x < st.vars.length)
    (hy : y < st.vars.length) :
    (step F mech st (.letv y (.var x))).1.vars[y]? = (step F mech st (.letv y (.var x))).1.vars[x]? ∧
    (step F mech st (.letv y (.var x))).1.heap = st.heap := by
  constructor
  · simp only [step, eval]
    by_cases hxy : y = x
    · subst hxy; rfl
    · rw [List.getElem?_set_self (by simpa using hy), List.getElem?_set_ne hxy]
      simp [List.getElem?_eq_getElem hx]
  · simp [step, eval]

/-- … and two names holding the same value are indistinguishable: every operation (mutating or
not) applied through one name has exactly the effect and result it has through the other — there
is one object. Function arguments (`arg`) and closure captures (`cap`) are handle copies too. -/
theorem alias_shared (F : FloatOps) (mech : Bool) (st : St) (x y : Nat)
    (h : st.vars[y]? = st.vars[x]?) (name : String) (args : List Ex) (heap : Heap) :
    eval F mech st (.op name (.var y :: args)) heap = eval F mech st (.op name (.var x :: args)) heap ∧
    eval F mech st (.op name (.arg (.var y) :: args)) heap = eval F mech st (.op name (.var x :: args)) heap := by
  simp [eval, evalList, h]

theorem alias_capture (F : FloatOps) (mech : Bool) (st : St) (c x : Nat)
    (h : st.caps[c]? = st.vars[x]?) (name : String) (args : List Ex) (heap : Heap) :
    eval F mech st (.op name (.cap c :: args)) heap = eval F mech st (.op name (.var x :: args)) heap := by
  simp [eval, evalList, h]

example : (step Equal.F0 true { vars := [.lref 0, .null], caps := [], heap := [.list []] }
    (.letv 1 (.var 0))).1.vars = [.lref 0, .lref 0] := by rfl

/-! ## copy -/

/-- `b = copy a` for a list: `b` is a new object with the same element values (nested containers
are the same handles, i.e. still shared), and *no* list operation on `b` changes what `a` holds;
symmetrically no operation on `a` changes `b`. -/
theorem copy_top_independent (F : FloatOps) (heap : Heap) (a : Nat) (xs : List HVal)
    (ha : getList heap a = some xs) (op : LOp) :
    copyVal heap (.lref a) = (heap ++ [.list xs], .lref heap.length) ∧
    heap.length ≠ a ∧
    getList (copyVal heap (.lref a)).1 heap.length = some xs ∧
    getList (onList F (copyVal heap (.lref a)).1 heap.length op).1 a = some xs ∧
    getList (onList F (copyVal heap (.lref a)).1 a op).1 heap.length = some xs := by
  obtain ⟨h1, h2, h3, h4⟩ := copyVal_list heap a xs ha
  refine ⟨h1, h2, by rw [h1]; exact h3, ?_, ?_⟩
  · rw [h1]
    unfold getList at h4 ⊢
    rw [onList_frame F _ _ op a (Ne.symm h2)]
    exact h4
  · rw [h1]
    unfold getList at h3 ⊢
    rw [onList_frame F _ _ op heap.length h2]
    exact h3

/-- the same for maps -/
theorem copy_top_independent_map (F : FloatOps) (mech : Bool) (heap : Heap) (a : Nat)
    (es : List (Val × HVal)) (ha : getMap heap a = some es) (op : MOp) :
    copyVal heap (.mref a) = (heap ++ [.map es], .mref heap.length) ∧
    heap.length ≠ a ∧
    getMap (copyVal heap (.mref a)).1 heap.length = some es ∧
    getMap (onMap F mech (copyVal heap (.mref a)).1 heap.length op).1 a = some es ∧
    getMap (onMap F mech (copyVal heap (.mref a)).1 a op).1 heap.length = some es := by
  obtain ⟨h1, h2, h3, h4⟩ := copyVal_map heap a es ha
  refine ⟨h1, h2, by rw [h1]; exact h3, ?_, ?_⟩
  · rw [h1]
    unfold getMap at h4 ⊢
    rw [onMap_frame F mech _ _ op a (Ne.symm h2)]
    exact h4
  · rw [h1]
    unfold getMap at h3 ⊢
    rw [onMap_frame F mech _ _ op heap.length h2]
    exact h3

/-- frame: any list / map operation, and `swap`, writes only the object(s) it is applied to -/
theorem op_frame (F : FloatOps) (mech : Bool) (heap : Heap) (h h2 h' : Nat) (lop : LOp) (mop : MOp)
    (hne : h' ≠ h) (hne2 : h' ≠ h2) :
    (onList F heap h lop).1[h']? = heap[h']? ∧ (onMap F mech heap h mop).1[h']? = heap[h']? ∧
    (swapLists heap h h2).1[h']? = heap[h']? :=
  ⟨onList_frame F heap h lop h' hne, onMap_frame F mech heap h mop h' hne, swapLists_frame heap h h2 h' hne hne2⟩

example : getList (onList Equal.F0 (copyVal [.list [.lref 1], .list []] (.lref 0)).1 2 (.push .null)).1 0
    = some [.lref 1] := by rfl

/-! ## deep_copy -/

/-- `deep_copy` only appends to the heap, everything reachable from the result is new (so it is
disjoint from everything that existed before), and the result denotes the same value tree -/
theorem deep_copy_disjoint (f : Nat) (heap heap' : Heap) (v v' : HVal)
    (h : deepCopy f heap v = some (heap', v')) :
    (∃ ext, heap' = heap ++ ext) ∧
    (∀ g, ∀ x ∈ reach g heap' v', heap.length ≤ x) ∧
    (∀ g, ∀ x ∈ reach g heap v, x < heap.length) ∧
    (∀ g t, snapshot g heap v = some t → snapshot g heap' v' = some t) :=
  ⟨deepCopy_extends f heap heap' v v' h, deepCopy_reach_fresh f heap heap' v v' h,
   fun g => reach_lt g heap v, deepCopy_snapshot f heap heap' v v' h⟩

example : deepCopy 5 [.list [.lref 1], .list [.num (.i 1)]] (.lref 0) =
    some ([.list [.lref 1], .list [.num (.i 1)], .list [.num (.i 1)], .list [.lref 2]], .lref 3) := by rfl

/-- the domain of `deep_copy` (fix 55b45e0): the fuel of `deepCopy` is the nesting limit — koto calls
it with 256 (`HeapEval.deepCopyLimit`) — and a value nested deeper than the fuel (every cyclic value)
has no deep copy: the implementation raises a runtime error there, so `deep_copy_disjoint` speaks about
exactly the calls that return -/
theorem deep_copy_needs_fuel (heap : Heap) (v : HVal) : deepCopy 0 heap v = none := rfl

example : deepCopy 1 [.list [.lref 1], .list []] (.lref 0) = none := by rfl

/-- what the model (= `KValue::deep_copy`) defines for internal aliasing: a container that occurs
twice is copied twice — the result is a *tree*, `t = [inner, inner]` becomes two independent lists.
(`deep_copy_disjoint` only promises the same value tree, disjoint from the original.) -/
example : deepCopy 5 [.list [.lref 1, .lref 1], .list [.num (.i 1)]] (.lref 0) =
    some ([.list [.lref 1, .lref 1], .list [.num (.i 1)], .list [.num (.i 1)], .list [.num (.i 1)],
           .list [.lref 2, .lref 3]], .lref 4) := by rfl
example : deepCopyLimit = 256 := rfl

/-! ## immutable values -/

/-- a value without handles (number, string, range, bool, null, tuple of such) denotes the same
tree in every heap — so no operation whatsoever can change it -/
theorem immutables_frozen (f : Nat) (heap heap' : Heap) (v : HVal) (h : immediate v = true) :
    snapshot f heap v = snapshot f heap' v :=
  snapshot_immediate f heap heap' v h

example : immediate (.tuple [.num (.i 1), .str [97], .range (some 0) none]) = true := by decide

/-! ## equality -/

/-- `==` is reflexive on data without NaN whose maps have pairwise different keys (spec-level
lookup and the hashed lookup alike) -/
theorem eq_refl {F : FloatOps} (hF : FloatLaws F) (mech : Bool) (v : Val)
    (h1 : noNaN F v = true) (h2 : keysDistinct F v = true) : veq F mech v v = true :=
  veq_refl hF mech v h1 h2

/-- `==` is symmetric on data without maps (no further hypothesis: NaN included) -/
theorem eq_symm_mapFree {F : FloatOps} (hF : FloatLaws F) (mech : Bool) (a b : Val)
    (h : mapFree a = true) : veq F mech a b = veq F mech b a :=
  veq_symm_mapFree hF mech a b h

/-- `==` is symmetric on all data (lists, tuples, maps nested arbitrarily) at the spec level of key
lookup, provided key equality is transitive on the keys involved (`KeyPER (keyEq F)`: true for IEEE
doubles as long as no integer key lies beyond ±2^53; `keyEq_per` derives it from transitivity of
number equality) and maps have pairwise different keys -/
theorem eq_symm {F : FloatOps} (hF : FloatLaws F) (hm : KeyPER (keyEq F)) (a b : Val)
    (ha : keysDistinct F a = true) (hb : keysDistinct F b = true) :
    veq F false a b = veq F false b a :=
  veq_symm hF hm a b ha hb

example : KeyPER (keyEq Equal.F0) := F0_keyPER

/-- where `==` is *not* transitive (finding F-C14-3, the model mirrors the code): an integer beyond
±2^53 and its neighbour both equal the float between them. `KeyPER (keyEq F)` — the hypothesis of
`eq_symm`, `key_identity`, `map_order_inv` — excludes exactly this; `x` is `9007199254740992.0`. -/
theorem num_eq_not_transitive_witness (F : FloatOps) (x : UInt64)
    (h1 : F.eq (F.ofInt 9007199254740993) x = true) (h2 : F.eq x (F.ofInt 9007199254740992) = true) :
    Num.eq F (.i 9007199254740993) (.f x) = true ∧ Num.eq F (.f x) (.i 9007199254740992) = true ∧
    Num.eq F (.i 9007199254740993) (.i 9007199254740992) = false := by
  refine ⟨by simpa [Num.eq, Num.toF] using h1, by simpa [Num.eq, Num.toF] using h2, ?_⟩
  simp only [Num.eq]
  decide

/-- (`veq` is total on finite trees. The implementation is partial: each nesting level of a container
comparison takes 3 of the calling frame's ≤ 255 registers, so operands nested deeper than about 80
levels — and cyclic ones — raise a runtime error since fixes 0d6eb6a / b752efa; the harness stays
inside and asserts "error or the right answer, never a panic" outside.)

`!=` is the negation of `==` (the two are implemented separately in the VM) -/
theorem ne_is_not_eq (F : FloatOps) (mech : Bool) (a b : Val) : vne F mech a b = !veq F mech a b :=
  vne_eq_not_veq F mech a b

example : veq Equal.F0 true (.list [.num (.i 1), .map [(.str [97], .null)]])
    (.list [.num (.i 1), .map [(.str [97], .null)]]) = true := by decide

/-! ## ordering -/

/-- numbers without NaN: exactly one of `a < b`, `a == b`, `b < a` -/
theorem lt_total_num {F : FloatOps} (hF : FloatLaws F) (a b : Num)
    (ha : numIsNaN F a = false) (hb : numIsNaN F b = false) :
    (vlt F (.num a) (.num b) = some true ∧ veq F true (.num a) (.num b) = false ∧ vlt F (.num b) (.num a) = some false) ∨
    (vlt F (.num a) (.num b) = some false ∧ veq F true (.num a) (.num b) = true ∧ vlt F (.num b) (.num a) = some false) ∨
    (vlt F (.num a) (.num b) = some false ∧ veq F true (.num a) (.num b) = false ∧ vlt F (.num b) (.num a) = some true) := by
  simpa [vlt, veq] using num_trichotomy hF a b ha hb

/-- strings: exactly one of `a < b`, `a == b`, `b < a`; `<` is transitive -/
theorem lt_total_str (F : FloatOps) (a b : List Nat) :
    (vlt F (.str a) (.str b) = some true ∧ a ≠ b ∧ vlt F (.str b) (.str a) = some false) ∨
    (vlt F (.str a) (.str b) = some false ∧ a = b ∧ vlt F (.str b) (.str a) = some false) ∨
    (vlt F (.str a) (.str b) = some false ∧ a ≠ b ∧ vlt F (.str b) (.str a) = some true) := by
  simpa [vlt] using bytes_trichotomy a b

theorem lt_trans_str (a b c : List Nat) (h1 : bytesLt a b = true) (h2 : bytesLt b c = true) :
    bytesLt a c = true := bytesLt_trans a b c h1 h2

example : FloatLaws Equal.F0 := F0_laws

/-! ## maps: insertion order and key identity -/

/-- for every sequence of map operations (insert, remove, extend, clear, sort, index assignment):
the key list is exactly what the insertion-order specification prescribes — an overwritten key keeps
its position, remove shifts, index assignment replaces in place, extend appends the new keys in
order, sort permutes — and the keys stay pairwise non-equivalent -/
theorem map_order_inv {β : Type} {m : Val → Val → Bool} (hm : KeyPER m) (ops : List (MapOp β))
    (es : List (Val × β)) (h : Distinct m (keys es)) :
    keys (ops.foldl (fun acc op => runOp m op acc) es) = ops.foldl (fun ks op => specOp m op ks) (keys es) ∧
    Distinct m (keys (ops.foldl (fun acc op => runOp m op acc) es)) :=
  ops_invariant hm ops es h

example : keys (runOp (keyEq Equal.F0) (.insert (.str [97]) 9 : MapOp Nat) [(.str [97], 1), (.str [98], 2)])
    = [.str [97], .str [98]] := by rfl

/-- mechanism ↔ documented effect of `m[i] = (k, v)`: when `k` is not present at another index the
three IndexMap calls of `run_index_assign` replace entry `i` in place -/
theorem index_assign_replaces {β : Type} (m : Val → Val → Bool) (i : Nat) (k : Val) (v : β)
    (es : List (Val × β)) (hok : replaceOk m i k (keys es) = true) :
    indexAssign m i k v es = some (replaceAt i k v es) :=
  indexAssign_ok m i k v es hok

/-- `m[i] = (k, v)` as implemented since fix 6a9dccd (finding F-C14-2 = F-C06-4, fixed): for a valid
index on a map with pairwise different keys it either raises "key already in use at index j" (j ≠ i,
map untouched — exactly the case `replaceOk = false` of `map_order_inv`) or replaces entry `i` in
place. It never reaches the `swap_indices` panic. -/
theorem index_assign_total {β : Type} {m : Val → Val → Bool} (hm : KeyPER m) (i : Nat) (k : Val) (v : β)
    (es : List (Val × β)) (hi : i < es.length) (hd : Distinct m (keys es)) :
    (∃ j, j ≠ i ∧ indexAssignChecked m m i k v es = .keyInUse j ∧ replaceOk m i k (keys es) = false) ∨
    (indexAssignChecked m m i k v es = .replaced (replaceAt i k v es) ∧ replaceOk m i k (keys es) = true) :=
  indexAssignChecked_total hm i k v es hi hd

/-- the former panic witness `m = {a: 1, b: 2, c: 3}; m[0] = ('c', 9)` is now the error case … -/
theorem index_assign_error_witness :
    indexAssignChecked (keyEq Equal.F0) (keyEq Equal.F0) 0 (.str [99]) (9 : Nat)
      [(.str [97], 1), (.str [98], 2), (.str [99], 3)] = .keyInUse 2 := by rfl

/-- … while the unchecked three calls alone would still panic there (why the check is needed) -/
theorem index_assign_unchecked_witness :
    indexAssign (keyEq Equal.F0) 0 (.str [99]) (9 : Nat)
      [(.str [97], 1), (.str [98], 2), (.str [99], 3)] = none := by decide

/-- two keys address the same entry of every map exactly when they are equivalent -/
theorem key_identity {m : Val → Val → Bool} (hm : KeyPER m) (k k' : Val) (hk : m k k = true) :
    (∀ es : List (Val × Unit), findIdx m k es = findIdx m k' es) ↔ m k k' = true := by
  constructor
  · intro h
    have := h [(k, ())]
    simp only [findIdx, hk, if_true] at this
    by_cases hk' : m k' k = true
    · rw [hm.symm]; exact hk'
    · simp [hk'] at this
  · intro h es
    exact findIdx_congr m m k k' es (fun e _ => per_same_verdict hm k k' e.1 h)

/-- equal keys hash equally (finding F-C14-1, fixed by 7e76332: `KNumber` hashes its `f64` value,
written as an integer when integral). `HashLaws F` are the three facts about doubles this needs. -/
theorem key_hash_consistent {F : FloatOps} (hH : HashLaws F) (a b : Val) (h : keyEq F a b = true) :
    hashEq F a b = true :=
  keyEq_hashEq hH a b h

/-- hence the hashed `IndexMap` probe is the spec lookup for *all* keys and map sizes … -/
theorem key_lookup_mechanism {β : Type} {F : FloatOps} (hH : HashLaws F) (k : Val) (es : List (Val × β))
    (n : Nat) : lookupBy (getMatch F n) k es = lookupBy (keyEq F) k es := by
  rw [getMatch_eq_keyEq hH]

/-- … and every map operation of the mechanism model (hash first) is the spec-level operation, so
`map_order_inv`, `key_identity` and `index_assign_total` speak about the mechanism as well -/
theorem mechanism_is_spec {F : FloatOps} (hH : HashLaws F) (self : HVal) (op : MOp)
    (es : List (Val × HVal)) : applyM F true self op es = applyM F false self op es := by
  have h1 : ∀ n, getM F true n = getM F false n := by
    intro n; simp [getM, getMatch_eq_keyEq hH]
  have h2 : insM F true = insM F false := by
    funext a b; simp [insM, keyEqH_eq_keyEq hH]
  unfold applyM
  simp only [h1, h2]

/-- the former witness of F-C14-1: `1` and `1.0` are equal keys and are now written identically to
the hasher, so maps of every size find the entry and inserting `1.0` next to `1` overwrites -/
theorem key_hash_witness_fixed (F : FloatOps) (hH : HashLaws F)
    (h1 : F.eq 0x3FF0000000000000 (F.ofInt 1) = true) (v w : Nat) :
    hashEq F (.num (.f 0x3FF0000000000000)) (.num (.i 1)) = true ∧
    lookupBy (getMatch F 2) (.num (.f 0x3FF0000000000000)) [(.num (.i 1), v), (.str [97], w)] = some v ∧
    keys (OMap.insert (keyEqH F) (.num (.f 0x3FF0000000000000)) w [(.num (.i 1), v)]).1 = [.num (.i 1)] := by
  have hk : keyEq F (.num (.f 0x3FF0000000000000)) (.num (.i 1)) = true := by
    simpa [keyEq, Num.eq, Num.toF] using h1
  refine ⟨keyEq_hashEq hH _ _ hk, ?_, ?_⟩
  · rw [getMatch_eq_keyEq hH]; simp [lookupBy, hk]
  · simp [OMap.insert, keyEqH_eq_keyEq hH, hk, keys]

example : HashLaws Equal.F0 := F0_hashLaws

/-! ## sorting -/

/-- for every comparator that is a total preorder, sorting returns an ordered, stable permutation
of its input — and that result is the only one (so the model's insertion sort and std's stable
`sort_by` agree) -/
theorem sort_sorted_perm_stable {α : Type} {lt : α → α → Bool} (h : TotalPreorder lt) (xs : List α) :
    (sortBy lt xs).Perm xs ∧ Sorted lt (sortBy lt xs) ∧
    (∀ a, (sortBy lt xs).filter (equiv lt a) = xs.filter (equiv lt a)) ∧
    (∀ ys : List α, ys.Perm xs → Sorted lt ys →
      (∀ a, ys.filter (equiv lt a) = xs.filter (equiv lt a)) → ys = sortBy lt xs) :=
  ⟨sortBy_perm lt xs, sortBy_sorted h xs, fun a => sortBy_stable h a xs,
   fun ys hp hs hst => sortBy_unique h xs ys hp hs hst⟩

/-- the string comparator of koto is such a total preorder -/
theorem str_total_preorder : TotalPreorder bytesLt where
  asymm := bytesLt_asymm
  le_trans a b c hab hbc := by
    -- ¬ b < a, ¬ c < b ⊢ ¬ c < a
    cases hca : bytesLt c a with
    | false => rfl
    | true =>
      rcases bytes_trichotomy a b with ⟨h, _, _⟩ | ⟨_, h, _⟩ | ⟨_, _, h⟩
      · have := bytesLt_trans c a b hca h
        rw [this] at hbc; exact absurd hbc (by simp)
      · subst h; rw [hca] at hbc; exact absurd hbc (by simp)
      · rw [h] at hab; exact absurd hab (by simp)

example : sortBy bytesLt [[98], [97, 1], [97]] = [[97], [97, 1], [98]] := by decide

/-- operations that fail part-way lose nothing: after `list.sort()`, `map.sort()` and
`map.sort(|k, v| v)` — whether they return or raise because two entries cannot be compared — the
container holds a permutation of its entries (the code sorts with `try_sort_by`, which writes back
completed merges only; every alias sees that one object, `alias_shared`) -/
theorem failed_sort_keeps_entries (F : FloatOps) (mech : Bool) (self : HVal) (xs : List HVal)
    (es : List (Val × HVal)) :
    (applyL F self .sort xs).1.Perm xs ∧ (applyM F mech self .sort es).1.Perm es ∧
    (applyM F mech self .sortVal es).1.Perm es := by
  refine ⟨?_, ?_, ?_⟩
  · simp only [applyL]
    split
    · exact sortBy_perm _ xs
    · exact trySortBy_perm _ xs
  · simp only [applyM]
    exact sortBy_perm _ es
  · simp only [applyM]
    split
    · exact sortBy_perm _ es
    · exact trySortBy_perm _ es

/-- `list.retain` with a predicate that raises: what is left is a sub-sequence of the list (the
values retained so far followed by the untested ones) -/
theorem failed_retain_sublist (p : HVal → Option Bool) (xs : List HVal) :
    (retainTry p xs).1.Sublist xs := by
  induction xs with
  | nil => exact List.Sublist.refl _
  | cons x xs ih =>
    simp only [retainTry]
    split
    · exact List.Sublist.refl _
    · exact List.Sublist.cons_cons x ih
    · exact List.Sublist.cons x ih

/-- `ValueKey::partial_cmp` (since fix abae06d, finding F-C14-5) is a total order on keys of every
kind — null, booleans, numbers, strings, ranges, tuples, arbitrarily nested — that is consistent with
key equality: antisymmetric, `Equal` exactly on equal keys, and transitive (as a total preorder for
sorting). Numbers enter through the float hypotheses `FloatLaws` / `NumOrderLaws` (no NaN, integers
that convert exactly, cf. F-C14-3). -/
theorem key_order_consistent {F : FloatOps} {S : Int64 → Prop} (hF : FloatLaws F) (hL : NumOrderLaws F S)
    (a b : GoodKey F S) :
    keyCmp F b.1 a.1 = (keyCmp F a.1 b.1).swap ∧ (keyCmp F a.1 b.1 = .eq ↔ keyEq F a.1 b.1 = true) :=
  ⟨keyCmp_swap (numCmp_laws hF hL) a.1 b.1 a.2 b.2, keyCmp_eq_iff (numCmp_laws hF hL) a.1 b.1 a.2 b.2⟩

theorem key_order_total {F : FloatOps} {S : Int64 → Prop} (hF : FloatLaws F) (hL : NumOrderLaws F S) :
    TotalPreorder (fun (a b : GoodKey F S) => keyCmp F a.1 b.1 == .lt) :=
  keyCmp_total_preorder hF hL

/-- so `map.sort()` yields an ordered, stable permutation for ALL key kinds: the model's `map.sort()`
on the plain entries is the projection of the sort on entries-with-good-keys, to which
`sort_sorted_perm_stable` applies -/
theorem map_sort_all_kinds {F : FloatOps} {S : Int64 → Prop} (hF : FloatLaws F) (hL : NumOrderLaws F S)
    (mech : Bool) (self : HVal) (es : List (GoodKey F S × HVal)) :
    (applyM F mech self .sort (es.map (fun e => (e.1.1, e.2)))).1 =
      (sortBy (fun (a b : GoodKey F S × HVal) => keyCmp F a.1.1 b.1.1 == .lt) es).map (fun e => (e.1.1, e.2)) ∧
    (sortBy (fun (a b : GoodKey F S × HVal) => keyCmp F a.1.1 b.1.1 == .lt) es).Perm es ∧
    Sorted (fun (a b : GoodKey F S × HVal) => keyCmp F a.1.1 b.1.1 == .lt)
      (sortBy (fun (a b : GoodKey F S × HVal) => keyCmp F a.1.1 b.1.1 == .lt) es) ∧
    (∀ x, (sortBy (fun (a b : GoodKey F S × HVal) => keyCmp F a.1.1 b.1.1 == .lt) es).filter
        (equiv (fun (a b : GoodKey F S × HVal) => keyCmp F a.1.1 b.1.1 == .lt) x) =
      es.filter (equiv (fun (a b : GoodKey F S × HVal) => keyCmp F a.1.1 b.1.1 == .lt) x)) := by
  have hT : TotalPreorder (fun (a b : GoodKey F S × HVal) => keyCmp F a.1.1 b.1.1 == .lt) :=
    ⟨fun a b h => (keyCmp_total_preorder hF hL).asymm a.1 b.1 h,
     fun a b c h1 h2 => (keyCmp_total_preorder hF hL).le_trans a.1 b.1 c.1 h1 h2⟩
  refine ⟨?_, sortBy_perm _ es, sortBy_sorted hT es, fun x => sortBy_stable hT x es⟩
  simp only [applyM, sortEntries]
  exact (map_sortBy (fun (e : GoodKey F S × HVal) => (e.1.1, e.2))
    (fun (a b : Val × HVal) => keyCmp F a.1 b.1 == .lt) es).symm

example : NumCmpLaws Equal.F0 (goodNum Equal.F0 (fun _ => True)) := numCmp_laws F0_laws F0_numOrderLaws

/-- the former witness of F-C14-5 (fixed by abae06d): `{2, 'x', 'y', 1}` is now sorted to
`1, 2, 'x', 'y'` -/
theorem map_sort_mixed_keys_fixed :
    ((applyM Equal.F0 false .null .sort
        [(.num (.i 2), .null), (.str [120], .null), (.str [121], .null), (.num (.i 1), .null)]).1.map Prod.fst)
      = [.num (.i 1), .num (.i 2), .str [120], .str [121]] := by rfl

/-- the number comparator (`<` on `KNumber`, as `compare_values` applies it) is a total preorder on
numbers without NaN whose integers convert to `f64` strictly monotonically (`S`; for doubles
|n| ≤ 2^53) — under the explicit float hypotheses `NumOrderLaws F S`. Outside `S` it is not one
(`2^53+1 ≤ 2^53.0 ≤ 2^53` but `2^53+1 > 2^53`). -/
theorem num_total_preorder {F : FloatOps} {S : Int64 → Prop} (hL : NumOrderLaws F S) :
    TotalPreorder (fun (a b : GoodNum F S) => Num.lt F a.1 b.1) :=
  Equal.num_total_preorder hL

/-- so sorting such numbers (the model's comparator `numLt` is the promoted `<` off NaN, and sorting
commutes with forgetting the side conditions) is covered by `sort_sorted_perm_stable` -/
theorem sort_numbers {F : FloatOps} {S : Int64 → Prop} (xs : List (GoodNum F S)) :
    (∀ a b : GoodNum F S, numLt F a.1 b.1 = Num.lt F a.1 b.1) ∧
    sortBy (fun a b => Num.lt F a b) (xs.map (·.1)) =
      (sortBy (fun (a b : GoodNum F S) => Num.lt F a.1 b.1) xs).map (·.1) :=
  ⟨fun a b => numLt_eq_lt F a.1 b.1 a.2.1 b.2.1, (map_sortBy (·.1) (fun a b => Num.lt F a b) xs).symm⟩

example : NumOrderLaws Equal.F0 (fun _ => True) := F0_numOrderLaws

end KotoVerif.C14
