/-
C20 — extension theorems about the executable model `KotoVerif.Model.Serde`
(ser / serW / de / norm / jsonLayer / jsonInt / tomlDatetime / tomlOrd / toKoto).
All statements are for all inputs; every definition mentioned is run by `Drivers/C20.lean`.
-/
import KotoVerif.Model.Serde
import KotoVerif.Lemmas.C20
import KotoVerif.Props.C20

namespace KotoVerif.C20Ext
open KotoVerif KotoVerif.Serde KotoVerif.C20

/-! ### 1. `jsonLayer` (serde_json writes non-finite floats as null) is a projection -/

mutual
theorem jsonLayer_idem : ∀ s : SVal, jsonLayer (jsonLayer s) = jsonLayer s
  | .f64 b => by
    by_cases h : finiteBits b = true <;> simp [jsonLayer, h]
  | .seq xs => by simp [jsonLayer, jsonLayerL_idem xs]
  | .map es => by simp [jsonLayer, jsonLayerE_idem es]
  | .unit => by simp [jsonLayer]
  | .none => by simp [jsonLayer]
  | .some _ => by simp [jsonLayer]
  | .bool _ => by simp [jsonLayer]
  | .i64 _ => by simp [jsonLayer]
  | .u64 _ => by simp [jsonLayer]
  | .i128 _ => by simp [jsonLayer]
  | .u128 _ => by simp [jsonLayer]
  | .char _ => by simp [jsonLayer]
  | .str _ => by simp [jsonLayer]
  | .bytes _ => by simp [jsonLayer]
  | .newtype _ => by simp [jsonLayer]
  | .enum _ _ => by simp [jsonLayer]
theorem jsonLayerL_idem : ∀ xs : List SVal, jsonLayerL (jsonLayerL xs) = jsonLayerL xs
  | [] => by simp [jsonLayerL]
  | x :: xs => by simp [jsonLayerL, jsonLayer_idem x, jsonLayerL_idem xs]
theorem jsonLayerE_idem : ∀ es : List (SVal × SVal), jsonLayerE (jsonLayerE es) = jsonLayerE es
  | [] => by simp [jsonLayerE]
  | (k, v) :: es => by simp [jsonLayerE, jsonLayer_idem v, jsonLayerE_idem es]
end

/-! ### 2. The JSON contract never turns an accepted document into a rejected one (or back):
`KValueVisitor` succeeds on `jsonLayer s` exactly when it succeeds on `s`. -/

mutual
theorem de_jsonLayer_isSome : ∀ s : SVal, (de (jsonLayer s)).isSome = (de s).isSome
  | .f64 b => by
    by_cases h : finiteBits b = true <;> simp [jsonLayer, h, de]
  | .seq xs => by
    have := deL_jsonLayer_isSome xs
    simp only [jsonLayer, de, Option.isSome_map]; exact this
  | .map es => by
    have := deE_jsonLayer_isSome es
    simp only [jsonLayer, de, Option.isSome_map]; exact this
  | .unit => by simp [jsonLayer]
  | .none => by simp [jsonLayer]
  | .some _ => by simp [jsonLayer]
  | .bool _ => by simp [jsonLayer]
  | .i64 _ => by simp [jsonLayer]
  | .u64 _ => by simp [jsonLayer]
  | .i128 _ => by simp [jsonLayer]
  | .u128 _ => by simp [jsonLayer]
  | .char _ => by simp [jsonLayer]
  | .str _ => by simp [jsonLayer]
  | .bytes _ => by simp [jsonLayer]
  | .newtype _ => by simp [jsonLayer]
  | .enum _ _ => by simp [jsonLayer]
theorem deL_jsonLayer_isSome : ∀ xs : List SVal, (deL (jsonLayerL xs)).isSome = (deL xs).isSome
  | [] => by simp [jsonLayerL]
  | x :: xs => by
    have h1 := de_jsonLayer_isSome x
    have h2 := deL_jsonLayer_isSome xs
    simp only [jsonLayerL, deL]
    cases ha : de (jsonLayer x) <;> cases hb : de x <;> simp [ha, hb] at h1 <;>
    cases hc : deL (jsonLayerL xs) <;> cases hd : deL xs <;> simp [hc, hd] at h2 <;> simp
theorem deE_jsonLayer_isSome : ∀ es : List (SVal × SVal), (deE (jsonLayerE es)).isSome = (deE es).isSome
  | [] => by simp [jsonLayerE]
  | (k, v) :: es => by
    have h1 := de_jsonLayer_isSome v
    have h2 := deE_jsonLayer_isSome es
    simp only [jsonLayerE, deE]
    cases hk : de k with
    | none => rfl
    | some k' =>
      cases ha : de (jsonLayer v) <;> cases hb : de v <;> simp [ha, hb] at h1 <;>
      cases hc : deE (jsonLayerE es) <;> cases hd : deE es <;> simp [hc, hd] at h2 <;>
      (try rfl) <;> (simp only []; split <;> rfl)
end

/-! ### 3. TOML date/time literals: what the reader hands over is accepted, and the resulting value
is a fixed point of the whole pipeline (stable "from then on"), for every literal text. -/

theorem tomlDatetime_stable (X : Ext) (text : List Nat) :
    de (tomlDatetime text) = some (.map [(.str tomlDatetimeKey, .str text)]) ∧
    serW X (.map [(.str tomlDatetimeKey, .str text)]) = some (tomlDatetime text) ∧
    tomlAccepts (tomlDatetime text) = true ∧
    norm X (.map [(.str tomlDatetimeKey, .str text)]) = .map [(.str tomlDatetimeKey, .str text)] ∧
    tomlOrd (.map [(.str tomlDatetimeKey, .str text)]) = .map [(.str tomlDatetimeKey, .str text)] := by
  refine ⟨?_, ?_, ?_, ?_, ?_⟩
  · simp [tomlDatetime, de, deE, hashable, buildMap, buildFrom, insertKV]
  · have hd : depth (.map [(.str tomlDatetimeKey, .str text)]) ≤ writerDepthLimit := by
      simp [depth, depthE, writerDepthLimit]
    simp [serW, hd, ser, serE, keyStr, tomlDatetime]
  · simp [tomlDatetime, tomlAccepts, tomlNoUnitE, tomlNoUnit]
  · simp [norm, normE, keyStr, buildMap, buildFrom, insertKV]
  · simp [tomlOrd, tomlPlain, tomlTables, isTableLike]

/-! ### 4. Independence of irrelevant state: the external facts `Ext` (float formatting, casts) play
no role on string-keyed values — the property's domain. -/

mutual
theorem ser_ext_indep (X Y : Ext) : ∀ v : Val, strKeys v = true → ser X v = ser Y v
  | .null, _ => by simp [ser]
  | .bool _, _ => by simp [ser]
  | .num (.i _), _ => by simp [ser]
  | .num (.f _), _ => by simp [ser]
  | .str _, _ => by simp [ser]
  | .range _ _, _ => by simp [ser]
  | .list xs, h => by
    simp only [strKeys] at h; simp [ser, serL_ext_indep X Y xs h]
  | .tuple xs, h => by
    simp only [strKeys] at h; simp [ser, serL_ext_indep X Y xs h]
  | .map es, h => by
    simp only [strKeys] at h; simp [ser, serE_ext_indep X Y es h]
theorem serL_ext_indep (X Y : Ext) : ∀ xs : List Val, strKeysL xs = true → serL X xs = serL Y xs
  | [], _ => by simp [serL]
  | x :: xs, h => by
    simp only [strKeysL, Bool.and_eq_true] at h
    simp [serL, ser_ext_indep X Y x h.1, serL_ext_indep X Y xs h.2]
theorem serE_ext_indep (X Y : Ext) : ∀ es : List (Val × Val), strKeysE es = true → serE X es = serE Y es
  | [], _ => by simp [serE]
  | (.str s, v) :: es, h => by
    simp only [strKeysE, Bool.and_eq_true] at h
    simp [serE, keyStr, ser_ext_indep X Y v h.1, serE_ext_indep X Y es h.2]
  | (.null, _) :: _, h => by simp [strKeysE] at h
  | (.bool _, _) :: _, h => by simp [strKeysE] at h
  | (.num _, _) :: _, h => by simp [strKeysE] at h
  | (.range _ _, _) :: _, h => by simp [strKeysE] at h
  | (.list _, _) :: _, h => by simp [strKeysE] at h
  | (.tuple _, _) :: _, h => by simp [strKeysE] at h
  | (.map _, _) :: _, h => by simp [strKeysE] at h
end

example : strKeys (.map [(.str [97], .list [.null, .num (.f 0)])]) = true := by decide

mutual
theorem norm_ext_indep (X Y : Ext) : ∀ v : Val, strKeys v = true → norm X v = norm Y v
  | .null, _ => by simp [norm]
  | .bool _, _ => by simp [norm]
  | .num _, _ => by simp [norm]
  | .str _, _ => by simp [norm]
  | .range _ _, _ => by simp [norm]
  | .list xs, h => by
    simp only [strKeys] at h; simp [norm, normL_ext_indep X Y xs h]
  | .tuple xs, h => by
    simp only [strKeys] at h; simp [norm, normL_ext_indep X Y xs h]
  | .map es, h => by
    simp only [strKeys] at h; simp [norm, normE_ext_indep X Y es h]
theorem normL_ext_indep (X Y : Ext) : ∀ xs : List Val, strKeysL xs = true → normL X xs = normL Y xs
  | [], _ => by simp [normL]
  | x :: xs, h => by
    simp only [strKeysL, Bool.and_eq_true] at h
    simp [normL, norm_ext_indep X Y x h.1, normL_ext_indep X Y xs h.2]
theorem normE_ext_indep (X Y : Ext) : ∀ es : List (Val × Val), strKeysE es = true → normE X es = normE Y es
  | [], _ => by simp [normE]
  | (.str s, v) :: es, h => by
    simp only [strKeysE, Bool.and_eq_true] at h
    simp [normE, keyStr, norm_ext_indep X Y v h.1, normE_ext_indep X Y es h.2]
  | (.null, _) :: _, h => by simp [strKeysE] at h
  | (.bool _, _) :: _, h => by simp [strKeysE] at h
  | (.num _, _) :: _, h => by simp [strKeysE] at h
  | (.range _ _, _) :: _, h => by simp [strKeysE] at h
  | (.list _, _) :: _, h => by simp [strKeysE] at h
  | (.tuple _, _) :: _, h => by simp [strKeysE] at h
  | (.map _, _) :: _, h => by simp [strKeysE] at h
end

/-! ### 5. "Sequences come back as tuples", deeply: no list survives anywhere in a normal form. -/

mutual
/-- no `.list` in any value position -/
def noList : Val → Bool
  | .list _ => false
  | .tuple xs => noListL xs
  | .map es => noListE es
  | _ => true
def noListL : List Val → Bool
  | [] => true
  | x :: xs => noList x && noListL xs
def noListE : List (Val × Val) → Bool
  | [] => true
  | (_, v) :: es => noList v && noListE es
end

theorem noListE_iff : ∀ es : List (Val × Val), noListE es = true ↔ ∀ e ∈ es, noList e.2 = true
  | [] => by simp [noListE]
  | (k, v) :: r => by simp [noListE, noListE_iff r]

mutual
theorem norm_noList (X : Ext) : ∀ v : Val, noList (norm X v) = true
  | .null => by simp [norm, noList]
  | .bool _ => by simp [norm, noList]
  | .num _ => by simp [norm, noList]
  | .str _ => by simp [norm, noList]
  | .range _ _ => by simp [norm, noList]
  | .list xs => by simp [norm, noList, normL_noList X xs]
  | .tuple xs => by simp [norm, noList, normL_noList X xs]
  | .map es => by
    simp only [norm, noList]
    rw [noListE_iff]
    intro e he
    exact (buildMap_pres (fun _ => True) (fun v => noList v = true) (normE X es)
      (fun e he => ⟨trivial, normE_noList X es e he⟩) e he).2
theorem normL_noList (X : Ext) : ∀ xs : List Val, noListL (normL X xs) = true
  | [] => by simp [normL, noListL]
  | x :: xs => by simp [normL, noListL, norm_noList X x, normL_noList X xs]
theorem normE_noList (X : Ext) : ∀ es : List (Val × Val), ∀ e ∈ normE X es, noList e.2 = true
  | [], e, he => by simp [normE] at he
  | (k, v) :: es, e, he => by
    simp only [normE, List.mem_cons] at he
    rcases he with rfl | he
    · exact norm_noList X v
    · exact normE_noList X es e he
end

/-- what comes back from text contains no list, for every value the writer accepts -/
theorem roundtrip_noList (X : Ext) (v : Val) (s : SVal) (w : Val)
    (h : serW X v = some s) (hw : de s = some w) : noList w = true := by
  have h1 := de_of_ser X v s (serW_some_ser X v s h)
  rw [h1] at hw
  cases hw
  exact norm_noList X v

example : serW ⟨fun _ => [], fun _ => 0, fun _ => 0, fun _ => 0, fun _ => false, fun _ => 0, fun _ => 0, fun _ => 0⟩
    (.list [.list [.null]]) = some (.seq [.seq [.unit]]) := by rfl

/-! ### 6. The writer's domain is closed under taking parts: if a container is accepted, so is
every element / entry value (no hidden global condition besides depth and serializability). -/

theorem serializableL_iff : ∀ xs : List Val, serializableL xs = true ↔ ∀ x ∈ xs, serializable x = true
  | [] => by simp [serializableL]
  | x :: r => by simp [serializableL, serializableL_iff r]

theorem depthL_le_iff (d : Nat) : ∀ xs : List Val, depthL xs ≤ d ↔ ∀ x ∈ xs, depth x ≤ d
  | [] => by simp [depthL]
  | x :: r => by simp [depthL, Nat.max_le, depthL_le_iff d r]

theorem serW_map_parts (X : Ext) (es : List (Val × Val)) (h : (serW X (.map es)).isSome = true) :
    ∀ e ∈ es, (serW X e.2).isSome = true := by
  intro e he
  rw [serW_isSome] at h
  simp only [serializable, depth, Bool.and_eq_true] at h
  have h' := h
  have h2 := of_decide_eq_true h.2
  rw [serW_isSome]
  simp only [Bool.and_eq_true, decide_eq_true_eq]
  have h2' : depthE es ≤ writerDepthLimit := by omega
  exact ⟨(serializableE_iff es).1 h'.1 e he, (depthE_le_iff _ es).1 h2' e he⟩

theorem serW_seq_parts (X : Ext) (xs : List Val)
    (h : (serW X (.list xs)).isSome = true ∨ (serW X (.tuple xs)).isSome = true) :
    ∀ x ∈ xs, (serW X x).isSome = true := by
  intro x hx
  have h' : serializableL xs = true ∧ depthL xs + 1 ≤ writerDepthLimit := by
    rcases h with h | h <;> rw [serW_isSome] at h <;>
      simp only [serializable, depth, Bool.and_eq_true] at h <;>
      exact ⟨h.1, of_decide_eq_true h.2⟩
  have h2 := h'.2
  rw [serW_isSome]
  simp only [Bool.and_eq_true, decide_eq_true_eq]
  have h2' : depthL xs ≤ writerDepthLimit := by omega
  exact ⟨(serializableL_iff xs).1 h'.1 x hx, (depthL_le_iff _ xs).1 h2' x hx⟩

example : (serW ⟨fun _ => [], fun _ => 0, fun _ => 0, fun _ => 0, fun _ => false, fun _ => 0, fun _ => 0, fun _ => 0⟩
    (.map [(.num (.i 1), .list [.null])])).isSome = true := by decide

/-! ### 7. The serializer never emits an integer the visitor would reject. -/

theorem ser_intsInRange (X : Ext) (v : Val) (s : SVal) (h : ser X v = some s) : intsInRange s = true := by
  apply de_isSome_inRange
  rw [de_of_ser X v s h]; rfl

/-! ### 8. JSON integer literals: complete classification of what the visitor answers. -/

theorem jsonInt_de_spec (X : Ext) (n : Int) :
    de (jsonInt X n) =
      if i64Min ≤ n ∧ n ≤ i64Max then some (.num (.i (Int64.ofInt n)))
      else if n ≤ 18446744073709551615 ∧ i64Max < n then none
      else some (.num (.f (X.big2f n))) := by
  by_cases h1 : i64Min ≤ n ∧ n ≤ i64Max
  · have : inI64 n = true := by simpa [inI64] using h1
    simp [jsonInt, this, h1, de]
  · have h1b : inI64 n = false := by
      cases hh : inI64 n
      · rfl
      · exact absurd (by simpa [inI64] using hh) h1
    by_cases h2 : n ≤ 18446744073709551615 ∧ i64Max < n
    · rw [if_neg h1, if_pos h2]
      exact (json_int_error_iff X n).2 ⟨h2.2, h2.1⟩
    · rw [if_neg h1, if_neg h2]
      have h3 : ¬ (0 ≤ n ∧ n ≤ 18446744073709551615) := by
        intro h3; apply h2
        simp only [i64Min, i64Max] at h1 ⊢
        omega
      simp [jsonInt, h1b, h3, de]

/-! ### 9. serializer.rs produces only values inside the property's domain: whatever `to_koto_value`
returns is serializable (no range anywhere) and string-keyed, so it can go on to JSON/YAML/TOML. -/

theorem good_of_parts (kvs : List (Val × Val))
    (h : ∀ e ∈ kvs, (∃ s, e.1 = Val.str s) ∧ (serializable e.2 = true ∧ strKeys e.2 = true)) :
    serializable (.map (buildMap kvs)) = true ∧ strKeys (.map (buildMap kvs)) = true := by
  have hb := buildMap_pres (fun k => ∃ s, k = Val.str s)
    (fun v => serializable v = true ∧ strKeys v = true) kvs h
  simp only [serializable, strKeys]
  exact ⟨(serializableE_iff _).2 (fun e he => (hb e he).2.1),
         (strKeysE_iff _).2 (fun e he => ⟨(hb e he).1, (hb e he).2.2⟩)⟩

mutual
theorem toKoto_good (X : Ext) : ∀ (x : RVal) (v : Val), toKoto X x = some v →
    serializable v = true ∧ strKeys v = true
  | .unit, v, h => by simp [toKoto] at h; subst h; simp [serializable, strKeys]
  | .bool _, v, h => by simp [toKoto] at h; subst h; simp [serializable, strKeys]
  | .int n, v, h => by
    simp only [toKoto, ofI] at h
    split at h
    · cases h; simp [serializable, strKeys]
    · cases h
  | .f32 _, v, h => by simp [toKoto] at h; subst h; simp [serializable, strKeys]
  | .f64 _, v, h => by simp [toKoto] at h; subst h; simp [serializable, strKeys]
  | .char _, v, h => by simp [toKoto] at h; subst h; simp [serializable, strKeys]
  | .str _, v, h => by simp [toKoto] at h; subst h; simp [serializable, strKeys]
  | .none, v, h => by simp [toKoto] at h; subst h; simp [serializable, strKeys]
  | .some x, v, h => by simp only [toKoto] at h; exact toKoto_good X x v h
  | .seq xs, v, h => by
    simp only [toKoto] at h
    cases hl : toKotoL X xs with
    | none => simp [hl] at h
    | some vs =>
      simp [hl] at h; subst h
      simpa [serializable, strKeys] using toKotoL_good X xs vs hl
  | .tuple xs, v, h => by
    simp only [toKoto] at h
    cases hl : toKotoL X xs with
    | none => simp [hl] at h
    | some vs =>
      simp [hl] at h; subst h
      simpa [serializable, strKeys] using toKotoL_good X xs vs hl
  | .map es, v, h => by
    simp only [toKoto] at h
    cases hl : toKotoF X es with
    | none => simp [hl] at h
    | some kvs =>
      simp [hl] at h; subst h
      exact good_of_parts kvs (toKotoF_good X es kvs hl)
  | .struct es, v, h => by
    simp only [toKoto] at h
    cases hl : toKotoF X es with
    | none => simp [hl] at h
    | some kvs =>
      simp [hl] at h; subst h
      exact good_of_parts kvs (toKotoF_good X es kvs hl)
  | .variant name .unit _, v, h => by simp [toKoto] at h; subst h; simp [serializable, strKeys]
  | .variant name .newtype p, v, h => by
    simp only [toKoto] at h
    cases hp : toKoto X p with
    | none => simp [hp] at h
    | some w =>
      simp [hp] at h; subst h
      have := toKoto_good X p w hp
      simp [serializable, serializableE, strKeys, strKeysE, this.1, this.2]
  | .variant name .tuple p, v, h => by
    simp only [toKoto] at h
    cases hp : toKoto X p with
    | none => simp [hp] at h
    | some w =>
      simp [hp] at h; subst h
      have := toKoto_good X p w hp
      simp [serializable, serializableE, strKeys, strKeysE, this.1, this.2]
  | .variant name .struct p, v, h => by
    simp only [toKoto] at h
    cases hp : toKoto X p with
    | none => simp [hp] at h
    | some w =>
      simp [hp] at h; subst h
      have := toKoto_good X p w hp
      simp [serializable, serializableE, strKeys, strKeysE, this.1, this.2]
theorem toKotoL_good (X : Ext) : ∀ (xs : List RVal) (vs : List Val), toKotoL X xs = some vs →
    serializableL vs = true ∧ strKeysL vs = true
  | [], vs, h => by simp [toKotoL] at h; subst h; simp [serializableL, strKeysL]
  | x :: xs, vs, h => by
    simp only [toKotoL] at h
    cases h1 : toKoto X x with
    | none => simp [h1] at h
    | some w =>
      cases h2 : toKotoL X xs with
      | none => simp [h1, h2] at h
      | some ws =>
        simp [h1, h2] at h; subst h
        have a := toKoto_good X x w h1
        have b := toKotoL_good X xs ws h2
        simp [serializableL, strKeysL, a.1, a.2, b.1, b.2]
theorem toKotoF_good (X : Ext) : ∀ (es : List (Name × RVal)) (kvs : List (Val × Val)),
    toKotoF X es = some kvs →
    ∀ e ∈ kvs, (∃ s, e.1 = Val.str s) ∧ (serializable e.2 = true ∧ strKeys e.2 = true)
  | [], kvs, h => by simp [toKotoF] at h; subst h; simp
  | (n, x) :: es, kvs, h => by
    simp only [toKotoF] at h
    cases h1 : toKoto X x with
    | none => simp [h1] at h
    | some w =>
      cases h2 : toKotoF X es with
      | none => simp [h1, h2] at h
      | some ws =>
        simp [h1, h2] at h; subst h
        intro e he
        simp only [List.mem_cons] at he
        rcases he with rfl | he
        · exact ⟨⟨n, rfl⟩, toKoto_good X x w h1⟩
        · exact toKotoF_good X es ws h2 e he
end

example : toKoto ⟨fun _ => [], fun _ => 0, fun _ => 0, fun _ => 0, fun _ => false, fun _ => 0, fun _ => 0, fun _ => 0⟩
    (.struct [([97], .some (.int 3)), ([98], .variant [99] .newtype (.seq [.unit]))]) =
    some (.map [(.str [97], .num (.i 3)), (.str [98], .map [(.str [99], .tuple [.null])])]) := by decide

/-- **Rust data → Koto value → text → Koto value** always succeeds within the writer's depth and ends
in the normal form of the value `to_koto_value` produced. -/
theorem toKoto_then_text (X : Ext) (x : RVal) (v : Val) (h : toKoto X x = some v)
    (hd : depth v ≤ writerDepthLimit) :
    ∃ s, serW X v = some s ∧ de s = some (norm X v) ∧ strKeys v = true := by
  have g := toKoto_good X x v h
  have h0 := de_ser X v g.1 hd
  cases hs : serW X v with
  | none => simp [hs] at h0
  | some s => exact ⟨s, rfl, by simpa [hs] using h0, g.2⟩

/-! ### 10. TOML's reordering changes only the order: it preserves exactly the side conditions that
decide whether TOML accepts a value (no null, serializable) and the nesting depth — so a value that
came back from TOML is accepted again. -/

theorem noNullE_append : ∀ a b : List (Val × Val), noNullE (a ++ b) = (noNullE a && noNullE b)
  | [], b => by simp [noNullE]
  | (k, v) :: a, b => by simp [noNullE, noNullE_append a b, Bool.and_assoc]

theorem serializableE_append : ∀ a b : List (Val × Val),
    serializableE (a ++ b) = (serializableE a && serializableE b)
  | [], b => by simp [serializableE]
  | (k, v) :: a, b => by simp [serializableE, serializableE_append a b, Bool.and_assoc]

theorem depthE_append : ∀ a b : List (Val × Val), depthE (a ++ b) = max (depthE a) (depthE b)
  | [], b => by simp [depthE]
  | (k, v) :: a, b => by simp [depthE, depthE_append a b, Nat.max_assoc]

mutual
theorem tomlOrd_noNull : ∀ v : Val, noNull (tomlOrd v) = noNull v
  | .null => rfl
  | .bool _ => rfl
  | .num _ => rfl
  | .str _ => rfl
  | .range _ _ => rfl
  | .map es => by
    simp only [tomlOrd, noNull, noNullE_append]; exact tomlSplit_noNull es
  | .tuple xs => by
    by_cases h : (!xs.isEmpty && xs.all isMap) = true
    · simp only [tomlOrd, h, ↓reduceIte, noNull, tomlOrdL_noNull xs]
    · simp [tomlOrd, h]
  | .list xs => by
    by_cases h : (!xs.isEmpty && xs.all isMap) = true
    · simp only [tomlOrd, h, ↓reduceIte, noNull, tomlOrdL_noNull xs]
    · simp [tomlOrd, h]
theorem tomlOrdL_noNull : ∀ xs : List Val, noNullL (tomlOrdL xs) = noNullL xs
  | [] => rfl
  | x :: xs => by simp [tomlOrdL, noNullL, tomlOrd_noNull x, tomlOrdL_noNull xs]
theorem tomlSplit_noNull : ∀ es : List (Val × Val),
    (noNullE (tomlPlain es) && noNullE (tomlTables es)) = noNullE es
  | [] => rfl
  | (k, v) :: es => by
    have ih := tomlSplit_noNull es
    by_cases h : isTableLike v = true
    · simp only [tomlPlain, tomlTables, h, ↓reduceIte, noNullE, tomlOrd_noNull v, ← ih]
      cases noNull v <;> cases noNullE (tomlPlain es) <;> cases noNullE (tomlTables es) <;> rfl
    · simp only [tomlPlain, tomlTables, h, ↓reduceIte, noNullE, Bool.false_eq_true, ← ih]
      cases noNull v <;> cases noNullE (tomlPlain es) <;> cases noNullE (tomlTables es) <;> rfl
end

mutual
theorem tomlOrd_serializable : ∀ v : Val, serializable (tomlOrd v) = serializable v
  | .null => rfl
  | .bool _ => rfl
  | .num _ => rfl
  | .str _ => rfl
  | .range _ _ => rfl
  | .map es => by
    simp only [tomlOrd, serializable, serializableE_append]; exact tomlSplit_serializable es
  | .tuple xs => by
    by_cases h : (!xs.isEmpty && xs.all isMap) = true
    · simp only [tomlOrd, h, ↓reduceIte, serializable, tomlOrdL_serializable xs]
    · simp [tomlOrd, h]
  | .list xs => by
    by_cases h : (!xs.isEmpty && xs.all isMap) = true
    · simp only [tomlOrd, h, ↓reduceIte, serializable, tomlOrdL_serializable xs]
    · simp [tomlOrd, h]
theorem tomlOrdL_serializable : ∀ xs : List Val, serializableL (tomlOrdL xs) = serializableL xs
  | [] => rfl
  | x :: xs => by simp [tomlOrdL, serializableL, tomlOrd_serializable x, tomlOrdL_serializable xs]
theorem tomlSplit_serializable : ∀ es : List (Val × Val),
    (serializableE (tomlPlain es) && serializableE (tomlTables es)) = serializableE es
  | [] => rfl
  | (k, v) :: es => by
    have ih := tomlSplit_serializable es
    by_cases h : isTableLike v = true
    · simp only [tomlPlain, tomlTables, h, ↓reduceIte, serializableE, tomlOrd_serializable v, ← ih]
      cases serializable v <;> cases serializableE (tomlPlain es) <;>
        cases serializableE (tomlTables es) <;> rfl
    · simp only [tomlPlain, tomlTables, h, ↓reduceIte, serializableE, Bool.false_eq_true, ← ih]
      cases serializable v <;> cases serializableE (tomlPlain es) <;>
        cases serializableE (tomlTables es) <;> rfl
end

mutual
theorem tomlOrd_depth : ∀ v : Val, depth (tomlOrd v) = depth v
  | .null => rfl
  | .bool _ => rfl
  | .num _ => rfl
  | .str _ => rfl
  | .range _ _ => rfl
  | .map es => by
    simp only [tomlOrd, depth, depthE_append, tomlSplit_depth es]
  | .tuple xs => by
    by_cases h : (!xs.isEmpty && xs.all isMap) = true
    · simp only [tomlOrd, h, ↓reduceIte, depth, tomlOrdL_depth xs]
    · simp [tomlOrd, h]
  | .list xs => by
    by_cases h : (!xs.isEmpty && xs.all isMap) = true
    · simp only [tomlOrd, h, ↓reduceIte, depth, tomlOrdL_depth xs]
    · simp [tomlOrd, h]
theorem tomlOrdL_depth : ∀ xs : List Val, depthL (tomlOrdL xs) = depthL xs
  | [] => rfl
  | x :: xs => by simp [tomlOrdL, depthL, tomlOrd_depth x, tomlOrdL_depth xs]
theorem tomlSplit_depth : ∀ es : List (Val × Val),
    max (depthE (tomlPlain es)) (depthE (tomlTables es)) = depthE es
  | [] => rfl
  | (k, v) :: es => by
    have ih := tomlSplit_depth es
    by_cases h : isTableLike v = true
    · simp only [tomlPlain, tomlTables, h, ↓reduceIte, depthE, tomlOrd_depth v, ← ih]
      omega
    · simp only [tomlPlain, tomlTables, h, ↓reduceIte, depthE, Bool.false_eq_true, ← ih]
      omega
end

/-- **TOML second trip is accepted**: if the writer + TOML accept `v`, they accept the reordered value
that TOML hands back as well (same serializability, same depth, still a null-free map). -/
theorem toml_reordered_accepted (X : Ext) (v : Val) (s : SVal)
    (h : serW X v = some s) (ha : tomlAccepts s = true) :
    ∃ s', serW X (tomlOrd v) = some s' ∧ tomlAccepts s' = true := by
  have hs := serW_some_ser X v s h
  have hacc : (isMap v && noNull v) = true := by rw [← toml_accepts_iff X v s hs]; exact ha
  have hsome : (serW X (tomlOrd v)).isSome = true := by
    have h0 : (serW X v).isSome = true := by simp [h]
    rw [serW_isSome] at h0 ⊢
    rw [tomlOrd_serializable, tomlOrd_depth]; exact h0
  obtain ⟨s', hs'⟩ := Option.isSome_iff_exists.mp hsome
  refine ⟨s', hs', ?_⟩
  rw [toml_accepts_iff X (tomlOrd v) s' (serW_some_ser X _ s' hs'), isMap_tomlOrd, tomlOrd_noNull]
  exact hacc

/-! ### non-vacuity witnesses for the hypotheses used above -/

/-- a fixed instance of the external facts, for the witnesses -/
def X0 : Ext := ⟨fun _ => [], fun _ => 0, fun _ => 0, fun _ => 0, fun _ => false, fun _ => 0, fun _ => 0, fun _ => 0⟩

-- serW_seq_parts
example : (serW X0 (.tuple [.list [.null], .num (.i 2)])).isSome = true := by decide
-- ser_intsInRange
example : ser X0 (.list [.num (.i 5)]) = some (.seq [.i64 5]) := by rfl
-- toKoto_then_text
example : toKoto X0 (.struct [([97], .seq [.int 1])]) = some (.map [(.str [97], .tuple [.num (.i 1)])]) ∧
    depth (.map [(.str [97], .tuple [.num (.i 1)])]) ≤ writerDepthLimit := by decide
-- toml_reordered_accepted: a map whose table entry comes first (so tomlOrd really reorders)
example : serW X0 (.map [(.str [97], .map [(.str [120], .num (.i 1))]), (.str [98], .num (.i 2))]) =
      some (.map [(.str [97], .map [(.str [120], .i64 1)]), (.str [98], .i64 2)]) ∧
    tomlAccepts (.map [(.str [97], .map [(.str [120], .i64 1)]), (.str [98], .i64 2)]) = true :=
  ⟨by rfl, by decide⟩

/-! ### 11. "Sequences come back as tuples" for every document, not only for serializer output:
whatever data-model tree a parser hands to `KValueVisitor`, the resulting value has no list. -/

mutual
theorem de_noList : ∀ (s : SVal) (v : Val), de s = some v → noList v = true
  | .unit, v, h => by simp [de] at h; subst h; rfl
  | .none, v, h => by simp [de] at h; subst h; rfl
  | .some s, v, h => by simp only [de] at h; exact de_noList s v h
  | .newtype s, v, h => by simp only [de] at h; exact de_noList s v h
  | .bool _, v, h => by simp [de] at h; subst h; rfl
  | .i64 _, v, h => by simp [de] at h; subst h; rfl
  | .u64 n, v, h => by
    simp only [de, ofI] at h; split at h
    · cases h; rfl
    · cases h
  | .i128 n, v, h => by
    simp only [de, ofI] at h; split at h
    · cases h; rfl
    · cases h
  | .u128 n, v, h => by
    simp only [de, ofI] at h; split at h
    · cases h; rfl
    · cases h
  | .f64 _, v, h => by simp [de] at h; subst h; rfl
  | .char _, v, h => by simp [de] at h; subst h; rfl
  | .str _, v, h => by simp [de] at h; subst h; rfl
  | .bytes bs, v, h => by
    simp [de] at h; subst h
    simp only [noList]
    induction bs with
    | nil => rfl
    | cons b bs ih => simp [noListL, noList, ih]
  | .seq xs, v, h => by
    simp only [de] at h
    cases hl : deL xs with
    | none => simp [hl] at h
    | some vs => simp [hl] at h; subst h; simpa [noList] using deL_noList xs vs hl
  | .map es, v, h => by
    simp only [de] at h
    cases hl : deE es with
    | none => simp [hl] at h
    | some kvs =>
      simp [hl] at h; subst h
      simp only [noList]
      rw [noListE_iff]
      intro e he
      exact (buildMap_pres (fun _ => True) (fun v => noList v = true) kvs
        (fun e he => ⟨trivial, deE_noList es kvs hl e he⟩) e he).2
  | .enum a b, v, h => by
    simp only [de] at h
    cases ha : de a with
    | none => simp [ha] at h
    | some k =>
      cases hb : de b with
      | none => simp [ha, hb] at h
      | some w =>
        simp only [ha, hb] at h
        split at h
        · cases h; simp [noList, noListE, de_noList b w hb]
        · cases h
theorem deL_noList : ∀ (xs : List SVal) (vs : List Val), deL xs = some vs → noListL vs = true
  | [], vs, h => by simp [deL] at h; subst h; rfl
  | x :: xs, vs, h => by
    simp only [deL] at h
    cases h1 : de x with
    | none => simp [h1] at h
    | some w =>
      cases h2 : deL xs with
      | none => simp [h1, h2] at h
      | some ws =>
        simp [h1, h2] at h; subst h
        simp [noListL, de_noList x w h1, deL_noList xs ws h2]
theorem deE_noList : ∀ (es : List (SVal × SVal)) (kvs : List (Val × Val)), deE es = some kvs →
    ∀ e ∈ kvs, noList e.2 = true
  | [], kvs, h => by simp [deE] at h; subst h; simp
  | (k, x) :: es, kvs, h => by
    simp only [deE] at h
    cases h0 : de k with
    | none => simp [h0] at h
    | some k' =>
      cases h1 : de x with
      | none => simp [h0, h1] at h
      | some w =>
        cases h2 : deE es with
        | none => simp [h0, h1, h2] at h
        | some ws =>
          simp only [h0, h1, h2] at h
          split at h
          · cases h
            intro e he
            simp only [List.mem_cons] at he
            rcases he with rfl | he
            · exact de_noList x w h1
            · exact deE_noList es ws h2 e he
          · cases h
end

-- a document with a byte string, an enum and a nested sequence is accepted
example : (de (.map [(.str [97], .seq [.bytes [1, 2], .enum (.str [98]) (.seq [.unit])])])).isSome = true := by
  decide

end KotoVerif.C20Ext
