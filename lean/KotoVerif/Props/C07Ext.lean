/-
# Props/C07Ext.lean — additional theorems about the C07 model (REPL continuation state, idle VM,
import bracket, exports, generator resumption sequences)

Everything here is about definitions that the driver `Drivers/C07.lean` executes
(`Repl.onLine`, `Repl.atMainPrompt`, `Unwind.step`/`run`, `Unwind.genResume`/`genInit`/`genFinished`).
-/
import KotoVerif.Model.Unwind
import KotoVerif.Model.Repl

namespace KotoVerif.C07Ext
open KotoVerif.Unwind

/-! ## REPL: `Repl.onLine` / `Repl.session` -/

open KotoVerif.Repl in
/-- sessions compose: typing `a` then `b` is typing `a ++ b` -/
theorem repl_session_append (a b : List Line) (s : State) :
    session (a ++ b) s = session b (session a s) := by
  simp [session, List.foldl_append]

open KotoVerif.Repl in
/-- **every compile error other than "continue the entry" resets the REPL**: an evaluated line
whose verdict is not an indentation error on an empty buffer leaves the initial continuation state
— this covers `otherErr` (compile error / help) and an indentation error at the end of a
multi-line entry, the cases `C07.repl_entry_resets` does not speak about. -/
theorem repl_evaluated_resets (s : State) (l : Line) (heval : (s.lines.isEmpty || l.blank) = true)
    (hv : l.verdict ≠ .indentErr ∨ s.lines ≠ []) :
    (onLine s l).lines = [] ∧ (onLine s l).indent = 0 := by
  cases hl : s.lines with
  | nil =>
    have hv' : l.verdict ≠ .indentErr := by
      cases hv with
      | inl h => exact h
      | inr h => exact (h hl).elim
    cases hver : l.verdict <;> simp_all [onLine, nextLines, indentOf]
  | cons x xs =>
    have hb : l.blank = true := by simp_all
    cases hver : l.verdict <;> simp [onLine, nextLines, indentOf, hl, hb, hver]

open KotoVerif.Repl in
example : (onLine { lines := [0, 2], indent := 2 } ⟨true, 2, .indentErr, false⟩).lines = [] ∧
    (onLine {} ⟨false, 0, .otherErr, false⟩).lines = [] := by decide

open KotoVerif.Repl in
/-- the only way to leave the main prompt is an indentation error on an empty buffer; the entry
then holds exactly that line and the next line is indented by `INDENT_SIZE` -/
theorem repl_leaves_main_prompt_iff (s : State) (l : Line) (h : s.lines = []) :
    (atMainPrompt (onLine s l) = false ↔ l.verdict = .indentErr) ∧
    (l.verdict = .indentErr →
      (onLine s l).lines = [l.indent] ∧ (onLine s l).indent = l.indent + INDENT_SIZE ∧
      (onLine s l).runs = s.runs) := by
  cases hver : l.verdict <;>
    simp [onLine, nextLines, indentOf, atMainPrompt, runsInput, h, hver]

open KotoVerif.Repl in
/-- a non-blank line typed at the continuation prompt is only buffered: nothing is handed to the
runtime, the buffer grows by exactly that line, whatever its verdict field says -/
theorem repl_continuation_only_buffers (s : State) (l : Line) (hne : s.lines ≠ [])
    (hb : l.blank = false) :
    (onLine s l).lines = s.lines ++ [l.indent] ∧ (onLine s l).runs = s.runs ∧
    (onLine s l).indent = (if l.pushIndents then l.indent + INDENT_SIZE else l.indent) ∧
    atMainPrompt (onLine s l) = false := by
  have hl : s.lines.isEmpty = false := by cases h : s.lines <;> simp_all
  simp [onLine, nextLines, indentOf, runsInput, atMainPrompt, hl, hb]

open KotoVerif.Repl in
example : (onLine { lines := [0], indent := 2 } ⟨false, 2, .runErr, true⟩) =
    { lines := [0, 2], indent := 4, runs := 0 } := by decide

open KotoVerif.Repl in
/-- invariant of every state `onLine` produces: the main prompt is shown with indent 0, and
otherwise the indent is the last buffered line's indent or that plus `INDENT_SIZE` -/
theorem repl_indent_invariant (s : State) (l : Line) :
    ((onLine s l).lines = [] → (onLine s l).indent = 0) ∧
    (∀ cur, (onLine s l).lines.getLast? = some cur →
      (onLine s l).indent = cur ∨ (onLine s l).indent = cur + INDENT_SIZE) := by
  constructor
  · intro h
    simp only [onLine] at h ⊢
    simp [indentOf, h]
  · intro cur h
    simp only [onLine] at h ⊢
    simp only [indentOf, h]
    split <;> simp

open KotoVerif.Repl in
/-- the run counter never decreases and grows by at most one per typed line; the buffer grows by at
most one line per typed line — for every session from every state -/
theorem repl_session_bounds (ls : List Line) : ∀ s : State,
    s.runs ≤ (session ls s).runs ∧ (session ls s).runs ≤ s.runs + ls.length ∧
    (session ls s).lines.length ≤ s.lines.length + ls.length := by
  induction ls with
  | nil => intro s; simp [session]
  | cons x xs ih =>
    intro s
    have h := ih (onLine s x)
    have hr : s.runs ≤ (onLine s x).runs ∧ (onLine s x).runs ≤ s.runs + 1 := by
      simp only [onLine]; split <;> omega
    have hlen : (onLine s x).lines.length ≤ s.lines.length + 1 := by
      simp only [onLine, nextLines]
      split
      · cases x.verdict <;> simp
        split <;> simp
      · simp
    simp only [session, List.foldl_cons, List.length_cons] at h ⊢
    omega

open KotoVerif.Repl in
/-- **a state at the main prompt is a fresh REPL up to the run counter**: from any state with an
empty buffer (in particular after any failed entry, `repl_evaluated_resets`), every later session
shows the same buffers and indents as a fresh REPL and performs the same number of runs. Stronger
than `C07.repl_history_independent`: it includes the run counter and needs no verdict hypothesis. -/
theorem repl_main_prompt_is_fresh (rest : List Line) (s : State) (hl : s.lines = [])
    (hi : s.indent = 0) :
    (session rest s).lines = (session rest {}).lines ∧
    (session rest s).indent = (session rest {}).indent ∧
    (session rest s).runs = s.runs + (session rest {}).runs := by
  have key : ∀ (rest : List Line) (a b : State) (k : Nat), a.lines = b.lines →
      a.indent = b.indent → a.runs = k + b.runs →
      (session rest a).lines = (session rest b).lines ∧
      (session rest a).indent = (session rest b).indent ∧
      (session rest a).runs = k + (session rest b).runs := by
    intro rest
    induction rest with
    | nil => intro a b k h1 h2 h3; exact ⟨h1, h2, h3⟩
    | cons x xs ih =>
      intro a b k h1 h2 h3
      simp only [session, List.foldl_cons]
      apply ih
      · simp [onLine, h1]
      · simp [onLine, h1]
      · simp only [onLine, h1, h3]; omega
  exact key rest s {} s.runs (by simpa using hl) (by simpa using hi) (by simp)

open KotoVerif.Repl in
/-- non-vacuity: the state after a failed multi-line entry satisfies the hypotheses -/
example : let s := session [⟨false, 0, .indentErr, false⟩, ⟨false, 2, .runOk, false⟩,
      ⟨true, 2, .runErr, false⟩] {}
    s.lines = [] ∧ s.indent = 0 ∧ s.runs = 1 := by decide

/-! ## The VM model: `Unwind.step` / `Unwind.run` -/

/-- executions compose -/
theorem run_append (a b : List Ev) (st : St) : run (a ++ b) st = run b (run a st) := by
  simp [run, List.foldl_append]

/-- events that start something in every mode (host entries, nested loops) -/
def isEntry : Ev → Bool
  | .enter .. | .enterOp .. | .enterDirect .. | .nested .. => true
  | _ => false

/-- events that only an interpreter loop reacts to -/
def isLoopEv : Ev → Bool
  | .nativeRet _ | .importEnd _ => false
  | e => !isEntry e

/-- **mode discipline**: an instruction event is a no-op unless an interpreter loop is the pending
Rust caller, and a "native returns" / "import closure ends" event is a no-op while a loop is -/
theorem step_wrong_mode_noop (ev : Ev) (st : St) :
    (inLoop st = false → isLoopEv ev = true → step ev st = st) ∧
    (inLoop st = true → isEntry ev = false → isLoopEv ev = false → step ev st = st) := by
  constructor
  · intro h1 h2
    cases ev <;> simp_all [step, isLoopEv, isEntry]
  · intro h1 h2 h3
    cases ev <;> simp_all [step, isLoopEv, isEntry]

/-- **an idle runtime ignores everything but host entries**: between top-level runs (no pending
Rust caller) no sequence of instruction / return events changes any bookkeeping — only `run`,
`call_function`, `run_*_op` do. For every event list, every idle state. -/
theorem idle_run_noop (evs : List Ev) (st : St) (hidle : st.conts = [])
    (hno : ∀ e ∈ evs, isEntry e = false) : run evs st = st := by
  induction evs with
  | nil => rfl
  | cons e es ih =>
    have he : isEntry e = false := hno e (by simp)
    have hstep : step e st = st := by
      cases e <;> simp_all [step, inLoop, isEntry]
    simp only [run, List.foldl_cons, hstep]
    exact ih (fun e' h' => hno e' (by simp [h']))

example : run [.newFrame 9, .seqStart, .raise true, .ret, .nativeRet false, .importEnd false,
    .exportVal 3, .importBegin 1] ({} : St) = {} := by decide

/-- **a successful import is a cache insertion, a failed one is exactly a failing instruction**:
`importBegin m` immediately followed by the end of the module's closure leaves — on success — the
state before the import with `m` added to the cached modules (placeholder gone, the importer's
exports back), and — on failure — exactly the state of `raise true` at the `Import` instruction:
no placeholder, no cache entry, the importer's exports restored. -/
theorem import_bracket (m : Nat) (st : St) (hin : inLoop st = true)
    (hp : m ∉ st.vm.placeholders) (hc : m ∉ st.vm.cached) :
    step (.importEnd true) (step (.importBegin m) st)
      = ⟨{ st.vm with cached := m :: st.vm.cached }, st.conts⟩ ∧
    step (.importEnd false) (step (.importBegin m) st) = raise true st := by
  obtain ⟨vm, conts⟩ := st
  cases conts with
  | nil => simp [inLoop] at hin
  | cons c cs =>
    cases c with
    | loop x => simp_all [step, inLoop, raise]
    | native fb h => simp [inLoop] at hin
    | importing m s => simp [inLoop] at hin

example : inLoop (step runChunk {}) = true ∧ 5 ∉ (step runChunk {}).vm.placeholders ∧
    5 ∉ (step runChunk {}).vm.cached := by decide

/-- importing a cached module changes nothing; importing a module that is being imported fails
like any instruction (the "recursive import" error) without touching the placeholders first -/
theorem import_cached_or_recursive (m : Nat) (st : St) (hin : inLoop st = true) :
    (m ∉ st.vm.placeholders → m ∈ st.vm.cached → step (.importBegin m) st = st) ∧
    (m ∈ st.vm.placeholders → step (.importBegin m) st = raise true st) := by
  constructor
  · intro h1 h2; simp [step, hin, h1, h2]
  · intro h1; simp [step, hin, h1]

/-- exporting is idempotent, makes the key present, keeps earlier keys (in order, as a prefix) and
keeps the key list duplicate-free -/
theorem exportVal_laws (k : Nat) (st : St) (hin : inLoop st = true) :
    step (.exportVal k) (step (.exportVal k) st) = step (.exportVal k) st ∧
    k ∈ (step (.exportVal k) st).vm.exports ∧
    st.vm.exports <+: (step (.exportVal k) st).vm.exports ∧
    (st.vm.exports.Nodup → (step (.exportVal k) st).vm.exports.Nodup) := by
  obtain ⟨vm, conts⟩ := st
  cases conts with
  | nil => simp [inLoop] at hin
  | cons c cs =>
    cases c with
    | native fb h => simp [inLoop] at hin
    | importing m s => simp [inLoop] at hin
    | loop x =>
      by_cases hk : k ∈ vm.exports
      · simp [step, inLoop, hk]
      · refine ⟨?_, ?_, ?_, ?_⟩
        · simp [step, inLoop, hk]
        · simp [step, inLoop, hk]
        · simp [step, inLoop, hk]
        · intro hnd
          simp only [step, inLoop, hk, if_true, if_false]
          exact List.nodup_append.2 ⟨hnd, by simp, by intro a ha b hb; simp at hb; subst hb; intro hab; exact hk (hab ▸ ha)⟩

example : (run [runChunk, .exportVal 4, .exportVal 7, .exportVal 4] {}).vm.exports = [4, 7] := by
  decide

/-! ## Generator VMs over a whole sequence of resumptions (driver request `gen`) -/

/-- the driver's fold: one `genResume` per group of events -/
def genSession (groups : List (List Ev)) (vm : VM) : VM :=
  groups.foldl (fun vm evs => (genResume evs vm).vm) vm

/-- **a finished generator stays finished over every later sequence of resumptions**, and nothing
of its VM changes — lifted from one resumption (`C07.generator_finished_stays`) to all histories -/
theorem genSession_finished_stays (groups : List (List Ev)) (vm : VM)
    (h : genFinished vm = true) : genSession groups vm = vm := by
  induction groups with
  | nil => rfl
  | cons g gs ih =>
    simp only [genSession, List.foldl_cons] at ih ⊢
    have hg : (genResume g vm).vm = vm := by simp [genResume, h]
    rw [hg]; exact ih

/-- once a prefix of the resumptions has finished the generator, the rest is irrelevant -/
theorem genSession_prefix_finished (a b : List (List Ev)) (vm : VM)
    (h : genFinished (genSession a vm) = true) :
    genSession (a ++ b) vm = genSession a vm := by
  have : genSession (a ++ b) vm = genSession b (genSession a vm) := by
    simp [genSession, List.foldl_append]
  rw [this]
  exact genSession_finished_stays b _ h

example : genFinished (genSession [[.newFrame 3], [.raise true]] (genInit 0)) = true ∧
    genFinished (genSession [[.newFrame 3]] (genInit 0)) = false := by decide

/-! ## A completed `try` leaves no catch entry -/

/-- `TryStart` immediately closed by `TryEnd` restores the state exactly (catch stack included),
for every state in which a loop is running -/
theorem tryStart_tryEnd (r ip : Nat) (st : St) (hin : inLoop st = true) :
    step .tryEnd (step (.tryStart r ip) st) = st := by
  obtain ⟨vm, conts⟩ := st
  cases conts with
  | nil => simp [inLoop] at hin
  | cons c cs =>
    cases c with
    | native fb h => simp [inLoop] at hin
    | importing m s => simp [inLoop] at hin
    | loop x =>
      cases hs : vm.stack with
      | nil => simp [step, inLoop, modTop, hs]
      | cons f fs => 
        simp [step, inLoop, modTop, hs]
        cases vm; simp_all

example : inLoop (run [runChunk, .newFrame 4] {}) = true := by decide

/-! ## The stack of pending Rust callers (`St.conts`)

Errors only ever *pop* pending callers (the result of `raiseGo` is a suffix of what was pending),
one event pushes at most one, so the depth of Rust re-entrancy after any execution is bounded by
the number of events — for every event list from every state. -/

theorem raiseGo_conts_suffix (conts : List Cont) (c : Bool) (vm : VM) :
    (raiseGo conts c vm).conts <:+ conts := by
  fun_induction raiseGo conts c vm with
  | case1 x y rest c vm vm1 r h => simp
  | case2 x y rest c vm vm1 h ih => exact List.IsSuffix.trans ih (List.suffix_cons _ _)
  | case3 x rest c vm hne vm1 r h => simp
  | case4 x rest c vm hne vm1 h => exact List.suffix_cons _ _
  | case5 conts c vm h1 h2 => simp

/-- shape of the pending-caller stack after one event -/
def ContsStep (before after : List Cont) : Prop :=
  after <:+ before ∨ ∃ c, after = c :: before

theorem enterWith_conts (t : Bool) (pre args : Nat) (c : Callee) (st : St) :
    ContsStep st.conts (enterWith t pre args c st).conts := by
  cases c with
  | koto a => right; exact ⟨_, rfl⟩
  | native => right; exact ⟨_, rfl⟩
  | fail => left; exact raiseGo_conts_suffix _ _ _

theorem step_conts (ev : Ev) (st : St) : ContsStep st.conts (step ev st).conts := by
  have hr : ∀ c vm, ContsStep st.conts (raiseGo st.conts c vm).conts :=
    fun c vm => Or.inl (raiseGo_conts_suffix _ _ _)
  have hrefl : ContsStep st.conts st.conts := Or.inl (List.suffix_refl _)
  cases ev with
  | enter pre args c =>
    simp only [step, enterChecked, enter]; split
    · exact enterWith_conts _ _ _ _ _
    · exact hr _ _
  | enterOp pre args c =>
    simp only [step, enterOpChecked, enterOp]; split
    · exact enterWith_conts _ _ _ _ _
    · exact hr _ _
  | enterDirect pre ok =>
    simp only [step, enterDirectChecked, enterDirect]; split
    · split
      · exact hrefl
      · exact hr _ _
    · exact hr _ _
  | nested a b =>
    simp only [step, nested]; split
    · exact hr _ _
    · right; exact ⟨_, rfl⟩
  | newFrame n => simp only [step]; split <;> exact hrefl
  | tryStart r ip => simp only [step]; split <;> exact hrefl
  | tryEnd => simp only [step]; split <;> exact hrefl
  | call fb a => simp only [step]; split <;> exact hrefl
  | callNative fb => simp only [step]; split <;> first | exact hrefl | exact Or.inr ⟨_, rfl⟩
  | seqStart => simp only [step]; split <;> exact hrefl
  | strStart => simp only [step]; split <;> exact hrefl
  | exportVal k => simp only [step]; split <;> exact hrefl
  | seqEnd => 
    simp only [step]; split
    · split
      · exact hr _ _
      · exact hrefl
    · exact hrefl
  | strEnd => 
    simp only [step]; split
    · split
      · exact hr _ _
      · exact hrefl
    · exact hrefl
  | raise c => simp only [step]; split <;> first | exact hrefl | exact hr _ _
  | opSetupFail n => simp only [step]; split <;> first | exact hrefl | exact hr _ _
  | importBegin m =>
    simp only [step]; split
    · split
      · exact hr _ _
      · split
        · exact hrefl
        · exact Or.inr ⟨_, rfl⟩
    · exact hrefl
  | ret =>
    simp only [step]; split
    · split
      · rename_i f rest x conts hs hc
        split
        · exact hrefl
        · cases x with
          | truncate rr => left; simp [hc]
          | propagate => left; simp [hc]
      · exact hrefl
    · exact hrefl
  | nativeRet ok =>
    simp only [step]; split
    · exact hrefl
    · split
      · rename_i fb host conts hc
        have hs : ∀ c vm, ContsStep st.conts (raiseGo conts c vm).conts := fun c vm =>
          Or.inl (List.IsSuffix.trans (raiseGo_conts_suffix _ _ _) (by simp [hc]))
        cases ok <;> cases host <;> simp <;> first | exact hs _ _ | (left; simp [hc])
      · exact hrefl
  | importEnd ok =>
    simp only [step]; split
    · exact hrefl
    · split
      · rename_i m saved conts hc
        have hs : ∀ c vm, ContsStep st.conts (raiseGo conts c vm).conts := fun c vm =>
          Or.inl (List.IsSuffix.trans (raiseGo_conts_suffix _ _ _) (by simp [hc]))
        cases ok <;> simp <;> first | exact hs _ _ | (left; simp [hc])
      · exact hrefl

theorem step_conts_length (ev : Ev) (st : St) :
    (step ev st).conts.length ≤ st.conts.length + 1 := by
  cases step_conts ev st with
  | inl h => have := h.length_le; omega
  | inr h => obtain ⟨c, hc⟩ := h; simp [hc]

theorem run_conts_length (evs : List Ev) : ∀ st : St,
    (run evs st).conts.length ≤ st.conts.length + evs.length := by
  induction evs with
  | nil => intro st; simp [run]
  | cons e es ih =>
    intro st
    have h1 := step_conts_length e st
    have h2 := ih (step e st)
    simp only [run, List.foldl_cons, List.length_cons] at h2 ⊢
    omega

example : (run [runChunk, .callNative 1, callFunction 0 (.koto 0)] {}).conts.length = 3 := by decide

/-! ## Frame condition for the module cache

Only `importBegin` / `importEnd` change `module_cache` (placeholders and cached modules): no error
path, no frame pop, no host entry, no native return does — for every state, every event, and lifted
to every event list without import events. So a failing run that imports nothing cannot leave a
placeholder behind, whatever it does. -/

/-- the module-cache part of the state: in-progress placeholders and cached modules -/
def mc (vm : VM) : List Nat × List Nat := (vm.placeholders, vm.cached)

theorem popTo_mc (f : Frame) (rest : List Frame) (vm : VM) : mc (popTo f rest vm).1 = mc vm := by
  unfold popTo
  cases rest with
  | nil => rfl
  | cons r rs => simp only []; split <;> rfl

theorem unwindGo_mc (c : Bool) (fs : List Frame) (vm : VM) : mc (unwindGo c fs vm).1 = mc vm := by
  fun_induction unwindGo c fs vm with
  | case1 vm => rfl
  | case2 => rfl
  | case3 => rfl
  | case4 f rest vm _ _ ih => rw [ih, popTo_mc]

theorem exitErr_mc (x : Exit) (vm : VM) : mc (exitErr x vm) = mc vm := by
  have h : mc (popFrameD vm) = mc vm := by
    unfold popFrameD popFrame
    cases hs : vm.stack with
    | nil => rfl
    | cons f rest => exact popTo_mc f rest vm
  cases x with
  | truncate rr => simpa [exitErr, truncate, mc] using h
  | propagate => simpa [exitErr] using h

theorem raiseGo_mc (conts : List Cont) (c : Bool) (vm : VM) :
    mc (raiseGo conts c vm).vm = mc vm := by
  fun_induction raiseGo conts c vm with
  | case1 x y rest c vm vm1 r h => 
    have := unwindGo_mc c vm.stack vm; simp only [unwind] at h; rw [h] at this; exact this
  | case2 x y rest c vm vm1 h ih => 
    have := unwindGo_mc c vm.stack vm; simp only [unwind] at h; rw [h] at this
    rw [ih, exitErr_mc]; exact this
  | case3 x rest c vm hne vm1 r h => 
    have := unwindGo_mc c vm.stack vm; simp only [unwind] at h; rw [h] at this; exact this
  | case4 x rest c vm hne vm1 h => 
    have := unwindGo_mc c vm.stack vm; simp only [unwind] at h; rw [h] at this
    simp only []; rw [exitErr_mc]; exact this
  | case5 conts c vm h1 h2 => rfl

def isImportEv : Ev → Bool
  | .importBegin _ | .importEnd _ => true
  | _ => false

theorem modTop_mc (g : Frame → Frame) (vm : VM) : mc (modTop g vm) = mc vm := by
  unfold modTop; split <;> rfl

theorem nativeOk_mc (fb : Nat) (vm : VM) : mc (nativeOk fb vm) = mc vm := by
  unfold nativeOk; split <;> rfl

theorem enterWith_mc (t : Bool) (pre args : Nat) (c : Callee) (st : St) :
    mc (enterWith t pre args c st).vm = mc st.vm := by
  cases c with
  | koto a => rfl
  | native => rfl
  | fail => simp only [enterWith]; rw [raiseGo_mc]; split <;> rfl

theorem step_mc (ev : Ev) (st : St) (hev : isImportEv ev = false) :
    mc (step ev st).vm = mc st.vm := by
  cases ev with
  | importBegin m => simp [isImportEv] at hev
  | importEnd ok => simp [isImportEv] at hev
  | enter pre args c =>
    simp only [step, enterChecked, enter]; split
    · exact enterWith_mc _ _ _ _ _
    · exact raiseGo_mc _ _ _
  | enterOp pre args c =>
    simp only [step, enterOpChecked, enterOp]; split
    · exact enterWith_mc _ _ _ _ _
    · exact raiseGo_mc _ _ _
  | enterDirect pre ok =>
    simp only [step, enterDirectChecked, enterDirect]; split
    · split
      · rfl
      · rw [raiseGo_mc]; rfl
    · exact raiseGo_mc _ _ _
  | nested a b =>
    simp only [step, nested]; split
    · exact raiseGo_mc _ _ _
    · rfl
  | newFrame n => 
    simp only [step]; split
    · exact modTop_mc _ _
    · rfl
  | tryStart r ip => 
    simp only [step]; split
    · exact modTop_mc _ _
    · rfl
  | tryEnd => 
    simp only [step]; split
    · exact modTop_mc _ _
    · rfl
  | call fb a => simp only [step]; split <;> rfl
  | callNative fb => simp only [step]; split <;> rfl
  | seqStart => simp only [step]; split <;> rfl
  | strStart => simp only [step]; split <;> rfl
  | exportVal k => simp only [step]; split <;> rfl
  | seqEnd => 
    simp only [step]; split
    · split
      · exact raiseGo_mc _ _ _
      · rfl
    · rfl
  | strEnd => 
    simp only [step]; split
    · split
      · exact raiseGo_mc _ _ _
      · rfl
    · rfl
  | raise c => simp only [step]; split <;> first | rfl | exact raiseGo_mc _ _ _
  | opSetupFail n => 
    simp only [step]; split
    · simp only [raise]; rw [raiseGo_mc]; rfl
    · rfl
  | ret =>
    simp only [step]; split
    · split
      · rename_i f rest x conts hs hc
        have hp := popTo_mc f rest st.vm
        split
        · rename_i vm1 h; rw [h] at hp; exact hp
        · rename_i vm1 h; rw [h] at hp
          cases x with
          | truncate rr => exact hp
          | propagate => exact hp
      · rfl
    · rfl
  | nativeRet ok =>
    simp only [step]; split
    · rfl
    · split
      · rename_i fb host conts hc
        cases ok <;> cases host <;> simp only [if_true, if_false, Bool.false_eq_true]
        · exact raiseGo_mc _ _ _
        · rw [raiseGo_mc]; split <;> rfl
        · exact nativeOk_mc _ _
        · exact nativeOk_mc _ _
      · rfl

theorem run_mc (evs : List Ev) : ∀ st : St, (∀ e ∈ evs, isImportEv e = false) →
    mc (run evs st).vm = mc st.vm := by
  induction evs with
  | nil => intro st _; rfl
  | cons e es ih =>
    intro st h
    simp only [run, List.foldl_cons]
    have h2 := ih (step e st) (fun e' h' => h e' (by simp [h']))
    simp only [run] at h2
    rw [h2, step_mc e st (h e (by simp))]

example : mc (run [runChunk, .newFrame 4, .call 2 1, .seqStart, .raise true, .raise false] {}).vm
    = mc ({} : St).vm := by decide

/-! ## Uncatchable errors (execution limit / timeout) -/

/-- `pop_call_stack_on_error(_, allow_catch = false)` never reports a catch point -/
theorem unwindGo_uncatchable (fs : List Frame) (vm : VM) : (unwindGo false fs vm).2 = none := by
  induction fs generalizing vm with
  | nil => rfl
  | cons f rest ih =>
    unfold unwindGo
    split
    · rename_i h _; cases h
    · split
      · rfl
      · exact ih _

/-- **a timeout cannot be swallowed**: an uncatchable error always terminates the loop it is
detected in — afterwards the pending callers are a suffix of those *below* that loop, whatever
`try` blocks are open in whatever frames -/
theorem raise_uncatchable_pops (st : St) (hin : inLoop st = true) :
    (raise false st).conts <:+ st.conts.tail := by
  obtain ⟨vm, conts⟩ := st
  have hu : (unwind false vm).2 = none := unwindGo_uncatchable _ _
  cases conts with
  | nil => simp [inLoop] at hin
  | cons c cs =>
    cases c with
    | native fb h => simp [inLoop] at hin
    | importing m s => simp [inLoop] at hin
    | loop x =>
      simp only [raise, List.tail_cons]
      cases cs with
      | nil => 
        unfold raiseGo
        split
        · rename_i h; rw [h] at hu; simp at hu
        · simp
      | cons d ds =>
        cases d with
        | loop y =>
          unfold raiseGo
          split
          · rename_i h; rw [h] at hu; simp at hu
          · exact raiseGo_conts_suffix _ _ _
        | native fb h =>
          unfold raiseGo
          split
          · rename_i h; rw [h] at hu; simp at hu
          · simp
        | importing m s =>
          unfold raiseGo
          split
          · rename_i h; rw [h] at hu; simp at hu
          · simp

example : (run [runChunk, .newFrame 4, .tryStart 1 9, .raise false] {}).conts = [] ∧
    (run [runChunk, .newFrame 4, .tryStart 1 9, .raise true] {}).conts ≠ [] := by decide

/-! ## Balanced builder brackets -/

/-- the state with `k` more sequence builders and `j` more string builders open -/
def withBuilders (k j : Nat) (st : St) : St :=
  { st with vm := { st.vm with seq := st.vm.seq + k, str := st.vm.str + j } }

theorem run_open_builders (n : Nat) : ∀ (st : St), inLoop st = true →
    run (List.replicate n .seqStart) st = withBuilders n 0 st ∧
    run (List.replicate n .strStart) st = withBuilders 0 n st := by
  induction n with
  | zero => intro st _; simp [run, withBuilders]
  | succ n ih =>
    intro st hin
    have h1 : inLoop (withBuilders 1 0 st) = true := by simpa [inLoop, withBuilders] using hin
    have h2 : inLoop (withBuilders 0 1 st) = true := by simpa [inLoop, withBuilders] using hin
    have e1 : step .seqStart st = withBuilders 1 0 st := by simp [step, hin, withBuilders]
    have e2 : step .strStart st = withBuilders 0 1 st := by simp [step, hin, withBuilders]
    constructor
    · simp only [List.replicate_succ, run, List.foldl_cons, e1]
      have := (ih _ h1).1; simp only [run] at this; rw [this]
      simp [withBuilders]; omega
    · simp only [List.replicate_succ, run, List.foldl_cons, e2]
      have := (ih _ h2).2; simp only [run] at this; rw [this]
      simp [withBuilders]; omega

theorem run_close_builders (n : Nat) : ∀ (st : St), inLoop st = true →
    run (List.replicate n .seqEnd) (withBuilders n 0 st) = st ∧
    run (List.replicate n .strEnd) (withBuilders 0 n st) = st := by
  induction n with
  | zero => intro st _; simp [run, withBuilders]
  | succ n ih =>
    intro st hin
    have h1 : inLoop (withBuilders (n+1) 0 st) = true := by simpa [inLoop, withBuilders] using hin
    have h2 : inLoop (withBuilders 0 (n+1) st) = true := by simpa [inLoop, withBuilders] using hin
    have e1 : step .seqEnd (withBuilders (n+1) 0 st) = withBuilders n 0 st := by
      simp [step, h1]; simp [withBuilders]
    have e2 : step .strEnd (withBuilders 0 (n+1) st) = withBuilders 0 n st := by
      simp [step, h2]; simp [withBuilders]
    constructor
    · simp only [List.replicate_succ, run, List.foldl_cons, e1]
      have := (ih st hin).1; simpa only [run] using this
    · simp only [List.replicate_succ, run, List.foldl_cons, e2]
      have := (ih st hin).2; simpa only [run] using this

/-- **balanced builder brackets are invisible**: opening `n` sequence (string) builders and
finishing all of them restores the state exactly, at any nesting depth, in any running loop -/
theorem builders_roundtrip (n : Nat) (st : St) (hin : inLoop st = true) :
    run (List.replicate n .seqStart ++ List.replicate n .seqEnd) st = st ∧
    run (List.replicate n .strStart ++ List.replicate n .strEnd) st = st := by
  rw [run_append, run_append, (run_open_builders n st hin).1, (run_open_builders n st hin).2]
  exact run_close_builders n st hin

example : inLoop (run [runChunk, .newFrame 2, .seqStart] {}) = true := by decide

end KotoVerif.C07Ext
