/-
C18 — Modules: exports, imports and caching behave as documented.

Every theorem is about `Model/Modules.lean` and holds for EVERY file system `fs` (any module graph:
DAGs, diamonds, cycles, file and directory modules, failing modules), every setting `cfg`, every
history of host operations and every fuel (the fuel bounds the import nesting depth; statements are
of the form "whenever the run returns, …").

Ghost events in the model's output: `enter p` (run_import starts executing the module file `p`),
`done p` (import of `p` completed; observable through `module_imported_callback`), `failed p`.
-/
import KotoVerif.Lemmas.C18
import KotoVerif.Lemmas.C18Fuel

namespace KotoVerif.C18
open KotoVerif.Modules KotoVerif.C18L

/-! ## concrete data for the non-vacuity examples -/

def pA : Path := ⟨[], 1, false⟩      -- m1.koto
def pAdir : Path := ⟨[], 1, true⟩    -- m1/main.koto
def pB : Path := ⟨[], 2, false⟩      -- m2.koto
def pC : Path := ⟨[], 3, false⟩      -- m3.koto   (imports itself)
def pD : Path := ⟨[], 4, false⟩      -- m4.koto   (fails in @main after importing m2)
def pE : Path := ⟨[], 6, false⟩      -- m6.koto   (re-exports parts of m2 with an unpacking export)
def pF : Path := ⟨[], 7, false⟩      -- m7.koto   (exports set_flag = || export k60 = 1 and get_flag = || k60)

def itm (n : Name) (a : Option Name := none) : Item := { name := n, as_ := a }
def rf (n : Name) : Ref := { name := n }

/-- m1.koto and m1/main.koto both exist; m2 exports two values, reassigns one locally, has a test and
a main; m3 imports itself; m4 imports m2 and then fails in `@main` -/
def fsEx : FS := fun p =>
  if p = pA then some (.ok [.act (.print 1), .act (.export_ 60 5)])
  else if p = pAdir then some (.ok [.act (.print 2)])
  else if p = pB then some (.ok [.act (.print 3), .act (.export_ 60 7), .act (.assign 60 8), .act (.export_ 61 9),
      .defTest 70 4 [], .defMain 5 []])
  else if p = pC then some (.ok [.act (.print 6), .act (.importMods [itm 3])])
  else if p = pD then some (.ok [.act (.print 7), .act (.importMods [itm 2]), .defMain 8 [.fail 9]])
  else if p = pE then some (.ok [.act (.print 10), .act (.importMods [itm 2]),
      -- `export k63, {k60, k61 as k62}, _ = 1, m2, 5`
      .act (.assignPat true [.id 63, .mapPat [⟨60, some 60⟩, ⟨61, some 62⟩], .ignored] [.lit 1, .ref 2, .lit 5])])
  else if p = pF then some (.ok [.exportFn 70 11 [.export_ 60 1], .exportFn 71 12 [.show 13 60]])
  else none

def cfgEx : Cfg := { runImportTests := true, hostTests := false }

def opImport (m : Name) : Op := { dir := [], exportTop := false, body := [.act (.importMods [itm m])] }
def opTry (m : Name) (mk : Nat) : Op := { dir := [], exportTop := false, body := [.act (.tryImport { name := m, str := true } mk)] }

def outOf (ops : List Op) : Option (List Event) := (finalSt cfgEx fsEx 5 ops init).map (·.out)

/-! ## resolution_order — `name.koto` before `name/main.koto`, relative to the importing file -/

theorem normSegs_map_some (dir acc : List Name) : normSegs (dir.map some) acc = acc.reverse ++ dir := by
  induction dir generalizing acc with
  | nil => simp [normSegs]
  | cons d rest ih => simp [normSegs, ih]

theorem norm_canonical (dir : List Name) (n : Name) (b : Bool) :
    (⟨dir.map some, n, b⟩ : Path).norm = ⟨dir.map some, n, b⟩ := by
  simp [Path.norm, normSegs_map_some]

theorem norm_idem (p : Path) : p.norm.norm = p.norm := by
  simp [Path.norm, normSegs_map_some]

/-- `find_module` as it is: in the importing file's directory extended by the path segments of the
import string, `name.koto` is tried before `name/main.koto` (the file system is asked at the normalised
path); what is returned is the cache key — normalised only in the `main.koto` branch unless
`cfg.canonFile` — and the file name keeps only `cfg.stem name` of the module name -/
theorem resolution_order_general (cfg : Cfg) (fs : FS) (dir : List Name) (r : Ref) :
    let f : Path := ⟨dir.map some ++ r.segs, cfg.stem r.name, false⟩
    let d : Path := ⟨dir.map some ++ r.segs, r.name, true⟩
    (fs f.norm ≠ none → findModule cfg fs dir r = some (if cfg.canonFile then f.norm else f)) ∧
    (fs f.norm = none → fs d.norm ≠ none → findModule cfg fs dir r = some d.norm) ∧
    (fs f.norm = none → fs d.norm = none → findModule cfg fs dir r = none) := by
  intro f d
  refine ⟨?_, ?_, ?_⟩
  · intro h
    have : (fs f.norm).isSome = true := by
      cases hh : fs f.norm with
      | none => exact absurd hh h
      | some _ => rfl
    simp only [findModule]
    rw [if_pos this]
  · intro h1 h2
    have : (fs d.norm).isSome = true := by
      cases hh : fs d.norm with
      | none => exact absurd hh h2
      | some _ => rfl
    simp only [findModule]
    rw [if_neg (by rw [h1]; simp), if_pos this]
  · intro h1 h2
    simp only [findModule]
    rw [if_neg (by rw [h1]; simp), if_neg (by rw [h2]; simp)]

/-- the documented rule, for a plain module name (an id or a string without path segments and without
a dotted suffix): `name.koto` before `name/main.koto` in the importing file's directory -/
theorem resolution_order (cfg : Cfg) (fs : FS) (dir : List Name) (r : Ref) (hplain : r.segs = [])
    (hstem : cfg.stem r.name = r.name) :
    let f : Path := ⟨dir.map some, r.name, false⟩
    let d : Path := ⟨dir.map some, r.name, true⟩
    (fs f ≠ none → findModule cfg fs dir r = some f) ∧
    (fs f = none → fs d ≠ none → findModule cfg fs dir r = some d) ∧
    (fs f = none → fs d = none → findModule cfg fs dir r = none) := by
  have h := resolution_order_general cfg fs dir r
  simp only [hplain, List.append_nil, hstem, norm_canonical] at h
  intro f d
  refine ⟨fun hf => ?_, h.2.1, h.2.2⟩
  rw [h.1 hf]
  split <;> rfl

-- both exist: the file wins
example : findModule cfgEx fsEx [] (rf 1) = some pA := by decide

/-- with the repaired `find_module` (`cfg.canonFile`) every cache key is a normalised path, so one
file has one key and `run_once` counts per file -/
theorem canonical_keys (cfg : Cfg) (fs : FS) (dir : List Name) (r : Ref) (p : Path)
    (hc : cfg.canonFile = true) (h : findModule cfg fs dir r = some p) : p.norm = p := by
  simp only [findModule, hc, if_true] at h
  split at h
  · simp only [Option.some.injEq] at h; rw [← h]; exact norm_idem _
  · split at h
    · simp only [Option.some.injEq] at h; rw [← h]; exact norm_idem _
    · cases h

/-- Negation witness (finding F-C18-3): as it is, `find_module` does not normalise the `name.koto`
branch, so the same file reached under two spellings (`m1` from the root, `'../m1'` from the folder
`m5/`) has two cache keys and its top level runs twice in one runtime; with `canonFile` it runs once -/
theorem file_runs_twice_under_two_spellings_witness :
    let ops : List Op :=
      [{ dir := [], exportTop := false, body := [.act (.importMods [itm 1])] },
       { dir := [5], exportTop := false,
         body := [.act (.importMods [{ name := 1, str := true, segs := [none], as_ := some 60 }])] }]
    (finalSt cfgEx fsEx 5 ops init).map (fun s => s.out.count (.print 1)) = some 2
    ∧ (finalSt { cfgEx with canonFile := true } fsEx 5 ops init).map (fun s => s.out.count (.print 1)) = some 1 := by
  decide

/-- Negation witness (finding F-C18-4): `with_extension` drops a dotted suffix of the module name, so
with name 200 spelled `m1.v2` (`stem 200 = 1`) the import of `'m1.v2'` loads `m1.koto` although
`m1.v2.koto` exists; with the repair (`stem = id`) it loads `m1.v2.koto` -/
theorem resolution_dotted_witness :
    let fs : FS := fun p => if p = ⟨[], 200, false⟩ ∨ p = ⟨[], 1, false⟩ then some (.ok []) else none
    findModule { cfgEx with stem := fun n => if n = 200 then 1 else n } fs [] { name := 200, str := true }
      = some ⟨[], 1, false⟩
    ∧ findModule cfgEx fs [] { name := 200, str := true } = some ⟨[], 200, false⟩ := by
  decide

/-- an import statement is resolved in the directory of the frame that executes it, and the imported
module's own statements run in a frame whose directory is the folder of the module file -/
theorem resolution_relative (cfg : Cfg) (fs : FS) (fuel : Nat) (p : Path) (s : St) :
    loadModule fs (runUnit cfg fs (fuel + 1)) p s =
      (match runBody cfg fs (runUnit cfg fs fuel) cfg.runImportTests { dir := p.folder, self := some p } (bodyOf fs p)
          (emit (.enter p) { s with cache := upd s.cache p (some .inProgress), exports := {} }) with
       | none => none
       | some (none, st3) =>
         some (.ok (.mref p),
           emit (.done p) { st3 with cache := upd st3.cache p (some (.done st3.exports)), exports := s.exports })
       | some (some e, st3) =>
         some (.error e, emit (.failed p) { st3 with cache := upd st3.cache p none, exports := s.exports })) := rfl

example : (⟨[some 7], 1, true⟩ : Path).folder = [7, 1] ∧ (⟨[some 7, some 3, none], 1, false⟩ : Path).folder = [7] := by decide

/-! ## cycle_error — reaching a module that is in progress is an error and changes nothing -/

theorem cycle_error {cfg : Cfg} {fs : FS} {rec : Runner} {fr : Frame} {name : Ref} {s s1 : St}
    {p : Path} {b : Bool}
    (hnl : importHit cfg fr s name = none) (hfm : findModule cfg fs fr.dir name = some p)
    (hcm : compileModule fs p s = some (b, s1)) (hprog : s.cache p = some .inProgress) :
    runImport cfg fs rec fr name s = some (.error .recursive, s1)
      ∧ s1.cache = s.cache ∧ s1.exports = s.exports ∧ s1.out = s.out := by
  obtain ⟨hc, he, ho, _⟩ := compileModule_spec hcm
  refine ⟨?_, hc, he, ho⟩
  have : s1.cache p = some .inProgress := by rw [hc]; exact hprog
  simp [runImport, hnl, hfm, hcm, this]

/-- in a reachable runtime the chunk of a module in progress is in the loader cache, so the failing
import leaves the whole runtime state untouched -/
theorem cycle_error_state_unchanged {cfg : Cfg} {fs : FS} {rec : Runner} {fr : Frame} {name : Ref}
    {s : St} {p : Path}
    (hnl : importHit cfg fr s name = none) (hfm : findModule cfg fs fr.dir name = some p)
    (hl : s.loader p = true) (hprog : s.cache p = some .inProgress) :
    runImport cfg fs rec fr name s = some (.error .recursive, s) := by
  have hcm : compileModule fs p s = some (true, s) := by simp [compileModule, hl]
  exact (cycle_error hnl hfm hcm hprog).1

-- m3 imports itself: the operation fails with the recursive-import error, m3 is not cached afterwards
example : (hostRun cfgEx fsEx 5 (opImport 3) init).map (fun r => (r.1, r.2.out, (r.2.cache pC).isNone))
    = some (some .recursive, [.enter pC, .print 6, .failed pC], true) := by decide

/-! ## failure_rollback -/

/-- a failed import of `p` removes `p`'s placeholder and gives the importer its exports map back -/
theorem failure_rollback {fs : FS} {rec : Runner} {p : Path} {s s' : St} {e : Err}
    (h : loadModule fs rec p s = some (.error e, s')) :
    s'.cache p = none ∧ s'.exports = s.exports := by
  unfold loadModule at h
  dsimp only at h
  split at h
  · cases h
  · simp at h
  · simp only [Option.some.injEq, Prod.mk.injEq] at h
    rw [← h.2]
    exact ⟨by simp [emit, upd], rfl⟩

/-- the importer's exports map is restored by every import, successful or not -/
theorem import_restores_exports {cfg : Cfg} {fs : FS} {rec : Runner} {fr : Frame} {name : Ref}
    {s s' : St} {r : Except Err V} (h : runImport cfg fs rec fr name s = some (r, s')) :
    s'.exports = s.exports := runImport_exports h

/-- after the failure the module is importable again: the next import of the same name executes the
module file afresh (it is neither reported as recursive nor served from the cache) -/
theorem reimport_after_failure {cfg : Cfg} {fs : FS} {rec : Runner} {fr : Frame} {name : Ref}
    {s' : St} {p : Path}
    (hnl : importHit cfg fr s' name = none) (hfm : findModule cfg fs fr.dir name = some p)
    (hl : s'.loader p = true) (hnone : s'.cache p = none) :
    runImport cfg fs rec fr name s' = loadModule fs rec p s' := by
  have hcm : compileModule fs p s' = some (true, s') := by simp [compileModule, hl]
  simp [runImport, hnl, hfm, hcm, hnone]

/-- no placeholder survives an operation: whatever a host operation does (fail, succeed, fail deep
inside nested imports), a path without cache entry before it is afterwards either still without
entry or completely imported -/
theorem no_placeholder_left {cfg : Cfg} {fs : FS} {fuel : Nat} {op : Op} {s s' : St} {r : Option Err}
    (hinv : Inv s) (h : hostRun cfg fs fuel op s = some (r, s')) (p : Path)
    (hp : s.cache p ≠ some .inProgress) : s'.cache p ≠ some .inProgress := by
  obtain ⟨_, rel⟩ := sound_hostRun h hinv
  cases hc : s.cache p with
  | none => exact rel.clean p hc
  | some en =>
    cases en with
    | inProgress => exact absurd hc hp
    | done e => rw [rel.done p e hc]; simp

-- m4 imports m2 (fine) and fails in @main: m4 leaves no entry, m2 stays imported, the host's exports
-- are what they were, and importing m4 again runs it again (and fails again)
example : (finalSt cfgEx fsEx 5 [opTry 4 20, opTry 4 21] init).map
      (fun s => ((s.cache pD).isNone, doneB s.cache pB, s.exports.data.length, s.out.count (.enter pD), s.out.count (.enter pB)))
    = some (true, true, 0, 2, 1) := by decide +kernel

/-! ## run_once -/

/-- every reachable runtime satisfies the invariant -/
theorem reachable_inv {cfg : Cfg} {fs : FS} {fuel : Nat} {ops : List Op} {st : St}
    (h : finalSt cfg fs fuel ops init = some st) : Inv st :=
  (sound_finalSt ops h inv_init).1

/-- In any history, for every module file `p`: no placeholder is left between operations; the
completion of `p` is reported exactly once if `p` is cached and never otherwise; and the top level of
`p` started exactly as often as an import of `p` completed or failed — i.e. once per failed attempt
plus once for the (single) successful import. -/
theorem run_once {cfg : Cfg} {fs : FS} {fuel : Nat} {ops : List Op} {st : St}
    (h : finalSt cfg fs fuel ops init = some st) (p : Path) :
    st.cache p ≠ some .inProgress
    ∧ st.out.count (.done p) = (if doneB st.cache p then 1 else 0)
    ∧ st.out.count (.enter p) = st.out.count (.done p) + st.out.count (.failed p) := by
  obtain ⟨inv, rel⟩ := sound_finalSt ops h inv_init
  have hclean : st.cache p ≠ some .inProgress := rel.clean p rfl
  refine ⟨hclean, inv.cntDone p, ?_⟩
  have := inv.cntEnter p
  have hin : inProgB st.cache p = false := by
    unfold inProgB
    split
    · rename_i hh; exact absurd hh hclean
    · rfl
  rw [hin] at this
  simpa using this

/-- once a module is imported, no later operation executes it again, and its cached exports map stays
what it was, however many modules import it -/
theorem done_stable {cfg : Cfg} {fs : FS} {fuel : Nat} {op : Op} {s s' : St} {r : Option Err}
    (hinv : Inv s) (h : hostRun cfg fs fuel op s = some (r, s')) (p : Path) (e : Exports)
    (hd : s.cache p = some (.done e)) :
    s'.cache p = some (.done e) ∧ ∃ t, s'.out = s.out ++ t ∧ Event.enter p ∉ t := by
  obtain ⟨_, rel⟩ := sound_hostRun h hinv
  obtain ⟨t, ht, hn⟩ := rel.out
  exact ⟨rel.done p e hd, t, ht, hn p (doneB_of_eq hd)⟩

/-- however many modules import it: importing a module that is already imported (from any frame,
at any depth) returns the one cached exports map and changes nothing at all — no statement of the
module runs -/
theorem cached_import {cfg : Cfg} {fs : FS} {rec : Runner} {fr : Frame} {name : Ref} {s : St}
    {p : Path} {e : Exports} (hinv : Inv s)
    (hnl : importHit cfg fr s name = none) (hfm : findModule cfg fs fr.dir name = some p)
    (hd : s.cache p = some (.done e)) :
    runImport cfg fs rec fr name s = some (.ok (.mref p), s) := by
  have hl : s.loader p = true := hinv.loaded p e hd
  have hcm : compileModule fs p s = some (true, s) := by simp [compileModule, hl]
  simp [runImport, hnl, hfm, hcm, hd]

/-- the same for an import statement executed anywhere (nested in other imports, in `@main`, …) -/
theorem done_stable_import {cfg : Cfg} {fs : FS} {fuel : Nat} {fr : Frame} {name : Ref} {s s' : St}
    {r : Except Err V} (hinv : Inv s)
    (h : runImport cfg fs (runUnit cfg fs fuel) fr name s = some (r, s')) (p : Path) (e : Exports)
    (hd : s.cache p = some (.done e)) :
    s'.cache p = some (.done e) ∧ ∃ t, s'.out = s.out ++ t ∧ Event.enter p ∉ t := by
  obtain ⟨_, rel⟩ := sound_runImport (recSound_runUnit cfg fs fuel) h hinv
  obtain ⟨t, ht, hn⟩ := rel.out
  exact ⟨rel.done p e hd, t, ht, hn p (doneB_of_eq hd)⟩

/-- order inside one execution of a module (or host script): all of the top level, then all tests
(only when enabled), then `@main`; each phase only appends to the output -/
theorem phase_order {cfg : Cfg} {fs : FS} {rec : Runner} {tests : Bool} {fr : Frame} {body : List TAct}
    {s s' : St} (h : runBody cfg fs rec tests fr body s = some (none, s')) :
    ∃ fr1 s1 s2,
      execTActs cfg fs rec body fr s = some (none, fr1, s1)
      ∧ (if tests then runTests cfg fs rec s1.exports.tests s1 else some (none, s1)) = some (none, s2)
      ∧ runMain cfg fs rec s2 = some (none, s') := by
  unfold runBody at h
  split at h
  · cases h
  · simp at h
  · rename_i fr1 s1 ha
    refine ⟨fr1, s1, ?_⟩
    unfold afterTop at h
    split at h
    · cases h
    · simp at h
    · rename_i s2 ht
      exact ⟨s2, ha, ht, h⟩

/-- `@main` (when defined) starts by printing its marker after everything printed before -/
theorem main_runs_last {cfg : Cfg} {fs : FS} {fuel : Nat} {s s' : St} {c : Closure} {r : Option Err}
    (hinv : Inv s) (hm : s.exports.main = some c) (hmk : c.marker ≠ 0)
    (h : runMain cfg fs (runUnit cfg fs fuel) s = some (r, s')) :
    ∃ t, s'.out = s.out ++ Event.print c.marker :: t := by
  unfold runMain at h
  rw [hm] at h
  dsimp only at h
  unfold runFn at h
  split at h
  · cases h
  · rename_i r1 fr1 s1 ha
    simp only [Option.some.injEq, Prod.mk.injEq] at h
    rw [← h.2]
    simp only [closureBody, hmk, if_false] at ha
    unfold execActs at ha
    simp only [execAct] at ha
    have inv1 : Inv (emit (Event.print c.marker) s) := (sound_emit_obs _ rfl s hinv).1
    obtain ⟨_, rel⟩ := sound_execActs (recSound_runUnit cfg fs fuel) _ ha inv1
    obtain ⟨t, ht, _⟩ := rel.out
    exact ⟨t, by rw [ht]; simp [emit]⟩

-- m2 imported three times in one history (twice by the host, once through m4): top level, test, main
-- ran once, in this order
example : outOf [opImport 2, opTry 4 20, opImport 2]
    = some [.enter pB, .print 3, .print 4, .print 5, .done pB,
            .enter pD, .print 7, .print 8, .failed pD, .caught 20 .thrown] := by decide

/-! ## export_visible -/

/-- `export k = v` makes `k` visible to later code of the module: as the local, and — for code that has
no local `k`, e.g. functions defined earlier — through the exports map -/
theorem export_visible_module {cfg : Cfg} {fs : FS} {rec : Runner} (k : Name) (v : Int) (fr : Frame) (s : St) :
    ∃ fr' s', execAct cfg fs rec (.export_ k v) fr s = some (none, fr', s')
      ∧ readId cfg fr' s' k = some (.int v)
      ∧ lookup k s'.exports.data = some (.int v)
      ∧ ∀ fr2 : Frame, fr2.wild = [] → fr2.home = none → nonLocal cfg fr2 s' k = some (.int v) := by
  refine ⟨bind k (.int v) fr, setData k (.int v) s, rfl, ?_, ?_, ?_⟩
  · simp [readId, Modules.bind, lookup_insert_self]
  · simp [setData, lookup_insert_self]
  · intro fr2 hw hh
    simp [nonLocal, modExports, hh, hw, wildGet, setData, lookup_insert_self]

/-- with the repaired lookup order (`cfg.exportsFirst`) the export is visible to every later non-local
read of the module, whatever its wildcard imports provide -/
theorem export_visible_module_fixed {cfg : Cfg} {fs : FS} {rec : Runner} (k : Name) (v : Int) (fr : Frame)
    (s : St) (hc : cfg.exportsFirst = true) :
    ∃ fr' s', execAct cfg fs rec (.export_ k v) fr s = some (none, fr', s')
      ∧ ∀ fr2 : Frame, fr2.home = none → nonLocal cfg fr2 s' k = some (.int v) := by
  refine ⟨Modules.bind k (.int v) fr, setData k (.int v) s, rfl, ?_⟩
  intro fr2 hh
  simp [nonLocal, hc, modExports, hh, setData, lookup_insert_self]

/-- Negation witness (finding F-C18-7): as it is, a wildcard import shadows the module's own export for
non-local reads. m1 exports k60 = 5; the script does `from m1 import *`, defines a test that reads k60,
then `export k60 = 100`: the test (run after the script) still sees 5; with `exportsFirst` it sees 100 -/
theorem export_shadowed_by_wildcard_witness :
    let op : Op := { dir := [], exportTop := false, body :=
      [.act (.fromAll (rf 1)), .defTest 70 40 [.show 41 60], .act (.export_ 60 100)] }
    (hostRun { cfgEx with hostTests := true } fsEx 5 op init).map (fun r => r.2.out.filter Event.obs)
      = some [.print 1, .print 40, .show 41 (.int 5)]
    ∧ (hostRun { cfgEx with hostTests := true, exportsFirst := true } fsEx 5 op init).map
        (fun r => r.2.out.filter Event.obs)
      = some [.print 1, .print 40, .show 41 (.int 100)] := by decide +kernel

/-- an `export` executed inside a callback of a core function or inside a generator body reaches the
exports map of the running module: after the callback saw the elements 1 … last, `exports[k] = last` -/
theorem callback_export_lands {cfg : Cfg} {fs : FS} {rec : Runner} (last : Nat) (k : Name) (fr : Frame) (s : St)
    (hl : last ≠ 0) :
    ∃ s', execAct cfg fs rec (.cbExport last k) fr s = some (none, fr, s')
      ∧ lookup k s'.exports.data = some (.int last) := by
  refine ⟨setData k (.int last) s, by simp [execAct, hl], ?_⟩
  simp [setData, lookup_insert_self]

/-- … and it stays visible: later statements that do not export `k` again keep the entry (nested
imports included, which swap the exports map and put it back) -/
theorem export_visible_later {cfg : Cfg} {fs : FS} {rec : Runner} (k : Name) (acts : List TAct)
    {fr fr' : Frame} {s s' : St} {r : Option Err}
    (h : execTActs cfg fs rec acts fr s = some (r, fr', s'))
    (hk : ∀ a ∈ acts, touchesT cfg.exportAlias cfg.exportStrAlias fr.exportTop k a = false) :
    lookup k s'.exports.data = lookup k s.exports.data :=
  (execTActs_keeps k acts h hk).1

/-- to importing modules: a successful import yields a reference to the module whose entries are
exactly the exports map the module had when its `@main` returned -/
theorem export_visible_importer {fs : FS} {rec : Runner} {p : Path} {s s' : St} {v : V}
    (h : loadModule fs rec p s = some (.ok v, s')) :
    v = .mref p ∧ ∃ s3, rec (some p) p.folder (bodyOf fs p)
        (emit (.enter p) { s with cache := upd s.cache p (some .inProgress), exports := {} }) = some (none, s3)
      ∧ resolve s'.cache (.mref p) = some s3.exports.data := by
  unfold loadModule at h
  dsimp only at h
  split at h
  · cases h
  · rename_i s3 hr
    simp only [Option.some.injEq, Prod.mk.injEq, Except.ok.injEq] at h
    refine ⟨h.1.symm, s3, hr, ?_⟩
    rw [← h.2]
    simp [resolve, emit, upd]
  · simp at h

-- the host sees m2's exports through `import m2` / `export x = m2`; k60 is the exported 7, not the
-- reassigned 8
example : (finalSt cfgEx fsEx 5
      [{ dir := [], exportTop := false, body := [.act (.importMods [itm 2]), .act (.exportId 62 2)] }] init).map
      (fun s => (s.exports.data, resolve s.cache (.mref pB)))
    = some ([(62, .mref pB)], some [(60, .int 7), (61, .int 9)]) := by decide

/-- exports ⊇ bound ids of every exported assignment: after `export t1, t2, … = …` (or any top-level
(multi-)assignment under export_top_level_ids) EVERY id bound by the targets — plain ids and the ids
bound inside map patterns, with or without `as` — is in the exports map, holding the value it was
bound to as a local -/
theorem export_pattern_visible {cfg : Cfg} {fs : FS} {rec : Runner} (exp : Bool) (targets : List Target)
    (rhs : List Rhs) {fr fr' : Frame} {s s' : St} (hexp : (exp || fr.exportTop) = true)
    (h : execAct cfg fs rec (.assignPat exp targets rhs) fr s = some (none, fr', s')) :
    ∀ k ∈ boundIds targets, ∃ v, lookup k fr'.locals = some v ∧ lookup k s'.exports.data = some v := by
  intro k hk
  simp only [execAct] at h
  split at h
  · simp at h
  · simp only [Option.some.injEq] at h
    rw [hexp] at h
    exact bindTargets_agree k targets h (Or.inl hk)

/-- … and, as for single exports, the entries stay until a later statement writes them
(`export_visible_later` with `touches` extended to patterns), so importers and the host see them -/
example : touches false false false 62 (.assignPat true [.id 63, .mapPat [⟨60, some 60⟩, ⟨61, some 62⟩]] []) = true
    ∧ touches false false false 61 (.assignPat true [.id 63, .mapPat [⟨60, some 60⟩, ⟨61, some 62⟩]] []) = false := by
  decide

-- m6 does `export k63, {k60, k61 as k62}, _ = 1, m2, 5`: an importer sees all three bound ids
example : (finalSt cfgEx fsEx 7 [opImport 6] init).map (fun s => resolve s.cache (.mref pE))
    = some (some [(63, .int 1), (60, .int 7), (62, .int 9)]) := by decide

/-- inside an exported function that is called after its module completed, non-local reads consult the
DEFINING module's exports map (wildcard imports of the function's frame first) -/
theorem function_reads_home_exports (cfg : Cfg) (fr : Frame) (st : St) (p : Path) (e : Exports) (k : Name)
    (hh : fr.home = some p) (hd : st.cache p = some (.done e)) (hw : fr.wild = []) :
    nonLocal cfg fr st k = ((lookup k e.data).orElse fun _ => cfg.prelude k) := by
  simp [nonLocal, modExports, hh, hd, hw, wildGet]

/-- Negation witness (finding F-C18-6): `export` inside a function writes to the VM's ACTIVE exports
map — the caller's — not to the exports map of the module that defines the function. m7 exports
`k70 = || export k60 = 1` and `k71 = || k60`; after the host calls `m7.k70()` the entry `k60` is in the
HOST's exports and not in m7's, so m7's own later code (`m7.k71()`) does not see it:
"'k60' not found". -/
theorem function_export_goes_to_caller_witness :
    (hostRun cfgEx fsEx 5 { dir := [], exportTop := false, body :=
        [.act (.importMods [itm 7]), .callMember 7 70, .callMember 7 71] } init).map
      (fun r => (r.1, lookup 60 r.2.exports.data, (resolve r.2.cache (.mref pF)).map (fun d => lookup 60 d)))
    = some (some .idNotFound, some (.int 1), some none) := by decide +kernel

/-! ## reassign_keeps_export -/

/-- a plain assignment (without export_top_level_ids) changes nothing but the local -/
theorem reassign_keeps_export {cfg : Cfg} {fs : FS} {rec : Runner} (k : Name) (v : Int) (fr : Frame)
    (s : St) (het : fr.exportTop = false) :
    execAct cfg fs rec (.assign k v) fr s = some (none, bind k (.int v) fr, s) := by
  simp [execAct, exportIf, het]

/-- … so after `export k = v`, any number of plain reassignments (and other statements that do not
export `k`) leave the exported value `v` in place -/
theorem reassign_keeps_export_seq {cfg : Cfg} {fs : FS} {rec : Runner} (k : Name) (v : Int)
    (post : List TAct) {fr fr1 fr' : Frame} {s s1 s' : St} {r : Option Err}
    (het : fr.exportTop = false)
    (h1 : execAct cfg fs rec (.export_ k v) fr s = some (none, fr1, s1))
    (h2 : execTActs cfg fs rec post fr1 s1 = some (r, fr', s'))
    (hpost : ∀ a ∈ post, touchesT cfg.exportAlias cfg.exportStrAlias false k a = false) :
    lookup k s'.exports.data = some (.int v) := by
  simp only [execAct, Option.some.injEq, Prod.mk.injEq, true_and] at h1
  have hfr1 : fr1.exportTop = false := by rw [← h1.1]; exact het
  rw [(execTActs_keeps k post h2 (by rw [hfr1]; exact hpost)).1, ← h1.2]
  simp [setData, lookup_insert_self]

example : touchesT false false false 60 (.act (.assign 60 8)) = false := by decide

/-! ## import_forms_bind -/

/-- `import m as n` / `import m` / `import 'm' as n`: the local named by the alias (or the module name)
holds the imported value (a string item without `as` binds nothing: `Item.binds`) -/
theorem import_binds {cfg : Cfg} {fs : FS} {rec : Runner} (it : Item) {fr fr' : Frame} {s s' : St}
    (hb : it.binds = true)
    (h : execAct cfg fs rec (.importMods [it]) fr s = some (none, fr', s')) :
    ∃ v s1, importRoot cfg fs rec fr it.toRef s = some (.ok v, s1)
      ∧ lookup it.target fr'.locals = some v := by
  simp only [execAct, importItems] at h
  split at h
  · cases h
  · simp at h
  · rename_i v s1 hir
    simp only [Option.some.injEq, Prod.mk.injEq, true_and] at h
    refine ⟨v, s1, hir, ?_⟩
    rw [← h.1]
    simp [bindItem, hb, Modules.bind, lookup_insert_self]

theorem exportItem_cache (b al sa : Bool) (it : Item) (v : V) (s : St) :
    (exportItem b al sa it v s).cache = s.cache := by
  unfold exportItem; split
  · unfold exportIf; split <;> rfl
  · rfl

theorem fromItems_cache (al sa : Bool) (mv : V) (items : List Item) : ∀ {fr fr' : Frame} {s s' : St} {r : Option Err},
    fromItems al sa mv items fr s = (r, fr', s') → s'.cache = s.cache := by
  induction items with
  | nil => intro fr fr' s s' r h; simp only [fromItems, Prod.mk.injEq] at h; rw [← h.2.2]
  | cons it rest ih =>
    intro fr fr' s s' r h
    unfold fromItems at h
    split at h
    · simp only [Prod.mk.injEq] at h; rw [← h.2.2]
    · rw [ih h, exportItem_cache]

theorem fromItems_locals_other (al sa : Bool) (mv : V) (n : Name) (items : List Item) :
    ∀ {fr fr' : Frame} {s s' : St} {r : Option Err},
    fromItems al sa mv items fr s = (r, fr', s') → (∀ it ∈ items, it.target ≠ n) →
    lookup n fr'.locals = lookup n fr.locals := by
  induction items with
  | nil => intro fr fr' s s' r h _; simp only [fromItems, Prod.mk.injEq] at h; rw [← h.2.1]
  | cons it rest ih =>
    intro fr fr' s s' r h hn
    unfold fromItems at h
    split at h
    · simp only [Prod.mk.injEq] at h; rw [← h.2.1]
    · rw [ih h (fun i hi => hn i (by simp [hi]))]
      unfold bindItem
      split
      · simp only [Modules.bind]
        exact lookup_insert_ne _ _ _ _ (fun hh => hn it (by simp) hh.symm)
      · rfl

/-- `from m import a, b as c, 'd' as e, …`: every item is looked up in the module value and bound to
its alias (or its own name); with pairwise distinct targets each local holds its item -/
theorem from_import_binds (al sa : Bool) (mv : V) (items : List Item) :
    ∀ {fr fr' : Frame} {s s' : St},
    fromItems al sa mv items fr s = (none, fr', s') → (items.map Item.target).Nodup →
    ∀ it ∈ items, ∃ v, access s.cache mv it.name = .ok v ∧
      (it.binds = true → lookup it.target fr'.locals = some v) := by
  induction items with
  | nil => intro fr fr' s s' _ _ it hit; cases hit
  | cons it0 rest ih =>
    intro fr fr' s s' h hnd it hit
    simp only [List.map_cons, List.nodup_cons] at hnd
    unfold fromItems at h
    split at h
    · simp at h
    · rename_i v hacc
      rcases List.mem_cons.mp hit with hh | hh
      · subst hh
        refine ⟨v, hacc, fun hb => ?_⟩
        rw [fromItems_locals_other al sa mv it.target rest h
          (fun i hi heq => hnd.1 (by rw [← heq]; exact List.mem_map_of_mem hi))]
        simp [bindItem, hb, Modules.bind, lookup_insert_self]
      · obtain ⟨v', h1, h2⟩ := ih h hnd.2 it hh
        exact ⟨v', by rw [← exportItem_cache fr.exportTop al sa it0 v s]; exact h1, h2⟩

/-- `from m import *`: the module's entries become visible as non-locals of the frame, the most
recently added wildcard import first -/
theorem wildcard_binds (cache : Path → Option Entry) (k : Name) (w : List V) (mv : V)
    (es : List (Name × V)) (v : V) (hr : resolve cache mv = some es) (hk : lookup k es = some v) :
    wildGet cache k (w ++ [mv]) = some v := by
  simp [wildGet, hr, hk]

/-- the statement itself: after a successful `from m import *` the imported value is among the frame's
wildcard imports (added at the end unless the same map is already there) -/
theorem wildcard_import_adds {cfg : Cfg} {fs : FS} {rec : Runner} (m : Ref) {fr fr' : Frame} {s s' : St}
    (h : execAct cfg fs rec (.fromAll m) fr s = some (none, fr', s')) :
    ∃ mv, mv ∈ fr'.wild ∧ (mv ∉ fr.wild → fr'.wild = fr.wild ++ [mv])
      ∧ ∀ w ∈ fr'.wild, w ∈ fr.wild ∨ w = mv := by
  have hw : ∀ mv : V, mv ∈ (addWild cfg.wildRefresh mv fr).wild
      ∧ (mv ∉ fr.wild → (addWild cfg.wildRefresh mv fr).wild = fr.wild ++ [mv])
      ∧ ∀ w ∈ (addWild cfg.wildRefresh mv fr).wild, w ∈ fr.wild ∨ w = mv := by
    intro mv
    unfold addWild
    by_cases hc : fr.wild.contains mv = true
    · have hmem : mv ∈ fr.wild := by simpa using hc
      simp only [hc, if_true]
      split
      · refine ⟨by simp, fun hn => absurd hmem hn, ?_⟩
        intro w hw
        simp only [List.mem_append, List.mem_singleton] at hw
        rcases hw with hw | hw
        · exact Or.inl (List.mem_of_mem_erase hw)
        · exact Or.inr hw
      · exact ⟨hmem, fun hn => absurd hmem hn, fun w hw => Or.inl hw⟩
    · simp only [hc]
      refine ⟨by simp, fun _ => rfl, ?_⟩
      intro w hw
      simp only [Bool.false_eq_true, if_false, List.mem_append, List.mem_singleton] at hw
      exact hw
  simp only [execAct] at h
  split at h
  · cases h
  · simp at h
  · split at h
    · simp at h
    · simp only [Option.some.injEq, Prod.mk.injEq, true_and] at h
      rw [← h.1]; exact ⟨_, hw _⟩
    · simp only [Option.some.injEq, Prod.mk.injEq, true_and] at h
      rw [← h.1]; exact ⟨_, hw _⟩

/-- a wildcard import over a nested from-path `from a.b import *` wildcard-imports the value reached at
the END of the path and nothing else: the frame's wildcard list grows by at most that one value — the
root `a` (and any intermediate level) is not added -/
theorem nested_wildcard_only_leaf {cfg : Cfg} {fs : FS} {rec : Runner} (m : Ref) {fr fr' : Frame} {s s' : St}
    (hsub : m.sub ≠ [])
    (h : execAct cfg fs rec (.fromAll m) fr s = some (none, fr', s')) :
    ∃ root s1 leaf, rootValue cfg fs rec fr m s = some (.ok root, s1)
      ∧ accessPath s1.cache root m.sub = .ok leaf
      ∧ ∀ w ∈ fr'.wild, w ∈ fr.wild ∨ w = leaf := by
  have hne : m.sub.isEmpty = false := by cases hm : m.sub with
    | nil => exact absurd hm hsub
    | cons _ _ => rfl
  simp only [execAct, wildRoot, hne, Bool.false_eq_true, if_false, importRoot] at h
  cases hr : rootValue cfg fs rec fr m s with
  | none => rw [hr] at h; simp at h
  | some res =>
    obtain ⟨r1, s1⟩ := res
    rw [hr] at h
    cases r1 with
    | error e => simp at h
    | ok root =>
      dsimp only at h
      cases ha : accessPath s1.cache root m.sub with
      | error e => rw [ha] at h; simp at h
      | ok leaf =>
        rw [ha] at h
        dsimp only at h
        refine ⟨root, s1, leaf, rfl, ha, ?_⟩
        cases hv : importValue leaf with
        | error e => rw [hv] at h; simp at h
        | ok mv =>
          have hmv : mv = leaf := by
            cases leaf <;> simp [importValue] at hv <;> exact hv.symm
          rw [hv] at h
          dsimp only at h
          have hsubset : ∀ w ∈ (addWild cfg.wildRefresh mv fr).wild, w ∈ fr.wild ∨ w = mv := by
            intro w hw
            unfold addWild at hw
            by_cases hc : fr.wild.contains mv = true
            · simp only [hc, if_true] at hw
              split at hw
              · simp only [List.mem_append, List.mem_singleton] at hw
                rcases hw with hw | hw
                · exact Or.inl (List.mem_of_mem_erase hw)
                · exact Or.inr hw
              · exact Or.inl hw
            · simp only [hc, Bool.false_eq_true, if_false, List.mem_append, List.mem_singleton] at hw
              exact hw
          rw [← hmv]
          split at h
          · simp at h
          · simp only [Option.some.injEq, Prod.mk.injEq, true_and] at h
            rw [← h.1]; exact hsubset
          · simp only [Option.some.injEq, Prod.mk.injEq, true_and] at h
            rw [← h.1]; exact hsubset

-- `from m2 import k60 as k62, k61` then `from m1 import *`: k62 = 7, k61 = 9, and k60 resolves
-- through the wildcard import of m1 (5)
example : (hostRun cfgEx fsEx 5 { dir := [], exportTop := false, body :=
      [.act (.fromImport (rf 2) [itm 60 (some 62), itm 61]), .act (.fromAll (rf 1)),
       .act (.show 30 62), .act (.show 31 61), .act (.show 32 60)] } init).map
      (fun r => (r.1, r.2.out.filter Event.obs))
    = some (none, [.print 3, .print 4, .print 5, .print 1, .show 30 (.int 7), .show 31 (.int 9), .show 32 (.int 5)]) := by
  decide

/-! ## top_level_export_final -/

/-- With export_top_level_ids, a top-level assignment `k = v` (or `export k = v`) ends up in the
exports map, and `exports[k]` still is `v` at the end of the script provided no later statement
writes `k` again (a later assignment of `k` is covered by applying the theorem to that one: the
*final* assignment wins). -/
theorem top_level_export_final {cfg : Cfg} {fs : FS} {rec : Runner} (k : Name) (v : Int)
    (pre post : List TAct) {fr fr' : Frame} {s s' : St} (het : fr.exportTop = true)
    (h : execTActs cfg fs rec (pre ++ TAct.act (.assign k v) :: post) fr s = some (none, fr', s'))
    (hpost : ∀ a ∈ post, touchesT cfg.exportAlias cfg.exportStrAlias true k a = false) :
    lookup k s'.exports.data = some (.int v) := by
  obtain ⟨fr1, s1, h1, h2⟩ := execTActs_append pre _ h
  have het1 : fr1.exportTop = true := by rw [execTActs_exportTop pre h1]; exact het
  unfold execTActs at h2
  simp only [execTAct, execAct] at h2
  rw [(execTActs_keeps k post h2 (by simp only [bind_exportTop, het1]; exact hpost)).1]
  simp [exportIf, het1, setData, lookup_insert_self]

/-- the same for `export k = v` (with or without export_top_level_ids) -/
theorem export_final {cfg : Cfg} {fs : FS} {rec : Runner} (k : Name) (v : Int)
    (pre post : List TAct) {fr fr' : Frame} {s s' : St}
    (h : execTActs cfg fs rec (pre ++ TAct.act (.export_ k v) :: post) fr s = some (none, fr', s'))
    (hpost : ∀ a ∈ post, touchesT cfg.exportAlias cfg.exportStrAlias fr.exportTop k a = false) :
    lookup k s'.exports.data = some (.int v) := by
  obtain ⟨fr1, s1, h1, h2⟩ := execTActs_append pre _ h
  have het1 : fr1.exportTop = fr.exportTop := execTActs_exportTop pre h1
  unfold execTActs at h2
  simp only [execTAct, execAct] at h2
  rw [(execTActs_keeps k post h2 (by simp only [bind_exportTop, het1]; exact hpost)).1]
  simp [setData, lookup_insert_self]

-- non-vacuity: a host script with export_top_level_ids, k60 assigned twice with an import in between
example : (hostRun cfgEx fsEx 5 { dir := [], exportTop := true, body :=
      [.act (.assign 60 1), .act (.importMods [itm 1]), .act (.assign 60 2), .act (.assign 61 3)] } init).map
      (fun r => (r.1, lookup 60 r.2.exports.data, lookup 61 r.2.exports.data))
    = some (none, some (.int 2), some (.int 3)) := by decide

/-- compound assignments count: with export_top_level_ids, after `k op= b` at the top level the exports
entry `k` holds the new value — whether `k` is a local assigned earlier in the same script or is read
from the exports of an earlier script -/
theorem top_level_compound_export_final (cfg : Cfg) (k : Name) (op : COp) (b a : Int) (fr : Frame) (s : St)
    (het : fr.exportTop = true) (ha : readId cfg fr s k = some (.int a)) :
    ∃ fr' s', compoundStep cfg k op (.lit b) fr s = (none, fr', s')
      ∧ lookup k s'.exports.data = some (.int (op.apply a b))
      ∧ ((lookup k fr.locals).isSome = true → lookup k fr'.locals = some (.int (op.apply a b))) := by
  refine ⟨_, _, by simp only [compoundStep, evalRhs, Option.map, ha]; rfl, ?_, ?_⟩
  · simp [exportIf, het, setData, lookup_insert_self]
  · intro hl
    simp [hl, Modules.bind, lookup_insert_self]

-- `k60 = 1; k60 += 2; k60 *= 10` in one script, then `k60 -= 5` in the next one, a loop and an `if`
example : (finalSt cfgEx fsEx 5
      [{ dir := [], exportTop := true, body :=
          [.act (.assign 60 1), .act (.compound 60 .add (.lit 2)), .act (.compound 60 .mul (.lit 10))] },
       { dir := [], exportTop := true, body :=
          [.act (.compound 60 .sub (.lit 5)), .act (.loopCompound 3 60 .add (.lit 1)), .act (.condAssign 0 61 7)] }]
      init).map (fun s => (lookup 60 s.exports.data, lookup 61 s.exports.data))
    = some (some (.int 28), some (.int 7)) := by decide +kernel

/-- What the code does for *import* bindings under export_top_level_ids: the imported value is exported
under `Item.exportKey?`. Id items: the code recorded in F-C18-1 (`cfg.exportAlias = false`) used the
name of the imported item even when the statement binds an alias. String items (`import 'm' as n`,
`from m import 'k' as n`): the code as it is exports nothing (`cfg.exportStrAlias = false`, finding
F-C18-5). So the top-level binding itself reaches the exports map only in the cases of
`top_level_import_export_fixed`; see the witnesses below. -/
theorem top_level_import_export_partial {cfg : Cfg} {fs : FS} {rec : Runner} (it : Item)
    {fr fr' : Frame} {s s' : St} (het : fr.exportTop = true) (hb : it.binds = true)
    (h : execAct cfg fs rec (.importMods [it]) fr s = some (none, fr', s')) :
    ∃ v, lookup it.target fr'.locals = some v
      ∧ ∀ k, it.exportKey? cfg.exportAlias cfg.exportStrAlias = some k → lookup k s'.exports.data = some v := by
  simp only [execAct, importItems] at h
  split at h
  · cases h
  · simp at h
  · rename_i v s1 hir
    simp only [Option.some.injEq, Prod.mk.injEq, true_and] at h
    refine ⟨v, ?_, ?_⟩
    · rw [← h.1]; simp [bindItem, hb, Modules.bind, lookup_insert_self]
    · intro k hk
      rw [← h.2]; simp [exportItem, hk, exportIf, het, setData, lookup_insert_self]

/-- with the repaired compiler (or for an id item without alias) the binding made by a top-level
import is in the exports map under the bound name -/
theorem top_level_import_export_fixed {cfg : Cfg} {fs : FS} {rec : Runner} (it : Item)
    {fr fr' : Frame} {s s' : St} (het : fr.exportTop = true) (hb : it.binds = true)
    (hal : (it.str = false ∧ (cfg.exportAlias = true ∨ it.as_ = none)) ∨ (it.str = true ∧ cfg.exportStrAlias = true))
    (h : execAct cfg fs rec (.importMods [it]) fr s = some (none, fr', s')) :
    ∃ v, lookup it.target fr'.locals = some v ∧ lookup it.target s'.exports.data = some v := by
  obtain ⟨v, h1, h2⟩ := top_level_import_export_partial it het hb h
  refine ⟨v, h1, h2 it.target ?_⟩
  unfold Item.exportKey?
  rcases hal with ⟨hs, hal⟩ | ⟨hs, hsa⟩
  · rcases hal with hal | hal
    · simp [hs, hal]
    · cases hc : cfg.exportAlias <;> simp [hs, Item.target, hal]
  · have : it.as_.isNone = false := by
      simp only [Item.binds, hs, Bool.true_and, Bool.not_eq_true'] at hb; exact hb
    cases ha : it.as_ with
    | none => rw [ha] at this; cases this
    | some a => simp [hs, hsa, Item.target, ha]

/-- Negation witness (finding F-C18-5): with export_top_level_ids, `import 'm1' as k64` binds `k64` in
its own script but exports nothing, so `k64` is lost for the next script of the same runtime -/
theorem top_level_string_alias_not_exported_witness :
    (hostRun cfgEx fsEx 5 { dir := [], exportTop := true, body :=
        [.act (.importMods [{ name := 1, str := true, as_ := some 64 }]), .act (.show 9 64)] } init).map
      (fun r => (r.1, r.2.out.filter Event.obs, r.2.exports.data))
    = some (none, [.print 1, .show 9 (.mref pA)], []) := by decide

/-- Negation witness (finding F-C18-1): with export_top_level_ids, the top-level binding made by
`import m1 as k64` does NOT end up in the exports map — `k64` is absent, `m1` is exported instead —
so the binding is lost for the next script of the same runtime (REPL line). -/
theorem top_level_alias_not_exported_witness :
    (hostRun cfgEx fsEx 5 { dir := [], exportTop := true, body := [.act (.importMods [itm 1 (some 64)])] } init).map
      (fun r => (r.1, lookup 64 r.2.exports.data, lookup 1 r.2.exports.data))
    = some (none, none, some (.mref pA)) := by decide

/-- A module whose import failed can be imported again, which executes its top level again: "runs
exactly once" is about the successful import (`run_once` counts one start per failed attempt plus one
for the successful import). Witness: m4 started twice in one runtime. -/
theorem rerun_after_failure_witness :
    (finalSt cfgEx fsEx 5 [opTry 4 20, opTry 4 21] init).map (fun s => s.out.count (.enter pD)) = some 2 := by
  decide

/-! ## fuel_adequate — the fuel never runs out -/

/-- Let `keys` list every cache key that module resolution can produce. Then every fuel above
`keys.length` suffices for every history — the run returns — and the result is the same for all such
fuels: the "for every fuel … whenever the run returns" form of the theorems above loses nothing. (The
import nesting depth is bounded by the number of keys that are not in progress: each nested execution
puts one more key in progress.) -/
theorem fuel_adequate (cfg : Cfg) (fs : FS) (keys : List Path)
    (hkeys : ∀ dir r p, findModule cfg fs dir r = some p → p ∈ keys) (ops : List Op) (n m : Nat)
    (hn : keys.length < n) (hm : keys.length < m) :
    runOps cfg fs n ops init = runOps cfg fs m ops init ∧ runOps cfg fs n ops init ≠ none :=
  runOps_adequate cfg fs keys hkeys n m hn hm ops init inv_init

theorem findModule_exists_canon (cfg : Cfg) (fs : FS) (dir : List Name) (r : Ref) (p : Path)
    (hc : cfg.canonFile = true) (h : findModule cfg fs dir r = some p) : fs p ≠ none := by
  simp only [findModule, hc, if_true] at h
  split at h
  · rename_i hh
    simp only [Option.some.injEq] at h; rw [← h]
    intro hn; rw [hn] at hh; cases hh
  · split at h
    · rename_i hh
      simp only [Option.some.injEq] at h; rw [← h]
      intro hn; rw [hn] at hh; cases hh
    · cases h

/-- with the repaired `find_module` the keys are the files: every fuel above the number of files
suffices (the driver uses a multiple of the number of files, which also covers the unrepaired code for
the import spellings of a scenario) -/
theorem fuel_adequate_canonical (cfg : Cfg) (fs : FS) (files : List Path) (hc : cfg.canonFile = true)
    (hfiles : ∀ p, fs p ≠ none → p ∈ files) (ops : List Op) (n m : Nat)
    (hn : files.length < n) (hm : files.length < m) :
    runOps cfg fs n ops init = runOps cfg fs m ops init ∧ runOps cfg fs n ops init ≠ none :=
  fuel_adequate cfg fs files (fun dir r p h => hfiles p (findModule_exists_canon cfg fs dir r p hc h)) ops n m hn hm

/-- the same for one nested module execution in any reachable runtime -/
theorem fuel_adequate_unit (cfg : Cfg) (fs : FS) (keys : List Path)
    (hkeys : ∀ dir r p, findModule cfg fs dir r = some p → p ∈ keys) (n m : Nat)
    (hn : keys.length < n) (hm : keys.length < m)
    (self : Option Path) (dir : List Name) (body : List TAct) (s : St) (hinv : Inv s) :
    runUnit cfg fs n self dir body s = runUnit cfg fs m self dir body s
      ∧ runUnit cfg fs n self dir body s ≠ none :=
  runUnit_adequate cfg fs keys hkeys keys.length n m hn hm self dir body s hinv
    (by have := avail_le_length keys s; omega)

-- non-vacuity: the example file system has its files at six paths
example : ∀ p, fsEx p ≠ none → p ∈ [pA, pAdir, pB, pC, pD, pE, pF] := by
  intro p h
  unfold fsEx at h
  by_cases h1 : p = pA
  · simp [h1]
  by_cases h2 : p = pAdir
  · simp [h2]
  by_cases h3 : p = pB
  · simp [h3]
  by_cases h4 : p = pC
  · simp [h4]
  by_cases h5 : p = pD
  · simp [h5]
  by_cases h6 : p = pE
  · simp [h6]
  by_cases h7 : p = pF
  · simp [h7]
  simp [h1, h2, h3, h4, h5, h6, h7] at h

end KotoVerif.C18
