/-
C08 — extension: further theorems about `Model/Timeout.lean` (poller runs, the entry loop
`firstTimeout`, the trace replayer `replay`, error delivery). Core Lean only.
-/
import KotoVerif.Model.Timeout
import KotoVerif.Lemmas.C08
import KotoVerif.Props.C08

namespace KotoVerif.C08Ext
open KotoVerif.Timeout KotoVerif.C08L

def F0 : TOps := ⟨fun _ => 0, fun _ _ => 0, fun _ _ => 0, fun _ _ => 0, fun _ _ => false,
    fun _ => false, fun _ => 0⟩

/-! ## 1. invariants of every reachable poller state -/

/-- one check keeps the interval below any bound that dominates the old interval and the cap -/
theorem check_interval_le (F : TOps) (s : St) (now M : Nat) (h : s.intervalInstr ≤ M)
    (hm : s.maxInterval ≤ M) : (check F s now).1.intervalInstr ≤ M := by
  rcases check_cases F s now with ⟨_, h2⟩ | ⟨_, _, h2⟩ | ⟨_, _, h2⟩ <;> rw [h2]
  · exact h
  · exact h
  · exact Nat.le_trans (Nat.min_le_right _ _) hm

theorem runN_maxInterval (F : TOps) (clk : Nat → Nat) (n : Nat) :
    ∀ (s : St) (i : Nat), (runN F clk n s i).maxInterval = s.maxInterval := by
  induction n with
  | zero => intro s i; rfl
  | succ n ih => intro s i; simp [runN, ih, check_maxInterval]

/-- Every interval of a run — for every clock, every float implementation, any number of checks —
stays below `max(first interval, MAX_INTERVAL_INSTRUCTIONS)`: the number of unobserved instructions
between two clock reads is bounded over the whole entry, not only after the next read. -/
theorem interval_bounded_run (F : TOps) (clk : Nat → Nat) (M : Nat) (n : Nat) :
    ∀ (s : St) (i : Nat), s.intervalInstr ≤ M → s.maxInterval ≤ M →
      (runN F clk n s i).intervalInstr ≤ M := by
  induction n with
  | zero => intro s i h _; exact h
  | succ n ih =>
    intro s i h hm
    simp only [runN]
    exact ih _ _ (check_interval_le F s _ M h hm) (by rw [check_maxInterval]; exact hm)

/-- … instantiated for a freshly armed poller -/
theorem interval_bounded_from_new (F : TOps) (rate cap : UInt64) (maxI limit t0 : Nat)
    (clk : Nat → Nat) (n : Nat) :
    (runN F clk n (new F rate cap maxI limit t0) 0).intervalInstr
      ≤ max (new F rate cap maxI limit t0).intervalInstr maxI :=
  interval_bounded_run F clk _ n _ 0 (Nat.le_max_left _ _) (by simp [new]; omega)

/-- the recorded `last_check` stays strictly before the deadline: a clock reading is stored only
when the deadline has not been reached -/
theorem check_lastCheck_lt (F : TOps) (s : St) (now : Nat) (h : s.lastCheck < s.deadline) :
    (check F s now).1.lastCheck < (check F s now).1.deadline := by
  rcases check_cases F s now with ⟨_, h2⟩ | ⟨_, _, h2⟩ | ⟨_, hd, h2⟩ <;> rw [h2]
  · exact h
  · exact h
  · show now < s.deadline; omega

theorem lastCheck_lt_deadline_run (F : TOps) (clk : Nat → Nat) (n : Nat) :
    ∀ (s : St) (i : Nat), s.lastCheck < s.deadline →
      (runN F clk n s i).lastCheck < (runN F clk n s i).deadline := by
  induction n with
  | zero => intro s i h; exact h
  | succ n ih => intro s i h; simp only [runN]; exact ih _ _ (check_lastCheck_lt F s _ h)

/-- for every positive limit, every state reachable from `new` has `last_check < deadline`
(so `remaining` and the measured rate are taken at a point before the deadline) -/
theorem lastCheck_lt_deadline_from_new (F : TOps) (rate cap : UInt64) (maxI limit t0 : Nat)
    (clk : Nat → Nat) (n : Nat) (hl : 0 < limit) :
    (runN F clk n (new F rate cap maxI limit t0) 0).lastCheck < t0 + limit := by
  have := lastCheck_lt_deadline_run F clk n (new F rate cap maxI limit t0) 0 (by simp [new]; omega)
  rw [runN_deadline] at this
  simpa [new] using this

example : (0 : Nat) < 20 := by decide

/-! ## 2. the run depends on the clock only through the values it is shown -/

/-- determinism / independence: two clocks that agree on the indices `i … i+n-1` give the same
state after `n` checks -/
theorem runN_clock_congr (F : TOps) (clk clk' : Nat → Nat) (n : Nat) :
    ∀ (s : St) (i : Nat), (∀ j, j < n → clk (i + j) = clk' (i + j)) →
      runN F clk n s i = runN F clk' n s i := by
  induction n with
  | zero => intro s i _; rfl
  | succ n ih =>
    intro s i h
    have h0 : clk i = clk' i := by simpa using h 0 (by omega)
    simp only [runN, h0]
    apply ih
    intro j hj
    have := h (j + 1) (by omega)
    rwa [show i + (j + 1) = i + 1 + j by omega] at this

example : ∀ j, j < 3 → (fun k => if k < 3 then k else 7) (0 + j) = (fun k => k) (0 + j) := by
  intro j hj; simp; omega

/-! ## 3. a reported timeout is final -/

/-- the state is a fixed point at a timeout -/
theorem timeout_fixed_point (F : TOps) (s : St) (now : Nat) (h : (check F s now).2 = .timeout) :
    (check F s now).1 = s := by
  rcases check_cases F s now with ⟨_, h2⟩ | ⟨_, _, h2⟩ | ⟨_, _, h2⟩ <;> rw [h2] at h ⊢ <;> cases h

/-- a timeout reported at clock `a` is reported again at every later clock `b ≥ a` -/
theorem timeout_persists (F : TOps) (s : St) (a b : Nat) (h : (check F s a).2 = .timeout)
    (hab : a ≤ b) : check F s b = (s, .timeout) := by
  rcases check_cases F s a with ⟨_, h2⟩ | ⟨h1, hd, _⟩ | ⟨_, _, h2⟩
  · rw [h2] at h; cases h
  · exact check_timeout F s b h1 (by omega)
  · rw [h2] at h; cases h

/-- Under a monotone clock a timeout, once reported, is reported by every later check, and the
poller state no longer changes (the model comment on `runN`, as a theorem): a script cannot get
past the timeout by being polled again. -/
theorem timeout_forever (F : TOps) (clk : Nat → Nat) (s : St) (n : Nat)
    (hmono : ∀ j, clk j ≤ clk (j + 1)) (h : pollAt F clk s n = .timeout) :
    ∀ m, pollAt F clk s (n + m) = .timeout ∧ runN F clk (n + m) s 0 = runN F clk n s 0 := by
  intro m
  induction m with
  | zero => exact ⟨h, rfl⟩
  | succ m ih =>
    obtain ⟨hp, hr⟩ := ih
    have hfix : runN F clk (n + m + 1) s 0 = runN F clk (n + m) s 0 := by
      rw [runN_succ_last]
      simpa [pollAt] using timeout_fixed_point F _ _ (by simpa [pollAt] using hp)
    refine ⟨?_, by rw [← Nat.add_assoc, hfix, hr]⟩
    unfold pollAt
    rw [← Nat.add_assoc, hfix]
    have := timeout_persists F (runN F clk (n + m) s 0) (clk (n + m)) (clk (n + m + 1))
      (by simpa [pollAt] using hp) (hmono _)
    rw [this]

example : pollAt F0 (fun j => 10 + 3 * (j + 1)) (new F0 0 0 1000 20 10) 6 = .timeout := by decide

/-! ## 4. the entry loop `firstTimeout` is "the least check that times out" -/

theorem firstTimeout_some (F : TOps) (clk : Nat → Nat) (n : Nat) :
    ∀ (s : St) (i m : Nat), firstTimeout F clk n s i = some m →
      ∃ k, k < n ∧ m = i + k ∧ (check F (runN F clk k s i) (clk (i + k))).2 = .timeout ∧
        ∀ j, j < k → (check F (runN F clk j s i) (clk (i + j))).2 ≠ .timeout := by
  induction n with
  | zero => intro s i m h; simp [firstTimeout] at h
  | succ n ih =>
    intro s i m h
    rcases hc : check F s (clk i) with ⟨s', p⟩
    by_cases hp : p = .timeout
    · subst hp
      simp [firstTimeout, hc] at h
      exact ⟨0, by omega, by omega, by simp [runN, hc], by intro j hj; omega⟩
    · have h' : firstTimeout F clk n s' (i + 1) = some m := by
        cases p <;> simp_all [firstTimeout]
      obtain ⟨k, hk, hm, ht, hb⟩ := ih s' (i + 1) m h'
      have hrun : ∀ j, runN F clk (j + 1) s i = runN F clk j s' (i + 1) := by
        intro j; simp [runN, hc]
      refine ⟨k + 1, by omega, by omega, ?_, ?_⟩
      · rw [hrun, show i + (k + 1) = i + 1 + k by omega]; exact ht
      · intro j hj
        cases j with
        | zero => simp [runN, hc, hp]
        | succ j =>
          rw [hrun, show i + (j + 1) = i + 1 + j by omega]
          exact hb j (by omega)

theorem firstTimeout_none (F : TOps) (clk : Nat → Nat) (n : Nat) :
    ∀ (s : St) (i : Nat), firstTimeout F clk n s i = none →
      ∀ k, k < n → (check F (runN F clk k s i) (clk (i + k))).2 ≠ .timeout := by
  induction n with
  | zero => intro s i _ k hk; omega
  | succ n ih =>
    intro s i h k hk
    rcases hc : check F s (clk i) with ⟨s', p⟩
    by_cases hp : p = .timeout
    · subst hp; simp [firstTimeout, hc] at h
    · have h' : firstTimeout F clk n s' (i + 1) = none := by
        cases p <;> simp_all [firstTimeout]
      cases k with
      | zero => simp [runN, hc, hp]
      | succ k =>
        have : runN F clk (k + 1) s i = runN F clk k s' (i + 1) := by simp [runN, hc]
        rw [this, show i + (k + 1) = i + 1 + k by omega]
        exact ih s' (i + 1) h' k (by omega)

/-- The entry loop over `n` instructions reports the timeout before instruction `m` exactly when
check number `m` is the FIRST check of the run (in the `pollAt` vocabulary of the slack theorems)
whose outcome is `timeout`, and `m < n`. Together with `every_instruction_polls` this ties the
instruction loop `runInstrs` to the statements `never_early_run` / `bounded_slack_capped`. -/
theorem firstTimeout_iff_least (F : TOps) (clk : Nat → Nat) (n : Nat) (s : St) (m : Nat) :
    firstTimeout F clk n s 0 = some m ↔
      (m < n ∧ pollAt F clk s m = .timeout ∧ ∀ j, j < m → pollAt F clk s j ≠ .timeout) := by
  constructor
  · intro h
    obtain ⟨k, hk, hm, ht, hb⟩ := firstTimeout_some F clk n s 0 m h
    have : m = k := by omega
    subst this
    refine ⟨hk, by simpa [pollAt] using ht, ?_⟩
    intro j hj; simpa [pollAt] using hb j hj
  · rintro ⟨hm, ht, hb⟩
    cases h : firstTimeout F clk n s 0 with
    | none =>
      have := firstTimeout_none F clk n s 0 h m hm
      simp [pollAt] at ht; simp at this; exact absurd ht this
    | some m' =>
      obtain ⟨k, hk, hm', ht', hb'⟩ := firstTimeout_some F clk n s 0 m' h
      have e : m' = k := by omega
      subst e
      simp only [Nat.zero_add] at ht' hb'
      by_cases h1 : m' < m
      · exact absurd ht' (by simpa [pollAt] using hb m' h1)
      · by_cases h2 : m < m'
        · exact absurd (by simpa [pollAt] using ht) (hb' m h2)
        · have : m' = m := by omega
          rw [this]

/-- the loop never reports early: a reported index carries a clock value at or past the deadline -/
theorem firstTimeout_never_early (F : TOps) (clk : Nat → Nat) (n : Nat) (s : St) (m : Nat)
    (h : firstTimeout F clk n s 0 = some m) : s.deadline ≤ clk m := by
  obtain ⟨_, ht, _⟩ := (firstTimeout_iff_least F clk n s m).1 h
  rcases check_cases F (runN F clk m s 0) (clk m) with ⟨_, h2⟩ | ⟨_, hd, _⟩ | ⟨_, _, h2⟩
  · simp [pollAt, h2] at ht
  · rw [runN_deadline] at hd; exact hd
  · simp [pollAt, h2] at ht

example : firstTimeout F0 (fun j => 10 + 3 * (j + 1)) 10 (new F0 0 0 1000 20 10) 0 = some 6 := by
  decide

/-! ## 5. delivery -/

/-- an error keeps its kind on the whole way to the host, for every stack and both unwinding modes -/
theorem delivery_keeps_kind (stack : List Frame) :
    ∀ (kind k' : ErrKind) (ac : Bool), deliverFlat kind ac stack = .escaped k' → k' = kind := by
  induction stack with
  | nil => intro kind k' ac h; simp [deliverFlat] at h; exact h.symm
  | cons f rest ih =>
    intro kind k' ac h
    unfold deliverFlat at h
    split at h
    · cases h
    · split at h <;> exact ih _ _ _ h

/-- an ordinary error is never turned into a timeout on its way out -/
theorem error_never_becomes_timeout (stack : List Frame) :
    deliverError stack ≠ .escaped .timeout := by
  rw [deliverError_flat]
  intro h
  cases delivery_keeps_kind stack _ _ _ h

/-- For ordinary errors the entry boundaries are invisible: changing the `execution_barrier` flag
of any frames does not change which handler catches the error or how many frames remain. -/
theorem error_barriers_irrelevant (g : Frame → Bool) (stack : List Frame) :
    deliverError (stack.map fun f => { f with barrier := g f }) = deliverError stack := by
  rw [deliverError_flat, deliverError_flat]
  induction stack with
  | nil => rfl
  | cons f rest ih =>
    cases hc : f.catches <;> cases hb : f.barrier <;> cases hg : g f <;>
      simp_all [deliverFlat, ErrKind.allowCatch]

/-- exact position: with handler-free frames `pre` on top of a frame whose innermost handler is
`h`, an ordinary error is caught by `h` and exactly that frame and the ones below remain -/
theorem error_caught_at (pre : List Frame) (f : Frame) (post : List Frame) (h : Nat) (hs : List Nat)
    (hpre : ∀ g ∈ pre, g.catches = []) (hf : f.catches = h :: hs) :
    deliverError (pre ++ f :: post) = .caught h (post.length + 1) := by
  rw [deliverError_flat]
  induction pre with
  | nil => simp [deliverFlat, hf]
  | cons g pre ih =>
    have hg : g.catches = [] := hpre g (by simp)
    have := ih (fun x hx => hpre x (by simp [hx]))
    cases hb : g.barrier <;> simp [deliverFlat, hg, hb, ErrKind.allowCatch, this]

example : deliverError ([⟨[], true⟩, ⟨[], false⟩] ++ ⟨[3, 4], true⟩ :: [⟨[9], true⟩]) = .caught 3 2 := by
  decide

/-- an ordinary error reaches the host exactly when no frame of any entry has an open handler -/
theorem error_escapes_iff (stack : List Frame) :
    deliverError stack = .escaped .other ↔ ∀ f ∈ stack, f.catches = [] := by
  rw [deliverError_flat]
  induction stack with
  | nil => simp [deliverFlat]
  | cons f rest ih =>
    rcases f with ⟨cs, b⟩
    cases cs <;> cases b <;> simp_all [deliverFlat, ErrKind.allowCatch]

/-! ## 6. the trace replayer used by the driver -/

/-- the replay emits at most one snapshot per clock reading -/
theorem replay_length_le (F : TOps) (ts : List Nat) :
    ∀ (s : St) (calls : Nat), (replay F ts s calls).length ≤ ts.length := by
  induction ts with
  | nil => intro s calls; simp [replay]
  | cons t ts ih =>
    intro s calls
    simp only [replay]
    split <;> simp [ih]

/-- Readings that all lie before the deadline are all consumed and none of them is reported as a
timeout (never early, on the replayer the correspondence runs) -/
theorem replay_before_deadline (F : TOps) (ts : List Nat) :
    ∀ (s : St) (calls : Nat), s.sinceLast ≤ s.intervalInstr → (∀ t ∈ ts, t < s.deadline) →
      (replay F ts s calls).length = ts.length ∧ ∀ x ∈ replay F ts s calls, x.timedOut = false := by
  induction ts with
  | nil => intro s calls _ _; simp [replay]
  | cons t ts ih =>
    intro s calls hle hts
    have ht : t < s.deadline := hts t (by simp)
    have hc := check_ok F (skipMany s (s.intervalInstr - s.sinceLast)) t
      (by simp [skipMany]; omega) (by simp [skipMany]; omega)
    simp only [replay, hc]
    obtain ⟨h1, h2⟩ := ih
      { skipMany s (s.intervalInstr - s.sinceLast) with
        intervalInstr := nextInterval F (skipMany s (s.intervalInstr - s.sinceLast)) t,
        sinceLast := 0, lastCheck := t }
      (calls + (s.intervalInstr - s.sinceLast) + 1) (by simp)
      (fun t' ht' => by simpa [skipMany] using hts t' (by simp [ht']))
    refine ⟨by simp [h1], ?_⟩
    intro x hx
    simp only [List.mem_cons] at hx
    rcases hx with rfl | hx
    · rfl
    · exact h2 x hx

example : (replay F0 [12, 15] (new F0 0 0 1000 20 10) 0).length = 2 := by decide

/-- the first reading at or past the deadline ends the replay with a timed-out snapshot -/
theorem replay_detects (F : TOps) (t : Nat) (ts : List Nat) (s : St) (calls : Nat)
    (hle : s.sinceLast ≤ s.intervalInstr) (ht : s.deadline ≤ t) :
    ∃ x, replay F (t :: ts) s calls = [x] ∧ x.timedOut = true ∧
      x.calls = calls + (s.intervalInstr - s.sinceLast) + 1 := by
  have hc := check_timeout F (skipMany s (s.intervalInstr - s.sinceLast)) t
    (by simp [skipMany]; omega) (by simpa [skipMany] using ht)
  simp [replay, hc]

example : ((replay F0 [12, 31, 40] (new F0 0 0 1000 20 10) 0).map (·.timedOut)) = [false, true] := by
  decide

/-! ## 7. terminating scripts are unaffected by the limit -/

/-- "terminating scripts are unaffected": an instruction stream all of whose instructions start
before the deadline runs to its end without a timeout — for every polling policy, every float
implementation, every interval state (whatever the adaptive interval does, a poll before the
deadline never fires). -/
theorem runInstrs_unaffected (F : TOps) (polls : InstrKind → Bool) (clk : Nat → Nat)
    (ks : List InstrKind) :
    ∀ (s : St) (i : Nat), (∀ j, j < ks.length → clk (i + j) < s.deadline) →
      runInstrs F polls clk ks s i = none := by
  induction ks with
  | nil => intro s i _; rfl
  | cons k ks ih =>
    intro s i h
    have h0 : clk i < s.deadline := by simpa using h 0 (by simp)
    have hrest : ∀ s' : St, s'.deadline = s.deadline → runInstrs F polls clk ks s' (i + 1) = none := by
      intro s' hs'
      apply ih
      intro j hj
      rw [hs']
      have := h (j + 1) (by simp; omega)
      rwa [show i + (j + 1) = i + 1 + j by omega] at this
    unfold runInstrs
    split
    · have hne : (check F s (clk i)).2 ≠ .timeout := by
        intro ht
        have := KotoVerif.C08.never_early F s (clk i) ht
        omega
      have hd := check_deadline F s (clk i)
      rcases hc : check F s (clk i) with ⟨s', p⟩
      rw [hc] at hne hd
      cases p
      · simp [hrest s' hd]
      · simp [hrest s' hd]
      · exact absurd rfl hne
    · exact hrest s rfl

/-- … hence the outcome of a terminating stream does not depend on the configured limit at all:
any two limits whose deadlines lie after the stream's last instruction give the same result -/
theorem limit_transparent (F : TOps) (rate cap : UInt64) (maxI l1 l2 t0 : Nat) (clk : Nat → Nat)
    (ks : List InstrKind)
    (h1 : ∀ j, j < ks.length → clk j < t0 + l1) (h2 : ∀ j, j < ks.length → clk j < t0 + l2) :
    runInstrs F pollsEvery clk ks (new F rate cap maxI l1 t0) 0 =
      runInstrs F pollsEvery clk ks (new F rate cap maxI l2 t0) 0 := by
  rw [runInstrs_unaffected F pollsEvery clk ks _ 0 (by simpa [new] using h1),
    runInstrs_unaffected F pollsEvery clk ks _ 0 (by simpa [new] using h2)]

example : ∀ j, j < [InstrKind.call, .jumpBack].length → (fun j => 10 + 3 * (j + 1)) j < 10 + 20 := by
  intro j hj; simp at hj; simp; omega

/-- the instruction loop never reports early, and reports inside the stream -/
theorem runInstrs_never_early (F : TOps) (clk : Nat → Nat) (ks : List InstrKind) (s : St) (m : Nat)
    (h : runInstrs F pollsEvery clk ks s 0 = some m) : m < ks.length ∧ s.deadline ≤ clk m := by
  rw [KotoVerif.C08.every_instruction_polls] at h
  exact ⟨((firstTimeout_iff_least F clk _ s m).1 h).1, firstTimeout_never_early F clk _ s m h⟩

example : runInstrs F0 pollsEvery (fun j => 10 + 3 * (j + 1))
    (List.replicate 10 .opPush) (new F0 0 0 1000 20 10) 0 = some 6 := by decide

/-! ## 8. more on delivery -/

/-- the fuel of `deliver` is irrelevant once it exceeds the stack length -/
theorem deliver_fuel_irrelevant (f1 f2 : Nat) (kind : ErrKind) (ac : Bool) (stack : List Frame)
    (h1 : stack.length < f1) (h2 : stack.length < f2) :
    deliver f1 kind ac stack = deliver f2 kind ac stack := by
  rw [deliver_eq_flat f1 kind ac stack h1, deliver_eq_flat f2 kind ac stack h2]

example : ([⟨[1], true⟩] : List Frame).length < 2 ∧ ([⟨[1], true⟩] : List Frame).length < 5 := by decide

/-- handler-free frames on top of the stack — plain or entry boundaries — are transparent for an
ordinary error -/
theorem error_skips_handler_free (pre rest : List Frame) (hpre : ∀ g ∈ pre, g.catches = []) :
    deliverError (pre ++ rest) = deliverError rest := by
  rw [deliverError_flat, deliverError_flat]
  induction pre with
  | nil => rfl
  | cons g pre ih =>
    have hg : g.catches = [] := hpre g (by simp)
    have := ih (fun x hx => hpre x (by simp [hx]))
    cases hb : g.barrier <;> simp [deliverFlat, hg, hb, ErrKind.allowCatch, this]

example : ∀ g ∈ ([⟨[], true⟩, ⟨[], false⟩] : List Frame), g.catches = [] := by decide

/-! ## 9. the replayer refines the per-instruction run -/

/-- One replay step IS the per-instruction run: for any clock that shows `t` at the next
clock-reading check (position `i + (interval - since)`), consuming the reading `t < deadline` emits
the snapshot of the state `runN` reaches after `interval - since + 1` single checks, and continues
from exactly that state (which again satisfies `since ≤ interval`, so the step can be iterated over
a whole trace). This justifies the driver's `trace` request (fast path) against `runN`/`pollAt`,
the vocabulary of the slack theorems. -/
theorem replay_step_runN (F : TOps) (clk : Nat → Nat) (s : St) (i t : Nat) (ts : List Nat) (calls : Nat)
    (hle : s.sinceLast ≤ s.intervalInstr)
    (hclk : clk (i + (s.intervalInstr - s.sinceLast)) = t) (ht : t < s.deadline) :
    replay F (t :: ts) s calls =
      { calls := calls + (s.intervalInstr - s.sinceLast) + 1,
        lastCheck := (runN F clk (s.intervalInstr - s.sinceLast + 1) s i).lastCheck,
        interval := (runN F clk (s.intervalInstr - s.sinceLast + 1) s i).intervalInstr,
        timedOut := false,
        sound := decide (UpdateSound F (skipMany s (s.intervalInstr - s.sinceLast)) t) } ::
        replay F ts (runN F clk (s.intervalInstr - s.sinceLast + 1) s i)
          (calls + (s.intervalInstr - s.sinceLast) + 1) ∧
    (runN F clk (s.intervalInstr - s.sinceLast + 1) s i).sinceLast
      ≤ (runN F clk (s.intervalInstr - s.sinceLast + 1) s i).intervalInstr := by
  have hs' : runN F clk (s.intervalInstr - s.sinceLast + 1) s i
      = (check F (skipMany s (s.intervalInstr - s.sinceLast)) t).1 := by
    rw [runN_succ_last, runN_skips F clk _ s i (by omega), hclk]
  have hc := check_ok F (skipMany s (s.intervalInstr - s.sinceLast)) t
    (by simp [skipMany]; omega) (by simp [skipMany]; omega)
  rw [hs']
  constructor
  · simp only [replay, hc]
  · rw [hc]; simp

/-- … and at a reading at or past the deadline the replayer's timeout is the run's timeout: the
check the run performs at that position reports `timeout` -/
theorem replay_timeout_runN (F : TOps) (clk : Nat → Nat) (s : St) (t : Nat)
    (hle : s.sinceLast ≤ s.intervalInstr)
    (hclk : clk (s.intervalInstr - s.sinceLast) = t) (ht : s.deadline ≤ t) :
    pollAt F clk s (s.intervalInstr - s.sinceLast) = .timeout := by
  unfold pollAt
  rw [runN_skips F clk _ s 0 (by omega), hclk,
    check_timeout F _ t (by simp [skipMany]; omega) (by simpa [skipMany] using ht)]

example : ∃ s : St, s.sinceLast ≤ s.intervalInstr ∧ (fun _ => 12) (0 + (s.intervalInstr - s.sinceLast)) = 12 ∧
    12 < s.deadline :=
  ⟨new F0 0 0 1000 20 10, by decide⟩

end KotoVerif.C08Ext
