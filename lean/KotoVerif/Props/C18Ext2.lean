/-
C18 — second extension: end-to-end laws of whole import histories (`finalSt` over `hostRun`), stated
between any two points of a history: run-once, nothing left behind by failures, trace/loader growth.
-/
import KotoVerif.Props.C18Ext

namespace KotoVerif.C18Ext2
open KotoVerif.Modules KotoVerif.C18L KotoVerif.C18 KotoVerif.C18Ext

/-- the state after `a ++ b` is the state after `b` started where `a` ended, and both are reachable -/
theorem history_split {cfg : Cfg} {fs : FS} {fuel : Nat} {a b : List Op} {s s' : St}
    (h1 : finalSt cfg fs fuel a init = some s) (h2 : finalSt cfg fs fuel b s = some s') :
    finalSt cfg fs fuel (a ++ b) init = some s' := by
  rw [finalSt_append, h1]; exact h2

/-- "runs exactly once per runtime however many modules import it", for whole histories: once a module
is imported at some point of a history, then after ANY further operations it is still cached with the
same exports map, its top level has not started again, and nothing printed so far was lost. -/
theorem history_done_stable {cfg : Cfg} {fs : FS} {fuel : Nat} {a b : List Op} {s s' : St}
    (h1 : finalSt cfg fs fuel a init = some s) (h2 : finalSt cfg fs fuel b s = some s')
    (p : Path) (e : Exports) (hd : s.cache p = some (.done e)) :
    s'.cache p = some (.done e)
    ∧ s'.out.count (.enter p) = s.out.count (.enter p)
    ∧ s'.out.count (.done p) = 1 := by
  have inv := reachable_inv h1
  obtain ⟨_, rel⟩ := sound_finalSt b h2 inv
  obtain ⟨t, ht, hn⟩ := rel.out
  have hd' := rel.done p e hd
  refine ⟨hd', ?_, ?_⟩
  · rw [ht, List.count_append, List.count_eq_zero_of_not_mem (hn p (doneB_of_eq hd))]; rfl
  · have := (run_once (history_split h1 h2) p).2.1
    rw [this, doneB_of_eq hd']; rfl

example : (finalSt cfgEx fsEx 5 [opTry 4 20] init).map (fun s => doneB s.cache pB) = some true := by
  decide +kernel

/-- segment law: between any two points of a history, the events added for a module `p` balance —
every start of its top level in the segment ended in the segment (completed or failed), and a
completion is reported in the segment exactly when `p` became cached during it. -/
theorem history_segment_balance {cfg : Cfg} {fs : FS} {fuel : Nat} {a b : List Op} {s s' : St}
    (h1 : finalSt cfg fs fuel a init = some s) (h2 : finalSt cfg fs fuel b s = some s') (p : Path) :
    ∃ t, s'.out = s.out ++ t
      ∧ t.count (.enter p) = t.count (.done p) + t.count (.failed p)
      ∧ t.count (.done p) + (if doneB s.cache p then 1 else 0) = (if doneB s'.cache p then 1 else 0) := by
  have inv := reachable_inv h1
  obtain ⟨_, rel⟩ := sound_finalSt b h2 inv
  obtain ⟨t, ht, _⟩ := rel.out
  obtain ⟨_, d1, e1⟩ := run_once h1 p
  obtain ⟨_, d2, e2⟩ := run_once (history_split h1 h2) p
  rw [ht] at d2 e2
  simp only [List.count_append] at d2 e2
  refine ⟨t, ht, ?_, ?_⟩ <;> omega

/-- "a module whose import failed leaves nothing behind": at any point of any history, a module that
is not cached has never reported completion, and every start of its top level ended in a failure;
a cached one started exactly once more than it failed. -/
theorem history_uncached_all_failed {cfg : Cfg} {fs : FS} {fuel : Nat} {ops : List Op} {st : St}
    (h : finalSt cfg fs fuel ops init = some st) (p : Path) :
    (st.cache p = none → st.out.count (.done p) = 0
        ∧ st.out.count (.enter p) = st.out.count (.failed p))
    ∧ (∀ e, st.cache p = some (.done e) →
        st.out.count (.enter p) = st.out.count (.failed p) + 1) := by
  obtain ⟨_, d, e⟩ := run_once h p
  constructor
  · intro hn
    have : doneB st.cache p = false := by simp [doneB, hn]
    rw [this] at d
    simp at d
    omega
  · intro ex hd
    rw [doneB_of_eq hd] at d
    simp at d
    omega

/-- the cache only ever holds completed modules between operations, so at every point of a history
"not imported" and "imported" are the only two cases, decided by `doneB` -/
theorem history_cache_dichotomy {cfg : Cfg} {fs : FS} {fuel : Nat} {ops : List Op} {st : St}
    (h : finalSt cfg fs fuel ops init = some st) (p : Path) :
    (doneB st.cache p = false ↔ st.cache p = none) := by
  have hc := (run_once h p).1
  unfold doneB
  cases hcp : st.cache p with
  | none => simp
  | some en =>
    cases en with
    | inProgress => exact absurd hcp hc
    | done e => simp

/-- the loader's chunk cache and the module cache only grow along a history, and the loader always
covers the module cache (so a re-import never recompiles) -/
theorem history_caches_grow {cfg : Cfg} {fs : FS} {fuel : Nat} {a b : List Op} {s s' : St}
    (h1 : finalSt cfg fs fuel a init = some s) (h2 : finalSt cfg fs fuel b s = some s') (p : Path) :
    (s.loader p = true → s'.loader p = true)
    ∧ (doneB s.cache p = true → doneB s'.cache p = true)
    ∧ (doneB s'.cache p = true → s'.loader p = true) := by
  have inv := reachable_inv h1
  obtain ⟨inv', rel⟩ := sound_finalSt b h2 inv
  refine ⟨rel.loader p, ?_, ?_⟩
  · intro hd
    obtain ⟨e, he⟩ := doneB_true hd
    exact doneB_of_eq (rel.done p e he)
  · intro hd
    obtain ⟨e, he⟩ := doneB_true hd
    exact inv'.loaded p e he

end KotoVerif.C18Ext2
