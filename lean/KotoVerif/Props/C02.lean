/-
C02 — Functions, closures and generators bind and capture as documented.

Property theorems only (helper lemmas: Lemmas/C02Bind.lean, C02Capture.lean, C02Gen.lean).
Models: Model/Bind.lean (runtime binding over register files, compiled unpack prologue, compile-time
register layout), Model/Capture.lean (the parser's capture analysis, declarative free variables,
closures, captured containers), Model/Gen.lean (generators as coroutines).
-/
import KotoVerif.Lemmas.C02Bind
import KotoVerif.Lemmas.C02Capture
import KotoVerif.Lemmas.C02Gen

namespace KotoVerif.C02
open KotoVerif KotoVerif.Bind KotoVerif.Capture KotoVerif.Gen

/-! ## Binding -/

/-- **bind_layout.** For every function value, receiver, argument list and whatever temporaries
follow the arguments on the register stack: when the argument count is admissible, the callee starts
with `self`, the positional arguments, the defaults of exactly the missing optional arguments, the
variadic tuple of the extra arguments, then the captures — in this order. -/
theorem bind_layout (f : FnVal) (self : Val) (args junk : List Val)
    (hopt : f.optCount ≤ f.expected) (hcap : f.optCount ≤ f.captures.length)
    (h1 : f.required ≤ args.length) (h2 : f.variadic = true ∨ args.length ≤ f.expected) :
    callKoto (self :: (args ++ junk)) args.length f =
      .ok (self :: args.take f.expected
            ++ (f.captures.take f.optCount).drop (min args.length f.expected - f.required)
            ++ (if f.variadic then [Val.tuple (args.drop f.expected)] else [])
            ++ f.captures.drop f.optCount) :=
  callKoto_layout f self args junk hopt hcap h1 h2

example : callKoto [.null, .int 1, .int 7, .int 8] 1
    { argCount := 3, optCount := 1, variadic := true, captures := [.int 10, .int 77] }
    = .ok [.null, .int 1, .int 10, .tuple [], .int 77] := by rfl

/-- **bind_spec.** What each parameter holds, as the guide prescribes: parameter `i` holds the
`i`-th argument when supplied and otherwise *its own* default (default `i - required`); the variadic
parameter holds the tuple of the extra arguments; capture `j` follows the declared parameters. -/
theorem bind_spec (f : FnVal) (self : Val) (args junk : List Val) (rs : Regs)
    (hopt : f.optCount ≤ f.expected) (hcap : f.optCount ≤ f.captures.length)
    (hvar : f.variadic = true → f.argCount ≥ 1)
    (h : callKoto (self :: (args ++ junk)) args.length f = .ok rs) :
    getReg rs 0 = self
    ∧ (∀ i, i < f.expected → i < args.length → getReg rs (1 + i) = args.getD i .null)
    ∧ (∀ i, i < f.expected → args.length ≤ i → getReg rs (1 + i) = f.captures.getD (i - f.required) .null)
    ∧ (f.variadic = true → getReg rs (1 + f.expected) = .tuple (args.drop f.expected))
    ∧ (∀ j, j < f.captures.length - f.optCount →
        getReg rs (1 + f.argCount + j) = f.captures.getD (f.optCount + j) .null) := by
  have hreq : f.required = f.expected - f.optCount := rfl
  -- the call succeeded, so the count was admissible
  have h1 : f.required ≤ args.length := by
    by_cases hc : f.required ≤ args.length
    · exact hc
    · rw [callKoto_too_few f self args junk (by omega)] at h; cases h
  have h2 : f.variadic = true ∨ args.length ≤ f.expected := by
    cases hv : f.variadic
    · right
      by_cases hc : args.length ≤ f.expected
      · exact hc
      · rw [callKoto_too_many f self args junk hv (by omega)] at h; cases h
    · left; rfl
  rw [callKoto_layout f self args junk hopt hcap h1 h2] at h
  injection h with h
  subst h
  -- lengths of the segments
  have hlenT : (args.take f.expected).length = min f.expected args.length := by simp
  have hlenD : ((f.captures.take f.optCount).drop (min args.length f.expected - f.required)).length
      = f.expected - min args.length f.expected := by
    simp [List.length_drop, List.length_take]; omega
  refine ⟨rfl, ?_, ?_, ?_, ?_⟩
  · intro i hi hia
    unfold getReg layout
    simp only [List.cons_append, List.append_assoc]
    rw [Nat.add_comm 1 i, List.getD_cons_succ]
    rw [getD_app_left _ _ _ _ (by simp; omega)]
    simp [List.getD_eq_getElem?_getD, hi]
  · intro i hi hia
    unfold getReg layout
    simp only [List.cons_append, List.append_assoc]
    rw [Nat.add_comm 1 i, List.getD_cons_succ]
    have hmin : min args.length f.expected = args.length := by omega
    rw [getD_app_right _ _ _ _ (by simp; omega)]
    rw [getD_app_left _ _ _ _ (by rw [hlenD, hlenT]; omega)]
    simp only [List.getD_eq_getElem?_getD, List.getElem?_drop, List.getElem?_take, hlenT, hmin]
    have e1 : args.length - f.required + (i - min f.expected args.length) = i - f.required := by omega
    have e2 : i - f.required < f.optCount := by omega
    simp [e1, e2]
  · intro hv
    unfold getReg layout
    simp only [List.cons_append, List.append_assoc, hv, if_true]
    rw [Nat.add_comm 1 _, List.getD_cons_succ]
    rw [getD_app_right _ _ _ _ (by simp; omega)]
    rw [getD_app_right _ _ _ _ (by rw [hlenD, hlenT]; omega)]
    have : f.expected - (args.take f.expected).length
        - ((f.captures.take f.optCount).drop (min args.length f.expected - f.required)).length = 0 := by
      rw [hlenD, hlenT]; omega
    rw [this]
    rfl
  · intro j hj
    unfold getReg layout
    have hexp : f.argCount = f.expected + (if f.variadic then 1 else 0) := by
      unfold FnVal.expected
      cases hv : f.variadic
      · simp
      · have := hvar hv; simp; omega
    simp only [List.cons_append, List.append_assoc]
    rw [Nat.add_comm 1 _, Nat.add_right_comm, List.getD_cons_succ]
    rw [getD_app_right _ _ _ _ (by simp; omega)]
    rw [getD_app_right _ _ _ _ (by rw [hlenD, hlenT]; omega)]
    have hvl : (if f.variadic then [Val.tuple (args.drop f.expected)] else []).length
        = (if f.variadic then 1 else 0) := by
      cases f.variadic <;> simp
    rw [getD_app_right _ _ _ _ (by rw [hlenD, hlenT, hvl]; omega)]
    have : f.argCount + j - (args.take f.expected).length
        - ((f.captures.take f.optCount).drop (min args.length f.expected - f.required)).length
        - (if f.variadic then [Val.tuple (args.drop f.expected)] else []).length = j := by
      rw [hlenD, hlenT, hvl]; omega
    rw [this]
    simp [List.getD_eq_getElem?_getD, List.getElem?_drop]

/-- **bind_errors.** A call fails with an argument-count error exactly when fewer arguments than
required are supplied, or more than declared and the function is not variadic. -/
theorem bind_errors (f : FnVal) (self : Val) (args junk : List Val)
    (hopt : f.optCount ≤ f.expected) (hcap : f.optCount ≤ f.captures.length) :
    (args.length < f.required →
        callKoto (self :: (args ++ junk)) args.length f = .error .insufficient)
    ∧ (f.variadic = false → args.length > f.expected →
        callKoto (self :: (args ++ junk)) args.length f = .error .tooMany)
    ∧ ((∃ e, callKoto (self :: (args ++ junk)) args.length f = .error e)
        ↔ (args.length < f.required ∨ (f.variadic = false ∧ args.length > f.expected))) := by
  refine ⟨callKoto_too_few f self args junk, callKoto_too_many f self args junk, ?_⟩
  constructor
  · intro ⟨e, he⟩
    by_cases h1 : f.required ≤ args.length
    · by_cases h2 : f.variadic = true ∨ args.length ≤ f.expected
      · rw [callKoto_layout f self args junk hopt hcap h1 h2] at he; cases he
      · right
        cases hv : f.variadic
        · exact ⟨rfl, by have := fun h => h2 (Or.inr h); omega⟩
        · exact absurd (Or.inl hv) h2
    · left; omega
  · intro h
    cases h with
    | inl h => exact ⟨_, callKoto_too_few f self args junk h⟩
    | inr h => exact ⟨_, callKoto_too_many f self args junk h.1 h.2⟩

/-- **generator_binds_like_function.** `call_generator` (arguments copied into the new VM) binds
exactly like `call_koto_function`, errors included. -/
theorem generator_binds_like_function (f : FnVal) (self : Val) (args junk : List Val) :
    callGenerator (self :: (args ++ junk)) args.length f
      = callKoto (self :: (args ++ junk)) args.length f :=
  callGenerator_eq f self args junk

/-- **packed_args_spec.** For any number of packed arguments at any positions — empty ones
included — `unpack_packed_arguments` leaves exactly the argument list in which every packed
argument is replaced by its elements, and the argument count is its length. Temporaries after the
index registers (`junk`) are untouched. -/
theorem packed_args_spec (iter : Val → Option (List Val)) (self : Val) (cargs : List CallArg)
    (junk : List Val) (off : Nat) (pre : List Val) (hoff : off = pre.length)
    (hit : allIterable iter cargs)
    (hlim : pre.length + cargs.length + (specArgs iter cargs).length ≤ 254) :
    unpackPacked iter
        (self :: (pre ++ cargs.map (·.1) ++ (packedIdxs off cargs).map (fun i => Val.int (i : Nat)) ++ junk))
        (pre.length + cargs.length) (packedIdxs off cargs).length
      = .ok (self :: (pre ++ specArgs iter cargs ++ junk), pre.length + (specArgs iter cargs).length) := by
  subst hoff
  unfold unpackPacked
  by_cases h0 : (packedIdxs pre.length cargs).length = 0
  · -- no packed argument at all: nothing happens, and specArgs = the arguments
    have hnil : packedIdxs pre.length cargs = [] := List.eq_nil_of_length_eq_zero h0
    have hspec : ∀ (k : Nat) (as : List CallArg), packedIdxs k as = [] → specArgs iter as = as.map (·.1) := by
      intro k as
      induction as generalizing k with
      | nil => intro _; rfl
      | cons a as ih =>
        obtain ⟨v, p⟩ := a
        cases p
        · intro h; simp only [packedIdxs] at h; simp [specArgs, ih _ h]
        · intro h; simp [packedIdxs] at h
    simp [hnil, hspec _ _ hnil]
  · simp only [h0, if_false]
    -- the index registers are read back and drained, then the loop runs
    have hlen : (pre ++ cargs.map (·.1)).length = pre.length + cargs.length := by simp
    have hread := read_idx_regs self (pre ++ cargs.map (·.1))
      ((packedIdxs pre.length cargs).map (fun i => Val.int (i : Nat))) junk
    have hdrain := drain_idx_regs self (pre ++ cargs.map (·.1))
      ((packedIdxs pre.length cargs).map (fun i => Val.int (i : Nat))) junk
    rw [hlen, List.length_map] at hread hdrain
    rw [hread, hdrain]
    rw [mapExcept_asIndex _ (fun i hi => by
      have := packedIdxs_lt pre.length cargs i hi
      omega)]
    exact unpackLoop_spec iter self junk cargs pre pre.length (pre.length + cargs.length) rfl hit hlim

example : unpackPacked elems
    [.null, .list [], .int 1, .tuple [.int 2, .int 3], .int 0, .int 2, .str [120]] 3 2
    = .ok ([.null, .int 1, .int 2, .int 3, .str [120]], 3) := by rfl

/-- **pipe_eq_call.** `a -> f b…` performs exactly the call `f(a, b…)`: same registers, same
argument count, same packed indices (shifted by one), hence the same outcome — for every function,
piped value and argument list (packed arguments included), for functions and generators. -/
theorem pipe_eq_call (iter : Val → Option (List Val)) (f : FnVal) (a : Val) (args : List CallArg)
    (gen : Bool) :
    callPiped iter f a args gen = callPlain iter f ((a, false) :: args) gen := by
  simp [callPiped, callPlain, compileCall, packedIdxs, Nat.add_comm]

/-- **pipe_method_eq_call.** `a -> m.f b…` (also through a longer chain `x.y.m.f`) performs exactly
the call `m.f(a, b…)`: the piped value is the first argument and the method still receives its
container as `self` — for every function/generator method, piped value and argument list. -/
theorem pipe_method_eq_call (iter : Val → Option (List Val)) (f : FnVal) (m a : Val)
    (args : List CallArg) (gen : Bool) :
    callPipedInstance iter f m a args gen = callInstance iter f m ((a, false) :: args) gen := by
  simp [callPipedInstance, callInstance, compileCall, packedIdxs, Nat.add_comm]

example : (callPipedInstance elems { argCount := 2, optCount := 0, variadic := false, captures := [] }
    (.map [(.str [116], .int 7)]) (.int 1) [(.int 2, false)]).toOption
    = some [.map [(.str [116], .int 7)], .int 1, .int 2] := by rfl

/-- **creation_layout.** The captures list of a function after creation (and after the commit of
the assignment it is created in): the default values in order, then the captures in order — the
function's own name, whose `Capture` is deferred until the commit, lands in slot
`optional_arg_count + its capture index` like every other capture, and no default slot is touched by
it. Holds for any number of defaults, captures and any position of the self reference. -/
theorem creation_layout (defaults : List Val) (caps : List CapSrc) (fnVal : Val) :
    createCaptures defaults caps fnVal = defaults ++ caps.map (CapSrc.value fnVal) := by
  unfold createCaptures
  have h1 := applyDefaultCaps_spec defaults [] caps.length
  simp only [List.nil_append, List.length_nil] at h1
  simp only [h1]
  have h2 := applyCaptureOps_spec fnVal defaults caps [] (List.replicate caps.length Val.null) (by simp)
  simpa using h2

/-- two defaults, captures `x`, the function itself, `y`: the function sits in slot 2 + 1 -/
example : createCaptures [.int 10, .int 20] [.val (.int 1), .self, .val (.int 3)] (.str [102])
    = [.int 10, .int 20, .int 1, .str [102], .int 3] := by rfl

/-- **late_bound_spec.** An id that the body reads and that is neither a local nor a capture when
the function is created (e.g. a function exported later) resolves, when the function runs, to the
export of that name at that time — for any number of default arguments and captures: the function is
created with access to the non-locals as soon as one accessed id is not captured; the default values,
although they share the capture list, play no role. -/
theorem late_bound_spec (d : FnDef) (rs : Regs) (exports : List (Bind.Name × Val)) (n : Bind.Name)
    (v : Val) (hn : n ∈ d.lates) (hreg : regOf d n = none) (hv : lookupName n exports = some v) :
    d.nonLocalAccess = true ∧ readLate d rs exports n = .ok v := by
  have hpos : 0 < d.lates.length := List.length_pos_of_mem hn
  have hflag : d.nonLocalAccess = true := by
    simp only [FnDef.nonLocalAccess, decide_eq_true_eq]
    omega
  exact ⟨hflag, by simp [readLate, hreg, hflag, hv]⟩

example : readLate { params := [.id 1], optCount := 1, variadic := false, captures := [], lates := [5] }
    [.null, .int 1] [(5, .int 50)] 5 = .ok (.int 50) := by rfl

/-- **call_spec.** End to end: a call built by `compile_call` (any form) binds the function to the
argument list in which packed arguments are replaced by their elements; register 0 of the callee is
the instance for `m.f(…)` and null otherwise; a piped value is the first argument. -/
theorem call_spec (iter : Val → Option (List Val)) (f : FnVal) (m a : Val) (cargs : List CallArg)
    (hit : allIterable iter cargs)
    (hlim : 1 + cargs.length + (specArgs iter cargs).length ≤ 254) :
    callPlain iter f cargs
        = callKoto (.null :: specArgs iter cargs) (specArgs iter cargs).length f
    ∧ callInstance iter f m cargs
        = callKoto (m :: specArgs iter cargs) (specArgs iter cargs).length f
    ∧ callPiped iter f a cargs
        = callKoto (.null :: a :: specArgs iter cargs) (1 + (specArgs iter cargs).length) f := by
  have key : ∀ (inst : Option Val) (pre : List Val), pre.length ≤ 1 →
      callCallable iter
        (Val.null :: (pre ++ cargs.map (·.1) ++ (packedIdxs pre.length cargs).map (fun i => Val.int (i : Nat))))
        inst (pre.length + cargs.length) (packedIdxs pre.length cargs).length f
      = callKoto (inst.getD .null :: (pre ++ specArgs iter cargs)) (pre.length + (specArgs iter cargs).length) f := by
    intro inst pre hpre
    have hp := packed_args_spec iter (inst.getD .null) cargs [] pre.length pre rfl hit (by omega)
    simp only [List.append_nil] at hp
    simp only [callCallable, setReg, List.length_cons, Nat.zero_lt_succ, if_true, List.set_cons_zero,
      Bool.false_eq_true, if_false, hp, bind, Except.bind]
  refine ⟨?_, ?_, ?_⟩
  · have := key none [] (by simp)
    simpa [callPlain, compileCall] using this
  · have := key (some m) [] (by simp)
    simpa [callInstance, compileCall] using this
  · have := key none [a] (by simp)
    simpa [callPiped, compileCall, Nat.add_comm] using this

/-- **method_self.** In `m.f(args)` the function sees `m` as `self` (register 0); in `f(args)` it
sees null — whenever the call succeeds. -/
theorem method_self (iter : Val → Option (List Val)) (f : FnVal) (m : Val) (cargs : List CallArg)
    (rs : Regs) (hit : allIterable iter cargs)
    (hlim : 1 + cargs.length + (specArgs iter cargs).length ≤ 254)
    (hopt : f.optCount ≤ f.expected) (hcap : f.optCount ≤ f.captures.length) :
    (callInstance iter f m cargs = .ok rs → getReg rs 0 = m)
    ∧ (callPlain iter f cargs = .ok rs → getReg rs 0 = .null) := by
  have key : ∀ (self : Val),
      callKoto (self :: specArgs iter cargs) (specArgs iter cargs).length f = .ok rs → getReg rs 0 = self := by
    intro self h
    by_cases h1 : f.required ≤ (specArgs iter cargs).length
    · by_cases h2 : f.variadic = true ∨ (specArgs iter cargs).length ≤ f.expected
      · have := callKoto_layout f self (specArgs iter cargs) [] hopt hcap h1 h2
        simp only [List.append_nil] at this
        rw [this] at h
        injection h with h
        subst h
        rfl
      · have hv : f.variadic = false := by
          cases hv : f.variadic
          · rfl
          · exact absurd (Or.inl hv) h2
        have := callKoto_too_many f self (specArgs iter cargs) [] hv (by
          have := fun h => h2 (Or.inr h); omega)
        simp only [List.append_nil] at this
        rw [this] at h; cases h
    · have := callKoto_too_few f self (specArgs iter cargs) [] (by omega)
      simp only [List.append_nil] at this
      rw [this] at h; cases h
  obtain ⟨hp, hi, _⟩ := call_spec iter f m .null cargs hit hlim
  exact ⟨fun h => key m (hi ▸ h), fun h => key .null (hp ▸ h)⟩

/-- **layout_agrees.** The compiler's frame layout (`Frame::new`) and the runtime binding agree:
the `j`-th captured name is assigned register `1 + #parameters + j`, which is where
`apply_captures` puts capture `j` (see `bind_spec`), provided no parameter has that name. -/
theorem layout_agrees (d : FnDef) (j : Nat) (n : Bind.Name) (hj : d.captures[j]? = some n)
    (hfirst : ∀ i, i < j → d.captures[i]? ≠ some n)
    (hnotparam : ∀ p ∈ d.params, topSlot p ≠ .assigned n) :
    regOf d n = some (1 + d.params.length + j) := by
  unfold regOf frameSlots
  have step1 : ∀ (ps : List Param) (rest : List Slot) (k : Nat),
      (∀ p ∈ ps, topSlot p ≠ .assigned n) →
      findSlot n (ps.map topSlot ++ rest) k = findSlot n rest (k + ps.length) := by
    intro ps
    induction ps with
    | nil => intro rest k _; simp
    | cons p ps ih =>
      intro rest k h
      simp only [List.map_cons, List.cons_append, findSlot]
      have hp : topSlot p ≠ .assigned n := h p (by simp)
      simp only [hp, if_false]
      rw [ih rest (k + 1) (fun q hq => h q (by simp [hq]))]
      have e : k + 1 + ps.length = k + (p :: ps).length := by simp; omega
      rw [e]
  have step2 : ∀ (cs : List Bind.Name) (rest : List Slot) (k j : Nat),
      cs[j]? = some n → (∀ i, i < j → cs[i]? ≠ some n) →
      findSlot n (cs.map Slot.assigned ++ rest) k = some (k + j) := by
    intro cs
    induction cs with
    | nil => intro rest k j h _; simp at h
    | cons c cs ih =>
      intro rest k j h hf
      simp only [List.map_cons, List.cons_append, findSlot]
      cases j with
      | zero =>
        simp at h; subst h; simp
      | succ j =>
        have hc : c ≠ n := by
          have := hf 0 (by omega); simpa using this
        have : (Slot.assigned c = Slot.assigned n) = False := by simp [hc]
        simp only [this, if_false]
        rw [ih rest (k + 1) j (by simpa using h) (fun i hi => by have := hf (i + 1) (by omega); simpa using this)]
        congr 1; omega
  simp only [List.cons_append, findSlot, show (Slot.alloc = Slot.assigned n) = False by simp, if_false, List.append_assoc]
  rw [step1 d.params _ (0 + 1) hnotparam, step2 d.captures _ _ j hj hfirst]

/-- **wf_layout_fits.** For a well-formed parameter list (argument names pairwise distinct, /repo
7adfc01) the registers that `Frame::new` hands out — self, every top-level argument, the captures,
every unpacked name — are exactly the registers below `temporary_base` that are not reserved for body
locals: the compiler's per-occurrence layout and the parser's `local_count` (distinct ids) agree. -/
theorem wf_layout_fits (d : FnDef) (h : d.wellFormed = true) :
    (frameSlots d).length + d.bodyLocals = tempBase d := by
  unfold FnDef.wellFormed FnDef.paramNames at h
  have hd := dedup_length_of_nodup _ h
  have hp := params_length d.params
  simp only [frameSlots, tempBase, List.length_cons, List.length_append, List.length_map, hd]
  omega

/-- **dup_layout_overflows** (known finding F-C02-11, fixed by rejecting such lists). Without
well-formedness the layout does not fit: for `|a, (a, b)|` `Frame::new` hands out 5 registers while
`temporary_base` is 4, so the unpacked `b` lives in the first temporary register. -/
theorem dup_layout_overflows :
    let d : FnDef := { params := [.id 1, .tuple [.id 1, .id 2]], optCount := 0, variadic := false, captures := [] }
    d.wellFormed = false ∧ (frameSlots d).length = 5 ∧ tempBase d = 4 := by decide

/-- **single_ellipsis_binds_all** (F-C02-3, fixed in /repo 7cd4923; before the fix the prologue
sliced *up to index 0* and `xs` was empty). For every tuple or list argument, `|(xs...)|` binds `xs`
to the whole container: the prologue is `CheckSizeMin 0; SliceFrom 0`. -/
theorem single_ellipsis_binds_all (vs : List Val) :
    let d : FnDef := { params := [.tuple [.packed (some 1)]], optCount := 0, variadic := false, captures := [] }
    prologue d = [.checkSizeMin 1 0, .sliceFrom 2 1 0]
    ∧ enter d (callPlain elems (d.toVal [] []) [(.tuple vs, false)]) = .ok (.null, [Val.tuple vs])
    ∧ enter d (callPlain elems (d.toVal [] []) [(.list vs, false)]) = .ok (.null, [Val.list vs]) := by
  refine ⟨rfl, ?_, ?_⟩ <;>
  simp [enter, callPlain, compileCall, packedIdxs, callCallable, setReg, unpackPacked, callKoto,
    FnDef.toVal, FnVal.expected, applyOptional, applyVariadic, applyCaptures, bind, Except.bind,
    pure, Except.pure, prologue, compileParams, compileParam, sizeOp, hasPacked, compileTupleElems,
    regOr, regOf, frameSlots, findSlot, topSlot, nestedNames, nestedOfParam, patsNames, patNames,
    execUs, execU, getReg, Bind.sizeOf, slice, signedIndex, FnDef.names, topNames, readName]

example : (enter { params := [.tuple [.packed (some 1), .id 2]], optCount := 0, variadic := false, captures := [] }
    (callPlain elems { argCount := 1, optCount := 0, variadic := false, captures := [] }
      [(.tuple [.int 1, .int 2, .int 3], false)])).toOption.map (·.2)
    = some [Val.tuple [.int 1, .int 2], .int 3] := by rfl

/-! ## Captures -/

/-- **capture_by_copy** (creation). A function literal evaluates to a closure whose environment is
the creation-time environment restricted to the captured names: each captured name holds the value
it has *now*; nothing else of the environment is kept. -/
theorem capture_by_copy (capt : Analysis) (fuel : Nat) (ps : List Capture.Name) (body : List Ex)
    (env : Capture.Env) :
    eval capt (fuel + 1) (.fn ps body) env
        = .ok (.clo ps body (captureEnv (capt ps body) env) none, env)
    ∧ ∀ x, Capture.lookup x (captureEnv (capt ps body) env)
        = if (capt ps body).contains x then Capture.lookup x env else none :=
  ⟨rfl, fun x => lookup_captureEnv _ env x⟩

/-- **capture_by_copy_later** Reassigning any other variable of the enclosing scope after the
closure was created does not change what a call of the closure returns. -/
theorem capture_by_copy_later (capt : Analysis) (fuel : Nat) (g y : Capture.Name) (w : V)
    (env : Capture.Env) (h : g ≠ y) :
    (eval capt fuel (.call g []) (Capture.update y w env)).map (·.1)
      = (eval capt fuel (.call g []) env).map (·.1) := by
  cases fuel with
  | zero => rfl
  | succ fuel =>
    simp only [eval, lookup_update_ne g y w env h]
    cases hg : Capture.lookup g env with
    | none => rfl
    | some f =>
      cases fuel with
      | zero => rfl
      | succ fuel =>
        simp only [evalArgs, bind, Except.bind]
        cases f with
        | clo ps body cenv self =>
          simp only
          cases bindParams ps [] with
          | none => rfl
          | some penv =>
            simp only
            generalize evalBlock capt (fuel + 1) body _ = r
            cases r <;> rfl
        | null => rfl
        | int n => rfl
        | bool b => rfl

/-- the guide's example `x = 1; f = |n| n + x; x = 100; f(2)` gives 3 under both analyses;
`x = 99; f = || x = x + 1; f() + f() + f()` gives 300 (same starting value in every call);
a recursive function reaches itself through the deferred capture -/
example : asInt (runScript accessed 30 guideCopyScript) = .ok 3
    ∧ asInt (runScript freeVars 30 guideCopyScript) = .ok 3
    ∧ asInt (runScript accessed 30 guideSameStartScript) = .ok 300
    ∧ asInt (runScript accessed 60 recScript) = .ok 10 := ⟨rfl, rfl, rfl, rfl⟩

/-- **capture_repaired_shapes** (F-C02-1 = DESIGN F27, fixed in /repo 86c848a; F-C02-2, fixed in
da73144). The two shapes on which the parser's analysis used to lose a capture are recorded now:
in `a = (if c then 2 else 3) - a` the read of `a` after the inline `if` (the assignment target is
"in progress", not assigned, while nested lists are finalized), and in `x + (x = 3)` the read of `x`
before the assignment (accesses are counted; the assignment discards one). The F27 script returns 1
under the parser's analysis as under the declarative one. -/
theorem capture_repaired_shapes :
    (1 : Capture.Name) ∈ freeVars [] f27Body ∧ (1 : Capture.Name) ∈ accessed [] f27Body
    ∧ asInt (runScript accessed 20 f27Script) = .ok 1
    ∧ asInt (runScript freeVars 20 f27Script) = .ok 1
    ∧ (1 : Capture.Name) ∈ freeVars [] erasedBody ∧ (1 : Capture.Name) ∈ accessed [] erasedBody := by
  refine ⟨by decide, by decide, rfl, rfl, by decide, by decide⟩

/-- **capture_complete_counterexample** (known finding F-C02-8). At full strength the statement is
still false for the repaired analysis, and this is the only way it fails (`capture_complete_partial`):
in `x = 1 + (|| x)` — a function literal strictly inside the right-hand side of an assignment to `x`
that reads `x` — the parser leaves `x` to the deferred self capture (meant for `x = |…| …`), so the
enclosing function does not record `x`. -/
theorem capture_complete_counterexample : ¬ CaptureComplete := by
  intro h
  have := h [] [.assign 1 (.add (.lit 1) (.fn [] [.var 1]))] 1 (by decide)
  revert this
  decide

/-- **capture_complete_partial.** The general statement for the repaired analysis, for *every*
parameter list and *every* body of the modelled syntax — assignments anywhere inside expressions
(reads of the target before, inside and after nested expression lists), inline `if`s, calls, function
literals nested to any depth with propagation through `add_nested_accessed_non_locals`, recursive
`x = |…| … x …` — with one explicit exclusion, `okBlock`: a function literal that is not itself the
right-hand side of the assignment must not have the target of an assignment whose right-hand side it
stands in among its free names (exactly the shape of `capture_complete_counterexample`).
Then every declaratively free variable is captured. -/
theorem capture_complete_partial (ps : List Capture.Name) (body : List Ex)
    (h : okBlock body = true) (x : Capture.Name) (hx : x ∈ freeVars ps body) :
    x ∈ accessed ps body :=
  (peBlock_ok body { assigned := ps } ps h ⟨rfl, fun _ => Iff.rfl⟩ rfl rfl).2 x hx

/-- in the class: `a = (if c then 2 else 3) - a` (F-C02-1), `x + (x = 3)` (F-C02-2), and
`g = |n| if n < 1 then y else g(n - 1)` ⏎ `y = (y = g(2)) + y` with a nested recursive closure -/
example : okBlock f27Body = true ∧ okBlock erasedBody = true
    ∧ okBlock [.assign 7 (.fn [8] [.ite (.lt (.var 8) (.lit 1)) (.var 9) (.call 7 [.sub (.var 8) (.lit 1)])]),
               .assign 9 (.add (.paren (.assign 9 (.call 7 [.lit 2]))) (.var 9))] = true
    ∧ freeVars [] [.assign 7 (.fn [8] [.ite (.lt (.var 8) (.lit 1)) (.var 9) (.call 7 [.sub (.var 8) (.lit 1)])]),
               .assign 9 (.add (.paren (.assign 9 (.call 7 [.lit 2]))) (.var 9))] = [9] := by decide

/-! ## Captured containers and default values -/

/-- **shared_containers.** Capturing copies the *handle*: the closure's variable refers to the same
heap address as the enclosing scope's variable, so (1) the closure holds that address, (2) a push
made in the enclosing scope goes to that address, (3) a push made inside the closure body goes to
the same address, and (4) a push to an address is what every later read of that address sees. -/
theorem shared_containers (names : List Capture.Name) (s : SState) (x y : Capture.Name) (a : Nat)
    (n : Int) (hx : names.contains x = true) (hxe : slookup x s.env = some (.ref a))
    (hy : slookup y s.env = some (.ref a)) (hf : s.failed = false) :
    slookup x (sCapture names s.env) = some (.ref a)
    ∧ (sstep s (.push y n)).heap = heapPush s.heap a n
    ∧ (∀ (penv : SEnv) (h : Heap) (out : List Ev), slookup x (penv ++ sCapture names s.env) = some (.ref a) →
        runBody [.push x n] (penv ++ sCapture names s.env) h out = (heapPush h a n, out, false))
    ∧ (∀ (h : Heap) (old : List Int), h[a]? = some old → deref (heapPush h a n) (.ref a) = .list (old ++ [n])) := by
  refine ⟨?_, ?_, ?_, ?_⟩
  · rw [slookup_sCapture, hx]; simpa using hxe
  · simp [sstep, hf, hy]
  · intro penv h out hl
    simp [runBody, hl]
  · intro h old hold
    have hlt : a < h.length := by
      rcases Nat.lt_or_ge a h.length with hl | hl
      · exact hl
      · rw [List.getElem?_eq_none hl] at hold; cases hold
    have hget : h[a] = old := by
      have := List.getElem?_eq_getElem hlt
      rw [this] at hold
      exact Option.some.inj hold
    simp [heapPush, deref, List.getD_eq_getElem?_getD, hlt, hget]

/-- **scalars_by_copy.** Rebinding a variable of the enclosing scope (`x = n`) after closures were
created changes neither the closures nor the heap, and a later call produces the same output. -/
theorem scalars_by_copy (s : SState) (x : Capture.Name) (n : Int) (f : Capture.Name) :
    (sstep s (.setInt x n)).fns = s.fns
    ∧ (sstep s (.setInt x n)).heap = s.heap
    ∧ (sstep (sstep s (.setInt x n)) (.call f none)).out = (sstep s (.call f none)).out := by
  cases hf : s.failed
  · refine ⟨by simp [sstep, hf], by simp [sstep, hf], ?_⟩
    simp only [sstep, hf, Bool.false_eq_true, if_false]
    cases flookup f s.fns with
    | none => rfl
    | some c =>
      simp only
      cases c.param <;> cases c.default <;> rfl
  · simp [sstep, hf]

/-- **defaults_once.** A default value is evaluated when the function is created — the `tick` is
emitted then, once — and calls without the argument emit nothing for it and all see that same value. -/
theorem defaults_once (s : SState) (f p : Capture.Name) (tag : Nat) (n : Int) (hf : s.failed = false) :
    let s1 := sstep s (.mkFn f (some (p, some (.tick tag n))) [.emit p])
    s1.out = s.out ++ [.tick tag]
    ∧ (sstep s1 (.call f none)).out = s.out ++ [.tick tag, .int n]
    ∧ (sstep (sstep s1 (.call f none)) (.call f none)).out = s.out ++ [.tick tag, .int n, .int n] := by
  simp [sstep, hf, flookup, bodyNames, runBody, slookup, deref]

/-! ## Generators -/

/-- **gen_resume_exact.** A `next()` that returns `v` has run the generator's machine through some
emits and exactly one `yield`, and leaves it paused in the configuration right after that yield
(continuation stack and variables): the following `next()` continues from there. A `next()` that
reports the end has run the body until it returned; from then on every `next()` reports the end
again without running anything. -/
theorem gen_resume_exact (n : Nat) (c : Cfg) :
    (∀ es v c' m, next n c = .yielded es v c' m →
        ∃ k, run k c = (es.map Event.emit ++ [Event.yield v], c'))
    ∧ (∀ es c', next n c = .finished es c' →
        (∃ k, run k c = (es.map Event.emit, c')) ∧ Halted c' ∧ ∀ j, next (j + 1) c' = .finished [] c') := by
  refine ⟨fun es v c' m h => next_yielded n c es v c' m h, fun es c' h => ?_⟩
  obtain ⟨k, hk, hh⟩ := next_finished n c es c' h
  exact ⟨⟨k, hk⟩, hh, fun j => next_after_end j c' hh⟩

/-- **gen_interleave.** Consuming a generator with `for v in g` + `emit v`: whenever the loop ends
(the model's step budget is not exhausted), its trace is the straight-through run of the body with
every `yield v` replaced by the consumer's `emit v` — generator emits before a yield come before
the consumer sees the value, emits after it come after — and the loop ends exactly when the body
has returned. -/
theorem gen_interleave (n : Nat) (c : Cfg) (h : T.fuel ∉ consumeFor n none c) :
    ∃ k, consumeFor n none c = interleave (run k c).1 ∧ Halted (run k c).2 := by
  induction n generalizing c with
  | zero => simp [consumeFor] at h
  | succ n ih =>
      simp only [consumeFor, Option.map_none] at h ⊢
      cases hn : next (n + 1) c with
      | yielded es v c' m =>
        simp only [hn] at h ⊢
        have hrest : T.fuel ∉ consumeFor n none c' := by
          intro hm; apply h; simp [hm]
        obtain ⟨k2, hk2, hh⟩ := ih c' hrest
        obtain ⟨k1, hk1⟩ := next_yielded _ _ _ _ _ _ hn
        refine ⟨k1 + k2, ?_, ?_⟩
        · rw [run_add, hk1]
          simp [interleave_append, interleave_emits, interleave, hk2]
        · rw [run_add, hk1]; exact hh
      | finished es c' =>
        obtain ⟨k, hk, hh⟩ := next_finished _ _ _ _ hn
        exact ⟨k, by simp [hk, interleave_emits], by rw [hk]; exact hh⟩
      | outOfFuel es c' => simp [hn] at h

/-- **gen_next_spec.** Collecting a generator (`to_tuple`): whenever it ends, the collected values
are the yields of the straight-through run of the body, in order; the generator's own emits are
those of that run; and the run has reached the point where the body returned. -/
theorem gen_next_spec (n : Nat) (c : Cfg) (h : T.fuel ∉ (consumeAll n none c).1) :
    ∃ k, (consumeAll n none c).2 = yields (run k c).1
      ∧ (consumeAll n none c).1 = (emitsOf (run k c).1).map T.g
      ∧ Halted (run k c).2 := by
  induction n generalizing c with
  | zero => simp [consumeAll] at h
  | succ n ih =>
      simp only [consumeAll, Option.map_none] at h ⊢
      cases hn : next (n + 1) c with
      | yielded es v c' m =>
        simp only [hn] at h ⊢
        have hrest : T.fuel ∉ (consumeAll n none c').1 := by
          intro hm; apply h; simp [hm]
        obtain ⟨k2, hv, ht, hh⟩ := ih c' hrest
        obtain ⟨k1, hk1⟩ := next_yielded _ _ _ _ _ _ hn
        refine ⟨k1 + k2, ?_, ?_, ?_⟩
        · rw [run_add, hk1]
          simp [yields_append, yields_emits, yields, hv]
        · rw [run_add, hk1]
          simp [emitsOf_append, emitsOf_emits, emitsOf, ht]
        · rw [run_add, hk1]; exact hh
      | finished es c' =>
        obtain ⟨k, hk, hh⟩ := next_finished _ _ _ _ hn
        exact ⟨k, by simp [hk, yields_emits], by simp [hk, emitsOf_emits], by rw [hk]; exact hh⟩
      | outOfFuel es c' => simp [hn] at h

/-- the guide's first generator: two values, then the end, again and again -/
example : consumeNexts 100 4 (mkGen [.yield (.lit 1), .yield (.lit 2)] [])
    = [.c 1, .c 2, .fin, .fin] := by decide

/-- emits before and after the yields, consumer in between; early `return` -/
example : consumeFor 100 none (mkGen [.emit (.lit 10), .yield (.lit 1), .emit (.lit 11), .yield (.lit 2),
      .emit (.lit 12), .ret, .yield (.lit 3)] [])
    = [.g 10, .c 1, .g 11, .c 2, .g 12] := by decide

/-- laziness: `take 1` of an endless-looking loop runs the body only up to the first yield -/
example : consumeAll 100 (some 1) (mkGen [.emit (.lit 10), .forRange 1 (.lit 0) (.lit 1000) [.yield (.var 1), .emit (.var 1)]] [])
    = ([.g 10], [0]) := by decide

end KotoVerif.C02
