/-
C03 extension — theorems about the unpacking model that `Drivers/C03.lean` runs (`ma`, `mt`, `for`
requests) and that the main theorem files do not speak about: `Unpack.forSteps`, `Unpack.forUnpack`,
`Unpack.multiAssign`, `Unpack.multiAssignTemp`, `Unpack.elems`, `Unpack.splitChars`, and the final
register value of `Unpack.assign` (the existing `tgtWrites_spec` is about membership in the write
list only).
-/
import KotoVerif.Model.Match
import KotoVerif.Model.Unpack
import KotoVerif.Props.C03

namespace KotoVerif.C03Ext
open KotoVerif KotoVerif.Match KotoVerif.Unpack

/-! ## `assign`: frame and exact value per target -/

/-- registers that are not a named target are untouched (`_` writes nothing) -/
theorem assign_frame : ∀ (ts : List Tgt) (vs : List Val) (ρ : Env) (y : Name),
    y ∉ tgtNames ts → assign ts vs ρ y = ρ y
  | [], _, _, _, _ => rfl
  | .id x :: ts, [], ρ, y, h => by
    simp [tgtNames] at h
    rw [assign, assign_frame ts [] _ y h.2]; simp [Env.set, h.1]
  | .id x :: ts, v :: vs, ρ, y, h => by
    simp [tgtNames] at h
    rw [assign, assign_frame ts vs _ y h.2]; simp [Env.set, h.1]
  | .wild :: ts, [], ρ, y, h => by
    simp [tgtNames] at h
    rw [assign, assign_frame ts [] _ y h]
  | .wild :: ts, _ :: vs, ρ, y, h => by
    simp [tgtNames] at h
    rw [assign, assign_frame ts vs _ y h]

example : (3 : Name) ∉ tgtNames [.id 0, .wild, .id 1] := by simp [tgtNames]

/-- element-wise binding: the target at position `i` named `x` ends up holding element `i` of the
stream (Null when the stream is shorter), provided no later target has the same name -/
theorem assign_get : ∀ (ts : List Tgt) (vs : List Val) (ρ : Env) (i : Nat) (x : Name),
    ts[i]? = some (.id x) → x ∉ tgtNames (ts.drop (i + 1)) →
    assign ts vs ρ x = vs[i]?.getD .null
  | [], _, _, _, _, h, _ => by simp at h
  | t :: ts, vs, ρ, 0, x, h, hn => by
    simp at h; subst h
    simp at hn
    cases vs with
    | nil => rw [assign, assign_frame ts [] _ x hn]; simp [Env.set]
    | cons v vs => rw [assign, assign_frame ts vs _ x hn]; simp [Env.set]
  | t :: ts, vs, ρ, i + 1, x, h, hn => by
    have h' : ts[i]? = some (.id x) := by simpa using h
    have hn' : x ∉ tgtNames (ts.drop (i + 1)) := by simpa using hn
    cases t with
    | id z =>
      cases vs with
      | nil => rw [assign, assign_get ts [] _ i x h' hn']; simp
      | cons v vs => rw [assign, assign_get ts vs _ i x h' hn']; simp
    | wild =>
      cases vs with
      | nil => rw [assign, assign_get ts [] _ i x h' hn']; simp
      | cons v vs => rw [assign, assign_get ts vs _ i x h' hn']; simp

example : ([Tgt.id 0, .wild, .id 1])[2]? = some (.id 1) ∧
    (1 : Name) ∉ tgtNames (([Tgt.id 0, .wild, .id 1]).drop 3) := by simp [tgtNames]

/-- the same in terms of the declarative `unpack`: target `i` receives `(unpack n vs)[i]` -/
theorem assign_get_unpack (ts : List Tgt) (vs : List Val) (ρ : Env) (i : Nat) (x : Name)
    (h : ts[i]? = some (.id x)) (hn : x ∉ tgtNames (ts.drop (i + 1))) :
    some (assign ts vs ρ x) = (unpack ts.length vs)[i]? := by
  have hi : i < ts.length := by
    rcases Nat.lt_or_ge i ts.length with h' | h'
    · exact h'
    · have : ts[i]? = none := by simp; omega
      rw [this] at h; cases h
  have hl : i < (unpack ts.length vs).length := by rw [C03.unpack_length]; exact hi
  rw [assign_get ts vs ρ i x h hn, List.getElem?_eq_getElem hl, C03.unpack_get _ _ _ hi]

/-- extras are ignored: elements beyond the number of targets do not influence the registers -/
theorem assign_ignores_extras : ∀ (ts : List Tgt) (vs : List Val) (ρ : Env),
    assign ts vs ρ = assign ts (vs.take ts.length) ρ
  | [], _, _ => by simp [assign]
  | .id x :: ts, [], ρ => by simp
  | .id x :: ts, v :: vs, ρ => by simp [assign]; exact assign_ignores_extras ts vs _
  | .wild :: ts, [], ρ => by simp
  | .wild :: ts, _ :: vs, ρ => by simp [assign]; exact assign_ignores_extras ts vs _

/-- missing elements are Null: padding the stream with Nulls changes nothing -/
theorem assign_pad_null : ∀ (ts : List Tgt) (vs : List Val) (k : Nat) (ρ : Env),
    assign ts (vs ++ List.replicate k .null) ρ = assign ts vs ρ
  | [], _, _, _ => by simp [assign]
  | .id x :: ts, [], 0, ρ => by simp
  | .id x :: ts, [], k + 1, ρ => by
    have := assign_pad_null ts [] k (ρ.set x .null)
    simp [assign, List.replicate_succ] at this ⊢; exact this
  | .id x :: ts, v :: vs, k, ρ => by simp [assign]; exact assign_pad_null ts vs k _
  | .wild :: ts, [], 0, ρ => by simp
  | .wild :: ts, [], k + 1, ρ => by
    have := assign_pad_null ts [] k ρ
    simp [assign, List.replicate_succ] at this ⊢; exact this
  | .wild :: ts, _ :: vs, k, ρ => by simp [assign]; exact assign_pad_null ts vs k _

/-- multi-assignment is determined by the declarative `unpack` of the stream -/
theorem assign_unpack (ts : List Tgt) (vs : List Val) (ρ : Env) :
    assign ts vs ρ = assign ts (unpack ts.length vs) ρ := by
  rw [C03.unpack_spec, assign_pad_null, ← assign_ignores_extras]

/-! ## multi-assignment -/

/-- `a, b = x, y` (temporary tuple, `TempIndex`) and `a, b = (x, y)` (iterator, `IterUnpack`)
write the same registers and have the same value -/
theorem multiAssignTemp_eq_multiAssign (ts : List Tgt) (vs : List Val) (ρ : Env) :
    multiAssign ts (.tuple vs) ρ = some (multiAssignTemp ts vs ρ) := by
  simp [multiAssign, multiAssignTemp, elems, C03.assignIdx_spec]

/-- a multi-assignment raises exactly when the right-hand side is a range without both bounds;
otherwise its value is the right-hand side itself -/
theorem multiAssign_value (ts : List Tgt) (rhs : Val) (ρ ρ' : Env) (r : Val)
    (h : multiAssign ts rhs ρ = some (ρ', r)) : r = rhs := by
  unfold multiAssign at h
  cases he : elems rhs with
  | none => simp [he] at h
  | some xs => simp [he] at h; exact h.2.symm

example : multiAssign [.id 0] (.tuple [.null]) (fun _ => .null) =
    some (assign [.id 0] [.null] (fun _ => .null), .tuple [.null]) := by simp [multiAssign, elems]

theorem elems_none_iff (v : Val) :
    elems v = none ↔ ∃ a b, v = .range a b ∧ (a = none ∨ b = none) := by
  cases v with
  | range a b =>
    cases a with
    | none => simp [elems]; exact ⟨none, b, ⟨rfl, rfl⟩, Or.inl rfl⟩
    | some a =>
      cases b with
      | none => simp [elems]; exact ⟨some a, none, ⟨rfl, rfl⟩, Or.inr rfl⟩
      | some b => obtain ⟨e, incl⟩ := b; simp [elems]
  | _ => simp [elems]

/-- lists and tuples unpack alike -/
theorem multiAssign_list_tuple (ts : List Tgt) (xs : List Val) (ρ : Env) :
    (multiAssign ts (.list xs) ρ).map Prod.fst = (multiAssign ts (.tuple xs) ρ).map Prod.fst := by
  simp [multiAssign, elems]

/-! ## `for` loops -/

/-- what one iteration does to the registers (`none` = the element cannot be iterated): a single
argument receives the element itself, `_` nothing, several arguments unpack the element -/
def bodyEnv (ts : List Tgt) (e : Val) (ρ : Env) : Option Env :=
  match ts with
  | [.id x] => some (ρ.set x e)
  | [.wild] => some ρ
  | _ => (elems e).map (fun xs => assign ts xs ρ)

/-- the loop is the iteration of `bodyEnv`, recording the registers at every body entry -/
theorem forSteps_cons (ts : List Tgt) (e : Val) (es : List Val) (ρ : Env) :
    forSteps ts (e :: es) ρ =
      (bodyEnv ts e ρ).bind (fun ρ1 => (forSteps ts es ρ1).map (fun r => (ρ1 :: r.1, r.2))) := by
  match ts with
  | [] => simp [forSteps, bodyEnv]; cases elems e <;> simp
  | [.id x] => simp [forSteps, bodyEnv]
  | [.wild] => simp [forSteps, bodyEnv]
  | t :: t' :: ts => simp [forSteps, bodyEnv]; cases elems e <;> simp

theorem bodyEnv_multi (ts : List Tgt) (e : Val) (ρ : Env) (h : 2 ≤ ts.length) :
    bodyEnv ts e ρ = (elems e).map (fun xs => assign ts xs ρ) := by
  match ts, h with
  | t :: t' :: ts, _ => simp [bodyEnv]

/-- the loop over a concatenated stream is the loop over the first part followed by the loop over
the second part started from the registers the first one left -/
theorem forSteps_append (ts : List Tgt) : ∀ (es fs : List Val) (ρ : Env),
    forSteps ts (es ++ fs) ρ =
      (forSteps ts es ρ).bind (fun r1 => (forSteps ts fs r1.2).map (fun r2 => (r1.1 ++ r2.1, r2.2)))
  | [], fs, ρ => by simp [forSteps]
  | e :: es, fs, ρ => by
    simp only [List.cons_append, forSteps_cons]
    cases bodyEnv ts e ρ with
    | none => simp
    | some ρ1 =>
      simp only [Option.bind_some]
      rw [forSteps_append ts es fs ρ1]
      cases forSteps ts es ρ1 with
      | none => simp
      | some r => simp; cases forSteps ts fs r.2 <;> simp

/-- the body is entered exactly once per element of the iterable -/
theorem forSteps_length (ts : List Tgt) : ∀ (es : List Val) (ρ ρ' : Env) (steps : List Env),
    forSteps ts es ρ = some (steps, ρ') → steps.length = es.length
  | [], ρ, ρ', steps, h => by simp [forSteps] at h; simp [h.1]
  | e :: es, ρ, ρ', steps, h => by
    rw [forSteps_cons] at h
    cases hb : bodyEnv ts e ρ with
    | none => simp [hb] at h
    | some ρ1 =>
      simp [hb] at h
      obtain ⟨a, h1, h2⟩ := h
      subst h2; simp [forSteps_length ts es _ _ _ h1]

/-- the `i`-th body entry sees the registers produced by `bodyEnv` from the `i`-th element -/
theorem forSteps_step (ts : List Tgt) : ∀ (es : List Val) (ρ ρ' : Env) (steps : List Env),
    forSteps ts es ρ = some (steps, ρ') → ∀ (i : Nat) (σ : Env), steps[i]? = some σ →
      ∃ e ρ0, es[i]? = some e ∧ bodyEnv ts e ρ0 = some σ
  | [], ρ, ρ', steps, h, i, σ, hs => by simp [forSteps] at h; obtain ⟨rfl, rfl⟩ := h; simp at hs
  | e :: es, ρ, ρ', steps, h, i, σ, hs => by
    rw [forSteps_cons] at h
    cases hb : bodyEnv ts e ρ with
    | none => simp [hb] at h
    | some ρ1 =>
      simp [hb] at h
      obtain ⟨a, h1, h2⟩ := h
      subst h2
      cases i with
      | zero => simp at hs; subst hs; exact ⟨e, ρ, by simp, hb⟩
      | succ i =>
        have hs' : a[i]? = some σ := by simpa using hs
        obtain ⟨e', ρ0, he, hb'⟩ := forSteps_step ts es _ _ _ h1 i σ hs'
        exact ⟨e', ρ0, by simpa using he, hb'⟩

/-- `for x in it`: at the `i`-th body entry `x` holds the `i`-th element -/
theorem for_single_binds (x : Name) (es : List Val) (ρ ρ' : Env) (steps : List Env)
    (h : forSteps [.id x] es ρ = some (steps, ρ')) (i : Nat) (σ : Env) (hs : steps[i]? = some σ) :
    es[i]? = some (σ x) := by
  obtain ⟨e, ρ0, he, hb⟩ := forSteps_step _ es ρ ρ' steps h i σ hs
  simp [bodyEnv] at hb; subst hb; simp [he, Env.set]

/-- `for a, b, … in it`: at the `i`-th body entry the `j`-th argument holds the `j`-th element of
the unpacked `i`-th element (Null when it is shorter; extras ignored) -/
theorem for_multi_binds (ts : List Tgt) (hts : 2 ≤ ts.length) (es : List Val) (ρ ρ' : Env)
    (steps : List Env) (h : forSteps ts es ρ = some (steps, ρ')) (i : Nat) (σ : Env)
    (hs : steps[i]? = some σ) (j : Nat) (y : Name) (hj : ts[j]? = some (.id y))
    (hn : y ∉ tgtNames (ts.drop (j + 1))) :
    ∃ e xs, es[i]? = some e ∧ elems e = some xs ∧ σ y = xs[j]?.getD .null := by
  obtain ⟨e, ρ0, he, hb⟩ := forSteps_step _ es ρ ρ' steps h i σ hs
  rw [bodyEnv_multi ts e ρ0 hts] at hb
  cases hx : elems e with
  | none => simp [hx] at hb
  | some xs =>
    simp [hx] at hb; subst hb
    exact ⟨e, xs, he, hx, assign_get ts xs ρ0 j y hj hn⟩

example : ∃ steps ρ', forSteps [.id 0, .id 1] [.tuple [.null]] (fun _ => .bool true) = some (steps, ρ') ∧
    steps.length = 1 := by
  simp [forSteps, elems]

/-- after the loop the registers are those of the last body entry (several arguments "keep their
last values"); an empty iterable leaves them as they were -/
theorem forSteps_final (ts : List Tgt) : ∀ (es : List Val) (ρ ρ' : Env) (steps : List Env),
    forSteps ts es ρ = some (steps, ρ') → ρ' = steps.getLast?.getD ρ
  | [], ρ, ρ', steps, h => by simp [forSteps] at h; obtain ⟨rfl, rfl⟩ := h; simp
  | e :: es, ρ, ρ', steps, h => by
    rw [forSteps_cons] at h
    cases hb : bodyEnv ts e ρ with
    | none => simp [hb] at h
    | some ρ1 =>
      simp [hb] at h
      obtain ⟨a, h1, h2⟩ := h
      subst h2
      rw [forSteps_final ts es _ _ _ h1]
      cases a <;> simp [List.getLast?_cons]

/-- one iteration writes only the named arguments -/
theorem bodyEnv_frame (ts : List Tgt) (y : Name) (hy : y ∉ tgtNames ts) (e : Val) (ρ ρ1 : Env)
    (h : bodyEnv ts e ρ = some ρ1) : ρ1 y = ρ y := by
  unfold bodyEnv at h
  split at h
  · rename_i x
    have hx : y ≠ x := by simpa [tgtNames] using hy
    simp at h; subst h; simp [Env.set, hx]
  · simp at h; subst h; rfl
  · cases he : elems e with
    | none => simp [he] at h
    | some xs => simp [he] at h; subst h; exact assign_frame ts xs ρ y hy

/-- a loop writes only its named arguments: every other register is unchanged at every body entry
and after the loop -/
theorem forSteps_frame (ts : List Tgt) (y : Name) (hy : y ∉ tgtNames ts) :
    ∀ (es : List Val) (ρ ρ' : Env) (steps : List Env),
    forSteps ts es ρ = some (steps, ρ') → ρ' y = ρ y ∧ ∀ σ ∈ steps, σ y = ρ y
  | [], ρ, ρ', steps, h => by simp [forSteps] at h; obtain ⟨rfl, rfl⟩ := h; simp
  | e :: es, ρ, ρ', steps, h => by
    rw [forSteps_cons] at h
    cases hb : bodyEnv ts e ρ with
    | none => simp [hb] at h
    | some ρ1 =>
      simp [hb] at h
      obtain ⟨a, h1, h2⟩ := h
      subst h2
      have e0 := bodyEnv_frame ts y hy e ρ ρ1 hb
      have ih := forSteps_frame ts y hy es _ _ _ h1
      rw [e0] at ih
      refine ⟨ih.1, ?_⟩
      intro σ hσ; simp at hσ; rcases hσ with rfl | hσ
      · exact e0
      · exact ih.2 σ hσ

example : (5 : Name) ∉ tgtNames [.id 0, .wild] := by simp [tgtNames]

/-- a single named argument holds Null after the loop (`IterNext` stores Null on exhaustion) -/
theorem forUnpack_single_null (x : Name) (it : Val) (ρ ρ' : Env) (steps : List Env)
    (h : forUnpack [.id x] it ρ = some (steps, ρ')) : ρ' x = .null := by
  unfold forUnpack at h
  cases he : elems it with
  | none => simp [he] at h
  | some es =>
    simp [he] at h; obtain ⟨a, b, _, _, h3⟩ := h
    subst h3; simp [Env.set]

example : ∃ steps ρ', forUnpack [.id 0] (.tuple [.bool true]) (fun _ => .bool false) = some (steps, ρ') := by
  simp [forUnpack, forSteps, elems]

/-- a loop with one argument never unpacks its elements, so it cannot fail on them -/
theorem forSteps_single_total (t : Tgt) (es : List Val) (ρ : Env) :
    (forSteps [t] es ρ).isSome = true := by
  induction es generalizing ρ with
  | nil => simp [forSteps]
  | cons e es ih =>
    rw [forSteps_cons]
    cases t with
    | id x => simp [bodyEnv]; exact ih _
    | wild => simp [bodyEnv]; exact ih _

/-- a loop with several arguments raises exactly when some element cannot be iterated -/
theorem forSteps_none_iff (ts : List Tgt) (hts : 2 ≤ ts.length) : ∀ (es : List Val) (ρ : Env),
    forSteps ts es ρ = none ↔ ∃ e ∈ es, elems e = none
  | [], ρ => by simp [forSteps]
  | e :: es, ρ => by
    rw [forSteps_cons, bodyEnv_multi ts e ρ hts]
    cases he : elems e with
    | none => simp [he]
    | some xs => simp [he, forSteps_none_iff ts hts es]

/-! ## strings: `splitChars` -/

/-- round trip: concatenating the characters gives back the bytes -/
theorem splitChars_flatten : ∀ (bs cur : List Nat),
    (splitChars bs cur).flatten = cur.reverse ++ bs
  | [], cur => by
    unfold splitChars; cases cur <;> simp
  | b :: bs, cur => by
    unfold splitChars
    split
    · rw [splitChars_flatten bs (b :: cur)]; simp
    · rw [List.flatten_append, splitChars_flatten bs [b]]
      cases cur <;> simp

/-- no character is empty -/
theorem splitChars_nonempty : ∀ (bs cur : List Nat) (c : List Nat),
    c ∈ splitChars bs cur → c ≠ []
  | [], cur, c, h => by
    unfold splitChars at h; cases cur <;> simp at h
    subst h; simp
  | b :: bs, cur, c, h => by
    unfold splitChars at h
    split at h
    · exact splitChars_nonempty bs (b :: cur) c h
    · rw [List.mem_append] at h
      rcases h with h | h
      · cases cur <;> simp at h
        subst h; simp
      · exact splitChars_nonempty bs [b] c h

/-- on ASCII (more generally: no continuation byte) every byte is its own character, so the byte
view used by `match` and the character view used by unpacking coincide -/
theorem splitChars_ascii : ∀ (bs : List Nat), (∀ b ∈ bs, isCont b = false) →
    ∀ (b0 : Nat), splitChars bs [b0] = [b0] :: bs.map (fun b => [b])
  | [], _, b0 => by simp [splitChars]
  | b :: bs, h, b0 => by
    have hb : isCont b = false := h b (by simp)
    unfold splitChars
    simp [hb]
    exact splitChars_ascii bs (fun c hc => h c (by simp [hc])) b

example : ∀ b ∈ [104, 105], isCont b = false := by decide

theorem splitChars_noCont (bs : List Nat) (h : noCont bs = true) :
    splitChars bs [] = bs.map (fun b => [b]) := by
  have h' : ∀ b ∈ bs, isCont b = false := by
    simpa [noCont, List.all_eq_true] using h
  cases bs with
  | nil => simp [splitChars]
  | cons b bs =>
    have hb : isCont b = false := h' b (by simp)
    unfold splitChars
    simp [hb]
    exact splitChars_ascii bs (fun c hc => h' c (by simp [hc])) b

theorem strBounds_single (bs : List Nat) (h : noCont bs = true) (i : Nat) (hi : i < bs.length) :
    strBounds bs i (i + 1) = .str [bs[i]] := by
  have b1 := Match.boundary_of_noCont bs i h (by omega)
  have b2 := Match.boundary_of_noCont bs (i + 1) h (by omega)
  have hd := List.drop_eq_getElem_cons hi
  unfold strBounds
  have hle : (i ≤ i + 1 && i + 1 ≤ bs.length && boundary bs i && boundary bs (i + 1)) = true := by
    simp [b1, b2]; omega
  have h1 : i + 1 - i = 1 := by omega
  rw [if_pos hle, hd, h1]
  rfl

/-- on a string without multi-byte characters the element list `match` destructures (byte view,
`Match.view`) is the element list unpacking iterates (`Unpack.elems`, characters): the universal
form of `ascii_string_view_witness`; F-C03-10 is confined to the complement -/
theorem str_view_eq_elems (bs : List Nat) (h : noCont bs = true) :
    (view (.str bs)).map Prod.fst = elems (.str bs) := by
  simp only [view, h, elems, splitChars_noCont bs h, if_true, Option.map_some, List.map_map]
  congr 1
  apply List.ext_getElem
  · simp
  · intro i h1 h2
    have hi : i < bs.length := by simpa using h1
    simp [strBounds_single bs h i hi]

example : noCont [104, 105] = true := by decide

/-! ## `forUnpack` (what the driver's `for` request runs) -/

/-- a `for` loop is `forSteps` over the iterable's elements; only a single named argument is
touched afterwards (set to Null) -/
theorem forUnpack_spec (ts : List Tgt) (it : Val) (ρ ρ' : Env) (steps : List Env)
    (h : forUnpack ts it ρ = some (steps, ρ')) :
    ∃ es ρl, elems it = some es ∧ forSteps ts es ρ = some (steps, ρl) ∧ steps.length = es.length ∧
      (ρ' = ρl ∨ ∃ x, ts = [.id x] ∧ ρ' = ρl.set x .null) := by
  unfold forUnpack at h
  cases he : elems it with
  | none => simp [he] at h
  | some es =>
    simp only [he] at h
    cases hf : forSteps ts es ρ with
    | none => simp [hf] at h
    | some r =>
      obtain ⟨a, b⟩ := r
      simp only [hf, Option.map_some, Option.some.injEq] at h
      split at h
      · rename_i x
        simp at h; obtain ⟨rfl, rfl⟩ := h
        exact ⟨es, b, rfl, hf, forSteps_length _ es ρ b a hf, Or.inr ⟨x, rfl, rfl⟩⟩
      · simp at h; obtain ⟨rfl, rfl⟩ := h
        exact ⟨es, b, rfl, hf, forSteps_length _ es ρ b a hf, Or.inl rfl⟩

/-- a `for` loop writes only its named arguments, at every body entry and afterwards -/
theorem forUnpack_frame (ts : List Tgt) (y : Name) (hy : y ∉ tgtNames ts) (it : Val) (ρ ρ' : Env)
    (steps : List Env) (h : forUnpack ts it ρ = some (steps, ρ')) :
    ρ' y = ρ y ∧ ∀ σ ∈ steps, σ y = ρ y := by
  obtain ⟨es, ρl, _, hf, _, hr⟩ := forUnpack_spec ts it ρ ρ' steps h
  have fr := forSteps_frame ts y hy es ρ ρl steps hf
  refine ⟨?_, fr.2⟩
  rcases hr with rfl | ⟨x, rfl, rfl⟩
  · exact fr.1
  · have hx : y ≠ x := by simpa [tgtNames] using hy
    simp [Env.set, hx, fr.1]

/-- with several arguments the registers after the loop are those of the last body entry -/
theorem forUnpack_multi_keeps_last (ts : List Tgt) (hts : 2 ≤ ts.length) (it : Val) (ρ ρ' : Env)
    (steps : List Env) (h : forUnpack ts it ρ = some (steps, ρ')) :
    ρ' = steps.getLast?.getD ρ := by
  obtain ⟨es, ρl, _, hf, _, hr⟩ := forUnpack_spec ts it ρ ρ' steps h
  rcases hr with rfl | ⟨x, rfl, _⟩
  · exact forSteps_final ts es ρ _ steps hf
  · simp at hts

/-- the body of `for … in it` is entered once per element, in particular never for an empty one -/
theorem forUnpack_length (ts : List Tgt) (it : Val) (ρ ρ' : Env) (steps : List Env) (es : List Val)
    (he : elems it = some es) (h : forUnpack ts it ρ = some (steps, ρ')) :
    steps.length = es.length := by
  obtain ⟨es', _, he', _, hl, _⟩ := forUnpack_spec ts it ρ ρ' steps h
  rw [he] at he'; cases he'; exact hl

/-- a bounded range yields `stop - start` elements (one more when inclusive, none when reversed),
the `i`-th being `start + i` -/
theorem elems_range (a e : Int64) (incl : Bool) (xs : List Val)
    (h : elems (.range (some a) (some (e, incl))) = some xs) :
    xs.length = ((if incl then e.toInt + 1 else e.toInt) - a.toInt).toNat ∧
    ∀ (i : Nat) (hi : i < xs.length), xs[i] = Val.num (.i (Int64.ofInt (a.toInt + (i : Int)))) := by
  simp only [elems, Option.some.injEq] at h
  subst h
  refine ⟨by simp, ?_⟩
  intro i hi
  simp

example : ∃ xs, elems (.range (some 1) (some (3, true))) = some xs := ⟨_, rfl⟩

/-! ## `multiAssign` (what the driver's `ma` request runs): the property's clause -/

/-- `a, b, … = rhs`: target `i` receives element `i` of the iterated right-hand side, Null when it
is missing; extras and `_` targets are ignored; nothing but the named targets is written -/
theorem multiAssign_binds (ts : List Tgt) (rhs : Val) (ρ ρ' : Env) (r : Val) (xs : List Val)
    (he : elems rhs = some xs) (h : multiAssign ts rhs ρ = some (ρ', r)) :
    (∀ (i : Nat) (x : Name), ts[i]? = some (.id x) → x ∉ tgtNames (ts.drop (i + 1)) →
        ρ' x = xs[i]?.getD .null) ∧
    (∀ y, y ∉ tgtNames ts → ρ' y = ρ y) := by
  simp [multiAssign, he] at h
  obtain ⟨rfl, _⟩ := h
  exact ⟨fun i x hi hn => assign_get ts xs ρ i x hi hn, fun y hy => assign_frame ts xs ρ y hy⟩

/-- a value that is not iterable is unpacked as a one-element stream: `a, b = 5` gives `a = 5`,
`b = null` -/
theorem multiAssign_scalar (x y : Name) (n : Num) (ρ : Env) :
    ∃ ρ', multiAssign [.id x, .id y] (.num n) ρ = some (ρ', .num n) ∧ (x ≠ y → ρ' x = .num n) ∧
      ρ' y = .null ∧ ∀ z, z ≠ x → z ≠ y → ρ' z = ρ z := by
  refine ⟨assign [.id x, .id y] [.num n] ρ, by simp [multiAssign, elems], ?_, ?_, ?_⟩
  · intro hxy; simp [assign, Env.set, hxy]
  · simp [assign, Env.set]
  · intro z hx hy; simp [assign, Env.set, hx, hy]

example : elems (.tuple [.null, .bool true]) = some [.null, .bool true] := rfl

end KotoVerif.C03Ext
