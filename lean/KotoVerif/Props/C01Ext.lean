/-
C01 extension: theorems about the number operations of `Model/NumOps.lean` that the C01 driver runs
through `Core.eval` (`Num.cmp` and the primed order predicates behind `< <= > >=`, `Num.rem`,
`Num.pow`, `Num.intDigits`) and about `Core.cmpV`, none of which had a theorem so far.
-/
import KotoVerif.Model.NumOps
import KotoVerif.Model.CoreEval

namespace KotoVerif.C01Ext
open KotoVerif KotoVerif.Core KotoVerif.Num

/-! ### `impl Ord for KNumber` on integers is the `i64` order -/

theorem cmp_int_lt_iff (F : FloatOps) (a b : Int64) : cmp F (.i a) (.i b) = .lt ↔ a < b := by
  simp only [cmp]
  split
  · simp_all
  · split <;> simp_all

theorem cmp_int_gt_iff (F : FloatOps) (a b : Int64) : cmp F (.i a) (.i b) = .gt ↔ b < a := by
  simp only [cmp]
  split
  · rename_i h
    have h1 := Int64.lt_iff_toInt_lt.mp h
    constructor
    · intro h'; cases h'
    · intro h'; have h2 := Int64.lt_iff_toInt_lt.mp h'; omega
  · split <;> simp_all

theorem cmp_int_eq_iff (F : FloatOps) (a b : Int64) : cmp F (.i a) (.i b) = .eq ↔ a = b := by
  simp only [cmp]
  split
  · rename_i h
    have h1 := Int64.lt_iff_toInt_lt.mp h
    constructor
    · intro h'; cases h'
    · intro h'; subst h'; omega
  · split
    · rename_i h
      have h1 := Int64.lt_iff_toInt_lt.mp h
      constructor
      · intro h'; cases h'
      · intro h'; subst h'; omega
    · rename_i h1 h2
      constructor
      · intro _
        apply Int64.toInt_inj.mp
        have h3 : ¬ a.toInt < b.toInt := fun h => h1 (Int64.lt_iff_toInt_lt.mpr h)
        have h4 : ¬ b.toInt < a.toInt := fun h => h2 (Int64.lt_iff_toInt_lt.mpr h)
        omega
      · intro _; rfl

/-- antisymmetry of the integer ordering: swapping the operands swaps the outcome -/
theorem cmp_int_swap (F : FloatOps) (a b : Int64) :
    cmp F (.i b) (.i a) = (cmp F (.i a) (.i b)).swap := by
  cases h : cmp F (.i a) (.i b)
  · have := (cmp_int_lt_iff F a b).mp h
    simpa [Ordering.swap] using (cmp_int_gt_iff F b a).mpr this
  · have := (cmp_int_eq_iff F a b).mp h
    simpa [Ordering.swap] using (cmp_int_eq_iff F b a).mpr this.symm
  · have := (cmp_int_gt_iff F a b).mp h
    simpa [Ordering.swap] using (cmp_int_lt_iff F b a).mpr this

/-- `<` on two integer numbers is transitive (whatever the float operations are) -/
theorem lt'_int_trans (F : FloatOps) (a b c : Int64)
    (h₁ : lt' F (.i a) (.i b) = true) (h₂ : lt' F (.i b) (.i c) = true) :
    lt' F (.i a) (.i c) = true := by
  simp only [lt', beq_iff_eq] at *
  rw [cmp_int_lt_iff] at *
  have := Int64.lt_iff_toInt_lt.mp h₁
  have := Int64.lt_iff_toInt_lt.mp h₂
  exact Int64.lt_iff_toInt_lt.mpr (by omega)

example : lt' ⟨fun x _ => x, fun x _ => x, fun x _ => x, fun x _ => x, fun x _ => x, fun x _ => x,
    id, fun _ _ => false, fun _ _ => false, fun _ _ => false, fun _ => 0, fun _ => 0, fun _ => false⟩
    (.i 1) (.i 2) = true := by decide

/-! ### the four order predicates, for every pair of numbers (ints, floats, NaN) and every `FloatOps` -/

/-- `a <= b` is exactly `not (a > b)` — also when a NaN is involved (this is where Koto differs from
IEEE, see the header of `Model/NumOps.lean`) -/
theorem le'_eq_not_gt' (F : FloatOps) (a b : Num) : le' F a b = !gt' F a b := by
  simp only [le', gt']; cases cmp F a b <;> rfl

theorem ge'_eq_not_lt' (F : FloatOps) (a b : Num) : ge' F a b = !lt' F a b := by
  simp only [ge', lt']; cases cmp F a b <;> rfl

/-- `<` and `>` never both hold -/
theorem lt'_gt'_exclusive (F : FloatOps) (a b : Num) : (lt' F a b && gt' F a b) = false := by
  simp only [lt', gt']; cases cmp F a b <;> rfl

/-- totality: `a <= b or a >= b` for every pair of numbers, NaN included -/
theorem le'_or_ge' (F : FloatOps) (a b : Num) : (le' F a b || ge' F a b) = true := by
  simp only [le', ge']; cases cmp F a b <;> rfl

/-- `a <= b and a >= b` is exactly "the total ordering says equal" -/
theorem le'_and_ge'_iff (F : FloatOps) (a b : Num) :
    (le' F a b && ge' F a b) = true ↔ cmp F a b = .eq := by
  simp only [le', ge']; cases cmp F a b <;> simp

/-- the float branch of `cmp` as a function of the five observations it makes -/
def ordCore (l g e na nb : Bool) : Ordering :=
  if l then .lt else if g then .gt else if e then .eq
  else match na, nb with
    | false, true => .lt
    | true, false => .gt
    | _, _ => .eq

theorem cmp_float_core (F : FloatOps) (a b : Num) (h : (a.isFloat || b.isFloat) = true) :
    cmp F a b = ordCore (F.lt (a.toF F) (b.toF F)) (F.lt (b.toF F) (a.toF F))
      (F.eq (a.toF F) (b.toF F)) (isNaN F a) (isNaN F b) := by
  cases a <;> cases b <;> simp_all [isFloat] <;> rfl

example : ((Num.i 1).isFloat || (Num.f 0).isFloat) = true := by decide

theorem ordCore_swap (l g e na nb : Bool) (h : (l && g) = false) :
    ordCore g l e nb na = (ordCore l g e na nb).swap := by
  cases l <;> cases g <;> cases e <;> cases na <;> cases nb <;> simp_all [ordCore, Ordering.swap]

example : (true && false) = false := by decide

/-- general antisymmetry: with an asymmetric float `<` and a symmetric float `==`, swapping the
operands of the total ordering swaps the outcome, for every mix of ints, floats and NaNs -/
theorem cmp_swap (F : FloatOps) (hasym : ∀ x y, F.lt x y = true → F.lt y x = false)
    (hsym : ∀ x y, F.eq x y = F.eq y x) (a b : Num) :
    cmp F b a = (cmp F a b).swap := by
  by_cases hf : (a.isFloat || b.isFloat) = true
  · rw [cmp_float_core F a b hf, cmp_float_core F b a (by rw [Bool.or_comm]; exact hf),
      hsym (b.toF F) (a.toF F)]
    apply ordCore_swap
    have := hasym (a.toF F) (b.toF F)
    cases h1 : F.lt (a.toF F) (b.toF F) <;> simp_all
  · cases a <;> cases b <;> simp_all [isFloat]
    exact cmp_int_swap F _ _

/-- a number is never below itself as soon as the float `<` is irreflexive (NaN included) -/
theorem lt'_irrefl (F : FloatOps) (hirr : ∀ x, F.lt x x = false) (a : Num) : lt' F a a = false := by
  cases a with
  | i n =>
    have : ¬ cmp F (.i n) (.i n) = .lt := by
      rw [cmp_int_lt_iff]; intro h; have := Int64.lt_iff_toInt_lt.mp h; omega
    simpa [lt'] using this
  | f x =>
    have h := cmp_float_core F (.f x) (.f x) (by simp [isFloat])
    simp only [lt', h, toF, hirr]
    cases F.eq x x <;> cases isNaN F (.f x) <;> simp [ordCore]

/-- a toy `FloatOps` (bit patterns ordered as naturals) satisfying the hypotheses of `cmp_swap` and
`lt'_irrefl` -/
def toyF : FloatOps :=
  ⟨fun x _ => x, fun x _ => x, fun x _ => x, fun x _ => x, fun x _ => x, fun x _ => x,
    id, fun x y => decide (x.toNat < y.toNat), fun x y => decide (x.toNat ≤ y.toNat),
    fun x y => decide (x.toNat = y.toNat), fun n => n.toUInt64, fun u => u.toInt64, fun _ => false⟩

example : (∀ x y, toyF.lt x y = true → toyF.lt y x = false) ∧ (∀ x y, toyF.eq x y = toyF.eq y x) ∧
    (∀ x, toyF.lt x x = false) := by
  refine ⟨?_, ?_, ?_⟩
  · intro x y h; simp [toyF] at *; omega
  · intro x y; simp [toyF]; exact eq_comm
  · intro x; simp [toyF]

/-! ### `Core.cmpV` -/

/-- the four ordering operators fail on exactly the same operand pairs, and when they succeed
`<=` is `not >` and `>=` is `not <` — for numbers and for strings alike -/
theorem cmpV_le_not_gt (F : FloatOps) (a b : Val) :
    cmpV F .le a b = (cmpV F .gt a b).map (!·) := by
  cases a <;> cases b <;> simp [cmpV, Except.map, le'_eq_not_gt']

theorem cmpV_ge_not_lt (F : FloatOps) (a b : Val) :
    cmpV F .ge a b = (cmpV F .lt a b).map (!·) := by
  cases a <;> cases b <;> simp [cmpV, Except.map, ge'_eq_not_lt']

/-- `a > b` is `b < a` with the operands swapped, for integer numbers and all strings -/
theorem cmpV_gt_swap_str (F : FloatOps) (x y : List Nat) :
    cmpV F .gt (.str x) (.str y) = cmpV F .lt (.str y) (.str x) := by
  simp [cmpV]

theorem cmpV_gt_swap_int (F : FloatOps) (m n : Int64) :
    cmpV F .gt (.num (.i m)) (.num (.i n)) = cmpV F .lt (.num (.i n)) (.num (.i m)) := by
  simp only [cmpV, gt', lt', cmp_int_swap F n m]
  cases cmp F (.i n) (.i m) <;> rfl

/-- `!=` is the negation of `==` and neither ever fails -/
theorem cmpV_ne_not_eq (F : FloatOps) (a b : Val) :
    cmpV F .ne a b = (cmpV F .eq a b).map (!·) := by
  simp [cmpV, Except.map]

/-! ### `%` and `^`: when the float unit is not involved the result does not depend on it -/

/-- if `remUsesFloat` says "no float", `%` gives the same result under every `FloatOps` -/
theorem rem_float_independent (F G : FloatOps) (a b : Num) (h : remUsesFloat a b = false) :
    rem F a b = rem G a b := by
  cases a <;> cases b <;> simp_all [rem, remUsesFloat, isFloat] <;> split <;> simp_all

example : remUsesFloat (.i 7) (.i 3) = false := by decide
example : remUsesFloat (.f 1) (.i 0) = false := by decide

/-- if `remUsesFloat` says "float", the result of `%` is a float -/
theorem rem_uses_float_isFloat (F : FloatOps) (a b : Num) (h : remUsesFloat a b = true) :
    (rem F a b).isFloat = true := by
  cases a <;> cases b <;> simp_all [rem, remUsesFloat, isFloat] <;> split <;> simp_all

example : remUsesFloat (.f 1) (.i 2) = true := by decide

/-- an integer zero divisor gives the quiet NaN whatever the dividend is -/
theorem rem_zero_divisor (F : FloatOps) (a : Num) : rem F a (.i 0) = .f nanBits := by
  simp [rem]

/-- two ints with a non-zero divisor stay int -/
theorem rem_int_stays_int (F : FloatOps) (n d : Int64) (hd : d ≠ 0) :
    (rem F (.i n) (.i d)).isFloat = false := by
  simp [rem, hd, isFloat]

example : (1 : Int64) ≠ 0 := by decide

theorem pow_float_independent (F G : FloatOps) (a b : Num) (h : powUsesFloat a b = false) :
    pow F a b = pow G a b := by
  cases a with
  | f x => cases b <;> simp [powUsesFloat] at h
  | i m =>
    cases b with
    | f y => simp [powUsesFloat] at h
    | i n =>
      have hb : decide (n < 0) = false := h
      have hb' : ¬ n < 0 := of_decide_eq_false hb
      simp only [pow, if_neg hb']

example : powUsesFloat (.i 2) (.i 10) = false := by decide

theorem pow_uses_float_isFloat (F : FloatOps) (a b : Num) (h : powUsesFloat a b = true) :
    (pow F a b).isFloat = true := by
  cases a <;> cases b <;> simp_all [pow, powUsesFloat, isFloat]

example : powUsesFloat (.i 2) (.i (-1)) = true := by decide

/-! ### decimal text of integers -/

def isDigit (c : Nat) : Prop := 48 ≤ c ∧ c ≤ 57

theorem natDigitsAux_digits : ∀ (fuel n : Nat) (acc : List Nat), (∀ c ∈ acc, isDigit c) →
    ∀ c ∈ natDigitsAux fuel n acc, isDigit c := by
  intro fuel
  induction fuel with
  | zero => intro n acc h; simpa [natDigitsAux] using h
  | succ k ih =>
    intro n acc h
    have h' : ∀ c ∈ (48 + n % 10) :: acc, isDigit c := by
      intro c hc
      rcases List.mem_cons.mp hc with rfl | hc
      · constructor <;> omega
      · exact h c hc
    simp only [natDigitsAux]
    split
    · exact h'
    · exact ih _ _ h'

theorem natDigitsAux_ne_nil (fuel n : Nat) (acc : List Nat) :
    natDigitsAux (fuel + 1) n acc ≠ [] := by
  induction fuel generalizing n acc with
  | zero => simp [natDigitsAux]
  | succ k ih =>
    rw [natDigitsAux]
    split
    · simp
    · exact ih _ _

/-- the text of a natural number is a non-empty string of ASCII digits -/
theorem natDigits_digits (n : Nat) : natDigits n ≠ [] ∧ ∀ c ∈ natDigits n, isDigit c :=
  ⟨natDigitsAux_ne_nil 39 n [], natDigitsAux_digits 40 n [] (by simp)⟩

/-- `format!("{n}")` of an `i64`: a `-` exactly for negative numbers, then a non-empty digit string -/
theorem intDigits_shape (n : Int64) :
    ∃ ds, ds ≠ [] ∧ (∀ c ∈ ds, isDigit c) ∧
      intDigits n = if n.toInt < 0 then 45 :: ds else ds := by
  refine ⟨natDigits n.toInt.natAbs, (natDigits_digits _).1, (natDigits_digits _).2, ?_⟩
  simp only [intDigits]

/-! ### round trip: reading the decimal text back gives the number -/

def decode (ds : List Nat) : Nat := ds.foldl (fun a c => a * 10 + (c - 48)) 0

def decodeInt : List Nat → Int
  | 45 :: r => -(decode r : Int)
  | r => (decode r : Int)

theorem natDigitsAux_decode : ∀ (fuel n : Nat) (acc : List Nat), n < 10 ^ fuel →
    (natDigitsAux fuel n acc).foldl (fun a c => a * 10 + (c - 48)) 0
      = acc.foldl (fun a c => a * 10 + (c - 48)) n := by
  intro fuel
  induction fuel with
  | zero =>
    intro n acc h
    have : n = 0 := by simpa using h
    subst this; simp [natDigitsAux]
  | succ k ih =>
    intro n acc h
    simp only [natDigitsAux]
    split
    · rename_i h0
      have : n % 10 = n := by omega
      simp [List.foldl_cons, this]
    · have hk : n / 10 < 10 ^ k := by
        rw [Nat.pow_succ] at h; omega
      rw [ih _ _ hk]
      have : n / 10 * 10 + n % 10 = n := by omega
      simp [List.foldl_cons, this]

/-- every natural number below 10⁴⁰ is recovered from its decimal text -/
theorem natDigits_roundtrip (n : Nat) (h : n < 10 ^ 40) : decode (natDigits n) = n := by
  have := natDigitsAux_decode 40 n [] h
  simpa [decode, natDigits] using this

example : (12345 : Nat) < 10 ^ 40 := by decide

/-- every `i64` is recovered from its `format!("{n}")` text: the rendering is injective and exact,
`i64::MIN` included -/
theorem intDigits_roundtrip (n : Int64) : decodeInt (intDigits n) = n.toInt := by
  have hlo := Int64.le_toInt n
  have hhi := Int64.toInt_lt n
  have hb : n.toInt.natAbs < 10 ^ 40 := by omega
  have hr := natDigits_roundtrip _ hb
  simp only [intDigits]
  split
  · simp only [decodeInt, hr]; omega
  · obtain ⟨hne, hd⟩ := natDigits_digits n.toInt.natAbs
    cases hl : natDigits n.toInt.natAbs with
    | nil => exact absurd hl hne
    | cons c r =>
      have hc : isDigit c := hd c (by simp [hl])
      have hc45 : c ≠ 45 := by unfold isDigit at hc; omega
      rw [hl] at hr
      unfold decodeInt
      split
      · rename_i heq; simp at heq; exact absurd heq.1 hc45
      · rw [hr]; omega

theorem intDigits_injective (a b : Int64) (h : intDigits a = intDigits b) : a = b := by
  apply Int64.toInt_inj.mp
  rw [← intDigits_roundtrip a, ← intDigits_roundtrip b, h]

example : intDigits 7 = intDigits 7 := rfl

end KotoVerif.C01Ext
