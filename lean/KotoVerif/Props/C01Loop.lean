/-
C01 (layer 5, loops) — the compiler's treatment of `while` / `until` / `loop`, `break` and
`continue` in statement position is correct: property theorems about `Model/CompileLoop.lean`
(tied to `koto_bytecode::Compiler` by the instruction-for-instruction correspondence K2,
`harness/src/bin/c01k2.rs`, request kind `compileS`).

"The outcome of an expression does not depend on the code that surrounds it": a loop body is
compiled once, in the compile-time frame at loop entry, and executed many times, with `break` /
`continue` jumping out of arbitrarily nested `if`s. `compileS_correct` quantifies over every
well-formed frame without a pending reservation (any committed locals, any number of live
temporaries), every operator semantics, every register file related to the environment, and every
fuel of the reference evaluation; the expression parts are the core's `compile_correct_any_context`.
-/
import KotoVerif.Props.C01Compile
import KotoVerif.Lemmas.C01LoopFlat
import KotoVerif.Lemmas.C01LoopBridge

namespace KotoVerif.C01
open KotoVerif.Compile

variable {S : Sem}

/-- **compileS_correct.** Let the statement `s` compile (inside or outside of a loop — `break` /
`continue` outside of a loop do not compile) in a well-formed frame `F` with no assignment in
progress, and let every expression of `s` satisfy the core's static side conditions. If the
register file agrees with the environment on all locals and the reference semantics completes with
signal `sig` (normal / break / continue travelling to the enclosing loop) and environment `ρ'`,
then the emitted loop code completes with the *same signal*, the register file agrees with `ρ'`
(in the frame after `s`), and every live temporary of the surrounding code is untouched. -/
theorem compileS_correct (s : Stmt) (inLoop : Bool) (F : Frame) (code : LCode) (F' : Frame)
    (hc : compileS s inLoop F = some (code, F')) (hw : WF F) (hn : NoRes F) (hs : safeS s = true)
    (σ : Regs S) (ρ ρ' : Env S) (sig : Sig) (n : Nat)
    (hrel : RelEx [] F σ ρ) (hev : evalS S n s ρ = .ok (sig, ρ')) :
    ∃ n' σ', execL S n' code σ = .ok (sig, σ') ∧ RelEx [] F' σ' ρ' ∧
      (∀ t, F.tb ≤ t → t < F.tb + F.tc → σ' t = σ t) :=
  compileS_sem n s inLoop F code F' hc hw hn hs σ ρ ρ' sig hrel hev

/-- more fuel never changes the result of the loop code (so `n'` above can be any larger number) -/
theorem execL_fuel_mono (n m : Nat) (c : LCode) (σ : Regs S) (r : Sig × Regs S)
    (h : execL S n c σ = .ok r) (hm : n ≤ m) : execL S m c σ = .ok r :=
  execL_mono n c σ r h m hm

/-- **frame discipline of the statement compiler**: every temporary is handed back (`tc`
unchanged), the temporary base is constant, committed and reserved locals keep their registers,
the frame stays well-formed, no reservation is left pending, and the NewFrame register count
(`temporaries_used_in_frame`) only grows — for every statement and every well-formed frame. -/
theorem compileS_frame_discipline (s : Stmt) (inLoop : Bool) (F : Frame) (code : LCode) (F' : Frame)
    (hc : compileS s inLoop F = some (code, F')) (hw : WF F) :
    F'.tc = F.tc ∧ F'.tb = F.tb ∧ F.tmax ≤ F'.tmax ∧ WF F' ∧
      (∀ k y, Has F k y → Has F' k y) ∧ (∀ k y, Named F k y → Named F' k y) ∧ (NoRes F → NoRes F') := by
  have sf := compileS_frame s inLoop F code F' hc hw
  exact ⟨sf.tc, sf.le.tb, compileS_tmax s inLoop F code F' hc, sf.wf, sf.le.has, sf.le.named, sf.noRes⟩

/-- **a loop body's code is independent of the iteration**: compiling the statement again in the
frame it produced (the frame every iteration after the first runs in) emits the same code and
leaves the locals as they are. -/
theorem compileS_idempotent (s : Stmt) (inLoop : Bool) (F : Frame) (code : LCode) (F' : Frame)
    (hc : compileS s inLoop F = some (code, F')) (hw : WF F) (hn : NoRes F) :
    ∃ G', compileS s inLoop F' = some (code, G') ∧ G'.locals = F'.locals ∧ G'.tb = F'.tb ∧ G'.tc = F'.tc := by
  obtain ⟨G', h1, h2, h3⟩ := compileS_again hc hw hn
  exact ⟨G', h1, h2.1, h2.2, h3⟩

/-- `break` / `continue` never escape: a statement compiled outside of a loop completes normally -/
theorem top_level_completes_normally (s : Stmt) (F : Frame) (code : LCode) (F' : Frame)
    (hc : compileS s false F = some (code, F')) (ρ ρ' : Env S) (sig : Sig) (n : Nat)
    (hev : evalS S n s ρ = .ok (sig, ρ')) : sig = .normal :=
  evalS_top_normal n s F code F' hc ρ ρ' sig hev

/-- **flattenL_correct.** For code in which `brk` / `cont` occur only inside loops (all code that
`compileS … false` emits, `compileS_emits_closed`): whenever the structured code completes, it
completes normally, and the flat stream — relative forward jumps and `JumpBack`, as the real
compiler emits them — run from pc 0 falls off its end (pc = length) with the same registers, for
every sufficiently large fuel; and a fault of the structured code is a fault of the flat stream. -/
theorem flattenL_correct (c : LCode) (hcl : closedL false c = true) (n : Nat) (σ : Regs S) :
    (∀ sg σ', execL S n c σ = .ok (sg, σ') →
      sg = .normal ∧ ∃ m, ∀ K, m ≤ K → execLFlat S (flattenL c) K 0 σ = .ok σ') ∧
    (execL S n c σ = .err → ∃ m, ∀ K, m ≤ K → execLFlat S (flattenL c) K 0 σ = .err) :=
  ⟨fun _ _ h => flattenL_ok hcl h, fun h => flattenL_err h⟩

theorem compileS_emits_closed (s : Stmt) (inLoop : Bool) (F : Frame) (code : LCode) (F' : Frame)
    (hc : compileS s inLoop F = some (code, F')) : closedL inLoop code = true :=
  compileS_closed s inLoop F code F' hc

/-- the simulation behind `flattenL_correct`, for a piece of code anywhere in a program: from
`base` it reaches `base + size` on normal completion, the instruction after the enclosing loop's
final JumpBack on `break`, the enclosing loop's first instruction on `continue` -/
theorem flattenL_simulation (n : Nat) (c : LCode) (pre post : Nat) (prog : List LFlat) (base : Nat)
    (σ : Regs S) (hat : At prog base (flatAux c pre post)) (hpre : pre ≤ base) (sg : Sig) (σ' : Regs S)
    (h : execL S n c σ = .ok (sg, σ')) :
    ∃ m, ∀ K, execLFlat S prog (m + K) base σ =
      execLFlat S prog K (match sg with
        | .normal => base + sizeL c | .brk => base + sizeL c + post | .cont => base - pre) σ' := by
  have := (flat_sim n c pre post prog base σ hat hpre).1 sg σ' h
  cases sg <;> exact this

/-- **termination / partial correctness of main-block statements, on the flat stream.** If the
reference evaluation of `s` from the empty environment terminates with `ρ'`, then the flat stream
the compiler emits for `s`, run from *any* register file, terminates by falling off its end (for
every sufficiently large fuel), and every variable of `ρ'` is in its committed register. -/
theorem compileS_correct_main (s : Stmt) (lc : Nat) (code : LCode) (F' : Frame)
    (hc : compileS s false (mainFrame lc) = some (code, F')) (hs : safeS s = true)
    (σ : Regs S) (ρ' : Env S) (sig : Sig) (n : Nat)
    (hev : evalS S n s (fun _ => none) = .ok (sig, ρ')) :
    sig = .normal ∧ ∃ m σ', (∀ K, m ≤ K → execLFlat S (flattenL code) K 0 σ = .ok σ') ∧
      (∀ x w, ρ' x = some w → ∃ q, Has F' q x ∧ σ' q = w) := by
  have hnr : NoRes (mainFrame lc) := by
    intro k x hk
    simp only [mainFrame] at hk
    cases k with
    | zero => simp at hk
    | succ k => simp at hk
  obtain ⟨n', σ', h1, h2, _⟩ := compileS_sem n s false (mainFrame lc) code F' hc (mainFrame_wf lc) hnr hs
    σ (fun _ => none) ρ' sig (by intro x w hx; simp at hx) hev
  obtain ⟨hsg, m, hm⟩ := flattenL_ok (compileS_closed s false _ code F' hc) h1
  exact ⟨hsg, m, σ', hm, fun x w hx => h2 x w hx (by simp)⟩

/-- **whole main blocks as K2 compares them** (`compileProg`: the statements `s`, then a final
expression `e` compiled with `Any` whose register is returned): the flat stream run from any
register file terminates with the value of `e` in the returned register and every variable in its
committed register. -/
theorem compileProg_correct (s : Stmt) (e : Expr) (lc : Nat) (stream : List LFlat) (out : Out) (F' : Frame)
    (hc : compileProg s e lc = some (stream, out, F')) (hs : safeS s = true) (he : safe [] none e = true)
    (σ : Regs S) (ρ1 ρ' : Env S) (sig : Sig) (v : S.V) (n : Nat)
    (hev : evalS S n s (fun _ => none) = .ok (sig, ρ1)) (hee : eval S e ρ1 = some (v, ρ')) :
    ∃ m σ' r, (∀ K, m ≤ K → execLFlat S stream K 0 σ = .ok σ') ∧ out.reg = some r ∧ σ' r = v ∧
      (∀ x w, ρ' x = some w → ∃ q, Has F' q x ∧ σ' q = w) := by
  simp only [compileProg, bind, Option.bind_eq_some_iff, Prod.exists, pure, Option.some.injEq, Prod.mk.injEq] at hc
  obtain ⟨cs, F1, hcs, ce, o, F2, hce, rfl, rfl, rfl⟩ := hc
  have hnr : NoRes (mainFrame lc) := by
    intro k x hk
    simp only [mainFrame] at hk
    cases k with
    | zero => simp at hk
    | succ k => simp at hk
  have hcs' : compileS s false (mainFrame lc) = some (cs, F1) := hcs
  have sf := compileS_frame s false _ cs F1 hcs' (mainFrame_wf lc)
  obtain ⟨n', σ1, h1, h2, _⟩ := compileS_sem n s false (mainFrame lc) cs F1 hcs' (mainFrame_wf lc) hnr hs
    σ (fun _ => none) ρ1 sig (by intro x w hx; simp at hx) hev
  have hsg := execL_closed_normal n' cs (compileS_closed s false _ cs F1 hcs') σ σ1 sig h1
  subst hsg
  obtain ⟨σ2, g1, g2, g3, _⟩ := compile_sem e .any F1 ce o F2 [] none hce sf.wf trivial he σ1 ρ1 ρ' v h2 hee
  have ff := compile_frame _ _ _ _ _ _ hce sf.wf
  have hreg : ∃ r, o.reg = some r := by
    rcases ff.shape with h | ⟨_, _, r, _, hr, _⟩
    · exact ⟨_, by rw [h]⟩
    · exact ⟨r, hr⟩
  obtain ⟨r, hr⟩ := hreg
  -- the flat run: through the statements, then through the final expression
  let prog := flattenL cs ++ (flatten ce).map LFlat.ofFlat
  have hat1 : At prog 0 (flatAux cs 0 0) := ⟨[], (flatten ce).map LFlat.ofFlat, by simp [prog, flattenL], rfl⟩
  have hat2 : At prog (sizeL cs) ((flatten ce).map LFlat.ofFlat) :=
    ⟨flattenL cs, [], by simp [prog], by simp [flattenL, sizeL_flatAux]⟩
  have st1 := (flat_sim n' cs 0 0 prog 0 σ hat1 (Nat.le_refl _)).1 _ _ h1
  have st2 := base_sim (S := S) ce prog (sizeL cs) σ1 hat2
  simp only [BaseSim, g1] at st2
  simp only [target, Nat.zero_add] at st1
  obtain ⟨m, hm⟩ := st1.trans st2
  refine ⟨m + 1, σ2, r, fun K hK => ?_, hr, g3 r hr, fun x w hx => g2 x w hx (by simp [addOpt])⟩
  obtain ⟨K', rfl⟩ : ∃ K', K = m + (K' + 1) := ⟨K - m - 1, by omega⟩
  show execLFlat S prog (m + (K' + 1)) 0 σ = .ok σ2
  rw [hm]
  have hlen : sizeL cs + (flatten ce).length = prog.length := by
    simp [prog, flattenL, sizeL_flatAux]
  rw [hlen]
  simp [execLFlat]

/-! ## the error direction does not hold in the model (and why)

`evalS … = .err ⇒ execL … = .err` would need the same statement for expressions, which the core
does not have — and which is false for the reference semantics as modelled, for two reasons that
are visible at statement level:

* reading a local that is *assigned at compile time* (it has a committed register) but *not at run
  time* (the assignment was in a branch not taken) is an error of `eval`, whereas the compiled code
  just reads the register (`err_direction_witness`);
* an operator whose value is unused is not executed (known finding F-C01-3, `compile_node` with
  `ResultRegister::None`): every expression *statement* — so every loop body made of them — is
  compiled that way, and the error the operator would raise is lost
  (`err_direction_witness_unused_operator`). -/

def isErr {α : Type} : Res α → Bool
  | .err => true
  | _ => false

def isOk {α : Type} : Res α → Bool
  | .ok _ => true
  | _ => false

/-- `if false then x = 1` ; `x` -/
def progUnassignedRead : Stmt :=
  .seq (.ifThen (.bool false) (.expr (.assign 0 (.int 1)))) (.expr (.var 0))

/-- the reference semantics faults (read of an unassigned local), the compiled code does not -/
theorem err_direction_witness :
    safeS progUnassignedRead = true ∧
    isErr (evalS intSem 5 progUnassignedRead (fun _ => none)) = true ∧
    (match compileS progUnassignedRead false (mainFrame 1) with
     | some (code, _) => isOk (execL intSem 5 code (fun _ => (-1 : Int)))
     | none => false) = true := by
  refine ⟨by decide, by decide, by decide⟩

/-- `loop` / `1 / 0` / `break` (`/` faults in `intSem`) -/
def progUnusedOperator : Stmt :=
  .loopS (.seq (.expr (.bin .div (.int 1) (.int 0))) .brk)

/-- F-C01-3 at statement level: the reference semantics faults in the loop body, the compiled loop
body does not contain the division at all and the loop ends normally -/
theorem err_direction_witness_unused_operator :
    safeS progUnusedOperator = true ∧
    isErr (evalS intSem 5 progUnusedOperator (fun _ => none)) = true ∧
    (compileS progUnusedOperator false (mainFrame 0)).map (fun p => flattenL p.1)
      = some [.jump 1, .jumpBack 2] ∧
    (match compileS progUnusedOperator false (mainFrame 0) with
     | some (code, _) => isOk (execL intSem 5 code (fun _ => (-1 : Int)))
     | none => false) = true := by
  refine ⟨by decide, by decide, by decide, by decide⟩

/-! ## non-vacuity: programs that satisfy every hypothesis, run at all three levels -/

/-- compile a main-block statement and run it three ways — reference semantics, structured loop
code, flat stream (from a register file of junk) — and read the given variables (registers `x+1`:
locals in order of first assignment) -/
def runLoopMain (s : Stmt) (lc fuel : Nat) (vars : List Nat) : Option (List Int × List Int × List Int) :=
  match compileS s false (mainFrame lc), evalS intSem fuel s (fun _ => none) with
  | some (code, _), .ok (_, ρ') =>
    match execL intSem fuel code (fun _ => (-7 : Int)), execLFlat intSem (flattenL code) (8 * fuel) 0 (fun _ => (-7 : Int)) with
    | .ok (_, σ1), .ok σ2 =>
      some (vars.map (fun x => match ρ' x with | some v => (v : Int) | none => -99), vars.map (fun x => σ1 (x + 1)), vars.map (fun x => σ2 (x + 1)))
    | _, _ => none
  | _, _ => none

/-- a counting `while` loop with a `continue` and a conditional `break`:
```
x = 0; s = 0
while x < 10
  x += 1
  if x == 3 then continue
  if x == 6 then break
  s += x
```
ends with `x = 6`, `s = 1 + 2 + 4 + 5 = 12` -/
def progCount : Stmt :=
  .seq (.expr (.assign 0 (.int 0))) (.seq (.expr (.assign 1 (.int 0)))
    (.whileS (.cmp .lt (.var 0) (.int 10))
      (.seq (.expr (.compound .add 0 (.int 1)))
        (.seq (.ifThen (.cmp .eq (.var 0) (.int 3)) .cont)
          (.seq (.ifThen (.cmp .eq (.var 0) (.int 6)) .brk)
            (.expr (.compound .add 1 (.var 0))))))))

example : safeS progCount = true := by decide

example : runLoopMain progCount 2 40 [0, 1] = some ([6, 12], [6, 12], [6, 12]) := by decide

/-- nested loops, `until` around `loop`, a local first assigned inside the outer body, `break` in
an `if`/`else`:
```
i = 0; t = 0
until i == 3
  j = 0
  loop
    if j == i then break else j += 1
    t += 1
  i += 1
```
ends with `i = 3`, `t = 0 + 1 + 2 = 3`, `j = 2` -/
def progNested : Stmt :=
  .seq (.expr (.assign 0 (.int 0))) (.seq (.expr (.assign 1 (.int 0)))
    (.untilS (.cmp .eq (.var 0) (.int 3))
      (.seq (.expr (.assign 2 (.int 0)))
        (.seq (.loopS
            (.seq (.ite (.cmp .eq (.var 2) (.var 0)) .brk (.expr (.compound .add 2 (.int 1))))
              (.expr (.compound .add 1 (.int 1)))))
          (.expr (.compound .add 0 (.int 1)))))))

example : safeS progNested = true := by decide

example : runLoopMain progNested 3 40 [0, 1, 2] = some ([3, 3, 2], [3, 3, 2], [3, 3, 2]) := by decide

/-- the flat stream of `progCount`, as K2 prints it: `continue` is `JumpBack` to the condition,
`break` is `Jump` to just after the loop's own `JumpBack` -/
example : (compileS progCount false (mainFrame 2)).map (fun p => flattenL p.1) = some
    [.op (.setInt 1 0), .op (.setInt 2 0),
     .op (.setInt 4 10), .op (.binop .lt 3 1 4), .jumpIfFalse 3 12,
     .op (.setInt 3 1), .op (.compound .add 1 3),
     .op (.setInt 4 3), .op (.binop .eq 3 1 4), .jumpIfFalse 3 1, .jumpBack 9,
     .op (.setInt 4 6), .op (.binop .eq 3 1 4), .jumpIfFalse 3 1, .jump 2,
     .op (.compound .add 2 1), .jumpBack 15] := by decide

/-- `break` / `continue` outside of a loop do not compile (`InvalidLoopKeyword`) -/
example : compileS (.seq (.expr (.assign 0 (.int 0))) .brk) false (mainFrame 1) = none := by decide
example : (compileS (.ifThen (.bool true) .cont) false (mainFrame 0)).isNone = true := by decide

/-! ## against the language guide (`Core.eval`, the reference semantics that K1 ties to the runtime) -/

/-- **bridge, guide ⇒ compiler model, for statements** (`bridgeS_ok_conv`): a finished evaluation
of the embedded statement by the guide's semantics — normal completion, or a `break` / `continue`
on its way to an enclosing loop — is a finished `evalS (coreSem F)` evaluation with the same signal
and a related environment. -/
theorem bridgeS_ok_conv (F : FloatOps) (s : Stmt) (ρ : Env (coreSem F)) (st st' : Core.St)
    (fuel : Nat) (r : Core.Res Val) (sig : Sig)
    (hw : wfS s = true) (hr : EnvRel ρ st.env)
    (hev : Core.eval F fuel (toCoreS s) st = (r, st')) (hs : sigOf r = some sig) :
    ∃ n ρ', evalS (coreSem F) n s ρ = .ok (sig, ρ') ∧ EnvRel ρ' st'.env :=
  stmt_conv F s ρ st st' fuel r sig hw hr hev hs

/-- **bridge, compiler model ⇒ guide, for statements** (`bridgeS_ok`): conversely, a finished
`evalS (coreSem F)` evaluation is a finished evaluation by the guide's semantics with the same
signal and a related environment — on this fragment `evalS (coreSem F)` *is* the guide. -/
theorem bridgeS_ok (F : FloatOps) (s : Stmt) (ρ ρ' : Env (coreSem F)) (st : Core.St)
    (n : Nat) (sig : Sig) (hw : wfS s = true) (hr : EnvRel ρ st.env)
    (hev : evalS (coreSem F) n s ρ = .ok (sig, ρ')) :
    ∃ fuel r st', Core.eval F fuel (toCoreS s) st = (r, st') ∧ sigOf r = some sig ∧ EnvRel ρ' st'.env :=
  stmt_fwd F s ρ ρ' st n sig hw hr hev

/-- **compileS_correct against the language guide.** Let `s` be a well-formed, `safe` main-block
statement (loops, `break` / `continue`, `if`, blocks) whose evaluation by the reference semantics of
the guide terminates (`.ok`) with final state `st'`. If the compiler model compiles it, then the
emitted *flat instruction stream* (forward jumps and `JumpBack`) — under the guide's value
operations — run from any register file terminates by falling off its end, and every variable
bound in `st'.env` sits in its committed register with its final value. -/
theorem compileS_correct_guide (F : FloatOps) (s : Stmt) (lc : Nat) (code : LCode) (Fr' : Frame)
    (hw : wfS s = true) (hs : safeS s = true)
    (hc : compileS s false (mainFrame lc) = some (code, Fr'))
    (fuel : Nat) (v : Val) (st' : Core.St)
    (hev : Core.eval F fuel (toCoreS s) {} = (.ok v, st'))
    (σ : Regs (coreSem F)) :
    ∃ m σ', (∀ K, m ≤ K → execLFlat (coreSem F) (flattenL code) K 0 σ = .ok σ') ∧
      (∀ x w, Core.lookup x st'.env = some w → ∃ q, Has Fr' q x ∧ σ' q = w) := by
  obtain ⟨n, ρ', h1, h2⟩ := stmt_conv F s (fun _ => none) {} st' fuel (.ok v) .normal hw EnvRel.empty hev rfl
  obtain ⟨_, m, σ', h3, h4⟩ := compileS_correct_main (S := coreSem F) s lc code Fr' hc hs σ ρ' .normal n h1
  exact ⟨m, σ', h3, fun x w hx => h4 x w (by rw [h2 x]; exact hx)⟩

/-- **whole main blocks against the guide** (statements, then a final expression whose value is
the program's): if the guide evaluates `s; e` to `v`, the flat stream of `compileProg s e` run from
any register file terminates with `v` in the returned register and every variable in its committed
register. -/
theorem compileProg_correct_guide (F : FloatOps) (s : Stmt) (e : Expr) (lc : Nat) (stream : List LFlat)
    (out : Out) (Fr' : Frame)
    (hw : wfS s = true) (hwe : wfE e = true) (hs : safeS s = true) (he : safe [] none e = true)
    (hc : compileProg s e lc = some (stream, out, Fr'))
    (fuel : Nat) (v : Val) (st' : Core.St)
    (hev : Core.eval F fuel (.block (.cons (toCoreS s) (.cons (toCore e) .nil))) {} = (.ok v, st'))
    (σ : Regs (coreSem F)) :
    ∃ m σ' r, (∀ K, m ≤ K → execLFlat (coreSem F) stream K 0 σ = .ok σ') ∧ out.reg = some r ∧ σ' r = v ∧
      (∀ x w, Core.lookup x st'.env = some w → ∃ q, Has Fr' q x ∧ σ' q = w) := by
  obtain ⟨fuel', rfl⟩ : ∃ f, fuel = f + 1 := by
    cases fuel with
    | zero => simp [Core.eval] at hev
    | succ f => exact ⟨f, rfl⟩
  rcases block2_inv F fuel' _ _ {} st' (.ok v) .normal hev rfl with ⟨k, j, va, sa, _, _, ha, hb⟩ | ⟨_, _, _, hne⟩
  · obtain ⟨n, ρ1, h1, h2⟩ := stmt_conv F s (fun _ => none) {} sa k (.ok va) .normal hw EnvRel.empty ha rfl
    obtain ⟨v', ρ', hv, h3, h4⟩ := expr_conv F e ρ1 sa st' j (.ok v) .normal hwe h2 hb rfl
    cases hv
    obtain ⟨m, σ', r, g1, g2, g3, g4⟩ :=
      compileProg_correct (S := coreSem F) s e lc stream out Fr' hc hs he σ ρ1 ρ' .normal v n h1 h3
    exact ⟨m, σ', r, g1, g2, g3, fun x w hx => g4 x w (by rw [h4 x]; exact hx)⟩
  · exact absurd rfl hne

/-- non-vacuity at the guide level: `progCount` is well-formed, the guide evaluates its embedding
(followed by the final expression `s`) to `12`, and the compiled flat stream returns `12` -/
example : wfS progCount = true := by decide

def runGuideLoop (s : Stmt) (e : Expr) (lc fuel : Nat) : Option (Val × Val) :=
  match compileProg s e lc, Core.eval stubFloatOps fuel (.block (.cons (toCoreS s) (.cons (toCore e) .nil))) {} with
  | some (stream, out, _), (.ok v, _) =>
    match execLFlat (coreSem stubFloatOps) stream (8 * fuel) 0 (fun _ => Val.null), out.reg with
    | .ok σ', some r => some (σ' r, v)
    | _, _ => none
  | _, _ => none

-- (`decide +kernel`: the elaborator's `whnf` is too slow on the guide's mutual evaluator with loops)
example : runGuideLoop progCount (.var 1) 2 60 matches some (.num (.i 12), .num (.i 12)) := by
  decide +kernel

example : wfS progNested = true ∧
    runGuideLoop progNested (.var 1) 3 80 matches some (.num (.i 3), .num (.i 3)) := by
  decide +kernel

end KotoVerif.C01
