/-
C11 — theorems about the two modelled pieces of the formatter. The layout engine
(`format_node` / `GroupBuilder` / `FormatItem::render`) is NOT modelled; for it the check is
per-program translation validation (harness/src/bin/c11.rs).
-/
import KotoVerif.Model.FmtOptions
import KotoVerif.Model.SrcSlice
import KotoVerif.Lemmas.C11

namespace KotoVerif.C11
open KotoVerif.FmtOptions KotoVerif.SrcSlice

/-! ## Format options: `parse (render o) = o` -/

/-- `fmtopts_roundtrip`: for every well-formed option set (`WF`, Model/FmtOptions.lean: widths and
precisions below 2³², and a fill that `parse` can produce in that combination — any single
character in front of an alignment, `0` in front of a width, a lone fill, a multi-code-point
cluster not starting with a character `parse` claims) — every fill character or cluster, every
alignment, width, precision and representation — re-rendering the options and parsing the result
gives the same options. `g` is the grapheme length the segmenter reports for the rendered string;
`GraphemeOk` says it sees a multi-code-point fill as one cluster.
(Before /repo 7549768 `render_format_options` dropped the representation and only the
representation-free part held; that was finding F-C11-2.) -/
theorem fmtopts_roundtrip (o : Opts) (g : Nat) (hwf : WF o) (hg : GraphemeOk o g) :
    parse (render o) g = .ok o :=
  Lemmas.roundtrip o g hwf hg

/-- Non-vacuity: a fill cluster of two code points, centred, width 20, precision 10, exponent. -/
example : WF { fill := some [129782, 127997], align := .center, minWidth := some 20, precision := some 10, repr := some .expLower }
    ∧ GraphemeOk { fill := some [129782, 127997], align := .center, minWidth := some 20, precision := some 10, repr := some .expLower } 2 := by
  decide

example : parse (render { fill := some [129782, 127997], align := .center, minWidth := some 20, precision := some 10, repr := some .expLower }) 2
    = .ok { fill := some [129782, 127997], align := .center, minWidth := some 20, precision := some 10, repr := some .expLower } := by
  decide

/-- Non-vacuity: `08.3b`, every alignment with the fill `x` (also a representation letter), the
bare representations, a lone fill. -/
example : WF { fill := some [48], minWidth := some 8, precision := some 3, repr := some .binary }
    ∧ WF { fill := some [120], align := .left, minWidth := some 4294967295, repr := some .hexLower }
    ∧ WF { align := .right, repr := some .debug } ∧ WF { precision := some 0 }
    ∧ WF { repr := some .hexUpper } ∧ WF { fill := some [95] } := by decide

/-- Regression for F-C11-2: the options of `{z:x}` survive re-rendering. -/
theorem fmtopts_hex_roundtrip :
    parse [120] 1 = .ok { repr := some .hexLower } ∧ render { repr := some .hexLower } = [120] := by
  decide

/-- The width bound in `WF` is needed: 2³² renders to a string `parse` rejects. -/
theorem fmtopts_width_bound_needed :
    parse (render { minWidth := some 4294967296 }) 1 = .error .tooLarge := by decide

/-- A lone fill cannot carry a representation (`{x:_x}` is a parse error), which is why `WF`
excludes that combination. -/
theorem fmtopts_lone_fill_no_repr :
    parse (render { fill := some [95], repr := some .hexLower }) 1 = .error (.unexpected 120) := by
  decide

/-! ## `source_slice` -/

/-- If every character in front of a point on its line advances the lexer's column by its byte
length, the byte offset `source_slice` computes for that point is the true one — for every line and
every point (start or end of any token, on any line; multi-line tokens included). -/
theorem srcslice_ascii_offsets (ls : List Line) (k₁ k₂ : Nat) (pre₁ pre₂ : List Ch)
    (h₁ : ∀ c ∈ pre₁, c.width = c.bytes) (h₂ : ∀ c ∈ pre₂, c.width = c.bytes) :
    sourceSlice ls { start := lexPos k₁ pre₁, stop := lexPos k₂ pre₂ }
      = (truePos ls k₁ pre₁, truePos ls k₂ pre₂) :=
  Lemmas.slice_offsets ls k₁ k₂ pre₁ pre₂ h₁ h₂

/-- `srcslice_ascii`: for a token `tok` on line `k` after the characters `pre`, when every character
of `pre` and `tok` has column advance = byte length (and characters are at least one byte),
`source_slice` of the lexer's span is exactly the token's text. -/
theorem srcslice_ascii (ls : List Line) (k : Nat) (pre tok post : List Ch)
    (hline : ls[k]? = some (pre ++ tok ++ post))
    (hbytes : ∀ l ∈ ls, ∀ c ∈ l, 1 ≤ c.bytes)
    (hpre : ∀ c ∈ pre, c.width = c.bytes) (htok : ∀ c ∈ tok, c.width = c.bytes) :
    sourceSliceText ls { start := lexPos k pre, stop := lexPos k (pre ++ tok) } = some tok :=
  Lemmas.slice_text ls k pre tok post hline hbytes hpre htok

/-- Non-vacuity: `x = 42` on the second line. -/
example :
    let a (c : Nat) : Ch := { cp := c, bytes := 1, width := 1 }
    sourceSliceText [[a 35, a 10], [a 120, a 32, a 61, a 32, a 52, a 50, a 10]]
      { start := lexPos 1 [a 120, a 32, a 61, a 32], stop := lexPos 1 [a 120, a 32, a 61, a 32, a 52, a 50] }
      = some [a 52, a 50] := by decide

/-- `srcslice_witness`: `é = 1; 99` — `é` is two bytes and advances the column by one, so the span
of `99` (columns 7..9) is read as bytes 7..9 = `" 9"`, and the span of `1` as `" "`. -/
theorem srcslice_witness :
    let a (c : Nat) : Ch := { cp := c, bytes := 1, width := 1 }
    let e : Ch := { cp := 233, bytes := 2, width := 1 }
    let line : Line := [e, a 32, a 61, a 32, a 49, a 59, a 32, a 57, a 57, a 10]
    sourceSliceText [line] { start := lexPos 0 (line.take 7), stop := lexPos 0 (line.take 9) }
        = some [a 32, a 57]
      ∧ sourceSliceText [line] { start := lexPos 0 (line.take 4), stop := lexPos 0 (line.take 5) }
        = some [a 32]
      ∧ truePos [line] 0 (line.take 7) = 8 := by decide

/-- The hypothesis of `srcslice_ascii` cannot be dropped. -/
theorem srcslice_needs_ascii :
    ¬ (∀ (ls : List Line) (k : Nat) (pre tok post : List Ch),
        ls[k]? = some (pre ++ tok ++ post) → (∀ l ∈ ls, ∀ c ∈ l, 1 ≤ c.bytes) →
        sourceSliceText ls { start := lexPos k pre, stop := lexPos k (pre ++ tok) } = some tok) := by
  intro h
  let a (c : Nat) : Ch := { cp := c, bytes := 1, width := 1 }
  let e : Ch := { cp := 233, bytes := 2, width := 1 }
  have := h [[e, a 32, a 57, a 57]] 0 [e, a 32] [a 57, a 57] [] (by decide) (by decide)
  exact absurd this (by decide)

/-- A slice that cuts a character: `'éé'#c` — the comment's span starts at column 4, byte 4 is
inside the second `é`; the model (like `&source[a..b]`) has no text to return (the formatter panics). -/
theorem srcslice_panic_witness :
    let a (c : Nat) : Ch := { cp := c, bytes := 1, width := 1 }
    let e : Ch := { cp := 233, bytes := 2, width := 1 }
    let line : Line := [a 39, e, e, a 39, a 35, a 99, a 10]
    sourceSliceText [line] { start := lexPos 0 (line.take 4), stop := lexPos 0 (line.take 6) } = none := by
  decide

end KotoVerif.C11
