/-
C11 — theorems about the two modelled pieces of the formatter. The layout engine
(`format_node` / `GroupBuilder` / `FormatItem::render`) is NOT modelled; for it the check is
per-program translation validation (harness/src/bin/c11.rs).
-/
import KotoVerif.Model.FmtOptions
import KotoVerif.Model.SrcSlice
import KotoVerif.Model.Layout
import KotoVerif.Lemmas.C11
import KotoVerif.Lemmas.C11Layout

namespace KotoVerif.C11
open KotoVerif.FmtOptions KotoVerif.SrcSlice

/-! ## Format options: `parse (render o) = o` -/

/-- `fmtopts_roundtrip`: for every well-formed option set (`WF`, Model/FmtOptions.lean: widths and
precisions below 2³², and a fill that `parse` can produce in that combination — any single
character in front of an alignment, `0` in front of a width, a lone fill, a multi-code-point
cluster not starting with a character `parse` claims) — every fill character or cluster, every
alignment, width, precision and representation — re-rendering the options and parsing the result
gives the same options. `g`, `g2` are the lengths of the first two grapheme clusters the segmenter
reports for the rendered string; `GraphemeOk` says it sees a multi-code-point fill as one cluster and,
when an alignment follows it, the alignment character as a cluster of its own. Since /repo 60c7e2a a
fill cluster in front of an alignment may start with any character (`x̄<5`).
(Before /repo 7549768 `render_format_options` dropped the representation and only the
representation-free part held; that was finding F-C11-2.) -/
theorem fmtopts_roundtrip (o : Opts) (g g2 : Nat) (hwf : WF o) (hg : GraphemeOk o g g2) :
    parse (render o) g g2 = .ok o :=
  Lemmas.roundtrip o g g2 hwf hg

/-- Non-vacuity: a fill cluster of two code points, centred, width 20, precision 10, exponent. -/
example : WF { fill := some [129782, 127997], align := .center, minWidth := some 20, precision := some 10, repr := some .expLower }
    ∧ GraphemeOk { fill := some [129782, 127997], align := .center, minWidth := some 20, precision := some 10, repr := some .expLower } 2 1 := by
  decide

example : parse (render { fill := some [129782, 127997], align := .center, minWidth := some 20, precision := some 10, repr := some .expLower }) 2 1
    = .ok { fill := some [129782, 127997], align := .center, minWidth := some 20, precision := some 10, repr := some .expLower } := by
  decide

/-- Non-vacuity: `08.3b`, every alignment with the fill `x` (also a representation letter), the
bare representations, a lone fill. -/
example : WF { fill := some [48], minWidth := some 8, precision := some 3, repr := some .binary }
    ∧ WF { fill := some [120], align := .left, minWidth := some 4294967295, repr := some .hexLower }
    ∧ WF { align := .right, repr := some .debug } ∧ WF { precision := some 0 }
    ∧ WF { repr := some .hexUpper } ∧ WF { fill := some [95] } := by decide

/-- Regression for F-C11-2: the options of `{z:x}` survive re-rendering. -/
theorem fmtopts_hex_roundtrip :
    parse [120] 1 0 = .ok { repr := some .hexLower } ∧ render { repr := some .hexLower } = [120] := by
  decide

/-- The width bound in `WF` is needed: 2³² renders to a string `parse` rejects. -/
theorem fmtopts_width_bound_needed :
    parse (render { minWidth := some 4294967296 }) 1 1 = .error .tooLarge := by decide

/-- A lone fill cannot carry a representation (`{x:_x}` is a parse error), which is why `WF`
excludes that combination. -/
theorem fmtopts_lone_fill_no_repr :
    parse (render { fill := some [95], repr := some .hexLower }) 1 1 = .error (.unexpected 120) := by
  decide

/-- `fmtopts_parse_wf`: every option set `parse` returns — for every format string and every
grapheme length the segmenter may report — is well-formed. So `WF` in `fmtopts_roundtrip` excludes
nothing the parser can produce. -/
theorem fmtopts_parse_wf (s : List Nat) (g g2 : Nat) (o : Opts) (h : parse s g g2 = .ok o) : WF o :=
  Lemmas.parse_wf s g g2 o h

/-- Non-vacuity: inputs that walk through every arm (`_<08.3x`: fill, alignment, zero fill
overriding the fill, width, precision, representation). -/
example : parse [95, 60, 48, 56, 46, 51, 120] 1 1
    = .ok { fill := some [48], align := .left, minWidth := some 8, precision := some 3, repr := some .hexLower } := by
  decide

/-- `fmtopts_reparse_stable`: what the formatter does to a placeholder — parse the options of the
source, render them, and the result is parsed again — gives the same options, for EVERY format
string the parser accepts (clause (2) of the property for format options, proved rather than
tested). -/
theorem fmtopts_reparse_stable (s : List Nat) (g g2 g' g2' : Nat) (o : Opts)
    (h : parse s g g2 = .ok o) (hg : GraphemeOk o g' g2') : parse (render o) g' g2' = .ok o :=
  Lemmas.roundtrip o g' g2' (Lemmas.parse_wf s g g2 o h) hg

/-- `fmtopts_render_idempotent`: formatting a second time leaves the option text unchanged
(clause (5) for format options): `render (parse (render (parse s))) = render (parse s)`. -/
theorem fmtopts_render_idempotent (s : List Nat) (g g2 g' g2' : Nat) (o : Opts)
    (h : parse s g g2 = .ok o) (hg : GraphemeOk o g' g2') :
    ∃ o', parse (render o) g' g2' = .ok o' ∧ render o' = render o :=
  ⟨o, fmtopts_reparse_stable s g g2 g' g2' o h hg, rfl⟩

/-- `fmtopts_render_injective`: two well-formed option sets with the same rendering are equal —
no two meanings share a canonical spelling. -/
theorem fmtopts_render_injective (o₁ o₂ : Opts) (g g2 : Nat) (h₁ : WF o₁) (h₂ : WF o₂)
    (hg₁ : GraphemeOk o₁ g g2) (hg₂ : GraphemeOk o₂ g g2) (h : render o₁ = render o₂) : o₁ = o₂ := by
  have e₁ := Lemmas.roundtrip o₁ g g2 h₁ hg₁
  have e₂ := Lemmas.roundtrip o₂ g g2 h₂ hg₂
  rw [h] at e₁
  rw [e₁] at e₂
  exact Except.ok.inj e₂

/-- `fmtopts_canonical_fixpoint`: on canonical strings (`render o`, `o` well-formed) `render ∘ parse`
is the identity. -/
theorem fmtopts_canonical_fixpoint (o : Opts) (g g2 : Nat) (hwf : WF o) (hg : GraphemeOk o g g2) :
    (parse (render o) g g2).map render = .ok (render o) := by
  rw [Lemmas.roundtrip o g g2 hwf hg]
  rfl

/-- When the fill is at most one code point the segmenter hypothesis is vacuous. -/
theorem fmtopts_reparse_stable_simple (s : List Nat) (g g2 g' g2' : Nat) (o : Opts)
    (h : parse s g g2 = .ok o) (hf : ∀ f, o.fill = some f → f.length ≤ 1) :
    parse (render o) g' g2' = .ok o := by
  apply fmtopts_reparse_stable s g g2 g' g2' o h
  unfold GraphemeOk graphemeOk
  cases hfl : o.fill with
  | none => rfl
  | some f =>
    match f, hf f hfl with
    | [], _ => rfl
    | [_], _ => rfl
    | _ :: _ :: _, hl => simp at hl

/-- Regression for C15's parser fix 60c7e2a: a fill cluster that starts with a representation letter
(`x̄` = `x` + U+0304) in front of an alignment is the fill — before the fix `x` was read as the hex
representation and the combining mark was an unexpected token — and it survives re-rendering. -/
theorem fmtopts_cluster_fill :
    parse [120, 772, 60, 53] 2 1 = .ok { fill := some [120, 772], align := .left, minWidth := some 5 }
      ∧ WF { fill := some [120, 772], align := .left, minWidth := some 5 }
      ∧ render { fill := some [120, 772], align := .left, minWidth := some 5 } = [120, 772, 60, 53]
      -- an alignment character that carries a combining mark (second cluster of two code points)
      -- still goes through the per-character arms
      ∧ parse [120, 772, 60, 772, 53] 2 2 = .error (.unexpected 772) := by decide

/-! ## `source_slice` (since /repo b1042e7: token-boundary table, column arithmetic as fallback) -/

/-- `srcslice_boundary`: for a token `tok` on line `k` after the characters `pre` — whatever their
byte lengths and display widths, and whatever positions `sp`, `ep` the lexer reports for the
token's ends — if the token-boundary table maps `sp` and `ep` to the token's true byte offsets
(and to nothing else), `source_slice` returns exactly the token's text. This is the case for every
number literal, comment and `#[fmt:skip]` region (their spans are token spans; the table is built
from the same lexer pass that produced those spans). -/
theorem srcslice_boundary (ls : List Line) (tbl : Table) (k : Nat) (pre tok post : List Ch) (sp ep : Pos)
    (hline : ls[k]? = some (pre ++ tok ++ post))
    (hbytes : ∀ l ∈ ls, ∀ c ∈ l, 1 ≤ c.bytes)
    (hs : (sp, truePos ls k pre) ∈ tbl) (he : (ep, truePos ls k (pre ++ tok)) ∈ tbl)
    (hfs : ∀ b, (sp, b) ∈ tbl → b = truePos ls k pre)
    (hfe : ∀ b, (ep, b) ∈ tbl → b = truePos ls k (pre ++ tok)) :
    sourceSliceText ls tbl { start := sp, stop := ep } = some tok :=
  Lemmas.slice_text_tbl ls tbl k pre tok post sp ep hline hbytes hs he hfs hfe

/-- Non-vacuity and regression for F-C11-3: `é = 1; 99` — with the table, the span of `99`
(columns 7..9, bytes 8..10) is copied as `99`, and the span of `1` as `1`. -/
theorem srcslice_witness_fixed :
    let a (c : Nat) : Ch := { cp := c, bytes := 1, width := 1 }
    let e : Ch := { cp := 233, bytes := 2, width := 1 }
    let line : Line := [e, a 32, a 61, a 32, a 49, a 59, a 32, a 57, a 57, a 10]
    let tbl : Table := [(⟨0, 0⟩, 0), (⟨0, 1⟩, 2), (⟨0, 2⟩, 3), (⟨0, 3⟩, 4), (⟨0, 4⟩, 5), (⟨0, 5⟩, 6),
      (⟨0, 6⟩, 7), (⟨0, 7⟩, 8), (⟨0, 9⟩, 10), (⟨1, 0⟩, 11)]
    sourceSliceText [line] tbl { start := lexPos 0 (line.take 7), stop := lexPos 0 (line.take 9) }
        = some [a 57, a 57]
      ∧ sourceSliceText [line] tbl { start := lexPos 0 (line.take 4), stop := lexPos 0 (line.take 5) }
        = some [a 49] := by decide

/-- `'éé'#c`: the comment (columns 4..6, bytes 6..8) is copied whole; no character is cut. -/
theorem srcslice_no_panic_fixed :
    let a (c : Nat) : Ch := { cp := c, bytes := 1, width := 1 }
    let e : Ch := { cp := 233, bytes := 2, width := 1 }
    let line : Line := [a 39, e, e, a 39, a 35, a 99, a 10]
    let tbl : Table := [(⟨0, 0⟩, 0), (⟨0, 1⟩, 1), (⟨0, 3⟩, 5), (⟨0, 4⟩, 6), (⟨0, 6⟩, 8), (⟨1, 0⟩, 9)]
    sourceSliceText [line] tbl { start := lexPos 0 (line.take 4), stop := lexPos 0 (line.take 6) }
      = some [a 35, a 99] := by decide

/-! ### The fallback (positions that are not token boundaries) — and what the code did before the fix -/

/-- Off the table `byte_offset` is the column arithmetic. -/
theorem srcslice_fallback (ls : List Line) (tbl : Table) (p : Pos) (h : lookup tbl p = none) :
    byteOf ls tbl p = byteOfCol ls p :=
  Lemmas.byteOf_fallback ls tbl p h

/-- If every character in front of a point on its line advances the lexer's column by its byte
length, the byte offset the column arithmetic computes for that point is the true one — for every
line and every point (multi-line tokens included). -/
theorem srcslice_ascii_offsets (ls : List Line) (k₁ k₂ : Nat) (pre₁ pre₂ : List Ch)
    (h₁ : ∀ c ∈ pre₁, c.width = c.bytes) (h₂ : ∀ c ∈ pre₂, c.width = c.bytes) :
    sourceSliceCol ls { start := lexPos k₁ pre₁, stop := lexPos k₂ pre₂ }
      = (truePos ls k₁ pre₁, truePos ls k₂ pre₂) :=
  Lemmas.slice_offsets ls k₁ k₂ pre₁ pre₂ h₁ h₂

/-- `srcslice_ascii`: the column arithmetic alone returns the token's text when every character
of `pre` and `tok` has column advance = byte length. -/
theorem srcslice_ascii (ls : List Line) (k : Nat) (pre tok post : List Ch)
    (hline : ls[k]? = some (pre ++ tok ++ post))
    (hbytes : ∀ l ∈ ls, ∀ c ∈ l, 1 ≤ c.bytes)
    (hpre : ∀ c ∈ pre, c.width = c.bytes) (htok : ∀ c ∈ tok, c.width = c.bytes) :
    sourceSliceTextCol ls { start := lexPos k pre, stop := lexPos k (pre ++ tok) } = some tok :=
  Lemmas.slice_text_col ls k pre tok post hline hbytes hpre htok

/-- Non-vacuity: `x = 42` on the second line. -/
example :
    let a (c : Nat) : Ch := { cp := c, bytes := 1, width := 1 }
    sourceSliceTextCol [[a 35, a 10], [a 120, a 32, a 61, a 32, a 52, a 50, a 10]]
      { start := lexPos 1 [a 120, a 32, a 61, a 32], stop := lexPos 1 [a 120, a 32, a 61, a 32, a 52, a 50] }
      = some [a 52, a 50] := by decide

/-- What changed (the column arithmetic, i.e. the whole behaviour before b1042e7 and still the
fallback): `é = 1; 99` is read as `" 9"`, and `'éé'#c` cuts a character. So the hypothesis of
`srcslice_ascii` cannot be dropped for the fallback, and `srcslice_boundary` needs the table. -/
theorem srcslice_fallback_witness :
    let a (c : Nat) : Ch := { cp := c, bytes := 1, width := 1 }
    let e : Ch := { cp := 233, bytes := 2, width := 1 }
    let line : Line := [e, a 32, a 61, a 32, a 49, a 59, a 32, a 57, a 57, a 10]
    let line2 : Line := [a 39, e, e, a 39, a 35, a 99, a 10]
    sourceSliceTextCol [line] { start := lexPos 0 (line.take 7), stop := lexPos 0 (line.take 9) }
        = some [a 32, a 57]
      ∧ sourceSliceTextCol [line2] { start := lexPos 0 (line2.take 4), stop := lexPos 0 (line2.take 6) }
        = none := by decide


/-! ## One layer of the layout engine: the single-line / break decision of `render_group`

`Model/Layout.lean` models `FormatItem::{line_length, force_break, is_indented_block}`, the condition
of the `if` in `render_group` and the single-line branch of `render`. The break logic and the builder
(Ast → item tree) are not modelled, so nothing here is a statement about `format` as a whole. -/

section Layout
open KotoVerif.Layout

/-- `layout_measure_exact`: for an item tree whose single-line rendering is one line (no forcing
break, line break, multi-line text or error anywhere), the length `line_length()` measures and the
width the single-line branch emits differ exactly by the `OptionalChar`s (measured, not emitted)
and the `SpaceOrReturn` breaks (emitted as a space, measured as 0). -/
theorem layout_measure_exact (is : Items) (h : flatOneLineItems is = true) :
    lineLengthItems is + returnSpacesItems is = flatWidthItems is + optWidthItems is :=
  LayoutLemmas.measure_items is h

/-- `layout_flat_within_limit`: a group that takes the single-line branch at column `col` ends at
most `returnSpaces` columns beyond `line_length` — within the limit when it has no `SpaceOrReturn`. -/
theorem layout_flat_within_limit (lineLen col : Nat) (is : Items) (h : flatOneLineItems is = true)
    (hcol : col ≤ lineLen) (hb : broken lineLen col is = false) :
    col + flatWidthItems is ≤ lineLen + returnSpacesItems is := by
  have hm := LayoutLemmas.measure_items is h
  rw [LayoutLemmas.broken_eq_tooLong lineLen col is h] at hb
  simp [tooLong] at hb
  omega

/-- `layout_nested_flat`: when a group takes the single-line branch, every nested group — rendered
by `render_group` again at the same `column` — takes it too, at every depth: the single-line branch
really emits one line. -/
theorem layout_nested_flat (lineLen col : Nat) (is : Items) (h : flatOneLineItems is = true)
    (hb : broken lineLen col is = false) : nestedFlatItems lineLen col is = true := by
  rw [LayoutLemmas.broken_eq_tooLong lineLen col is h] at hb
  simp [tooLong] at hb
  exact LayoutLemmas.nested_items lineLen col is h hb

/-- `layout_decision_stable` (group-level idempotence): without `OptionalChar`s and `SpaceOrReturn`s
the decision for a one-line tree is the decision for the single piece of text it emits — reading
the emitted line back as text of that width, at the same column and options, gives the same answer. -/
theorem layout_decision_stable (lineLen col : Nat) (is : Items) (h : flatOneLineItems is = true)
    (ho : optWidthItems is = 0) (hr : returnSpacesItems is = 0) :
    broken lineLen col is = broken lineLen col (.cons (.str (flatWidthItems is) []) .nil) := by
  have hm := LayoutLemmas.measure_items is h
  have h2 : flatOneLineItems (.cons (.str (flatWidthItems is) []) .nil) = true := by
    simp [flatOneLineItems, flatOneLine]
  rw [LayoutLemmas.broken_eq_tooLong lineLen col is h,
    LayoutLemmas.broken_eq_tooLong lineLen col _ h2]
  simp only [tooLong, lineLengthItems]
  have : lineLengthItems is = flatWidthItems is := by omega
  simp [this]

/-- `layout_decision_monotone`: a one-line tree that fits keeps fitting with more room. -/
theorem layout_decision_monotone (lineLen lineLen' col col' : Nat) (is : Items)
    (h : flatOneLineItems is = true) (hb : broken lineLen col is = false)
    (hl : lineLen ≤ lineLen') (hc : col' ≤ col) : broken lineLen' col' is = false := by
  rw [LayoutLemmas.broken_eq_tooLong _ _ is h] at hb ⊢
  simp [tooLong] at hb ⊢
  omega

/-- Non-vacuity: `x = 1` as the tree the builder makes for an assignment. -/
example :
    let is : Items := .cons (.str 1 []) (.cons (.brk .spaceOrIndentIfNecessary) (.cons (.char 1)
      (.cons (.brk .spaceOrIndentIfNecessary) (.cons (.str 1 []) .nil))))
    flatOneLineItems is = true ∧ broken 100 0 is = false ∧ lineLengthItems is = 5
      ∧ flatWidthItems is = 5 := by decide

/-- The two hypotheses of `layout_decision_stable` / the slack in `layout_flat_within_limit` are real
(both replayed on the formatter): `from abcd import defg` is 21 columns wide but measures 20, so it
stays on one line at line_length 20; `[1, 2]` is 6 columns wide but measures 7 (the optional
trailing comma), so at line_length 6 it is broken although it would fit. -/
theorem layout_measure_witnesses :
    let imp : Items := .cons (.str 4 []) (.cons (.brk .spaceOrIndent) (.cons (.str 4 [])
      (.cons (.brk .spaceOrReturn) (.cons (.str 6 []) (.cons (.brk .spaceOrIndent)
      (.cons (.group (.cons (.str 4 []) .nil)) .nil))))))
    let lst : Items := .cons (.char 1) (.cons (.brk .maybeIndent) (.cons (.str 1 []) (.cons (.char 1)
      (.cons (.brk .spaceOrIndentIfNecessary) (.cons (.str 1 []) (.cons (.optChar 1)
      (.cons (.brk .maybeReturn) (.cons (.char 1) .nil))))))))
    (broken 20 0 imp = false ∧ flatWidthItems imp = 21)
      ∧ (broken 6 0 lst = true ∧ flatWidthItems lst = 6 ∧ broken 7 0 lst = false) := by decide


/-! ### The render functions (`FormatItem::render`, both branches of `render_group`)

`renderItem` / `flatItems` / `loopItems` of `Model/Layout.lean` model the whole render layer: what a
group's item tree is turned into, as the widths of the emitted lines. Every group the formatter
renders while formatting the sampled programs is compared with it on each run (hook H6 v2). -/

/-- `layout_single_line_render`: on a one-line tree that fits, `render_group` emits exactly one line,
of width `flatWidth` — the earlier `layout_*` statements are statements about `renderItem`. -/
theorem layout_single_line_render (o : Opt) (is : Items) (ind : Bool) (col : Nat)
    (h : flatOneLineItems is = true) (hb : broken o.lineLen col is = false) :
    renderGroupLines o is ind col = some [flatWidthItems is] := by
  rw [LayoutLemmas.broken_eq_tooLong o.lineLen col is h] at hb
  have hle : lineLengthItems is ≤ o.lineLen - col := by simp [tooLong] at hb; exact hb
  have h2 := LayoutLemmas.anyForce_false is h
  have h3 := LayoutLemmas.lastBlock_false is h
  have := LayoutLemmas.flat_items o col is h hle 0
  simp only [renderGroupLines, renderItem, hb, h2, h3, Bool.or_self, Bool.false_eq_true, if_false]
  simpa using this

/-- `layout_render_text_fixpoint`: rendered lines, re-read as items (every line one piece of text,
`LayoutLemmas.reify`), render to themselves — whatever the options, the column and the `indented`
flag: the render functions never reflow text. -/
theorem layout_render_text_fixpoint (o : Opt) (ind : Bool) (col l : Nat) (ls : List Nat) :
    renderGroupLines o (LayoutLemmas.reify (l :: ls)) ind col = some (l :: ls) :=
  LayoutLemmas.render_reify o ind col l ls

/-- `layout_render_idempotent_on_text` (group-level idempotence, text form): render a group, re-measure
the rendered lines as items, render again — under any options, column and flag — and the line widths
are the same. -/
theorem layout_render_idempotent_on_text (o o' : Opt) (is : Items) (ind ind' : Bool) (col col' l : Nat)
    (ls : List Nat) (_h : renderGroupLines o is ind col = some (l :: ls)) :
    renderGroupLines o' (LayoutLemmas.reify (l :: ls)) ind' col' = some (l :: ls) :=
  LayoutLemmas.render_reify o' ind' col' l ls

/-- `layout_too_long_as_forced`: in a group that is not itself indented and has no
`SpaceOrIndent` / `SpaceOrReturn` break and no `OptionalChar` among its direct items, the break loop
produces the same result whether the group is broken because it is too long or because a break is
forced (and then whether or not it is also too long). -/
theorem layout_too_long_as_forced (o : Opt) (tl : Bool) (is : Items) (st : St)
    (hok : LayoutLemmas.okItems is = true) (hp : LayoutLemmas.okBrk st.pending = true) :
    loopItems o true false false is st = loopItems o tl true false is st :=
  LayoutLemmas.tooLong_as_force o tl is st hok hp

/-- `layout_upgrade_idempotent` (group-level idempotence, tree form): the second pass finds line
breaks where the first pass broke a too-long group, and the builder then pushes `IndentedBreak` where
it pushed `MaybeIndent` (`maybe_force_indent`, `indented_break`: `LayoutLemmas.upgrade`). For a group
that is not itself indented, broken only because it is too long, without `SpaceOrIndent` /
`SpaceOrReturn` / `OptionalChar` direct items, the upgraded tree renders to exactly the same text —
at the same options and column, whether or not the upgraded group still measures as too long. -/
theorem layout_upgrade_idempotent (o : Opt) (is : Items) (ro : Bool) (col : Nat)
    (hok : LayoutLemmas.okItems is = true) (htl : tooLong o.lineLen col is = true)
    (hf : anyItem forceBreak is = false) :
    renderItem o (.group (LayoutLemmas.upgrade is)) false ro col = renderItem o (.group is) false ro col :=
  LayoutLemmas.render_upgrade o is ro col hok htl hf

/-- Non-vacuity: `|aaaa, bbbb|` (function arguments: `|`, MaybeIndent, `aaaa`, `,`,
SpaceOrIndentIfNecessary, `bbbb`, MaybeReturn, `|`) at line_length 8: too long, rendered on three
lines `|` / `  aaaa,` + … ; the upgraded tree is a different tree and renders to the same lines. -/
example :
    let is : Items := .cons (.char 1) (.cons (.brk .maybeIndent) (.cons (.str 4 []) (.cons (.char 1)
      (.cons (.brk .spaceOrIndentIfNecessary) (.cons (.str 4 []) (.cons (.brk .maybeReturn)
      (.cons (.char 1) .nil)))))))
    let o : Opt := { lineLen := 8, indentWidth := 2 }
    LayoutLemmas.okItems is = true ∧ tooLong o.lineLen 0 is = true ∧ anyItem forceBreak is = false
      ∧ anyItem forceBreak (LayoutLemmas.upgrade is) = true
      ∧ renderGroupLines o is false 0 = some [1, 7, 6, 1]
      ∧ renderGroupLines o (LayoutLemmas.upgrade is) false 0 = some [1, 7, 6, 1] := by decide

/-- The `not itself indented` hypothesis is needed, and this is a real cause of non-idempotence
(the sub-cause "assignment value moved below `=` at the same indent" of F-C11-6): in an INDENTED
group a `SpaceOrIndentIfNecessary` that does not fit turns into `MaybeReturn` — line break WITHOUT
indent — while the second pass, finding the line break, pushes `IndentedBreak`, which in an indented
group is treated as `MaybeIndent` — line break WITH indent. `x =` / `vvvvvv` at line_length 6:
first pass lines [3, 6], second pass [3, 8]. -/
theorem layout_indented_upgrade_unstable :
    let o : Opt := { lineLen := 6, indentWidth := 2 }
    let pass1 : Items := .cons (.str 1 []) (.cons (.brk .spaceOrIndentIfNecessary) (.cons (.char 1)
      (.cons (.brk .spaceOrIndentIfNecessary) (.cons (.str 6 []) .nil))))
    let pass2 : Items := .cons (.str 1 []) (.cons (.brk .spaceOrIndentIfNecessary) (.cons (.char 1)
      (.cons (.brk .indentedBreak) (.cons (.str 6 []) .nil))))
    renderGroupLines o pass1 true 0 = some [3, 6] ∧ renderGroupLines o pass2 true 0 = some [3, 8]
      ∧ renderGroupLines o pass1 false 0 = some [3, 8] ∧ renderGroupLines o pass2 false 0 = some [3, 8] := by
  decide

/-- The action table: what the break logic puts in front of the next item. `SpaceOrIndent` always
separates the items (space or line break) … -/
theorem layout_action_spaceOrIndent (tl f ind acc : Bool) :
    Brk.action .spaceOrIndent tl f ind acc = (if tl then .newlineIndent else .space) := by
  cases tl <;> cases f <;> cases ind <;> cases acc <;> rfl

/-- … and so does `SpaceOrReturn` (between `from x` and `import y`) since /repo 506c2fd: line break
and return to the start column when the line is too long, a space otherwise — in every flag
combination. Before that commit `needs_return` answered `true` for it, so a group that was
force-broken without being too long got `group_start_indent` with NO line break in front (nothing at
column 0): `from # c` / `  foo import bar` became `fooimport` (F-C11-14; the model had the defect as
a theorem before the live path was found). Regression: `from abcd`·`import x` with a forced break now
renders 16 = 4+1+4+1+6 columns wide. -/
theorem layout_action_spaceOrReturn_fixed :
    (∀ tl f ind acc, Brk.action .spaceOrReturn tl f ind acc = (if tl then .newline else .space))
      ∧ renderGroupLines { lineLen := 100, indentWidth := 2 }
          (.cons (.str 4 []) (.cons (.brk .spaceOrIndent) (.cons (.str 4 []) (.cons (.brk .spaceOrReturn)
            (.cons (.str 6 []) (.cons (.brk .indentedBreak) (.cons (.str 1 []) .nil)))))))
          false 0 = some [16, 3] := by
  constructor
  · intro tl f ind acc; cases tl <;> cases f <;> cases ind <;> cases acc <;> rfl
  · decide

/-- first pass / second pass actions agree for the builder's upgrades when the group is not indented:
`MaybeIndent` under too-long = `IndentedBreak` under force = the break a non-fitting
`…IfNecessary` turns into — always line break + indent. -/
theorem layout_action_upgrade_stable (tl acc : Bool) :
    Brk.action .maybeIndent true false false true = .newlineIndent
      ∧ Brk.action .indentedBreak tl true false acc = .newlineIndent
      ∧ Brk.action (ifNecessaryBreak false) tl true false acc = .newlineIndent
      ∧ Brk.action (ifNecessaryBreak false) true false false true = .newlineIndent := by
  cases tl <;> cases acc <;> decide

end Layout

end KotoVerif.C11
