/-
C04 — extension: further theorems about the guide-level evaluator `Try.run` and the helper
definitions it uses (`accepts`, `bindKeys`, `getLocal`/`setLocal`, `callResult`, `finish`,
`thenFinally`, `insertByKey`/`sortByKey`, `runProg`), all of which the driver executes.
-/
import KotoVerif.Model.TryEval
import KotoVerif.Lemmas.C04

namespace KotoVerif.C04Ext

open KotoVerif.Try

variable (cfg : Cfg) (P : Prog)

/-! ## try / finally algebra -/

/-- A `try` with no catch block and no `finally` is transparent: it is exactly its body, for every
outcome (in particular an error passes unchanged with the raise-point state). -/
theorem try_no_handlers_transparent (n : Nat) (b : E) (σ : St) :
    run cfg P (n + 1) (.ev (.try_ b [] none)) σ = run cfg P n (.ev b) σ := by
  simp only [run]
  cases n with
  | zero => simp [run, catchWith]
  | succ m =>
    generalize run cfg P (m + 1) (.ev b) σ = r
    rcases r with ⟨s, σ1⟩
    cases s <;> simp [catchWith, run]

/-- A `finally` block that itself exits abruptly (error, return, break, continue, out of fuel)
replaces whatever outcome was pending — the pending error/return is dropped. -/
theorem finally_abrupt_overrides (n : Nat) (b f : E) (cs : List Catch) (σ σ1 σ2 : St) (s1 s2 : Sig)
    (h1 : run cfg P (n + 1) (.ev (.try_ b cs none)) σ = (s1, σ1)) (hs1 : s1 ≠ .oof)
    (h2 : run cfg P n (.ev f) σ1 = (s2, σ2)) (hs2 : ∀ v, s2 ≠ .ok v) :
    run cfg P (n + 1) (.ev (.try_ b cs (some f))) σ = (s2, σ2) := by
  have hd : run cfg P (n + 1) (.ev (.try_ b cs (some f))) σ =
      thenFinally (run cfg P (n + 1) (.ev (.try_ b cs none)) σ) (fun σ1 => run cfg P n (.ev f) σ1) := by
    simp only [run]
  rw [hd, h1]
  cases s1 <;> cases s2 <;> simp_all [thenFinally, finish]

example : run guide {} 3 (.ev (.try_ (.fault .idx) [] (some (.ret (.lit .null))))) {} =
    (.ret .null, {}) := by decide

/-- `finish` with a normal `finally` outcome keeps the state reached by the `finally` block -/
theorem finish_state (p : Sig) (r : Res) : (finish p r).2 = r.2 := by
  rcases r with ⟨s, σ⟩
  cases s <;> cases p <;> simp [finish]

/-- the state after a try-with-finally is always the state in which the `finally` block ended
(unless fuel ran out before it): nothing the `finally` block did to variables, containers or the
trace is undone by the pending outcome. -/
theorem thenFinally_state (r1 : Res) (runF : St → Res) (h : r1.1 ≠ .oof) :
    (thenFinally r1 runF).2 = (runF r1.2).2 := by
  rcases r1 with ⟨s, σ⟩
  cases s <;> simp_all [thenFinally, finish_state]

example : ((.err .null, ({} : St)) : Res).1 ≠ .oof := by decide

/-! ## function frames -/

/-- only `ok`, `err`, `oof` cross a frame boundary -/
def FrameSig : Sig → Prop
  | .ok _ => True
  | .err _ => True
  | .oof => True
  | _ => False

theorem callResult_class (l : List Val) (r : Res) : FrameSig (callResult l r).1 := by
  rcases r with ⟨s, σ⟩
  cases s <;> simp [callResult, FrameSig]

theorem callResult_locals (l : List Val) (r : Res) : (callResult l r).2.locals = l := by
  rcases r with ⟨s, σ⟩
  cases s <;> simp [callResult]

/-- **A call never changes the caller's variables**, whatever happens inside it (normal return,
`return`, an error raised at any depth, out of fuel, wrong argument count, unknown function). -/
theorem callF_frame_locals (n : Nat) (f : Nat) (args : List Val) (σ : St) :
    (run cfg P n (.callF f args) σ).2.locals = σ.locals := by
  cases n with
  | zero => simp [run]
  | succ n =>
    simp only [run]
    split
    · (repeat' split) <;> simp [callResult_locals]
    · rfl

/-- `return`, `break`, `continue` never escape a function call: its outcome is a value, an error,
or out-of-fuel. -/
theorem callF_signal_class (n : Nat) (f : Nat) (args : List Val) (σ : St) :
    FrameSig (run cfg P n (.callF f args) σ).1 := by
  cases n with
  | zero => simp [run, FrameSig]
  | succ n =>
    simp only [run]
    split
    · (repeat' split) <;> first | exact callResult_class _ _ | simp [FrameSig]
    · simp [FrameSig]

/-- **A run ends with a value, an error carrying the thrown value, or out of fuel** — never with a
stray control signal — and with no live locals. -/
theorem runProg_signal_class (fuel : Nat) :
    FrameSig (runProg cfg P fuel).1 ∧ (runProg cfg P fuel).2.locals = [] := by
  exact ⟨callResult_class _ _, callResult_locals _ _⟩

/-- a `break`/`continue` that reaches the top level of a function or of the program is reported
as an (outside-envelope) error, not silently dropped -/
theorem stray_loop_signal_is_error (l : List Val) (s : Sig) (σ : St) (h : s = .brk ∨ s = .cont) :
    (callResult l (s, σ)).1 = .err (errK (.other 1)) := by
  rcases h with rfl | rfl <;> rfl

/-! ## catch arguments -/

/-- a type hint (not a map pattern) accepts exactly the values of that type -/
theorem accepts_hint_iff (t : Ty) (v : Val) (h : ∀ ks, t ≠ .keys ks) :
    accepts (some t) v = true ↔ v.ty = t := by
  cases t <;> simp_all [accepts]

example : ∀ ks, Ty.string ≠ .keys ks := by intro ks; simp

/-- a map pattern only ever accepts maps -/
theorem accepts_keys_only_maps (ks : List Nat) (v : Val) (h : accepts (some (.keys ks)) v = true) :
    ∃ fs, v = .mp fs := by
  cases v <;> simp_all [accepts]

example : accepts (some (.keys [0, 2])) (.mp [(2, 5), (0, 1)]) = true := by decide

/-- map patterns are monotone: a pattern asking for fewer keys accepts everything a pattern asking
for more keys accepts (so a wider pattern placed first shadows a narrower one placed later). -/
theorem accepts_keys_mono (ks ks' : List Nat) (v : Val) (hsub : ∀ k ∈ ks', k ∈ ks)
    (h : accepts (some (.keys ks)) v = true) : accepts (some (.keys ks')) v = true := by
  cases v <;> simp_all [accepts]

example : ∀ k ∈ [2], k ∈ [0, 2] := by decide

/-! ## locals and map-pattern bindings -/

theorem getLocal_setLocal (σ : St) (x y : Nat) (v : Val) :
    getLocal (setLocal σ x v) y = if y = x then v else getLocal σ y := by
  simp only [getLocal, setLocal, List.getD_eq_getElem?_getD, List.getElem?_set, List.length_append,
    List.length_replicate]
  by_cases hyx : y = x
  · subst hyx
    have : y < σ.locals.length + (y + 1 - σ.locals.length) := by omega
    simp [this]
  · have hne : ¬ x = y := fun h => hyx h.symm
    simp only [hne, if_false, hyx]
    by_cases hy : y < σ.locals.length
    · simp [List.getElem?_append_left hy]
    · rw [List.getElem?_append_right (by omega)]
      have : σ.locals[y]? = none := by simp; omega
      simp only [this, List.getElem?_replicate]
      split <;> simp

/-- a map pattern leaves every local below its first binding slot untouched -/
theorem bindKeys_below (fs : List (Nat × Int)) (ks : List Nat) : ∀ (σ : St) (x y : Nat), y < x →
    getLocal (bindKeys σ x fs ks) y = getLocal σ y := by
  induction ks with
  | nil => intro σ x y _; rfl
  | cons k ks ih =>
    intro σ x y h
    simp only [bindKeys]
    rw [ih _ (x + 1) y (by omega), getLocal_setLocal]
    simp; omega

/-- **the `i`-th key of a map pattern is bound to local `x + i`** with the value the caught map has
under that key (for patterns of any length, any map). -/
theorem bindKeys_binds (fs : List (Nat × Int)) (ks : List Nat) : ∀ (σ : St) (x i : Nat) (h : i < ks.length),
    getLocal (bindKeys σ x fs ks) (x + i) =
      ((recGet fs ks[i]).map Val.int).getD Val.null := by
  induction ks with
  | nil => intro σ x i h; simp at h
  | cons k ks ih =>
    intro σ x i h
    simp only [bindKeys]
    cases i with
    | zero =>
      show getLocal _ x = _
      rw [bindKeys_below fs ks _ (x + 1) x (by omega), getLocal_setLocal, if_pos rfl]
      simp only [List.getElem_cons_zero]
      cases recGet fs k <;> rfl
    | succ i =>
      rw [show x + (i + 1) = x + 1 + i by omega, ih _ (x + 1) i (by simpa using h)]
      simp

example : getLocal (bindKeys {} 3 [(7, 40), (9, 50)] [9, 7]) 4 = .int 40 := by decide

/-! ## the native `sort` adaptor's key sort -/

theorem insertByKey_perm (k : Int) (v : Val) (l : List (Int × Val)) :
    (insertByKey k v l).Perm ((k, v) :: l) := by
  induction l with
  | nil => simp [insertByKey]
  | cons a l ih =>
    rcases a with ⟨k', v'⟩
    simp only [insertByKey]
    split
    · exact List.Perm.refl _
    · exact (List.Perm.cons _ ih).trans (List.Perm.swap _ _ _)

/-- `sortByKey` (used by the native `sort` adaptor after all key callbacks succeeded) returns a
permutation of the (key, element) pairs: no element is lost or duplicated. -/
theorem sortByKey_perm (kvs : List (Int × Val)) : (sortByKey kvs).Perm kvs := by
  suffices h : ∀ acc, (kvs.foldl (fun acc kv => insertByKey kv.1 kv.2 acc) acc).Perm (kvs.reverse ++ acc) by
    have := h []
    simp only [List.append_nil] at this
    exact this.trans (List.reverse_perm _)
  induction kvs with
  | nil => intro acc; simp
  | cons a l ih =>
    intro acc
    simp only [List.foldl_cons, List.reverse_cons, List.append_assoc, List.singleton_append]
    refine (ih _).trans ?_
    exact List.Perm.append_left _ (insertByKey_perm a.1 a.2 acc)

theorem sortByKey_length (kvs : List (Int × Val)) : (sortByKey kvs).length = kvs.length :=
  (sortByKey_perm kvs).length_eq

def KeySorted (l : List (Int × Val)) : Prop := l.Pairwise (fun a b => a.1 ≤ b.1)

theorem insertByKey_sorted (k : Int) (v : Val) (l : List (Int × Val)) (h : KeySorted l) :
    KeySorted (insertByKey k v l) := by
  induction l with
  | nil => simp [insertByKey, KeySorted]
  | cons a l ih =>
    rcases a with ⟨k', v'⟩
    simp only [KeySorted, List.pairwise_cons] at h
    simp only [insertByKey]
    split
    · rename_i hlt
      simp only [KeySorted, List.pairwise_cons]
      refine ⟨?_, h.1, h.2⟩
      intro b hb
      rcases List.mem_cons.1 hb with rfl | hb
      · simp; omega
      · have := h.1 b hb; simp at this ⊢; omega
    · rename_i hge
      simp only [KeySorted, List.pairwise_cons]
      refine ⟨?_, ih h.2⟩
      intro b hb
      have hb' := (insertByKey_perm k v l).mem_iff.1 hb
      rcases List.mem_cons.1 hb' with rfl | hb'
      · simp; omega
      · exact h.1 b hb'

/-- the output of `sortByKey` is ordered by key, for every input -/
theorem sortByKey_sorted (kvs : List (Int × Val)) : KeySorted (sortByKey kvs) := by
  suffices h : ∀ acc, KeySorted acc → KeySorted (kvs.foldl (fun acc kv => insertByKey kv.1 kv.2 acc) acc) from
    h [] (by simp [KeySorted])
  induction kvs with
  | nil => intro acc h; simpa using h
  | cons a l ih => intro acc h; exact ih _ (insertByKey_sorted _ _ _ h)

/-! ## monotonicity of the observable state over every run -/

theorem finish_heap (p : Sig) (r : Res) : (finish p r).2.heap = r.2.heap := by
  obtain ⟨s, σ⟩ := r
  cases s <;> cases p <;> rfl

theorem alloc_heap_length (σ : St) (vs : List Val) : (alloc σ vs).1.heap.length = σ.heap.length + 1 := by
  simp [alloc]

attribute [local grind =] setLocal_heap emitEv_heap callResult_heap finish_heap bindCatch_heap
  alloc_heap_length

theorem run_grows_aux :
    ∀ n t σ s σ', run cfg P n t σ = (s, σ') →
      σ.out <+: σ'.out ∧ σ.heap.length ≤ σ'.heap.length := by
  intro n
  induction n with
  | zero => intro t σ s σ' h; simp [run] at h; rw [← h.2]; exact ⟨List.prefix_refl _, Nat.le_refl _⟩
  | succ n ih =>
    intro t σ s σ' h
    cases t with
    | ev e =>
      cases e <;> simp only [run, catchWith, thenFinally] at h <;> ((repeat' split at h) <;> grind)
    | evs es acc => cases es <;> simp only [run] at h <;> ((repeat' split at h) <;> grind)
    | seq es last => cases es <;> simp only [run] at h <;> ((repeat' split at h) <;> grind)
    | catches cs v => cases cs <;> simp only [run] at h <;> ((repeat' split at h) <;> grind)
    | callF f args => simp only [run] at h; (repeat' split at h) <;> grind
    | nat k f r items accL accV => cases items <;> simp only [run] at h <;> ((repeat' split at h) <;> grind)
    | disp todo acc => simp only [run] at h; (repeat' split at h) <;> grind
    | loopL x items body => cases items <;> simp only [run] at h <;> ((repeat' split at h) <;> grind)
    | loopG x gl segs tail body => cases segs <;> simp only [run] at h <;> ((repeat' split at h) <;> grind)

/-- **Markers already printed are never retracted, containers never disappear**: whatever a task
does — including raising an error that unwinds through any number of frames, native callbacks and
generators — the trace before it is a prefix of the trace after it, and the heap only gains cells. -/
theorem run_trace_prefix (n : Nat) (t : Task) (σ : St) : σ.out <+: (run cfg P n t σ).2.out :=
  (run_grows_aux cfg P n t σ _ _ rfl).1

theorem run_heap_grows (n : Nat) (t : Task) (σ : St) : σ.heap.length ≤ (run cfg P n t σ).2.heap.length :=
  (run_grows_aux cfg P n t σ _ _ rfl).2

/-- in particular the state handed to a catch block (the raise-point state) extends the state at
the entry of the try block: every marker printed and every list created before the raise is there. -/
theorem raise_state_extends_entry (n : Nat) (b : E) (σ σ1 : St) (v : Val)
    (h : run cfg P n (.ev b) σ = (.err v, σ1)) : σ.out <+: σ1.out ∧ σ.heap.length ≤ σ1.heap.length :=
  run_grows_aux cfg P n _ σ _ _ h

example : run guide {} 4 (.ev (.seq [.emit 1 none, .fault .asrt])) {} =
    (.err (errK .assert), { out := [⟨1, none⟩] }) := by decide

/-! ## fuel is only a termination device -/

theorem callResult_not_oof (l : List Val) (r : Res) (s : Sig) (σ' : St)
    (h : callResult l r = (s, σ')) (hs : s ≠ .oof) : r.1 ≠ .oof := by
  rcases r with ⟨sr, σr⟩
  cases sr <;> simp_all [callResult]

theorem run_fuel_mono_aux :
    ∀ n t σ s σ', run cfg P n t σ = (s, σ') → s ≠ .oof → ∀ m, n ≤ m → run cfg P m t σ = (s, σ') := by
  intro n
  induction n with
  | zero => intro t σ s σ' h hs; simp [run] at h; exact absurd h.1.symm hs
  | succ n ih =>
    intro t σ s σ' h hs m hm
    obtain ⟨m', rfl⟩ : ∃ m', m = m' + 1 := ⟨m - 1, by omega⟩
    have hm' : n ≤ m' := by omega
    cases t with
    | ev e =>
      cases e with
      | try_ b cs fin =>
        have hR : ∀ s1 σ1, catchWith (run cfg P n (.ev b) σ) (fun v σ1 => run cfg P n (.catches cs v) σ1) = (s1, σ1) →
            s1 ≠ .oof →
            catchWith (run cfg P m' (.ev b) σ) (fun v σ1 => run cfg P m' (.catches cs v) σ1) = (s1, σ1) := by
          intro s1 σ1 h1 hs1
          rcases hb : run cfg P n (.ev b) σ with ⟨sb, σb⟩
          rw [hb] at h1
          have hb' := fun hne => ih _ _ _ _ hb hne m' hm'
          cases sb <;> simp only [catchWith] at h1 <;> grind [catchWith]
        simp only [run] at h ⊢
        cases fin with
        | none => exact hR _ _ h hs
        | some f =>
          simp only at h ⊢
          rcases h1 : catchWith (run cfg P n (.ev b) σ) (fun v σ1 => run cfg P n (.catches cs v) σ1) with ⟨s1, σ1⟩
          rw [h1] at h
          by_cases hs1 : s1 = .oof
          · subst hs1; simp [thenFinally] at h; exact absurd h.1.symm hs
          · rw [hR _ _ h1 hs1]
            rcases h2 : run cfg P n (.ev f) σ1 with ⟨s2, σ2⟩
            have : s2 ≠ .oof := by intro h0; subst h0; cases s1 <;> simp_all [thenFinally, finish]
            have h3 := ih _ _ _ _ h2 this m' hm'
            cases s1 <;> simp_all [thenFinally]
      | _ => simp only [run] at h ⊢ <;> ((repeat' split at h) <;> grind)
    | evs es acc => cases es <;> simp only [run] at h ⊢ <;> ((repeat' split at h) <;> grind)
    | seq es last => cases es <;> simp only [run] at h ⊢ <;> ((repeat' split at h) <;> grind)
    | catches cs v => cases cs <;> simp only [run] at h ⊢ <;> ((repeat' split at h) <;> grind)
    | callF f args =>
      simp only [run] at h ⊢
      cases hd : P.defs[f]? with
      | none => simp only [hd] at h ⊢; exact h
      | some d =>
        simp only [hd] at h ⊢
        by_cases h1 : d.isGen = true
        · simp only [h1, ↓reduceIte] at h ⊢; exact h
        by_cases h2 : args.length < d.nparams
        · simp only [h1, h2, ↓reduceIte] at h ⊢; exact h
        by_cases h3 : args.length > d.nparams
        · simp only [h1, h2, h3, ↓reduceIte] at h ⊢; exact h
        simp only [h1, h2, h3, ↓reduceIte] at h ⊢
        rcases hr : run cfg P n (.ev d.body)
          { σ with locals := args ++ List.replicate (d.nlocals - args.length) Val.null } with ⟨sr, σr⟩
        rw [hr] at h
        have hne := callResult_not_oof _ _ _ _ h hs
        rw [ih _ _ _ _ hr hne m' hm']; exact h
    | nat k f r items accL accV => cases items <;> simp only [run] at h ⊢ <;> ((repeat' split at h) <;> grind)
    | disp todo acc => simp only [run] at h ⊢; (repeat' split at h) <;> grind
    | loopL x items body => cases items <;> simp only [run] at h ⊢ <;> ((repeat' split at h) <;> grind)
    | loopG x gl segs tail body => cases segs <;> simp only [run] at h ⊢ <;> ((repeat' split at h) <;> grind)

/-- **More fuel never changes a finished outcome**: once a task has finished with anything but
out-of-fuel (a value, an error, `return`/`break`/`continue`), every larger fuel gives exactly the
same signal, variables, heap and trace. -/
theorem run_fuel_mono (n m : Nat) (t : Task) (σ σ' : St) (s : Sig)
    (h : run cfg P n t σ = (s, σ')) (hs : s ≠ .oof) (hm : n ≤ m) : run cfg P m t σ = (s, σ') :=
  run_fuel_mono_aux cfg P n t σ s σ' h hs m hm

/-- the outcome of a terminating task is unique: two fuels on which it finishes agree -/
theorem run_fuel_deterministic (n m : Nat) (t : Task) (σ : St)
    (hn : (run cfg P n t σ).1 ≠ .oof) (hm : (run cfg P m t σ).1 ≠ .oof) :
    run cfg P n t σ = run cfg P m t σ := by
  rcases Nat.le_total n m with h | h
  · exact (run_fuel_mono cfg P n m t σ _ _ rfl hn h).symm
  · exact run_fuel_mono cfg P m n t σ _ _ rfl hm h

/-- whole programs: the result (value / error message) and the printed trace of a run that
finishes do not depend on the fuel -/
theorem runProg_fuel_mono (n m : Nat) (h : (runProg cfg P n).1 ≠ .oof) (hm : n ≤ m) :
    runProg cfg P m = runProg cfg P n := by
  unfold runProg at h ⊢
  have hne : (run cfg P n (.ev P.main) (initSt P)).1 ≠ .oof :=
    callResult_not_oof _ _ _ _ rfl h
  rw [run_fuel_mono cfg P n m _ _ _ _ rfl hne hm]

example : (runProg guide { main := .try_ (.fault .idx) [(none, 0, .emit 1 none)] (some (.emit 2 none)) } 4).1 ≠ .oof := by
  decide

end KotoVerif.C04Ext
