/-
C20 — second extension module: end-to-end statements connecting `ser` / `serW` / `de` / `norm` /
`buildMap` and the reader depth limits of `KotoVerif.Model.Serde`.
All statements are for all inputs; every definition mentioned is run by `Drivers/C20.lean`.
-/
import KotoVerif.Model.Serde
import KotoVerif.Lemmas.C20
import KotoVerif.Props.C20

namespace KotoVerif.C20Ext2
open KotoVerif KotoVerif.Serde KotoVerif.C20

/-! ### 1. The serialized form determines the normal form -/

/-- Two value trees that `serialize.rs` maps to the same serde data have the same normal form: the
round trip loses nothing beyond what `norm` describes. -/
theorem ser_eq_norm_eq (X : Ext) (v w : Val) (s : SVal) (hv : ser X v = some s) (hw : ser X w = some s) :
    norm X v = norm X w := by
  have h1 := de_of_ser X v s hv
  have h2 := de_of_ser X w s hw
  rw [h1] at h2
  exact Option.some.inj h2

example : ser X0 (.list [.num (.i 1)]) = some (.seq [.i64 1]) ∧ ser X0 (.tuple [.num (.i 1)]) = some (.seq [.i64 1]) := by
  simp [ser, serL]

/-! ### 2. Any number of round trips -/

/-- one round trip through the writer and the reader (`none` = an error of either) -/
def trip (X : Ext) (v : Val) : Option Val := (serW X v).bind de

/-- `n` successive round trips -/
def trips (X : Ext) : Nat → Val → Option Val
  | 0, v => some v
  | n + 1, v => (trip X v).bind (trips X n)

/-- **every further round trip is the identity**: after the first round trip, any number of
additional ones is defined and returns the same normal form. -/
theorem trips_stable (X : Ext) (v : Val) (h : serializable v = true) (hd : depth v ≤ writerDepthLimit) :
    ∀ n : Nat, trips X (n + 1) v = some (norm X v) := by
  have key : ∀ n : Nat, trips X n (norm X v) = some (norm X v) := by
    intro n
    induction n with
    | zero => rfl
    | succ n ih =>
      simp only [trips, trip]
      rw [second_trip_id X v h hd]
      simpa using ih
  intro n
  simp only [trips, trip]
  rw [de_ser X v h hd]
  simpa using key n

example : trips X0 5 (.list [.map [(.num (.i 7), .list [])]]) = some (norm X0 (.list [.map [(.num (.i 7), .list [])]])) := by
  decide

/-- an unserializable or too deep tree fails at the first trip, whatever the number of trips -/
theorem trips_error (X : Ext) (v : Val) (h : serializable v = false ∨ writerDepthLimit < depth v) :
    ∀ n : Nat, trips X (n + 1) v = none := by
  intro n
  have : serW X v = none := by
    rcases h with h | h
    · unfold serW
      split
      · exact ser_error X v h
      · rfl
    · exact serW_too_deep_is_error X v h
  simp [trips, trip, this]

example : serializable (.list [.range none none]) = false := by decide

/-! ### 3. Sizes: sequences keep their length, maps never grow -/

theorem normL_length (X : Ext) : ∀ xs : List Val, (normL X xs).length = xs.length
  | [] => by simp [normL]
  | x :: xs => by simp [normL, normL_length X xs]

theorem normE_length (X : Ext) : ∀ es : List (Val × Val), (normE X es).length = es.length
  | [] => by simp [normE]
  | (k, v) :: es => by simp [normE, normE_length X es]

theorem insertKV_length_le (k v : Val) : ∀ m : List (Val × Val), (insertKV k v m).length ≤ m.length + 1
  | [] => by simp [insertKV]
  | (k', v') :: r => by
    simp only [insertKV]
    split
    · simp
    · have := insertKV_length_le k v r
      simp only [List.length_cons]
      omega

theorem insertKV_length_ge (k v : Val) : ∀ m : List (Val × Val), m.length ≤ (insertKV k v m).length
  | [] => by simp [insertKV]
  | (k', v') :: r => by
    simp only [insertKV]
    split
    · simp
    · have := insertKV_length_ge k v r
      simp only [List.length_cons]
      omega

theorem buildFrom_length_le : ∀ (es acc : List (Val × Val)), (buildFrom acc es).length ≤ acc.length + es.length
  | [], acc => by simp [buildFrom]
  | (k, v) :: r, acc => by
    have h1 := buildFrom_length_le r (insertKV k v acc)
    have h2 := insertKV_length_le k v acc
    simp only [buildFrom, List.length_cons]
    omega

theorem buildFrom_length_ge : ∀ (es acc : List (Val × Val)), acc.length ≤ (buildFrom acc es).length
  | [], acc => by simp [buildFrom]
  | (k, v) :: r, acc => by
    have h1 := buildFrom_length_ge r (insertKV k v acc)
    have h2 := insertKV_length_ge k v acc
    simp only [buildFrom]
    omega

/-- a round trip keeps the length of every list / tuple -/
theorem roundtrip_seq_length (X : Ext) (xs : List Val) (w : Val)
    (h : (serW X (.list xs)).bind de = some w) : ∃ ys, w = .tuple ys ∧ ys.length = xs.length := by
  have hsome : (serW X (.list xs)).isSome = true := by
    cases hs : serW X (.list xs) with
    | none => simp [hs] at h
    | some s => rfl
  rw [serW_isSome] at hsome
  simp only [Bool.and_eq_true, decide_eq_true_eq] at hsome
  have := de_ser X (.list xs) (by simpa using hsome.1) (by simpa using hsome.2)
  rw [this] at h
  refine ⟨normL X xs, ?_, normL_length X xs⟩
  have := Option.some.inj h
  simpa [norm] using this.symm

/-- a round trip never adds entries to a map (entries whose keys print alike are merged), and a
non-empty map stays non-empty -/
theorem roundtrip_map_size (X : Ext) (es : List (Val × Val)) :
    ∃ kvs, norm X (.map es) = .map kvs ∧ kvs.length ≤ es.length ∧ (es ≠ [] → kvs ≠ []) := by
  refine ⟨buildMap (normE X es), by simp [norm], ?_, ?_⟩
  · have := buildFrom_length_le (normE X es) []
    simpa [buildMap, normE_length] using this
  · intro hne
    cases es with
    | nil => exact absurd rfl hne
    | cons e r =>
      obtain ⟨k, v⟩ := e
      intro hnil
      have h1 := buildFrom_length_ge (normE X r) (insertKV (.str (keyStr X k)) (norm X v) [])
      have h0 : (buildMap (normE X ((k, v) :: r))).length = 0 := by rw [hnil]; rfl
      simp only [buildMap, normE, buildFrom] at h0
      simp only [insertKV, List.length_cons, List.length_nil] at h1 h0
      omega

/-! ### 4. JSON and YAML read back everything the writer emits -/

/-- whatever `serialize.rs` accepts (depth ≤ 127) is, after the round trip, within the nesting limit
of the JSON and the YAML reader, and again within the writer's limit -/
theorem writer_output_within_reader_limits (X : Ext) (v : Val) (s : SVal) (h : serW X v = some s) :
    depth (norm X v) ≤ jsonDepthLimit ∧ depth (norm X v) ≤ yamlDepthLimit ∧
      depth (norm X v) ≤ writerDepthLimit := by
  have hd : depth v ≤ writerDepthLimit := by
    unfold serW at h
    split at h
    · assumption
    · cases h
  have := depth_norm_le X v
  simp only [jsonDepthLimit, yamlDepthLimit, writerDepthLimit] at *
  omega

example : serW X0 (.list [.null]) = some (.seq [.unit]) := by
  simp [serW, depth, depthL, writerDepthLimit, ser, serL]

end KotoVerif.C20Ext2
