/-
C02 — second extension module: end-to-end statements connecting the call forms, packed arguments,
generators and the binding algorithm of Model/Bind.lean.
-/
import KotoVerif.Props.C02

namespace KotoVerif.C02Ext2
open KotoVerif KotoVerif.Bind KotoVerif.C02

/-! ## Independence of the temporaries after the arguments -/

/-- **bind_ignores_temporaries.** The outcome of `call_koto_function` (result registers or error)
does not depend on what lies on the register stack after the call's arguments. Unconditional. -/
theorem bind_ignores_temporaries (f : FnVal) (self : Val) (args junk junk' : List Val) :
    callKoto (self :: (args ++ junk)) args.length f
      = callKoto (self :: (args ++ junk')) args.length f := by
  have h : ∀ j : List Val, (self :: (args ++ j)).take (1 + args.length) = self :: args := by
    intro j
    rw [Nat.add_comm]
    simp [List.take_succ_cons]
  simp only [callKoto, h]

/-- the same for generators (through `generator_binds_like_function`) -/
theorem generator_ignores_temporaries (f : FnVal) (self : Val) (args junk junk' : List Val) :
    callGenerator (self :: (args ++ junk)) args.length f
      = callGenerator (self :: (args ++ junk')) args.length f := by
  rw [generator_binds_like_function, generator_binds_like_function]
  exact bind_ignores_temporaries f self args junk junk'

/-! ## Packed arguments: `f xs...` is the call with the elements written out -/

theorem specArgs_plain (iter : Val → Option (List Val)) (vs : List Val) :
    specArgs iter (vs.map (fun v => (v, false))) = vs := by
  induction vs with
  | nil => rfl
  | cons v vs ih => simp [specArgs, ih]

theorem allIterable_plain (iter : Val → Option (List Val)) (vs : List Val) :
    allIterable iter (vs.map (fun v => (v, false))) := by
  induction vs with
  | nil => trivial
  | cons v vs ih => simpa [allIterable] using ih

/-- **packed_call_eq_spread.** For every function, every call form (plain, instance, piped) and every
argument list with any number of packed arguments `xs...` at any positions: the call behaves exactly
like the call in which each packed argument is replaced by its elements written out as ordinary
arguments (same callee registers or same error). -/
theorem packed_call_eq_spread (iter : Val → Option (List Val)) (f : FnVal) (m a : Val)
    (cargs : List CallArg) (hit : allIterable iter cargs)
    (hlim : 1 + cargs.length + (specArgs iter cargs).length ≤ 254)
    (hlim' : 1 + 2 * (specArgs iter cargs).length ≤ 254) :
    callPlain iter f cargs = callPlain iter f ((specArgs iter cargs).map (fun v => (v, false)))
    ∧ callInstance iter f m cargs
        = callInstance iter f m ((specArgs iter cargs).map (fun v => (v, false)))
    ∧ callPiped iter f a cargs
        = callPiped iter f a ((specArgs iter cargs).map (fun v => (v, false))) := by
  have h1 := call_spec iter f m a cargs hit hlim
  have h2 := call_spec iter f m a ((specArgs iter cargs).map (fun v => (v, false)))
    (allIterable_plain iter _) (by simp [specArgs_plain]; omega)
  simp only [specArgs_plain] at h2
  exact ⟨h1.1.trans h2.1.symm, h1.2.1.trans h2.2.1.symm, h1.2.2.trans h2.2.2.symm⟩

/-- instance with the driver's `elems`: `f 1, (2, 3)..., "x"` = `f 1, 2, 3, "x"` -/
example : callPlain elems { argCount := 4, optCount := 0, variadic := false, captures := [] }
      [(.int 1, false), (.tuple [.int 2, .int 3], true), (.str [120], false)]
    = callPlain elems { argCount := 4, optCount := 0, variadic := false, captures := [] }
      [(.int 1, false), (.int 2, false), (.int 3, false), (.str [120], false)] := by rfl

/-- **packed_tuple_call.** `f xs...` with `xs` a tuple (or list) of values is `f(x1, …, xn)`, for the
iteration function the driver uses. -/
theorem packed_tuple_call (f : FnVal) (vs : List Val) (hlim : 2 + 2 * vs.length ≤ 254) :
    callPlain elems f [(.tuple vs, true)] = callPlain elems f (vs.map (fun v => (v, false)))
    ∧ callPlain elems f [(.list vs, true)] = callPlain elems f (vs.map (fun v => (v, false))) := by
  constructor
  · have h := (packed_call_eq_spread elems f .null .null [(.tuple vs, true)]
      (by simp [allIterable, elems]) (by simp [specArgs, elems]; omega)
      (by simp [specArgs, elems]; omega)).1
    simpa [specArgs, elems] using h
  · have h := (packed_call_eq_spread elems f .null .null [(.list vs, true)]
      (by simp [allIterable, elems]) (by simp [specArgs, elems]; omega)
      (by simp [specArgs, elems]; omega)).1
    simpa [specArgs, elems] using h

/-! ## Consequences of the layout -/

/-- **bind_frame_size.** Whenever binding succeeds, the callee starts with exactly
`1 + arg_count + (number of captured variables)` registers: nothing is lost or duplicated whatever
mix of supplied, defaulted and variadic arguments was used. -/
theorem bind_frame_size (f : FnVal) (self : Val) (args junk : List Val) (rs : Regs)
    (hopt : f.optCount ≤ f.expected) (hcap : f.optCount ≤ f.captures.length)
    (hvar : f.variadic = true → f.argCount ≥ 1)
    (h : callKoto (self :: (args ++ junk)) args.length f = .ok rs) :
    rs.length = 1 + f.argCount + (f.captures.length - f.optCount) := by
  have hreq : f.required = f.expected - f.optCount := rfl
  have h1 : f.required ≤ args.length := by
    by_cases hc : f.required ≤ args.length
    · exact hc
    · rw [(bind_errors f self args junk hopt hcap).1 (by omega)] at h; cases h
  have h2 : f.variadic = true ∨ args.length ≤ f.expected := by
    cases hv : f.variadic
    · right
      by_cases hc : args.length ≤ f.expected
      · exact hc
      · rw [(bind_errors f self args junk hopt hcap).2.1 hv (by omega)] at h; cases h
    · left; rfl
  rw [bind_layout f self args junk hopt hcap h1 h2] at h
  injection h with h
  subst h
  have hexp : f.expected = if f.variadic then f.argCount - 1 else f.argCount := rfl
  cases hv : f.variadic
  · simp only [hv, Bool.false_eq_true, if_false] at hexp h2 ⊢
    have h2' : args.length ≤ f.expected := by simpa using h2
    simp [List.length_take, List.length_drop]
    omega
  · have := hvar hv
    simp only [hv, if_true] at hexp ⊢
    simp [List.length_take, List.length_drop]
    omega

example : (callKoto [.null, .int 1, .int 7, .int 8] 1
    { argCount := 3, optCount := 1, variadic := true, captures := [.int 10, .int 77] }).toOption.map
      List.length = some (1 + 3 + (2 - 1)) := by rfl

/-- **bind_no_default_when_supplied.** When at least `expected` arguments are passed, no default
value is used at all: the callee sees self, the arguments, the variadic tuple, then the captured
variables — independently of what the default values are. -/
theorem bind_no_default_when_supplied (f : FnVal) (self : Val) (args junk : List Val)
    (hopt : f.optCount ≤ f.expected) (hcap : f.optCount ≤ f.captures.length)
    (hall : f.expected ≤ args.length) (h2 : f.variadic = true ∨ args.length ≤ f.expected) :
    callKoto (self :: (args ++ junk)) args.length f =
      .ok (self :: args.take f.expected
            ++ (if f.variadic then [Val.tuple (args.drop f.expected)] else [])
            ++ f.captures.drop f.optCount) := by
  have hreq : f.required = f.expected - f.optCount := rfl
  rw [bind_layout f self args junk hopt hcap (by omega) h2]
  have hd : (f.captures.take f.optCount).drop (min args.length f.expected - f.required) = [] := by
    apply List.drop_eq_nil_of_le
    simp [List.length_take]
    omega
  rw [hd]
  simp

example : callKoto [.null, .int 1, .int 2] 2
    { argCount := 2, optCount := 1, variadic := false, captures := [.int 10, .int 77] }
    = .ok [.null, .int 1, .int 2, .int 77] := by rfl

/-- **bind_all_defaults.** When exactly the required arguments are passed, every optional parameter
holds its own default, in declaration order. -/
theorem bind_all_defaults (f : FnVal) (self : Val) (args junk : List Val)
    (hopt : f.optCount ≤ f.expected) (hcap : f.optCount ≤ f.captures.length)
    (hlen : args.length = f.required) :
    callKoto (self :: (args ++ junk)) args.length f =
      .ok (self :: args ++ f.captures.take f.optCount
            ++ (if f.variadic then [Val.tuple []] else [])
            ++ f.captures.drop f.optCount) := by
  have hreq : f.required = f.expected - f.optCount := rfl
  rw [bind_layout f self args junk hopt hcap (by omega) (by right; omega)]
  have hm : min args.length f.expected - f.required = 0 := by omega
  have ht : args.take f.expected = args := List.take_of_length_le (by omega)
  have hdr : args.drop f.expected = [] := List.drop_eq_nil_of_le (by omega)
  rw [hm, ht]
  simp [hdr]

/-! ## Generator functions called through every call form -/

/-- **generator_call_forms.** Calling a generator function binds its arguments exactly like calling
an ordinary function, through every call form (plain, instance, piped) and with any packed
arguments: same initial registers of the generator's frame, same error. -/
theorem generator_call_forms (iter : Val → Option (List Val)) (f : FnVal) (m a : Val)
    (cargs : List CallArg) (hit : allIterable iter cargs)
    (hlim : 1 + cargs.length + (specArgs iter cargs).length ≤ 254) :
    callPlain iter f cargs true = callPlain iter f cargs false
    ∧ callInstance iter f m cargs true = callInstance iter f m cargs false
    ∧ callPiped iter f a cargs true = callPiped iter f a cargs false := by
  have key : ∀ (inst : Option Val) (pre : List Val), pre.length ≤ 1 →
      callCallable iter
        (Val.null :: (pre ++ cargs.map (·.1) ++ (packedIdxs pre.length cargs).map (fun i => Val.int (i : Nat))))
        inst (pre.length + cargs.length) (packedIdxs pre.length cargs).length f true
      = callCallable iter
        (Val.null :: (pre ++ cargs.map (·.1) ++ (packedIdxs pre.length cargs).map (fun i => Val.int (i : Nat))))
        inst (pre.length + cargs.length) (packedIdxs pre.length cargs).length f false := by
    intro inst pre hpre
    have hp := packed_args_spec iter (inst.getD .null) cargs [] pre.length pre rfl hit (by omega)
    simp only [List.append_nil] at hp
    have hg := generator_binds_like_function f (inst.getD .null) (pre ++ specArgs iter cargs) []
    simp only [List.append_nil, List.length_append] at hg
    simp only [callCallable, setReg, List.length_cons, Nat.zero_lt_succ, if_true, List.set_cons_zero,
      Bool.false_eq_true, if_false, hp, bind, Except.bind, hg]
  refine ⟨?_, ?_, ?_⟩
  · have := key none [] (by simp)
    simpa [callPlain, compileCall] using this
  · have := key (some m) [] (by simp)
    simpa [callInstance, compileCall] using this
  · have := key none [a] (by simp)
    simpa [callPiped, compileCall, Nat.add_comm] using this

example : callPiped elems { argCount := 3, optCount := 1, variadic := false, captures := [.int 9] }
      (.int 1) [(.tuple [.int 2], true)] true = .ok [.null, .int 1, .int 2, .int 9] := by rfl

end KotoVerif.C02Ext2
