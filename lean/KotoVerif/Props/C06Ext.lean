/-
Extension theorems for C06 (round 6): value-level / algebraic facts about the guard kernels of
Model/Guards.lean that the `_total` theorems of Props/C06.lean do not state.
-/
import KotoVerif.Lemmas.C06

namespace KotoVerif.C06Ext
open KotoVerif.Guards KotoVerif.C06

/-! ### `wrap64`, `satI64`, `castU8`, `clamp`: the machine-integer views -/

/-- `wrap64` (two's-complement wrap) always lands in `i64`, for every integer -/
theorem wrap64_range (x : Int) : inI64 (wrap64 x) := by
  unfold wrap64 inI64 I64_MIN I64_MAX; omega

/-- wrapping twice is wrapping once -/
theorem wrap64_idem (x : Int) : wrap64 (wrap64 x) = wrap64 x := by
  unfold wrap64; omega

/-- `wrap64` only ever changes a value by a multiple of 2^64 -/
theorem wrap64_congr (x : Int) : (wrap64 x - x) % 18446744073709551616 = 0 := by
  unfold wrap64; omega

/-- the saturating cast lands in `i64`, is the identity there, and is idempotent and monotone -/
theorem satI64_range (x : Int) : inI64 (satI64 x) := by
  unfold satI64 inI64 I64_MIN I64_MAX; omega

theorem satI64_id {x : Int} (h : inI64 x) : satI64 x = x := by
  unfold satI64; unfold inI64 I64_MIN I64_MAX at *; omega
example : inI64 (-5) := by unfold inI64 I64_MIN I64_MAX; omega

theorem satI64_idem (x : Int) : satI64 (satI64 x) = satI64 x := satI64_id (satI64_range x)

theorem satI64_mono {x y : Int} (h : x ≤ y) : satI64 x ≤ satI64 y := by
  unfold satI64 I64_MIN I64_MAX; omega
example : (3 : Int) ≤ 4 := by decide

/-- `as u8` lands in `u8` and is the identity there -/
theorem castU8_range (x : Int) : inU8 (castU8 x) := by
  unfold castU8 inU8 U8_MAX; omega

theorem castU8_id {x : Int} (h : inU8 x) : castU8 x = x := by
  unfold castU8; unfold inU8 U8_MAX at h; omega
example : inU8 200 := by unfold inU8 U8_MAX; omega

/-- `clamp` never panics for ordered bounds, its result lies between them, and it panics exactly
when `min > max` -/
theorem clamp_spec (x lo hi : Int) :
    (clamp x lo hi = .panic ↔ hi < lo) ∧ ∀ v, clamp x lo hi = .ok v → lo ≤ v ∧ v ≤ hi ∧ (lo ≤ x → x ≤ hi → v = x) := by
  unfold clamp
  by_cases h : lo ≤ hi
  · simp only [h, ite_true]
    refine ⟨by simp; omega, fun v hv => ?_⟩
    cases hv; omega
  · simp only [h, ite_false]
    refine ⟨by simp; omega, fun v hv => by cases hv⟩

/-! ### remainder -/

/-- `i64::wrapping_rem` is truncated remainder for every non-zero divisor (the `-1` special case
changes nothing mathematically: it only avoids the overflow trap) -/
theorem wrappingRem_eq_tmod (a b : Int) (hb : b ≠ 0) : wrappingRem a b = .ok (Int.tmod a b) := by
  unfold wrappingRem
  simp only [hb, ite_false]
  by_cases h1 : b = -1
  · subst h1; simp [Int.tmod_neg]
  · simp [h1]
example : (7 : Int) ≠ 0 := by decide

/-- `run_remainder`: complete value specification (`none` = NaN exactly for divisor 0) -/
theorem runRemainder_value (a b : Int) :
    runRemainder a b = .ok (if b = 0 then none else some (Int.tmod a b)) := by
  unfold runRemainder
  by_cases hb : b = 0
  · simp [hb]
  · simp only [hb, ite_false]; rw [wrappingRem_eq_tmod a b hb]; rfl

/-- the two remainder entry points agree wherever the compound-assignment form does not panic -/
theorem runRemainderAssign_agrees (a b : Int) (hb : b ≠ 0) :
    (runRemainderAssign a b).map' some = runRemainder a b := by
  unfold runRemainderAssign runRemainder; simp [hb]

/-! ### shifts, abs -/

/-- whatever `shift_left` returns is an `i64`, for every (even ill-formed) operand -/
theorem shiftLeft_value_inI64 (a : Int) (b : NumView) (v : Int) (h : shiftLeft a b = .ok v) : inI64 v := by
  unfold shiftLeft at h
  split at h
  · split at h
    · cases h; exact wrap64_range _
    · cases h
  · cases h

/-- a shift by zero is the identity on `i64` values (left and right) -/
theorem shift_zero (a : Int) (ha : inI64 a) (b : NumView) (hb : b.geZeroI = true) (h0 : b.i64 = 0) :
    shiftLeft a b = .ok a ∧ shiftRight a b = .ok a := by
  unfold shiftLeft shiftRight
  simp [hb, h0]
  unfold wrap64; unfold inI64 I64_MIN I64_MAX at ha; omega

/-- `KNumber::abs`: when it returns, the value is the mathematical absolute value and is an `i64` -/
theorem absInt_value (a v : Int) (h : absInt a = .ok v) : v = iabs a ∧ 0 ≤ v ∧ inI64 v := by
  unfold absInt ckI64 at h
  unfold iabs
  by_cases hr : I64_MIN ≤ (if a < 0 then -a else a) ∧ (if a < 0 then -a else a) ≤ I64_MAX
  · rw [if_pos hr] at h
    cases h; unfold inI64; refine ⟨rfl, ?_, hr⟩; split <;> omega
  · rw [if_neg hr] at h; cases h
example : absInt (-3) = .ok 3 := by decide

/-- `abs` is idempotent wherever it is defined -/
theorem absInt_idem (a v : Int) (h : absInt a = .ok v) : absInt v = .ok v := by
  have hv := absInt_value a v h
  unfold absInt
  have : ¬ v < 0 := by omega
  simp only [this, ite_false]
  exact ckI64_ok hv.2.2

/-! ### `IndexMap::swap_indices` -/

/-- `swap_indices` keeps the number of entries -/
theorem swapIndices_length (ks ks' : List Nat) (i j : Nat) (h : swapIndices ks i j = .ok ks') :
    ks'.length = ks.length := by
  unfold swapIndices at h
  split at h
  · cases h; simp
  · cases h
example : swapIndices [1, 2, 3] 0 2 = .ok [3, 2, 1] := by decide

/-- `swap_indices` panics exactly when one of the two indices is out of range -/
theorem swapIndices_panic_iff (ks : List Nat) (i j : Nat) :
    swapIndices ks i j = .panic ↔ ¬ (i < ks.length ∧ j < ks.length) := by
  unfold swapIndices
  by_cases hi : i < ks.length
  · by_cases hj : j < ks.length
    · rw [List.getElem?_eq_getElem hi, List.getElem?_eq_getElem hj]; simp [hi, hj]
    · have : ks[j]? = none := by simp; omega
      rw [List.getElem?_eq_getElem hi, this]; simp [hj]
  · have : ks[i]? = none := by simp; omega
    rw [this]; simp [hi]

/-! ### operation sequences compose -/

/-- running `a ++ b` on a compiler frame is running `a`, then `b` from the state reached (so every
invariant of single runs lifts to concatenations; panics and errors propagate) -/
theorem frameRun_append (f : Frame) (a b : List FrameOp) :
    frameRun f (a ++ b) = (frameRun f a).bind fun f' => frameRun f' b := by
  induction a generalizing f with
  | nil => rfl
  | cons op ops ih =>
    simp only [List.cons_append, frameRun]
    cases frameStep f op with
    | panic => rfl
    | err => rfl
    | ok f' => simp only [bind_ok]; exact ih f'

/-- `next_register` headroom guard: a granted register leaves room for 8 more below 255 -/
theorem nextRegister_spec (next v : Int) (h : nextRegister next = .ok v) : v = next ∧ v + 8 ≤ 255 := by
  unfold nextRegister at h
  split at h
  · cases h
  · cases h; omega
example : nextRegister 247 = .ok 247 := by decide

/-- unpacking the packed arguments `a ++ b` is unpacking `a`, then `b` from the argument count
reached (for the current and for the stale-limit variant) -/
theorem unpackArgsFrom_append (m : Option Int) (c : Int) (a b : List Int) :
    unpackArgsFrom m c (a ++ b) = (unpackArgsFrom m c a).bind fun c' => unpackArgsFrom m c' b := by
  induction a generalizing c with
  | nil => rfl
  | cons l ls ih =>
    simp only [List.cons_append, unpackArgsFrom]
    cases unpackOne m c l with
    | panic => rfl
    | err => rfl
    | ok c' => simp only [bind_ok]; exact ih c'

/-- the order of the two indices of `swap_indices` is irrelevant -/
theorem swapIndices_comm (ks : List Nat) (i j : Nat) : swapIndices ks i j = swapIndices ks j i := by
  unfold swapIndices
  cases hi : ks[i]? with
  | none => cases hj : ks[j]? <;> rfl
  | some a =>
    cases hj : ks[j]? with
    | none => rfl
    | some b =>
      simp only
      by_cases hij : i = j
      · subst hij; rw [hi] at hj; cases hj; rfl
      · rw [List.set_comm _ _ hij]

/-- `shift_right` of an `i64` by an admissible amount stays between the operand and 0 / -1 -/
theorem shiftRight_value_inI64 (a : Int) (ha : inI64 a) (b : NumView) (v : Int) (h : shiftRight a b = .ok v) :
    inI64 v := by
  unfold shiftRight at h
  split at h
  · split at h
    · cases h
      have hp : (0 : Int) < 2 ^ b.i64.toNat := Int.pow_pos (by decide)
      generalize (2 : Int) ^ b.i64.toNat = n at hp
      unfold inI64 I64_MIN I64_MAX at *
      by_cases h0 : 0 ≤ a
      · have h1 := Int.ediv_nonneg h0 (Int.le_of_lt hp)
        have h2 := Int.ediv_le_self n h0
        omega
      · have h1 : a / n < 0 := Int.ediv_neg_of_neg_of_pos (by omega) hp
        have h2 : a ≤ a / n := by
          apply Int.le_ediv_of_mul_le hp
          have : a * n ≤ a * 1 := Int.mul_le_mul_of_nonpos_left (by omega) (by omega)
          omega
        omega
    · cases h
  · cases h

/-- the values pulled from a `StepTo` iterator never exceed the number of pulls -/
theorem stepToRun_length_le (s : StepTo) (ops : List Bool) (vs : List Int)
    (h : stepToRun s ops = .ok vs) : vs.length ≤ ops.length := by
  induction ops generalizing s vs with
  | nil => simp [stepToRun] at h; subst h; simp
  | cons b ops ih =>
    simp only [stepToRun] at h
    cases hr : (if b then stepToNextBack s else stepToNext s) with
    | panic => rw [hr] at h; cases h
    | err => rw [hr] at h; cases h
    | ok r =>
      rw [hr] at h; simp only [bind_ok] at h
      cases hv : stepToRun r.2 ops with
      | panic => rw [hv] at h; cases h
      | err => rw [hv] at h; cases h
      | ok ws =>
        rw [hv] at h; simp only [bind_ok] at h
        have := ih r.2 ws hv
        cases h
        cases r.1 <;> simp <;> omega

/-! non-vacuity witnesses for the hypotheses used above -/
example : shiftLeft 3 ⟨false, true, true, 2, 2⟩ = .ok 12 := by decide
example : shiftRight (-8) ⟨false, true, true, 1, 1⟩ = .ok (-4) := by decide
example : shiftLeft 5 ⟨false, true, true, 0, 0⟩ = .ok 5 ∧ shiftRight 5 ⟨false, true, true, 0, 0⟩ = .ok 5 := by decide
example : (stepToNew 1 9 2).bind (fun s => stepToRun s [false, true, false, false, false, false]) = .ok [1, 9, 3, 5, 7] := by
  decide
example : runRemainderAssign 7 (-1) = .ok 0 ∧ runRemainder 7 (-1) = .ok (some 0) := by decide

end KotoVerif.C06Ext
