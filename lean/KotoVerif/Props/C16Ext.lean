/-
C16 — additional theorems about the executable model of type hints (`Model/Types.lean`,
`Model/HintEval.lean`): algebraic laws of `check` (= `compare_value_type`), inheritance of `@type`
and of passing hints along `@base`, frame properties of pattern matching and catch selection,
the general (any position) form of "first accepting catch block", fuel independence of the cyclic
graph walks.
-/
import KotoVerif.Lemmas.C16
import KotoVerif.Lemmas.C16Types
import KotoVerif.Lemmas.C16Graph

namespace KotoVerif.C16Ext
open KotoVerif.Types KotoVerif.HintEval KotoVerif.Gen.TypeNames KotoVerif.C16

/-! ## Laws of `check` -/

/-- `?` only ever widens a hint: whatever `T` accepts, `T?` accepts. -/
theorem check_opt_monotone (h : TyName) (v : V) (hc : check h false v = true) : check h true v = true := by
  unfold check at *
  cases hn : v.isNull <;> simp_all

example : check (kindName .number) false (.int 3) = true := by decide

/-- Reflexivity: a value passes the hint that spells its own type name — unless that name is one of
the four special names (a host object may call itself `Callable` without being callable). -/
theorem check_own_name (n : Bool) (v : V) (hs : specialLookup (typeName v) specialTable = none) :
    check (typeName v) n v = true := by
  unfold check
  simp [hs]

example : specialLookup (typeName (.obj (.str [70]) {} [] none)) specialTable = none := by decide

/-- the side condition of `check_own_name` cannot be dropped -/
theorem check_own_name_needs_ordinary :
    ∃ v, check (typeName v) false v = false :=
  ⟨.host name_callable false false false, by decide⟩

/-- the loop of `compare_value_type` on a map with a `@base`: one step, then the base's own answer -/
theorem baseChain_step (h : TyName) (ty : MetaTy) (fl : Flags) (es : List (Nat × V)) (b : V) :
    baseChain h (.obj ty fl es (some b)) = (typeName b == h || baseChain h b) := by
  simp [baseChain]

/-- **Hints are inherited along `@base`.** For an ordinary (non-special) name, every hint the base
passes is passed by any map whose `@base` is that value — whatever the derived map's own `@type`,
flags and entries, and with or without `?`. -/
theorem check_inherited (h : TyName) (n : Bool) (ty : MetaTy) (fl : Flags) (es : List (Nat × V)) (b : V)
    (hs : specialLookup h specialTable = none) (hb : check h false b = true) :
    check h n (.obj ty fl es (some b)) = true := by
  unfold check at *
  simp only [hs, Bool.false_and, Bool.false_eq_true, if_false] at hb
  simp only [hs, V.isNull, Bool.and_false, Bool.false_eq_true, if_false, baseChain_step]
  simp only [Bool.or_eq_true] at hb ⊢
  exact Or.inr hb

example : specialLookup [70] specialTable = none ∧ check [70] false (.obj (.str [70]) {} [] none) = true := by
  decide

/-- … to every depth: prepending any number of derived maps keeps an ordinary hint passing. -/
theorem check_inherited_deep (h : TyName) (hs : specialLookup h specialTable = none) (w : V)
    (hw : check h false w = true) :
    ∀ (k : Nat) (v : V), V.baseIter k v = some w → check h false v = true := by
  intro k
  induction k with
  | zero => intro v hv; simp [V.baseIter] at hv; subst hv; exact hw
  | succ k ih =>
    intro v hv
    cases v with
    | obj ty fl es b =>
      cases b with
      | none => simp [V.baseIter, V.base] at hv
      | some b =>
        simp only [V.baseIter, V.base] at hv
        exact check_inherited h false ty fl es b hs (ih b hv)
    | _ => simp [V.baseIter, V.base] at hv

/-- **`@type` is inherited along `@base`, an own `@type` wins.** -/
theorem typeName_inheritance (fl fl' : Flags) (es es' : List (Nat × V)) (ty' : MetaTy) (b b' : Option V) (s : TyName) :
    typeName (.obj .absent fl es (some (.obj ty' fl' es' b'))) = typeName (.obj ty' fl' es' b') ∧
    typeName (.obj (.str s) fl es b) = s ∧
    typeName (.obj .nonString fl es b) = badMetaTypeName ∧
    typeName (.obj .absent fl es none) = objectName := by
  refine ⟨?_, ?_, ?_, ?_⟩ <;> simp [typeName, metaType]

/-- A `@base` that is *not* a map with a metamap (a number, a plain map, a host object …) contributes
no type name: the derived map is an `Object`, although the loop of `compare_value_type` still
accepts the base's type name as a hint. -/
theorem non_meta_base_names_nothing (fl : Flags) (es : List (Nat × V)) (b : V)
    (hb : ∀ ty f e bb, b ≠ .obj ty f e bb) (hs : specialLookup (typeName b) specialTable = none) :
    typeName (.obj .absent fl es (some b)) = objectName ∧
    check (typeName b) false (.obj .absent fl es (some b)) = true := by
  constructor
  · cases b <;> simp_all [typeName, metaType]
  · exact check_inherited _ false _ _ _ b hs (check_own_name false b hs)

example : (∀ ty f e bb, V.int 1 ≠ .obj ty f e bb) ∧ specialLookup (typeName (.int 1)) specialTable = none := by
  constructor
  · intro _ _ _ _ h; cases h
  · decide

/-- **Capability hints look at the value's own metamap only**: for a map with a metamap, `Callable`,
`Indexable` and `Iterable` do not depend on `@type`, on the entries or on the `@base` chain. -/
theorem capability_hints_ignore_base (n : Bool) (ty ty' : MetaTy) (fl : Flags) (es es' : List (Nat × V))
    (b b' : Option V) :
    check name_callable n (.obj ty fl es b) = check name_callable n (.obj ty' fl es' b') ∧
    check name_indexable n (.obj ty fl es b) = check name_indexable n (.obj ty' fl es' b') ∧
    check name_iterable n (.obj ty fl es b) = check name_iterable n (.obj ty' fl es' b') := by
  have h1 : specialLookup name_callable specialTable = some .callable := by decide
  have h2 : specialLookup name_indexable specialTable = some .indexable := by decide
  have h3 : specialLookup name_iterable specialTable = some .iterable := by decide
  refine ⟨?_, ?_, ?_⟩
  · simp [check, h1, V.isNull, holds, callableHint, callable, isGeneratorFn]
  · simp [check, h2, V.isNull, holds, indexable]
  · simp [check, h3, V.isNull, holds, iterableHint, iterable, isMapValue]

/-- a failed assertion that is caught arrives as a `String`: `catch e: String` (and `catch e: Any`)
always takes it, for every hint and every found type -/
theorem caught_type_error_is_string (h : Hint) (found : TyName) (o : Bool) :
    check (kindName .str) o (catchVal (.type h found)) = true ∧
    check name_always o (catchVal (.type h found)) = true := by
  constructor
  · have hs : specialLookup (kindName .str) specialTable = none := by decide
    simp [check, catchVal, V.isNull, hs, typeName]
  · have hs : specialLookup name_always specialTable = some .always := by decide
    simp [check, catchVal, V.isNull, hs, holds]

/-! ## Catch selection at any position -/

/-- **First accepting block, in general position**: typed catch blocks that reject the caught value
are skipped — however many — and the first one that accepts runs, with the value bound. -/
theorem selectCatch_first_accepting (cv : V) (pre post : List CatchArm) (y : Option Var) (h : Hint) (body : Expr)
    (x : Option Var) (final : Expr) (s : St)
    (hpre : ∀ y' h' b', CatchArm.mk y' h' b' ∈ pre → check h'.name h'.opt cv = false)
    (hc : check h.name h.opt cv = true) :
    selectCatch cv (pre ++ .mk y h body :: post) x final s = (body, s.setOpt y cv) := by
  induction pre with
  | nil => simp [selectCatch, hc]
  | cons a pre ih =>
    cases a with
    | mk y' h' b' =>
      have h1 := hpre y' h' b' (List.mem_cons_self ..)
      simp only [List.cons_append, selectCatch, h1, Bool.false_eq_true, if_false]
      exact ih (fun y2 h2 b2 hm => hpre y2 h2 b2 (List.mem_cons_of_mem _ hm))

example : (∀ y' h' b', CatchArm.mk y' h' b' ∈ [CatchArm.mk none ⟨kindName .str, false⟩ (.lit .null)] →
      check h'.name h'.opt (.int 1) = false) ∧
    check (kindName .number) false (.int 1) = true := by
  constructor
  · intro y' h' b' hm
    simp only [List.mem_singleton, CatchArm.mk.injEq] at hm
    obtain ⟨_, rfl, _⟩ := hm
    decide
  · decide

/-- … and when every typed block rejects, the final untyped `catch` takes the value. -/
theorem selectCatch_all_reject (cv : V) (typed : List CatchArm) (x : Option Var) (final : Expr) (s : St)
    (hall : ∀ y' h' b', CatchArm.mk y' h' b' ∈ typed → check h'.name h'.opt cv = false) :
    selectCatch cv typed x final s = (final, s.setOpt x cv) := by
  induction typed with
  | nil => rfl
  | cons a typed ih =>
    cases a with
    | mk y' h' b' =>
      have h1 := hall y' h' b' (List.mem_cons_self ..)
      simp only [selectCatch, h1, Bool.false_eq_true, if_false]
      exact ih (fun y2 h2 b2 hm => hall y2 h2 b2 (List.mem_cons_of_mem _ hm))

/-- catch selection writes at most one variable and nothing else: output trace, output hint and the
failure counter are untouched -/
theorem selectCatch_frame (cv : V) (typed : List CatchArm) (x : Option Var) (final : Expr) :
    ∀ s, (selectCatch cv typed x final s).2.trace = s.trace ∧ (selectCatch cv typed x final s).2.out = s.out := by
  induction typed with
  | nil => intro s; cases x <;> exact ⟨rfl, rfl⟩
  | cons a rest ih =>
    intro s
    cases a with
    | mk y h body =>
      simp only [selectCatch]
      split
      · cases y <;> exact ⟨rfl, rfl⟩
      · exact ih s

/-! ## Pattern matching: frame and fuel independence -/

theorem setOpt_frame (s : St) (x : Option Var) (v : V) :
    (s.setOpt x v).trace = s.trace ∧ (s.setOpt x v).out = s.out := by
  cases x <;> exact ⟨rfl, rfl⟩

/-- `match` patterns (typed or not, nested to any depth) never emit output and never touch the
frame's output hint: all they can do is bind variables. -/
theorem pat_frame : ∀ k,
    (∀ p v s, (patM k p v s).2.trace = s.trace ∧ (patM k p v s).2.out = s.out) ∧
    (∀ ps vs s, (patsM k ps vs s).2.trace = s.trace ∧ (patsM k ps vs s).2.out = s.out) := by
  intro k
  induction k with
  | zero => exact ⟨fun p v s => by simp [patM], fun ps vs s => by simp [patsM]⟩
  | succ k ih =>
    constructor
    · intro p v s
      cases p with
      | b x h =>
        simp only [patM]
        split
        · exact setOpt_frame s x v
        · split
          · exact setOpt_frame s x v
          · exact ⟨rfl, rfl⟩
      | lit n => simp [patM]
      | tup ps =>
        simp only [patM]
        split
        · split
          · exact ih.2 _ _ _
          · exact ⟨rfl, rfl⟩
        · exact ⟨rfl, rfl⟩
        · exact ⟨rfl, rfl⟩
    · intro ps vs s
      cases ps with
      | nil => simp [patsM]
      | cons p ps =>
        simp only [patsM]
        have h1 := ih.1 p (vs.headD .null) s
        split
        · next s1 heq =>
          rw [heq] at h1
          have h2 := ih.2 ps vs.tail s1
          exact ⟨h2.1.trans h1.1, h2.2.trans h1.2⟩
        · exact h1

/-- the same for a whole arm with its `or` alternatives -/
theorem armM_frame (k : Nat) (alts : List (List P)) (vs : List V) :
    ∀ s, (armM k alts vs s).2.trace = s.trace ∧ (armM k alts vs s).2.out = s.out := by
  have halts : ∀ (alts : List (List P)) s, (altsM k alts vs s).2.trace = s.trace ∧ (altsM k alts vs s).2.out = s.out := by
    intro alts
    induction alts with
    | nil => intro s; exact ⟨rfl, rfl⟩
    | cons alt alts ih =>
      intro s
      simp only [altsM]
      have h1 := (pat_frame k).2 alt vs s
      split
      · next s1 heq =>
        rw [heq] at h1
        have h2 := ih s1
        exact ⟨h2.1.trans h1.1, h2.2.trans h1.2⟩
      · exact h1
  intro s
  unfold armM
  split
  · exact ⟨rfl, rfl⟩
  · exact halts alts s

/-- **Fuel independence of pattern matching**: once the nesting bound suffices (the answer is not
`stuck`), any larger bound gives the same answer and the same bindings. -/
theorem pat_fuel_mono : ∀ k,
    (∀ p v s, (patM k p v s).1 ≠ .stuck → patM (k + 1) p v s = patM k p v s) ∧
    (∀ ps vs s, (patsM k ps vs s).1 ≠ .stuck → patsM (k + 1) ps vs s = patsM k ps vs s) := by
  intro k
  induction k with
  | zero => exact ⟨fun p v s h => by simp [patM] at h, fun ps vs s h => by simp [patsM] at h⟩
  | succ k ih =>
    constructor
    · intro p v s hns
      cases p with
      | b x h => simp [patM]
      | lit n => simp [patM]
      | tup ps =>
        simp only [patM] at hns ⊢
        cases hx : sized v with
        | elems xs =>
          simp only [hx] at hns ⊢
          by_cases hl : xs.length = ps.length
          · simp only [hl, if_true] at hns ⊢; exact ih.2 _ _ _ hns
          · simp [hl]
        | nosize => simp
        | other => simp [hx] at hns
    · intro ps vs s hns
      cases ps with
      | nil => simp [patsM]
      | cons p ps =>
        rw [patsM] at hns
        rw [patsM, patsM]
        cases hp : patM k p (vs.headD .null) s with
        | mk r s1 =>
          rw [hp] at hns
          have h1 : patM (k + 1) p (vs.headD .null) s = (r, s1) := by
            rw [← hp]; apply ih.1
            rw [hp]
            cases r <;> simp_all
          rw [h1]
          cases r with
          | yes => simp only at hns ⊢; exact ih.2 _ _ _ hns
          | no => rfl
          | stuck => simp at hns

example : (patM 3 (.tup [.b (some 0) none]) (.tuple [.int 1]) {}).1 ≠ .stuck := by decide

/-! ## Binding with checks disabled -/

/-- With type checks disabled, binding any list of (hinted) targets to any values cannot raise:
the result is `ok`, the failure counter does not move. -/
theorem bindMany_off_never_raises (bs : List Binder) :
    ∀ (vs : List V) (s : St), (bindMany false bs vs s).1 = .ok .null ∧ (bindMany false bs vs s).2.fails = s.fails := by
  induction bs with
  | nil => intro vs s; exact ⟨rfl, rfl⟩
  | cons b bs ih =>
    intro vs s
    have ha : ∀ (h : Option Hint) (v : V) (t : St), assertHint false h v t = (.ok .null, t) := by
      intro h v t; cases h <;> simp [assertHint]
    simp only [bindMany, bindOne, ha, andThen]
    have h := ih vs.tail (s.setOpt b.1 (vs.headD .null))
    rw [setOpt_fails] at h
    exact h

/-! ## Graph model (possibly cyclic `@base` chains) -/

/-- more fuel never changes an answer of `KMap::meta_type`'s walk -/
theorem metaTypeG_fuel_mono (g : Graph) :
    ∀ fuel vis n r, metaTypeG g fuel vis n = some r → metaTypeG g (fuel + 1) vis n = some r := by
  intro fuel
  induction fuel with
  | zero => intro vis n r h; simp [metaTypeG] at h
  | succ fuel ih =>
    intro vis n r h
    rw [metaTypeG] at h ⊢
    cases hg : g[n]? with
    | none => simp only [hg] at h ⊢; exact h
    | some nd =>
      simp only [hg] at h ⊢
      cases hty : nd.ty with
      | str s => simp only [hty] at h ⊢; exact h
      | nonString => simp only [hty] at h ⊢; exact h
      | absent =>
        simp only [hty] at h ⊢
        cases hb : nd.base with
        | none => simp only [hb] at h ⊢; exact h
        | some b =>
          simp only [hb] at h ⊢
          by_cases hc : (n :: vis).contains b = true
          · rw [if_pos hc] at h ⊢; exact h
          · rw [if_neg hc] at h ⊢; exact ih _ _ _ h

/-- more fuel never changes an answer of the `compare_value_type` loop -/
theorem walkG_fuel_mono (g : Graph) (h : TyName) :
    ∀ fuel vis n r, walkG g h fuel vis n = some r → walkG g h (fuel + 1) vis n = some r := by
  intro fuel
  induction fuel with
  | zero => intro vis n r hw; simp [walkG] at hw
  | succ fuel ih =>
    intro vis n r hw
    rw [walkG] at hw ⊢
    cases hb : gBase g n with
    | none => simp only [hb] at hw ⊢; exact hw
    | some b =>
      simp only [hb] at hw ⊢
      by_cases hv : vis.contains n = true
      · rw [if_pos hv] at hw ⊢; exact hw
      · rw [if_neg hv] at hw ⊢
        by_cases ht : typeNameG g b = h
        · rw [if_pos ht] at hw ⊢; exact hw
        · rw [if_neg ht] at hw ⊢; exact ih _ _ _ hw

/-- a node with its own `@type` string has that type name, whatever the rest of the graph (cycles
included) looks like -/
theorem typeNameG_own (g : Graph) (n : Nat) (s : TyName) (b : Option Nat) (hn : g[n]? = some ⟨.str s, b⟩) :
    typeNameG g n = s := by
  simp [typeNameG, metaTypeG, hn]

/-- reflexivity on graphs: every node passes the ordinary hint spelling its own type name -/
theorem checkG_own_name (g : Graph) (o : Bool) (n : Nat)
    (hs : specialLookup (typeNameG g n) specialTable = none) : checkG g (typeNameG g n) o n = true := by
  simp [checkG, hs]

example : specialLookup (typeNameG [⟨.absent, some 0⟩] 0) specialTable = none := by decide

/-- **A multi-assignment / several `for` arguments raise exactly when some target's hint rejects the
value at its position** (missing values are null): with checks enabled `bindMany` succeeds iff
every hinted target `i` accepts `vs[i]`. -/
theorem bindMany_ok_iff (bs : List Binder) : ∀ (vs : List V) (s : St),
    (bindMany true bs vs s).1 = .ok .null ↔
      ∀ i (hi : i < bs.length) (h : Hint), bs[i].2 = some h → check h.name h.opt (vs.getD i .null) = true := by
  induction bs with
  | nil => intro vs s; simp [bindMany]
  | cons b bs ih =>
    intro vs s
    obtain ⟨x, oh⟩ := b
    have hv : ∀ i, vs.tail.getD i .null = vs.getD (i + 1) .null := by cases vs <;> simp
    have h0 : vs.headD .null = vs.getD 0 .null := by cases vs <;> simp
    cases oh with
    | none =>
      simp only [bindMany, bindOne, assertHint, andThen]
      rw [ih]
      constructor
      · intro H i hi h hb
        cases i with
        | zero => simp at hb
        | succ i => rw [← hv]; exact H i (by simpa using hi) h (by simpa using hb)
      · intro H i hi h hb
        rw [hv]; exact H (i + 1) (by simpa using hi) h (by simpa using hb)
    | some hh =>
      simp only [bindMany, bindOne, assertHint, Bool.true_and]
      cases hc : check hh.name hh.opt (vs.headD .null) with
      | true =>
        simp only [Bool.not_true, Bool.false_eq_true, if_false, andThen]
        rw [ih]
        constructor
        · intro H i hi h hb
          cases i with
          | zero =>
            simp at hb; subst hb; rw [← h0]; exact hc
          | succ i => rw [← hv]; exact H i (by simpa using hi) h (by simpa using hb)
        · intro H i hi h hb
          rw [hv]; exact H (i + 1) (by simpa using hi) h (by simpa using hb)
      | false =>
        simp only [Bool.not_false, if_true, andThen]
        constructor
        · intro H; cases H
        · intro H
          have := H 0 (by simp) hh rfl
          rw [← h0, hc] at this
          cases this

example : ∀ i (hi : i < [((some 0 : Option Var), some (⟨kindName .number, false⟩ : Hint))].length) (h : Hint),
    ([((some 0 : Option Var), some (⟨kindName .number, false⟩ : Hint))][i]).2 = some h →
      check h.name h.opt ([V.int 1].getD i .null) = true := by
  intro i hi h hb
  have : i = 0 := by simpa using hi
  subst this
  simp at hb; subst hb; decide

/-- With type checks disabled, binding function arguments (nested to any depth) never produces an
error: the only non-`ok` outcome is `stuck` (a size mismatch, outside the model). -/
theorem bindArg_off_never_raises : ∀ k,
    (∀ p v s e, (bindArg false k p v s).1 ≠ .err e) ∧ (∀ ps vs s e, (bindArgs false k ps vs s).1 ≠ .err e) := by
  have ha : ∀ (h : Option Hint) (v : V) (t : St), assertHint false h v t = (.ok .null, t) := by
    intro h v t; cases h <;> simp [assertHint]
  intro k
  induction k with
  | zero => exact ⟨fun p v s e => by simp [bindArg], fun ps vs s e => by simp [bindArgs]⟩
  | succ k ih =>
    constructor
    · intro p v s e
      cases p with
      | b x h => simp [bindArg, bindOne, ha]
      | lit n => simp [bindArg]
      | tup ps =>
        simp only [bindArg]
        split
        · split
          · exact ih.2 _ _ _ e
          · simp
        · simp
    · intro ps vs s e
      cases ps with
      | nil => simp [bindArgs]
      | cons p ps =>
        simp only [bindArgs, andThen]
        have h1 := ih.1 p (vs.headD .null) s
        split
        · exact ih.2 _ _ _ e
        · next r hr =>
          intro heq
          simp only at heq
          exact h1 e heq

/-- the fuel `g.length + 1` used by `checkG` is canonical: any larger fuel gives the same answer -/
theorem walkG_canonical_fuel (g : Graph) (h : TyName) (n : Nat) :
    ∀ k, walkG g h (g.length + 1 + k) [] n = walkG g h (g.length + 1) [] n := by
  intro k
  induction k with
  | zero => rfl
  | succ k ih =>
    obtain ⟨r, hr⟩ := walkG_total g h (g.length + 1) [] n (by rw [unvisited_nil]; exact Nat.lt_succ_self _)
    rw [hr] at ih ⊢
    exact walkG_fuel_mono g h _ _ _ _ ih

/-- graphs: a map without `@type` takes the name of its `@base` map's own `@type` -/
theorem typeNameG_inherits_one (g : Graph) (n b : Nat) (s : TyName) (bb : Option Nat) (hnb : b ≠ n)
    (hn : g[n]? = some ⟨.absent, some b⟩) (hb : g[b]? = some ⟨.str s, bb⟩) : typeNameG g n = s := by
  have hl := lt_of_getElem?_some g n _ hn
  obtain ⟨m, hm⟩ : ∃ m, g.length = m + 1 := ⟨g.length - 1, by omega⟩
  simp [typeNameG, hm, metaTypeG, hn, hb, hnb]

example : ([⟨.absent, some 1⟩, ⟨.str [70], some 0⟩] : Graph)[0]? = some ⟨.absent, some 1⟩ ∧
    ([⟨.absent, some 1⟩, ⟨.str [70], some 0⟩] : Graph)[1]? = some ⟨.str [70], some 0⟩ := ⟨rfl, rfl⟩

/-- graphs: a map without `@type` whose `@base` is itself is an `Object` (the visited list cuts the
cycle; F-C16-1 used to loop here) — in every graph -/
theorem typeNameG_self_cycle (g : Graph) (n : Nat) (hn : g[n]? = some ⟨.absent, some n⟩) :
    typeNameG g n = objectName := by
  simp [typeNameG, metaTypeG, hn]

/-- graphs: an ordinary hint naming the type of the direct `@base` map passes, cyclic or not -/
theorem checkG_inherits_one (g : Graph) (h : TyName) (o : Bool) (n b : Nat)
    (hs : specialLookup h specialTable = none) (hb : gBase g n = some b) (ht : typeNameG g b = h) :
    checkG g h o n = true := by
  simp [checkG, hs, walkG, hb, ht]

example : gBase [⟨.absent, some 0⟩] 0 = some 0 ∧
    specialLookup (typeNameG [⟨.absent, some 0⟩] 0) specialTable = none := by decide

end KotoVerif.C16Ext
