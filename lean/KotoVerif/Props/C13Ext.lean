/-
C13 (extension) — the list-level "mathematical definitions" used by `den` / `specCase` (the third
field of every driver response, compared with the implementation on every case) are characterised
independently: by element position, by length, and by algebraic laws; plus laws of `to_map`'s
`mapInsert` and of the string ordering `bytesLt` behind `min` / `max`.
-/
import KotoVerif.Props.C13

namespace KotoVerif.C13Ext
open KotoVerif KotoVerif.Iter

/-! ## enumerate -/

/-- `enumFrom` keeps the length -/
theorem enumFrom_length (xs : List Val) : ∀ (i : Nat), (enumFrom i xs).length = xs.length := by
  induction xs with
  | nil => intro i; simp [enumFrom]
  | cons x xs ih => intro i; simp [enumFrom, ih]

/-- position `j` of `enumerate` is the pair `(start + j, xs[j])` -/
theorem enumFrom_getElem? (xs : List Val) : ∀ (i j : Nat),
    (enumFrom i xs)[j]? = (xs[j]?).map (fun x => Val.tuple [Val.int ((i + j : Nat) : Int), x]) := by
  induction xs with
  | nil => intro i j; simp [enumFrom]
  | cons x xs ih =>
    intro i j
    cases j with
    | zero => simp [enumFrom]
    | succ j =>
      simp only [enumFrom, List.getElem?_cons_succ, ih]
      have : i + 1 + j = i + (j + 1) := by omega
      rw [this]

/-! ## zip -/

/-- `zip` stops with the shorter side -/
theorem zipL_length (xs : List Val) : ∀ (ys : List Val), (zipL xs ys).length = min xs.length ys.length := by
  induction xs with
  | nil => intro ys; simp [zipL]
  | cons x xs ih =>
    intro ys
    cases ys with
    | nil => simp [zipL]
    | cons y ys => simp [zipL, ih]

/-- position `j` of `zip` pairs the two `j`-th elements -/
theorem zipL_getElem? (xs : List Val) : ∀ (ys : List Val) (j : Nat),
    (zipL xs ys)[j]? = (xs[j]?).bind (fun x => (ys[j]?).map (fun y => Val.tuple [x, y])) := by
  induction xs with
  | nil => intro ys j; simp [zipL]
  | cons x xs ih =>
    intro ys j
    cases ys with
    | nil => simp [zipL]
    | cons y ys =>
      cases j with
      | zero => simp [zipL]
      | succ j => simp [zipL, ih]

/-! ## take_while -/

/-- the hand-written `takeWhileL` is the library `List.takeWhile` -/
theorem takeWhileL_eq (p : Val → Bool) (xs : List Val) : takeWhileL p xs = xs.takeWhile p := by
  induction xs with
  | nil => simp [takeWhileL]
  | cons x xs ih => simp [takeWhileL, List.takeWhile_cons, ih]

/-- `take_while` is idempotent -/
theorem takeWhileL_idem (p : Val → Bool) (xs : List Val) :
    takeWhileL p (takeWhileL p xs) = takeWhileL p xs := by
  induction xs with
  | nil => simp [takeWhileL]
  | cons x xs ih =>
    by_cases h : p x = true
    · simp [takeWhileL, h, ih]
    · simp [takeWhileL, h]

/-! ## intersperse -/

/-- `intersperse` puts exactly one separator between neighbours: `2·len - 1` elements -/
theorem intersperseL_length (sep : Val) (xs : List Val) :
    (intersperseL sep xs).length = 2 * xs.length - 1 := by
  fun_induction intersperseL sep xs with
  | case1 => simp
  | case2 x => simp
  | case3 x y rest ih => simp [ih]; omega

/-- even positions of `intersperse` are the source elements, odd positions the separator -/
theorem intersperseL_getElem? (sep : Val) (xs : List Val) : ∀ (j : Nat),
    (intersperseL sep xs)[2 * j]? = xs[j]? ∧
    (j + 1 < xs.length → (intersperseL sep xs)[2 * j + 1]? = some sep) := by
  fun_induction intersperseL sep xs with
  | case1 => intro j; simp
  | case2 x => intro j; cases j <;> simp
  | case3 x y rest ih =>
    intro j
    cases j with
    | zero => simp
    | succ j =>
      have h1 : 2 * (j + 1) = (2 * j) + 1 + 1 := by omega
      rw [h1]
      simp only [List.getElem?_cons_succ]
      refine ⟨(ih j).1, fun h => (ih j).2 ?_⟩
      simp at h ⊢; omega

/-! ## windows -/

/-- the number of windows of length `n ≥ 1` is `len + 1 - n` -/
theorem windowsOf_length (n : Nat) (hn : n ≥ 1) (xs : List Val) :
    (windowsOf n xs).length = xs.length + 1 - n := by
  induction xs with
  | nil => simp [windowsOf]; omega
  | cons x xs ih =>
    simp only [windowsOf]
    split
    · rename_i h; simp [ih] at h ⊢; omega
    · rename_i h; simp at h ⊢; omega

/-- the `j`-th window is the `n` elements starting at position `j` -/
theorem windowsOf_getElem? (n : Nat) (hn : n ≥ 1) (xs : List Val) : ∀ (j : Nat), j + n ≤ xs.length →
    (windowsOf n xs)[j]? = some (Val.tuple ((xs.drop j).take n)) := by
  induction xs with
  | nil => intro j h; simp at h; omega
  | cons x xs ih =>
    intro j h
    simp only [windowsOf]
    have hl : (x :: xs).length ≥ n := by omega
    rw [if_pos hl]
    cases j with
    | zero => simp
    | succ j =>
      simp only [List.getElem?_cons_succ, List.drop_succ_cons]
      apply ih
      simp at h; omega

/-! ## cycle -/

/-- `cycleTake` over a non-empty sequence has exactly the requested length -/
theorem cycleTake_length (xs : List Val) (hne : xs ≠ []) (n : Nat) : (cycleTake xs n).length = n := by
  induction n with
  | zero => simp [cycleTake]
  | succ n ih =>
    have hpos : 0 < xs.length := List.length_pos_iff.mpr hne
    have hlt : n % xs.length < xs.length := Nat.mod_lt _ hpos
    have he : xs.isEmpty = false := by cases xs <;> simp_all
    simp [cycleTake, he, ih, List.getElem?_eq_getElem hlt]

/-- position `j` of the endless repetition is `xs[j mod len]` -/
theorem cycleTake_getElem? (xs : List Val) (hne : xs ≠ []) (n : Nat) : ∀ (j : Nat), j < n →
    (cycleTake xs n)[j]? = xs[j % xs.length]? := by
  induction n with
  | zero => intro j h; omega
  | succ n ih =>
    intro j hj
    have he : xs.isEmpty = false := by cases xs <;> simp_all
    have hlen := cycleTake_length xs hne n
    simp only [cycleTake, he, Bool.false_eq_true, if_false]
    by_cases hjn : j < n
    · rw [List.getElem?_append_left (by omega)]; exact ih j hjn
    · have : j = n := by omega
      subst this
      have hpos : 0 < xs.length := List.length_pos_iff.mpr hne
      have hlt : j % xs.length < xs.length := Nat.mod_lt _ hpos
      rw [List.getElem?_append_right (by omega)]
      simp [hlen, List.getElem?_eq_getElem hlt]

example : cycleTake [Val.int 1, Val.int 2] 5 = [Val.int 1, Val.int 2, Val.int 1, Val.int 2, Val.int 1] := by
  rfl

example : ∃ (n : Nat) (xs : List Val) (j : Nat), n ≥ 1 ∧ j + n ≤ xs.length ∧ j ≥ 1 :=
  ⟨2, [Val.int 1, Val.int 2, Val.int 3], 1, by decide, by decide, by decide⟩

/-! ## step -/

/-- position `i` of `everyNthAux n k` is source position `k + i·n` -/
theorem everyNthAux_getElem? (n : Nat) (hn : n ≥ 1) (xs : List Val) : ∀ (k i : Nat),
    (everyNthAux n k xs)[i]? = xs[k + i * n]? := by
  induction xs with
  | nil => intro k i; simp [everyNthAux]
  | cons x xs ih =>
    intro k i
    cases k with
    | zero =>
      cases i with
      | zero => simp [everyNthAux]
      | succ i =>
        simp only [everyNthAux, List.getElem?_cons_succ, ih]
        have : 0 + (i + 1) * n = (n - 1 + i * n) + 1 := by rw [Nat.succ_mul]; omega
        rw [this, List.getElem?_cons_succ]
    | succ k =>
      simp only [everyNthAux, ih]
      have : k + 1 + i * n = (k + i * n) + 1 := by omega
      rw [this, List.getElem?_cons_succ]

/-- **step by position.** `step n` (n ≥ 1) yields the source elements at positions `0, n, 2n, …` -/
theorem everyNth_getElem? (n : Nat) (hn : n ≥ 1) (xs : List Val) (i : Nat) :
    (everyNth n xs)[i]? = xs[i * n]? := by
  simp [everyNth, everyNthAux_getElem? n hn xs 0 i]

/-- `step 1` is the identity -/
theorem everyNth_one (xs : List Val) : everyNth 1 xs = xs := by
  apply List.ext_getElem?
  intro i
  simp [everyNth_getElem? 1 (by omega) xs i]

example : everyNth 2 [Val.int 0, Val.int 1, Val.int 2, Val.int 3, Val.int 4] = [Val.int 0, Val.int 2, Val.int 4] := by
  rfl

/-! ## chunks -/

/-- the elements of a chunk value -/
def untuple : Val → List Val
  | .tuple xs => xs
  | _ => []

/-- **chunks round trip.** Concatenating the chunks gives back the source sequence (nothing lost,
duplicated or reordered), for every chunk size `n ≥ 1` and enough loop budget -/
theorem chunksOf_flatten (n : Nat) (hn : n ≥ 1) : ∀ (fuel : Nat) (xs : List Val), xs.length ≤ fuel →
    (chunksOf n fuel xs).flatMap untuple = xs := by
  intro fuel
  induction fuel with
  | zero => intro xs h; cases xs <;> simp_all [chunksOf]
  | succ fuel ih =>
    intro xs h
    cases xs with
    | nil => simp [chunksOf]
    | cons x xs =>
      simp only [chunksOf, List.flatMap_cons, untuple]
      rw [ih _ (by simp at h ⊢; omega)]
      exact List.take_append_drop n (x :: xs)

/-- every chunk is non-empty and has at most `n` elements -/
theorem chunksOf_sizes (n : Nat) (hn : n ≥ 1) : ∀ (fuel : Nat) (xs : List Val) (c : Val),
    c ∈ chunksOf n fuel xs → 1 ≤ (untuple c).length ∧ (untuple c).length ≤ n := by
  intro fuel
  induction fuel with
  | zero => intro xs c h; simp [chunksOf] at h
  | succ fuel ih =>
    intro xs c h
    cases xs with
    | nil => simp [chunksOf] at h
    | cons x xs =>
      simp only [chunksOf, List.mem_cons] at h
      rcases h with h | h
      · subst h; simp [untuple]; omega
      · exact ih _ c h

example : chunksOf 2 3 [Val.int 1, Val.int 2, Val.int 3] =
    [Val.tuple [Val.int 1, Val.int 2], Val.tuple [Val.int 3]] := by rfl

/-! ## to_map: `mapInsert` (IndexMap insert) -/

/-- the value stored under a key (first entry whose key is `same`) -/
def lookup (k : Val) (m : List (Val × Val)) : Option Val :=
  (m.find? (fun e => Val.same e.1 k)).map Prod.snd

/-- an insert never reorders or drops keys: the key column is unchanged when the key is present,
and gets the new key appended at the end otherwise -/
theorem mapInsert_keys (k v : Val) (m : List (Val × Val)) :
    (mapInsert k v m).map Prod.fst =
      if m.any (fun e => Val.same e.1 k) then m.map Prod.fst else m.map Prod.fst ++ [k] := by
  induction m with
  | nil => simp [mapInsert]
  | cons e m ih =>
    obtain ⟨k', v'⟩ := e
    by_cases h : Val.same k' k = true
    · simp [mapInsert, h]
    · simp only [mapInsert, h, Bool.false_eq_true, if_false, List.map_cons, ih, List.any_cons, Bool.false_or]
      split <;> simp

/-- after inserting `(k, v)` the map answers `v` for `k` -/
theorem mapInsert_lookup_same (k v : Val) (hk : Val.same k k = true) (m : List (Val × Val)) :
    lookup k (mapInsert k v m) = some v := by
  induction m with
  | nil => simp [mapInsert, lookup, hk]
  | cons e m ih =>
    obtain ⟨k', v'⟩ := e
    by_cases h : Val.same k' k = true
    · simp [mapInsert, lookup, h]
    · simp only [lookup] at ih
      simp [mapInsert, lookup, h, ih]

/-- last write wins, position of first write is kept -/
theorem mapInsert_overwrite (k v1 v2 : Val) (hk : Val.same k k = true) (m : List (Val × Val)) :
    mapInsert k v2 (mapInsert k v1 m) = mapInsert k v2 m := by
  induction m with
  | nil => simp [mapInsert, hk]
  | cons e m ih =>
    obtain ⟨k', v'⟩ := e
    by_cases h : Val.same k' k = true
    · simp [mapInsert, h]
    · simp [mapInsert, h, ih]

example : Val.same (Val.str [97]) (Val.str [97]) = true := by rfl

/-! ## string ordering behind `min` / `max` -/

/-- `bytesLt` is irreflexive -/
theorem bytesLt_irrefl (a : List Nat) : bytesLt a a = false := by
  induction a with
  | nil => simp [bytesLt]
  | cons x xs ih => simp [bytesLt, ih]

/-- `bytesLt` is asymmetric -/
theorem bytesLt_asymm (a : List Nat) : ∀ (b : List Nat), bytesLt a b = true → bytesLt b a = false := by
  induction a with
  | nil => intro b _; cases b <;> simp [bytesLt]
  | cons x xs ih =>
    intro b h
    cases b with
    | nil => simp [bytesLt] at h
    | cons y ys =>
      simp only [bytesLt, Bool.or_eq_true, Bool.and_eq_true, decide_eq_true_eq, beq_iff_eq] at h
      rcases h with h | ⟨h1, h2⟩
      · simp [bytesLt]; constructor <;> omega
      · subst h1; simp [bytesLt, ih ys h2]

/-- `bytesLt` is transitive -/
theorem bytesLt_trans (a : List Nat) : ∀ (b c : List Nat),
    bytesLt a b = true → bytesLt b c = true → bytesLt a c = true := by
  induction a with
  | nil => intro b c h1 h2; cases b <;> cases c <;> simp_all [bytesLt]
  | cons x xs ih =>
    intro b c h1 h2
    cases b with
    | nil => simp [bytesLt] at h1
    | cons y ys =>
      cases c with
      | nil => simp [bytesLt] at h2
      | cons z zs =>
        simp only [bytesLt, Bool.or_eq_true, Bool.and_eq_true, decide_eq_true_eq, beq_iff_eq] at h1 h2 ⊢
        rcases h1 with h1 | ⟨e1, t1⟩ <;> rcases h2 with h2 | ⟨e2, t2⟩
        · left; omega
        · left; omega
        · left; omega
        · right; exact ⟨by omega, ih ys zs t1 t2⟩

/-- `bytesLt` is total on distinct strings (trichotomy) -/
theorem bytesLt_total (a : List Nat) : ∀ (b : List Nat), bytesLt a b = true ∨ a = b ∨ bytesLt b a = true := by
  induction a with
  | nil => intro b; cases b <;> simp [bytesLt]
  | cons x xs ih =>
    intro b
    cases b with
    | nil => simp [bytesLt]
    | cons y ys =>
      simp only [bytesLt, Bool.or_eq_true, Bool.and_eq_true, decide_eq_true_eq, beq_iff_eq, List.cons.injEq]
      rcases Nat.lt_trichotomy x y with h | h | h
      · left; left; exact h
      · subst h
        rcases ih ys with h | h | h
        · left; right; exact ⟨rfl, h⟩
        · right; left; exact ⟨rfl, h⟩
        · right; right; right; exact ⟨rfl, h⟩
      · right; right; left; exact h

example : bytesLt [97] [97, 98] = true ∧ bytesLt [97, 98] [98] = true := by decide

/-! ## pipeline equivalences at the level of the denotation -/

/-- reversing twice denotes the original sequence -/
theorem den_reversed_reversed (p : Pipe) : den (.reversed (.reversed p)) = den p := by
  cases h : den p <;> simp [den, h]

/-- two skips add up -/
theorem den_skip_skip (a b : Nat) (p : Pipe) : den (.skip a (.skip b p)) = den (.skip (b + a) p) := by
  cases h : den p <;> simp [den, h, List.drop_drop]

/-- chain is associative -/
theorem den_chain_assoc (p q r : Pipe) :
    den (.chain (.chain p q) r) = den (.chain p (.chain q r)) := by
  cases hp : den p <;> cases hq : den q <;> cases hr : den r <;> simp [den, hp, hq, hr]

/-- reversing a chain = chaining the reversed parts in the opposite order -/
theorem den_reversed_chain (p q : Pipe) :
    den (.reversed (.chain p q)) = den (.chain (.reversed q) (.reversed p)) := by
  cases hp : den p <;> cases hq : den q <;> simp [den, hp, hq]

/-- `each` commutes with `reversed` -/
theorem den_reversed_each (f : Fn) (p : Pipe) :
    den (.reversed (.each f p)) = den (.each f (.reversed p)) := by
  cases hp : den p <;> simp [den, hp, List.map_reverse]

/-- the denotation of `take n` never has more than `n` elements — also over the endless `cycle` -/
theorem den_take_length (n : Nat) (p : Pipe) (xs : List Val) (h : den (.take n p) = some xs) :
    xs.length ≤ n := by
  have key : ∀ (ys : List Val), (cycleTake ys n).length ≤ n := by
    intro ys
    by_cases hne : ys = []
    · subst hne; cases n <;> simp [cycleTake]
    · rw [cycleTake_length ys hne n]; exact Nat.le_refl _
  cases p with
  | cycle q =>
    cases hq : den q with
    | none => simp [den, hq] at h
    | some ys => simp [den, hq] at h; subst h; exact key ys
  | src s =>
    cases s with
    | repInf v => simp [den] at h; subst h; simp
    | _ =>
      simp only [den, Option.map_eq_some_iff] at h
      obtain ⟨ys, _, rfl⟩ := h
      simp only [List.length_take]; omega
  | _ =>
    simp only [den, Option.map_eq_some_iff] at h
    obtain ⟨ys, _, rfl⟩ := h
    simp only [List.length_take]; omega

example : den (.take 3 (.cycle (.src (.seq [Val.int 1, Val.int 2])))) =
    some [Val.int 1, Val.int 2, Val.int 1] := by rfl

/-! ## the same laws for the state machines themselves (via `iter_refines` / `double_ended_spec`) -/

/-- **observational equivalence.** Two well-formed finite pipelines with the same denotation are
indistinguishable by any number of `next` calls on the built state machines -/
theorem same_den_same_outs (fuel : Nat) (p q : Pipe) (xs : List Val)
    (hp : p.regular = true) (hq : q.regular = true) (ep : p.err = none) (eq : q.err = none)
    (dp : den p = some xs) (dq : den q = some xs) (fp : p.fits fuel) (fq : q.fits fuel) (n : Nat) :
    outs (build fuel p).c n (build fuel p).s = outs (build fuel q).c n (build fuel q).s := by
  rw [C13.iter_refines fuel p xs hp ep dp fp n, C13.iter_refines fuel q xs hq eq dq fq n]

/-- two bidirectional pipelines with the same denotation are indistinguishable by any interleaving of
`next` / `next_back` calls -/
theorem same_den_same_outsD (fuel : Nat) (p q : Pipe) (xs : List Val)
    (hp : p.regular = true) (hq : q.regular = true) (ep : p.err = none) (eq : q.err = none)
    (dp : den p = some xs) (dq : den q = some xs) (fp : p.fits fuel) (fq : q.fits fuel)
    (bp : p.bidir = true) (bq : q.bidir = true) (ds : List Bool) :
    outsD (build fuel p).c ds (build fuel p).s = outsD (build fuel q).c ds (build fuel q).s := by
  rw [C13.double_ended_spec fuel p xs hp ep dp fp bp ds, C13.double_ended_spec fuel q xs hq eq dq fq bq ds]

/-- **Skip ∘ Skip.** Two stacked `Skip` machines (two private counters) behave as one with the sum —
under every interleaving of `next` / `next_back` when the input is bidirectional -/
theorem skip_skip_machine (fuel a b : Nat) (p : Pipe) (xs : List Val)
    (hp : p.regular = true) (ep : p.err = none) (dp : den p = some xs) (fp : p.fits fuel)
    (bp : p.bidir = true) (ds : List Bool) :
    outsD (build fuel (.skip a (.skip b p))).c ds (build fuel (.skip a (.skip b p))).s
      = outsD (build fuel (.skip (b + a) p)).c ds (build fuel (.skip (b + a) p)).s := by
  apply same_den_same_outsD fuel _ _ (xs.drop (b + a))
  · simpa [Pipe.regular] using hp
  · simpa [Pipe.regular] using hp
  · simpa [Pipe.err] using ep
  · simpa [Pipe.err] using ep
  · simp [den, dp, List.drop_drop]
  · simp [den, dp]
  · simpa [Pipe.fits] using fp
  · simpa [Pipe.fits] using fp
  · simpa [Pipe.bidir] using bp
  · simpa [Pipe.bidir] using bp

example : ∃ (p : Pipe) (xs : List Val), p.regular = true ∧ p.err = none ∧ den p = some xs ∧ p.fits 8 ∧
    p.bidir = true ∧ xs.length = 3 :=
  ⟨.each .wrap (.src (.seq [Val.int 1, Val.int 2, Val.int 3])), _, rfl, rfl, rfl, by simp [Pipe.fits], rfl, rfl⟩

/-- **Reversed ∘ Reversed = id** on the state machines, under every interleaving of `next` /
`next_back` -/
theorem reversed_reversed_machine (fuel : Nat) (p : Pipe) (xs : List Val)
    (hp : p.regular = true) (ep : p.err = none) (dp : den p = some xs) (fp : p.fits fuel)
    (bp : p.bidir = true) (ds : List Bool) :
    outsD (build fuel (.reversed (.reversed p))).c ds (build fuel (.reversed (.reversed p))).s
      = outsD (build fuel p).c ds (build fuel p).s := by
  apply same_den_same_outsD fuel _ _ xs
  · simpa [Pipe.regular] using hp
  · exact hp
  · simp [Pipe.err, ep, bp, Pipe.bidir]
  · exact ep
  · simp [den, dp]
  · exact dp
  · simpa [Pipe.fits] using fp
  · exact fp
  · simp [Pipe.bidir]
  · exact bp

/-- **Reversed distributes over Each**: mapping then reversing = reversing then mapping, on the machines -/
theorem reversed_each_machine (fuel : Nat) (f : Fn) (p : Pipe) (xs : List Val)
    (hp : p.regular = true) (ep : p.err = none) (dp : den p = some xs) (fp : p.fits fuel)
    (bp : p.bidir = true) (ds : List Bool) :
    outsD (build fuel (.reversed (.each f p))).c ds (build fuel (.reversed (.each f p))).s
      = outsD (build fuel (.each f (.reversed p))).c ds (build fuel (.each f (.reversed p))).s := by
  apply same_den_same_outsD fuel _ _ ((xs.map f.app).reverse)
  · simpa [Pipe.regular] using hp
  · simpa [Pipe.regular] using hp
  · simp [Pipe.err, ep, bp, Pipe.bidir]
  · simp [Pipe.err, ep, bp]
  · simp [den, dp]
  · simp [den, dp, List.map_reverse]
  · simpa [Pipe.fits] using fp
  · simpa [Pipe.fits] using fp
  · simp [Pipe.bidir]
  · simp [Pipe.bidir]

/-- **Chain is associative** on the machines (nesting of the `Option` of the exhausted first part) -/
theorem chain_assoc_machine (fuel : Nat) (p q r : Pipe) (xs ys zs : List Val)
    (hp : p.regular = true) (hq : q.regular = true) (hr : r.regular = true)
    (ep : p.err = none) (eq : q.err = none) (er : r.err = none)
    (dp : den p = some xs) (dq : den q = some ys) (dr : den r = some zs)
    (fp : p.fits fuel) (fq : q.fits fuel) (fr : r.fits fuel) (n : Nat) :
    outs (build fuel (.chain (.chain p q) r)).c n (build fuel (.chain (.chain p q) r)).s
      = outs (build fuel (.chain p (.chain q r))).c n (build fuel (.chain p (.chain q r))).s := by
  apply same_den_same_outs fuel _ _ (xs ++ ys ++ zs)
  · simp [Pipe.regular, hp, hq, hr]
  · simp [Pipe.regular, hp, hq, hr]
  · simp [Pipe.err, ep, eq, er]
  · simp [Pipe.err, ep, eq, er]
  · simp [den, dp, dq, dr]
  · simp [den, dp, dq, dr]
  · simp [Pipe.fits, fp, fq, fr]
  · simp [Pipe.fits, fp, fq, fr]

/-! ## consumers: min/max selection, sum as a splittable fold, call-sequence spec -/

/-- `min` and `max` of two values perform the same single comparison (same events) and select
complementary operands: together they always return both -/
theorem pickMin_pickMax_complement (a b x y : Val)
    (hmin : (pickMin a b).2 = .ok x) (hmax : (pickMax a b).2 = .ok y) :
    (pickMin a b).1 = (pickMax a b).1 ∧ ((x = a ∧ y = b) ∨ (x = b ∧ y = a)) := by
  unfold pickMin pickMax at *
  rcases h : ltOp a b with ⟨e, r⟩
  cases r with
  | error err => simp [h] at hmin
  | ok lt =>
    simp only [h] at hmin hmax ⊢
    cases lt <;> simp_all

example : (pickMin (Val.str [97]) (Val.str [98])).2 = .ok (Val.str [97]) ∧
    (pickMax (Val.str [97]) (Val.str [98])).2 = .ok (Val.str [98]) := ⟨rfl, rfl⟩

/-- **sum splits.** Summing a concatenation = summing the first part, then continuing from that
accumulator with the second part (errors of the first part win) -/
theorem sumFrom_append (xs : List Val) : ∀ (init : Val) (ys : List Val),
    sumFrom init (xs ++ ys) =
      (match sumFrom init xs with
       | .ok a => sumFrom a ys
       | .error e => .error e) := by
  induction xs with
  | nil => intro init ys; simp [sumFrom]
  | cons x xs ih =>
    intro init ys
    simp only [List.cons_append, sumFrom]
    cases h : (addOp init x).2 with
    | error e => simp
    | ok a => simp [ih]

/-- `n` forward calls on the ideal sequence: its first `n` elements, then the end marker -/
theorem specCalls_all_next (b : Bool) (n : Nat) : ∀ (xs : List Val),
    specCalls b (List.replicate n true) xs = xs.take n ++ List.replicate (n - xs.length) endMarker := by
  induction n with
  | zero => intro xs; simp [specCalls]
  | succ n ih =>
    intro xs
    cases xs with
    | nil => simp [List.replicate_succ, specCalls, ih]
    | cons x xs => simp [List.replicate_succ, specCalls, ih]

/-- a forward-only iterator answers every `next_back` with the end marker and the `next` calls see
the sequence as if the `next_back` calls had not happened -/
theorem specCalls_forward_only (ds : List Bool) : ∀ (xs : List Val),
    (specCalls false ds xs).length = ds.length ∧
    (specCalls false (ds.filter id) xs) =
      ((ds.zip (specCalls false ds xs)).filter (fun e => e.1)).map Prod.snd := by
  induction ds with
  | nil => intro xs; simp [specCalls]
  | cons d ds ih =>
    intro xs
    cases d with
    | true =>
      cases xs with
      | nil => simp [specCalls, ih]
      | cons x xs => simp [specCalls, ih]
    | false => simp [specCalls, ih]

/-- `n` backward calls on an ideal double-ended sequence: the sequence backwards, then the end marker -/
theorem specCalls_all_back (n : Nat) : ∀ (xs : List Val),
    specCalls true (List.replicate n false) xs =
      xs.reverse.take n ++ List.replicate (n - xs.length) endMarker := by
  induction n with
  | zero => intro xs; simp [specCalls]
  | succ n ih =>
    intro xs
    rcases List.eq_nil_or_concat xs with h | ⟨ini, l, h⟩
    · subst h; simp [List.replicate_succ, specCalls, ih]
    · subst h
      simp [List.replicate_succ, specCalls, ih]

end KotoVerif.C13Ext
