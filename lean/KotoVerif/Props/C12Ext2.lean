/-
C12 — second extension module: end-to-end statements that connect the models of C12
(`Model/SrcMap.lean` compile → pushAll → lookup, `Model/Trace.lean` predict, `Model/Excerpt.lean`
excerpt / render) and state clauses of the property text directly.
-/
import KotoVerif.Model.SrcMap
import KotoVerif.Model.Excerpt
import KotoVerif.Model.Trace
import KotoVerif.Lemmas.C12
import KotoVerif.Props.C12
import KotoVerif.Props.C12Ext

namespace KotoVerif.C12Ext2
open KotoVerif.SrcMap KotoVerif.Excerpt KotoVerif.Trace
open KotoVerif.C12L (spA spB spR exPushes exTree exCalls)

/-! ## 1. the excerpt succeeds exactly under the guard; `render` (the text the driver compares) -/

/-- The first quoted row is the line the header names: the position reported is on a quoted line. -/
theorem excerpt_first_quoted (n : Nat) (sp : Span) (o : Out) (h : excerpt n sp = .ok o)
    (hg : sp.start.line < n) :
    o.quoted.head? = some (sp.start.line + 1, sp.start.line) ∧
      o.header = (sp.start.line + 1, sp.start.col + 1) := by
  obtain ⟨⟨sl, sc⟩, ⟨el, ec⟩⟩ := sp
  unfold excerpt at h
  simp only at h hg
  split at h
  · cases h
  · split at h
    · split at h
      · cases h
      · split at h
        · cases h
        · injection h with h
          subst h
          simp
    · injection h with h
      subst h
      have hne : min (el - sl + 1) (n - sl) ≠ 0 := by omega
      simp [List.head?_range, hne]

example : excerpt 12 ⟨⟨8, 2⟩, ⟨10, 0⟩⟩ = .ok ⟨(9, 3), 2, [(9, 8), (10, 9), (11, 10)], none⟩ ∧
    8 < 12 := by decide

/-- The guard is exactly "returns and quotes at least one line" (a multi-line span that starts past
the last line returns with nothing quoted: outside the guard, but no panic). -/
theorem excerpt_ok_nonempty_iff_guard (n : Nat) (sp : Span) :
    (∃ o, excerpt n sp = .ok o ∧ o.quoted ≠ []) ↔ Guard n sp := by
  constructor
  · rintro ⟨o, ho, hq⟩
    have hp : ¬ ∃ p, excerpt n sp = .panic p := by
      rintro ⟨p, hp⟩
      rw [ho] at hp
      cases hp
    rw [C12.excerpt_panic_iff] at hp
    obtain ⟨p, hpm⟩ := List.exists_mem_of_ne_nil _ hq
    obtain ⟨h1, h2, _, _⟩ := C12Ext.excerpt_quoted_inside n sp o ho p hpm
    unfold Guard
    omega
  · intro hg
    obtain ⟨o, ho⟩ := C12.excerpt_total n sp hg
    refine ⟨o, ho, ?_⟩
    have := (excerpt_first_quoted n sp o ho hg.1).1
    intro hnil
    rw [hnil] at this
    cases this

example : Guard 3 ⟨⟨1, 2⟩, ⟨1, 5⟩⟩ ∧ ¬ Guard 1 ⟨⟨1, 0⟩, ⟨2, 0⟩⟩ ∧
    excerpt 1 ⟨⟨1, 0⟩, ⟨2, 0⟩⟩ = .ok ⟨(2, 1), 1, [], none⟩ := by decide

/-- The rendered text (what the driver compares with the real output) is missing exactly in the
panic region. -/
theorem render_none_iff (lines : List String) (sp : Span) :
    render lines sp = none ↔
      (sp.stop.line < sp.start.line ∨
        (sp.start.line = sp.stop.line ∧
          (lines.length ≤ sp.start.line ∨ sp.stop.col < sp.start.col))) := by
  rw [← C12.excerpt_panic_iff]
  unfold render
  cases h : excerpt lines.length sp with
  | panic p => simp
  | ok o => simp

/-- Text after the span's last line is irrelevant: appending lines does not change the excerpt. -/
theorem excerpt_indep_later_lines (n n' : Nat) (sp : Span) (he : sp.stop.line < n) (hn : n ≤ n') :
    excerpt n' sp = excerpt n sp := by
  obtain ⟨⟨sl, sc⟩, ⟨el, ec⟩⟩ := sp
  simp only at he
  unfold excerpt
  simp only
  by_cases h1 : el < sl
  · simp [h1]
  · have hm : min (el - sl + 1) (n' - sl) = min (el - sl + 1) (n - sl) := by omega
    have c1 : ¬ n ≤ sl := by omega
    have c2 : ¬ n' ≤ sl := by omega
    simp [h1, hm, c1, c2]

example : excerpt 40 ⟨⟨8, 2⟩, ⟨10, 0⟩⟩ = excerpt 11 ⟨⟨8, 2⟩, ⟨10, 0⟩⟩ := by decide

/-! ## 2. compile → source map → lookup → excerpt -/

/-- End to end for one chunk: an instruction emitted with `push_op` inside a node whose span
satisfies the guard is rendered without panic, the header and the first quoted line are the start
line of that innermost node, and the `debug` prefix names the same line. -/
theorem instr_excerpt_end_to_end (root : Span) (t : Steps) (h : t.sizesPos = true) (n : Nat)
    (e : Entry) (he : e ∈ (annot t root 0).1) (hg : Guard n e.2) :
    ∃ o, (lookup (debugInfoOf root t) e.1).map (excerpt n) = some (.ok o) ∧
      o.header = (e.2.start.line + 1, e.2.start.col + 1) ∧
      o.quoted.head? = some (e.2.start.line + 1, e.2.start.line) ∧
      debugPrefixLine (debugInfoOf root t) e.1 = some o.header.1 := by
  obtain ⟨o, ho⟩ := C12.excerpt_total n e.2 hg
  obtain ⟨h1, h2⟩ := excerpt_first_quoted n e.2 o ho hg.1
  refine ⟨o, ?_, h2, h1, ?_⟩
  · rw [C12.instr_span root t h e he]
    simp [ho]
  · rw [C12Ext.debugPrefixLine_instr root t h e he, h2]

example : exTree.sizesPos = true ∧ (5, spB) ∈ (annot exTree spR 0).1 ∧ Guard 7 spB := by decide

/-- If every node span of a chunk satisfies the guard, then the span found for ANY ip (instruction
starts, operand bytes, instructions without span) renders without panic. -/
theorem lookup_render_never_panics (root : Span) (t : Steps) (n : Nat)
    (hall : ∀ e ∈ (annot t root 0).1, Guard n e.2) (q : Nat) (sp : Span)
    (h : lookup (debugInfoOf root t) q = some sp) : ∃ o, excerpt n sp = .ok o := by
  obtain ⟨i, hi, _⟩ := C12Ext.lookup_debugInfoOf_scoped root t q sp h
  exact C12.excerpt_total n sp (hall (i, sp) hi)

example : (∀ e ∈ (annot exTree spR 0).1, Guard 7 e.2) ∧
    lookup (debugInfoOf spR exTree) 6 = some spB := by decide

/-! ## 3. trace → spans: the clause "first the line of the expression that failed and then the line
of each enclosing call site, innermost first" -/

/-- Chunks `c` compiled from trees `T c` (root span `root c`); the fault and every call instruction
are spanned instructions of their chunks. Then the uncaught error's trace, mapped through each
chunk's finished debug info, is the fault's innermost-node span followed by the innermost-node span
of each call site, innermost call first — for call chains of any depth. -/
theorem trace_spans_end_to_end (root : Nat → Span) (T : Nat → Steps)
    (hT : ∀ c, (T c).sizesPos = true) (calls : List Call) (fault : Nat)
    (hno : ∀ c ∈ calls, c.inTry = false) (spF : Span)
    (hF : (fault, spF) ∈ (annot (T (lastChunk 0 calls)) (root (lastChunk 0 calls)) 0).1)
    (site : IFrame → Span)
    (hS : ∀ f ∈ callSites 0 calls, (f.ip, site f) ∈ (annot (T f.chunk) (root f.chunk) 0).1) :
    ∃ tr, predict calls fault false = .uncaught tr ∧
      tr.map (fun f => lookup (debugInfoOf (root f.chunk) (T f.chunk)) f.ip)
        = some spF :: (callSites 0 calls).reverse.map (fun f => some (site f)) := by
  refine ⟨_, C12.trace_order calls fault hno, ?_⟩
  rw [List.map_cons]
  congr 1
  · exact C12.instr_span _ _ (hT _) (fault, spF) hF
  · apply List.map_congr_left
    intro f hf
    exact C12.instr_span _ _ (hT _) (f.ip, site f) (hS f (List.mem_reverse.mp hf))

/-- a script (chunk 0 = `exTree`) calling itself recursively from ip 5 (`spB`), failing at ip 9 -/
example :
    let calls : List Call := [⟨5, 0, false⟩, ⟨5, 0, false⟩]
    (∀ c ∈ calls, c.inTry = false) ∧
    (9, spA) ∈ (annot exTree spR 0).1 ∧
    (∀ f ∈ callSites 0 calls, (f.ip, spB) ∈ (annot exTree spR 0).1) ∧
    predict calls 9 false = .uncaught [⟨0, 9⟩, ⟨0, 5⟩, ⟨0, 5⟩] := by decide

/-- Every frame of an uncaught trace renders: if all node spans of all chunks satisfy the guard of
the text, no frame whose span is found can make the message rendering panic. -/
theorem trace_render_never_panics (root : Nat → Span) (T : Nat → Steps) (n : Nat)
    (hall : ∀ c, ∀ e ∈ (annot (T c) (root c) 0).1, Guard n e.2)
    (tr : List IFrame) :
    ∀ f ∈ tr, ∀ sp, lookup (debugInfoOf (root f.chunk) (T f.chunk)) f.ip = some sp →
      ∃ o, excerpt n sp = .ok o := by
  intro f _ sp h
  exact lookup_render_never_panics _ _ n (hall f.chunk) f.ip sp h

example : ∀ e ∈ (annot exTree spR 0).1, Guard 7 e.2 := by decide

end KotoVerif.C12Ext2
