/-
C07 — a failed run leaves the runtime reusable and clean (property theorems only).

Model: `Model/Unwind.lean` (the VM's bookkeeping: value-stack length, frames with catch stacks and
barriers, builder depths, module placeholders, exported keys; host entry points as brackets over an
arbitrary event list). Helper lemmas (the bracket invariant): `Lemmas/C07.lean`.

Summary of what is proved (entry point × outcome):

| entry | outcome | frames / base / min_frame_registers / placeholders | registers | builders |
|---|---|---|---|---|
| pushes a barrier frame (`run`, `call_and_run_function` on a Koto callee, `run_*_op` on a Koto overload, each test of `run_tests`, `run` inside `run_import`) | ok, thrown, runtime error, failed type check, failed test, timeout, error in a nested entry, … (every event list) | restored (`entry_clean_frames`) | restored exactly (`entry_regs_restored`, `entry_clean`; no residue even without the no-wrap hypothesis: `entry_no_register_residue`) | no residue for every execution (`entry_no_builder_residue`); restored exactly unless the execution finishes a builder of its caller (`entry_clean`; fix 97373d1) |
| `call_and_run_function`, native callee | returns Ok / Err | restored (`entry_native_frames`) | restored (`call_native_ok_clean`, `call_native_err_clean` — since fix 5247d9c) | – |
| `call_and_run_function`, `call_callable` fails (argument count, …) | – | restored | restored (`call_setup_fail_clean` — since fix 5247d9c) | – |
| `run_*_op` through `call_overridden_op_N`, native overload returns Err / `call_callable` fails | – | restored | restored (`opcall_native_err_clean`, `opcall_setup_fail_clean`, `op_arith_overload_err_clean` — since fix d4834c0) | – |
| `run_*_op` performed natively | Ok / Err | restored | restored (`op_direct_ok_clean`, `op_direct_err_clean` — since fix d4834c0) | – |
| compile error | never enters the VM (no event) | – | – | – |
-/
import KotoVerif.Model.Unwind
import KotoVerif.Lemmas.C07
import KotoVerif.Lemmas.C07Regs
import KotoVerif.Model.Repl

namespace KotoVerif.C07
open KotoVerif.Unwind

/-- The bookkeeping state that must be the same after a host entry as before it. -/
def Clean (s s' : VM) : Prop :=
  s'.regs = s.regs ∧ s'.stack = s.stack ∧ s'.base = s.base ∧ s'.minRegs = s.minRegs ∧
  s'.seq = s.seq ∧ s'.str = s.str ∧ s'.placeholders = s.placeholders

instance (s s' : VM) : Decidable (Clean s s') := by unfold Clean; infer_instance

/-- The part of `Clean` that concerns frames and imports. -/
def CleanFrames (s s' : VM) : Prop :=
  s'.stack = s.stack ∧ s'.base = s.base ∧ s'.minRegs = s.minRegs ∧ s'.placeholders = s.placeholders

/-- A fresh runtime. -/
def init : St := {}

/-! ## Entries that push a barrier frame: clean for every execution and every outcome -/

/-- **entry_clean (frames)**. For every state in which host/native code can run, every entry that
goes through a Koto callee (`run(chunk)` is `pre = 0, args = 0`; `call_and_run_function`
`pre = 1`; `run_unary/binary/read/write_op` with a Koto overload `pre = 2/3/3/4`), and **every**
event list — whatever the script does, however deep it re-enters the VM through native callbacks,
whether it ends with a value, a thrown value, a runtime error, a failed type check, a timeout
(`raise false`), a failing import, and even if nested entries leak registers — once the entry has
returned, the call stack, `register_base`, `min_frame_registers` and the module placeholders are
exactly what they were before, the continuation stack is the caller's, and the value stack has at
most `register_base + result_register` entries. -/
theorem entry_clean_frames (s : St) (pre args a : Nat) (evs : List Ev)
    (hhost : inLoop s = false) (hc : Consistent s.vm)
    (hex : Exited s (runEntry pre args (.koto a) evs s)) :
    let s' := runEntry pre args (.koto a) evs s
    CleanFrames s.vm s'.vm ∧ s'.conts = s.conts ∧ s'.vm.regs ≤ s.vm.base + nextRegister s.vm := by
  intro s'
  let e : Cont := .loop (.truncate (nextRegister s.vm))
  have h0 : Inv s e (enter pre args (.koto a) s) [e] := by
    refine ⟨?_, ?_, ?_, ?_, ?_, ?_, ?_⟩
    · simp [enter, enterWith, e]
    · simp [enter, enterWith, callKoto, pushFrame, peelAll, dropLoop, e]
    · simp [enter, enterWith, callKoto, pushFrame, topBase]
    · intro hl; simp [hasLoop, e] at hl
    · simp [enter, enterWith, callKoto, pushFrame, impMods, e]
    · intro _; rfl
    · intro hn; simp at hn
  obtain ⟨Y', h'⟩ := runUntil_inv s e hhost hc evs _ [e] h0
  have := inv_exit s e hc _ Y' h' hex
  refine ⟨⟨this.2.1, this.2.2.1, this.2.2.2.1, this.2.2.2.2.1⟩, this.1, ?_⟩
  have hd := this.2.2.2.2.2
  simp only [DoneP, e] at hd
  have hb : s'.vm.base = s.vm.base := this.2.2.1
  show s'.vm.regs ≤ _
  calc s'.vm.regs ≤ s'.vm.base + nextRegister s.vm := hd
    _ = s.vm.base + nextRegister s.vm := by rw [hb]

/-- **No register residue**: while the register window fits the `u8` numbering, such an entry never
leaves more registers than it found. In particular a host-initiated entry on an instance without
residue (`regs = 0`) ends with `regs = 0`. -/
theorem entry_no_register_residue (s : St) (pre args a : Nat) (evs : List Ev)
    (hhost : inLoop s = false) (hc : Consistent s.vm) (hw : s.vm.regs - s.vm.base < 256)
    (hex : Exited s (runEntry pre args (.koto a) evs s)) :
    (runEntry pre args (.koto a) evs s).vm.regs ≤ s.vm.regs := by
  have h := (entry_clean_frames s pre args a evs hhost hc hex).2.2
  have hr := hc.regs
  simp only [nextRegister] at h
  rw [Nat.mod_eq_of_lt hw] at h
  omega

/-- The second invariant (`Lemmas/C07Regs.lean`) at the exit of a bracket, for claimed builder
lower bounds `ql tl` (`0 0`: no hypothesis on the execution; `seq str`: the execution never pops a
builder of its caller, `SafeUntil`). -/
theorem entry_bounds (s : St) (pre args a : Nat) (evs : List Ev) (rl ql tl : Nat)
    (hhost : inLoop s = false) (hc : Consistent s.vm) (hw : s.vm.regs - s.vm.base + pre < 256)
    (hrl : rl ≤ s.vm.regs) (hql : ql ≤ s.vm.seq) (htl : tl ≤ s.vm.str)
    (hsafe : SafeUntil ⟨rl, s.vm.seq, s.vm.str, ql, tl⟩ s.conts.length evs
      (enter pre args (.koto a) s))
    (hex : Exited s (runEntry pre args (.koto a) evs s)) :
    let s' := runEntry pre args (.koto a) evs s
    (rl ≤ s'.vm.regs ∧ s'.vm.regs ≤ s.vm.regs) ∧ s'.vm.seq ≤ s.vm.seq ∧ s'.vm.str ≤ s.vm.str ∧
    min ql s.vm.seq ≤ s'.vm.seq ∧ min tl s.vm.str ≤ s'.vm.str := by
  intro s'
  have hr := hc.regs
  have hup := entry_no_register_residue s pre args a evs hhost hc (by omega) hex
  have hfr := (entry_clean_frames s pre args a evs hhost hc hex).1
  let x0 : Exit := .truncate (nextRegister s.vm)
  let B : Bnd := ⟨rl, s.vm.seq, s.vm.str, ql, tl⟩
  have hw1 : (s.vm.regs - s.vm.base) % 256 = s.vm.regs - s.vm.base := Nat.mod_eq_of_lt (by omega)
  have hw2 : (s.vm.regs + pre - s.vm.base) % 256 = s.vm.regs + pre - s.vm.base :=
    Nat.mod_eq_of_lt (by omega)
  have h0 : Inv s (.loop x0) (enter pre args (.koto a) s) [.loop x0] := by
    refine ⟨?_, ?_, ?_, ?_, ?_, ?_, ?_⟩
    · simp [enter, enterWith, x0]
    · simp [enter, enterWith, callKoto, pushFrame, peelAll, dropLoop]
    · simp [enter, enterWith, callKoto, pushFrame, topBase]
    · intro hl; simp [hasLoop] at hl
    · simp [enter, enterWith, callKoto, pushFrame, impMods]
    · intro _; rfl
    · intro hn; simp at hn
  have hself : GeAbove B s.vm.stack s.vm.stack := by
    intro X hX
    have : X = [] := List.self_eq_append_left.mp hX
    subst this
    exact ⟨fun f hf => by simp at hf, fun b hb => by simp at hb⟩
  have hl0 : Low B (.loop x0) s.vm.stack (enter pre args (.koto a) s) [.loop x0] := by
    refine ⟨fun _ => ?_, fun _ => ?_, fun _ => ?_, fun _ => ?_, fun hn => by simp at hn⟩
    · simp [enter, enterWith, callKoto, pushFrame, nextRegister, hw2, B]; omega
    · simpa [enter, enterWith, callKoto, pushFrame, B] using hql
    · simpa [enter, enterWith, callKoto, pushFrame, B] using htl
    · simp only [enter, enterWith, callKoto, pushFrame]
      refine GeAbove_cons B _ _ _ [] rfl ⟨?_, hql, htl, fun c hc => by simp at hc⟩
        (fun _ => ⟨rfl, rfl⟩) hself
      simp [nextRegister, hw2, B]; omega
  obtain ⟨Y', h', hl'⟩ := runUntil_low s x0 hhost hc B evs _ _ h0 hl0 hsafe
  have hY : Y' = [] := by
    have := h'.conts
    have hex' : (runEntry pre args (.koto a) evs s).conts.length ≤ s.conts.length := hex
    simp only [runEntry] at hex'
    rw [this] at hex'
    simp at hex'
    exact List.eq_nil_of_length_eq_zero (by omega)
  have hd := hl'.doneR hY
  simp only [DoneR, x0, B] at hd
  have hb : (runUntil s.conts.length evs (enter pre args (.koto a) s)).vm.base = s.vm.base := hfr.2.1
  rw [hb] at hd
  simp only [nextRegister, hw1] at hd
  have hup' : (runUntil s.conts.length evs (enter pre args (.koto a) s)).vm.regs ≤ s.vm.regs := hup
  refine ⟨⟨?_, hup'⟩, hd.2.1, hd.2.2.1, hd.2.2.2.1, hd.2.2.2.2⟩
  show rl ≤ (runUntil s.conts.length evs (enter pre args (.koto a) s)).vm.regs
  have := hd.1
  omega

/-- `entry_bounds` from the per-frame hypothesis (`FrameSafeUntil`). -/
theorem entry_bounds_frame (s : St) (pre args a : Nat) (evs : List Ev)
    (hhost : inLoop s = false) (hc : Consistent s.vm) (hw : s.vm.regs - s.vm.base + pre < 256)
    (hsafe : FrameSafeUntil s.conts.length evs (enter pre args (.koto a) s))
    (hex : Exited s (runEntry pre args (.koto a) evs s)) :
    let s' := runEntry pre args (.koto a) evs s
    s'.vm.regs = s.vm.regs ∧ s'.vm.seq = s.vm.seq ∧ s'.vm.str = s.vm.str := by
  intro s'
  have hr := hc.regs
  have hup := entry_no_register_residue s pre args a evs hhost hc (by omega) hex
  have hfr := (entry_clean_frames s pre args a evs hhost hc hex).1
  let x0 : Exit := .truncate (nextRegister s.vm)
  let B : Bnd := ⟨s.vm.regs, s.vm.seq, s.vm.str, s.vm.seq, s.vm.str⟩
  have hw1 : (s.vm.regs - s.vm.base) % 256 = s.vm.regs - s.vm.base := Nat.mod_eq_of_lt (by omega)
  have hw2 : (s.vm.regs + pre - s.vm.base) % 256 = s.vm.regs + pre - s.vm.base :=
    Nat.mod_eq_of_lt (by omega)
  have h0 : Inv s (.loop x0) (enter pre args (.koto a) s) [.loop x0] := by
    refine ⟨?_, ?_, ?_, ?_, ?_, ?_, ?_⟩
    · simp [enter, enterWith, x0]
    · simp [enter, enterWith, callKoto, pushFrame, peelAll, dropLoop]
    · simp [enter, enterWith, callKoto, pushFrame, topBase]
    · intro hl; simp [hasLoop] at hl
    · simp [enter, enterWith, callKoto, pushFrame, impMods]
    · intro _; rfl
    · intro hn; simp at hn
  have hself : GeAbove B s.vm.stack s.vm.stack := by
    intro X hX
    have : X = [] := List.self_eq_append_left.mp hX
    subst this
    exact ⟨fun f hf => by simp at hf, fun b hb => by simp at hb⟩
  have hl0 : Low B (.loop x0) s.vm.stack (enter pre args (.koto a) s) [.loop x0] := by
    refine ⟨fun _ => ?_, fun _ => ?_, fun _ => ?_, fun _ => ?_, fun hn => by simp at hn⟩
    · simp [enter, enterWith, callKoto, pushFrame, nextRegister, hw2, B]; omega
    · simp [enter, enterWith, callKoto, pushFrame, B]
    · simp [enter, enterWith, callKoto, pushFrame, B]
    · simp only [enter, enterWith, callKoto, pushFrame]
      refine GeAbove_cons B _ _ _ [] rfl ⟨?_, Nat.le_refl _, Nat.le_refl _, fun c hc => by simp at hc⟩
        (fun _ => ⟨rfl, rfl⟩) hself
      simp [nextRegister, hw2, B]; omega
  obtain ⟨Y', h', hl'⟩ := runUntil_low_frame s x0 hhost hc B evs _ _ h0 hl0 hsafe
  have hY : Y' = [] := by
    have := h'.conts
    have hex' : (runEntry pre args (.koto a) evs s).conts.length ≤ s.conts.length := hex
    simp only [runEntry] at hex'
    rw [this] at hex'
    simp at hex'
    exact List.eq_nil_of_length_eq_zero (by omega)
  have hd := hl'.doneR hY
  simp only [DoneR, x0, B] at hd
  have hb : (runUntil s.conts.length evs (enter pre args (.koto a) s)).vm.base = s.vm.base := hfr.2.1
  rw [hb] at hd
  simp only [nextRegister, hw1, Nat.min_self] at hd
  have hup' : (runUntil s.conts.length evs (enter pre args (.koto a) s)).vm.regs ≤ s.vm.regs := hup
  refine ⟨?_, ?_, ?_⟩
  · show (runUntil s.conts.length evs (enter pre args (.koto a) s)).vm.regs = s.vm.regs
    have := hd.1; omega
  · show (runUntil s.conts.length evs (enter pre args (.koto a) s)).vm.seq = s.vm.seq
    have := hd.2.1; have := hd.2.2.2.1; omega
  · show (runUntil s.conts.length evs (enter pre args (.koto a) s)).vm.str = s.vm.str
    have := hd.2.2.1; have := hd.2.2.2.2; omega

/-- a frame with an open `try` has `min_frame_registers ≥ registers.len()-at-entry`, at every state
of the bracket (`SafeUntil` with no claim about builders). True for every real execution: a frame
executes `NewFrame` first, and every frame of the bracket lies above the entry's registers. Needed
for *equality* of `registers.len()` since fix 8f4d2e4 (the catch point resizes the value stack to
`min_frame_registers`); `FrameSafeUntil` implies it. -/
def TrySafe (s : St) (pre args a : Nat) (evs : List Ev) : Prop :=
  SafeUntil ⟨s.vm.regs, s.vm.seq, s.vm.str, 0, 0⟩ s.conts.length evs (enter pre args (.koto a) s)

/-- **entry_clean (registers)**: under the no-wrap hypothesis for the entry's *own* window
(`regs - base + pre < 256`; nothing is assumed about nested entries — their result registers may
wrap, every frame they use still lies above `regs`) and `TrySafe`, the value stack has exactly its
old length when the entry returns: nothing is left behind and nothing of the caller's is cut off,
for every execution and every outcome. (Without `TrySafe`: `entry_no_register_residue`, `≤`.) -/
theorem entry_regs_restored (s : St) (pre args a : Nat) (evs : List Ev)
    (hhost : inLoop s = false) (hc : Consistent s.vm) (hw : s.vm.regs - s.vm.base + pre < 256)
    (htry : TrySafe s pre args a evs)
    (hex : Exited s (runEntry pre args (.koto a) evs s)) :
    (runEntry pre args (.koto a) evs s).vm.regs = s.vm.regs := by
  have h := (entry_bounds s pre args a evs s.vm.regs 0 0 hhost hc hw (Nat.le_refl _) (Nat.zero_le _)
    (Nat.zero_le _) htry hex).1
  have h1 := h.1
  have h2 := h.2
  omega

/-- **No builder residue** (F-C07-2, repaired by fix 97373d1): whatever the execution does and
however it ends — value, thrown value, runtime error, failed type check, timeout, caught or not,
at any depth of calls, native callbacks, imports, list/tuple literals and interpolations — when the
entry returns the builder stacks hold at most what they held before: the entry's barrier frame
records the builder counts at `push_frame`, and `pop_frame` truncates to them on every exit path.
No hypothesis on the execution. -/
theorem entry_no_builder_residue (s : St) (pre args a : Nat) (evs : List Ev)
    (hhost : inLoop s = false) (hc : Consistent s.vm) (hw : s.vm.regs - s.vm.base + pre < 256)
    (hex : Exited s (runEntry pre args (.koto a) evs s)) :
    (runEntry pre args (.koto a) evs s).vm.seq ≤ s.vm.seq ∧
    (runEntry pre args (.koto a) evs s).vm.str ≤ s.vm.str :=
  let h := entry_bounds s pre args a evs 0 0 0 hhost hc hw (Nat.zero_le _) (Nat.zero_le _)
    (Nat.zero_le _) (safeUntil_zero _ rfl rfl rfl _ _ _) hex
  ⟨h.2.1, h.2.2.1⟩

/-- **entry_clean**: the *whole* clean-state predicate — registers, call stack, `register_base`,
`min_frame_registers`, sequence builders, string builders, module placeholders — is restored by
every entry through a Koto callee, for every outcome and every execution that does not finish a
list/tuple/string of its caller (`SafeUntil`: no `SequenceToList` / `StringFinish` is executed at
the caller's builder depth — true for all compiled code, whose builder instructions are balanced
within a frame; without this hypothesis `entry_no_builder_residue` still gives `≤`). -/
theorem entry_clean (s : St) (pre args a : Nat) (evs : List Ev)
    (hhost : inLoop s = false) (hc : Consistent s.vm) (hw : s.vm.regs - s.vm.base + pre < 256)
    (hsafe : SafeUntil ⟨s.vm.regs, s.vm.seq, s.vm.str, s.vm.seq, s.vm.str⟩ s.conts.length evs
      (enter pre args (.koto a) s))
    (hex : Exited s (runEntry pre args (.koto a) evs s)) :
    Clean s.vm (runEntry pre args (.koto a) evs s).vm ∧
    (runEntry pre args (.koto a) evs s).conts = s.conts := by
  have hb := entry_bounds s pre args a evs s.vm.regs s.vm.seq s.vm.str hhost hc hw (Nat.le_refl _)
    (Nat.le_refl _) (Nat.le_refl _) hsafe hex
  have hf := entry_clean_frames s pre args a evs hhost hc hex
  simp only [] at hb hf
  obtain ⟨⟨h2, h3, h4, h5⟩, h6, _⟩ := hf
  refine ⟨⟨by have := hb.1; omega, h2, h3, h4, ?_, ?_, h5⟩, h6⟩
  · have := hb.2.1; have := hb.2.2.2.1; simp only [Nat.min_self] at *; omega
  · have := hb.2.2.1; have := hb.2.2.2.2; simp only [Nat.min_self] at *; omega

/-- **entry_clean for verified bytecode**: the same conclusion from the *per-frame* hypothesis
`FrameSafeUntil` — a `SequenceToList` / `StringFinish` is only executed while the current frame has
a builder of its own open. This is the trace-level reading of C05's `wf_sound_balance` (in a chunk
accepted by `wfChunk`, no builder instruction of a frame unit finds the unit's builder stack empty;
C05 counts depths relative to the frame entry, here the absolute depth is the frame's recorded
`builder_counts` plus that relative depth, which `pop_frame`'s truncation keeps true). The remaining
link — that the event trace of an execution of verified chunks satisfies `FrameSafeUntil` — needs the
instruction-level simulation between C05's per-unit abstract VM and this model; it is not proved
here and is the documented hypothesis. -/
theorem entry_clean_wf (s : St) (pre args a : Nat) (evs : List Ev)
    (hhost : inLoop s = false) (hc : Consistent s.vm) (hw : s.vm.regs - s.vm.base + pre < 256)
    (hsafe : FrameSafeUntil s.conts.length evs (enter pre args (.koto a) s))
    (hex : Exited s (runEntry pre args (.koto a) evs s)) :
    Clean s.vm (runEntry pre args (.koto a) evs s).vm ∧
    (runEntry pre args (.koto a) evs s).conts = s.conts := by
  have hb := entry_bounds_frame s pre args a evs hhost hc hw hsafe hex
  have hf := entry_clean_frames s pre args a evs hhost hc hex
  simp only [] at hb hf
  obtain ⟨⟨h2, h3, h4, h5⟩, h6, _⟩ := hf
  exact ⟨⟨hb.1, h2, h3, h4, hb.2.1, hb.2.2, h5⟩, h6⟩

example : FrameSafeUntil 0 [.newFrame 4, .seqStart, .call 2 0, .newFrame 1, .strStart, .strEnd,
    .raise true] (enter 0 0 (.koto 0) init) := by
  simp [FrameSafeUntil, FrameSafeEv, enter, enterWith, step, inLoop, callKoto, pushFrame, modTop,
    nextRegister, init]

/-- Host-level corollary (the shape of C07): on an instance whose bookkeeping is all-zero, a
`run` / `call_function` on a Koto callee, with any execution and any outcome, leaves registers,
frames, base and placeholders all-zero again. -/
theorem toplevel_entry_clean (s : St) (pre args a : Nat) (evs : List Ev)
    (hconts : s.conts = []) (hstack : s.vm.stack = []) (hbase : s.vm.base = 0)
    (hmin : s.vm.minRegs = 0) (hregs : s.vm.regs = 0)
    (hex : Exited s (runEntry pre args (.koto a) evs s)) :
    let s' := runEntry pre args (.koto a) evs s
    s'.vm.regs = 0 ∧ s'.vm.stack = [] ∧ s'.vm.base = 0 ∧ s'.vm.minRegs = 0 ∧
    s'.vm.placeholders = s.vm.placeholders ∧ s'.conts = [] := by
  intro s'
  have hhost : inLoop s = false := by simp [inLoop, hconts]
  have hc : Consistent s.vm := ⟨by simp [hstack, hbase, topBase], by simp [hstack, hmin, topMin],
    by simp [hbase]⟩
  have h := entry_clean_frames s pre args a evs hhost hc hex
  have hr := entry_no_register_residue s pre args a evs hhost hc (by simp [hregs, hbase]) hex
  obtain ⟨⟨h1, h2, h3, h4⟩, h5, _⟩ := h
  have hr' : s'.vm.regs ≤ s.vm.regs := hr
  refine ⟨by omega, by rw [h1, hstack], by rw [h2, hbase], by rw [h3, hmin], h4, by rw [h5, hconts]⟩

example : Exited init (runEntry 0 0 (.koto 0) [.newFrame 4, .tryStart 1 9, .seqStart, .call 2 0,
    .newFrame 2, .raise true, .tryEnd, .ret] init) := by decide

/-- The same for an entry whose callee is a native function, whatever the native does (nested
entries, callbacks that fail, …) and whether it returns Ok or Err: frames, base,
`min_frame_registers` and placeholders are restored. (Registers: see below.) -/
theorem entry_native_frames (s : St) (pre args : Nat) (evs : List Ev)
    (hhost : inLoop s = false) (hc : Consistent s.vm)
    (hex : Exited s (runEntry pre args .native evs s)) :
    let s' := runEntry pre args .native evs s
    CleanFrames s.vm s'.vm ∧ s'.conts = s.conts := by
  intro s'
  let e : Cont := .native (nextRegister { s.vm with regs := s.vm.regs + pre }) (some (nextRegister s.vm, true))
  have h0 : Inv s e (enter pre args .native s) [e] := by
    refine ⟨?_, ?_, ?_, ?_, ?_, ?_, ?_⟩
    · simp [enter, enterWith, e]
    · simp [enter, enterWith, peelAll, e]
    · simp [enter, enterWith, hc.base]
    · intro _; simp [enter, enterWith]
    · simp [enter, enterWith, impMods, e]
    · intro _; rfl
    · intro hn; simp at hn
  obtain ⟨Y', h'⟩ := runUntil_inv s e hhost hc evs _ [e] h0
  have := inv_exit s e hc _ Y' h' hex
  exact ⟨⟨this.2.1, this.2.2.1, this.2.2.2.1, this.2.2.2.2.1⟩, this.1⟩

/-! ## `call_and_run_function` on a callee that fails before a frame is pushed
(F-C07-1, repaired by fix 5247d9c: `truncate_registers(result_register)` before the error is
propagated) — and the same early return in `run_*_op` (F-C07-3, repaired by fix d4834c0) -/

theorem runUntil_host (d : Nat) (evs : List Ev) (st : St) (h : st.conts.length ≤ d) :
    runUntil d evs st = st := by
  cases evs <;> simp [runUntil, h]

/-- `call_and_run_function` on a native callee that returns `Err` is clean. -/
theorem call_native_err_clean (s : St) (pre args : Nat) (evs : List Ev) (hhost : inLoop s = false)
    (hc : Consistent s.vm) (hw : s.vm.regs - s.vm.base < 256) :
    Clean s.vm (runEntry pre args .native (.nativeRet false :: evs) s).vm ∧
    (runEntry pre args .native (.nativeRet false :: evs) s).conts = s.conts := by
  have hstep : step (.nativeRet false) (enter pre args .native s) =
      ⟨truncate (nextRegister s.vm) { s.vm with regs := s.vm.regs + pre + 1 + args }, s.conts⟩ := by
    simp [step, inLoop, enter, enterWith, raiseGo_host s hhost]
  simp only [runEntry, runUntil]
  have h1 : ¬ (enter pre args .native s).conts.length ≤ s.conts.length := by
    simp [enter, enterWith]
  rw [if_neg h1, hstep, runUntil_host _ _ _ (by simp)]
  have hr := hc.regs
  have hw1 : (s.vm.regs - s.vm.base) % 256 = s.vm.regs - s.vm.base := Nat.mod_eq_of_lt hw
  simp [Clean, truncate, nextRegister, hw1]
  omega

/-- The same entry when the native callee returns `Ok` is clean. -/
theorem call_native_ok_clean (s : St) (pre args : Nat) (evs : List Ev)
    (hc : Consistent s.vm) (hw : s.vm.regs - s.vm.base + pre < 256) :
    Clean s.vm (runEntry pre args .native (.nativeRet true :: evs) s).vm := by
  have hstep : step (.nativeRet true) (enter pre args .native s) =
      ⟨truncate (nextRegister s.vm)
        (nativeOk (nextRegister { s.vm with regs := s.vm.regs + pre })
          { s.vm with regs := s.vm.regs + pre + 1 + args }), s.conts⟩ := by
    simp [step, inLoop, enter, enterWith]
  simp only [runEntry, runUntil]
  have h1 : ¬ (enter pre args .native s).conts.length ≤ s.conts.length := by
    simp [enter, enterWith]
  rw [if_neg h1, hstep, runUntil_host _ _ _ (by simp)]
  have hr := hc.regs
  have hw1 : (s.vm.regs - s.vm.base) % 256 = s.vm.regs - s.vm.base := Nat.mod_eq_of_lt (by omega)
  have hw2 : (s.vm.regs + pre - s.vm.base) % 256 = s.vm.regs + pre - s.vm.base :=
    Nat.mod_eq_of_lt (by omega)
  cases hs : s.vm.stack with
  | nil =>
    simp [Clean, nativeOk, hs, truncate, nextRegister, hw1]
    omega
  | cons f rest =>
    simp [Clean, nativeOk, hs, truncate, nextRegister, hw1, hw2]
    omega

/-- `call_callable` fails before anything runs (wrong argument count for a Koto function, `@call`
entry that is not callable): clean as well. -/
theorem call_setup_fail_clean (s : St) (pre args : Nat) (evs : List Ev) (hhost : inLoop s = false)
    (hc : Consistent s.vm) (hw : s.vm.regs - s.vm.base < 256) :
    Clean s.vm (runEntry pre args .fail evs s).vm ∧ (runEntry pre args .fail evs s).conts = s.conts := by
  have hen : enter pre args .fail s =
      ⟨truncate (nextRegister s.vm) { s.vm with regs := s.vm.regs + pre + 1 + args }, s.conts⟩ := by
    simp [enter, enterWith, raiseGo_host s hhost]
  simp only [runEntry, hen]
  rw [runUntil_host _ _ _ (by simp)]
  have hr := hc.regs
  have hw1 : (s.vm.regs - s.vm.base) % 256 = s.vm.regs - s.vm.base := Nat.mod_eq_of_lt hw
  simp [Clean, truncate, nextRegister, hw1]
  omega

/-- Any number of failing host-initiated calls leaves the value stack as it was (the regression
statement for F-C07-1: before the fix the residue was `3 * n`). -/
def failingCalls : Nat → List Ev
  | 0 => []
  | n + 1 => .enter 1 1 .native :: .nativeRet false :: failingCalls n

theorem failing_calls_clean (n : Nat) (s : St) (hhost : inLoop s = false)
    (hr : s.vm.base ≤ s.vm.regs) (hw : s.vm.regs - s.vm.base + 9 ≤ 255) :
    (run (failingCalls n) s).vm.regs = s.vm.regs ∧ (run (failingCalls n) s).conts = s.conts ∧
    (run (failingCalls n) s).vm.base = s.vm.base ∧ (run (failingCalls n) s).vm.stack = s.vm.stack := by
  induction n generalizing s with
  | zero => simp [failingCalls, run]
  | succ n ih =>
    have h2 : step (.nativeRet false) (step (.enter 1 1 .native) s) =
        ⟨truncate (nextRegister s.vm) { s.vm with regs := s.vm.regs + 1 + 1 + 1 }, s.conts⟩ := by
      have h8 : s.vm.regs - s.vm.base + 8 ≤ 255 := by omega
      have h9 : s.vm.regs + 1 - s.vm.base + 8 ≤ 255 := by omega
      simp [step, inLoop, enterChecked, fitsEnter, nextRegisterOk, h8, h9, enter, enterWith,
        raiseGo_host s hhost]
    have hrun : run (failingCalls (n + 1)) s =
        run (failingCalls n) (step (.nativeRet false) (step (.enter 1 1 .native) s)) := by
      simp [failingCalls, run]
    rw [hrun, h2]
    have hw1 : (s.vm.regs - s.vm.base) % 256 = s.vm.regs - s.vm.base :=
      Nat.mod_eq_of_lt (by omega)
    have hregs : (truncate (nextRegister s.vm) { s.vm with regs := s.vm.regs + 1 + 1 + 1 }).regs
        = s.vm.regs := by
      simp [truncate, nextRegister, hw1]; omega
    have := ih ⟨truncate (nextRegister s.vm) { s.vm with regs := s.vm.regs + 1 + 1 + 1 }, s.conts⟩
      (by simpa [inLoop] using hhost) (by rw [hregs]; simpa [truncate] using hr)
      (by rw [hregs]; simpa [truncate] using hw)
    simp only [] at this
    refine ⟨by rw [this.1, hregs], this.2.1, by rw [this.2.2.1]; simp [truncate],
      by rw [this.2.2.2]; simp [truncate]⟩

example : snapshot (run (failingCalls 5) init).vm = (0, 0, 0, 0, 0) := by decide

/-- `run_*_op` through `call_overridden_op_N` on a native overload that returns `Err` is clean
(F-C07-3 before fix d4834c0: residue `pre + 1 + args`). -/
theorem opcall_native_err_clean (s : St) (pre args : Nat) (hhost : inLoop s = false)
    (hc : Consistent s.vm) (hfit : fitsOp s.vm pre = true) :
    let s' := step (.nativeRet false) (step (.enterOp pre args .native) s)
    Clean s.vm s'.vm ∧ s'.conts = s.conts := by
  have hr := hc.regs
  have h8 : s.vm.regs - s.vm.base + 8 ≤ 255 := by
    simp [fitsOp, nextRegisterOk] at hfit; have := hfit.1; omega
  have hw1 : (s.vm.regs - s.vm.base) % 256 = s.vm.regs - s.vm.base := Nat.mod_eq_of_lt (by omega)
  simp [step, inLoop, enterOpChecked, hfit, enterOp, enterWith, raiseGo_host s hhost, Clean, truncate,
    nextRegister, hw1]
  omega

/-- … and the same when `call_callable` fails before anything runs. -/
theorem opcall_setup_fail_clean (s : St) (pre args : Nat) (hhost : inLoop s = false)
    (hc : Consistent s.vm) :
    let s' := step (.enterOp pre args .fail) s
    Clean s.vm s'.vm ∧ s'.conts = s.conts := by
  have hr := hc.regs
  by_cases hfit : fitsOp s.vm pre = true
  · have h8 : s.vm.regs - s.vm.base + 8 ≤ 255 := by
      simp [fitsOp, nextRegisterOk] at hfit; have := hfit.1; omega
    have hw1 : (s.vm.regs - s.vm.base) % 256 = s.vm.regs - s.vm.base := Nat.mod_eq_of_lt (by omega)
    simp [step, enterOpChecked, hfit, enterOp, enterWith, raiseGo_host s hhost, Clean, truncate,
      nextRegister, hw1]
    omega
  · simp [step, enterOpChecked, hfit, raiseGo_host s hhost, Clean]

/-- `run_unary_op` / `run_binary_op` / `run_read_op` / `run_write_op` whose operation is performed
natively: clean when it succeeds … -/
theorem op_direct_ok_clean (s : St) (pre : Nat) (hhost : inLoop s = false) (hc : Consistent s.vm) :
    Clean s.vm (step (.enterDirect pre true) s).vm := by
  have hr := hc.regs
  by_cases hok : nextRegisterOk s.vm = true
  · have h8 : s.vm.regs - s.vm.base + 8 ≤ 255 := by simpa [nextRegisterOk] using hok
    simp [step, enterDirectChecked, hok, enterDirect, Clean, truncate, nextRegister,
      Nat.mod_eq_of_lt (show s.vm.regs - s.vm.base < 256 by omega)]
    omega
  · simp [step, enterDirectChecked, hok, raiseGo_host s hhost, Clean]

/-- … and clean when it fails (F-C07-3 before fix d4834c0: the `pre` operand registers stayed). -/
theorem op_direct_err_clean (s : St) (pre : Nat) (hhost : inLoop s = false)
    (hc : Consistent s.vm) :
    Clean s.vm (step (.enterDirect pre false) s).vm ∧
    (step (.enterDirect pre false) s).conts = s.conts := by
  have hr := hc.regs
  by_cases hok : nextRegisterOk s.vm = true
  · have h8 : s.vm.regs - s.vm.base + 8 ≤ 255 := by simpa [nextRegisterOk] using hok
    have hw1 : (s.vm.regs - s.vm.base) % 256 = s.vm.regs - s.vm.base := Nat.mod_eq_of_lt (by omega)
    simp [step, enterDirectChecked, hok, enterDirect, raiseGo_host s hhost, Clean, truncate,
      nextRegister, hw1]
    omega
  · simp [step, enterDirectChecked, hok, raiseGo_host s hhost, Clean]

/-- Overload case of F-C07-3: `run_binary_op(Add, o, 1)` on a fresh VM where `o`'s `@+` is a Koto
function that throws. The body of `run_binary_op` holds 3 registers and runs the overload in a
nested loop (`call_metamap_arithmetic_op`); on `Err` the barrier frame is popped (no resize) and
the `?` returns with the 3 operand registers and the overload's `NewFrame 4` registers still live;
the wrapper of fix d4834c0 then truncates them (before the fix the snapshot was `(7, 0, 0, 0, 0)`).
When the overload returns normally the same entry is clean. -/
theorem op_arith_overload_err_clean :
    snapshot (run [.enterOp 2 0 .native, .nested 1 1, .newFrame 4, .raise true, .nativeRet false] init).vm
      = (0, 0, 0, 0, 0) ∧
    snapshot (run [.enterOp 2 0 .native, .nested 1 1, .newFrame 4, .ret, .nativeRet true] init).vm
      = (0, 0, 0, 0, 0) := by decide

/-- The witnesses that were negations of `entry_clean` before the fixes 5247d9c / d4834c0 are clean
now: failing native callee, failing argument setup, failing native overload, failing `run_binary_op`
on mismatched operands. -/
theorem call_native_err_clean_example :
    Clean init.vm (runEntry 1 1 .native [.nativeRet false] init).vm ∧
    Clean init.vm (runEntry 1 1 .fail [] init).vm := by decide

theorem opcall_err_clean_example :
    Clean init.vm (run [.enterOp 2 0 .native, .nativeRet false] init).vm ∧
    Clean init.vm (run [.enterOp 2 0 .fail] init).vm ∧
    Clean init.vm (step (.enterDirect 3 false) init).vm := by decide

/-- `n` failing `run_binary_op` calls on mismatched operands. -/
def failingOps : Nat → List Ev
  | 0 => []
  | n + 1 => .enterDirect 3 false :: failingOps n

/-- Any number of failing operator calls leaves the value stack as it was (regression statement
for F-C07-3: before the fix the residue was `3 * n`, and after 86 calls `next_register()` wrapped). -/
theorem failing_ops_clean (n : Nat) (s : St) (hhost : inLoop s = false)
    (hr : s.vm.base ≤ s.vm.regs) (hw : s.vm.regs - s.vm.base + 8 ≤ 255) :
    (run (failingOps n) s).vm.regs = s.vm.regs ∧ (run (failingOps n) s).conts = s.conts ∧
    (run (failingOps n) s).vm.base = s.vm.base ∧ (run (failingOps n) s).vm.stack = s.vm.stack := by
  induction n generalizing s with
  | zero => simp [failingOps, run]
  | succ n ih =>
    have h2 : step (.enterDirect 3 false) s =
        ⟨truncate (nextRegister s.vm) { s.vm with regs := s.vm.regs + 3 }, s.conts⟩ := by
      simp [step, enterDirectChecked, nextRegisterOk, hw, enterDirect, raiseGo_host s hhost]
    have hrun : run (failingOps (n + 1)) s = run (failingOps n) (step (.enterDirect 3 false) s) := by
      simp [failingOps, run]
    rw [hrun, h2]
    have hw1 : (s.vm.regs - s.vm.base) % 256 = s.vm.regs - s.vm.base :=
      Nat.mod_eq_of_lt (by omega)
    have hregs : (truncate (nextRegister s.vm) { s.vm with regs := s.vm.regs + 3 }).regs
        = s.vm.regs := by
      simp [truncate, nextRegister, hw1]; omega
    have := ih ⟨truncate (nextRegister s.vm) { s.vm with regs := s.vm.regs + 3 }, s.conts⟩
      (by simpa [inLoop] using hhost) (by rw [hregs]; simpa [truncate] using hr)
      (by rw [hregs]; simpa [truncate] using hw)
    simp only [] at this
    refine ⟨by rw [this.1, hregs], this.2.1, by rw [this.2.2.1]; simp [truncate],
      by rw [this.2.2.2]; simp [truncate]⟩

/-- Why the register check of fix b752efa matters (and why the theorems about the *unchecked*
prologue `runEntry` carry a no-wrap hypothesis): register ids are `u8`. If an entry were started on
a window of 258 live registers without the check, it would take register 2 as its result register,
its frame would alias live registers and its final `truncate_registers` would cut the value stack
to 2. With the check (`enterChecked`) such an entry fails before it pushes anything:
`entry_too_full_is_clean_error`. -/
theorem residue_wraps_register_numbering (s : St) (hconts : s.conts = []) (hstack : s.vm.stack = [])
    (hbase : s.vm.base = 0) (hregs : s.vm.regs = 258) :
    nextRegister s.vm = 2 ∧ (runEntry 1 1 (.koto 1) [.newFrame 3, .ret] s).vm.regs = 2 := by
  refine ⟨by simp [nextRegister, hregs, hbase], ?_⟩
  obtain ⟨vm, conts⟩ := s
  simp only [] at hconts hregs hbase hstack
  subst hconts
  simp [runEntry, runUntil, enter, enterWith, step, inLoop, callKoto, pushFrame, nextRegister, hregs,
    hbase, hstack, modTop, popTo, truncate]

/-- An entry whose register check fails (`next_register()` reports "too many registers are in
use", fixes b752efa / ea3163c) changes nothing and hands the error to its caller. -/
theorem entry_too_full_is_clean_error (s : St) (pre args : Nat) (c : Callee) (evs : List Ev)
    (hhost : inLoop s = false) (hfull : fitsEnter s.vm pre = false) :
    runEntryChecked pre args c evs s = s := by
  simp [runEntryChecked, enterChecked, hfull, raiseGo_host s hhost, runUntil_host]

/-- When the check passes, the checked entry is the prologue the `entry_*` theorems speak about,
and their no-wrap hypotheses hold. -/
theorem runEntryChecked_eq (s : St) (pre args : Nat) (c : Callee) (evs : List Ev)
    (hfit : fitsEnter s.vm pre = true) :
    runEntryChecked pre args c evs s = runEntry pre args c evs s ∧
    s.vm.regs - s.vm.base + pre + 8 ≤ 255 + (s.vm.base - s.vm.regs) := by
  refine ⟨by simp [runEntryChecked, runEntry, enterChecked, hfit], ?_⟩
  simp [fitsEnter, nextRegisterOk] at hfit
  omega

/-- **entry_clean, unconditional in the register window** (the statement for the code as it is
since fixes b752efa / ea3163c): every `run` / `call_and_run_function` through a Koto callee started
by host or native code on a consistent VM — whatever the size of the register window, whatever the
execution does, however it ends — restores the call stack, `register_base`, `min_frame_registers`,
the module placeholders exactly, leaves no register and no builder behind, and (for executions
in which a frame with an open `try` has run its `NewFrame`, `TrySafe`) restores `registers.len()`
exactly. -/
theorem entry_checked_clean (s : St) (pre args a : Nat) (evs : List Ev)
    (hhost : inLoop s = false) (hc : Consistent s.vm)
    (hex : Exited s (runEntryChecked pre args (.koto a) evs s)) :
    let s' := runEntryChecked pre args (.koto a) evs s
    s'.vm.regs ≤ s.vm.regs ∧ (TrySafe s pre args a evs → s'.vm.regs = s.vm.regs) ∧
    CleanFrames s.vm s'.vm ∧ s'.vm.seq ≤ s.vm.seq ∧ s'.vm.str ≤ s.vm.str ∧
    s'.conts = s.conts := by
  intro s'
  have hr := hc.regs
  by_cases hfit : fitsEnter s.vm pre = true
  · have he := runEntryChecked_eq s pre args (.koto a) evs hfit
    have hw : s.vm.regs - s.vm.base + pre < 256 := by have := he.2; omega
    have hs' : s' = runEntry pre args (.koto a) evs s := he.1
    have hex' : Exited s (runEntry pre args (.koto a) evs s) := by rw [← he.1]; exact hex
    rw [hs']
    have h0 := entry_no_register_residue s pre args a evs hhost hc (by omega) hex'
    have h2 := entry_clean_frames s pre args a evs hhost hc hex'
    have h3 := entry_no_builder_residue s pre args a evs hhost hc hw hex'
    exact ⟨h0, fun htry => entry_regs_restored s pre args a evs hhost hc hw htry hex', h2.1, h3.1,
      h3.2, h2.2.1⟩
  · have hfull : fitsEnter s.vm pre = false := by simpa using hfit
    have : s' = s := entry_too_full_is_clean_error s pre args (.koto a) evs hhost hfull
    rw [this]
    exact ⟨Nat.le_refl _, fun _ => rfl, ⟨rfl, rfl, rfl, rfl⟩, Nat.le_refl _, Nat.le_refl _, rfl⟩

/-! ## F-C07-4 (repaired by fix 20565a0): a `yield` at the top level of a chunk ends the run cleanly -/

/-- `compile_and_run("yield 1")` on a fresh runtime, twice: the run succeeds with the yielded value
and the chunk's frame is popped (before the fix H1 reported `(0, 1, 0, 0, 0)` and `(0, 2, 0, 0, 0)`). -/
theorem run_yield_clean :
    let s1 := yieldAtTop (run [.newFrame 4] (enterChecked 0 0 (.koto 0) init))
    let s2 := yieldAtTop (run [.newFrame 4, .seqStart] (enterChecked 0 0 (.koto 0) s1))
    s1.conts = [] ∧ Clean init.vm s1.vm ∧ snapshot s1.vm = (0, 0, 0, 0, 0) ∧
    Clean init.vm s2.vm := by decide

/-- For the bookkeeping a top-level `Yield` is a `Return` from the chunk's barrier frame, so the
`entry_*` theorems cover it through the event `ret`. -/
theorem yieldAtTop_eq_ret (vm : VM) (f : Frame) (rest : List Frame) (rr : Nat) (cs : List Cont)
    (hs : vm.stack = f :: rest) (hb : f.barrier = true) :
    yieldAtTop ⟨vm, .loop (.truncate rr) :: cs⟩ = step .ret ⟨vm, .loop (.truncate rr) :: cs⟩ := by
  have hst := popTo_stop_of_barrier f rest vm hb
  rcases hpt : popTo f rest vm with ⟨vm1, b⟩
  rw [hpt] at hst
  simp only [] at hst
  simp [yieldAtTop, exitErr, popFrameD, popFrame, step, inLoop, hs, hpt, hst.1]

/-! ## F-C07-2 (repaired by fix 97373d1): builders are unwound with their frames -/

theorem unwindGo_exports (c : Bool) : ∀ (fs : List Frame) (vm : VM),
    (unwindGo c fs vm).1.exports = vm.exports := by
  intro fs
  induction fs with
  | nil => intro vm; simp [unwindGo]
  | cons f rest ih =>
    intro vm
    unfold unwindGo
    split
    · simp
    · by_cases hb : f.barrier = true
      · simp [hb]
      · have hb' : f.barrier = false := by simpa using hb
        simp only [hb', Bool.false_eq_true, if_false]
        rw [ih (popTo f rest vm).1, (popTo_fields f rest vm).2.2.2.2.2.2.1]

theorem exitErr_exports (x : Exit) (vm : VM) : (exitErr x vm).exports = vm.exports := by
  cases hs : vm.stack with
  | nil => cases x <;> simp [exitErr, popFrameD, popFrame, hs, truncate]
  | cons f rest =>
    have hp := popTo_fields f rest vm
    cases x <;> simp [exitErr, popFrameD, popFrame, hs, truncate, hp]

/-- Exports made before an error remain (the positive half of "completed effects remain"):
raising an error — caught or not, through any number of frames and nested entries — never changes
the active exports map. -/
theorem raise_keeps_exports : ∀ (conts : List Cont) (c : Bool) (vm : VM),
    (raiseGo conts c vm).vm.exports = vm.exports := by
  intro conts
  induction conts with
  | nil => intro c vm; simp [raiseGo]
  | cons k rest ih =>
    intro c vm
    cases k with
    | native a b => simp [raiseGo]
    | importing a b => simp [raiseGo]
    | loop x =>
      have hu := unwindGo_exports c vm.stack vm
      have hune : unwind c vm = unwindGo c vm.stack vm := rfl
      rcases hres : unwindGo c vm.stack vm with ⟨vm1, r⟩
      rw [hres] at hu
      simp only [] at hu
      cases r with
      | some cr =>
        rw [raiseGo_loop_some x rest c vm vm1 cr (by rw [hune, hres])]
        exact hu
      | none =>
        have hx := exitErr_exports x vm1
        cases raiseGo_loop_none x rest c vm vm1 (by rw [hune, hres]) with
        | inl h => rw [h, ih true (exitErr x vm1), hx, hu]
        | inr h => rw [h]; simp only []; rw [hx, hu]

/-- The former negation witnesses of F-C07-2 are clean now. Uncaught: `f = || throw 'x'` /
`[1, f()]` run on a fresh runtime (before the fix: one sequence builder left). -/
theorem run_builders_clean_uncaught :
    let s' := runEntry 0 0 (.koto 0) [.newFrame 4, .seqStart, .call 2 0, .newFrame 1, .raise true] init
    Exited init s' ∧ Clean init.vm s'.vm ∧ snapshot s'.vm = (0, 0, 0, 0, 0) := by decide

/-- … caught: `try [1, f()] catch e 0` — the catch point recorded the builder counts at `TryStart`. -/
theorem run_builders_clean_caught :
    let s' := runEntry 0 0 (.koto 0)
      [.newFrame 4, .tryStart 1 9, .seqStart, .call 2 0, .newFrame 1, .raise true, .tryEnd, .ret] init
    Exited init s' ∧ Clean init.vm s'.vm ∧ snapshot s'.vm = (0, 0, 0, 0, 0) := by decide

/-- String interpolation, error raised inside a native callback two entries deep, timeout variant
(`raise false` is not catchable by the `try` of the same entry; re-raised by the native it is). -/
theorem run_string_builder_clean :
    let s' := runEntry 0 0 (.koto 0)
      [.newFrame 4, .tryStart 1 9, .strStart, .callNative 3, .enter 1 2 (.koto 2), .newFrame 3,
       .raise false, .nativeRet false, .tryEnd, .strStart, .strEnd, .ret] init
    Exited init s' ∧ Clean init.vm s'.vm ∧ snapshot s'.vm = (0, 0, 0, 0, 0) := by decide

/-- F-C04-4 shape: the callee recovers from an error raised inside its own interpolation while the
caller is building a string: the callee's stale builder is discarded at the catch point, the caller
finishes *its own* builder. -/
theorem nested_string_builders_example :
    let st := run [.newFrame 4, .strStart, .call 2 0, .newFrame 3, .tryStart 1 9, .strStart,
      .call 2 0, .newFrame 1, .raise true] (enter 0 0 (.koto 0) init)
    st.vm.str = 1 ∧ (run [.tryEnd, .ret, .strEnd, .ret] st).vm.str = 0 := by decide

/-- Host-level reading of `entry_clean` (the shape of C07): on an instance whose bookkeeping is
all-zero, every `run` / `call_function` on a Koto callee, with *any* execution and any outcome,
leaves the complete clean-state predicate all-zero again — no hypothesis on the execution is
needed, because with empty builder stacks there is nothing of a caller to pop. -/
theorem toplevel_entry_clean_full (s : St) (pre args a : Nat) (evs : List Ev)
    (hconts : s.conts = []) (hstack : s.vm.stack = []) (hbase : s.vm.base = 0)
    (hmin : s.vm.minRegs = 0) (hregs : s.vm.regs = 0) (hseq : s.vm.seq = 0) (hstr : s.vm.str = 0)
    (hpre : pre < 256)
    (hex : Exited s (runEntry pre args (.koto a) evs s)) :
    Clean s.vm (runEntry pre args (.koto a) evs s).vm := by
  have hhost : inLoop s = false := by simp [inLoop, hconts]
  have hc : Consistent s.vm := ⟨by simp [hstack, hbase, topBase], by simp [hstack, hmin, topMin],
    by simp [hbase]⟩
  have hsafe : SafeUntil ⟨s.vm.regs, s.vm.seq, s.vm.str, s.vm.seq, s.vm.str⟩ s.conts.length evs
      (enter pre args (.koto a) s) := by
    rw [hregs, hseq, hstr]; exact safeUntil_zero _ rfl rfl rfl _ _ _
  exact (entry_clean s pre args a evs hhost hc (by rw [hregs, hbase]; omega) hsafe hex).1

example : Exited init (runEntry 0 0 (.koto 0) [.newFrame 4, .seqStart, .call 2 0, .newFrame 1,
    .strStart, .raise true] init) := by decide

/-! ## Imports -/

/-- **import_rollback**: whatever happens while a module is being imported — including a failure
at any depth — once the importing run has returned, no in-progress placeholder remains (this is
the `placeholders` component of `entry_clean_frames`); concrete non-vacuity: a module that throws
at top level, imported by a script that is run on a fresh runtime. -/
theorem import_rollback_example :
    let s' := runEntry 0 0 (.koto 0)
      [.newFrame 4, .exportVal 1, .importBegin 7, .enter 0 0 (.koto 0), .newFrame 2, .exportVal 2,
       .raise true, .importEnd false] init
    Exited init s' ∧ s'.vm.placeholders = [] ∧ s'.vm.cached = [] ∧ s'.vm.exports = [1] ∧
    snapshot s'.vm = (0, 0, 0, 0, 0) := by decide

/-- A successful import caches the module and restores the importer's exports. -/
theorem import_success_example :
    let s' := runEntry 0 0 (.koto 0)
      [.newFrame 4, .exportVal 1, .importBegin 7, .enter 0 0 (.koto 0), .newFrame 2, .exportVal 2,
       .ret, .importEnd true, .exportVal 3, .ret] init
    Exited init s' ∧ s'.vm.placeholders = [] ∧ s'.vm.cached = [7] ∧ s'.vm.exports = [1, 3] := by
  decide


/-! ## Exports: completed `export` instructions remain, nothing else changes -/

/-- The exports map of the module at the bottom of a continuation stack: `run_import` swaps the
active exports map (`importing m saved` remembers the importer's), so the exports of the module
below the pending conts `cs` are found by following the `saved` maps. With `cs = []` this is the
active map. -/
def levelExports : List Cont → List Nat → List Nat
  | [], ex => ex
  | .importing _ saved :: cs, _ => levelExports cs saved
  | .loop _ :: cs, ex => levelExports cs ex
  | .native _ _ :: cs, ex => levelExports cs ex

/-- The exports map of the outermost module (what the host sees once everything has returned). -/
def rootExports (st : St) : List Nat := levelExports st.conts st.vm.exports

theorem levelExports_snoc (k : Nat) : ∀ (cs : List Cont) (ex : List Nat),
    levelExports cs (ex ++ [k]) = levelExports cs ex ∨
    levelExports cs (ex ++ [k]) = levelExports cs ex ++ [k] := by
  intro cs
  induction cs with
  | nil => intro ex; exact Or.inr rfl
  | cons c cs ih =>
    intro ex
    cases c with
    | loop x => simpa [levelExports] using ih ex
    | native a b => simpa [levelExports] using ih ex
    | importing m saved => exact Or.inl (by simp [levelExports])

/-- Unwinding does not touch any module's exports, at any import depth. -/
theorem raiseGo_rootExports : ∀ (conts : List Cont) (c : Bool) (vm : VM),
    rootExports (raiseGo conts c vm) = levelExports conts vm.exports := by
  intro conts
  induction conts with
  | nil => intro c vm; simp [raiseGo, rootExports]
  | cons k rest ih =>
    intro c vm
    cases k with
    | native a b => simp [raiseGo, rootExports]
    | importing a b => simp [raiseGo, rootExports]
    | loop x =>
      have hu := unwindGo_exports c vm.stack vm
      have hune : unwind c vm = unwindGo c vm.stack vm := rfl
      rcases hres : unwindGo c vm.stack vm with ⟨vm1, r⟩
      rw [hres] at hu
      simp only [] at hu
      cases r with
      | some cr =>
        rw [raiseGo_loop_some x rest c vm vm1 cr (by rw [hune, hres])]
        simp [rootExports, levelExports, hu]
      | none =>
        have hx := exitErr_exports x vm1
        cases raiseGo_loop_none x rest c vm vm1 (by rw [hune, hres]) with
        | inl h => rw [h, ih true (exitErr x vm1), hx, hu]; simp [levelExports]
        | inr h => rw [h]; simp [rootExports, levelExports, hx, hu]

theorem enterWith_rootExports (t : Bool) (pre args : Nat) (c : Callee) (st : St) :
    rootExports (enterWith t pre args c st) = rootExports st := by
  cases c with
  | koto a => simp [enterWith, rootExports, levelExports, callKoto, pushFrame]
  | native => simp [enterWith, rootExports, levelExports]
  | fail =>
    cases t with
    | true => simp only [enterWith, if_true]; rw [raiseGo_rootExports]; simp [rootExports, truncate]
    | false =>
      simp only [enterWith, Bool.false_eq_true, if_false]; rw [raiseGo_rootExports]; simp [rootExports]

/-- One event changes the outermost module's exports only if it is a completed `export`
instruction of that module, and then by appending its key. In particular no failure — thrown
value, runtime error, timeout, failing import, failing nested entry — removes or adds anything. -/
theorem step_rootExports (ev : Ev) (st : St) :
    rootExports (step ev st) = rootExports st ∨
    ∃ k, ev = .exportVal k ∧ rootExports (step ev st) = rootExports st ++ [k] := by
  cases ev with
  | enter pre args c =>
    left
    show rootExports (enterChecked pre args c st) = _
    unfold enterChecked
    split
    · exact enterWith_rootExports true pre args c st
    · rw [raiseGo_rootExports]; rfl
  | enterOp pre args c =>
    left
    show rootExports (enterOpChecked pre args c st) = _
    unfold enterOpChecked
    split
    · exact enterWith_rootExports true pre args c st
    · rw [raiseGo_rootExports]; rfl
  | enterDirect pre ok =>
    left
    show rootExports (enterDirectChecked pre ok st) = _
    unfold enterDirectChecked
    split
    · cases ok with
      | true => simp [enterDirect, rootExports, truncate]
      | false =>
        simp only [enterDirect, Bool.false_eq_true, if_false]; rw [raiseGo_rootExports]
        simp [rootExports, truncate]
    · rw [raiseGo_rootExports]; rfl
  | nested a b =>
    left
    by_cases hfb : st.vm.regs - st.vm.base > 255
    · simp only [step, nested, hfb, if_true, raise]; rw [raiseGo_rootExports]; rfl
    · simp [step, nested, hfb, rootExports, levelExports, callKoto, pushFrame]
  | newFrame n =>
    left
    by_cases hin : inLoop st = true
    · cases hs : st.vm.stack <;> simp [step, hin, modTop, hs, rootExports]
    · simp [step, hin]
  | tryStart r ip =>
    left
    by_cases hin : inLoop st = true
    · cases hs : st.vm.stack <;> simp [step, hin, modTop, hs, rootExports]
    · simp [step, hin]
  | tryEnd =>
    left
    by_cases hin : inLoop st = true
    · cases hs : st.vm.stack <;> simp [step, hin, modTop, hs, rootExports]
    · simp [step, hin]
  | call fb a =>
    left
    by_cases hin : inLoop st = true
    · simp [step, hin, callKoto, pushFrame, rootExports]
    · simp [step, hin]
  | callNative fb =>
    left
    by_cases hin : inLoop st = true <;> simp [step, hin, rootExports, levelExports]
  | seqStart => left; by_cases hin : inLoop st = true <;> simp [step, hin, rootExports]
  | strStart => left; by_cases hin : inLoop st = true <;> simp [step, hin, rootExports]
  | seqEnd =>
    left
    by_cases hin : inLoop st = true
    · by_cases hz : st.vm.seq = 0
      · simp only [step, hin, if_true, hz, raise]; rw [raiseGo_rootExports]; rfl
      · simp [step, hin, hz, rootExports]
    · simp [step, hin]
  | strEnd =>
    left
    by_cases hin : inLoop st = true
    · by_cases hz : st.vm.str = 0
      · simp only [step, hin, if_true, hz, raise]; rw [raiseGo_rootExports]; rfl
      · simp [step, hin, hz, rootExports]
    · simp [step, hin]
  | raise c =>
    left
    by_cases hin : inLoop st = true
    · simp only [step, hin, if_true, raise]; rw [raiseGo_rootExports]; rfl
    · simp [step, hin]
  | opSetupFail n =>
    left
    by_cases hin : inLoop st = true
    · simp only [step, hin, if_true, raise]; rw [raiseGo_rootExports]; rfl
    · simp [step, hin]
  | exportVal k =>
    by_cases hin : inLoop st = true
    · by_cases hk : k ∈ st.vm.exports
      · left; simp [step, hin, hk, rootExports]
      · cases levelExports_snoc k st.conts st.vm.exports with
        | inl h => left; simp [step, hin, hk, rootExports, h]
        | inr h => right; exact ⟨k, rfl, by simp [step, hin, hk, rootExports, h]⟩
    · left; simp [step, hin]
  | importBegin m =>
    left
    by_cases hin : inLoop st = true
    · by_cases hm : m ∈ st.vm.placeholders
      · simp only [step, hin, if_true, hm, raise]; rw [raiseGo_rootExports]; rfl
      · by_cases hcd : m ∈ st.vm.cached <;> simp [step, hin, hm, hcd, rootExports, levelExports]
    · simp [step, hin]
  | ret =>
    left
    by_cases hin : inLoop st = true
    · simp only [step, hin, if_true]
      cases hs : st.vm.stack with
      | nil => simp
      | cons f rest =>
        cases hcs : st.conts with
        | nil => simp
        | cons k ks =>
          cases k with
          | native a b => simp
          | importing a b => simp
          | loop x =>
            have hp := popTo_fields f rest st.vm
            rcases hpt : popTo f rest st.vm with ⟨vm1, b⟩
            rw [hpt] at hp
            simp only [] at hp
            cases b with
            | false => simp [hpt, rootExports, hcs, hp]
            | true => cases x <;> simp [hpt, rootExports, levelExports, hcs, truncate, hp]
    · simp [step, hin]
  | nativeRet ok =>
    left
    by_cases hin : inLoop st = true
    · simp [step, hin]
    · simp only [step, hin, Bool.false_eq_true, if_false]
      cases hcs : st.conts with
      | nil => simp
      | cons k ks =>
        cases k with
        | loop x => simp
        | importing a b => simp
        | native fb host =>
          have hn : (nativeOk fb st.vm).exports = st.vm.exports := by
            cases hs : st.vm.stack <;> simp [nativeOk, hs, truncate]
          cases ok with
          | true => cases host <;> simp [rootExports, levelExports, hcs, truncate, hn]
          | false =>
            cases host with
            | none =>
              simp only [Bool.false_eq_true, if_false]; rw [raiseGo_rootExports]
              simp [rootExports, levelExports, hcs]
            | some rr =>
              simp only [Bool.false_eq_true, if_false]; rw [raiseGo_rootExports]
              cases hr2 : rr.2 <;> simp [rootExports, levelExports, hcs, truncate]
  | importEnd ok =>
    left
    by_cases hin : inLoop st = true
    · simp [step, hin]
    · simp only [step, hin, Bool.false_eq_true, if_false]
      cases hcs : st.conts with
      | nil => simp
      | cons k ks =>
        cases k with
        | loop x => simp
        | native a b => simp
        | importing m saved =>
          cases ok with
          | true => simp [rootExports, levelExports, hcs]
          | false =>
            simp only [Bool.false_eq_true, if_false]; rw [raiseGo_rootExports]
            simp [rootExports, levelExports, hcs]

/-- **exports_effects**. For every execution (any events, any failures, any nesting of imports and
re-entries): the outermost module's exports afterwards are its exports before, in the same order,
followed by keys of `export` instructions that occur in the execution — completed exports remain,
nothing is lost, nothing else appears. -/
theorem exports_effects : ∀ (evs : List Ev) (st : St),
    ∃ added, rootExports (run evs st) = rootExports st ++ added ∧
      ∀ k ∈ added, Ev.exportVal k ∈ evs := by
  intro evs
  induction evs with
  | nil => intro st; exact ⟨[], by simp [run], by simp⟩
  | cons ev rest ih =>
    intro st
    obtain ⟨added, h1, h2⟩ := ih (step ev st)
    have hrun : run (ev :: rest) st = run rest (step ev st) := by simp [run]
    rw [hrun, h1]
    cases step_rootExports ev st with
    | inl h => exact ⟨added, by rw [h], fun k hk => List.mem_cons_of_mem _ (h2 k hk)⟩
    | inr h =>
      obtain ⟨k, hev, hk⟩ := h
      refine ⟨k :: added, by rw [hk]; simp, ?_⟩
      intro k' hk'
      cases List.mem_cons.mp hk' with
      | inl h' => rw [h', hev]; exact List.mem_cons_self
      | inr h' => exact List.mem_cons_of_mem _ (h2 k' h')

/-- The same for a host entry bracket (`runUntil` stops at the entry's return). -/
theorem exports_effects_entry (d : Nat) : ∀ (evs : List Ev) (st : St),
    ∃ added, rootExports (runUntil d evs st) = rootExports st ++ added ∧
      ∀ k ∈ added, Ev.exportVal k ∈ evs := by
  intro evs
  induction evs with
  | nil => intro st; exact ⟨[], by simp [runUntil], by simp⟩
  | cons ev rest ih =>
    intro st
    simp only [runUntil]
    split
    · exact ⟨[], by simp, by simp⟩
    · obtain ⟨added, h1, h2⟩ := ih (step ev st)
      rw [h1]
      cases step_rootExports ev st with
      | inl h => exact ⟨added, by rw [h], fun k hk => List.mem_cons_of_mem _ (h2 k hk)⟩
      | inr h =>
        obtain ⟨k, hev, hk⟩ := h
        refine ⟨k :: added, by rw [hk]; simp, ?_⟩
        intro k' hk'
        cases List.mem_cons.mp hk' with
        | inl h' => rw [h', hev]; exact List.mem_cons_self
        | inr h' => exact List.mem_cons_of_mem _ (h2 k' h')

/-- Host-level reading: a `run` on an instance with no pending caller, whatever its outcome, ends
with `exports = exports before ++ (keys of export instructions of the execution)`. -/
theorem run_exports_effects (s : St) (evs : List Ev) (hconts : s.conts = [])
    (hex : Exited s (runEntry 0 0 (.koto 0) evs s)) :
    ∃ added, (runEntry 0 0 (.koto 0) evs s).vm.exports = s.vm.exports ++ added ∧
      ∀ k ∈ added, Ev.exportVal k ∈ evs := by
  obtain ⟨added, h1, h2⟩ := exports_effects_entry s.conts.length evs (enter 0 0 (.koto 0) s)
  have h0 : rootExports (enter 0 0 (.koto 0) s) = rootExports s := enterWith_rootExports true 0 0 _ s
  have hfin : (runEntry 0 0 (.koto 0) evs s).conts = [] := by
    have : (runEntry 0 0 (.koto 0) evs s).conts.length ≤ 0 := by
      simpa [Exited, hconts] using hex
    exact List.eq_nil_of_length_eq_zero (by omega)
  refine ⟨added, ?_, h2⟩
  have hl : rootExports (runEntry 0 0 (.koto 0) evs s) = (runEntry 0 0 (.koto 0) evs s).vm.exports := by
    simp [rootExports, hfin, levelExports]
  have hr : rootExports s = s.vm.exports := by simp [rootExports, hconts, levelExports]
  rw [← hl, ← hr, ← h0]
  exact h1

example : (runEntry 0 0 (.koto 0) [.newFrame 4, .exportVal 1, .exportVal 2, .call 2 0, .newFrame 1,
    .raise true, .exportVal 3] init).vm.exports = [1, 2] := by decide


/-! ## Generator VMs: an escaped error finishes the generator -/

theorem unwindGo_no_barrier (c : Bool) : ∀ (fs : List Frame) (vm : VM),
    vm.stack = fs → (∀ f ∈ fs, f.barrier = false) → (unwindGo c fs vm).2 = none →
    (unwindGo c fs vm).1.stack = [] := by
  intro fs
  induction fs with
  | nil => intro vm hs _ _; simpa [unwindGo] using hs
  | cons f rest ih =>
    intro vm hs hnb hnone
    have hb : f.barrier = false := hnb f (by simp)
    unfold unwindGo at hnone ⊢
    split at hnone
    · simp at hnone
    · split
      · rename_i heq _; simp_all
      · simp only [hb, Bool.false_eq_true, if_false] at hnone ⊢
        exact ih (popTo f rest vm).1 (popTo_fields f rest vm).1
          (fun g hg => hnb g (List.mem_cons_of_mem _ hg)) hnone

/-- **generator_escaped_error_finishes**: in a generator VM (no frame carries an execution
barrier) an error that is not caught inside the generator — thrown value, runtime error, failed
type check, timeout — pops *every* frame: the frame count is 0, `continue_running` will report the
end of the iteration, and no later resumption can continue past the failure point. (If the error is
caught inside the generator the loop simply continues: `conts` is unchanged.) -/
theorem generator_escaped_error_finishes (c : Bool) (vm : VM)
    (hnb : ∀ f ∈ vm.stack, f.barrier = false) :
    (raise c ⟨vm, [.loop .propagate]⟩).conts = [.loop .propagate] ∨
    ((raise c ⟨vm, [.loop .propagate]⟩).conts = [] ∧
     (raise c ⟨vm, [.loop .propagate]⟩).vm.stack = [] ∧
     genFinished (raise c ⟨vm, [.loop .propagate]⟩).vm = true) := by
  have hune : unwind c vm = unwindGo c vm.stack vm := rfl
  rcases hres : unwindGo c vm.stack vm with ⟨vm1, r⟩
  cases r with
  | some cr =>
    left
    simp [raise, raiseGo_loop_some .propagate [] c vm vm1 cr (by rw [hune, hres])]
  | none =>
    right
    have hstk : vm1.stack = [] := by
      have := unwindGo_no_barrier c vm.stack vm rfl hnb (by rw [hres])
      rw [hres] at this; exact this
    have hx : exitErr .propagate vm1 = vm1 := by simp [exitErr, popFrameD, popFrame, hstk]
    have hr : raise c ⟨vm, [.loop .propagate]⟩ = raiseGo [.loop .propagate] c vm := rfl
    cases raiseGo_loop_none .propagate [] c vm vm1 (by rw [hune, hres]) with
    | inl h =>
      have h2 : raiseGo [] true (exitErr .propagate vm1) = ⟨vm1, []⟩ := by simp [raiseGo, hx]
      rw [hr, h, h2]
      simp [hstk, genFinished]
    | inr h =>
      rw [hr, h, hx]
      simp [hstk, genFinished]

/-- A finished generator stays finished: a later resumption runs nothing, whatever events are
offered. -/
theorem generator_finished_stays (evs : List Ev) (vm : VM) (h : genFinished vm = true) :
    genResume evs vm = ⟨vm, []⟩ := by
  simp [genResume, h]

/-- Non-vacuity: `yield 1; throw …` on its second resumption, two calls deep, with a timeout
variant; afterwards any resumption leaves the VM untouched. -/
theorem generator_example :
    let vm1 := (genResume [.newFrame 3] (genInit 0)).vm                      -- runs to `yield 1`
    let st2 := genResume [.call 2 0, .newFrame 2, .raise true, .newFrame 9] vm1 -- fails
    let st2' := genResume [.call 2 0, .newFrame 2, .raise false] vm1          -- times out
    genFinished vm1 = false ∧ st2.conts = [] ∧ genFinished st2.vm = true ∧
    genFinished st2'.vm = true ∧ genResume [.newFrame 3, .ret] st2.vm = ⟨st2.vm, []⟩ := by
  decide


/-! ## The REPL's own state across failing entries (crates/cli/src/repl.rs) -/

open KotoVerif.Repl in
/-- **repl_entry_resets**: whenever a line is evaluated and its input compiles, the continuation
state afterwards is the initial one — whether the run succeeded or failed, and whatever was
buffered. So a failed entry leaves the REPL exactly where a successful one does: nothing of the
failed entry is kept, nothing is re-run later. -/
theorem repl_entry_resets (s : State) (l : Line) (heval : (s.lines.isEmpty || l.blank) = true)
    (hv : l.verdict = .runOk ∨ l.verdict = .runErr) :
    (onLine s l).lines = [] ∧ (onLine s l).indent = 0 ∧ (onLine s l).runs = s.runs + 1 := by
  cases hv with
  | inl h => simp [onLine, nextLines, runsInput, indentOf, heval, h]
  | inr h => simp [onLine, nextLines, runsInput, indentOf, heval, h]

open KotoVerif.Repl in
/-- a failed run and a successful run leave the same REPL state -/
theorem repl_failed_run_like_successful (s : State) (l : Line)
    (heval : (s.lines.isEmpty || l.blank) = true) :
    onLine s { l with verdict := .runErr } = onLine s { l with verdict := .runOk } := by
  simp [onLine, nextLines, runsInput, heval]

open KotoVerif.Repl in
/-- a blank line always ends the entry: whatever is buffered and whatever the verdict, the buffer is
empty afterwards -/
theorem repl_blank_line_resets (s : State) (l : Line) (hb : l.blank = true) (hne : s.lines ≠ []) :
    (onLine s l).lines = [] ∧ (onLine s l).indent = 0 := by
  have hl : s.lines.isEmpty = false := by cases h : s.lines <;> simp_all
  cases hv : l.verdict <;> simp [onLine, nextLines, indentOf, hb, hv, hl]

open KotoVerif.Repl in
theorem repl_onLine_congr (a b : State) (x : Line) (h : a.lines = b.lines) :
    (onLine a x).lines = (onLine b x).lines ∧ (onLine a x).indent = (onLine b x).indent := by
  simp [onLine, h]

open KotoVerif.Repl in
/-- **repl_history_independent**: after an entry that was evaluated with a compiling input (run ok
or failed), every following sequence of lines is processed exactly as in a fresh session (up to
the run counter): the probe entry `x + 41` is evaluated, not swallowed. -/
theorem repl_history_independent (s : State) (l : Line) (rest : List Line)
    (heval : (s.lines.isEmpty || l.blank) = true) (hv : l.verdict = .runOk ∨ l.verdict = .runErr) :
    (session rest (onLine s l)).lines = (session rest {}).lines ∧
    (session rest (onLine s l)).indent = (session rest {}).indent := by
  have h := repl_entry_resets s l heval hv
  generalize onLine s l = t at h
  obtain ⟨h1, h2, _⟩ := h
  have key : ∀ (rest : List Line) (a b : State), a.lines = b.lines → a.indent = b.indent →
      (session rest a).lines = (session rest b).lines ∧ (session rest a).indent = (session rest b).indent := by
    intro rest
    induction rest with
    | nil => intro a b h1 h2; exact ⟨h1, h2⟩
    | cons x xs ih =>
      intro a b h1 _
      simp only [session, List.foldl_cons]
      have hc := repl_onLine_congr a b x h1
      exact ih _ _ hc.1 hc.2
  exact key rest t {} (by simpa using h1) (by simpa using h2)

open KotoVerif.Repl in
/-- Non-vacuity and the seeded regression shape: `if x == 1` / `throw "boom"` / blank, then `x + 41`:
the multi-line entry fails at run time, the REPL is back at the main prompt, the probe is run as its
own input (2 runs in total). If the runtime-error arm skipped the reset (C07-mut8) the probe line
would be pushed onto the failed entry's lines. -/
theorem repl_example :
    let s := session [⟨false, 0, .indentErr, false⟩, ⟨false, 2, .runOk, false⟩, ⟨true, 2, .runErr, false⟩] {}
    atMainPrompt s = true ∧ s.indent = 0 ∧ s.runs = 1 ∧
    (onLine s ⟨false, 0, .runOk, false⟩).runs = 2 ∧
    atMainPrompt (session [⟨false, 0, .indentErr, false⟩] {}) = false := by decide


/-! ## F-C07-7 (repaired by fix 8f4d2e4): the catch point discards what a half-set-up operation left -/

/-- `m + 1` where `m`'s `@+` has the wrong arity, caught, three times in a row in the same frame
(`NewFrame 6`): every failing set-up leaves 2 registers above the frame, every catch resizes the
value stack to exactly `register_base + required_registers` again — the stack does not grow with the
number of iterations (before the fix: 6 + 2·k, and after ~118 iterations `new_frame_base` failed
with "Overflow of the current frame's register stack"). -/
theorem catch_discards_setup_leftovers :
    let s0 := run [.newFrame 6] (enterChecked 0 0 (.koto 0) init)
    let once := [Ev.tryStart 1 9, .opSetupFail 2, .tryEnd]
    let s1 := run once s0
    let s3 := run (once ++ once ++ once) s0
    s0.vm.regs = 6 ∧ (run [.tryStart 1 9, .opSetupFail 2] s0).vm.regs = 6 ∧ s1.vm = s0.vm ∧
    s3.vm = s0.vm := by decide

/-- in general: a caught error leaves exactly `min_frame_registers` registers -/
theorem caught_error_resizes_to_min_frame_registers (c : Bool) : ∀ (fs : List Frame) (vm : VM),
    vm.stack = fs → (∀ f rest, fs = f :: rest → vm.minRegs = f.base + f.required) →
    ∀ cr, (unwindGo c fs vm).2 = some cr →
    (unwindGo c fs vm).1.regs = topMin (unwindGo c fs vm).1.stack := by
  intro fs
  induction fs with
  | nil => intro vm _ _ cr h; simp [unwindGo] at h
  | cons f rest ih =>
    intro vm hs hmin cr h
    unfold unwindGo at h ⊢
    split
    · simp [hs, topMin, hmin f rest rfl]
    · rename_i hno
      split at h
      · exact (hno _ _ rfl (by assumption)).elim
      · by_cases hb : f.barrier = true
        · simp [hb] at h
        · have hb' : f.barrier = false := by simpa using hb
          simp only [hb', Bool.false_eq_true, if_false] at h ⊢
          have hp := popTo_fields f rest vm
          exact ih (popTo f rest vm).1 hp.1
            (fun g gs hg => by rw [hp.2.2.1, hg]; rfl) cr h

end KotoVerif.C07
