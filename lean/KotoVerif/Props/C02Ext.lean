/-
C02 — extension: generator consumers (`consumeFor` with `break`, `consumeAll` with `take`,
`consumeNexts`), fuel independence of `next`, and the generator environment.
All definitions talked about here are run by the driver (`gen` requests).
-/
import KotoVerif.Model.Gen
import KotoVerif.Lemmas.C02Gen
import KotoVerif.Model.Capture

namespace KotoVerif.C02Ext
open KotoVerif.Gen KotoVerif.C02

/-! ## environment laws -/

theorem lookup_update_same (x : Name) (v : Int64) (env : Env) : lookup x (update x v env) = v := by
  induction env with
  | nil => simp [update, lookup]
  | cons p r ih =>
    obtain ⟨y, w⟩ := p
    by_cases h : (x == y) = true <;> simp [update, lookup, h, ih]

theorem lookup_update_other (x y : Name) (v : Int64) (env : Env) (hne : y ≠ x) :
    lookup y (update x v env) = lookup y env := by
  induction env with
  | nil =>
    have : (y == x) = false := by simpa using hne
    simp [update, lookup, this]
  | cons p r ih =>
    obtain ⟨z, w⟩ := p
    by_cases h : (x == z) = true
    · have hxz : x = z := by simpa using h
      subst hxz
      have : (y == x) = false := by simpa using hne
      simp [update, lookup, this]
    · simp [update, lookup, h, ih]

example : lookup 2 (update 1 5 [(2, 7)]) = lookup 2 [(2, 7)] := by decide

/-! ## `next` does not depend on the fuel once it suffices -/

theorem next_fuel_mono_yielded (n j : Nat) (c : Cfg) (es : List Int64) (v : Int64) (c' : Cfg) (m : Nat)
    (h : next n c = .yielded es v c' m) : next (n + j) c = .yielded es v c' (m + j) := by
  induction n generalizing c es m with
  | zero => simp [next] at h
  | succ n ih =>
    rw [show n + 1 + j = (n + j) + 1 by omega]
    unfold next at h ⊢
    cases hs : step c with
    | none => simp [hs] at h
    | some p =>
      obtain ⟨ev, c1⟩ := p
      cases ev with
      | none =>
        simp only [hs] at h ⊢
        exact ih c1 es m h
      | some e =>
        cases e with
        | yield w =>
          simp only [hs, NextResult.yielded.injEq] at h ⊢
          obtain ⟨h1, h2, h3, h4⟩ := h
          exact ⟨h1, h2, h3, by omega⟩
        | emit w =>
          simp only [hs] at h ⊢
          cases hn : next n c1 with
          | yielded es1 v1 c2 m1 =>
            simp only [hn, NextResult.yielded.injEq] at h
            obtain ⟨h1, h2, h3, h4⟩ := h
            subst h1 h2 h3 h4
            rw [ih c1 es1 m1 hn]
          | finished es1 c2 => simp [hn] at h
          | outOfFuel es1 c2 => simp [hn] at h

theorem next_fuel_mono_finished (n j : Nat) (c : Cfg) (es : List Int64) (c' : Cfg)
    (h : next n c = .finished es c') : next (n + j) c = .finished es c' := by
  induction n generalizing c es with
  | zero => simp [next] at h
  | succ n ih =>
    rw [show n + 1 + j = (n + j) + 1 by omega]
    unfold next at h ⊢
    cases hs : step c with
    | none => simpa [hs] using h
    | some p =>
      obtain ⟨ev, c1⟩ := p
      cases ev with
      | none =>
        simp only [hs] at h ⊢
        exact ih c1 es h
      | some e =>
        cases e with
        | yield w => simp [hs] at h
        | emit w =>
          simp only [hs] at h ⊢
          cases hn : next n c1 with
          | yielded es1 v1 c2 m1 => simp [hn] at h
          | finished es1 c2 =>
            simp only [hn, NextResult.finished.injEq] at h
            obtain ⟨h1, h2⟩ := h
            subst h1 h2
            rw [ih c1 es1 hn]
          | outOfFuel es1 c2 => simp [hn] at h

example : next 3 (mkGen [.emit (.lit 4), .yield (.lit 1)] []) = .yielded [4] 1 ⟨[.seq []], []⟩ 1 := by
  rfl

example : next 4 (mkGen [.emit (.lit 4), .ret, .yield (.lit 1)] []) = .finished [4] ⟨[], []⟩ := by
  rfl

/-! ## projections of a consumer trace -/

/-- the values the consumer received -/
def cvals : List T → List Int64
  | [] => []
  | .c v :: r => v :: cvals r
  | _ :: r => cvals r

/-- everything except the consumer's values (generator emits, end and fuel markers) -/
def gpart : List T → List T
  | [] => []
  | .c _ :: r => gpart r
  | t :: r => t :: gpart r

theorem cvals_append (a b : List T) : cvals (a ++ b) = cvals a ++ cvals b := by
  induction a with
  | nil => rfl
  | cons t r ih => cases t <;> simp [cvals, ih]

theorem gpart_append (a b : List T) : gpart (a ++ b) = gpart a ++ gpart b := by
  induction a with
  | nil => rfl
  | cons t r ih => cases t <;> simp [gpart, ih]

theorem cvals_g (es : List Int64) : cvals (es.map T.g) = [] := by
  induction es with
  | nil => rfl
  | cons e r ih => simp [cvals, ih]

theorem gpart_g (es : List Int64) : gpart (es.map T.g) = es.map T.g := by
  induction es with
  | nil => rfl
  | cons e r ih => simp [gpart, ih]

/-! ## `for … break` / `take k`: laziness -/

/-- **consumer independence.** A `for` loop (with or without `break` after `limit` values) and
`to_tuple` / `take(limit).to_tuple()` drive the generator identically: the same values arrive, and
the generator's own output is the same. -/
theorem consumeFor_consumeAll (n : Nat) (limit : Option Nat) (c : Cfg) :
    cvals (consumeFor n limit c) = (consumeAll n limit c).2
      ∧ gpart (consumeFor n limit c) = (consumeAll n limit c).1 := by
  induction n generalizing limit c with
  | zero => simp [consumeFor, consumeAll, cvals, gpart]
  | succ n ih =>
    cases limit with
    | none =>
      simp only [consumeFor, consumeAll, Option.map_none]
      cases hn : next (n + 1) c with
      | yielded es v c' m =>
        obtain ⟨i1, i2⟩ := ih none c'
        simp [cvals_append, gpart_append, cvals_g, gpart_g, cvals, gpart, i1, i2]
      | finished es c' => simp [cvals_g, gpart_g]
      | outOfFuel es c' => simp [cvals_append, gpart_append, cvals_g, gpart_g, cvals, gpart]
    | some k =>
      cases k with
      | zero => simp [consumeFor, consumeAll, cvals, gpart]
      | succ k =>
        simp only [consumeFor, consumeAll, Option.map_some, Nat.add_sub_cancel]
        cases hn : next (n + 1) c with
        | yielded es v c' m =>
          obtain ⟨i1, i2⟩ := ih (some k) c'
          simp [cvals_append, gpart_append, cvals_g, gpart_g, cvals, gpart, i1, i2]
        | finished es c' => simp [cvals_g, gpart_g]
        | outOfFuel es c' => simp [cvals_append, gpart_append, cvals_g, gpart_g, cvals, gpart]

/-- **laziness of `break`.** Leaving the loop after `k` values gives a prefix of the trace of the
full loop: nothing of the generator's body beyond the k-th `yield` has run. -/
theorem consumeFor_limit_prefix (n k : Nat) (c : Cfg) :
    consumeFor n (some k) c <+: consumeFor n none c := by
  induction n generalizing k c with
  | zero => simp [consumeFor]
  | succ n ih =>
    cases k with
    | zero => simp [consumeFor]
    | succ k =>
      simp only [consumeFor, Option.map_some, Option.map_none, Nat.add_sub_cancel]
      cases hn : next (n + 1) c with
      | yielded es v c' m =>
        simp only []
        exact (List.prefix_append_right_inj _).mpr (ih k c')
      | finished es c' => exact List.prefix_refl _
      | outOfFuel es c' => exact List.prefix_refl _

/-- `take k` never hands out more than `k` values -/
theorem consumeAll_limit_length (n k : Nat) (c : Cfg) : (consumeAll n (some k) c).2.length ≤ k := by
  induction n generalizing k c with
  | zero => simp [consumeAll]
  | succ n ih =>
    cases k with
    | zero => simp [consumeAll]
    | succ k =>
      simp only [consumeAll, Option.map_some, Nat.add_sub_cancel]
      cases hn : next (n + 1) c with
      | yielded es v c' m =>
        have := ih k c'
        simp only [List.length_cons]
        omega
      | finished es c' => simp
      | outOfFuel es c' => simp

/-- `take k` hands out a prefix of what `to_tuple` collects, and the generator's own output is a
prefix too -/
theorem consumeAll_limit_prefix (n k : Nat) (c : Cfg) :
    (consumeAll n (some k) c).2 <+: (consumeAll n none c).2 := by
  induction n generalizing k c with
  | zero => simp [consumeAll]
  | succ n ih =>
    cases k with
    | zero => simp [consumeAll]
    | succ k =>
      simp only [consumeAll, Option.map_some, Option.map_none, Nat.add_sub_cancel]
      cases hn : next (n + 1) c with
      | yielded es v c' m =>
        simp only []
        exact (List.prefix_cons_inj v).mpr (ih k c')
      | finished es c' => exact List.prefix_refl _
      | outOfFuel es c' => exact List.prefix_refl _

/-- `collect` is the value part of `to_tuple` -/
theorem collect_eq_consumeAll (n : Nat) (c : Cfg) : collect n c = (consumeAll n none c).2 := by
  induction n generalizing c with
  | zero => simp [collect, consumeAll]
  | succ n ih =>
    simp only [collect, consumeAll, Option.map_none]
    cases hn : next (n + 1) c with
    | yielded es v c' m => simp [ih]
    | finished es c' => simp
    | outOfFuel es c' => simp

/-- **fuel independence of the `for` consumer.** Once the fuel suffices (no fuel marker in the
trace), any larger fuel gives the same trace: the model's answer is not an artefact of the bound. -/
theorem consumeFor_fuel_mono (n j : Nat) (limit : Option Nat) (c : Cfg)
    (h : T.fuel ∉ consumeFor n limit c) : consumeFor (n + j) limit c = consumeFor n limit c := by
  induction n generalizing limit c with
  | zero => simp [consumeFor] at h
  | succ n ih =>
    rw [show n + 1 + j = (n + j) + 1 by omega]
    cases limit with
    | none =>
      simp only [consumeFor, Option.map_none] at h ⊢
      cases hn : next (n + 1) c with
      | yielded es v c' m =>
        have hj := next_fuel_mono_yielded (n + 1) j c es v c' m hn
        rw [show n + 1 + j = (n + j) + 1 by omega] at hj
        simp only [hn] at h
        simp only [hj]
        rw [ih none c' (by intro hm; apply h; simp [hm])]
      | finished es c' =>
        have hj := next_fuel_mono_finished (n + 1) j c es c' hn
        rw [show n + 1 + j = (n + j) + 1 by omega] at hj
        simp only [hj]
      | outOfFuel es c' => simp [hn] at h
    | some k =>
      cases k with
      | zero => simp [consumeFor]
      | succ k =>
        simp only [consumeFor, Option.map_some, Nat.add_sub_cancel] at h ⊢
        cases hn : next (n + 1) c with
        | yielded es v c' m =>
          have hj := next_fuel_mono_yielded (n + 1) j c es v c' m hn
          rw [show n + 1 + j = (n + j) + 1 by omega] at hj
          simp only [hn] at h
          simp only [hj]
          rw [ih (some k) c' (by intro hm; apply h; simp [hm])]
        | finished es c' =>
          have hj := next_fuel_mono_finished (n + 1) j c es c' hn
          rw [show n + 1 + j = (n + j) + 1 by omega] at hj
          simp only [hj]
        | outOfFuel es c' => simp [hn] at h

example : T.fuel ∉ consumeFor 50 (some 2)
    (mkGen [.forRange 1 (.lit 0) (.lit 1000) [.yield (.var 1), .emit (.var 1)]] []) := by decide

/-- same for `to_tuple` / `take k` -/
theorem consumeAll_fuel_mono (n j : Nat) (limit : Option Nat) (c : Cfg)
    (h : T.fuel ∉ (consumeAll n limit c).1) : consumeAll (n + j) limit c = consumeAll n limit c := by
  induction n generalizing limit c with
  | zero => simp [consumeAll] at h
  | succ n ih =>
    rw [show n + 1 + j = (n + j) + 1 by omega]
    cases limit with
    | none =>
      simp only [consumeAll, Option.map_none] at h ⊢
      cases hn : next (n + 1) c with
      | yielded es v c' m =>
        have hj := next_fuel_mono_yielded (n + 1) j c es v c' m hn
        rw [show n + 1 + j = (n + j) + 1 by omega] at hj
        simp only [hn] at h
        simp only [hj]
        rw [ih none c' (by intro hm; apply h; simp [hm])]
      | finished es c' =>
        have hj := next_fuel_mono_finished (n + 1) j c es c' hn
        rw [show n + 1 + j = (n + j) + 1 by omega] at hj
        simp only [hj]
      | outOfFuel es c' => simp [hn] at h
    | some k =>
      cases k with
      | zero => simp [consumeAll]
      | succ k =>
        simp only [consumeAll, Option.map_some, Nat.add_sub_cancel] at h ⊢
        cases hn : next (n + 1) c with
        | yielded es v c' m =>
          have hj := next_fuel_mono_yielded (n + 1) j c es v c' m hn
          rw [show n + 1 + j = (n + j) + 1 by omega] at hj
          simp only [hn] at h
          simp only [hj]
          rw [ih (some k) c' (by intro hm; apply h; simp [hm])]
        | finished es c' =>
          have hj := next_fuel_mono_finished (n + 1) j c es c' hn
          rw [show n + 1 + j = (n + j) + 1 by omega] at hj
          simp only [hj]
        | outOfFuel es c' => simp [hn] at h

example : T.fuel ∉ (consumeAll 50 (some 2)
    (mkGen [.forRange 1 (.lit 0) (.lit 1000) [.yield (.var 1), .emit (.var 1)]] [])).1 := by decide

/-! ## explicit `.next()` calls -/

/-- results of `.next()` calls: a value or the end marker -/
def results : List T → Nat
  | [] => 0
  | .c _ :: r => results r + 1
  | .fin :: r => results r + 1
  | _ :: r => results r

theorem results_append (a b : List T) : results (a ++ b) = results a + results b := by
  induction a with
  | nil => simp [results]
  | cons t r ih => cases t <;> simp [results, ih] <;> omega

theorem results_g (es : List Int64) : results (es.map T.g) = 0 := by
  induction es with
  | nil => rfl
  | cons e r ih => simp [results, ih]

/-- every one of the `k` calls of `.next()` produces exactly one result (value or end) -/
theorem consumeNexts_results (fuel k : Nat) (c : Cfg) (h : T.fuel ∉ consumeNexts fuel k c) :
    results (consumeNexts fuel k c) = k := by
  induction k generalizing fuel c with
  | zero => simp [consumeNexts, results]
  | succ k ih =>
    simp only [consumeNexts] at h ⊢
    cases hn : next fuel c with
    | yielded es v c' m =>
      simp only [hn] at h ⊢
      have := ih m c' (by intro hm; apply h; simp [hm])
      simp [results_append, results_g, results, this]
    | finished es c' =>
      simp only [hn] at h ⊢
      have := ih fuel c' (by intro hm; apply h; simp [hm])
      simp [results_append, results_g, results, this]
    | outOfFuel es c' => simp [hn] at h

/-- **after the end, the end again.** On a generator whose body has returned, every further
`.next()` reports the end and nothing else happens. -/
theorem consumeNexts_halted (fuel k : Nat) (c : Cfg) (h : Halted c) :
    consumeNexts (fuel + 1) k c = List.replicate k T.fin := by
  induction k with
  | zero => simp [consumeNexts]
  | succ k ih =>
    simp only [consumeNexts, next_after_end fuel c h, List.map_nil, List.nil_append, ih]
    simp [List.replicate_succ]

example : Halted (run 5 (mkGen [.yield (.lit 1)] [])).2 := by
  show step _ = none
  rfl

/-- drop the end markers -/
def dropFin : List T → List T
  | [] => []
  | .fin :: r => dropFin r
  | t :: r => t :: dropFin r

theorem dropFin_append (a b : List T) : dropFin (a ++ b) = dropFin a ++ dropFin b := by
  induction a with
  | nil => rfl
  | cons t r ih => cases t <;> simp [dropFin, ih]

theorem dropFin_g (es : List Int64) : dropFin (es.map T.g) = es.map T.g := by
  induction es with
  | nil => rfl
  | cons e r ih => simp [dropFin, ih]

/-- **explicit `.next()` calls resume exactly where the generator paused.** Apart from the end
markers, the trace of `k` calls is the interleaving of a straight run of the body (some number of
machine steps), whatever fuel was left over between the calls. -/
theorem consumeNexts_interleave (fuel k : Nat) (c : Cfg) (h : T.fuel ∉ consumeNexts fuel k c) :
    ∃ j, dropFin (consumeNexts fuel k c) = interleave (run j c).1 := by
  induction k generalizing fuel c with
  | zero => exact ⟨0, by simp [consumeNexts, dropFin, run, interleave]⟩
  | succ k ih =>
    simp only [consumeNexts] at h ⊢
    cases hn : next fuel c with
    | yielded es v c' m =>
      simp only [hn] at h ⊢
      obtain ⟨j2, hj2⟩ := ih m c' (by intro hm; apply h; simp [hm])
      obtain ⟨j1, hj1⟩ := next_yielded _ _ _ _ _ _ hn
      refine ⟨j1 + j2, ?_⟩
      rw [run_add, hj1]
      simp [dropFin_append, dropFin_g, dropFin, interleave_append, interleave_emits, interleave, hj2]
    | finished es c' =>
      simp only [hn] at h ⊢
      obtain ⟨j2, hj2⟩ := ih fuel c' (by intro hm; apply h; simp [hm])
      obtain ⟨j1, hj1, hh⟩ := next_finished _ _ _ _ hn
      refine ⟨j1 + j2, ?_⟩
      rw [run_add, hj1]
      simp [dropFin_append, dropFin_g, dropFin, interleave_append, interleave_emits, hj2]
    | outOfFuel es c' => simp [hn] at h

example : T.fuel ∉ consumeNexts 100 4 (mkGen [.emit (.lit 5), .yield (.lit 1), .yield (.lit 2)] []) := by
  decide

/-! ## sharing histories (`share` requests: `srun`) -/

section Share
open KotoVerif.Capture

theorem heapPush_length (h : Heap) (a : Nat) (n : Int) : (heapPush h a n).length = h.length := by
  unfold heapPush
  split <;> simp

theorem runBody_heap_length (b : List BOp) (env : SEnv) (h : Heap) (out : List Ev) :
    (runBody b env h out).1.length = h.length := by
  fun_induction runBody b env h out <;> simp_all [heapPush_length]

theorem runBody_out_prefix (b : List BOp) (env : SEnv) (h : Heap) (out : List Ev) :
    out <+: (runBody b env h out).2.1 := by
  fun_induction runBody b env h out
  all_goals first
    | exact List.prefix_refl _
    | exact List.prefix_append _ _
    | exact List.IsPrefix.trans (List.prefix_append _ _) (by assumption)
    | assumption

/-- a failed script stays where it is: nothing after the first runtime error is executed -/
theorem srun_failed (ops : List SOp) (s : SState) (h : s.failed = true) : srun ops s = s := by
  induction ops with
  | nil => rfl
  | cons op r ih =>
    have : sstep s op = s := by simp [sstep, h]
    simpa [srun, List.foldl_cons, this] using ih

theorem srun_append (a b : List SOp) (s : SState) : srun (a ++ b) s = srun b (srun a s) := by
  simp [srun, List.foldl_append]

/-- one step: a call of a closure (or any other operation) never removes a list from the heap, so
every reference held by a variable or a capture stays valid -/
theorem sstep_heap_length (s : SState) (op : SOp) : s.heap.length ≤ (sstep s op).heap.length := by
  unfold sstep
  split
  · exact Nat.le_refl _
  · repeat' split
    all_goals try simp_all [heapPush_length]
    all_goals repeat' split
    all_goals try simp_all [runBody_heap_length]
    all_goals repeat' split
    all_goals try simp_all
    all_goals (rename_i heq; obtain ⟨_, _, _, hh, _⟩ := heq; simp [← hh])

/-- **heap monotone over every history.** -/
theorem srun_heap_length (ops : List SOp) (s : SState) : s.heap.length ≤ (srun ops s).heap.length := by
  induction ops generalizing s with
  | nil => exact Nat.le_refl _
  | cons op r ih =>
    have h1 := sstep_heap_length s op
    have h2 := ih (sstep s op)
    simp only [srun, List.foldl_cons] at h2 ⊢
    omega

/-- the output trace is append-only under every operation -/
theorem sstep_out_prefix (s : SState) (op : SOp) : s.out <+: (sstep s op).out := by
  unfold sstep
  split
  · exact List.prefix_refl _
  · repeat' split
    all_goals try simp_all
    all_goals repeat' split
    all_goals try simp_all [runBody_out_prefix]
    all_goals repeat' split
    all_goals try simp_all

/-- **output append-only over every history**: what a script has printed is never retracted,
whatever closures are created and called afterwards. -/
theorem srun_out_prefix (ops : List SOp) (s : SState) : s.out <+: (srun ops s).out := by
  induction ops generalizing s with
  | nil => exact List.prefix_refl _
  | cons op r ih =>
    have h2 := ih (sstep s op)
    simp only [srun, List.foldl_cons] at h2 ⊢
    exact List.IsPrefix.trans (sstep_out_prefix s op) h2

/-- **calls do not leak into the caller's scope.** Whatever the body of the called closure assigns
(`x = n`, `x = x + n` on its captured copies or its parameter), the caller's variables and the
table of functions are unchanged by a call; only the heap and the output can change. -/
theorem call_keeps_scope (s : SState) (f : Capture.Name) (arg : Option Capture.Name) :
    (sstep s (.call f arg)).env = s.env ∧ (sstep s (.call f arg)).fns = s.fns := by
  unfold sstep
  split
  · exact ⟨rfl, rfl⟩
  · repeat' split
    all_goals try simp_all
    all_goals repeat' split
    all_goals try simp_all

example : (srun [.setInt 1 1, .emit 9] {}).failed = true := by decide

end Share

end KotoVerif.C02Ext
