/-
Model of the source map of a compiled chunk and of the compiler's span stack.

* `crates/bytecode/src/chunk.rs`  `DebugInfo::{push, get_source_span}`:
  `source_map : Vec<(u32, Span)>`; `push` appends unless the *last* entry carries an equal span;
  `get_source_span` scans from the front, remembers the span of every entry with `ip <= query` and
  stops at the first entry with `ip > query`.
* `crates/bytecode/src/compiler.rs` `push_span / pop_span / span()`, `push_op` (records
  `(bytes.len(), span())` and then emits) vs `push_op_without_span` (emits only), and the bracket
  `push_span … pop_span` that `compile_node` puts around everything it emits for one AST node.

The compile model is deliberately abstract (a tree of nodes that emit ops and compile children): it
captures the *mechanism* the property is anchored in, not the 5000 lines of `compile_*` functions;
those are tied behaviourally by the planted-fault correspondence of `harness/src/bin/c12.rs`.
-/
namespace KotoVerif.SrcMap

structure Pos where
  line : Nat
  col : Nat
  deriving Repr, DecidableEq, Inhabited

structure Span where
  start : Pos
  stop : Pos
  deriving Repr, DecidableEq, Inhabited

/-- one `source_map` entry: `(ip, span)` -/
abbrev Entry := Nat × Span

/-- `DebugInfo::push`: no-op when the last entry has an equal span, else append. -/
def push (m : List Entry) (ip : Nat) (sp : Span) : List Entry :=
  match m.getLast? with
  | some e => if e.2 = sp then m else m ++ [(ip, sp)]
  | none => m ++ [(ip, sp)]

/-- the source map after a sequence of `push` calls (in call order) -/
def pushAll (es : List Entry) : List Entry :=
  es.foldl (fun m e => push m e.1 e.2) []

/-- the scan of `get_source_span`: `r` is the local `result`; stops at the first entry with
`ip > query` (the `break`). -/
def lookupGo : List Entry → Nat → Option Span → Option Span
  | [], _, r => r
  | (i, s) :: rest, q, r => if i ≤ q then lookupGo rest q (some s) else r

/-- `DebugInfo::get_source_span` -/
def lookup (m : List Entry) (q : Nat) : Option Span := lookupGo m q none

/-- Recursion-friendly description of what `pushAll` keeps: drop an entry iff its span equals the
span of the entry kept last (`last`). `pushAll_eq_compress` ties it to the code-shaped `push`. -/
def compressFrom (last : Option Span) : List Entry → List Entry
  | [] => []
  | (i, s) :: rest =>
    if last = some s then compressFrom last rest else (i, s) :: compressFrom (some s) rest

def compress (es : List Entry) : List Entry := compressFrom none es

/-! ### The span stack during code generation -/

/-- What one `compile_*` routine does, abstractly: a sequence of steps, each either emitting an
instruction (`op n` = `push_op` of an instruction `n` bytes long, `opNoSpan n` =
`push_op_without_span`) or compiling a child node (`node sp body`: `push_span sp`, the child's own
steps, `pop_span`). First-child / next-sibling encoding, so recursion is structural. -/
inductive Steps where
  | done
  | op (size : Nat) (rest : Steps)
  | opNoSpan (size : Nat) (rest : Steps)
  | node (sp : Span) (body : Steps) (rest : Steps)
  deriving Repr, Inhabited

/-- compiler state: emitted byte count, span stack (top first), the `push` calls made on the
debug info (in order), and the start ip of every emitted instruction with the span it was emitted
under (`none` for `push_op_without_span`). -/
structure CState where
  ip : Nat := 0
  stack : List Span := []
  entries : List Entry := []
  instrs : List (Nat × Option Span) := []
  deriving Repr, Inhabited

/-- `span()` = top of the span stack (the real code panics on an empty stack; the model keeps the
option and records nothing, `compile_node` always pushes before anything is emitted). -/
def CState.span (s : CState) : Option Span := s.stack.head?

def compile : Steps → CState → CState
  | .done, s => s
  | .op n rest, s =>
    let s' : CState := match s.span with
      | some sp => { s with ip := s.ip + n, entries := s.entries ++ [(s.ip, sp)],
                            instrs := s.instrs ++ [(s.ip, some sp)] }
      | none => { s with ip := s.ip + n, instrs := s.instrs ++ [(s.ip, none)] }
    compile rest s'
  | .opNoSpan n rest, s =>
    compile rest { s with ip := s.ip + n, instrs := s.instrs ++ [(s.ip, none)] }
  | .node sp body rest, s =>
    let s1 := { s with stack := sp :: s.stack }          -- push_span
    let s2 := compile body s1
    let s3 := { s2 with stack := s2.stack.tail }          -- pop_span
    compile rest s3

/-- Lexically scoped reference: the `(ip, span)` each spanned instruction *should* get — the span of
the innermost enclosing node `cur`, no stack involved. Returns the annotations and the next ip. -/
def annot : Steps → Span → Nat → List Entry × Nat
  | .done, _, ip => ([], ip)
  | .op n rest, cur, ip =>
    let (r, ip') := annot rest cur (ip + n)
    ((ip, cur) :: r, ip')
  | .opNoSpan n rest, cur, ip => annot rest cur (ip + n)
  | .node sp body rest, cur, ip =>
    let (a, ip1) := annot body sp ip
    let (b, ip2) := annot rest cur ip1
    (a ++ b, ip2)

/-- every instruction is at least one byte long (the opcode) -/
def Steps.sizesPos : Steps → Bool
  | .done => true
  | .op n rest => decide (0 < n) && rest.sizesPos
  | .opNoSpan n rest => decide (0 < n) && rest.sizesPos
  | .node _ body rest => body.sizesPos && rest.sizesPos

/-- The chunk's debug info after compiling `t` as the body of a root node with span `root`. -/
def debugInfoOf (root : Span) (t : Steps) : List Entry :=
  pushAll (compile t { stack := [root] }).entries

/-- `run_debug_instruction`'s prefix: `[line+1] ` from the span found for the instruction
(`none` = `#ERR`); the path variants are not modelled (scripts are compiled without a path). -/
def debugPrefixLine (m : List Entry) (ip : Nat) : Option Nat :=
  (lookup m ip).map (fun sp => sp.start.line + 1)

end KotoVerif.SrcMap
