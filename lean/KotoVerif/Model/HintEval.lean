/-
C16 — a small, self-contained evaluator for programs with type hints at every position.

What is mirrored (crates/bytecode/src/compiler.rs, crates/runtime/src/vm.rs):

* `compile_assert_type` (emits `AssertType`/`AssertOptionalType` only when
  `settings.enable_type_checks`) at: `let x: T = e` / `let _: T = e` (`compile_assign`: the value is
  written to the variable first, then asserted), `for` arguments (`compile_for`: bound, then asserted,
  on every iteration; with several arguments the item is unpacked), function arguments
  (`compile_frame`/`compile_arg`: at the start of the callee's code — for a generator that is the
  first resumption, not the call), return values (`compile_return` and the implicit return in
  `compile_frame`, both skipped in generators), `yield` (`compile_yield`).
  All of these go through the single helper `assertHint`, the only place that looks at `checks`.
* `compile_check_type` (always emitted) in `match` arms (`x: T` checks the value in a temporary,
  jumps to the next alternative/arm on mismatch and assigns `x` only on success) and typed `catch` blocks (checks the caught value
  first, binds only on success). Selection (`selectArm`, `selectCatch`) does not take `checks`.
* `run_assert_type` raises `unexpected_type("T" or "T?", value)`; a caught runtime error arrives in
  the catch block as its message string.

The evaluator is big-step with fuel; control signals `ok | ret | err | stuck`. `stuck` marks what the
model does not describe (other runtime errors, fuel exhaustion): the harness never generates it on
purpose and does not compare such cases. Functions live in a table, have no captures; a generator
body is a straight-line list of `yield e` / `e` statements, resumed statement by statement, so the
interleaving of generator and consumer effects is exact.

Targets come in every form the language has: a named id `x`, the wildcard `_` and a named wildcard
`_x` (both `none` here: they bind nothing, but a hinted wildcard is still asserted/checked and — in a
multi-assignment from an iterable or in a `for` — still *consumes* its value). Multi-assignment has
both right-hand-side forms (`a, b = e1, e2` and `a, b = iterable`); function arguments and `match`
patterns can be nested tuples; `match` arms have `or` alternatives, several subjects and `if` guards.

`St.fails` is a ghost counter of failed assertions (nothing reads it): "the program's checks pass"
is `fails` unchanged.
-/
import KotoVerif.Model.Types

namespace KotoVerif.HintEval
open KotoVerif.Types

structure Hint where
  name : TyName
  opt : Bool            -- `T?`
  deriving DecidableEq, Repr, Inhabited

abbrev Var := Nat

/-- patterns of function arguments and `match` arms -/
inductive P where
  | b (x : Option Var) (h : Option Hint)   -- `x`, `x: T`, `_`, `_: T`, `_x: T`
  | lit (n : Int)                          -- integer literal (match only)
  | tup (ps : List P)                      -- nested `(p, q, …)`
  deriving Repr, Inhabited

abbrev Binder := Option Var × Option Hint   -- `x`, `x: T`, `_`, `_: T`

mutual
inductive Expr where
  | lit (v : V)
  | var (x : Var)
  | add (a b : Expr)
  | lt (a b : Expr)
  | typeOf (e : Expr)                                  -- `koto.type e`
  | letH (x : Option Var) (h : Option Hint) (e : Expr) -- `let x: T = e`, `x = e`, `let _: T = e`
  | letTemps (bs : List Binder) (es : List Expr)       -- `let a: T, _: U, c = e1, e2, e3`
  | letUnpack (bs : List Binder) (e : Expr)            -- `let a: T, _: U, c = iterable`
  | seq (a b : Expr)
  | emit (e : Expr)                                    -- `print (repr e)`
  | ite (c t e : Expr)
  | forIn (bs : List Binder) (it body : Expr)          -- `for x: T, y: U in it`
  | call (f : Expr) (args : List Expr)
  | ret (e : Expr)
  | throw (e : Expr)
  | tryC (body : Expr) (typed : List CatchArm) (x : Option Var) (final : Expr)
  | matchE (scruts : List Expr) (arms : List Arm)      -- `match a, b`
inductive Arm where
  /-- alternatives (`or`), each a list of patterns (one per subject); no alternative = `else` -/
  | mk (alts : List (List P)) (guard : Option Expr) (body : Expr)
inductive CatchArm where
  | mk (x : Option Var) (h : Hint) (body : Expr)       -- `catch x: T`
end

instance : Inhabited Expr := ⟨.lit .null⟩

/-- statements of a generator body -/
inductive GStmt where
  | yld (e : Expr)
  | exec (e : Expr)

inductive Body where
  | plain (e : Expr)
  | gen (ss : List GStmt)

structure FunDef where
  params : List P
  out : Option Hint                 -- `-> T`
  body : Body

abbrev Funs := List FunDef

structure Prog where
  funs : Funs
  main : Expr

structure St where
  env : List (Var × V) := []        -- locals of the current frame (latest binding first)
  out : Option Hint := none         -- output hint of the current frame (`none` in generators: `return` is unchecked there)
  trace : List V := []              -- emitted values, latest first
  fails : Nat := 0                  -- ghost: number of failed assertions so far

inductive Err where
  | thrown (v : V)
  | type (h : Hint) (found : TyName)     -- `unexpected_type`

inductive Res where
  | ok (v : V)
  | ret (v : V)         -- `return` travelling to the enclosing call
  | err (e : Err)
  | stuck (code : Nat)  -- outside the model

def lookupVar : List (Var × V) → Var → Option V
  | [], _ => none
  | (y, v) :: rest, x => if x = y then some v else lookupVar rest x

def St.set (s : St) (x : Var) (v : V) : St := { s with env := (x, v) :: s.env }

def St.setOpt (s : St) (x : Option Var) (v : V) : St :=
  match x with
  | some x => s.set x v
  | none => s

/-- "expected T, found U" / "expected T?, found U" (`run_assert_type` → `ErrorKind::UnexpectedType`) -/
def typeErrMsg (h : Hint) (found : TyName) : List Nat :=
  [101, 120, 112, 101, 99, 116, 101, 100, 32] ++ h.name ++ (if h.opt then [63] else [])
    ++ [44, 32, 102, 111, 117, 110, 100, 32] ++ found

/-- what a `catch` block receives -/
def catchVal : Err → V
  | .thrown v => v
  | .type h found => .str (typeErrMsg h found)

def truthy : V → Bool
  | .null => false
  | .bool false => false
  | _ => true

/-- name of map key `n`: `k<n>` -/
def keyName (n : Nat) : List Nat := 107 :: (Nat.toDigits 10 n).map Char.toNat

/-- entries of a map as the pairs an iteration produces: tuples `(key, value)` -/
def entryPairs (es : List (Nat × V)) : List V := es.map fun e => V.tuple [.str (keyName e.1), e.2]

/-- the elements a `for` loop (or an unpacking) sees; `none`: not described by the model.
Maps produce their entries as `(key, value)` **tuples** — whatever form the loop's arguments have,
the value a hint sees is a `Tuple`, never the runtime's internal `TemporaryTuple`. A map with a
metamap iterates its entries too unless it overrides iteration (`@iterator`/`@next`: not modelled). -/
def items : V → Option (List V)
  | .list xs => some xs
  | .tuple xs => some xs
  | .iter xs => some xs
  | .range a b => some ((List.range (b - a).toNat).map (fun (i : Nat) => V.int (a + (i : Int))))
  | .str cs => some (cs.map (fun c => V.str [c]))
  | .map es => some (entryPairs es)
  | .obj _ fl es _ => if fl.iter || fl.next then none else some (entryPairs es)
  | _ => none

/-- sequencing on every result -/
def bindR {α β : Type} (x : α × St) (k : α → St → β × St) : β × St := k x.1 x.2

/-- sequencing on `ok` -/
def andThen (x : Res × St) (k : V → St → Res × St) : Res × St :=
  match x.1 with
  | .ok v => k v x.2
  | r => (r, x.2)

/-- leave a frame: locals and output hint of the caller come back -/
def restore (s0 : St) (x : Res × St) : Res × St := (x.1, { x.2 with env := s0.env, out := s0.out })

/-- **The only place that looks at `checks`.** `AssertType`: raise unless `compare_value_type`. -/
def assertHint (checks : Bool) (h : Option Hint) (v : V) (s : St) : Res × St :=
  match h with
  | none => (.ok .null, s)
  | some h =>
    if checks && !(check h.name h.opt v) then
      (.err (.type h (typeName v)), { s with fails := s.fails + 1 })
    else (.ok .null, s)

/-- end of a call: the implicit return value is asserted against the output hint; a value that
arrives by `return` was asserted there -/
def finishCall (checks : Bool) (out : Option Hint) (r : Res) (s : St) : Res × St :=
  match r with
  | .ok v => andThen (assertHint checks out v s) fun _ s1 => (.ok v, s1)
  | .ret v => (.ok v, s)
  | r => (r, s)

/-- bind one `for`/function argument, then assert its hint -/
def bindOne (checks : Bool) (b : Binder) (v : V) (s : St) : Res × St :=
  assertHint checks b.2 v (s.setOpt b.1 v)

/-- several arguments in order; missing values are null (`IterUnpack` on an exhausted iterator) -/
def bindMany (checks : Bool) : List Binder → List V → St → Res × St
  | [], _, s => (.ok .null, s)
  | b :: bs, vs, s => andThen (bindOne checks b (vs.headD .null) s) fun _ s1 => bindMany checks bs vs.tail s1

/-- arguments of one `for` iteration: a single argument takes the item, several unpack it -/
def bindLoop (checks : Bool) (bs : List Binder) (item : V) (s : St) : Res × St :=
  match bs with
  | [] => (.stuck 6, s)
  | [b] => bindOne checks b item s
  | _ =>
    match items item with
    | some vs => bindMany checks bs vs s
    | none => (.stuck 7, s)

/-- elements seen by a nested pattern / nested argument: lists and tuples -/
def elems : V → Option (List V)
  | .list xs => some xs
  | .tuple xs => some xs
  | _ => none

/- function arguments (assert mode), `k` bounds the nesting depth: an id or wildcard is bound and
then asserted (`compile_arg`), a nested `(p, q)` first needs a list/tuple of exactly that size
(`CheckSizeEqual`; anything else is a runtime error the model does not describe) -/
mutual
def bindArg (checks : Bool) : Nat → P → V → St → Res × St
  | 0, _, _, s => (.stuck 0, s)
  | _ + 1, .b x h, v, s => bindOne checks (x, h) v s
  | _ + 1, .lit _, _, s => (.stuck 11, s)
  | k + 1, .tup ps, v, s =>
    match elems v with
    | some xs => if xs.length = ps.length then bindArgs checks k ps xs s else (.stuck 12, s)
    | none => (.stuck 12, s)
def bindArgs (checks : Bool) : Nat → List P → List V → St → Res × St
  | 0, _, _, s => (.stuck 0, s)
  | _ + 1, [], _, s => (.ok .null, s)
  | k + 1, p :: ps, vs, s =>
    andThen (bindArg checks k p (vs.headD .null) s) fun _ s1 => bindArgs checks k ps vs.tail s1
end

/-- outcome of matching a pattern (check mode: never an error) -/
inductive PM where
  | yes | no | stuck
  deriving DecidableEq, Repr, Inhabited

/-- has the value a size (`Size` op)? lists and tuples: their elements; values without a size never
match a nested pattern; other sized values (strings, maps, ranges, objects) are not modelled -/
inductive Sized where
  | elems (xs : List V) | nosize | other

def sized : V → Sized
  | .list xs => .elems xs
  | .tuple xs => .elems xs
  | .str _ => .other
  | .map _ => .other
  | .obj _ _ _ _ => .other
  | .range _ _ => .other
  | .host _ _ _ _ => .other
  | _ => .nosize

/- `match` patterns (check mode, no `checks` parameter): `x: T` checks the value in a temporary and
copies it into `x` only on success (`CheckType` jumps on mismatch; /repo b55f52b), a hinted wildcard
checks a temporary too, a nested pattern
needs a list/tuple of exactly that size and then matches element by element (bindings made before a
later mismatch stay, as in the register machine) -/
mutual
def patM : Nat → P → V → St → PM × St
  | 0, _, _, s => (.stuck, s)
  | _ + 1, .b x h, v, s =>
    match h with
    | none => (.yes, s.setOpt x v)
    | some h => if check h.name h.opt v then (.yes, s.setOpt x v) else (.no, s)
  | _ + 1, .lit n, v, s => ((match v with | .int m => if m = n then PM.yes else PM.no | _ => PM.no), s)
  | k + 1, .tup ps, v, s =>
    match sized v with
    | .elems xs => if xs.length = ps.length then patsM k ps xs s else (.no, s)
    | .nosize => (.no, s)
    | .other => (.stuck, s)
def patsM : Nat → List P → List V → St → PM × St
  | 0, _, _, s => (.stuck, s)
  | _ + 1, [], _, s => (.yes, s)
  | k + 1, p :: ps, vs, s =>
    match patM k p (vs.headD .null) s with
    | (.yes, s1) => patsM k ps vs.tail s1
    | r => r
end

/-- the `or` alternatives of one arm, in order: a failed alternative passes on to the next one -/
def altsM (k : Nat) : List (List P) → List V → St → PM × St
  | [], _, s => (.no, s)
  | alt :: alts, vs, s =>
    match patsM k alt vs s with
    | (.no, s1) => altsM k alts vs s1
    | r => r

/-- patterns of an arm; an arm without alternatives is `else` -/
def armM (k : Nat) (alts : List (List P)) (vs : List V) (s : St) : PM × St :=
  if alts.isEmpty then (.yes, s) else altsM k alts vs s

/-- first typed `catch` whose hint accepts the caught value, else the final untyped one -/
def selectCatch (cv : V) : List CatchArm → Option Var → Expr → St → Expr × St
  | [], x, final, s => (final, s.setOpt x cv)
  | .mk y h body :: rest, x, final, s =>
    if check h.name h.opt cv then (body, s.setOpt y cv) else selectCatch cv rest x final s

mutual

def eval (checks : Bool) (F : Funs) : Nat → Expr → St → Res × St
  | 0, _, s => (.stuck 0, s)
  | _ + 1, .lit v, s => (.ok v, s)
  | _ + 1, .var x, s =>
    match lookupVar s.env x with
    | some v => (.ok v, s)
    | none => (.stuck 1, s)
  | n + 1, .add a b, s =>
    andThen (eval checks F n a s) fun va s1 =>
    andThen (eval checks F n b s1) fun vb s2 =>
      match va, vb with
      | .int x, .int y => (.ok (.int (x + y)), s2)
      | _, _ => (.stuck 2, s2)
  | n + 1, .lt a b, s =>
    andThen (eval checks F n a s) fun va s1 =>
    andThen (eval checks F n b s1) fun vb s2 =>
      match va, vb with
      | .int x, .int y => (.ok (.bool (decide (x < y))), s2)
      | _, _ => (.stuck 2, s2)
  | n + 1, .typeOf e, s =>
    andThen (eval checks F n e s) fun v s1 => (.ok (.str (typeName v)), s1)
  | n + 1, .letH x h e, s =>
    andThen (eval checks F n e s) fun v s1 =>
    andThen (assertHint checks h v (s1.setOpt x v)) fun _ s2 => (.ok v, s2)
  | n + 1, .letTemps bs es, s =>
    andThen (evalArgs checks F n es s) fun r s1 =>
      match r with
      | .tuple vs =>
        if vs.length ≠ bs.length then (.stuck 13, s1)
        else andThen (bindMany checks bs vs s1) fun _ s2 => (.ok (.tuple vs), s2)
      | _ => (.stuck 5, s1)
  | n + 1, .letUnpack bs e, s =>
    andThen (eval checks F n e s) fun v s1 =>
      match v with
      | .gen i genv started pc =>
        andThen (unpackGen checks F n bs i genv started pc s1) fun _ s2 => (.ok v, s2)
      | _ =>
        match items v with
        | some xs => andThen (bindMany checks bs xs s1) fun _ s2 => (.ok v, s2)
        | none => (.stuck 4, s1)
  | n + 1, .seq a b, s =>
    andThen (eval checks F n a s) fun _ s1 => eval checks F n b s1
  | n + 1, .emit e, s =>
    andThen (eval checks F n e s) fun v s1 => (.ok .null, { s1 with trace := v :: s1.trace })
  | n + 1, .ite c t e, s =>
    andThen (eval checks F n c s) fun cv s1 =>
      if truthy cv then eval checks F n t s1 else eval checks F n e s1
  | n + 1, .forIn bs it body, s =>
    andThen (eval checks F n it s) fun iv s1 =>
      match iv with
      | .gen i genv started pc => forGen checks F n bs i genv started pc body .null s1
      | _ =>
        match items iv with
        | some xs => forItems checks F n bs xs body .null s1
        | none => (.stuck 4, s1)
  | n + 1, .call f args, s =>
    andThen (eval checks F n f s) fun fv s1 =>
    andThen (evalArgs checks F n args s1) fun av s2 =>
      match fv, av with
      | .fn i, .tuple vs =>
        match F[i]? with
        | some ⟨params, out, .plain body⟩ =>
          if params.length ≠ vs.length then (.stuck 3, s2)
          else
            restore s2 <|
              andThen (bindArgs checks (n + 2) params vs { s2 with env := [], out := out }) fun _ s3 =>
              bindR (eval checks F n body s3) (finishCall checks out)
        | _ => (.stuck 3, s2)
      | .genFn i, .tuple vs =>
        match F[i]? with
        | some ⟨params, _, .gen _⟩ =>
          if params.length ≠ vs.length then (.stuck 3, s2)
          else (.ok (.gen i ((List.range vs.length).zip vs) false 0), s2)
        | _ => (.stuck 3, s2)
      | _, _ => (.stuck 3, s2)
  | n + 1, .ret e, s =>
    andThen (eval checks F n e s) fun v s1 =>
    andThen (assertHint checks s1.out v s1) fun _ s2 => (.ret v, s2)
  | n + 1, .throw e, s =>
    andThen (eval checks F n e s) fun v s1 => (.err (.thrown v), s1)
  | n + 1, .tryC body typed x final, s =>
    bindR (eval checks F n body s) fun r s1 =>
      match r with
      | .err e =>
        bindR (selectCatch (catchVal e) typed x final s1) fun blk s2 => eval checks F n blk s2
      | r => (r, s1)
  | n + 1, .matchE scruts arms, s =>
    andThen (evalArgs checks F n scruts s) fun r s1 =>
      match r with
      | .tuple vs => matchArms checks F n vs arms s1
      | _ => (.stuck 5, s1)
termination_by structural n _ _ => n

/-- the arms of a `match`, in order: patterns (`armM`, no `checks`), then the `if` guard (a false
guard passes on to the next *arm*), then the body; no arm: null -/
def matchArms (checks : Bool) (F : Funs) : Nat → List V → List Arm → St → Res × St
  | 0, _, _, s => (.stuck 0, s)
  | _ + 1, _, [], s => (.ok .null, s)
  | n + 1, vs, .mk alts guard body :: rest, s =>
    bindR (armM n alts vs s) fun m s1 =>
      match m with
      | .yes =>
        match guard with
        | none => eval checks F n body s1
        | some g =>
          andThen (eval checks F n g s1) fun gv s2 =>
            if truthy gv then eval checks F n body s2 else matchArms checks F n vs rest s2
      | .no => matchArms checks F n vs rest s1
      | .stuck => (.stuck 10, s1)
termination_by structural n _ _ _ => n

/-- call arguments, left to right; `ok (tuple vs)` -/
def evalArgs (checks : Bool) (F : Funs) : Nat → List Expr → St → Res × St
  | 0, _, s => (.stuck 0, s)
  | _ + 1, [], s => (.ok (.tuple []), s)
  | n + 1, e :: es, s =>
    andThen (eval checks F n e s) fun v s1 =>
    andThen (evalArgs checks F n es s1) fun r s2 =>
      match r with
      | .tuple vs => (.ok (.tuple (v :: vs)), s2)
      | _ => (.stuck 5, s2)
termination_by structural n _ _ => n

/-- `for` over the elements of a container / range / string / iterator; value = last body value -/
def forItems (checks : Bool) (F : Funs) : Nat → List Binder → List V → Expr → V → St → Res × St
  | 0, _, _, _, _, s => (.stuck 0, s)
  | _ + 1, _, [], _, last, s => (.ok last, s)
  | n + 1, bs, v :: rest, body, _, s =>
    andThen (bindLoop checks bs v s) fun _ s1 =>
    andThen (eval checks F n body s1) fun w s2 =>
      forItems checks F n bs rest body w s2
termination_by structural n _ _ _ _ _ => n

/-- `for` over a generator: resume it in its own frame, come back, bind, run the body, repeat.
An error raised inside the generator reaches the consumer unchanged (`run_iterator_next` passes
`KIteratorOutput::Error` on as it is), so a typed `catch` around the loop sees the thrown value. -/
def forGen (checks : Bool) (F : Funs) : Nat → List Binder → Nat → List (Var × V) → Bool → Nat → Expr → V → St → Res × St
  | 0, _, _, _, _, _, _, _, s => (.stuck 0, s)
  | n + 1, bs, i, genv, started, pc, body, last, s =>
    andThen (restore s (genNext checks F n i started pc { s with env := genv, out := none })) fun r s1 =>
      match r with
      | .tuple [v, .gen i' genv' started' pc'] =>
        andThen (bindLoop checks bs v s1) fun _ s2 =>
        andThen (eval checks F n body s2) fun w s3 =>
          forGen checks F n bs i' genv' started' pc' body w s3
      | _ => (.ok last, s1)
termination_by structural n _ _ _ _ _ _ _ _ => n

/-- `let a, _: T, c = generator`: one resumption per target (also for wildcards); once the generator
has finished the remaining targets get null -/
def unpackGen (checks : Bool) (F : Funs) : Nat → List Binder → Nat → List (Var × V) → Bool → Nat → St → Res × St
  | 0, _, _, _, _, _, s => (.stuck 0, s)
  | _ + 1, [], _, _, _, _, s => (.ok .null, s)
  | n + 1, b :: bs, i, genv, started, pc, s =>
    andThen (restore s (genNext checks F n i started pc { s with env := genv, out := none })) fun r s1 =>
      match r with
      | .tuple [v, .gen i' genv' started' pc'] =>
        andThen (bindOne checks b v s1) fun _ s2 => unpackGen checks F n bs i' genv' started' pc' s2
      | _ => bindMany checks (b :: bs) [] s1
termination_by structural n _ _ _ _ _ _ => n

/-- resume generator `i` at statement `pc` (the state is the generator's own frame) until its next
`yield`: `ok (tuple [value, new generator state])`, or `ok null` when it has finished.
Argument hints are asserted on the first resumption; each `yield` asserts the output hint. -/
def genNext (checks : Bool) (F : Funs) : Nat → Nat → Bool → Nat → St → Res × St
  | 0, _, _, _, s => (.stuck 0, s)
  | n + 1, i, started, pc, s =>
    match F[i]? with
    | some ⟨params, out, .gen ss⟩ =>
      andThen
        (if started then (.ok .null, s)
         else bindArgs checks (n + 2) params (s.env.map (·.2)) { s with env := [] })
        fun _ s1 =>
          match ss[pc]? with
          | none => (.ok .null, s1)
          | some (.yld e) =>
            andThen (eval checks F n e s1) fun v s2 =>
            andThen (assertHint checks out v s2) fun _ s3 =>
              (.ok (.tuple [v, .gen i s3.env true (pc + 1)]), s3)
          | some (.exec e) =>
            bindR (eval checks F n e s1) fun r s2 =>
              match r with
              | .ok _ => genNext checks F n i true (pc + 1) s2
              | .ret _ => (.ok .null, s2)
              | r => (r, s2)
    | _ => (.stuck 8, s)
termination_by structural n _ _ _ _ => n

end

/-- run a program from the empty state; a top-level `return` ends it -/
def run (checks : Bool) (p : Prog) (fuel : Nat) : Res × St :=
  bindR (eval checks p.funs fuel p.main {}) fun r s =>
    match r with
    | .ret v => (.ok v, s)
    | r => (r, s)

end KotoVerif.HintEval
