/-
Model of Koto's string type and string library for property C15.

Mirrors (quirks included):
* `crates/parser/src/string_slice.rs`  — `StringSlice::{new, with_bounds, split}`
* `crates/parser/src/string.rs`        — `KString` storage forms `Full | Slice(u16) | SliceLarge`,
                                          `with_bounds`, `pop_front`, `pop_back`
* `crates/runtime/src/vm.rs`           — string arms of `run_index`, `run_slice`, `run_temp_index`,
                                          `validate_index`, `KRange::indices`
* `crates/runtime/src/core_lib/string.rs` and `core_lib/string/iterators.rs`
* `crates/parser/src/parser.rs`        — `escape_string_character` (simple arms come from
                                          `Gen/EscapeTable.lean`, regenerated from the source)

A string is its UTF-8 bytes (`List Nat`). Character boundaries and well-formedness are *computed*
from the bytes (`isBoundary`, `validUtf8`). Everything that needs Unicode tables — grapheme-cluster
segmentation, `char::is_whitespace`, case mappings — is an *input* (`UFacts`), supplied per request
by the harness from the crates the implementation itself uses; theorems are parametric in it.

There are two layers:
* byte level (`…B` functions): what the operation means on the byte string;
* `KStr` level: what the code does — offsets into a shared buffer, re-sliced with `withBounds`
  (which validates for the `Slice` forms and does **not** validate for `Full`), `unwrap()`s included
  (`none` = the `unwrap()` panics).
The driver runs the `KStr` level and cross-checks it against the byte level on every request.
-/
import KotoVerif.Gen.EscapeTable
import KotoVerif.Model.Utf8

namespace KotoVerif.Str
open KotoVerif.Utf8

/-! ## External Unicode facts -/

/-- Unicode facts the implementation takes from `unicode-segmentation` and `std`.
`gFirst s` / `gLast s` = byte length of the first / last extended grapheme cluster of the non-empty
string `s`; `isWhite`, `lower`, `upper` are per character (given as the character's UTF-8 bytes;
the images are UTF-8 too). -/
structure UFacts where
  gFirst : Bytes → Nat
  gLast : Bytes → Nat
  isWhite : Bytes → Bool
  lower : Bytes → Bytes
  upper : Bytes → Bytes

/-- The coarsest facts: every character is its own cluster, only ASCII white space, no case. Used for
`example`s and witnesses. -/
def UFacts.trivial : UFacts where
  gFirst s := ((charsOf s).head?.map List.length).getD 0
  gLast s := ((charsOf s).getLast?.map List.length).getD 0
  isWhite c := c == [32] || c == [9] || c == [10] || c == [13] || c == [11] || c == [12]
  lower c := c
  upper c := c

/-- `graphemes(true)` of a string, given the facts -/
def graphemes (U : UFacts) (s : Bytes) : List Bytes := Utf8.graphemes U.gFirst s

/-! ## Storage forms -/

inductive Form where
  | full      -- `Inner::Full(Ptr<String>)`: a whole shared string
  | fullV     -- the same, for a tree in which requests/C15-fix-1.diff is applied
              -- (`StringSlice::new` validates its bounds); not produced for the current code
  | slice     -- `Inner::Slice(StringSlice<u16>)`
  | large     -- `Inner::SliceLarge(Ptr<StringSlice<usize>>)`
  deriving DecidableEq, Repr

/-- `KString`: shared buffer + bounds. For `full`, `lo = 0` and `hi = buf.length`. -/
structure KStr where
  buf : Bytes
  lo : Nat
  hi : Nat
  form : Form
  deriving DecidableEq, Repr

def u16max : Nat := 65535

namespace KStr

/-- `From<String> for KString` -/
def ofString (bs : Bytes) : KStr := ⟨bs, 0, bs.length, .full⟩

/-- `From<String> for KString` in a tree with requests/C15-fix-1.diff applied -/
def ofStringV (bs : Bytes) : KStr := ⟨bs, 0, bs.length, .fullV⟩

/-- `From<StringSlice<usize>> for KString`: 16-bit bounds when they fit -/
def ofSlice (buf : Bytes) (lo hi : Nat) : KStr :=
  ⟨buf, lo, hi, if lo ≤ u16max ∧ hi ≤ u16max then .slice else .large⟩

/-- `as_str()` (`get_unchecked(lo..hi)`; outside the buffer this is undefined behaviour in the code —
the model returns what is there) -/
def bytes (s : KStr) : Bytes := (s.buf.drop s.lo).take (s.hi - s.lo)

def len (s : KStr) : Nat := s.hi - s.lo

end KStr

/-- `str::get(a..b)`: `a ≤ b`, both on character boundaries (which implies `b ≤ len`) -/
def strGet (bs : Bytes) (a b : Nat) : Option Bytes :=
  if a ≤ b ∧ isBoundary bs a ∧ isBoundary bs b then some ((bs.drop a).take (b - a)) else none

/-- `KString::with_bounds`.
* `Full`: `StringSlice::<usize>::new(string, bounds)` — only converts `usize → usize`, so **nothing**
  is validated (neither the range nor the character boundaries);
* `Slice` / `SliceLarge`: `StringSlice::with_bounds` — validated with `data.get(new_bounds)` against the
  whole shared buffer (not against the slice's own end: F-C15-10, Rust API level — the VM's call sites
  never ask beyond the end, `range_indices_in_bounds`).
`KStr.withBoundsApi … (ownEnd := true)` below describes a tree with requests/C15-fix-8.diff applied. -/
def KStr.withBounds (s : KStr) (a b : Nat) : Option KStr :=
  match s.form with
  | .full => some (KStr.ofSlice s.buf a b)
  | .fullV => if (strGet s.buf a b).isSome then some (KStr.ofSlice s.buf a b) else none
  | .slice =>
    if (strGet s.buf (a + s.lo) (b + s.lo)).isSome ∧ a + s.lo ≤ u16max ∧ b + s.lo ≤ u16max then
      some ⟨s.buf, a + s.lo, b + s.lo, .slice⟩
    else none
  | .large =>
    if (strGet s.buf (a + s.lo) (b + s.lo)).isSome then some (KStr.ofSlice s.buf (a + s.lo) (b + s.lo))
    else none

/-- the public `KString::with_bounds` as a host calls it (any `a`, `b`); `ownEnd = true`: with
requests/C15-fix-8.diff applied a request beyond the string's own end is refused in every form -/
def KStr.withBoundsApi (s : KStr) (a b : Nat) (ownEnd : Bool := false) : Option KStr :=
  if ownEnd ∧ b > s.len then none else s.withBounds a b

/-- `StringSlice::split(offset)` as used by `pop_front` / `pop_back`: `(popped-or-rest, rest-or-popped)`.
Only `is_char_boundary(lo + offset)` on the buffer is checked (not `≤ hi`). -/
def KStr.splitAt (s : KStr) (off : Nat) : Option (KStr × KStr) :=
  let p := s.lo + off
  match s.form with
  | .full => if isBoundary s.buf off then some (KStr.ofSlice s.buf 0 off, KStr.ofSlice s.buf off s.buf.length) else none
  | .fullV => if isBoundary s.buf off then some (KStr.ofSlice s.buf 0 off, KStr.ofSlice s.buf off s.buf.length) else none
  | .slice => if isBoundary s.buf p ∧ p ≤ u16max then some (⟨s.buf, s.lo, p, .slice⟩, ⟨s.buf, p, s.hi, .slice⟩) else none
  | .large => if isBoundary s.buf p then some (⟨s.buf, s.lo, p, .large⟩, ⟨s.buf, p, s.hi, .large⟩) else none

/-- the public `StringSlice::split(offset)` as a host calls it (any offset): the split point is only tested
with `is_char_boundary` on the shared buffer, not against the slice's own end, so an offset beyond the end
yields a first half that reads into the neighbouring text (and a second half with `start > end`:
undefined behaviour in `as_str`; F-C15-12, Rust API level — `pop_front`/`pop_back` never ask beyond the end).
`ownEnd = true`: with requests/C15-fix-10.diff applied such an offset is refused. -/
def KStr.splitAtApi (s : KStr) (off : Nat) (ownEnd : Bool := false) : Option (KStr × KStr) :=
  if ownEnd ∧ off > s.len then none else s.splitAt off

/-- results of the modelled operations -/
inductive Res where
  | str (bytes : Bytes)
  | null
  | bool (b : Bool)
  | int (n : Int)
  | float                       -- a float (its text/bits are never compared)
  | range (a b : Nat)
  | tuple (xs : List Res)
  | err (kind : String)         -- a runtime error (catchable)
  | panic (why : String)        -- an `unwrap()` on `None` / arithmetic overflow in the code
  deriving Repr, Inhabited

def Res.ofOpt : Option KStr → Res
  | some t => .str t.bytes
  | none => .null

/-- for call sites of the shape `with_bounds(..).unwrap()` -/
def Res.unwrap : Option KStr → Res
  | some t => .str t.bytes
  | none => .panic "unwrap"

/-! ## Indexing and slicing (vm.rs) -/

/-- `run_index`, `(Str, Number)` arm with `validate_index` (integer indices) -/
def index (s : KStr) (i : Int) : Res :=
  if i < 0 then .err "neg"
  else if i.toNat ≥ s.len then .err "index"
  else match s.withBounds i.toNat (i.toNat + 1) with
    | some t => .str t.bytes
    | none => .err "utf8"

def i64min : Int := -9223372036854775808
def i64max : Int := 9223372036854775807

def clampI (x lo hi : Int) : Int := if x < lo then lo else if x > hi then hi else x

/-- `KRange::indices(len)` after `as_bounded_range` (start `None` ↦ i64::MIN, end `None` ↦ i64::MAX) -/
def rangeIndices (start : Option Int) (stop : Option (Int × Bool)) (len : Nat) : Nat × Nat :=
  let st := start.getD i64min
  let en := match stop with
    | some (e, incl) => if incl then e + 1 else e
    | none => i64max
  let en := if en < st then st else en
  let a := clampI st 0 len
  let b := clampI en a len
  (a.toNat, b.toNat)

/-- `run_index`, `(Str, Range)` arm -/
def indexRange (s : KStr) (start : Option Int) (stop : Option (Int × Bool)) : Res :=
  let (a, b) := rangeIndices start stop s.len
  match s.withBounds a b with
  | some t => .str t.bytes
  | none => .err "utf8"

/-- `signed_index_to_unsigned` -/
def signedIndex (i : Int) (size : Nat) : Nat :=
  if i < 0 then size - min i.natAbs size else i.toNat

/-- `run_temp_index`, `Str` arm: `with_bounds(i..i+1).into()` (`None` becomes `Null`) -/
def tempIndex (s : KStr) (i : Int) : Res :=
  let k := signedIndex i s.len
  Res.ofOpt (s.withBounds k (k + 1))

/-- `run_slice`, `Str` arm -/
def sliceFrom (s : KStr) (i : Int) : Res := Res.ofOpt (s.withBounds (signedIndex i s.len) s.len)
def sliceTo (s : KStr) (i : Int) : Res := Res.ofOpt (s.withBounds 0 (signedIndex i s.len))

/-- With requests/C15-fix-7.diff applied (`strict = true`) a cut through a character in `TempIndex` /
`SliceFrom` / `SliceTo` is the same runtime error as for `s[i]`; the current code yields `null` (F-C15-9). -/
def unpackResult (strict : Bool) (xs : List Res) : Res :=
  if strict ∧ xs.any (fun r => match r with | .null => true | _ => false) then .err "utf8" else .tuple xs

/-- nested-argument unpacking `|(a₀, …, aₙ₋₁)|` applied to a string: `CheckSizeEqual` on the byte
length, then `TempIndex 0 … n-1` -/
def unpackExact (s : KStr) (n : Nat) (strict : Bool := false) : Res :=
  if s.len ≠ n then .err "size"
  else unpackResult strict ((List.range n).map (fun (i : Nat) => tempIndex s (i : Int)))

/-- `|(a₀, …, aₖ₋₁, rest...)|`: `CheckSizeMin k`, `TempIndex 0 … k-1`, `SliceFrom k` -/
def unpackHead (s : KStr) (k : Nat) (strict : Bool := false) : Res :=
  if s.len < k then .err "size"
  else unpackResult strict ((List.range k).map (fun (i : Nat) => tempIndex s (i : Int)) ++ [sliceFrom s k])

/-- `|(first..., z₁, …, zₖ)|`: `CheckSizeMin k`, `SliceTo -k`, `TempIndex -k … -1` -/
def unpackTail (s : KStr) (k : Nat) (strict : Bool := false) : Res :=
  if s.len < k then .err "size"
  else unpackResult strict
    (sliceTo s (-(k : Int)) :: (List.range k).map (fun (i : Nat) => tempIndex s ((i : Int) - (k : Int))))

/-! ## Byte-level helpers -/

/-- `str::find(pat)` — first byte offset at which `pat` occurs -/
def findAt (pat : Bytes) : Bytes → Option Nat
  | [] => if pat.isEmpty then some 0 else none
  | b :: bs => if pat.isPrefixOf (b :: bs) then some 0 else (findAt pat bs).map (· + 1)

def findByte (x : Nat) : Bytes → Option Nat
  | [] => none
  | b :: bs => if b = x then some 0 else (findByte x bs).map (· + 1)

/-- `separator.join(pieces)` -/
def joinWith (sep : Bytes) : List Bytes → Bytes
  | [] => []
  | [x] => x
  | x :: y :: r => x ++ sep ++ joinWith sep (y :: r)

/-! ## bytes / chars / char_indices -/

def bytesOp (s : KStr) : Res := .tuple (s.bytes.map (fun (b : Nat) => Res.int (b : Int)))

/-- `KString::pop_front`: `(popped, rest)`; `none` when empty; `some none` = the `unwrap()` panics -/
def popFront (U : UFacts) (s : KStr) : Option (Option (KStr × KStr)) :=
  if s.bytes.isEmpty then none
  else
    let g := U.gFirst s.bytes
    match s.form with
    | .full => some ((s.splitAt g).map fun (p, r) => (p, r))
    | .fullV => some (s.splitAt g)
    | .slice => some (s.splitAt g)
    | .large => some ((s.splitAt g).map fun (p, r) => (KStr.ofSlice p.buf p.lo p.hi, r))

/-- `KString::pop_back`: `(rest, popped)` -/
def popBack (U : UFacts) (s : KStr) : Option (Option (KStr × KStr)) :=
  if s.bytes.isEmpty then none
  else
    let g := U.gLast s.bytes
    match s.form with
    | .large => some ((s.splitAt (s.len - g)).map fun (r, p) => (r, KStr.ofSlice p.buf p.lo p.hi))
    | _ => some (s.splitAt (s.len - g))

/-- `string.chars()` collected: repeated `pop_front` -/
def charsLoop (U : UFacts) : Nat → KStr → Option (List KStr)
  | 0, _ => some []
  | fuel + 1, s =>
    match popFront U s with
    | none => some []
    | some none => none
    | some (some (p, r)) => (charsLoop U fuel r).map (p :: ·)

/-- `string.chars().reversed()` collected: repeated `pop_back` -/
def rcharsLoop (U : UFacts) : Nat → KStr → Option (List KStr)
  | 0, _ => some []
  | fuel + 1, s =>
    match popBack U s with
    | none => some []
    | some none => none
    | some (some (r, p)) => (rcharsLoop U fuel r).map (p :: ·)

def strTuple : Option (List KStr) → Res
  | some xs => .tuple (xs.map fun t => .str t.bytes)
  | none => .panic "unwrap"

def charsOp (U : UFacts) (s : KStr) : Res := strTuple (charsLoop U (s.len + 1) s)
def rcharsOp (U : UFacts) (s : KStr) : Res := strTuple (rcharsLoop U (s.len + 1) s)

/-- byte level: `chars` is the grapheme segmentation -/
def charsB (U : UFacts) (s : Bytes) : List Bytes := graphemes U s

/-- byte level `chars().reversed()`: repeatedly take the last cluster (`gLast`) -/
def rsegs (gLast : Bytes → Nat) : Nat → Bytes → List Bytes
  | 0, _ => []
  | fuel + 1, s =>
    if s.isEmpty then []
    else s.drop (s.length - gLast s) :: rsegs gLast fuel (s.take (s.length - gLast s))

def rcharsB (U : UFacts) (s : Bytes) : List Bytes := rsegs U.gLast (s.length + 1) s

/-- `CharIndices::next`, collected: ranges of the clusters of `input[index..]` -/
def charIndicesLoop (U : UFacts) (bs : Bytes) : Nat → Nat → List (Nat × Nat)
  | 0, _ => []
  | fuel + 1, idx =>
    match bs.drop idx with
    | [] => []
    | b :: r =>
      let g := U.gFirst (b :: r)
      (idx, idx + g) :: charIndicesLoop U bs fuel (idx + g)

def charIndicesOp (U : UFacts) (s : KStr) : Res :=
  .tuple ((charIndicesLoop U s.bytes (s.len + 1) 0).map fun (a, b) => .range a b)

/-! ## split -/

/-- byte level `split(pattern)` for a non-empty pattern: the remaining input is searched for the pattern,
the piece before it is emitted and the search resumes after it; a final piece (possibly empty) is always
emitted (`str::split`). The fuel is never the reason to stop when it exceeds the length
(`splitNE_fuel_irrelevant`). -/
def splitNE (pat : Bytes) : Nat → Bytes → List Bytes
  | 0, _ => []
  | fuel + 1, rest =>
    match findAt pat rest with
    | none => [rest]
    | some e => rest.take e :: splitNE pat fuel (rest.drop (e + pat.length))

/-- the empty pattern, after the first (empty) piece: one piece per character, then the empty rest -/
def splitEmptyTail : Nat → Bytes → List Bytes
  | 0, _ => []
  | fuel + 1, rest =>
    if rest.isEmpty then [[]]
    else rest.take (gFirstChar rest) :: splitEmptyTail fuel (rest.drop (gFirstChar rest))

/-- byte level `split(pattern)`. The empty pattern matches at every character boundary (`str::split`):
`''`, every character, `''`. -/
def splitB (pat : Bytes) (fuel : Nat) (s : Bytes) : List Bytes :=
  if pat.isEmpty then [] :: splitEmptyTail fuel s else splitNE pat fuel s

/-- `Split::next`, collected (offsets + `with_bounds(..).unwrap()`); state = `(start, started)`.
With an empty pattern the first call matches at `start`, every later call at the end of the next
character; when nothing is found the last piece `input[start..]` is yielded and `start = len + 1`. -/
def splitLoop (s : KStr) (pat : Bytes) : Nat → Nat → Bool → Option (List KStr)
  | 0, _, _ => some []
  | fuel + 1, start, started =>
    if start ≤ s.len then
      if pat.isEmpty then
        if started then
          match s.bytes.drop start with
          | [] =>
            match s.withBounds start s.len with
            | none => none
            | some t => (splitLoop s pat fuel (s.len + 1) true).map (t :: ·)
          | b :: r =>
            match s.withBounds start (start + gFirstChar (b :: r)) with
            | none => none
            | some t => (splitLoop s pat fuel (start + gFirstChar (b :: r)) true).map (t :: ·)
        else
          match s.withBounds start start with
          | none => none
          | some t => (splitLoop s pat fuel start true).map (t :: ·)
      else
        match findAt pat (s.bytes.drop start) with
        | some e =>
          match s.withBounds start (start + e) with
          | none => none
          | some t => (splitLoop s pat fuel (start + e + pat.length) true).map (t :: ·)
        | none =>
          match s.withBounds start s.len with
          | none => none
          | some t => (splitLoop s pat fuel (s.len + 1) true).map (t :: ·)
    else some []

def splitOp (s : KStr) (pat : Bytes) : Res := strTuple (splitLoop s pat (s.len + 3) 0 false)

/-- scan the clusters of `input[start..]` for the first one satisfying the predicate:
`(offset of the match relative to start, byte length of the last cluster looked at)` -/
def scanPred (U : UFacts) (pred : Bytes → Bool) : Nat → Bytes → Nat → Option Nat × Nat
  | 0, _, _ => (none, 0)
  | _ + 1, [], _ => (none, 0)
  | fuel + 1, b :: r, off =>
    let g := U.gFirst (b :: r)
    if pred ((b :: r).take g) then (some off, g)
    else match scanPred U pred fuel ((b :: r).drop g) (off + g) with
      | (some e, gl) => (some e, gl)
      | (none, gl) => (none, if ((b :: r).drop g).isEmpty then g else gl)

/-- `SplitWith::next`, collected. The predicate is applied to each grapheme cluster.
Current code: the loop runs while `start < len` and, when nothing matches, `start` becomes
`len + (length of the last cluster looked at)` — so a separator at the very end produces **no** trailing
empty piece (unlike `split(pattern)`; F-C15-6). `keepTrailing = true` describes a tree with
requests/C15-fix-4.diff applied: the loop runs while `start ≤ len` and ends with `start = len + 1`. -/
def splitWithLoop (U : UFacts) (pred : Bytes → Bool) (s : KStr) (keepTrailing : Bool := false) :
    Nat → Nat → Option (List KStr)
  | 0, _ => some []
  | fuel + 1, start =>
    if (if keepTrailing then decide (start ≤ s.len) else decide (start < s.len)) then
      let (m, gl) := scanPred U pred (s.len + 1) (s.bytes.drop start) 0
      let e := match m with
        | some e => start + e
        | none => s.len
      let next := match m with
        | some e => start + e + gl
        | none => if keepTrailing then s.len + 1 else s.len + gl
      match s.withBounds start e with
      | none => none
      | some t => (splitWithLoop U pred s keepTrailing fuel next).map (t :: ·)
    else some []

def splitWithOp (U : UFacts) (pred : Bytes → Bool) (s : KStr) (keepTrailing : Bool := false) : Res :=
  strTuple (splitWithLoop U pred s keepTrailing (s.len + 3) 0)

/-! ## lines -/

def stripCR (l : Bytes) : Bytes := if l.getLast? = some 13 then l.dropLast else l

/-- byte level `lines`: pieces between `\n`; one `\r` directly before a `\n` is removed; no piece after
a final `\n`; the empty string has no lines -/
def linesB : Bytes → Bytes → List Bytes
  | [], cur => if cur.isEmpty then [] else [cur]
  | b :: rest, cur => if b = 10 then stripCR cur :: linesB rest [] else linesB rest (cur ++ [b])

/-- `Lines::next`, collected -/
def linesLoop (s : KStr) : Nat → Nat → Option (List KStr)
  | 0, _ => some []
  | fuel + 1, start =>
    if start < s.len then
      let rem := s.bytes.drop start
      let (e, nl) := match findByte 10 rem with
        | some e => if e > 0 ∧ rem[e - 1]? = some 13 then (start + e - 1, 2) else (start + e, 1)
        | none => (s.len, 1)
      match s.withBounds start e with
      | none => none
      | some t => (linesLoop s fuel (e + nl)).map (t :: ·)
    else some []

def linesOp (s : KStr) : Res := strTuple (linesLoop s (s.len + 1) 0)

/-! ## trim / strip -/

def flat (xs : List Bytes) : Bytes := xs.flatten

/-- `str::trim_start` -/
def trimStartB (U : UFacts) (bs : Bytes) : Bytes := flat ((charsOf bs).dropWhile U.isWhite)
/-- `str::trim_end` -/
def trimEndB (U : UFacts) (bs : Bytes) : Bytes := flat ((charsOf bs).reverse.dropWhile U.isWhite).reverse
def trimB (U : UFacts) (bs : Bytes) : Bytes := trimEndB U (trimStartB U bs)

/-- `str::trim_start_matches(pattern: &str)`: the pattern is removed from the front as often as it
matches; the empty pattern removes nothing -/
def trimStartMatchesB (pat : Bytes) : Nat → Bytes → Bytes
  | 0, bs => bs
  | fuel + 1, bs =>
    if pat.isEmpty then bs
    else if pat.isPrefixOf bs then trimStartMatchesB pat fuel (bs.drop pat.length) else bs

def trimEndMatchesB (pat : Bytes) (bs : Bytes) : Bytes :=
  (trimStartMatchesB pat.reverse bs.length bs.reverse).reverse

/-- byte level `trim(pattern)`: all leading matches are removed first, then all trailing matches **of what
remains** (`s.trim_start_matches(p).trim_end_matches(p)`) — not the two trims taken independently on the
input, which differs when occurrences at the two ends overlap (`'aaa'.trim 'aa'` is `'a'`) -/
def trimMatchesB (pat bs : Bytes) : Bytes :=
  trimEndMatchesB pat (trimStartMatchesB pat bs.length bs)

/-- the *wrong* reading (both ends trimmed independently on the whole input, the ranges intersected) —
defined only to state that the model differs from it -/
def trimMatchesIndependentB (pat bs : Bytes) : Bytes :=
  let a := bs.length - (trimStartMatchesB pat bs.length bs).length
  let b := (trimEndMatchesB pat bs).length
  (bs.drop a).take (b - a)

def trimOp (U : UFacts) (s : KStr) (pat : Option Bytes) : Res :=
  let b := s.bytes
  let ts := match pat with
    | none => trimStartB U b
    | some p => trimStartMatchesB p b.length b
  let te := match pat with
    | none => trimEndB U ts
    | some p => trimEndMatchesB p ts
  let newStart := s.len - ts.length
  Res.unwrap (s.withBounds newStart (newStart + te.length))

def trimStartOp (U : UFacts) (s : KStr) (pat : Option Bytes) : Res :=
  let b := s.bytes
  let ts := match pat with
    | none => trimStartB U b
    | some p => trimStartMatchesB p b.length b
  Res.unwrap (s.withBounds (s.len - ts.length) s.len)

def trimEndOp (U : UFacts) (s : KStr) (pat : Option Bytes) : Res :=
  let b := s.bytes
  let te := match pat with
    | none => trimEndB U b
    | some p => trimEndMatchesB p b
  Res.unwrap (s.withBounds 0 te.length)

def stripPrefixOp (s : KStr) (pat : Bytes) : Res :=
  if pat.isPrefixOf s.bytes then
    let stripped := s.len - pat.length
    Res.unwrap (s.withBounds (s.len - stripped) s.len)
  else .null

def stripSuffixOp (s : KStr) (pat : Bytes) : Res :=
  if pat.isSuffixOf s.bytes then Res.unwrap (s.withBounds 0 (s.len - pat.length))
  else .null

/-! ## replace / contains / starts_with / ends_with / repeat / case -/

/-- `str::replace(pat, to)` for a non-empty pattern -/
def replaceNE (pat to : Bytes) : Nat → Bytes → Bytes
  | 0, rest => rest
  | fuel + 1, rest =>
    match findAt pat rest with
    | none => rest
    | some e => rest.take e ++ to ++ replaceNE pat to fuel (rest.drop (e + pat.length))

/-- `str::replace`: the empty pattern matches before every character and at the end -/
def replaceB (pat to bs : Bytes) : Bytes :=
  if pat.isEmpty then to ++ flat ((charsOf bs).map (· ++ to))
  else replaceNE pat to (bs.length + 1) bs

def containsB (pat bs : Bytes) : Bool := (findAt pat bs).isSome
def startsWithB (pat bs : Bytes) : Bool := pat.isPrefixOf bs
def endsWithB (pat bs : Bytes) : Bool := pat.isSuffixOf bs

def repeatB (n : Nat) (bs : Bytes) : Bytes := flat (List.replicate n bs)

def isizeMax : Nat := 9223372036854775807

/-- `repeat`: negative counts are an error. `str::repeat` computes `len * n` with
`checked_mul(..).expect("capacity overflow")` and allocates that capacity, which panics above `isize::MAX`
(F-C15-11; sizes below that which merely cannot be allocated are outside the model).
`checked = true` describes a tree with requests/C15-fix-9.diff applied (a runtime error instead). -/
def repeatOp (s : KStr) (n : Int) (checked : Bool := false) : Res :=
  if n < 0 then .err "negative"
  else if s.len = 0 then .str []
  else if s.len * n.toNat > isizeMax then (if checked then .err "toolarge" else .panic "capacity overflow")
  else .str (repeatB n.toNat s.bytes)

/-- `s.chars().flat_map(|c| c.to_lowercase())` — per character, no context -/
def lowerB (U : UFacts) (bs : Bytes) : Bytes := flat ((charsOf bs).map U.lower)
def upperB (U : UFacts) (bs : Bytes) : Bytes := flat ((charsOf bs).map U.upper)

/-! ## to_number -/

/-- `(b as char).to_digit(radix)` for a byte -/
def digitVal (radix : Nat) (b : Nat) : Option Nat :=
  let d :=
    if 48 ≤ b ∧ b ≤ 57 then some (b - 48)
    else if 97 ≤ b ∧ b ≤ 122 then some (b - 97 + 10)
    else if 65 ≤ b ∧ b ≤ 90 then some (b - 65 + 10)
    else none
  match d with
  | some d => if d < radix then some d else none
  | none => none

def digitsVal (radix : Nat) : Bytes → Nat → Option Nat
  | [], acc => some acc
  | b :: bs, acc =>
    match digitVal radix b with
    | some d => digitsVal radix bs (acc * radix + d)
    | none => none

/-- `i64::from_str_radix` (sign, at least one digit, overflow is an error) -/
def fromStrRadix (radix : Nat) (bs : Bytes) : Option Int :=
  match bs with
  | [] => none
  | [43] => none
  | [45] => none
  | 43 :: ds => (digitsVal radix ds 0).bind fun m => if (m : Int) ≤ i64max then some (m : Int) else none
  | 45 :: ds => (digitsVal radix ds 0).bind fun m => if -(m : Int) ≥ i64min then some (-(m : Int)) else none
  | ds => (digitsVal radix ds 0).bind fun m => if (m : Int) ≤ i64max then some (m : Int) else none

def isDigit (b : Nat) : Bool := decide (48 ≤ b) && decide (b ≤ 57)

def lowerAscii (b : Nat) : Nat := if 65 ≤ b ∧ b ≤ 90 then b + 32 else b

/-- what `str::parse::<f64>()` accepts: `[+-]? (inf | infinity | nan | digits [. digits] [e [+-] digits])`
with at least one mantissa digit -/
def isFloatSyntax (bs : Bytes) : Bool :=
  let body := match bs with
    | 43 :: r => r
    | 45 :: r => r
    | r => r
  let low := body.map lowerAscii
  if low == [105, 110, 102] || low == [105, 110, 102, 105, 110, 105, 116, 121] || low == [110, 97, 110] then true
  else
    let d1 := body.takeWhile isDigit
    let r1 := body.dropWhile isDigit
    let (d2, r2) := match r1 with
      | 46 :: r => (r.takeWhile isDigit, r.dropWhile isDigit)
      | r => ([], r)
    if d1.length + d2.length = 0 then false
    else match r2 with
      | [] => true
      | e :: r =>
        if e = 101 ∨ e = 69 then
          let r := match r with
            | 43 :: r' => r'
            | 45 :: r' => r'
            | r' => r'
          !r.isEmpty && r.all isDigit
        else false

/-- `strip_prefix("0x")` / `("0o")` / `("0b")`: the radix and the rest -/
def radixPrefix : Bytes → Option (Nat × Bytes)
  | 48 :: 120 :: r => some (16, r)
  | 48 :: 111 :: r => some (8, r)
  | 48 :: 98 :: r => some (2, r)
  | _ => none

/-- `string.to_number()` without a base -/
def toNumberB (bs : Bytes) : Res :=
  let int? :=
    match radixPrefix bs with
    | some (radix, r) => fromStrRadix radix r
    | none => fromStrRadix 10 bs
  match int? with
  | some n => .int n
  | none => if isFloatSyntax bs then .float else .null

/-- `string.to_number(base)` -/
def toNumberBaseB (bs : Bytes) (base : Int) : Res :=
  if base < 2 ∨ base > 36 then .err "base"
  else match fromStrRadix base.toNat bs with
    | some n => .int n
    | none => .null

/-! ## Escape codes in string literals (`parse_string` / `escape_string_character`) -/

def hexVal (b : Nat) : Option Nat :=
  if 48 ≤ b ∧ b ≤ 57 then some (b - 48)
  else if 97 ≤ b ∧ b ≤ 102 then some (b - 87)
  else if 65 ≤ b ∧ b ≤ 70 then some (b - 55)
  else none

/-- a character (given as its bytes) that is one ASCII byte -/
def ascii? : Bytes → Option Nat
  | [b] => some b
  | _ => none

/-- consume hex digits of `\u{…}`: value so far, and whether the `u32` accumulator overflowed
(`code *= 16` panics with overflow checks, wraps without) -/
def hexRun : List Bytes → Nat → Bool → Nat × Bool × List Bytes
  | [], acc, ovf => (acc, ovf, [])
  | c :: cs, acc, ovf =>
    match (ascii? c).bind hexVal with
    | some d =>
      let m := acc * 16
      let ovf' := ovf || decide (m ≥ 4294967296) || decide (m % 4294967296 + d ≥ 4294967296)
      hexRun cs ((m % 4294967296 + d) % 4294967296) ovf'
    | none => (acc, ovf, c :: cs)

/-- skip white space other than `\n` at the start of a continued line -/
def skipLineWs (U : UFacts) : List Bytes → List Bytes
  | [] => []
  | c :: cs => if U.isWhite c ∧ c ≠ [10] then skipLineWs U cs else c :: cs

/-- which repairs of `escape_string_character` are in the tree: `overflow` = requests/C15-fix-3.diff (the
`\u{…}` accumulator is checked), `digits` = requests/C15-fix-11.diff (one to six hex digits are required) -/
structure EscCfg where
  overflow : Bool := false
  digits : Bool := false
  deriving DecidableEq, Repr

/-- one escape sequence, the backslash already consumed: `(pushed bytes, rest)` or an error name -/
def escapeOne (U : UFacts) (checked : EscCfg := {}) : List Bytes → Except String (Bytes × List Bytes)
  | [] => .error "UnexpectedEscapeInString"
  | c :: cs =>
    match ascii? c with
    | none => .error "UnexpectedEscapeInString"
    | some b =>
      match KotoVerif.Gen.simpleEscape b with
      | some r => .ok ([r], cs)
      | none =>
        if b = 10 then .ok ([], skipLineWs U cs)
        else if b = 13 then
          (match cs with
           | [10] :: cs' => .ok ([], skipLineWs U cs')
           | _ => .ok ([], cs))
        else if b = 120 then
          (match cs with
           | [] => .error "UnterminatedNumericEscapeCode"
           | c1 :: cs1 =>
             match (ascii? c1).bind hexVal with
             | none => .error "UnexpectedCharInNumericEscapeCode"
             | some d1 =>
               match cs1 with
               | [] => .error "UnterminatedNumericEscapeCode"
               | c2 :: cs2 =>
                 match (ascii? c2).bind hexVal with
                 | none => .error "UnexpectedCharInNumericEscapeCode"
                 | some d2 =>
                   if d1 * 16 + d2 ≤ 0x7f then .ok ([d1 * 16 + d2], cs2)
                   else .error "AsciiEscapeCodeOutOfRange")
        else if b = 117 then
          (match cs with
           | [] => .error "UnterminatedNumericEscapeCode"
           | c1 :: cs1 =>
             if c1 ≠ [123] then .error "UnexpectedCharInNumericEscapeCode"
             else
               let (code, ovf, rest) := hexRun cs1 0 false
               if ovf then .error (if checked.overflow then "UnicodeEscapeCodeOutOfRange" else "PANIC:overflow")
               else match rest with
                 | [] => .error "UnterminatedNumericEscapeCode"
                 | c2 :: cs2 =>
                   if c2 = [125] then
                     -- current code: any number of digits, none included (`\u{}` is U+0000; F-C15-13)
                     (if checked.digits ∧ cs1.length - rest.length = 0 then .error "UnexpectedCharInNumericEscapeCode"
                      else if checked.digits ∧ cs1.length - rest.length > 6 then .error "UnicodeEscapeCodeOutOfRange"
                      else if isScalar code then .ok (utf8Enc code, cs2) else .error "UnicodeEscapeCodeOutOfRange")
                   else .error "UnexpectedCharInNumericEscapeCode")
        else .error "UnexpectedEscapeInString"

/-- escape processing of one `StringLiteral` token (`process_escape_codes = true`) -/
def unescapeLoop (U : UFacts) (checked : EscCfg := {}) : Nat → List Bytes → Except String Bytes
  | 0, _ => .ok []
  | _ + 1, [] => .ok []
  | fuel + 1, c :: cs =>
    if c = [92] then
      match escapeOne U checked cs with
      | .error e => .error e
      | .ok (out, rest) =>
        match unescapeLoop U checked fuel rest with
        | .error e => .error e
        | .ok tail => .ok (out ++ tail)
    else
      match unescapeLoop U checked fuel cs with
      | .error e => .error e
      | .ok tail => .ok (c ++ tail)

/-- `checked` says which repairs are in the tree (`EscCfg`) -/
def unescape (U : UFacts) (lit : Bytes) (checked : EscCfg := {}) : Except String Bytes :=
  unescapeLoop U checked (lit.length + 1) (charsOf lit)

end KotoVerif.Str
